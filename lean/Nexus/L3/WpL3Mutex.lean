/-
L3: test-and-set under a mutex lets one goroutine through.

`realm.close` is `Lock; defer Unlock; if closed { return }; closed = true; …` (table fact
`C06.single_closer`: this prefix, the only assignment to `realm.closed`, the lock released only by the
deferred call). Any number of goroutines may call it (Router.Close inside the router goroutine,
RemoveRealm outside). The model: goroutine `i` is `idle`, then holds the lock (`locked`), reads the
flag (`bail` if set, `willSet` if not), sets it (`inside`: past the test, still holding the lock), and
releases the lock when it returns (`done`). The test and the assignment are separate steps — without
the lock two goroutines could both read `false`. `single_pass`: in every reachable state at most one
goroutine has passed the test; `later_callers_bail`: once one has, every other caller that gets the
lock leaves at the test.
-/
namespace Nexus.L3.WpL3.Mutex

inductive Pc | idle | locked | willSet | inside | bail | done
  deriving DecidableEq, Repr

structure St where
  flag : Bool
  holder : Option Nat
  pc : Nat → Pc
  passed : List Nat

def upd (f : Nat → Pc) (i : Nat) (v : Pc) : Nat → Pc := fun x => if x = i then v else f x

theorem upd_same (f : Nat → Pc) (i : Nat) (v : Pc) : upd f i v i = v := by simp [upd]
theorem upd_other (f : Nat → Pc) {i x : Nat} (v : Pc) (h : x ≠ i) : upd f i v x = f x := by simp [upd, h]

/-- Holding the lock. -/
def Pc.holds : Pc → Bool
  | .locked | .willSet | .inside | .bail => true
  | _ => false

inductive Step : St → St → Prop
  | lock {s : St} (i : Nat) : s.pc i = .idle → s.holder = none →
      Step s { s with holder := some i, pc := upd s.pc i .locked }
  | testSet {s : St} (i : Nat) : s.pc i = .locked → s.flag = true →
      Step s { s with pc := upd s.pc i .bail }
  | testClear {s : St} (i : Nat) : s.pc i = .locked → s.flag = false →
      Step s { s with pc := upd s.pc i .willSet }
  | set {s : St} (i : Nat) : s.pc i = .willSet →
      Step s { s with flag := true, pc := upd s.pc i .inside, passed := i :: s.passed }
  | leave {s : St} (i : Nat) : (s.pc i = .inside ∨ s.pc i = .bail) →
      Step s { s with holder := none, pc := upd s.pc i .done }

def init : St := { flag := false, holder := none, pc := fun _ => .idle, passed := [] }

inductive Reach : St → Prop
  | init : Reach init
  | step {s s' : St} : Reach s → Step s s' → Reach s'

structure Inv (s : St) : Prop where
  holder : ∀ i, (s.pc i).holds = true → s.holder = some i
  clear : s.flag = false → s.passed = []
  one : s.passed.length ≤ 1
  willSet : ∀ i, s.pc i = .willSet → s.flag = false

theorem inv_init : Inv init :=
  ⟨fun _ h => by simp [init, Pc.holds] at h, fun _ => rfl, Nat.zero_le _, fun _ h => by simp [init] at h⟩

theorem inv_step {s s' : St} (hi : Inv s) (hs : Step s s') : Inv s' := by
  cases hs with
  | lock i hpc hh =>
    refine ⟨?_, hi.clear, hi.one, ?_⟩
    · intro j hj
      by_cases e : j = i
      · subst e; rfl
      · have hj' : (s.pc j).holds = true := by
          have : (upd s.pc i .locked j).holds = true := hj
          rwa [upd_other _ _ e] at this
        have := hi.holder j hj'
        rw [hh] at this
        cases this
    · intro j hj
      by_cases e : j = i
      · subst e
        have : upd s.pc j .locked j = .willSet := hj
        rw [upd_same] at this
        cases this
      · have : upd s.pc i .locked j = .willSet := hj
        rw [upd_other _ _ e] at this
        exact hi.willSet j this
  | testSet i hpc hf =>
    refine ⟨?_, hi.clear, hi.one, ?_⟩
    · intro j hj
      by_cases e : j = i
      · subst e; exact hi.holder j (by rw [hpc]; rfl)
      · have : (upd s.pc i .bail j).holds = true := hj
        rw [upd_other _ _ e] at this
        exact hi.holder j this
    · intro j hj
      by_cases e : j = i
      · subst e
        have : upd s.pc j .bail j = .willSet := hj
        rw [upd_same] at this
        cases this
      · have : upd s.pc i .bail j = .willSet := hj
        rw [upd_other _ _ e] at this
        exact hi.willSet j this
  | testClear i hpc hf =>
    refine ⟨?_, hi.clear, hi.one, ?_⟩
    · intro j hj
      by_cases e : j = i
      · subst e; exact hi.holder j (by rw [hpc]; rfl)
      · have : (upd s.pc i .willSet j).holds = true := hj
        rw [upd_other _ _ e] at this
        exact hi.holder j this
    · intro _ _; exact hf
  | set i hpc =>
    have hf : s.flag = false := hi.willSet i hpc
    have hh : s.holder = some i := hi.holder i (by rw [hpc]; rfl)
    refine ⟨?_, ?_, ?_, ?_⟩
    · intro j hj
      by_cases e : j = i
      · subst e; exact hh
      · have : (upd s.pc i .inside j).holds = true := hj
        rw [upd_other _ _ e] at this
        exact hi.holder j this
    · intro h; cases h
    · show (i :: s.passed).length ≤ 1
      rw [hi.clear hf]
      exact Nat.le_refl 1
    · intro j hj
      by_cases e : j = i
      · subst e
        have : upd s.pc j .inside j = .willSet := hj
        rw [upd_same] at this
        cases this
      · have hj' : s.pc j = .willSet := by
          have : upd s.pc i .inside j = .willSet := hj
          rwa [upd_other _ _ e] at this
        have := hi.holder j (by rw [hj']; rfl)
        rw [hh] at this
        injection this with this
        exact absurd this.symm e
  | leave i hpc =>
    have hh : s.holder = some i := hi.holder i (by rcases hpc with h | h <;> rw [h] <;> rfl)
    refine ⟨?_, hi.clear, hi.one, ?_⟩
    · intro j hj
      by_cases e : j = i
      · subst e
        have : (upd s.pc j .done j).holds = true := hj
        rw [upd_same] at this
        cases this
      · have hj' : (s.pc j).holds = true := by
          have : (upd s.pc i .done j).holds = true := hj
          rwa [upd_other _ _ e] at this
        have := hi.holder j hj'
        rw [hh] at this
        injection this with this
        exact absurd this.symm e
    · intro j hj
      by_cases e : j = i
      · subst e
        have : upd s.pc j .done j = .willSet := hj
        rw [upd_same] at this
        cases this
      · have : upd s.pc i .done j = .willSet := hj
        rw [upd_other _ _ e] at this
        exact hi.willSet j this

theorem inv_reach {s : St} (h : Reach s) : Inv s := by
  induction h with
  | init => exact inv_init
  | step _ hs ih => exact inv_step ih hs

/-- **At most one goroutine ever gets past the test.** -/
theorem single_pass {s : St} (h : Reach s) : s.passed.length ≤ 1 := (inv_reach h).one

/-- Once the flag is set, nobody is between the test and the assignment any more: every caller that
    holds the lock afterwards finds the flag set and leaves at the test. -/
theorem later_callers_bail {s : St} (h : Reach s) (hf : s.flag = true) : ∀ i, s.pc i ≠ .willSet := by
  intro i hi
  have := (inv_reach h).willSet i hi
  rw [hf] at this
  cases this

/-- Non-vacuity: two callers; the first passes, the second gets the lock afterwards and bails. -/
example : ∃ s, Reach s ∧ s.passed = [0] ∧ s.pc 1 = .bail ∧ s.pc 0 = .done := by
  refine ⟨_, .step (.step (.step (.step (.step (.step .init (.lock 0 rfl rfl)) (.testClear 0 rfl rfl))
    (.set 0 rfl)) (.leave 0 (Or.inl rfl))) (.lock 1 rfl rfl)) (.testSet 1 rfl rfl), rfl, rfl, rfl⟩

end Nexus.L3.WpL3.Mutex
