/-
L3 (ii): the shutdown protocol as a transition system, and `no_post_after_close`.

One *closer* runs a straight-line program (`prog`, regenerated from the statement order of
`realm.close` by gen target `sites`, table (g)): set a flag, wait until no actor of a role is
alive, close a channel. Around it live *actors*, grouped in roles. At any moment an actor may
post to a channel its role posts to (`posts`, derived from table (c)), may exit, and new actors
may appear according to the role's spawn rule: never (`initial`: the realm's fixed goroutines),
from outside while a flag is unset (`env`: a session handler is registered under the close lock
only while `realm.closed` is false), or by a live actor of a parent role (`child`). An actor of a
role with `exitNeeds r = some q` exits only when no `q` is alive (the meta-procedure handler
leaves when the meta session's handler has said GOODBYE, which is the last thing that one does).

A post to a closed channel is a panic in Go (or, for the meta peer's unbuffered channel whose
reader has left, a goroutine blocked for ever). `no_post_after_close`: in every reachable
configuration, a role that is *quiesced* for a channel — waited for before the channel's close
statement at a point after which it cannot be respawned — has no live actor once the channel is
closed. `quiesced` is decidable; the instantiation evaluates it on the regenerated tables.

`exec`/`reach_of_exec` give concrete runs, used to exhibit the configurations in which a role
that is *not* quiesced does post to a closed channel.
-/
namespace Nexus.L3.Shutdown

inductive Instr (Role Chan Flag : Type)
  | setFlag (f : Flag)
  | await (r : Role)
  | closeChan (c : Chan)
  | skip
  deriving DecidableEq, Repr

inductive SpawnRule (Role Flag : Type)
  | initial
  | env (gate : Option Flag)
  | child (parent : Role)
  deriving DecidableEq, Repr

structure Sys (Role Chan Flag : Type) where
  prog : List (Instr Role Chan Flag)
  posts : Role → Chan → Bool
  rule : Role → SpawnRule Role Flag
  exitNeeds : Role → Option Role

structure Cfg (Role Chan Flag : Type) where
  pc : Nat
  alive : Role → Nat
  flag : Flag → Bool
  closed : Chan → Bool

variable {Role Chan Flag : Type} [DecidableEq Role] [DecidableEq Chan] [DecidableEq Flag]

def upd {α β : Type} [DecidableEq α] (f : α → β) (a : α) (b : β) : α → β :=
  fun x => if x = a then b else f x

@[simp] theorem upd_same {α β : Type} [DecidableEq α] (f : α → β) (a : α) (b : β) :
    upd f a b a = b := by simp [upd]

theorem upd_other {α β : Type} [DecidableEq α] (f : α → β) {a x : α} (b : β) (h : x ≠ a) :
    upd f a b x = f x := by simp [upd, h]

/-- One step of the system. -/
inductive Step (S : Sys Role Chan Flag) : Cfg Role Chan Flag → Cfg Role Chan Flag → Prop
  | setFlag {c : Cfg Role Chan Flag} {f : Flag} :
      S.prog[c.pc]? = some (.setFlag f) →
      Step S c { c with pc := c.pc + 1, flag := upd c.flag f true }
  | await {c : Cfg Role Chan Flag} {r : Role} :
      S.prog[c.pc]? = some (.await r) → c.alive r = 0 →
      Step S c { c with pc := c.pc + 1 }
  | closeChan {c : Cfg Role Chan Flag} {ch : Chan} :
      S.prog[c.pc]? = some (.closeChan ch) →
      Step S c { c with pc := c.pc + 1, closed := upd c.closed ch true }
  | skip {c : Cfg Role Chan Flag} :
      S.prog[c.pc]? = some .skip →
      Step S c { c with pc := c.pc + 1 }
  | exit {c : Cfg Role Chan Flag} (r : Role) :
      0 < c.alive r → (∀ q, S.exitNeeds r = some q → c.alive q = 0) →
      Step S c { c with alive := upd c.alive r (c.alive r - 1) }
  | spawnEnv {c : Cfg Role Chan Flag} (r : Role) (g : Option Flag) :
      S.rule r = .env g → (∀ f, g = some f → c.flag f = false) →
      Step S c { c with alive := upd c.alive r (c.alive r + 1) }
  | spawnChild {c : Cfg Role Chan Flag} (r p : Role) :
      S.rule r = .child p → 0 < c.alive p →
      Step S c { c with alive := upd c.alive r (c.alive r + 1) }
  | post {c : Cfg Role Chan Flag} (r : Role) (ch : Chan) :
      0 < c.alive r → S.posts r ch = true → Step S c c

/-- Start: the closer has not begun, nothing is closed, no flag is set; any population of actors
    that respects the exit dependencies. -/
structure Init (S : Sys Role Chan Flag) (c : Cfg Role Chan Flag) : Prop where
  pc : c.pc = 0
  flag : ∀ f, c.flag f = false
  closed : ∀ ch, c.closed ch = false
  dep : ∀ r q, S.exitNeeds r = some q → c.alive r = 0 → c.alive q = 0

inductive Reach (S : Sys Role Chan Flag) : Cfg Role Chan Flag → Prop
  | init {c : Cfg Role Chan Flag} : Init S c → Reach S c
  | step {c c' : Cfg Role Chan Flag} : Reach S c → Step S c c' → Reach S c'

/-- `stable S n j r`: once the closer is past instruction `j`, no actor of role `r` can appear
    (`n` bounds the length of the parent chain that is followed). -/
def stable (S : Sys Role Chan Flag) : Nat → Nat → Role → Bool
  | 0, _, _ => false
  | n + 1, j, r =>
    match S.rule r with
    | .initial => true
    | .env none => false
    | .env (some f) => (List.range j).any fun k => decide (S.prog[k]? = some (.setFlag f))
    | .child p => (List.range j).any fun k =>
        decide (S.prog[k]? = some (.await p)) && stable S n k p

/-- The closer waits for `r` before instruction `i`, at a point after which `r` is stable. -/
def awaitedBefore (S : Sys Role Chan Flag) (n i : Nat) (r : Role) : Bool :=
  (List.range i).any fun j => decide (S.prog[j]? = some (.await r)) && stable S n j r

/-- `r` is quiesced before instruction `i`: waited for, or — for a fixed goroutine `r` — a fixed
    goroutine `r'` that can only leave after `r` is waited for. -/
def quiescedBefore (S : Sys Role Chan Flag) (roles : List Role) (n i : Nat) (r : Role) : Bool :=
  awaitedBefore S n i r ||
  roles.any fun r' => decide (S.exitNeeds r' = some r) && decide (S.rule r' = .initial) &&
    decide (S.rule r = .initial) && awaitedBefore S n i r'

/-- `r` is quiesced for channel `ch`: before every close statement of `ch`. -/
def quiesced (S : Sys Role Chan Flag) (roles : List Role) (n : Nat) (r : Role) (ch : Chan) : Bool :=
  (List.range S.prog.length).all fun i =>
    !decide (S.prog[i]? = some (.closeChan ch)) || quiescedBefore S roles n i r

/-- The invariant. -/
structure Inv (S : Sys Role Chan Flag) (c : Cfg Role Chan Flag) : Prop where
  flags : ∀ k f, k < c.pc → S.prog[k]? = some (.setFlag f) → c.flag f = true
  closedBy : ∀ ch, c.closed ch = true → ∃ i, i < c.pc ∧ S.prog[i]? = some (.closeChan ch)
  awaited : ∀ n j r, j < c.pc → S.prog[j]? = some (.await r) → stable S n j r = true →
    c.alive r = 0
  dep : ∀ r q, S.exitNeeds r = some q → S.rule r = .initial → S.rule q = .initial →
    c.alive r = 0 → c.alive q = 0

theorem inv_init {S : Sys Role Chan Flag} {c : Cfg Role Chan Flag} (h : Init S c) : Inv S c where
  flags := fun k f hk _ => by rw [h.pc] at hk; exact absurd hk (Nat.not_lt_zero _)
  closedBy := fun ch hc => by rw [h.closed ch] at hc; exact absurd hc (by decide)
  awaited := fun n j r hj _ _ => by rw [h.pc] at hj; exact absurd hj (Nat.not_lt_zero _)
  dep := fun r q hq _ _ hr => h.dep r q hq hr

theorem stable_env_some {S : Sys Role Chan Flag} {n j : Nat} {r : Role} {f : Flag}
    (hr : S.rule r = .env (some f)) (h : stable S n j r = true) :
    ∃ k, k < j ∧ S.prog[k]? = some (.setFlag f) := by
  cases n with
  | zero => simp [stable] at h
  | succ n =>
    simp only [stable, hr, List.any_eq_true, List.mem_range, decide_eq_true_eq] at h
    obtain ⟨k, hk, hp⟩ := h
    exact ⟨k, hk, hp⟩

theorem stable_env_none {S : Sys Role Chan Flag} {n j : Nat} {r : Role}
    (hr : S.rule r = .env none) : stable S n j r = false := by
  cases n with
  | zero => simp [stable]
  | succ n => simp [stable, hr]

theorem stable_child {S : Sys Role Chan Flag} {n j : Nat} {r p : Role}
    (hr : S.rule r = .child p) (h : stable S n j r = true) :
    ∃ m k, k < j ∧ S.prog[k]? = some (.await p) ∧ stable S m k p = true := by
  cases n with
  | zero => simp [stable] at h
  | succ n =>
    simp only [stable, hr, List.any_eq_true, List.mem_range, Bool.and_eq_true,
      decide_eq_true_eq] at h
    obtain ⟨k, hk, hp, hs⟩ := h
    exact ⟨n, k, hk, hp, hs⟩

theorem inv_step {S : Sys Role Chan Flag} {c c' : Cfg Role Chan Flag} (hi : Inv S c)
    (hs : Step S c c') : Inv S c' := by
  cases hs with
  | @setFlag f hp =>
    refine ⟨?_, ?_, ?_, hi.dep⟩
    · intro k f' hk hk'
      show upd c.flag f true f' = true
      by_cases e : f' = f
      · subst e; simp
      · rw [upd_other _ _ e]
        have hk2 : k < c.pc ∨ k = c.pc := Nat.lt_succ_iff_lt_or_eq.mp hk
        rcases hk2 with hk2 | hk2
        · exact hi.flags k f' hk2 hk'
        · subst hk2
          rw [hp] at hk'
          injection hk' with hk'
          injection hk' with hk'
          exact absurd hk'.symm e
    · intro ch hc
      obtain ⟨i, hi1, hi2⟩ := hi.closedBy ch hc
      exact ⟨i, Nat.lt_succ_of_lt hi1, hi2⟩
    · intro n j r hj hjr hst
      have hj2 : j < c.pc ∨ j = c.pc := Nat.lt_succ_iff_lt_or_eq.mp hj
      rcases hj2 with hj2 | hj2
      · exact hi.awaited n j r hj2 hjr hst
      · subst hj2
        rw [hp] at hjr
        injection hjr with hjr
        cases hjr
  | @await r hp h0 =>
    refine ⟨?_, ?_, ?_, hi.dep⟩
    · intro k f hk hk'
      have hk2 : k < c.pc ∨ k = c.pc := Nat.lt_succ_iff_lt_or_eq.mp hk
      rcases hk2 with hk2 | hk2
      · exact hi.flags k f hk2 hk'
      · subst hk2
        rw [hp] at hk'
        injection hk' with hk'
        cases hk'
    · intro ch hc
      obtain ⟨i, hi1, hi2⟩ := hi.closedBy ch hc
      exact ⟨i, Nat.lt_succ_of_lt hi1, hi2⟩
    · intro n j r' hj hjr hst
      have hj2 : j < c.pc ∨ j = c.pc := Nat.lt_succ_iff_lt_or_eq.mp hj
      rcases hj2 with hj2 | hj2
      · exact hi.awaited n j r' hj2 hjr hst
      · subst hj2
        rw [hp] at hjr
        injection hjr with hjr
        injection hjr with hjr
        subst hjr
        exact h0
  | @closeChan ch hp =>
    refine ⟨?_, ?_, ?_, hi.dep⟩
    · intro k f hk hk'
      have hk2 : k < c.pc ∨ k = c.pc := Nat.lt_succ_iff_lt_or_eq.mp hk
      rcases hk2 with hk2 | hk2
      · exact hi.flags k f hk2 hk'
      · subst hk2
        rw [hp] at hk'
        injection hk' with hk'
        cases hk'
    · intro ch' hc
      by_cases e : ch' = ch
      · subst e
        exact ⟨c.pc, Nat.lt_succ_self _, hp⟩
      · have hc' : c.closed ch' = true := by
          have : upd c.closed ch true ch' = true := hc
          rwa [upd_other _ _ e] at this
        obtain ⟨i, hi1, hi2⟩ := hi.closedBy ch' hc'
        exact ⟨i, Nat.lt_succ_of_lt hi1, hi2⟩
    · intro n j r hj hjr hst
      have hj2 : j < c.pc ∨ j = c.pc := Nat.lt_succ_iff_lt_or_eq.mp hj
      rcases hj2 with hj2 | hj2
      · exact hi.awaited n j r hj2 hjr hst
      · subst hj2
        rw [hp] at hjr
        injection hjr with hjr
        cases hjr
  | skip hp =>
    refine ⟨?_, ?_, ?_, hi.dep⟩
    · intro k f hk hk'
      have hk2 : k < c.pc ∨ k = c.pc := Nat.lt_succ_iff_lt_or_eq.mp hk
      rcases hk2 with hk2 | hk2
      · exact hi.flags k f hk2 hk'
      · subst hk2
        rw [hp] at hk'
        injection hk' with hk'
        cases hk'
    · intro ch hc
      obtain ⟨i, hi1, hi2⟩ := hi.closedBy ch hc
      exact ⟨i, Nat.lt_succ_of_lt hi1, hi2⟩
    · intro n j r hj hjr hst
      have hj2 : j < c.pc ∨ j = c.pc := Nat.lt_succ_iff_lt_or_eq.mp hj
      rcases hj2 with hj2 | hj2
      · exact hi.awaited n j r hj2 hjr hst
      · subst hj2
        rw [hp] at hjr
        injection hjr with hjr
        cases hjr
  | exit r hpos hdep =>
    have zero_of_zero : ∀ x, c.alive x = 0 → upd c.alive r (c.alive r - 1) x = 0 := by
      intro x hx
      by_cases e : x = r
      · subst e; simp [hx]
      · rw [upd_other _ _ e]; exact hx
    refine ⟨hi.flags, hi.closedBy, ?_, ?_⟩
    · intro n j r' hj hjr hst
      exact zero_of_zero r' (hi.awaited n j r' hj hjr hst)
    · intro r' q hq hr1 hr2 h0
      show upd c.alive r (c.alive r - 1) q = 0
      by_cases e : r' = r
      · subst e
        exact zero_of_zero q (hdep q hq)
      · have h0' : c.alive r' = 0 := by
          have : upd c.alive r (c.alive r - 1) r' = 0 := h0
          rwa [upd_other _ _ e] at this
        exact zero_of_zero q (hi.dep r' q hq hr1 hr2 h0')
  | spawnEnv r g hr hg =>
    refine ⟨hi.flags, hi.closedBy, ?_, ?_⟩
    · intro n j r' hj hjr hst
      show upd c.alive r (c.alive r + 1) r' = 0
      by_cases e : r' = r
      · subst e
        cases g with
        | none => rw [stable_env_none hr] at hst; cases hst
        | some f =>
          obtain ⟨k, hk, hkp⟩ := stable_env_some hr hst
          have := hi.flags k f (Nat.lt_trans hk hj) hkp
          rw [hg f rfl] at this
          cases this
      · rw [upd_other _ _ e]
        exact hi.awaited n j r' hj hjr hst
    · intro r' q hq hr1 hr2 h0
      show upd c.alive r (c.alive r + 1) q = 0
      have e1 : r' ≠ r := by
        intro e; subst e; rw [hr] at hr1; cases hr1
      have e2 : q ≠ r := by
        intro e; subst e; rw [hr] at hr2; cases hr2
      rw [upd_other _ _ e2]
      have h0' : c.alive r' = 0 := by
        have : upd c.alive r (c.alive r + 1) r' = 0 := h0
        rwa [upd_other _ _ e1] at this
      exact hi.dep r' q hq hr1 hr2 h0'
  | spawnChild r p hr hp =>
    refine ⟨hi.flags, hi.closedBy, ?_, ?_⟩
    · intro n j r' hj hjr hst
      show upd c.alive r (c.alive r + 1) r' = 0
      by_cases e : r' = r
      · subst e
        obtain ⟨m, k, hk, hkp, hks⟩ := stable_child hr hst
        have := hi.awaited m k p (Nat.lt_trans hk hj) hkp hks
        rw [this] at hp
        exact absurd hp (Nat.lt_irrefl _)
      · rw [upd_other _ _ e]
        exact hi.awaited n j r' hj hjr hst
    · intro r' q hq hr1 hr2 h0
      show upd c.alive r (c.alive r + 1) q = 0
      have e1 : r' ≠ r := by
        intro e; subst e; rw [hr] at hr1; cases hr1
      have e2 : q ≠ r := by
        intro e; subst e; rw [hr] at hr2; cases hr2
      rw [upd_other _ _ e2]
      have h0' : c.alive r' = 0 := by
        have : upd c.alive r (c.alive r + 1) r' = 0 := h0
        rwa [upd_other _ _ e1] at this
      exact hi.dep r' q hq hr1 hr2 h0'
  | post r ch _ _ => exact hi

theorem inv_reach {S : Sys Role Chan Flag} {c : Cfg Role Chan Flag} (h : Reach S c) : Inv S c := by
  induction h with
  | init hi => exact inv_init hi
  | step _ hs ih => exact inv_step ih hs

theorem awaitedBefore_zero {S : Sys Role Chan Flag} {c : Cfg Role Chan Flag} (hi : Inv S c)
    {n i : Nat} {r : Role} (hlt : i < c.pc) (h : awaitedBefore S n i r = true) :
    c.alive r = 0 := by
  simp only [awaitedBefore, List.any_eq_true, List.mem_range, Bool.and_eq_true,
    decide_eq_true_eq] at h
  obtain ⟨j, hj, hp, hs⟩ := h
  exact hi.awaited n j r (Nat.lt_trans hj hlt) hp hs

/-- **no_post_after_close.** In every reachable configuration, a role quiesced for a channel has
    no live actor once that channel is closed; so no post of such a role finds the channel closed. -/
theorem no_post_after_close (S : Sys Role Chan Flag) (roles : List Role) (n : Nat)
    {c : Cfg Role Chan Flag} (hreach : Reach S c) (r : Role) (ch : Chan)
    (hq : quiesced S roles n r ch = true) (hclosed : c.closed ch = true) : c.alive r = 0 := by
  have hi := inv_reach hreach
  obtain ⟨i, hlt, hp⟩ := hi.closedBy ch hclosed
  have hlen : i < S.prog.length := by
    rcases Nat.lt_or_ge i S.prog.length with h | h
    · exact h
    · rw [List.getElem?_eq_none h] at hp; cases hp
  have hq' := List.all_eq_true.mp hq i (List.mem_range.mpr hlen)
  simp only [hp, decide_true, Bool.not_true, Bool.false_or] at hq'
  simp only [quiescedBefore, Bool.or_eq_true, List.any_eq_true, Bool.and_eq_true,
    decide_eq_true_eq] at hq'
  rcases hq' with h | ⟨r', _, ⟨⟨⟨hdep, hr1⟩, hr2⟩, haw⟩⟩
  · exact awaitedBefore_zero hi hlt h
  · have h0 := awaitedBefore_zero hi hlt haw
    exact hi.dep r' r hdep hr1 hr2 h0

/-- The form stated in the property: a post step never targets a closed channel. -/
theorem no_live_poster_on_closed (S : Sys Role Chan Flag) (roles : List Role) (n : Nat)
    {c : Cfg Role Chan Flag} (hreach : Reach S c) (r : Role) (ch : Chan)
    (hq : quiesced S roles n r ch = true) (halive : 0 < c.alive r) (_hposts : S.posts r ch = true) :
    c.closed ch = false := by
  cases hc : c.closed ch with
  | false => rfl
  | true =>
    have := no_post_after_close S roles n hreach r ch hq hc
    rw [this] at halive
    exact absurd halive (Nat.lt_irrefl _)

/-! ### Concrete runs (for witnesses) -/

inductive Act (Role Chan : Type)
  | closer
  | exit (r : Role)
  | spawn (r : Role)
  | post (r : Role) (ch : Chan)
  deriving Repr

/-- Executable one-step function; `none` when the action is not enabled. -/
def act (S : Sys Role Chan Flag) (c : Cfg Role Chan Flag) : Act Role Chan → Option (Cfg Role Chan Flag)
  | .closer =>
    match S.prog[c.pc]? with
    | some (.setFlag f) => some { c with pc := c.pc + 1, flag := upd c.flag f true }
    | some (.await r) => if c.alive r = 0 then some { c with pc := c.pc + 1 } else none
    | some (.closeChan ch) => some { c with pc := c.pc + 1, closed := upd c.closed ch true }
    | some .skip => some { c with pc := c.pc + 1 }
    | none => none
  | .exit r =>
    if 0 < c.alive r ∧ (∀ q, S.exitNeeds r = some q → c.alive q = 0) then
      some { c with alive := upd c.alive r (c.alive r - 1) }
    else none
  | .spawn r =>
    match S.rule r with
    | .initial => none
    | .env none => some { c with alive := upd c.alive r (c.alive r + 1) }
    | .env (some f) =>
      if c.flag f = false then some { c with alive := upd c.alive r (c.alive r + 1) } else none
    | .child p =>
      if 0 < c.alive p then some { c with alive := upd c.alive r (c.alive r + 1) } else none
  | .post r ch => if 0 < c.alive r ∧ S.posts r ch = true then some c else none

theorem step_of_act {S : Sys Role Chan Flag} {c c' : Cfg Role Chan Flag} {a : Act Role Chan}
    (h : act S c a = some c') : Step S c c' := by
  cases a with
  | closer =>
    simp only [act] at h
    split at h
    · rename_i f hp
      injection h with h; subst h
      exact Step.setFlag hp
    · rename_i r hp
      split at h
      · rename_i h0
        injection h with h; subst h
        exact Step.await hp h0
      · cases h
    · rename_i ch hp
      injection h with h; subst h
      exact Step.closeChan hp
    · rename_i hp
      injection h with h; subst h
      exact Step.skip hp
    · cases h
  | exit r =>
    simp only [act] at h
    split at h
    · rename_i hc
      injection h with h; subst h
      exact Step.exit r hc.1 hc.2
    · cases h
  | spawn r =>
    simp only [act] at h
    split at h
    · cases h
    · rename_i hr
      injection h with h; subst h
      exact Step.spawnEnv r none hr (fun f hf => by cases hf)
    · rename_i f hr
      split at h
      · rename_i hf
        injection h with h; subst h
        exact Step.spawnEnv r (some f) hr (fun f' hf' => by injection hf' with hf'; subst hf'; exact hf)
      · cases h
    · rename_i p hr
      split at h
      · rename_i hp
        injection h with h; subst h
        exact Step.spawnChild r p hr hp
      · cases h
  | post r ch =>
    simp only [act] at h
    split at h
    · rename_i hc
      injection h with h; subst h
      exact Step.post r ch hc.1 hc.2
    · cases h

def exec (S : Sys Role Chan Flag) (c : Cfg Role Chan Flag) : List (Act Role Chan) → Option (Cfg Role Chan Flag)
  | [] => some c
  | a :: as =>
    match act S c a with
    | some c' => exec S c' as
    | none => none

theorem reach_of_exec {S : Sys Role Chan Flag} : ∀ (as : List (Act Role Chan)) {c c' : Cfg Role Chan Flag},
    Reach S c → exec S c as = some c' → Reach S c'
  | [], c, c', hr, h => by
    simp only [exec] at h
    injection h with h; subst h; exact hr
  | a :: as, c, c', hr, h => by
    simp only [exec] at h
    split at h
    · rename_i c1 h1
      exact reach_of_exec as (Reach.step hr (step_of_act h1)) h
    · cases h

/-- A live actor of `r` can post to `ch` although `ch` is closed. -/
def PostsOnClosed (S : Sys Role Chan Flag) (c : Cfg Role Chan Flag) (r : Role) (ch : Chan) : Prop :=
  0 < c.alive r ∧ S.posts r ch = true ∧ c.closed ch = true

end Nexus.L3.Shutdown
