/-
Hand-written role tables for the L3 instantiation, and the wait-for edges derived with them from
the regenerated channel-operation table (Nexus/Gen/Sites.lean, table (c)).

A *role* names the goroutines that run a piece of code:

* `Ext1`  a goroutine of the embedding program calling NewRouter/Close/AddRealm/RemoveRealm, while
          it talks to the router goroutine;  `Ext2` the same goroutine while it runs `realm.close`
          (RemoveRealm closes the realm outside the router goroutine);
* `A1`    a goroutine attaching a client (AttachClient: HELLO, realm lookup, authentication,
          WELCOME); `A2` the same goroutine inside `realm.handleSession` (close lock held, onJoin);
* `Rtr`   the router goroutine (`router.run` and every closure posted to `router.actionChan`;
          `Router.Close` runs `realm.close` there, `addRealm` builds realms there);
* `H`     the handler goroutine of one client session (`handleSession` go literal);
* `HM`    the handler goroutine of the realm's meta session (`createMetaSession` go literal);
* `MP`    `realm.metaProcedureHandler` and the meta procedures it calls;
* `R`, `D`, `B`  the realm, dealer and broker goroutines (`run` + closures posted to their channel);
* `T`     a call-timeout goroutine (`dealer.syncCall` go literal);
* `Mem`   `router.logMemStats`;  `Srv` a listener's accept loop;
* `Rd`, `W`  reader and writer goroutine of a socket peer;  `Cli` client-side transport code;
* `C`     the remote client (reads its queue or not),  `Net` the network.

`fnRolesTable` says which roles execute the *body* of a function (code inside a closure posted to
a channel runs in the channel's owner, code inside a `go func` literal in that literal's role).
It is closed under the static call table (`roles_closed_under_calls`, Props/C07): a caller's roles
are roles of the callee, except at the two phase changes listed in `phaseChanges`.
-/
import Nexus.Gen.Sites
import Nexus.L3.Key
import Nexus.L3.Graph

namespace Nexus.L3
open Nexus.Gen.Sites

inductive Role
  | Ext1 | A1 | Rtr | Ext2 | A2 | H | MP | R | HM | T | D | B | Mem | Srv | Rd | W | Cli | C | Net
  deriving DecidableEq, Repr

/-- The rank: every blocking edge goes from a higher to a strictly lower rank.
    `H, MP > R > HM > T > D, B` is the order named in the design; the rest frames it. -/
def rank : Role → Nat
  | .Srv => 17 | .Ext1 => 16 | .A1 => 16
  | .Rtr => 14 | .Ext2 => 13 | .A2 => 12
  | .H => 10 | .MP => 10
  | .R => 8 | .HM => 7 | .T => 6
  | .D => 4 | .B => 4 | .Mem => 4
  | .Rd => 3 | .W => 2 | .Cli => 2
  | .C => 1 | .Net => 0

def lookup {β : Type} (k : Nat) : List (Nat × β) → Option β
  | [] => none
  | (k', v) :: r => if Nat.beq k k' then some v else lookup k r

/-- Roles executing the body of each function that contains (or reaches through calls) a channel
    operation, a close, a go statement, a message send or an operation on the close lock /
    handler wait group. -/
def fnRolesTable : List (Nat × List Role) := [
  (key! "router.NewRouter", [.Ext1]),
  (key! "router.RawSocketServer.ListenAndServe", [.Ext1]),
  (key! "router.RawSocketServer.ListenAndServeTLS", [.Ext1]),
  (key! "router.RawSocketServer.handleRawSocket", [.A1]),
  (key! "router.RawSocketServer.requestHandler", [.Srv]),
  (key! "router.WebsocketServer.ListenAndServe", [.Ext1]),
  (key! "router.WebsocketServer.ListenAndServeTLS", [.Ext1]),
  (key! "router.WebsocketServer.ServeHTTP", [.A1]),
  (key! "router.WebsocketServer.handleWebsocket", [.A1]),
  (key! "router.abortSession", [.H, .HM, .D]),
  (key! "router.broker.close", [.Ext1, .Rtr, .Ext2]),
  (key! "router.broker.publish", [.H, .HM]),
  (key! "router.broker.removeSession", [.R]),
  (key! "router.broker.removeSessionQuiet", [.R]),
  (key! "router.broker.run", [.B]),
  (key! "router.broker.subCountSubscribers", [.MP]),
  (key! "router.broker.subEventHistory", [.MP]),
  (key! "router.broker.subGet", [.MP]),
  (key! "router.broker.subList", [.MP]),
  (key! "router.broker.subListSubscribers", [.MP]),
  (key! "router.broker.subLookup", [.MP]),
  (key! "router.broker.subMatch", [.MP]),
  (key! "router.broker.subscribe", [.H, .HM]),
  (key! "router.broker.syncPubEvent", [.B]),
  (key! "router.broker.syncPubSubCreateMeta", [.B]),
  (key! "router.broker.syncPubSubMeta", [.B]),
  (key! "router.broker.syncPublish", [.B]),
  (key! "router.broker.syncRemoveSession", [.B]),
  (key! "router.broker.syncSubscribe", [.B]),
  (key! "router.broker.syncUnsubscribe", [.B]),
  (key! "router.broker.trySend", [.H, .HM, .B]),
  (key! "router.broker.unsubscribe", [.H, .HM]),
  (key! "router.dealer.call", [.H, .HM]),
  (key! "router.dealer.cancel", [.H, .HM]),
  (key! "router.dealer.close", [.Ext1, .Rtr, .Ext2]),
  (key! "router.dealer.error", [.H, .HM]),
  (key! "router.dealer.regCountCallees", [.MP]),
  (key! "router.dealer.regGet", [.MP]),
  (key! "router.dealer.regList", [.MP]),
  (key! "router.dealer.regListCallees", [.MP]),
  (key! "router.dealer.regLookup", [.MP]),
  (key! "router.dealer.regMatch", [.MP]),
  (key! "router.dealer.register", [.H, .HM]),
  (key! "router.dealer.removeSession", [.R]),
  (key! "router.dealer.removeSessionQuiet", [.R]),
  (key! "router.dealer.run", [.D]),
  (key! "router.dealer.setMetaPeer", [.Ext1, .Rtr]),
  (key! "router.dealer.syncCall", [.D]),
  (key! "router.dealer.syncCancel", [.D]),
  (key! "router.dealer.syncError", [.D]),
  (key! "router.dealer.syncRegister", [.D]),
  (key! "router.dealer.syncRemoveSession", [.D]),
  (key! "router.dealer.syncUnregister", [.D]),
  (key! "router.dealer.syncYield", [.D]),
  (key! "router.dealer.trySend", [.H, .HM, .D]),
  (key! "router.dealer.unregister", [.H, .HM]),
  (key! "router.dealer.yield", [.H, .HM]),
  (key! "router.newBroker", [.Ext1, .Rtr]),
  (key! "router.newDealer", [.Ext1, .Rtr]),
  (key! "router.newRealm", [.Ext1, .Rtr]),
  (key! "router.realm.authzMessage", [.H, .HM]),
  (key! "router.realm.close", [.Rtr, .Ext2]),
  (key! "router.realm.createMetaSession", [.Ext1, .Rtr]),
  (key! "router.realm.handleInboundMessages", [.H, .HM]),
  (key! "router.realm.handleSession", [.A2]),
  (key! "router.realm.killAllSessions", [.MP]),
  (key! "router.realm.killSession", [.MP]),
  (key! "router.realm.killSessionsByDetail", [.MP]),
  (key! "router.realm.metaProcedureHandler", [.MP]),
  (key! "router.realm.onJoin", [.A2]),
  (key! "router.realm.onLeave", [.H]),
  (key! "router.realm.registerMetaProcedure", [.Ext1, .Rtr]),
  (key! "router.realm.run", [.R]),
  (key! "router.realm.sessionCount", [.MP]),
  (key! "router.realm.sessionGet", [.MP]),
  (key! "router.realm.sessionKill", [.MP]),
  (key! "router.realm.sessionKillAll", [.MP]),
  (key! "router.realm.sessionKillByAuthid", [.MP]),
  (key! "router.realm.sessionKillByAuthrole", [.MP]),
  (key! "router.realm.sessionList", [.MP]),
  (key! "router.realm.sessionModifyDetails", [.MP]),
  (key! "router.realm.setupMetaProcedures", [.Ext1, .Rtr]),
  (key! "router.realm.testamentAdd", [.MP]),
  (key! "router.realm.testamentFlush", [.MP]),
  (key! "router.router.AddRealm", [.Ext1]),
  (key! "router.router.Attach", [.A1]),
  (key! "router.router.AttachClient", [.A1]),
  (key! "router.router.Close", [.Ext1]),
  (key! "router.router.RemoveRealm", [.Ext1]),
  (key! "router.router.addRealm", [.Ext1, .Rtr]),
  (key! "router.router.logMemStats", [.Mem]),
  (key! "router.router.post", [.Ext1, .A1]),
  (key! "router.router.run", [.Rtr]),
  (key! "router/auth.CRAuthenticator.Authenticate", [.A1]),
  (key! "router/auth.CryptoSignAuthenticator.Authenticate", [.A1]),
  (key! "router/auth.TicketAuthenticator.Authenticate", [.A1]),
  (key! "transport.AcceptRawSocket", [.A1]),
  (key! "transport.ConnectRawSocketPeer", [.Cli]),
  (key! "transport.ConnectWebsocketPeer", [.Cli]),
  (key! "transport.NewWebsocketPeer", [.A1, .Cli]),
  (key! "transport.clientHandshake", [.Cli]),
  (key! "transport.localPeer.Close", [.A1, .H, .Cli]),
  (key! "transport.newRawSocketPeer", [.A1, .Cli]),
  (key! "transport.rawSocketPeer.Close", [.A1, .H, .Cli]),
  (key! "transport.rawSocketPeer.recvHandler", [.Rd]),
  (key! "transport.rawSocketPeer.sendHandler", [.W]),
  (key! "transport.serverHandshake", [.A1]),
  (key! "transport.websocketPeer.Close", [.A1, .H, .Cli]),
  (key! "transport.websocketPeer.recvHandler", [.Rd]),
  (key! "transport.websocketPeer.sendHandler", [.W]),
  (key! "transport.websocketPeer.drainQueued", [.W]),
  (key! "transport.websocketPeer.sendHandlerKeepAlive", [.W]),
  (key! "wamp.RecvTimeout", [.A1]),
  (key! "wamp.Session.EndRecv", [.Rtr, .Ext2, .H, .R, .HM, .D])
]

def fnRoles (fn : Nat) : List Role := (lookup fn fnRolesTable).getD []

/-- Owner of the closures posted to an action channel. -/
def postedRole (chan : Nat) : Option Role :=
  lookup chan [
    (key! "dealer.actionChan", Role.D),
    (key! "broker.actionChan", Role.B),
    (key! "realm.actionChan", Role.R),
    (key! "router.actionChan", Role.Rtr)]

/-- Role of each `go func(){…}()` literal. -/
def goLitRole (lit : Nat) : Option Role :=
  lookup lit [
    (key! "router.realm.handleSession#go1", Role.H),
    (key! "router.realm.createMetaSession#go1", Role.HM),
    (key! "router.dealer.syncCall#go1", Role.T),
    (key! "transport.ConnectRawSocketPeer#go1", Role.Cli)]

/-- Roles executing a site. -/
def siteRoles (fn : Nat) (g : GCtx) (garg : Nat) : List Role :=
  match g with
  | .body => fnRoles fn
  | .posted => (postedRole garg).toList
  | .golit => (goLitRole garg).toList

/-- Calls at which the goroutine changes phase: (caller, callee, role before, role inside). -/
def phaseChanges : List (Nat × Nat × Role × Role) := [
  (key! "router.router.AttachClient", key! "router.realm.handleSession", .A1, .A2),
  (key! "router.router.RemoveRealm", key! "router.realm.close", .Ext1, .Ext2)]

def phased (caller callee : Nat) (r : Role) : Role :=
  match phaseChanges.find? (fun p => Nat.beq p.1 caller && Nat.beq p.2.1 callee && decide (p.2.2.1 = r)) with
  | some p => p.2.2.2
  | none => r

def subsetR (a b : List Role) : Bool := a.all fun x => b.contains x

/-- One call edge respects the role table. A callee without roles is a helper that reaches no
    site; a callee with roles must list every role of the call site. -/
def callOk (e : CallEdge) : Bool :=
  let callee := fnRoles e.callee
  callee.isEmpty ||
    (let rs := (siteRoles e.fn e.gctx e.garg).map (phased e.fn e.callee)
     !rs.isEmpty && subsetR rs callee)

end Nexus.L3
