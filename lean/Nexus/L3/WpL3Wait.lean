/-
The site tables with the records that the patched generator adds (Nexus/L3/WpL3Tables.lean), and the
wait-for edges re-derived over them.

The `sendAbort` closure of `router.AttachClient` is held in a local variable and called in two
goroutine contexts: in the attaching goroutine (A1), and inside the action that AttachClient posts to
the router goroutine (`if r.closed { sendAbort(…) }`, unknown realm, failed auto-creation) — i.e. by
**Rtr**. The unpatched generator attributes the closure's sites to the function body only, hence to
A1 only (audit C: C07 (b)1, C06 (b)4). The patched generator emits each such site once per context;
here the second records are appended by hand (`extra…`), so that every theorem stated over `all…`
holds before and after the patch (when `extra… = []` and the records are in the generated tables).
-/
import Nexus.L3.Wait
import Nexus.L3.WpL3Tables

namespace Nexus.L3.WpL3
open Nexus.Gen.Sites Nexus.L3 Nexus.L3.WpL3Tables

def allChanOps : List ChanOp := chanOps ++ extraChanOps
def allCloseSites : List CloseSite := closeSites ++ extraCloseSites
def allMsgSends : List MsgSend := msgSends ++ extraMsgSends

/-- All derived edges, over the completed channel-operation table. -/
def waitEdgesX : List (Role × Role) :=
  (allChanOps.flatMap opEdges ++ syncOps.flatMap syncEdges).eraseDups

/-- The wait-for relation of the router (waiting side is router code). It has the edge Rtr → C that
    `Nexus.L3.routerEdges` lacks. -/
def routerEdgesX : List (Role × Role) := waitEdgesX.filter fun e => decide (e.1 ≠ .Cli)

end Nexus.L3.WpL3
