/-
L3 (i): wait-for graphs.

An edge `(a, b)` says: actor `a` can be blocked until actor `b` acts. If some rank strictly
decreases along every edge then no actor waits, directly or indirectly, for itself
(`no_wait_cycle`), and — the form that excludes deadlock — every non-empty set of actors has a
member none of whose wait targets lies in the set (`no_deadlocked_set`): the actors of a set
can never all be waiting for each other. `checkRanks` is the decidable table check.
-/
namespace Nexus.L3.Graph

variable {α : Type}

/-- `Path t a b`: a non-empty chain of edges of `t` from `a` to `b`. -/
inductive Path (t : List (α × α)) : α → α → Prop
  | single {a b : α} : (a, b) ∈ t → Path t a b
  | cons {a b c : α} : (a, b) ∈ t → Path t b c → Path t a c

/-- No actor waits (transitively) for itself. -/
def Acyclic (t : List (α × α)) : Prop := ∀ a, ¬ Path t a a

/-- Every edge descends the rank. -/
def Descends (t : List (α × α)) (rank : α → Nat) : Prop := ∀ e ∈ t, rank e.2 < rank e.1

theorem path_rank_lt {t : List (α × α)} {rank : α → Nat} (h : Descends t rank) {a b : α}
    (p : Path t a b) : rank b < rank a := by
  induction p with
  | single e => exact h _ e
  | cons e _ ih => exact Nat.lt_trans ih (h _ e)

/-- Generic theorem: a wait-for relation whose every edge descends a rank has no cycle. -/
theorem no_wait_cycle (t : List (α × α)) (rank : α → Nat) (h : Descends t rank) : Acyclic t := by
  intro a p
  exact Nat.lt_irrefl _ (path_rank_lt h p)

/-- The table check. -/
def checkRanks (t : List (α × α)) (rank : α → Nat) : Bool :=
  t.all fun e => decide (rank e.2 < rank e.1)

theorem checkRanks_descends {t : List (α × α)} {rank : α → Nat} (h : checkRanks t rank = true) :
    Descends t rank := by
  intro e he
  have := List.all_eq_true.mp h e he
  exact of_decide_eq_true this

theorem checkRanks_sound {t : List (α × α)} {rank : α → Nat} (h : checkRanks t rank = true) :
    Acyclic t :=
  no_wait_cycle t rank (checkRanks_descends h)

/-- A member of minimal rank. -/
theorem exists_min (rank : α → Nat) : ∀ (s : List α), s ≠ [] →
    ∃ a ∈ s, ∀ b ∈ s, rank a ≤ rank b
  | [], h => absurd rfl h
  | [x], _ => ⟨x, List.mem_singleton.mpr rfl, fun b hb => by
      rw [List.mem_singleton.mp hb]; exact Nat.le_refl _⟩
  | x :: y :: r, _ => by
    obtain ⟨m, hm, hmin⟩ := exists_min rank (y :: r) (List.cons_ne_nil _ _)
    by_cases hx : rank x ≤ rank m
    · refine ⟨x, List.mem_cons_self, fun b hb => ?_⟩
      rcases List.mem_cons.mp hb with rfl | hb
      · exact Nat.le_refl _
      · exact Nat.le_trans hx (hmin b hb)
    · refine ⟨m, List.mem_cons_of_mem _ hm, fun b hb => ?_⟩
      rcases List.mem_cons.mp hb with rfl | hb
      · exact Nat.le_of_lt (Nat.lt_of_not_le hx)
      · exact hmin b hb

/-- Deadlock freedom: in every non-empty set of actors somebody waits for nobody in the set. -/
theorem no_deadlocked_set (t : List (α × α)) (rank : α → Nat) (h : Descends t rank)
    (s : List α) (hs : s ≠ []) : ∃ a ∈ s, ∀ b, (a, b) ∈ t → b ∉ s := by
  obtain ⟨a, ha, hmin⟩ := exists_min rank s hs
  refine ⟨a, ha, fun b hab hb => ?_⟩
  have h1 : rank b < rank a := h _ hab
  have h2 : rank a ≤ rank b := hmin b hb
  exact Nat.lt_irrefl _ (Nat.lt_of_lt_of_le h1 h2)

/-- Conversely a cycle defeats every rank: the check is not vacuous. -/
theorem cycle_no_rank {t : List (α × α)} {a : α} (p : Path t a a) (rank : α → Nat) :
    ¬ Descends t rank := fun h => Nat.lt_irrefl _ (path_rank_lt h p)

end Nexus.L3.Graph
