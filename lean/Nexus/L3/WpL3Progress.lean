/-
L3 (i′): from "no wait cycle" to "no wedge".

`Graph.no_deadlocked_set` yields, in every set of actors, one that waits for nobody in the set. That
is not progress: an actor that has *terminated* waits for nobody, and everybody blocked on its
channel is blocked for ever (audit C §0: the meta session's handler gone, every `metaPeer.Send()`
hanging). What is missing is a statement about the targets of the wait edges.

A *snapshot* of a system gives every actor a status — running, blocked, done — and says for whom
each blocked actor is waiting at this moment. If

  * the waits descend a rank (equivalently, for a finite edge table: the table has no cycle,
    `acyclic_has_rank`), and
  * **servers keep serving**: nobody is waiting for an actor that is done,

then every blocked actor's wait chain is finite and ends at an actor that is *running*
(`chain_ends_running`), and so does the chain through every one of its targets
(`every_target_chain_ends_running`): whoever is blocked is blocked on work that somebody is doing
right now. `wedge_needs_dead_server` is the converse reading: a blocked actor whose chains never
reach a running actor proves that some wait targets a terminated actor.
-/
import Nexus.L3.Graph

namespace Nexus.L3.WpL3.Progress
open Nexus.L3.Graph

variable {α : Type}

inductive Status | running | blocked | done
  deriving DecidableEq, Repr

/-- `Chain w a z`: `z` is reached from `a` by following `w` zero or more times. -/
inductive Chain (w : α → α → Prop) : α → α → Prop
  | refl (a : α) : Chain w a a
  | step {a b c : α} : w a b → Chain w b c → Chain w a c

theorem Chain.single {w : α → α → Prop} {a b : α} (h : w a b) : Chain w a b :=
  .step h (.refl b)

/-- What the actors are doing at one moment. `waits a b`: `a` is blocked and `b` is one of the actors
    whose action ends the wait (for a `select`, every alternative's partner). -/
structure Snapshot (α : Type) where
  status : α → Status
  waits : α → α → Prop

/-- The three hypotheses. -/
structure Live (s : Snapshot α) (rank : α → Nat) : Prop where
  /-- no wait cycle: the current waits descend the rank -/
  descends : ∀ a b, s.waits a b → rank b < rank a
  /-- a blocked actor is waiting for somebody -/
  blockedWaits : ∀ a, s.status a = .blocked → ∃ b, s.waits a b
  /-- servers keep serving: nobody is waiting for an actor that has terminated -/
  serving : ∀ a b, s.waits a b → s.status b ≠ .done

theorem chain_from (s : Snapshot α) (rank : α → Nat) (h : Live s rank) :
    ∀ n a, rank a < n → s.status a ≠ .done → ∃ z, Chain s.waits a z ∧ s.status z = .running := by
  intro n
  induction n with
  | zero => intro a hr; exact absurd hr (Nat.not_lt_zero _)
  | succ n ih =>
    intro a hr hnd
    cases hst : s.status a with
    | running => exact ⟨a, .refl a, hst⟩
    | done => exact absurd hst hnd
    | blocked =>
      obtain ⟨b, hab⟩ := h.blockedWaits a hst
      have hlt : rank b < n := Nat.lt_of_lt_of_le (h.descends a b hab) (Nat.le_of_lt_succ hr)
      obtain ⟨z, hc, hz⟩ := ih b hlt (h.serving a b hab)
      exact ⟨z, .step hab hc, hz⟩

/-- **No wait cycle ∧ servers keep serving ⇒ every blocked actor's wait chain ends at a running
    actor.** -/
theorem chain_ends_running (s : Snapshot α) (rank : α → Nat) (h : Live s rank) (a : α)
    (ha : s.status a = .blocked) : ∃ z, Chain s.waits a z ∧ s.status z = .running :=
  chain_from s rank h (rank a + 1) a (Nat.lt_succ_self _) (by rw [ha]; decide)

/-- The same through every target: whichever of its partners a blocked actor is looking at, that
    partner is running or is itself (transitively) waiting for a running actor. -/
theorem every_target_chain_ends_running (s : Snapshot α) (rank : α → Nat) (h : Live s rank)
    {a b : α} (hab : s.waits a b) : ∃ z, Chain s.waits b z ∧ s.status z = .running :=
  chain_from s rank h (rank b + 1) b (Nat.lt_succ_self _) (h.serving a b hab)

/-- Contrapositive: a wedge — a blocked actor from which no running actor is reachable — needs a
    wait whose target has terminated (given no cycle). This is what the acyclicity theorem alone
    cannot exclude. -/
theorem wedge_needs_dead_server (s : Snapshot α) (rank : α → Nat)
    (hdesc : ∀ a b, s.waits a b → rank b < rank a)
    (hblk : ∀ a, s.status a = .blocked → ∃ b, s.waits a b)
    (a : α) (ha : s.status a = .blocked)
    (hw : ¬ ∃ z, Chain s.waits a z ∧ s.status z = .running) :
    ¬ ∀ x y, s.waits x y → s.status y ≠ .done :=
  fun hs => hw (chain_ends_running s rank ⟨hdesc, hblk, hs⟩ a ha)

/-! ### Non-vacuity: the hypotheses are satisfiable, and `serving` is needed -/

/-- Three actors 2 → 1 → 0: 2 and 1 blocked, 0 running. -/
def exSnap : Snapshot Nat where
  status := fun n => if n = 0 then .running else if n ≤ 2 then .blocked else .done
  waits := fun a b => (a = 2 ∧ b = 1) ∨ (a = 1 ∧ b = 0)

example : Live exSnap id where
  descends := by
    intro a b h
    rcases h with ⟨rfl, rfl⟩ | ⟨rfl, rfl⟩ <;> decide
  blockedWaits := by
    intro a h
    simp only [exSnap] at h
    by_cases h0 : a = 0
    · simp [h0] at h
    · by_cases h2 : a ≤ 2
      · have : a = 1 ∨ a = 2 := by omega
        rcases this with rfl | rfl
        · exact ⟨0, Or.inr ⟨rfl, rfl⟩⟩
        · exact ⟨1, Or.inl ⟨rfl, rfl⟩⟩
      · simp [h0, h2] at h
  serving := by
    intro a b h
    rcases h with ⟨rfl, rfl⟩ | ⟨rfl, rfl⟩ <;> simp [exSnap]

/-- The wedge of audit §0 in miniature: 1 waits for 0, 0 has terminated. Acyclic, ranked, every
    blocked actor waits for somebody — and no chain from 1 ends at a running actor. -/
def wedgeSnap : Snapshot Nat where
  status := fun n => if n = 1 then .blocked else .done
  waits := fun a b => a = 1 ∧ b = 0

example : (∀ a b, wedgeSnap.waits a b → id b < id a) ∧
    (∀ a, wedgeSnap.status a = .blocked → ∃ b, wedgeSnap.waits a b) ∧
    ¬ ∃ z, Chain wedgeSnap.waits 1 z ∧ wedgeSnap.status z = .running := by
  refine ⟨?_, ?_, ?_⟩
  · rintro a b ⟨rfl, rfl⟩; decide
  · intro a h
    by_cases h1 : a = 1
    · exact ⟨0, h1, rfl⟩
    · simp [wedgeSnap, h1] at h
  · rintro ⟨z, _, hz⟩
    simp only [wedgeSnap] at hz
    split at hz <;> cases hz

/-! ### Acyclic finite tables have a rank -/

theorem path_trans {t : List (α × α)} {a b c : α} (p : Path t a b) (q : Path t b c) : Path t a c := by
  induction p with
  | single e => exact .cons e q
  | cons e _ ih => exact .cons e (ih q)

theorem filter_length_lt {l : List α} {p q : α → Bool} (hpq : ∀ x, p x = true → q x = true)
    {x : α} (hx : x ∈ l) (hq : q x = true) (hp : p x = false) :
    (l.filter p).length < (l.filter q).length := by
  induction l with
  | nil => cases hx
  | cons y r ih =>
    have hle : (r.filter p).length ≤ (r.filter q).length := by
      clear ih hx
      induction r with
      | nil => exact Nat.le_refl _
      | cons z r ih2 =>
        simp only [List.filter_cons]
        cases hpz : p z with
        | true => simp [hpq z hpz]; exact ih2
        | false =>
          cases q z with
          | true => simp; exact Nat.le_succ_of_le ih2
          | false => simpa using ih2
    simp only [List.filter_cons]
    rcases List.mem_cons.mp hx with rfl | hx'
    · simp only [hp, hq, if_true, List.length_cons]
      exact Nat.lt_succ_of_le hle
    · have := ih hx'
      cases hpy : p y with
      | true => simp [hpq y hpy]; exact this
      | false =>
        cases q y with
        | true => simp; exact Nat.lt_succ_of_lt this
        | false => simpa using this

/-- A finite wait-for table without a cycle descends a rank (the number of actors reachable from
    an actor): for finite tables `Graph.Acyclic` and `Graph.Descends` say the same. -/
theorem acyclic_has_rank (t : List (α × α)) (h : Acyclic t) : ∃ rank : α → Nat, Descends t rank := by
  classical
  let nodes := t.map (·.2)
  refine ⟨fun a => (nodes.filter fun b => decide (Path t a b)).length, ?_⟩
  intro e he
  have hmem : e.2 ∈ nodes := List.mem_map.mpr ⟨e, he, rfl⟩
  have hee : (e.1, e.2) ∈ t := he
  apply filter_length_lt (x := e.2) ?_ hmem
  · exact decide_eq_true (Path.single hee)
  · exact decide_eq_false (h e.2)
  · intro x hx
    exact decide_eq_true (Path.cons hee (of_decide_eq_true hx))

/-- The combined theorem in the form of the property: the wait-for table has no cycle, the current
    waits are edges of the table, servers keep serving — then every blocked actor's wait chain ends at
    a running actor. -/
theorem no_cycle_and_serving_give_progress (t : List (α × α)) (hac : Acyclic t) (s : Snapshot α)
    (hsub : ∀ a b, s.waits a b → (a, b) ∈ t)
    (hblk : ∀ a, s.status a = .blocked → ∃ b, s.waits a b)
    (hserve : ∀ a b, s.waits a b → s.status b ≠ .done)
    (a : α) (ha : s.status a = .blocked) : ∃ z, Chain s.waits a z ∧ s.status z = .running := by
  obtain ⟨rank, hr⟩ := acyclic_has_rank t hac
  exact chain_ends_running s rank ⟨fun a b hab => hr (a, b) (hsub a b hab), hblk, hserve⟩ a ha

end Nexus.L3.WpL3.Progress
