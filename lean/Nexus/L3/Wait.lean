/-
The wait-for edges of the router, derived from the regenerated channel-operation table
(Nexus/Gen/Sites.lean (c)) and the synchronisation table (`syncOps`), with the role tables of
Nexus/L3/Roles.lean.

For a channel operation that can block, `opTargets` names the roles whose action ends the wait:
the owner of an action channel for a post, the owner of the closure that answers on a local reply
channel, the goroutine that closes a `stopped`/`done` channel, the reader of the meta session for a
send to the meta peer, the client for a blocking send to its queue. It answers `some []` when the
operation does not make its goroutine wait for another one:

* a send inside `select { … default: }` (non-blocking);
* a member of a select that also has a timer case (the wait is bounded by the clock);
* the *inbox* operations of `idleOps`: the top-level receive of a server loop (a goroutine that
  waits for work is not waiting for anybody in particular);
* a reply sent by a posted closure on a local channel whose poster's next channel operation is the
  matching receive (`committed`, checked by gen): a rendezvous with a partner that is already there;
* closing-signal channels (`closing`, `closed`, `stopMemStats`): receiving from them is waiting to
  be told to stop, and they only occur as an alternative beside another operation.

`none` means the operation could not be classified; `all_ops_classified` (Props/C07) demands that
this never happens, so a new kind of channel use breaks the build instead of being ignored.

A select without default contributes the edges of *all* its members (a goroutine blocked in it
needs one of them, so requiring every member's target to be of lower rank is the cautious choice).
-/
import Nexus.L3.Roles

namespace Nexus.L3
open Nexus.Gen.Sites

/-- Inbox operations: the receive(s) at the top of a server loop, by key, with the role whose
    loop it is. -/
def idleOps : List (Nat × Role) := [
  (key! "router.router.run|recv|router.actionChan", .Rtr),
  (key! "router.router.run|recv|router.closing", .Rtr),
  (key! "router.dealer.run|recv|dealer.actionChan", .D),
  (key! "router.dealer.run|recv|dealer.closing", .D),
  (key! "router.broker.run|range|broker.actionChan", .B),
  (key! "router.realm.run|range|realm.actionChan", .R),
  -- a session handler waiting for the next message of its client, or for being told to stop
  (key! "router.realm.handleInboundMessages|recv|recv", .H),
  (key! "router.realm.handleInboundMessages|recv|recvDone", .H),
  -- the meta procedure handler waiting for the next INVOCATION, or for the meta session to end
  (key! "router.realm.metaProcedureHandler|recv|realm.metaPeer.Recv()", .MP),
  (key! "router.realm.metaProcedureHandler|recv|realm.metaSessDone#2", .MP),
  (key! "router.router.logMemStats|recv|router.stopMemStats", .Mem),
  (key! "router.router.logMemStats|recv|t.C", .Mem),
  -- a call timer waiting for its deadline (or the dealer's end)
  (key! "router.dealer.syncCall|recv|timerCtx.Done()", .T),
  (key! "router.dealer.syncCall|recv|dealer.closing", .T),
  -- socket writers waiting for the next outbound message
  (key! "transport.rawSocketPeer.sendHandler|recv|rawSocketPeer.wr", .W),
  (key! "transport.rawSocketPeer.sendHandler|recv|senderDone", .W),
  (key! "transport.websocketPeer.sendHandler|recv|websocketPeer.wr", .W),
  (key! "transport.websocketPeer.sendHandler|recv|pongs", .W),
  (key! "transport.websocketPeer.sendHandler|recv|websocketPeer.ctxSender.Done()", .W),
  (key! "transport.websocketPeer.sendHandlerKeepAlive|recv|websocketPeer.wr", .W),
  (key! "transport.websocketPeer.sendHandlerKeepAlive|recv|pongs", .W),
  (key! "transport.websocketPeer.sendHandlerKeepAlive|recv|senderDone", .W),
  (key! "transport.websocketPeer.sendHandlerKeepAlive|recv|ticker.C", .W)]

/-- Who ends a wait on a struct field channel (`owner.field`). `[]`: a stop signal. -/
def fieldTargets : List (Nat × List Role) := [
  (key! "dealer.stopped", [.D]),
  (key! "broker.stopped", [.B]),
  (key! "realm.stopped", [.R]),
  (key! "router.stopped", [.Rtr]),
  (key! "realm.metaDone", [.MP]),
  (key! "realm.metaSessDone", [.HM]),
  (key! "router.memStatsStopped", [.Mem]),
  (key! "dealer.closing", []),
  (key! "router.closing", []),
  (key! "router.stopMemStats", []),
  -- socket peers
  (key! "rawSocketPeer.writerDone", [.W]),
  (key! "websocketPeer.writerDone", [.W]),
  (key! "websocketPeer.recvDone", [.Rd]),
  (key! "rawSocketPeer.closed", []),
  (key! "websocketPeer.closed", []),
  -- the reader hands a message to whoever reads Recv(): the attaching goroutine, then the handler
  (key! "rawSocketPeer.rd", [.A1, .H]),
  (key! "websocketPeer.rd", [.A1, .H]),
  -- draining the closed outbound queue in Close never blocks
  (key! "rawSocketPeer.wr", []),
  (key! "websocketPeer.wr", [])]

/-- The other end of a function-local channel, as reported by gen (`owner` of a `loc` operation). -/
def locTargets : List (Nat × List Role) := [
  (key! "posted:dealer.actionChan", [.D]),
  (key! "posted:broker.actionChan", [.B]),
  (key! "posted:realm.actionChan", [.R]),
  (key! "posted:router.actionChan", [.Rtr]),
  (key! "golit:transport.ConnectRawSocketPeer#go1", [.Cli]),
  -- `pongs`: written and read by the same goroutine's callbacks, through select/default
  (key! "", [])]

def isIdle (o : ChanOp) : Bool := idleOps.any fun p => Nat.beq p.1 o.key

/-- A socket reader handing a message to the router (`rd <- msg`) does wait for the attaching
    goroutine or the session handler; but every such send has the peer's `closed` channel as an
    alternative, and `Close` — the only place where the router in turn waits for the reader —
    closes `closed` first (`transport_close_releases_reader`, Props/C07). The edge reader → handler
    is therefore not part of any cycle and is left out. -/
def releaseAlts : List Nat := [key! "websocketPeer.closed", key! "rawSocketPeer.closed"]

def releasedSend (o : ChanOp) : Bool :=
  decide (o.op = .send) && decide (o.sel = .selMulti) &&
  memN o.owner [key! "websocketPeer.rd", key! "rawSocketPeer.rd"] &&
  o.alts.any fun a => memN a releaseAlts

/-- (operation, role) pairs that cannot occur, with the reason. -/
def infeasibleFor : List (Nat × Role × String) := [
  (key! "router.dealer.register|send|dealer.metaPeer.Send()", .HM,
    "metaPubs is empty for the meta session: it registers only wamp.* procedures (wampURI), for which syncRegister produces no meta event"),
  (key! "router.dealer.unregister|send|dealer.metaPeer.Send()", .HM,
    "the meta session's client side never sends UNREGISTER (table (f): only PUBLISH, REGISTER and the meta procedures' YIELD/ERROR go through the meta peer)")]

def feasibleRoles (o : ChanOp) : List Role :=
  (siteRoles o.fn o.gctx o.garg).filter fun r =>
    !(infeasibleFor.any fun e => Nat.beq e.1 o.key && decide (e.2.1 = r))

/-- Some member of the operation's select is a timer. -/
def selHasTimer (o : ChanOp) : Bool :=
  o.selId != 0 && chanOps.any fun p => Nat.beq p.selId o.selId && decide (p.cls = .timer)

def opTargets (o : ChanOp) : Option (List Role) :=
  if isIdle o then some []
  else if releasedSend o then some []
  else if decide (o.sel = .selDefault) then some []
  else if selHasTimer o then some []
  else match o.cls with
  | .action =>
    match o.op with
    | .send => (postedRole o.chan).map fun r => [r]
    | _ => none                                   -- a receive from an action channel must be an inbox
  | .peerSendMeta => some [.HM]
  | .peerRecvMeta => some [.HM]                   -- registerMetaProcedure waits for the dealer's answer via HM
  | .peerSendClient => some [.C]
  | .peerRecvClient => none                       -- only inside the handler's inbox select / RecvTimeout
  | .recvDone => none
  | .field => lookup o.owner fieldTargets
  | .loc =>
    if Nat.beq o.owner (key! "body") then
      (if o.committed then some [] else some (fnRoles o.fn))
    else lookup o.owner locTargets
  | .timer => some []
  | .ctxDone => some []
  | .glob => none
  | .other => none

/-- Edges contributed by one channel operation: every role that runs it waits for every target. -/
def opEdges (o : ChanOp) : List (Role × Role) :=
  match opTargets o with
  | none => []
  | some ts => (feasibleRoles o).flatMap fun a => ts.map fun b => (a, b)

/-- Waits that are not channel operations: the close lock and the handler wait group
    (table `syncOps`), keyed by site. -/
def syncTargets : List (Nat × List Role) := [
  -- realm.close takes the lock: waits for an attach that is inside handleSession
  (key! "router.realm.close|lock|realm.closeLock", [.A2]),
  -- realm.close waits for every session handler, and for attaches registered in the wait group
  (key! "router.realm.close|wgWait|realm.waitHandlers", [.H, .A2]),
  -- handleSession takes the lock: waits for a closer, or another attach, holding it.
  -- The waiting goroutine is still in phase A1 (it has not entered the critical section).
  (key! "router.realm.handleSession|lock|realm.closeLock", [.Rtr, .Ext2, .A2])]

def syncRoles (s : SyncOp) : List Role :=
  if Nat.beq s.key (key! "router.realm.handleSession|lock|realm.closeLock") then [.A1]
  else siteRoles s.fn s.gctx s.garg

def syncEdges (s : SyncOp) : List (Role × Role) :=
  match lookup s.key syncTargets with
  | none => []
  | some ts => (syncRoles s).flatMap fun a => ts.map fun b => (a, b)

/-- Blocking sync operations that `syncTargets` must cover. Session.mu and SyncIDGen.lock are leaf
    mutexes: held for a few field accesses (and, in the broker and the authorizer, around a user
    callback), never around a channel operation. -/
def syncNeedsTarget (s : SyncOp) : Bool :=
  (decide (s.kind = .lock) || decide (s.kind = .wgWait)) &&
  !(memN s.target [key! "Session.mu", key! "SyncIDGen.lock"])

/-- All derived edges. -/
def waitEdges : List (Role × Role) :=
  (chanOps.flatMap opEdges ++ syncOps.flatMap syncEdges).eraseDups

/-- The wait-for relation of the router: the edges whose waiting side is router code. `Cli` is
    client-side transport code (ConnectRawSocketPeer and a client closing its own peer); it is
    outside the router and left out. -/
def routerEdges : List (Role × Role) := waitEdges.filter fun e => decide (e.1 ≠ .Cli)

end Nexus.L3
