/-
  Helper lemmas for C19 (id part): Go's integer conversions on the fixed-width types and
  the arithmetic content of the generated id functions.  Proof file (not imported by the driver).
-/
import Nexus.Ids.Model

namespace Nexus.Ids
open Nexus.Gen

/-! ### uint64 ↔ int64 conversions (two's complement, as in Go) -/

theorem toInt_toInt64 (u : UInt64) :
    u.toInt64.toInt = if u.toNat < 2 ^ 63 then (u.toNat : Int) else (u.toNat : Int) - 2 ^ 64 := by
  have h : u.toInt64.toInt = u.toBitVec.toInt := rfl
  rw [h, BitVec.toInt_eq_toNat_cond]
  simp only [UInt64.toNat_toBitVec]
  split <;> split <;> omega

theorem toNat_toUInt64 (i : Int64) :
    (i.toUInt64.toNat : Int) = if 0 ≤ i.toInt then i.toInt else i.toInt + 2 ^ 64 := by
  have h₁ : i.toInt = i.toBitVec.toInt := rfl
  have h₂ : i.toUInt64.toNat = i.toBitVec.toNat := rfl
  have h₃ := i.toBitVec.isLt
  rw [h₁, h₂, BitVec.toInt_eq_toNat_cond]
  split <;> split <;> omega

theorem u64_toNat_lt (u : UInt64) : u.toNat < 2 ^ 64 := UInt64.toNat_lt u

theorem maxID_u64_toNat : MaxID_u64.toNat = 2 ^ 53 := by decide
theorem maxID_i64_toInt : MaxID_i64.toInt = 2 ^ 53 := by decide
theorem deltaID_u64_toNat : deltaID_u64.toNat = 500 := by decide
theorem maxID_eq : MaxID = 2 ^ 53 := by decide
theorem deltaID_eq : deltaID = 500 := by decide

/-! ### IDGen.Next -/

/-- What the generated `idGenNext` computes, in natural numbers, for every counter value. -/
theorem idGenNext_toNat (s : UInt64) :
    (idGenNext s).2.toNat =
      (if (s.toNat + 1) % 2 ^ 64 > 2 ^ 53 then 1 else (s.toNat + 1) % 2 ^ 64) ∧
    (idGenNext s).1 = (idGenNext s).2 := by
  refine ⟨?_, rfl⟩
  simp only [idGenNext]
  by_cases h : s + 1 > MaxID_u64
  · have h' := UInt64.lt_iff_toNat_lt.mp h
    rw [maxID_u64_toNat, UInt64.toNat_add] at h'
    simp only [h, decide_true, if_true]
    have : (1 : UInt64).toNat = 1 := rfl
    simp at h' ⊢
    omega
  · have h' : ¬ (MaxID_u64.toNat < (s + 1).toNat) := fun hh => h (UInt64.lt_iff_toNat_lt.mpr hh)
    rw [maxID_u64_toNat, UInt64.toNat_add] at h'
    simp only [h, decide_false]
    simp at h' ⊢
    omega

/-! ### Session.IsNewRecvID -/

theorem isNewRecvID_iff (last id : UInt64) (hlast : last.toNat ≤ 2 ^ 53) :
    isNewRecvID last id = true ↔
      (1 ≤ id.toNat ∧ id.toNat ≤ 2 ^ 53) ∧
      (last.toNat = 0 ∨ id.toNat > last.toNat ∨
        (id.toNat < last.toNat ∧ 2 ^ 53 - (last.toNat - id.toNat) < 500)) := by
  have hsub : id.toNat < last.toNat →
      (MaxID_u64 - (last - id)).toNat = 2 ^ 53 - (last.toNat - id.toNat) := by
    intro hlt
    have h1 : (last - id).toNat = last.toNat - id.toNat :=
      UInt64.toNat_sub_of_le _ _ (UInt64.le_iff_toNat_le.mpr (by omega))
    have h2 : (last - id) ≤ MaxID_u64 := UInt64.le_iff_toNat_le.mpr (by rw [h1, maxID_u64_toNat]; omega)
    rw [UInt64.toNat_sub_of_le _ _ h2, h1, maxID_u64_toNat]
  simp only [isNewRecvID]
  have e0 : ∀ x : UInt64, (x == 0) = true ↔ x.toNat = 0 := by
    intro x
    rw [beq_iff_eq, ← UInt64.toNat_inj]; rfl
  by_cases hid0 : id.toNat = 0
  · have : (id == 0) = true := (e0 id).mpr hid0
    simp [this]; omega
  have hid0' : (id == 0) = false := by
    cases h : (id == 0) with
    | false => rfl
    | true => exact absurd ((e0 id).mp h) hid0
  by_cases hmax : id > MaxID_u64
  · have := UInt64.lt_iff_toNat_lt.mp hmax
    rw [maxID_u64_toNat] at this
    simp [hid0', hmax]; omega
  have hmax' : id.toNat ≤ 2 ^ 53 := by
    have : ¬ MaxID_u64.toNat < id.toNat := fun hh => hmax (UInt64.lt_iff_toNat_lt.mpr hh)
    rw [maxID_u64_toNat] at this; omega
  simp only [hid0', hmax, decide_false, Bool.or_self, Bool.false_eq_true, if_false]
  by_cases hl0 : last.toNat = 0
  · have : (last == 0) = true := (e0 last).mpr hl0
    simp [this]; omega
  have hl0' : (last == 0) = false := by
    cases h : (last == 0) with
    | false => rfl
    | true => exact absurd ((e0 last).mp h) hl0
  simp only [hl0', Bool.false_eq_true, if_false]
  by_cases hgt : id > last
  · have := UInt64.lt_iff_toNat_lt.mp hgt
    simp [hgt]; omega
  have hgt' : ¬ last.toNat < id.toNat := fun hh => hgt (UInt64.lt_iff_toNat_lt.mpr hh)
  simp only [hgt, decide_false, Bool.false_eq_true, if_false]
  by_cases heq : id = last
  · subst heq; simp; omega
  have hne : id.toNat ≠ last.toNat := fun hh => heq (UInt64.toNat_inj.mp hh)
  have hbeq : (id == last) = false := by simpa using heq
  simp only [hbeq, Bool.false_eq_true, if_false, decide_eq_true_eq]
  have hlt : id.toNat < last.toNat := by omega
  rw [UInt64.lt_iff_toNat_lt, hsub hlt, deltaID_u64_toNat]
  omega

theorem updateLastRecvID_eq (last id : UInt64) :
    updateLastRecvID last id = (if isNewRecvID last id then id else last, isNewRecvID last id) := by
  simp only [updateLastRecvID]
  split <;> simp_all

/-! ### AsID -/

theorem asIDInRange_iff (v : Int64) : asIDInRange v = true ↔ 1 ≤ v.toInt ∧ v.toInt ≤ 2 ^ 53 := by
  simp only [asIDInRange, Bool.and_eq_true, decide_eq_true_eq, GT.gt, Int64.lt_iff_toInt_lt,
    Int64.le_iff_toInt_le, maxID_i64_toInt]
  have : (0 : Int64).toInt = 0 := rfl
  rw [this]; omega

theorem asIDOfInt64_iff (v : Int64) (id : UInt64) :
    asIDOfInt64 v = some id ↔ (1 ≤ v.toInt ∧ v.toInt ≤ 2 ^ 53) ∧ (id.toNat : Int) = v.toInt := by
  simp only [asIDOfInt64]
  by_cases h : asIDInRange v = true
  · have hr := (asIDInRange_iff v).mp h
    simp only [h, if_true, Option.some.injEq]
    have hc := toNat_toUInt64 v
    rw [if_pos (by omega)] at hc
    constructor
    · rintro rfl; exact ⟨hr, hc⟩
    · rintro ⟨_, hid⟩
      apply UInt64.toNat_inj.mp
      omega
  · have hr : ¬ (1 ≤ v.toInt ∧ v.toInt ≤ 2 ^ 53) := fun hh => h ((asIDInRange_iff v).mpr hh)
    simp [h]; omega

theorem asIDOfInt64_none_iff (v : Int64) :
    asIDOfInt64 v = none ↔ ¬ (1 ≤ v.toInt ∧ v.toInt ≤ 2 ^ 53) := by
  simp only [asIDOfInt64, ← asIDInRange_iff]
  split <;> simp_all

theorem truncToInt64_toInt (t : Option Int) :
    (truncToInt64 t).toInt =
      match t with
      | none => -2 ^ 63
      | some t => if -(2 ^ 63 : Int) ≤ t ∧ t < 2 ^ 63 then t else -2 ^ 63 := by
  cases t with
  | none => exact Int64.toInt_minValue
  | some t =>
    simp only [truncToInt64]
    split
    · rename_i h; exact Int64.toInt_ofInt_of_le h.1 h.2
    · exact Int64.toInt_minValue

end Nexus.Ids
