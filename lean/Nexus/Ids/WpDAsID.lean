/-
  WpD additions for C19 (`AsID`), audit items d6 and d7.

  d6.  `Nexus.Ids.truncToInt64` fixes ONE platform's answer (amd64: `math.MinInt64`) for the
  float→int64 conversions the Go spec leaves implementation-defined (NaN, ±Inf, truncated value
  outside int64).  Here the platform is a PARAMETER: `FloatConv` gives, per operand bit pattern,
  the value the platform's conversion yields in those cases (so operand-dependent answers such as
  arm64's saturation — NaN ↦ 0, too large ↦ MaxInt64, too small ↦ MinInt64 — are covered), and
  `asInt64P` / `asIDP` are `AsInt64` / `AsID` on that platform.  Nothing of the existing model is
  changed: `asIDP amd64 = asID` (`asIDP_amd64`).

  d7.  `GoVal` adds the "any other dynamic type" case of the type switch of `AsInt64`
  (`return 0, false`) on top of `GoNum`, and `asIDAny` is `AsID` on such a value.

  The headline theorems are in `Nexus.Props.C19`.  Core-only.
-/
import Nexus.Ids.Lemmas

namespace Nexus.Ids.WpD
open Nexus.Gen Nexus.Ids

/-! ### d6: the platform as a parameter -/

/-- Does the exact truncation fit into int64?  (`none` = NaN/±Inf does not.)  Exactly when this is
    `false` Go's `int64(f)` is implementation-defined. -/
def fitsInt64 : Option Int → Bool
  | none => false
  | some t => decide (-(2 ^ 63 : Int) ≤ t ∧ t < 2 ^ 63)

/-- Go's `int64(f)` on a platform whose conversion yields `oor` for this operand when the result
    is implementation-defined. -/
def truncToInt64P (oor : Int64) : Option Int → Int64
  | none => oor
  | some t => if -(2 ^ 63 : Int) ≤ t ∧ t < 2 ^ 63 then Int64.ofInt t else oor

/-- A platform's answers in the implementation-defined cases, per operand bit pattern. -/
structure FloatConv where
  /-- `int64(f)` for a float64 operand with these bits, when NaN/±Inf/out of range -/
  oor64 : UInt64 → Int64
  /-- `int64(f)` for a float32 operand with these bits, when NaN/±Inf/out of range -/
  oor32 : UInt32 → Int64

/-- `wamp.AsInt64` on a numeric value, on platform `P`. -/
def asInt64P (P : FloatConv) : GoNum → Int64
  | .float64 b => truncToInt64P (P.oor64 b) (f64Trunc b)
  | .float32 b => truncToInt64P (P.oor32 b) (f32Trunc b)
  | n => asInt64 n

/-- `wamp.AsID` on a numeric value, on platform `P`. -/
def asIDP (P : FloatConv) (n : GoNum) : Option UInt64 := asIDOfInt64 (asInt64P P n)

/-- amd64 (CVTTSD2SQ / CVTTSS2SQ): always the "integer indefinite" value `MinInt64`. -/
def amd64 : FloatConv := ⟨fun _ => intIndefinite, fun _ => intIndefinite⟩

/-- arm64 (FCVTZS): NaN ↦ 0, otherwise saturation by sign.  (riscv64, ppc64, s390x, mips64, wasm
    and the 32-bit software conversions likewise only ever yield 0, MinInt64 or MaxInt64.) -/
def arm64 : FloatConv where
  oor64 b :=
    if b.toNat / 2 ^ 52 % 2 ^ 11 = 2047 ∧ b.toNat % 2 ^ 52 ≠ 0 then 0
    else if b.toNat / 2 ^ 63 = 1 then Int64.minValue else Int64.maxValue
  oor32 b :=
    if b.toNat / 2 ^ 23 % 2 ^ 8 = 255 ∧ b.toNat % 2 ^ 23 ≠ 0 then 0
    else if b.toNat / 2 ^ 31 = 1 then Int64.minValue else Int64.maxValue

/-- A HYPOTHETICAL platform (none is known) whose conversion yields 7 in the undefined cases. -/
def hypothetical7 : FloatConv := ⟨fun _ => 7, fun _ => 7⟩

/-- "Every value the platform produces in an implementation-defined case lies outside
    `[1, 2^53]`" — the precise content of the trusted-base sentence "every platform's choice is
    rejected by AsID". -/
def FloatConv.Benign (P : FloatConv) : Prop :=
  (∀ b, fitsInt64 (f64Trunc b) = false → ¬ (1 ≤ (P.oor64 b).toInt ∧ (P.oor64 b).toInt ≤ 2 ^ 53)) ∧
  (∀ b, fitsInt64 (f32Trunc b) = false → ¬ (1 ≤ (P.oor32 b).toInt ∧ (P.oor32 b).toInt ≤ 2 ^ 53))

theorem truncToInt64P_amd64 (t : Option Int) : truncToInt64P intIndefinite t = truncToInt64 t := by
  cases t <;> rfl

/-- The existing model is the amd64 instance. -/
theorem asIDP_amd64 (n : GoNum) : asIDP amd64 n = asID n := by
  cases n <;> first | rfl | (simp only [asIDP, asInt64P, amd64, truncToInt64P_amd64]; rfl)

/-- When the truncation fits, the platform does not matter. -/
theorem truncToInt64P_fits (oor : Int64) (t : Option Int) (h : fitsInt64 t = true) :
    truncToInt64P oor t = truncToInt64 t := by
  cases t with
  | none => simp [fitsInt64] at h
  | some t =>
    have h' : -(2 ^ 63 : Int) ≤ t ∧ t < 2 ^ 63 := by simpa [fitsInt64] using h
    simp only [truncToInt64P, truncToInt64, if_pos h']

/-- When it does not fit, the result is the platform's value. -/
theorem truncToInt64P_oor (oor : Int64) (t : Option Int) (h : fitsInt64 t = false) :
    truncToInt64P oor t = oor := by
  cases t with
  | none => rfl
  | some t =>
    have h' : ¬ (-(2 ^ 63 : Int) ≤ t ∧ t < 2 ^ 63) := by simpa [fitsInt64] using h
    simp only [truncToInt64P, if_neg h']

/-- … and on amd64 it is `MinInt64`. -/
theorem truncToInt64_oor (t : Option Int) (h : fitsInt64 t = false) :
    truncToInt64 t = intIndefinite := by
  rw [← truncToInt64P_amd64, truncToInt64P_oor _ _ h]

theorem intIndefinite_rejected : asIDOfInt64 intIndefinite = none := by decide

/-- The three values real conversion instructions yield are all outside `[1, 2^53]`. -/
theorem known_values_outside (v : Int64) (h : v = 0 ∨ v = Int64.minValue ∨ v = Int64.maxValue) :
    ¬ (1 ≤ v.toInt ∧ v.toInt ≤ 2 ^ 53) := by
  rcases h with rfl | rfl | rfl
  · have : (0 : Int64).toInt = 0 := rfl
    omega
  · rw [Int64.toInt_minValue]; omega
  · have : Int64.maxValue.toInt = 2 ^ 63 - 1 := by decide
    omega

theorem amd64_benign : amd64.Benign :=
  ⟨fun _ _ => known_values_outside _ (Or.inr (Or.inl rfl)),
   fun _ _ => known_values_outside _ (Or.inr (Or.inl rfl))⟩

theorem arm64_benign : arm64.Benign := by
  constructor <;> intro b _ <;> apply known_values_outside <;> simp only [arm64] <;>
    split <;> first | exact Or.inl rfl | (split <;> simp)

/-- On a benign platform `AsID` is the amd64 model, for every value. -/
theorem asIDP_eq_asID (P : FloatConv) (hP : P.Benign) (n : GoNum) : asIDP P n = asID n := by
  have key : ∀ (oor : Int64) (t : Option Int),
      (fitsInt64 t = false → ¬ (1 ≤ oor.toInt ∧ oor.toInt ≤ 2 ^ 53)) →
      asIDOfInt64 (truncToInt64P oor t) = asIDOfInt64 (truncToInt64 t) := by
    intro oor t h
    cases hf : fitsInt64 t with
    | true => rw [truncToInt64P_fits _ _ hf]
    | false =>
      rw [truncToInt64P_oor _ _ hf, truncToInt64_oor _ hf, intIndefinite_rejected]
      exact (asIDOfInt64_none_iff _).mpr (h hf)
  cases n with
  | float64 b => exact key _ _ (hP.1 b)
  | float32 b => exact key _ _ (hP.2 b)
  | _ => rfl

/-! ### d7: dynamic types outside the nine -/

/-- A Go value as `AsInt64`'s type switch sees it: one of the nine numeric representations, or
    anything else (int8/int16/uint8/uint16, string, nil, json.Number, bool, list, map, …). -/
inductive GoVal where
  | num (n : GoNum)
  | other
  deriving Repr

/-- `wamp.AsInt64` on any value: `(value, ok)`; the fall-through of the switch is `0, false`. -/
def asInt64Any : GoVal → Int64 × Bool
  | .num n => (asInt64 n, true)
  | .other => (0, false)

/-- `wamp.AsID` on any value: `if i64, ok := AsInt64(v); ok { if in range { return ID(i64), true } };
    return 0, false`. -/
def asIDAny (v : GoVal) : Option UInt64 :=
  let r := asInt64Any v
  if r.2 then asIDOfInt64 r.1 else none

end Nexus.Ids.WpD
