/-
  WpD helper lemmas for C19 (id part): the counter after `k` calls of `IDGen.Next` in closed form,
  the LEAST number of `Next` steps between two ids, and the link between `nextIter` (iteration from
  an arbitrary counter) and `idGenState` (iteration from the fresh generator).

  The headline theorems built from these live in `Nexus.Props.C19` (namespace `Nexus.C19`).
  Proof file (not imported by the driver).  Core-only.
-/
import Nexus.Ids.Lemmas

namespace Nexus.Ids.WpD
open Nexus.Gen Nexus.Ids

/-- One `Next` step on a counter `s ≤ 2^53`: `s + 1`, except that `2^53` is followed by `1`. -/
theorem next_fst_toNat (s : UInt64) (hs : s.toNat ≤ 2 ^ 53) :
    (idGenNext s).1.toNat = if s.toNat = 2 ^ 53 then 1 else s.toNat + 1 := by
  obtain ⟨h, h'⟩ := idGenNext_toNat s
  rw [h', h]
  have : (s.toNat + 1) % 2 ^ 64 = s.toNat + 1 := Nat.mod_eq_of_lt (by omega)
  rw [this]
  split <;> split <;> omega

/-- `nextIter` unfolded at the other end: one more call is `Next` applied to the result so far. -/
theorem nextIter_succ' (k : Nat) (s : UInt64) :
    nextIter (k + 1) s = (idGenNext (nextIter k s)).1 := by
  induction k generalizing s with
  | zero => rfl
  | succ k ih =>
    show nextIter (k + 1) (idGenNext s).1 = _
    rw [ih]; rfl

/-- Steps compose. -/
theorem nextIter_add (j k : Nat) (s : UInt64) : nextIter (j + k) s = nextIter k (nextIter j s) := by
  induction j generalizing s with
  | zero => simp [nextIter]
  | succ j ih =>
    have : j + 1 + k = (j + k) + 1 := by omega
    rw [this]
    show nextIter (j + k) (idGenNext s).1 = nextIter k (nextIter j (idGenNext s).1)
    exact ih _

/-- Closed form of `k` calls of `Next` from any issued id `s ∈ [1, 2^53]`. -/
theorem nextIter_closed (k : Nat) (s : UInt64) (h1 : 1 ≤ s.toNat) (h2 : s.toNat ≤ 2 ^ 53) :
    (nextIter k s).toNat = (s.toNat - 1 + k) % 2 ^ 53 + 1 := by
  induction k generalizing s with
  | zero => simp only [nextIter]; omega
  | succ k ih =>
    have e := next_fst_toNat s h2
    have hr : 1 ≤ (idGenNext s).1.toNat ∧ (idGenNext s).1.toNat ≤ 2 ^ 53 := by
      rw [e]; split <;> omega
    simp only [nextIter]
    rw [ih _ hr.1 hr.2, e]
    split <;> omega

theorem next_zero : (idGenNext 0).1 = 1 := by decide

/-- From the fresh generator (counter 0) the first call yields 1, so `k + 1` calls from 0 are
    `k` calls from 1. -/
theorem nextIter_succ_zero (k : Nat) : nextIter (k + 1) 0 = nextIter k 1 := by
  show nextIter k (idGenNext 0).1 = _
  rw [next_zero]

/-- Closed form from the fresh generator: after `k + 1` calls the counter is `k mod 2^53 + 1`. -/
theorem nextIter_fresh (k : Nat) : (nextIter (k + 1) 0).toNat = k % 2 ^ 53 + 1 := by
  rw [nextIter_succ_zero, nextIter_closed k 1 (by decide) (by decide)]
  have : (1 : UInt64).toNat = 1 := rfl
  rw [this]; simp

/-- After at least one call, or from an issued id, the counter is an id in `[1, 2^53]`. -/
theorem nextIter_range (k : Nat) (s : UInt64) (h2 : s.toNat ≤ 2 ^ 53) (hk : 1 ≤ k ∨ 1 ≤ s.toNat) :
    1 ≤ (nextIter k s).toNat ∧ (nextIter k s).toNat ≤ 2 ^ 53 := by
  by_cases h1 : 1 ≤ s.toNat
  · rw [nextIter_closed k s h1 h2]; omega
  · have hs0 : s = 0 := UInt64.toNat_inj.mp (by
      have : (0 : UInt64).toNat = 0 := rfl
      omega)
    subst hs0
    obtain ⟨j, rfl⟩ : ∃ j, k = j + 1 := ⟨k - 1, by omega⟩
    rw [nextIter_fresh]; omega

/-- `idGenState n` (the model's fresh-generator state) is `n` calls of `Next` from counter 0. -/
theorem idGenState_eq_nextIter (n : Nat) : idGenState n = nextIter n 0 := by
  induction n with
  | zero => rfl
  | succ n ih => rw [nextIter_succ', ← ih]; rfl

/-- The n-th id issued (0-based) is the counter after `n + 1` calls. -/
theorem idGenSeq_eq_nextIter (n : Nat) : idGenSeq n = nextIter (n + 1) 0 := by
  rw [nextIter_succ', ← idGenState_eq_nextIter]
  exact ((idGenNext_toNat (idGenState n)).2).symm

/-- The number of `Next` steps that lead from the id `last` to the id `id`, as a residue:
    `(id − last) mod 2^53` (`0` when they are equal). -/
def stepsTo (last id : Nat) : Nat := (id + 2 ^ 53 - last) % 2 ^ 53

/-- EXACTLY which step counts lead from `last` to `id` (both issued ids): those congruent to
    `stepsTo last id` modulo the cycle length `2^53`. -/
theorem nextIter_eq_iff (k : Nat) (last id : UInt64)
    (h1 : 1 ≤ last.toNat) (hl : last.toNat ≤ 2 ^ 53)
    (hi1 : 1 ≤ id.toNat) (hi2 : id.toNat ≤ 2 ^ 53) :
    nextIter k last = id ↔ k % 2 ^ 53 = stepsTo last.toNat id.toNat := by
  rw [← UInt64.toNat_inj, nextIter_closed k last h1 hl]
  unfold stepsTo
  omega

/-- `stepsTo last id` steps do arrive at `id` … -/
theorem nextIter_stepsTo (last id : UInt64)
    (h1 : 1 ≤ last.toNat) (hl : last.toNat ≤ 2 ^ 53)
    (hi1 : 1 ≤ id.toNat) (hi2 : id.toNat ≤ 2 ^ 53) :
    nextIter (stepsTo last.toNat id.toNat) last = id := by
  rw [nextIter_eq_iff _ last id h1 hl hi1 hi2]
  unfold stepsTo
  omega

/-- … and no smaller number of steps does: `stepsTo` is the LEAST step count. -/
theorem stepsTo_le (k : Nat) (last id : UInt64)
    (h1 : 1 ≤ last.toNat) (hl : last.toNat ≤ 2 ^ 53)
    (hi1 : 1 ≤ id.toNat) (hi2 : id.toNat ≤ 2 ^ 53)
    (h : nextIter k last = id) : stepsTo last.toNat id.toNat ≤ k := by
  rw [nextIter_eq_iff _ last id h1 hl hi1 hi2] at h
  rw [← h]
  exact Nat.mod_le _ _

end Nexus.Ids.WpD
