/-
  Id handling around the GENERATED definitions of `Nexus.Gen` (Ids.lean):

  * `GoNum` / `asInt64` / `asID` — hand-written model of the type switch of `wamp.AsInt64`
    (every Go numeric representation the switch knows) feeding the generated `asIDOfInt64`;
  * `f64Trunc`, `f32Trunc` — exact truncation of an IEEE-754 value given by its bit pattern
    (pure integer arithmetic), and Go/amd64's float→int64 conversion built from it;
  * `idGenSeq` — the sequence of ids a fresh `IDGen` issues, iterating the generated `idGenNext`;
  * `recvStep` — `Session.UpdateLastRecvID` as a state step, from the generated `updateLastRecvID`.

  Core-only.
-/
import Nexus.Gen.Ids

namespace Nexus.Ids
open Nexus.Gen

/-- `math.MinInt64`, what amd64's CVTTSD2SQ yields for NaN, ±Inf and out-of-range values. -/
def intIndefinite : Int64 := Int64.minValue

/-- Exact truncation toward zero of the float64 with the given bit pattern; `none` for NaN/±Inf. -/
def f64Trunc (bits : UInt64) : Option Int :=
  let neg := bits.toNat / 2 ^ 63 = 1
  let e := bits.toNat / 2 ^ 52 % 2 ^ 11
  let m := bits.toNat % 2 ^ 52
  if e = 2047 then none
  else
    let mag : Nat :=
      if e = 0 then 0                                   -- zero and subnormals: |x| < 1
      else if e ≥ 1075 then (2 ^ 52 + m) * 2 ^ (e - 1075)
      else (2 ^ 52 + m) / 2 ^ (1075 - e)
    some (if neg then -(mag : Int) else (mag : Int))

/-- Exact truncation toward zero of the float32 with the given bit pattern; `none` for NaN/±Inf. -/
def f32Trunc (bits : UInt32) : Option Int :=
  let neg := bits.toNat / 2 ^ 31 = 1
  let e := bits.toNat / 2 ^ 23 % 2 ^ 8
  let m := bits.toNat % 2 ^ 23
  if e = 255 then none
  else
    let mag : Nat :=
      if e = 0 then 0
      else if e ≥ 150 then (2 ^ 23 + m) * 2 ^ (e - 150)
      else (2 ^ 23 + m) / 2 ^ (150 - e)
    some (if neg then -(mag : Int) else (mag : Int))

/-- Go's `int64(f)` on amd64: the truncation when it fits into int64, else the "integer
    indefinite" value (the Go spec leaves the out-of-range case implementation-defined). -/
def truncToInt64 : Option Int → Int64
  | none => intIndefinite
  | some t => if -(2 ^ 63 : Int) ≤ t ∧ t < 2 ^ 63 then Int64.ofInt t else intIndefinite

/-- A Go numeric value as `AsInt64`'s type switch sees it (64-bit platform: int = int64, uint = uint64). -/
inductive GoNum where
  | int64 (v : Int64)
  | id (v : UInt64)
  | uint64 (v : UInt64)
  | int (v : Int64)
  | int32 (v : Int32)
  | uint (v : UInt64)
  | uint32 (v : UInt32)
  | float64 (bits : UInt64)
  | float32 (bits : UInt32)
  deriving Repr

/-- `wamp.AsInt64` on a numeric value (always `ok`); uint64-like values wrap. -/
def asInt64 : GoNum → Int64
  | .int64 v => v
  | .id v => v.toInt64
  | .uint64 v => v.toInt64
  | .int v => v
  | .int32 v => v.toInt64
  | .uint v => v.toInt64
  | .uint32 v => v.toUInt64.toInt64
  | .float64 b => truncToInt64 (f64Trunc b)
  | .float32 b => truncToInt64 (f32Trunc b)

/-- The mathematical integer a Go numeric value denotes (floats: truncated toward zero;
    NaN and ±Inf denote none). -/
def GoNum.value : GoNum → Option Int
  | .int64 v => some v.toInt
  | .id v => some v.toNat
  | .uint64 v => some v.toNat
  | .int v => some v.toInt
  | .int32 v => some v.toInt
  | .uint v => some v.toNat
  | .uint32 v => some v.toNat
  | .float64 b => f64Trunc b
  | .float32 b => f32Trunc b

/-- `wamp.AsID` on a numeric value: `some id` iff accepted. -/
def asID (n : GoNum) : Option UInt64 := asIDOfInt64 (asInt64 n)

/-- State of an `IDGen` after `n` calls of `Next` (fresh generator: `next = 0`). -/
def idGenState : Nat → UInt64
  | 0 => 0
  | n + 1 => (idGenNext (idGenState n)).1

/-- The id returned by the `n`-th call (0-based) of `Next` on a fresh generator. -/
def idGenSeq (n : Nat) : UInt64 := (idGenNext (idGenState n)).2

/-- The generator counter after `k` further calls of `Next` from counter value `s`. -/
def nextIter : Nat → UInt64 → UInt64
  | 0, s => s
  | k + 1, s => nextIter k (idGenNext s).1

/-- Run `UpdateLastRecvID` over a sequence of received ids, from `lastRecvID = last`;
    returns the answers and the final `lastRecvID`. -/
def recvRun : UInt64 → List UInt64 → List Bool × UInt64
  | last, [] => ([], last)
  | last, id :: ids =>
    let r := updateLastRecvID last id
    let rest := recvRun r.1 ids
    (r.2 :: rest.1, rest.2)

/-- Source hashes at the time this model was last reconciled with the Go text. -/
def reconciledHashes : List (String × String × String) :=
  [("IDGen.Next", hash_IDGen_Next, "22aa381f57d39bde8653fc57792eae2c6d53a98433bd29d9118419a00585bba3"),
   ("GlobalID", hash_GlobalID, "a621924b946dccfb5afd55d8719c8a0726ebd7a64ce9caf1e911193484c23284"),
   ("secureInt63n", hash_secureInt63n, "9364e21f80d28d320ddef25cde671da19ec312f02dde2754047b3d65fbfeadea"),
   ("Session.IsNewRecvID", hash_Session_IsNewRecvID, "5d895c58f3903815f6e3af478d543e37ee0093cfa7903e841242790fd8721963"),
   ("Session.UpdateLastRecvIDLocked", hash_Session_UpdateLastRecvIDLocked, "40a7fcb6f57f8adc2bed558c5c3a7fd8ad6ece098aec9e1af36c114d84a44276"),
   ("Session.UpdateLastRecvID", hash_Session_UpdateLastRecvID, "04dac17b458ece7c40983e5f634021c9d9121e89e0a4cfd431b7adb540488cb8"),
   ("AsID", hash_AsID, "8d6b18d40aefce65fe44a8ecf1755fff8ee555f73733434ba30087c1e6d1e3b5"),
   ("AsInt64", hash_AsInt64, "1245d39295edbd91ac23d2ac4b8e5c614189a214ebeb6ae1e4d675d1529cd403")]

end Nexus.Ids
