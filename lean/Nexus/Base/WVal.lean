/-
  The WAMP data model as the router sees it after deserialisation.

  `str` carries a Lean `String` (valid UTF-8).  Functions whose Go counterpart
  works on raw bytes (URI validation, matching) are defined over `List UInt8`
  in `Nexus.L1.*` and applied to `s.toUTF8.toList`; the byte-level families of
  the correspondence harness feed those functions arbitrary byte strings.
-/
namespace Nexus

inductive WVal where
  | null
  | bool (b : Bool)
  | int (i : Int)
  | str (s : String)
  | list (l : List WVal)
  | dict (d : List (String × WVal))
  deriving Repr, Inhabited

abbrev Dict := List (String × WVal)

namespace WVal

mutual
  def beq : WVal → WVal → Bool
    | .null, .null => true
    | .bool a, .bool b => a == b
    | .int a, .int b => a == b
    | .str a, .str b => a == b
    | .list a, .list b => beqList a b
    | .dict a, .dict b => beqDict a b
    | _, _ => false
  def beqList : List WVal → List WVal → Bool
    | [], [] => true
    | a :: as, b :: bs => beq a b && beqList as bs
    | _, _ => false
  def beqDict : List (String × WVal) → List (String × WVal) → Bool
    | [], [] => true
    | (k, a) :: as, (l, b) :: bs => k == l && beq a b && beqDict as bs
    | _, _ => false
end

instance : BEq WVal := ⟨beq⟩

/-- `wamp.AsString`: strings only (the harness never produces `[]byte`). -/
def asString : WVal → Option String
  | .str s => some s
  | _ => none

/-- `v.(bool)` with the comma-ok form: any non-bool gives `(false, false)`. -/
def asBool : WVal → Option Bool
  | .bool b => some b
  | _ => none

/-- `b, _ := v.(bool)` -/
def flag : Option WVal → Bool
  | some (.bool b) => b
  | _ => false

def asInt : WVal → Option Int
  | .int i => some i
  | _ => none

def asList : WVal → Option (List WVal)
  | .list l => some l
  | .null => some []
  | _ => none

def asDict : WVal → Option Dict
  | .dict d => some d
  | .null => some []
  | _ => none

end WVal

namespace Dict

def get? (d : Dict) (k : String) : Option WVal :=
  match d with
  | [] => none
  | (k', v) :: rest => if k' == k then some v else get? rest k

def contains (d : Dict) (k : String) : Bool := (get? d k).isSome

def erase (d : Dict) (k : String) : Dict := d.filter (fun p => p.1 != k)

/-- Go map assignment: replace an existing key in place, else append. -/
def set (d : Dict) (k : String) (v : WVal) : Dict :=
  match d with
  | [] => [(k, v)]
  | (k', v') :: rest => if k' == k then (k, v) :: rest else (k', v') :: set rest k v

def optString (d : Dict) (k : String) : String :=
  match get? d k with
  | some (.str s) => s
  | _ => ""

def optFlag (d : Dict) (k : String) : Bool := WVal.flag (get? d k)

end Dict

/-- The largest WAMP id, 2^53. -/
def maxID : Nat := 9007199254740992

/-- `wamp.AsID` on the model's integer representation. -/
def WVal.asID : WVal → Option Nat
  | .int i => if 0 < i ∧ i ≤ (maxID : Int) then some i.toNat else none
  | _ => none

end Nexus
