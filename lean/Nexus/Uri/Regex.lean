/-
  Regular expressions over bytes: the fragment used by the six URI patterns of
  `wamp/identifier.go` (all of the form `^…$`, so matching is anchored full match).

  * `Regex`            — the AST that `gen uri` emits (`Nexus/Gen/UriRegex.lean`);
  * `Regex.Matches`    — declarative semantics (regular-language membership);
  * `Regex.matchB`     — executable matcher (Brzozowski derivatives with two trivial
                         simplifications), structurally recursive, no fuel;
  * `Regex.matchB_iff` — the matcher decides the semantics.

  Core-only (imported by the driver).
-/
namespace Nexus.Uri

/-- A byte class: a list of inclusive ranges, possibly negated. -/
structure ByteClass where
  neg : Bool
  ranges : List (UInt8 × UInt8)
  deriving Repr, DecidableEq

def ByteClass.mem (c : ByteClass) (b : UInt8) : Bool :=
  c.neg != c.ranges.any (fun r => r.1 ≤ b && b ≤ r.2)

inductive Regex where
  /-- matches nothing -/
  | empty : Regex
  /-- matches the empty string -/
  | eps : Regex
  /-- one byte of the class -/
  | cls (c : ByteClass) : Regex
  | seq (r q : Regex) : Regex
  | alt (r q : Regex) : Regex
  | star (r : Regex) : Regex
  | plus (r : Regex) : Regex
  | opt (r : Regex) : Regex
  deriving Repr, DecidableEq

namespace Regex

/-- Declarative semantics: `Matches r s` iff the whole byte string `s` is in the language of `r`. -/
inductive Matches : Regex → List UInt8 → Prop
  | eps : Matches .eps []
  | cls {c : ByteClass} {b : UInt8} : c.mem b = true → Matches (.cls c) [b]
  | seq {r q : Regex} {s t : List UInt8} : Matches r s → Matches q t → Matches (.seq r q) (s ++ t)
  | altL {r q : Regex} {s : List UInt8} : Matches r s → Matches (.alt r q) s
  | altR {r q : Regex} {s : List UInt8} : Matches q s → Matches (.alt r q) s
  | starNil {r : Regex} : Matches (.star r) []
  | starCons {r : Regex} {s t : List UInt8} : Matches r s → Matches (.star r) t → Matches (.star r) (s ++ t)
  | plus {r : Regex} {s t : List UInt8} : Matches r s → Matches (.star r) t → Matches (.plus r) (s ++ t)
  | optNone {r : Regex} : Matches (.opt r) []
  | optSome {r : Regex} {s : List UInt8} : Matches r s → Matches (.opt r) s

/-! ### Executable matcher -/

def nullable : Regex → Bool
  | .empty => false
  | .eps => true
  | .cls _ => false
  | .seq r q => nullable r && nullable q
  | .alt r q => nullable r || nullable q
  | .star _ => true
  | .plus r => nullable r
  | .opt _ => true

/-- `seq` that drops dead / trivial left factors (keeps derivatives small). -/
def mkSeq : Regex → Regex → Regex
  | .empty, _ => .empty
  | .eps, q => q
  | r, q => .seq r q

/-- `alt` that drops dead branches. -/
def mkAlt : Regex → Regex → Regex
  | .empty, q => q
  | r, .empty => r
  | r, q => .alt r q

/-- Brzozowski derivative of `r` by the byte `b`. -/
def deriv (b : UInt8) : Regex → Regex
  | .empty => .empty
  | .eps => .empty
  | .cls c => if c.mem b then .eps else .empty
  | .seq r q => if nullable r then mkAlt (mkSeq (deriv b r) q) (deriv b q) else mkSeq (deriv b r) q
  | .alt r q => mkAlt (deriv b r) (deriv b q)
  | .star r => mkSeq (deriv b r) (.star r)
  | .plus r => mkSeq (deriv b r) (.star r)
  | .opt r => deriv b r

/-- Anchored full match, executable. -/
def matchB : Regex → List UInt8 → Bool
  | r, [] => nullable r
  | r, b :: s => matchB (deriv b r) s

/-! ### Inversion lemmas -/

theorem matches_empty_iff {s} : Matches .empty s ↔ False :=
  ⟨fun h => (nomatch h), False.elim⟩

theorem matches_eps_iff {s} : Matches .eps s ↔ s = [] :=
  ⟨fun h => (by cases h with | eps => rfl), fun h => h ▸ .eps⟩

theorem matches_cls_iff {c s} : Matches (.cls c) s ↔ ∃ b, c.mem b = true ∧ s = [b] :=
  ⟨fun h => by cases h with | cls hb => exact ⟨_, hb, rfl⟩,
   fun ⟨_, hb, hs⟩ => hs ▸ .cls hb⟩

theorem matches_seq_iff {r q s} :
    Matches (.seq r q) s ↔ ∃ s₁ s₂, s = s₁ ++ s₂ ∧ Matches r s₁ ∧ Matches q s₂ :=
  ⟨fun h => by cases h with | seq h₁ h₂ => exact ⟨_, _, rfl, h₁, h₂⟩,
   fun ⟨_, _, hs, h₁, h₂⟩ => hs ▸ .seq h₁ h₂⟩

theorem matches_alt_iff {r q s} : Matches (.alt r q) s ↔ Matches r s ∨ Matches q s :=
  ⟨fun h => by
      cases h with
      | altL h => exact .inl h
      | altR h => exact .inr h,
   fun h => h.elim .altL .altR⟩

theorem matches_opt_iff {r s} : Matches (.opt r) s ↔ s = [] ∨ Matches r s :=
  ⟨fun h => by
      cases h with
      | optNone => exact .inl rfl
      | optSome h => exact .inr h,
   fun h => h.elim (fun e => e ▸ .optNone) .optSome⟩

theorem matches_plus_iff {r s} :
    Matches (.plus r) s ↔ ∃ s₁ s₂, s = s₁ ++ s₂ ∧ Matches r s₁ ∧ Matches (.star r) s₂ :=
  ⟨fun h => by cases h with | plus h₁ h₂ => exact ⟨_, _, rfl, h₁, h₂⟩,
   fun ⟨_, _, hs, h₁, h₂⟩ => hs ▸ .plus h₁ h₂⟩

/-- A star match is a concatenation of matches of the body. -/
theorem matches_star_iff {r s} :
    Matches (.star r) s ↔ ∃ ss : List (List UInt8), (∀ x ∈ ss, Matches r x) ∧ s = ss.flatten := by
  constructor
  · intro h
    generalize hr : Regex.star r = r' at h
    induction h with
    | starNil => exact ⟨[], by simp, rfl⟩
    | starCons h₁ _ _ ih₂ =>
      cases hr
      obtain ⟨ss, hss, rfl⟩ := ih₂ rfl
      exact ⟨_ :: ss, by
        intro x hx
        cases hx with
        | head => exact h₁
        | tail _ hx => exact hss x hx, by simp⟩
    | _ => cases hr
  · rintro ⟨ss, hss, rfl⟩
    induction ss with
    | nil => exact .starNil
    | cons x xs ih =>
      rw [List.flatten_cons]
      exact .starCons (hss x (by simp)) (ih (fun y hy => hss y (by simp [hy])))

/-- Non-empty star matches start with a non-empty match of the body. -/
theorem matches_star_cons {r b s} (h : Matches (.star r) (b :: s)) :
    ∃ s₁ s₂, s = s₁ ++ s₂ ∧ Matches r (b :: s₁) ∧ Matches (.star r) s₂ := by
  generalize hr : Regex.star r = r' at h
  generalize hs : b :: s = s' at h
  induction h with
  | @starCons r₁ u t h₁ h₂ _ ih₂ =>
    cases hr
    cases u with
    | nil => exact ih₂ rfl (by simpa using hs)
    | cons c u =>
      simp only [List.cons_append, List.cons.injEq] at hs
      obtain ⟨rfl, rfl⟩ := hs
      exact ⟨u, t, rfl, h₁, h₂⟩
  | starNil => cases hs
  | _ => cases hr

/-! ### Correctness of `nullable` -/

theorem nullable_iff {r : Regex} : nullable r = true ↔ Matches r [] := by
  induction r with
  | empty => simp [nullable, matches_empty_iff]
  | eps => simp [nullable, matches_eps_iff]
  | cls c => simp [nullable, matches_cls_iff]
  | seq r q ihr ihq =>
    simp only [nullable, Bool.and_eq_true, ihr, ihq, matches_seq_iff]
    constructor
    · rintro ⟨h₁, h₂⟩; exact ⟨[], [], rfl, h₁, h₂⟩
    · rintro ⟨s₁, s₂, hs, h₁, h₂⟩
      have := List.append_eq_nil_iff.mp hs.symm
      obtain ⟨rfl, rfl⟩ := this
      exact ⟨h₁, h₂⟩
  | alt r q ihr ihq => simp [nullable, ihr, ihq, matches_alt_iff]
  | star r _ => simp [nullable]; exact .starNil
  | plus r ih =>
    simp only [nullable, ih, matches_plus_iff]
    constructor
    · intro h; exact ⟨[], [], rfl, h, .starNil⟩
    · rintro ⟨s₁, s₂, hs, h₁, _⟩
      have := List.append_eq_nil_iff.mp hs.symm
      obtain ⟨rfl, rfl⟩ := this
      exact h₁
  | opt r _ => simp [nullable]; exact .optNone

/-! ### Smart constructors preserve the language -/

theorem matches_mkSeq_iff {r q s} : Matches (mkSeq r q) s ↔ Matches (.seq r q) s := by
  cases r <;> simp only [mkSeq]
  · simp [matches_seq_iff, matches_empty_iff]
  · simp only [matches_seq_iff, matches_eps_iff]
    constructor
    · intro h; exact ⟨[], s, rfl, rfl, h⟩
    · rintro ⟨_, _, rfl, rfl, h⟩; simpa using h

theorem matches_mkAlt_iff {r q s} : Matches (mkAlt r q) s ↔ Matches (.alt r q) s := by
  cases r <;> cases q <;> simp [mkAlt, matches_alt_iff, matches_empty_iff]

/-! ### Correctness of `deriv` -/

theorem matches_deriv_iff {r : Regex} {b : UInt8} {s : List UInt8} :
    Matches (deriv b r) s ↔ Matches r (b :: s) := by
  induction r generalizing s with
  | empty => simp [deriv, matches_empty_iff]
  | eps => simp [deriv, matches_empty_iff, matches_eps_iff]
  | cls c =>
    simp only [deriv, matches_cls_iff]
    split
    · rename_i h
      simp only [matches_eps_iff]
      constructor
      · rintro rfl; exact ⟨b, h, rfl⟩
      · rintro ⟨_, _, hs⟩
        simp only [List.cons.injEq] at hs
        exact hs.2
    · rename_i h
      simp only [matches_empty_iff, false_iff]
      rintro ⟨b', hb', hs⟩
      simp only [List.cons.injEq] at hs
      exact h (hs.1 ▸ hb')
  | seq r q ihr ihq =>
    have key : Matches (.seq r q) (b :: s) ↔
        (∃ s₁ s₂, s = s₁ ++ s₂ ∧ Matches r (b :: s₁) ∧ Matches q s₂) ∨
        (Matches r [] ∧ Matches q (b :: s)) := by
      rw [matches_seq_iff]
      constructor
      · rintro ⟨s₁, s₂, hs, h₁, h₂⟩
        cases s₁ with
        | nil => exact .inr ⟨h₁, by simpa using hs ▸ h₂⟩
        | cons c s₁ =>
          simp only [List.cons_append, List.cons.injEq] at hs
          obtain ⟨rfl, rfl⟩ := hs
          exact .inl ⟨s₁, s₂, rfl, h₁, h₂⟩
      · rintro (⟨s₁, s₂, rfl, h₁, h₂⟩ | ⟨h₁, h₂⟩)
        · exact ⟨b :: s₁, s₂, rfl, h₁, h₂⟩
        · exact ⟨[], b :: s, rfl, h₁, h₂⟩
    rw [key]
    simp only [deriv]
    split
    · rename_i hn
      simp only [matches_mkAlt_iff, matches_alt_iff, matches_mkSeq_iff, matches_seq_iff, ihr, ihq,
        nullable_iff.mp hn, true_and]
    · rename_i hn
      have hn' : ¬ Matches r [] := fun h => hn (nullable_iff.mpr h)
      simp only [matches_mkSeq_iff, matches_seq_iff, ihr, hn', false_and, or_false]
  | alt r q ihr ihq => simp [deriv, matches_mkAlt_iff, matches_alt_iff, ihr, ihq]
  | star r ih =>
    simp only [deriv, matches_mkSeq_iff, matches_seq_iff, ih]
    constructor
    · rintro ⟨s₁, s₂, rfl, h₁, h₂⟩
      exact .starCons h₁ h₂
    · exact matches_star_cons
  | plus r ih =>
    simp only [deriv, matches_mkSeq_iff, matches_seq_iff, ih]
    constructor
    · rintro ⟨s₁, s₂, rfl, h₁, h₂⟩
      exact .plus h₁ h₂
    · intro h
      -- plus r = r · star r, and r · star r ⊆ star r
      rw [matches_plus_iff] at h
      obtain ⟨s₁, s₂, hs, h₁, h₂⟩ := h
      have : Matches (.star r) (b :: s) := hs ▸ .starCons h₁ h₂
      exact matches_star_cons this
  | opt r ih =>
    simp only [deriv, ih, matches_opt_iff]
    simp

/-- The executable matcher decides the declarative semantics. -/
theorem matchB_iff {r : Regex} {s : List UInt8} : matchB r s = true ↔ Matches r s := by
  induction s generalizing r with
  | nil => simp [matchB, nullable_iff]
  | cons b s ih => simp [matchB, ih, matches_deriv_iff]

instance (r : Regex) (s : List UInt8) : Decidable (Matches r s) :=
  decidable_of_iff _ matchB_iff

end Regex
end Nexus.Uri
