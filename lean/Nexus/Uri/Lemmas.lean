/-
  Helper lemmas for C19 (URI part): dot-splitting, the shape `(D)* L` shared by all six
  URI patterns, and byte-class facts.  Proof file (not imported by the driver).
-/
import Nexus.Uri.Regex
import Nexus.Uri.Rule
import Nexus.Uri.Match

namespace Nexus.Uri
open Regex

/-! ### Splitting on dots -/

def DotFree (c : List UInt8) : Prop := ∀ b ∈ c, b ≠ dot

/-- `cs` joined with a dot AFTER every component. -/
def joinDots (cs : List (List UInt8)) : List UInt8 := (cs.map (· ++ [dot])).flatten

@[simp] theorem joinDots_nil : joinDots [] = [] := rfl
@[simp] theorem joinDots_cons (c cs) : joinDots (c :: cs) = c ++ dot :: joinDots cs := by
  simp [joinDots]

theorem splitAux_dot (t : List UInt8) :
    splitAux (dot :: t) = ([], (splitAux t).1 :: (splitAux t).2) := by
  simp [splitAux]

theorem splitAux_append {c : List UInt8} (hc : DotFree c) (t : List UInt8) :
    splitAux (c ++ t) = (c ++ (splitAux t).1, (splitAux t).2) := by
  induction c with
  | nil => simp
  | cons b c ih =>
    have hb : b ≠ dot := hc b (by simp)
    have hc' : DotFree c := fun x hx => hc x (by simp [hx])
    simp [splitAux, hb, ih hc']

theorem splitDot_append_dot {c : List UInt8} (hc : DotFree c) (t : List UInt8) :
    splitDot (c ++ dot :: t) = c :: splitDot t := by
  simp [splitDot, splitAux_append hc, splitAux_dot]

theorem splitDot_dotFree {c : List UInt8} (hc : DotFree c) : splitDot c = [c] := by
  have := splitAux_append hc []
  simp [splitAux] at this
  simp [splitDot, this]

theorem splitDot_join {cs : List (List UInt8)} {c : List UInt8}
    (hcs : ∀ x ∈ cs, DotFree x) (hc : DotFree c) : splitDot (joinDots cs ++ c) = cs ++ [c] := by
  induction cs with
  | nil => simpa using splitDot_dotFree hc
  | cons x xs ih =>
    have hx : DotFree x := hcs x (by simp)
    have hxs : ∀ y ∈ xs, DotFree y := fun y hy => hcs y (by simp [hy])
    rw [joinDots_cons, List.append_assoc, List.cons_append, splitDot_append_dot hx, ih hxs]
    rfl

/-- Every byte string is its dot-free components joined by dots. -/
theorem split_decomp (s : List UInt8) :
    ∃ cs c, splitDot s = cs ++ [c] ∧ s = joinDots cs ++ c ∧ (∀ x ∈ cs, DotFree x) ∧ DotFree c := by
  induction s with
  | nil => exact ⟨[], [], rfl, rfl, by simp, by simp [DotFree]⟩
  | cons b t ih =>
    obtain ⟨cs, c, hsp, ht, hcs, hc⟩ := ih
    by_cases hb : b = dot
    · subst hb
      refine ⟨[] :: cs, c, ?_, ?_, ?_, hc⟩
      · have := splitDot_append_dot (c := []) (by simp [DotFree]) t
        simp only [List.nil_append] at this
        rw [this, hsp]; rfl
      · simp [ht]
      · intro x hx
        cases hx with
        | head => simp [DotFree]
        | tail _ hx => exact hcs x hx
    · cases cs with
      | nil =>
        refine ⟨[], b :: c, ?_, ?_, by simp, ?_⟩
        · have hbc : DotFree (b :: c) := by
            intro x hx
            cases hx with
            | head => exact hb
            | tail _ hx => exact hc x hx
          simp only [joinDots_nil, List.nil_append] at ht
          rw [ht]
          simpa using splitDot_dotFree hbc
        · simpa using ht
        · intro x hx
          cases hx with
          | head => exact hb
          | tail _ hx => exact hc x hx
      | cons x xs =>
        have hbx : DotFree (b :: x) := by
          intro y hy
          cases hy with
          | head => exact hb
          | tail _ hy => exact hcs x (by simp) y hy
        refine ⟨(b :: x) :: xs, c, ?_, ?_, ?_, hc⟩
        · have hsp' : splitDot (joinDots ((b :: x) :: xs) ++ c) = ((b :: x) :: xs) ++ [c] :=
            splitDot_join (by
              intro y hy
              cases hy with
              | head => exact hbx
              | tail _ hy => exact hcs y (List.mem_cons_of_mem _ hy)) hc
          have : b :: t = joinDots ((b :: x) :: xs) ++ c := by
            rw [ht]; simp
          rw [this, hsp']
        · rw [ht]; simp
        · intro y hy
          cases hy with
          | head => exact hbx
          | tail _ hy => exact hcs y (List.mem_cons_of_mem _ hy)

theorem splitDot_ne_nil (s : List UInt8) : splitDot s ≠ [] := by simp [splitDot]

/-! ### The shape `(D)* L`: a sequence of dot-terminated components, then a last component -/

theorem matches_star_sep {D : Regex} {QD : List UInt8 → Prop}
    (hD : ∀ x, Matches D x ↔ ∃ c, QD c ∧ x = c ++ [dot]) (s : List UInt8) :
    Matches (.star D) s ↔ ∃ cs, (∀ c ∈ cs, QD c) ∧ s = joinDots cs := by
  rw [matches_star_iff]
  constructor
  · rintro ⟨ss, hss, rfl⟩
    induction ss with
    | nil => exact ⟨[], by simp, rfl⟩
    | cons x xs ih =>
      obtain ⟨cs, hcs, hj⟩ := ih (fun y hy => hss y (by simp [hy]))
      obtain ⟨c, hc, rfl⟩ := (hD x).mp (hss x (by simp))
      refine ⟨c :: cs, ?_, ?_⟩
      · intro y hy
        cases hy with
        | head => exact hc
        | tail _ hy => exact hcs y hy
      · simp [hj]
  · rintro ⟨cs, hcs, rfl⟩
    refine ⟨cs.map (· ++ [dot]), ?_, rfl⟩
    intro x hx
    obtain ⟨c, hc, rfl⟩ := List.mem_map.mp hx
    exact (hD _).mpr ⟨c, hcs c hc, rfl⟩

theorem matches_sepShape {D L : Regex} {QD QL : List UInt8 → Prop}
    (hD : ∀ x, Matches D x ↔ ∃ c, QD c ∧ x = c ++ [dot])
    (hL : ∀ x, Matches L x ↔ QL x)
    (hQD : ∀ c, QD c → DotFree c) (hQL : ∀ c, QL c → DotFree c) (s : List UInt8) :
    Matches (.seq (.star D) L) s ↔
      ∃ cs c, splitDot s = cs ++ [c] ∧ (∀ x ∈ cs, QD x) ∧ QL c := by
  rw [matches_seq_iff]
  constructor
  · rintro ⟨s₁, s₂, rfl, h₁, h₂⟩
    obtain ⟨cs, hcs, rfl⟩ := (matches_star_sep hD s₁).mp h₁
    have h₂' := (hL s₂).mp h₂
    exact ⟨cs, s₂, splitDot_join (fun x hx => hQD x (hcs x hx)) (hQL _ h₂'), hcs, h₂'⟩
  · rintro ⟨cs, c, hsp, hcs, hc⟩
    obtain ⟨cs', c', hsp', hs, _, _⟩ := split_decomp s
    rw [hsp] at hsp'
    obtain ⟨rfl, hcc⟩ := List.append_inj' hsp' rfl
    simp only [List.cons.injEq, and_true] at hcc
    subst hcc
    exact ⟨joinDots cs, c, hs, (matches_star_sep hD _).mpr ⟨cs, hcs, rfl⟩, (hL c).mpr hc⟩

/-! ### Runs of one byte class -/

theorem matches_star_cls {C : ByteClass} {s : List UInt8} :
    Matches (.star (.cls C)) s ↔ ∀ b ∈ s, C.mem b = true := by
  rw [matches_star_iff]
  constructor
  · rintro ⟨ss, hss, rfl⟩ b hb
    obtain ⟨x, hx, hbx⟩ := List.mem_flatten.mp hb
    obtain ⟨b', hb', rfl⟩ := matches_cls_iff.mp (hss x hx)
    simp only [List.mem_singleton] at hbx
    exact hbx ▸ hb'
  · intro h
    refine ⟨s.map (fun b => [b]), ?_, ?_⟩
    · intro x hx
      obtain ⟨b, hb, rfl⟩ := List.mem_map.mp hx
      exact matches_cls_iff.mpr ⟨b, h b hb, rfl⟩
    · induction s with
      | nil => rfl
      | cons b t ih => simp [← ih (fun x hx => h x (by simp [hx]))]

theorem matches_plus_cls {C : ByteClass} {s : List UInt8} :
    Matches (.plus (.cls C)) s ↔ s ≠ [] ∧ ∀ b ∈ s, C.mem b = true := by
  rw [matches_plus_iff]
  constructor
  · rintro ⟨s₁, s₂, rfl, h₁, h₂⟩
    obtain ⟨b, hb, rfl⟩ := matches_cls_iff.mp h₁
    refine ⟨by simp, ?_⟩
    intro x hx
    simp only [List.singleton_append, List.mem_cons] at hx
    rcases hx with rfl | hx
    · exact hb
    · exact matches_star_cls.mp h₂ x hx
  · rintro ⟨hne, h⟩
    cases s with
    | nil => exact absurd rfl hne
    | cons b t =>
      exact ⟨[b], t, rfl, matches_cls_iff.mpr ⟨b, h b (by simp), rfl⟩,
        matches_star_cls.mpr (fun x hx => h x (by simp [hx]))⟩

theorem matches_opt_plus_cls {C : ByteClass} {s : List UInt8} :
    Matches (.opt (.plus (.cls C))) s ↔ ∀ b ∈ s, C.mem b = true := by
  rw [matches_opt_iff, matches_plus_cls]
  constructor
  · rintro (rfl | ⟨_, h⟩)
    · simp
    · exact h
  · intro h
    by_cases hs : s = []
    · exact .inl hs
    · exact .inr ⟨hs, h⟩

/-- The class `\.` -/
def dotC : ByteClass := ⟨false, [(0x2e, 0x2e)]⟩

theorem dotC_mem (b : UInt8) : dotC.mem b = true ↔ b = dot := by
  simp only [dotC, ByteClass.mem, dot, List.any_cons, List.any_nil, Bool.or_false, Bool.false_bne,
    Bool.and_eq_true, decide_eq_true_eq]
  constructor
  · rintro ⟨h₁, h₂⟩; exact UInt8.le_antisymm h₂ h₁
  · rintro rfl; exact ⟨UInt8.le_refl _, UInt8.le_refl _⟩

theorem matches_dotC {x : List UInt8} : Matches (.cls dotC) x ↔ x = [dot] := by
  rw [matches_cls_iff]
  constructor
  · rintro ⟨b, hb, rfl⟩; rw [(dotC_mem b).mp hb]
  · rintro rfl; exact ⟨dot, (dotC_mem dot).mpr rfl, rfl⟩

/-! ### The three pattern shapes over an arbitrary class `C` that excludes the dot -/

def shapeNonEmpty (C : ByteClass) : Regex :=
  .seq (.star (.seq (.plus (.cls C)) (.cls dotC))) (.plus (.cls C))

def shapeLastEmpty (C : ByteClass) : Regex :=
  .seq (.star (.seq (.plus (.cls C)) (.cls dotC))) (.star (.cls C))

def shapeAnyEmpty (C : ByteClass) : Regex :=
  .seq (.star (.alt (.seq (.plus (.cls C)) (.cls dotC)) (.cls dotC))) (.opt (.plus (.cls C)))

/-- `rule` with the byte test abstracted. -/
def ruleC (ok : UInt8 → Bool) (p : Policy) (s : List UInt8) : Prop :=
  (∀ c ∈ splitDot s, ∀ b ∈ c, ok b = true) ∧ emptiness p (splitDot s)

theorem rule_eq_ruleC (strict : Bool) (p : Policy) (s : List UInt8) :
    rule strict p s = ruleC (okByte strict) p s := rfl

section shapes
variable {C : ByteClass} (hdot : C.mem dot = false)
include hdot

theorem dotFree_of_mem {c : List UInt8} (h : ∀ b ∈ c, C.mem b = true) : DotFree c := by
  intro b hb hbd
  have := h b hb
  rw [hbd, hdot] at this
  cases this

omit hdot in
theorem matches_compDot {x : List UInt8} :
    Matches (.seq (.plus (.cls C)) (.cls dotC)) x ↔
      ∃ c, (c ≠ [] ∧ ∀ b ∈ c, C.mem b = true) ∧ x = c ++ [dot] := by
  rw [matches_seq_iff]
  constructor
  · rintro ⟨s₁, s₂, rfl, h₁, h₂⟩
    rw [matches_dotC.mp h₂]
    exact ⟨s₁, matches_plus_cls.mp h₁, rfl⟩
  · rintro ⟨c, hc, rfl⟩
    exact ⟨c, [dot], rfl, matches_plus_cls.mpr hc, matches_dotC.mpr rfl⟩

omit hdot in
theorem matches_compDotOrDot {x : List UInt8} :
    Matches (.alt (.seq (.plus (.cls C)) (.cls dotC)) (.cls dotC)) x ↔
      ∃ c, (∀ b ∈ c, C.mem b = true) ∧ x = c ++ [dot] := by
  rw [matches_alt_iff, matches_compDot, matches_dotC]
  constructor
  · rintro (⟨c, ⟨_, hc⟩, rfl⟩ | rfl)
    · exact ⟨c, hc, rfl⟩
    · exact ⟨[], by simp, rfl⟩
  · rintro ⟨c, hc, rfl⟩
    by_cases hn : c = []
    · subst hn; exact .inr rfl
    · exact .inl ⟨c, ⟨hn, hc⟩, rfl⟩

/-- Split form of the three rules. -/
theorem ruleC_iff_split (p : Policy) (s : List UInt8) :
    ruleC C.mem p s ↔ ∃ cs c, splitDot s = cs ++ [c] ∧
      (∀ x ∈ cs, (p = .anyEmpty ∨ x ≠ []) ∧ ∀ b ∈ x, C.mem b = true) ∧
      ((p ≠ .nonEmpty ∨ c ≠ []) ∧ ∀ b ∈ c, C.mem b = true) := by
  obtain ⟨cs, c, hsp, -, -, -⟩ := split_decomp s
  have _ := hdot
  unfold ruleC
  rw [hsp]
  constructor
  · rintro ⟨hall, hem⟩
    refine ⟨cs, c, rfl, ?_, ?_⟩
    · intro x hx
      refine ⟨?_, hall x (by simp [hx])⟩
      cases p with
      | anyEmpty => exact .inl rfl
      | nonEmpty => exact .inr (hem x (by simp [hx]))
      | lastEmpty => exact .inr (hem x (by simpa [List.dropLast_concat] using hx))
    · refine ⟨?_, hall c (by simp)⟩
      cases p with
      | nonEmpty => exact .inr (hem c (by simp))
      | lastEmpty => exact .inl (by simp)
      | anyEmpty => exact .inl (by simp)
  · rintro ⟨cs', c', heq, hcs, hc⟩
    obtain ⟨rfl, hcc⟩ := List.append_inj' heq rfl
    simp only [List.cons.injEq, and_true] at hcc
    subst hcc
    refine ⟨?_, ?_⟩
    · intro x hx
      rcases List.mem_append.mp hx with hx | hx
      · exact (hcs x hx).2
      · simp only [List.mem_singleton] at hx
        exact hx ▸ hc.2
    · cases p with
      | anyEmpty => trivial
      | nonEmpty =>
        intro x hx
        rcases List.mem_append.mp hx with hx | hx
        · exact ((hcs x hx).1).resolve_left (by simp)
        · simp only [List.mem_singleton] at hx
          exact hx ▸ (hc.1.resolve_left (by simp))
      | lastEmpty =>
        intro x hx
        rw [List.dropLast_concat] at hx
        exact ((hcs x hx).1).resolve_left (by simp)

theorem matches_shapeNonEmpty (s : List UInt8) :
    Matches (shapeNonEmpty C) s ↔ ruleC C.mem .nonEmpty s := by
  rw [ruleC_iff_split hdot, shapeNonEmpty,
    matches_sepShape (QD := fun c => c ≠ [] ∧ ∀ b ∈ c, C.mem b = true)
      (QL := fun c => c ≠ [] ∧ ∀ b ∈ c, C.mem b = true)
      (fun x => matches_compDot) (fun x => matches_plus_cls)
      (fun c h => dotFree_of_mem hdot h.2) (fun c h => dotFree_of_mem hdot h.2)]
  simp

theorem matches_shapeLastEmpty (s : List UInt8) :
    Matches (shapeLastEmpty C) s ↔ ruleC C.mem .lastEmpty s := by
  rw [ruleC_iff_split hdot, shapeLastEmpty,
    matches_sepShape (QD := fun c => c ≠ [] ∧ ∀ b ∈ c, C.mem b = true)
      (QL := fun c => ∀ b ∈ c, C.mem b = true)
      (fun x => matches_compDot) (fun x => matches_star_cls)
      (fun c h => dotFree_of_mem hdot h.2) (fun c h => dotFree_of_mem hdot h)]
  simp

theorem matches_shapeAnyEmpty (s : List UInt8) :
    Matches (shapeAnyEmpty C) s ↔ ruleC C.mem .anyEmpty s := by
  rw [ruleC_iff_split hdot, shapeAnyEmpty,
    matches_sepShape (QD := fun c => ∀ b ∈ c, C.mem b = true)
      (QL := fun c => ∀ b ∈ c, C.mem b = true)
      (fun x => matches_compDotOrDot) (fun x => matches_opt_plus_cls)
      (fun c h => dotFree_of_mem hdot h) (fun c h => dotFree_of_mem hdot h)]
  simp

end shapes

/-- The executable rule used by the driver's `rule` request decides `rule`. -/
theorem ruleB_iff (strict : Bool) (p : Policy) (s : List UInt8) :
    ruleB strict p s = true ↔ rule strict p s := by
  cases p <;> simp [ruleB, rule, emptiness, List.all_eq_true]

/-! ### The two byte classes of the generated patterns -/

def looseC : ByteClass :=
  ⟨true, [(0x09, 0x0a), (0x0c, 0x0d), (0x20, 0x20), (0x2e, 0x2e), (0x23, 0x23)]⟩

def strictC : ByteClass := ⟨false, [(0x30, 0x39), (0x61, 0x7a), (0x5f, 0x5f)]⟩

theorem looseC_mem (b : UInt8) : looseC.mem b = looseByte b := by
  rw [Bool.eq_iff_iff]
  simp [looseC, ByteClass.mem, looseByte, UInt8.le_iff_toNat_le, ← UInt8.toNat_inj]
  omega

theorem strictC_mem (b : UInt8) : strictC.mem b = strictByte b := by
  rw [Bool.eq_iff_iff]
  simp [strictC, ByteClass.mem, strictByte, UInt8.le_iff_toNat_le, ← UInt8.toNat_inj]
  omega

theorem looseC_mem_eq : looseC.mem = okByte false := funext looseC_mem
theorem strictC_mem_eq : strictC.mem = okByte true := funext strictC_mem

theorem looseC_dot : looseC.mem dot = false := by decide
theorem strictC_dot : strictC.mem dot = false := by decide

/-! ### Dispatch table -/

/-- Which pattern belongs to which (strict, policy): the table the property implies. -/
def regexFor : Bool → Policy → Regex
  | false, .nonEmpty => Nexus.Gen.looseURINonEmpty
  | false, .lastEmpty => Nexus.Gen.looseURILastEmpty
  | false, .anyEmpty => Nexus.Gen.looseURIEmpty
  | true, .nonEmpty => Nexus.Gen.strictURINonEmpty
  | true, .lastEmpty => Nexus.Gen.strictURILastEmpty
  | true, .anyEmpty => Nexus.Gen.strictURIEmpty

theorem matchPrefix_eq : Nexus.Gen.MatchPrefix = prefixName := by decide
theorem matchWildcard_eq : Nexus.Gen.MatchWildcard = wildcardName := by decide

/-! ### WildcardMatch loop -/

theorem wildLoop_iff (ws ps : List (List UInt8)) (hlen : ws.length = ps.length) :
    wildLoop ws ps = true ↔
      ∀ i (hw : i < ws.length) (hp : i < ps.length), ws[i] = [] ∨ ws[i] = ps[i] := by
  induction ws generalizing ps with
  | nil => simp [wildLoop]
  | cons w ws ih =>
    cases ps with
    | nil => simp at hlen
    | cons p ps =>
      have hlen' : ws.length = ps.length := by simpa using hlen
      simp only [wildLoop]
      constructor
      · intro h i hw hp
        by_cases hc : w ≠ [] ∧ w ≠ p
        · simp [hc] at h
        · rw [if_neg hc] at h
          cases i with
          | zero =>
            simp only [List.getElem_cons_zero]
            by_cases hw0 : w = []
            · exact .inl hw0
            · exact .inr (Classical.not_not.mp (fun hne => hc ⟨hw0, hne⟩))
          | succ i =>
            simp only [List.getElem_cons_succ]
            exact (ih ps hlen').mp h i (by simpa using hw) (by simpa using hp)
      · intro h
        have h0 := h 0 (by simp) (by simp)
        simp only [List.getElem_cons_zero] at h0
        have hc : ¬ (w ≠ [] ∧ w ≠ p) := by
          rintro ⟨h1, h2⟩
          rcases h0 with h0 | h0
          · exact h1 h0
          · exact h2 h0
        rw [if_neg hc]
        apply (ih ps hlen').mpr
        intro i hw hp
        have := h (i + 1) (by simpa using hw) (by simpa using hp)
        simpa using this

end Nexus.Uri
