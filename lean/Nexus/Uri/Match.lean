/-
  Lean models of `URI.ValidURI`, `URI.PrefixMatch`, `URI.WildcardMatch` (wamp/identifier.go).

  * `validURI` runs the executable regex matcher on the regex chosen by the GENERATED dispatch
    `Gen.validURIRegex` (regenerated from the Go if/return chain).
  * `prefixMatch` is `strings.HasPrefix` (gen checks that the Go body is exactly that call).
  * `wildcardMatch` mirrors the Go loop over `strings.Split` parts (hand-written; tied by the
    `uriid` correspondence family and the source hash `Gen.hash_URI_WildcardMatch`).

  Core-only.
-/
import Nexus.Uri.Regex
import Nexus.Uri.Rule
import Nexus.Gen.UriRegex

namespace Nexus.Uri

/-- `URI(u).ValidURI(strict, match)`. -/
def validURI (strict : Bool) (mtch : List UInt8) (u : List UInt8) : Bool :=
  Regex.matchB (Nexus.Gen.validURIRegex strict mtch) u

/-- `URI(u).PrefixMatch(p)` = `strings.HasPrefix(u, p)`. -/
def prefixMatch (u p : List UInt8) : Bool := p.isPrefixOf u

/-- The loop of `WildcardMatch`: `for i := range wcParts { if wcParts[i] != "" && wcParts[i] != parts[i] { return false } }; return true`,
    run on lists of equal length (the Go code returns before the loop otherwise). -/
def wildLoop : List (List UInt8) → List (List UInt8) → Bool
  | [], _ => true
  | _ :: _, [] => true -- unreachable: lengths are equal when the loop runs
  | w :: ws, p :: ps => if w ≠ [] ∧ w ≠ p then false else wildLoop ws ps

/-- `URI(u).WildcardMatch(w)`. -/
def wildcardMatch (u w : List UInt8) : Bool :=
  let wcParts := splitDot w
  let parts := splitDot u
  if parts.length ≠ wcParts.length then false else wildLoop wcParts parts

/-- Source hashes at the time the hand-written models above were last reconciled with the Go text. -/
def reconciledHashes : List (String × String × String) :=
  [("URI.ValidURI", Nexus.Gen.hash_URI_ValidURI, "256b6147cfbcf7bf61e069e27cd038d5001cfe85261d4500b7e9d7cecd8799a1"),
   ("URI.PrefixMatch", Nexus.Gen.hash_URI_PrefixMatch, "091498929d8505aa489199ae1a6ba6069d0ca229ff36c49e3143718262e04877"),
   ("URI.WildcardMatch", Nexus.Gen.hash_URI_WildcardMatch, "0558cc99e030bd89b4268c53029762e1783e21388fe1efdd5de878a784212f14")]

end Nexus.Uri
