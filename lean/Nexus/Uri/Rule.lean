/-
  The WAMP URI component rule, written directly from the property text (no regex):

    split the byte string on '.' (0x2E, `strings.Split` semantics: the empty string is ONE
    empty component); every byte of every component must be allowed (loose: not whitespace
    [\t\n\f\r ], not '.', not '#'; strict: only [0-9a-z_]); emptiness of components:
    nowhere (exact use) / last component only (prefix) / anywhere (wildcard).

  Core-only.
-/
namespace Nexus.Uri

/-- The byte `.` -/
def dot : UInt8 := 0x2e

/-- First component and remaining components of a byte string split on `.`. -/
def splitAux : List UInt8 → List UInt8 × List (List UInt8)
  | [] => ([], [])
  | b :: s =>
    let r := splitAux s
    if b = dot then ([], r.1 :: r.2) else (b :: r.1, r.2)

/-- `strings.Split(s, ".")`: always at least one component; `"" ↦ [""]`, `"a." ↦ ["a", ""]`. -/
def splitDot (s : List UInt8) : List (List UInt8) :=
  (splitAux s).1 :: (splitAux s).2

/-- Loose rule for one byte: no whitespace (`\s` of RE2 = tab, LF, FF, CR, space), no `.`, no `#`. -/
def looseByte (b : UInt8) : Bool :=
  !(b == 0x09 || b == 0x0a || b == 0x0c || b == 0x0d || b == 0x20 || b == 0x2e || b == 0x23)

/-- Strict rule for one byte: `0-9`, `a-z`, `_`. -/
def strictByte (b : UInt8) : Bool :=
  (0x30 ≤ b && b ≤ 0x39) || (0x61 ≤ b && b ≤ 0x7a) || b == 0x5f

def okByte (strict : Bool) (b : UInt8) : Bool :=
  if strict then strictByte b else looseByte b

/-- Where empty components are allowed. -/
inductive Policy where
  /-- exact use: nowhere -/
  | nonEmpty
  /-- prefix use: only the last component may be empty -/
  | lastEmpty
  /-- wildcard use: any component may be empty -/
  | anyEmpty
  deriving Repr, DecidableEq

def emptiness : Policy → List (List UInt8) → Prop
  | .nonEmpty, cs => ∀ c ∈ cs, c ≠ []
  | .lastEmpty, cs => ∀ c ∈ cs.dropLast, c ≠ []
  | .anyEmpty, _ => True

/-- Bytes of an ASCII string given by its characters. -/
def asciiBytes (cs : List Char) : List UInt8 := cs.map (fun c => UInt8.ofNat c.toNat)

/-- The match-mode names as the WAMP spec / property text spell them. -/
def prefixName : List UInt8 := asciiBytes ['p', 'r', 'e', 'f', 'i', 'x']
def wildcardName : List UInt8 := asciiBytes ['w', 'i', 'l', 'd', 'c', 'a', 'r', 'd']

/-- The purpose a URI is validated for, from the `match` option value: "prefix" and "wildcard"
    select those policies, every other value (including "exact", "" and garbage) means exact use. -/
def policyOf (mtch : List UInt8) : Policy :=
  if mtch = wildcardName then .anyEmpty
  else if mtch = prefixName then .lastEmpty
  else .nonEmpty

/-- The component rule. -/
def rule (strict : Bool) (p : Policy) (s : List UInt8) : Prop :=
  (∀ c ∈ splitDot s, ∀ b ∈ c, okByte strict b = true) ∧ emptiness p (splitDot s)

/-- Executable version of `rule` (used by the driver's `rule` request). -/
def ruleB (strict : Bool) (p : Policy) (s : List UInt8) : Bool :=
  (splitDot s).all (fun c => c.all (okByte strict)) &&
  match p with
  | .nonEmpty => (splitDot s).all (fun c => !c.isEmpty)
  | .lastEmpty => (splitDot s).dropLast.all (fun c => !c.isEmpty)
  | .anyEmpty => true

end Nexus.Uri
