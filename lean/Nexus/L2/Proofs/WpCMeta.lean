/-
  Work package C: NOTHING EVER ENDS THE META SESSION (C04) — the invariant `MetaSafe`.

  The meta session (key `metaKey`) publishes the meta events and the testaments and answers the
  meta-procedure invocations.  The handlers abort / end exactly one session: the SENDER of the message
  being handled (`eff_handleMsg`).  The meta session "sends"
    * publications whose options come from testaments: the only abort branch of `handlePublish` is
      "uses payload passthru without announcing the feature" — dead for the meta session, whose roles
      announce it (`Realm.metaS`; this is the fix of the defect of audit-C §0);
    * the answers of the meta-procedure handler: `YIELD` with empty options (so the PPT abort branch of
      `syncYield` is dead) or `ERROR` of type INVOCATION (no violation) — `cleanAnswer`;
    * retried YIELDs of that kind (`retryDue`).
  `MetaSafe` says so for a state; it is kept by every atomic action provided no CLIENT is stored under
  the meta session's key (`OpK`: no `join`/`drop` names `metaKey` — session keys are the model's names
  for sessions, the router draws random non-zero ids different from the meta id).
-/
import Nexus.L2.Proofs.WpCAct

namespace Nexus.L2.WpC
open Nexus.L2 Nexus.L2.Realm Nexus.Gen.N

/-- pending tasks never concern the meta session's own end, and its answers are clean -/
def MTaskOk : Task → Prop
  | .leave j _ => j ≠ metaKey
  | .metaMsg m => cleanAnswer m = true
  | _ => True

structure MetaSafe (r : Realm) : Prop where
  noClient : ∀ c ∈ r.clients, c.key ≠ metaKey
  ending : metaKey ∉ r.ending
  tasks : ∀ t ∈ r.tasks, MTaskOk t
  deferred : ∀ d ∈ r.deferred, d.1 ≠ metaKey
  retries : ∀ x ∈ r.retries, x.callee = metaKey → pptScheme x.opts = ""
  mkey : r.metaS.key = metaKey
  metaPPT : r.metaS.hasFeature RolePublisher FeaturePayloadPassthruMode = true

theorem MetaSafe.client_ne {r : Realm} (h : MetaSafe r) {k : SessKey} (hk : r.isClient k) : k ≠ metaKey := by
  obtain ⟨c, hc, rfl⟩ := hk
  exact h.noClient c hc

/-! ### the dealer never aborts the sender of a YIELD without payload passthru -/

theorem syncYield_aborts_nil (env : DEnv) (s : DState) (callee : SessKey) (req : Nat) (opts : Dict)
    (args : List WVal) (kw : Dict) (progress canRetry : Bool) (hp : pptScheme opts = "") :
    (syncYield env s callee req opts args kw progress canRetry).aborts = [] := by
  have hu : (pptScheme opts != "") = false := by rw [hp]; decide
  unfold syncYield
  simp only [hu, Bool.false_and, Bool.false_eq_true, if_false]
  split
  · split <;> rfl
  · split
    · rfl
    · split
      · rfl
      · split
        · rfl
        · split
          · rfl
          · simp only
            rw [syncCancel_aborts]

theorem authzGate_meta (r : Realm) (s : Session) (m : Msg) (hs : s.key = metaKey) : authzGate r s m = (true, r) := by
  unfold authzGate
  split
  · rfl
  · simp [hs]

/-! ### who an action may end, which retry it may create -/

/-- the sessions a client-side action in state `r` may end: attached, not yet ending -/
def ActP (r : Realm) (j : SessKey) : Prop := r.isClient j ∧ r.ending.contains j = false

/-- the `Retry` entries an action in state `r` may create: first turn 1 ms later, for an attached, not
    ending, not busy session — or for the meta session, with empty YIELD options -/
def ActQ (r : Realm) (x : Retry) : Prop :=
  x.start = r.now ∧ x.next = r.now + yieldRetryDelayMs ∧ x.delay = yieldRetryDelayMs ∧
  ((r.isClient x.callee ∧ r.ending.contains x.callee = false ∧ r.busy x.callee = false) ∨
   (x.callee = metaKey ∧ x.opts = []))

/-- The five shapes of one internal task (`runTask`), as far as the control fields go. -/
inductive TaskAct (r : Realm) : Realm → Prop
  | eff {r'} : Eff (ActP r) (ActQ r) r r' → TaskAct r r'
  | invoke {r'} : MetaAct r r' → TaskAct r r'
  | defer (k : SessKey) (mode : LeaveMode) : k ≠ metaKey → r.busy k = true →
      TaskAct r { r with deferred := r.deferred ++ [(k, mode)] }
  | leave (k : SessKey) (mode : LeaveMode) (s : Session) : k ≠ metaKey →
      r.clients.find? (fun c => c.key == k) = some s → r.busy k = false → TaskAct r (r.leave k mode)
  | none : TaskAct r r

theorem eff_metaMsg {r : Realm} (hm : MetaSafe r) (m : Msg) (hc : cleanAnswer m = true) :
    Eff (ActP r) (ActQ r) r (handleMsg r r.metaS m) := by
  rw [handleMsg_eq, authzGate_meta r r.metaS m hm.mkey]
  simp only [if_true]
  cases m
  case yield req opts args kw =>
    have ho : opts = [] := by
      cases opts with
      | nil => rfl
      | cons a b => cases hc
    subst ho
    refine eff_handleYield _ _ _ _ _ _ ?_ ?_
    · rw [syncYield_aborts_nil _ _ _ _ _ _ _ _ _ (by decide)]
      intro j hj; cases hj
    · exact ⟨rfl, rfl, rfl, Or.inr ⟨hm.mkey, rfl⟩⟩
  case error typ req details err args kw =>
    have ht : typ = tINVOCATION := by simpa [cleanAnswer] using hc
    subst ht
    have e : Realm.dispatch r r.metaS (.error tINVOCATION req details err args kw) =
        handleError r r.metaS req details err args kw := by
      unfold Realm.dispatch
      simp only
      rw [if_neg (by decide)]
    rw [e]
    exact eff_handleError ..
  all_goals cases hc

theorem eff_metaPub {r : Realm} (hm : MetaSafe r) (p : MetaPub) {P : SessKey → Prop} {Q : Retry → Prop} :
    Eff P Q r (r.metaPublish p) := by
  unfold metaPublish
  refine eff_handlePublish _ _ _ _ _ _ _ ?_
  intro h
  rw [hm.metaPPT] at h
  simp at h

theorem runTask_act {r : Realm} (hm : MetaSafe r) (t : Task) (ht : MTaskOk t) : TaskAct r (r.runTask t) := by
  cases t with
  | metaPub p => exact .eff (eff_metaPub hm p)
  | metaInvoke req reg details args kw => exact .invoke (metaInvoke_act r req reg details args kw)
  | metaMsg m => exact .eff (eff_metaMsg hm m ht)
  | inMsg k m =>
    refine .eff ((eff_recvMsg r k m).mono ?_ ?_)
    · rintro j ⟨rfl, h1, h2⟩; exact ⟨h1, h2⟩
    · rintro x ⟨⟨req, opts, args, kw, _, rfl⟩, h1, h2, h3⟩
      exact ⟨rfl, rfl, rfl, Or.inl ⟨h1, h2, h3⟩⟩
  | leave k mode =>
    rw [runTask_leave]
    split
    · rename_i hb; exact .defer k mode ht hb
    · rename_i hb
      cases hf : r.clients.find? (fun c => c.key == k) with
      | none => rw [leave_none mode hf]; exact .none
      | some s => exact .leave k mode s ht hf (by simpa using hb)

/-! ### `MetaSafe` is kept by every atomic action -/

theorem busy_mono {r r' : Realm} {k : SessKey} (h : ∀ x ∈ r.retries, x ∈ r'.retries) (hb : r.busy k = true) :
    r'.busy k = true := by
  unfold busy at *
  obtain ⟨x, hx, hxk⟩ := List.any_eq_true.mp hb
  exact List.any_eq_true.mpr ⟨x, h x hx, hxk⟩

theorem MetaSafe.eff {r r' : Realm} {P : SessKey → Prop} {Q : Retry → Prop} (hm : MetaSafe r) (h : Eff P Q r r')
    (hp : ∀ j, P j → j ≠ metaKey) (hq : ∀ x, Q x → x.callee = metaKey → pptScheme x.opts = "") : MetaSafe r' := by
  obtain ⟨e, he, pe⟩ := h.ending
  obtain ⟨ts, hts, pts⟩ := h.tasks
  obtain ⟨xs, hxs, pxs⟩ := h.retries
  refine ⟨by rw [h.clients]; exact hm.noClient, ?_, ?_, by rw [h.deferred]; exact hm.deferred, ?_,
    by rw [h.metaS]; exact hm.mkey, by rw [h.metaS]; exact hm.metaPPT⟩
  · rw [he]
    intro hin
    rcases List.mem_append.mp hin with hin | hin
    · exact hm.ending hin
    · exact hp _ (pe _ hin) rfl
  · intro t ht
    rw [hts] at ht
    rcases List.mem_append.mp ht with ht | ht
    · exact hm.tasks t ht
    · have := pts t ht
      cases t with
      | leave j mode => exact hp j this
      | metaMsg m => exact absurd this id
      | inMsg k m => exact absurd this id
      | metaPub p => trivial
      | metaInvoke a b c d e => trivial
  · intro x hx
    rw [hxs] at hx
    rcases List.mem_append.mp hx with hx | hx
    · exact hm.retries x hx
    · exact hq x (pxs x hx)

theorem actP_ne {r : Realm} (hm : MetaSafe r) : ∀ j, ActP r j → j ≠ metaKey := fun _ h => hm.client_ne h.1

theorem actQ_ok {r : Realm} (hm : MetaSafe r) : ∀ x, ActQ r x → x.callee = metaKey → pptScheme x.opts = "" := by
  rintro x ⟨_, _, _, h | h⟩ hk
  · exact absurd hk (hm.client_ne h.1)
  · rw [h.2]; decide

theorem mem_keys {r r' : Realm} (h : r'.clients.map (·.key) = r.clients.map (·.key)) {c : Session} (hc : c ∈ r'.clients) :
    ∃ c0 ∈ r.clients, c0.key = c.key := by
  have : c.key ∈ r'.clients.map (·.key) := List.mem_map.mpr ⟨c, hc, rfl⟩
  rw [h] at this
  obtain ⟨c0, h0, e⟩ := List.mem_map.mp this
  exact ⟨c0, h0, e⟩

theorem MetaSafe.taskAct {r r' : Realm} (hm : MetaSafe r) (h : TaskAct r r') : MetaSafe r' := by
  cases h with
  | eff h => exact hm.eff h (actP_ne hm) (actQ_ok hm)
  | none => exact hm
  | defer k mode hk hb =>
    refine ⟨hm.noClient, hm.ending, hm.tasks, ?_, hm.retries, hm.mkey, hm.metaPPT⟩
    intro d hd
    rcases List.mem_append.mp hd with hd | hd
    · exact hm.deferred d hd
    · rw [List.mem_singleton.mp hd]; exact hk
  | leave k mode s hk hf hb =>
    obtain ⟨c1, c2, c3, _, c5, c6, _, c8, c9, ts, hts, pts⟩ := leave_ctl mode hf
    refine ⟨?_, ?_, ?_, by rw [c5]; exact hm.deferred, by rw [c6]; exact hm.retries, by rw [c3]; exact hm.mkey,
      by rw [c3]; exact hm.metaPPT⟩
    · rw [c8]; intro c hc; exact hm.noClient c (List.mem_filter.mp hc).1
    · rw [c9]; intro hin; exact hm.ending (List.mem_filter.mp hin).1
    · intro t ht
      rw [hts] at ht
      rcases List.mem_append.mp ht with ht | ht
      · exact hm.tasks t ht
      · have := pts t ht
        cases t with
        | leave j mode => exact absurd this id
        | metaMsg m => exact absurd this id
        | inMsg k m => exact absurd this id
        | metaPub p => trivial
        | metaInvoke a b c d e => trivial
  | invoke h =>
    obtain ⟨e, he, pe⟩ := h.ending
    obtain ⟨ts, rsp, hts, hrsp, pts⟩ := h.tasks
    refine ⟨?_, ?_, ?_, by rw [h.deferred]; exact hm.deferred, by rw [h.retries]; exact hm.retries,
      by rw [h.metaS]; exact hm.mkey, by rw [h.metaS]; exact hm.metaPPT⟩
    · intro c hc
      obtain ⟨c0, h0, e0⟩ := mem_keys h.keys hc
      rw [← e0]; exact hm.noClient c0 h0
    · rw [he]
      intro hin
      rcases List.mem_append.mp hin with hin | hin
      · exact hm.ending hin
      · exact hm.client_ne (pe _ hin).1 rfl
    · intro t ht
      rw [hts] at ht
      rcases List.mem_append.mp ht with ht | ht
      · rcases List.mem_append.mp ht with ht | ht
        · exact hm.tasks t ht
        · obtain ⟨j, mode, rfl, hj, _⟩ := pts t ht
          exact hm.client_ne hj
      · rw [List.mem_singleton.mp ht]; exact hrsp

theorem MetaSafe.runTask {r : Realm} (hm : MetaSafe r) (t : Task) (ht : MTaskOk t) : MetaSafe (r.runTask t) :=
  hm.taskAct (runTask_act hm t ht)

/-- an external input that does not use the meta session's key as a client key.  (No longer a
    hypothesis of anything below: `join metaKey` and `drop metaKey` are no-ops of the model.) -/
def OpK : Op → Prop
  | .join k .. => k ≠ metaKey
  | .drop k => k ≠ metaKey
  | _ => True

theorem MetaSafe.map_clients {r : Realm} (hm : MetaSafe r) (f : Session → Session) (hf : ∀ c, (f c).key = c.key)
    (gh : List SessKey) : MetaSafe { r with clients := r.clients.map f, ghosts := gh } := by
  refine ⟨?_, hm.ending, hm.tasks, hm.deferred, hm.retries, hm.mkey, hm.metaPPT⟩
  intro c hc
  obtain ⟨c0, h0, rfl⟩ := List.mem_map.mp hc
  rw [hf]; exact hm.noClient c0 h0

theorem MetaSafe.stepOp {r : Realm} (hm : MetaSafe r) (op : Op) : MetaSafe (r.stepOp op) := by
  cases op with
  | join k isLocal details roles cap =>
    rw [stepOp_join]
    split
    · exact hm
    rename_i hg
    have hop : k ≠ metaKey := (join_guard_false hg).1
    refine ⟨?_, hm.ending, ?_, hm.deferred, hm.retries, hm.mkey, hm.metaPPT⟩
    · intro c hc
      rcases List.mem_append.mp hc with hc | hc
      · exact hm.noClient c hc
      · rw [List.mem_singleton.mp hc]; exact hop
    · intro t ht
      rcases List.mem_append.mp ht with ht | ht
      · exact hm.tasks t ht
      · rw [List.mem_singleton.mp ht]; trivial
  | msg k m =>
    rw [stepOp_msg]
    exact hm.taskAct (runTask_act hm (.inMsg k m) trivial)
  | buffer k => rw [stepOp_buffer]; exact hm.map_clients _ (fun c => by split <;> rfl) r.ghosts
  | drop k =>
    rcases stepOp_drop_cases r k with e | ⟨⟨c, hc, hk⟩, _, e⟩
    · rw [e]; exact hm
    · rw [e]
      have hop : k ≠ metaKey := hk ▸ hm.noClient c hc
      refine ⟨hm.noClient, ?_, ?_, hm.deferred, hm.retries, hm.mkey, hm.metaPPT⟩
      · intro hin
        rcases List.mem_append.mp hin with hin | hin
        · exact hm.ending hin
        · exact hop (List.mem_singleton.mp hin).symm
      · intro t ht
        rcases List.mem_append.mp ht with ht | ht
        · exact hm.tasks t ht
        · rw [List.mem_singleton.mp ht]; exact hop
  | stall k => rw [stepOp_stall]; exact hm.map_clients _ (fun c => by split <;> rfl) r.ghosts
  | resume k => rw [stepOp_resume]; exact hm.map_clients _ (fun c => by split <;> rfl) _
  | tick ms => exact hm
  | rnd n => exact ⟨hm.noClient, hm.ending, hm.tasks, hm.deferred, hm.retries, hm.mkey, hm.metaPPT⟩

theorem MetaSafe.timerDue {r : Realm} (hm : MetaSafe r) (t : Timer) : MetaSafe (r.timerDue t) :=
  hm.eff (eff_timerDue (P := fun _ => False) (Q := fun _ => False) r t) (fun _ h => absurd h id) (fun _ h => absurd h id)

/-- who a turn of the retry loop can abort: the callee of the retried YIELD — never the meta session -/
theorem retryOut_aborts {r : Realm} (hm : MetaSafe r) {x : Retry} (hx : x ∈ r.retries) :
    ∀ j ∈ (retryOut r x).aborts, j = x.callee ∧ j ≠ metaKey := by
  intro j hj
  have hjc : j = x.callee := syncYield_aborts _ _ _ _ _ _ _ _ _ j hj
  refine ⟨hjc, ?_⟩
  intro hjm
  have : (retryOut r x).aborts = [] :=
    syncYield_aborts_nil _ _ _ _ _ _ _ _ _ (hm.retries x hx (hjc ▸ hjm))
  rw [this] at hj; cases hj

theorem MetaSafe.retryDue {r : Realm} (hm : MetaSafe r) {x : Retry} (hx : x ∈ r.retries) : MetaSafe (r.retryDue x) := by
  have hm1 : MetaSafe ({ r with retries := r.retries.filter (fun y => y.callee != x.callee) } : Realm) :=
    ⟨hm.noClient, hm.ending, hm.tasks, hm.deferred, fun y hy => hm.retries y (List.mem_filter.mp hy).1, hm.mkey,
      hm.metaPPT⟩
  have he := eff_retryApply (P := fun j => j ≠ metaKey) (Q := fun _ => False) r x
    (fun j hj => (retryOut_aborts hm hx j hj).2)
  have hm2 := hm1.eff he (fun _ h => h) (fun _ h => absurd h id)
  rw [retryDue_eq]
  split
  · refine ⟨hm2.noClient, hm2.ending, hm2.tasks, hm2.deferred, ?_, hm2.mkey, hm2.metaPPT⟩
    intro y hy
    rcases List.mem_append.mp hy with hy | hy
    · exact hm2.retries y hy
    · rw [List.mem_singleton.mp hy]; exact hm.retries x hx
  · refine ⟨hm2.noClient, hm2.ending, ?_, fun d hd => hm2.deferred d (List.mem_filter.mp hd).1, hm2.retries,
      hm2.mkey, hm2.metaPPT⟩
    intro t ht
    rcases List.mem_append.mp ht with ht | ht
    · rcases List.mem_append.mp ht with ht | ht
      · exact hm2.tasks t ht
      · obtain ⟨d, _, rfl⟩ := List.mem_map.mp ht; trivial
    · obtain ⟨d, hd, rfl⟩ := List.mem_map.mp ht
      exact hm2.deferred d (List.mem_filter.mp hd).1

theorem MetaSafe.setPanic {r : Realm} (hm : MetaSafe r) (p : Option String) : MetaSafe (r.setPanic p) :=
  hm.eff (eff_setPanic (P := fun _ => False) (Q := fun _ => False) r p) (fun _ h => absurd h id) (fun _ h => absurd h id)

theorem MetaSafe.drain : ∀ (fuel : Nat) {r : Realm}, MetaSafe r → MetaSafe (drain fuel r)
  | 0, r, hm => by
    rw [drain_zero]
    split
    · exact hm
    · exact hm.setPanic _
  | fuel + 1, r, hm => by
    cases ht : r.tasks with
    | nil => rw [drain_succ_nil _ _ ht]; exact hm
    | cons t ts =>
      rw [drain_succ_cons _ _ t ts ht]
      have hm0 : MetaSafe ({ r with tasks := ts } : Realm) :=
        ⟨hm.noClient, hm.ending, fun t' ht' => hm.tasks t' (by rw [ht]; exact List.mem_cons_of_mem _ ht'), hm.deferred,
          hm.retries, hm.mkey, hm.metaPPT⟩
      exact MetaSafe.drain fuel (hm0.runTask t (hm.tasks t (by rw [ht]; exact List.mem_cons_self ..)))

theorem MetaSafe.advance : ∀ (fuel : Nat) {r : Realm} (target : Nat), MetaSafe r → MetaSafe (advance fuel r target)
  | 0, r, target, hm => by
    unfold Realm.advance
    exact MetaSafe.setPanic (r := { r with now := target })
      ⟨hm.noClient, hm.ending, hm.tasks, hm.deferred, hm.retries, hm.mkey, hm.metaPPT⟩ _
  | fuel + 1, r, target, hm => by
    unfold Realm.advance
    split
    · exact ⟨hm.noClient, hm.ending, hm.tasks, hm.deferred, hm.retries, hm.mkey, hm.metaPPT⟩
    · rename_i d hd
      extract_lets r1 r2
      have hm1 : MetaSafe r1 := ⟨hm.noClient, hm.ending, hm.tasks, hm.deferred, hm.retries, hm.mkey, hm.metaPPT⟩
      have hm2 : MetaSafe r2 := by
        cases d with
        | timer t => exact hm1.timerDue t
        | retry x => exact hm1.retryDue (nextDue_retry hd)
      exact MetaSafe.advance fuel target (MetaSafe.drain taskFuel hm2)

theorem MetaSafe.flush {r : Realm} (hm : MetaSafe r) : MetaSafe r.flush.2 := by
  unfold Realm.flush
  extract_lets reading out seenClosed keep keepEmpty
  exact ⟨hm.noClient, hm.ending, hm.tasks, hm.deferred, hm.retries, hm.mkey, hm.metaPPT⟩

theorem MetaSafe.step {r : Realm} (hm : MetaSafe r) (op : Op) : MetaSafe (r.step op).2 := by
  by_cases ht : ∃ ms, op = .tick ms
  · obtain ⟨ms, rfl⟩ := ht
    rw [step_tick]
    exact (MetaSafe.advance _ _ hm).flush
  · rw [step_of_not_tick r op (fun ms e => ht ⟨ms, e⟩)]
    exact (MetaSafe.drain _ (hm.stepOp op)).flush

/-! ### the initial realm -/

theorem registerMeta_ctl : ∀ (ps : List String) (r : Realm),
    (registerMeta r ps).deferred = r.deferred ∧ (registerMeta r ps).ending = r.ending ∧
    (registerMeta r ps).metaS = r.metaS ∧ (registerMeta r ps).now = r.now
  | [], _ => ⟨rfl, rfl, rfl, rfl⟩
  | p :: ps, r => by
    unfold registerMeta
    extract_lets o id
    exact registerMeta_ctl ps _

theorem create_metaSafe {cfg : Config} {r : Realm} (h : Realm.create cfg = some r) : MetaSafe r ∧ r.deferred = [] ∧ r.ending = [] := by
  obtain ⟨_, _, hc, _, _, ht, hr, _⟩ := create_rinv h
  unfold Realm.create at h
  split at h
  · cases h
  · split at h
    · cases h
    · extract_lets b d at h
      cases h
      obtain ⟨f1, f2, f3, _⟩ := registerMeta_ctl (metaProcNames cfg) { cfg := cfg, broker := b, ds := { d := d } }
      refine ⟨⟨?_, ?_, ?_, ?_, ?_, ?_, ?_⟩, f1, f2⟩
      · rw [hc]; intro c hc'; cases hc'
      · rw [f2]; intro hin; cases hin
      · rw [ht]; intro t ht'; cases ht'
      · rw [f1]; intro d hd; cases hd
      · rw [hr]; intro x hx; cases hx
      · rw [f3]
      · rw [f3]
        exact (by decide : ({} : Realm).metaS.hasFeature RolePublisher FeaturePayloadPassthruMode = true)

/-- every reachable realm is `MetaSafe`: no hypothesis on the keys the inputs use -/
theorem _root_.Nexus.L2.Realm.Reachable.metaSafe {cfg : Config} {r : Realm} (h : Realm.Reachable cfg r) : MetaSafe r := by
  induction h with
  | init h => exact (create_metaSafe h).1
  | step op _ ih => exact ih.step op

/-- realm states reachable by inputs that never use the meta session's key as a client key
    (kept for compatibility: every `Realm.Reachable` state is `MetaSafe`, see above) -/
inductive ReachableK (cfg : Config) : Realm → Prop
  | init {r : Realm} : Realm.create cfg = some r → ReachableK cfg r
  | step {r : Realm} (op : Op) : ReachableK cfg r → OpK op → ReachableK cfg (r.step op).2

theorem ReachableK.reachable {cfg : Config} {r : Realm} (h : ReachableK cfg r) : Realm.Reachable cfg r := by
  induction h with
  | init h => exact .init h
  | step op _ _ ih => exact .step op ih

theorem ReachableK.metaSafe {cfg : Config} {r : Realm} (h : ReachableK cfg r) : MetaSafe r :=
  h.reachable.metaSafe

/-! ### `flush` touches the queues and `closedPeers` only -/

theorem flush_ctl (r : Realm) :
    r.flush.2.ending = r.ending ∧ r.flush.2.tasks = r.tasks ∧ r.flush.2.clients = r.clients ∧
    r.flush.2.retries = r.retries ∧ r.flush.2.deferred = r.deferred ∧ r.flush.2.inbox = r.inbox ∧
    r.flush.2.testaments = r.testaments ∧ r.flush.2.broker = r.broker ∧ r.flush.2.ds = r.ds ∧
    r.flush.2.now = r.now ∧ r.flush.2.metaS = r.metaS := by
  unfold Realm.flush
  extract_lets reading out seenClosed keep keepEmpty
  exact ⟨rfl, rfl, rfl, rfl, rfl, rfl, rfl, rfl, rfl, rfl, rfl⟩

end Nexus.L2.WpC
