/-
  The dealer `sync*` functions in a form convenient for proofs: `syncCall` cut into
  named pieces (`firstChunk`, `laterChunk`, `dispatch`, `invDetails`, …) with the
  equation `syncCall_eq` (definitional unfolding, no invariant needed).
-/
import Nexus.L2.Proofs.DealerInv
namespace Nexus.L2
open Gen.N

inductive Refusal where
  | err (e : String)
  | abort

def callRefusal (env : DEnv) (allow : Bool) (reg : Reg) (caller callee : SessKey) (opts : Dict) : Option Refusal :=
  if opts.optFlag OptProgress && (!hasFeat env callee RoleCallee FeatureProgCallInvocations ||
      !hasFeat env callee RoleCallee FeatureCallCanceling) then some (.err ErrFeatureNotSupported)
  else if pptScheme opts != "" && !hasFeat env caller RoleCaller FeaturePayloadPassthruMode then some .abort
  else if pptScheme opts != "" && !hasFeat env callee RoleCallee FeaturePayloadPassthruMode then
    some (.err ErrFeatureNotSupported)
  else if !reg.disclose && opts.optFlag OptDiscloseMe && !allow then some (.err ErrOptionDisallowedDiscloseMe)
  else none

def optTimeout (opts : Dict) : Int := match opts.get? OptTimeout with | some (.int i) => i | _ => 0

/-- is the timeout forwarded: the callee announced `call_timeout` and the registration has `forward_timeout`
    (`fwd`; a later chunk uses the flag stored in the invocation at the first chunk) -/
def forwardsF (env : DEnv) (fwd : Bool) (callee : SessKey) : Bool :=
  hasFeat env callee RoleCallee FeatureCallTimeout && fwd

def forwardsTimeout (env : DEnv) (reg : Reg) (callee : SessKey) : Bool := forwardsF env reg.fwdTimeout callee

def routerTimeoutF (env : DEnv) (fwd : Bool) (callee : SessKey) (opts : Dict) : Nat :=
  if optTimeout opts > 0 && !forwardsF env fwd callee then (optTimeout opts).toNat else 0

def routerTimeout (env : DEnv) (reg : Reg) (callee : SessKey) (opts : Dict) : Nat :=
  routerTimeoutF env reg.fwdTimeout callee opts

def invDetails (env : DEnv) (reg : Reg) (caller callee : SessKey) (opts : Dict) (proc : String) : Dict :=
  let details0 : Dict := [(OptProgress, .bool (opts.optFlag OptProgress))]
  let details := if pptScheme opts != "" then pptInto opts details0 else details0
  let details :=
    if reg.disclose then discloseCaller env caller details
    else if opts.optFlag OptDiscloseMe && hasFeat env callee RoleCallee FeatureCallerIdent then
      discloseCaller env caller details
    else details
  let details :=
    if opts.optFlag OptReceiveProgress && hasFeat env callee RoleCallee FeatureProgCallResults &&
       hasFeat env callee RoleCallee FeatureCallCanceling
    then details.set OptReceiveProgress (.bool true) else details
  let details := if reg.«match» != MatchExact then details.set OptProcedure (.str proc) else details
  if optTimeout opts > 0 && forwardsTimeout env reg callee then details.set OptTimeout (.int (optTimeout opts)) else details

def armTimer (env : DEnv) (s : DState) (caller : SessKey) (req : Nat) (v : Invk) (timeout : Nat) : DState :=
  if timeout > 0 then
    let t : Timer := { id := s.nextTimer + 1, deadline := env.now + min timeout maxTimeoutMs, caller := caller, req := req }
    { s with timers := s.timers ++ [t],
             nextTimer := s.nextTimer + 1,
             d := s.d.setInv { v with timer := some (s.nextTimer + 1) } }
  else s

def dispatch (env : DEnv) (s : DState) (caller : SessKey) (req : Nat) (callee : SessKey) (invReq : Nat)
    (v : Invk) (timeout : Nat) (m : Msg) : DOut :=
  if env.full callee then syncError s callee invReq [] ErrNetworkFailure [.str "<text>"] []
  else { st := armTimer env s caller req v timeout, sends := [⟨callee, m⟩] }

/-- a later chunk that arms a router-side timeout first cancels the timer armed by an earlier chunk
    (dealer.go `if invk.timerCancel != nil { invk.timerCancel() }`) -/
def preCancel (s : DState) (v : Invk) (timeout : Nat) : DState :=
  if timeout > 0 then s.cancelTimer v.timer else s

@[simp] theorem preCancel_d (s : DState) (v : Invk) (t : Nat) : (preCancel s v t).d = s.d := by
  unfold preCancel; split <;> simp
@[simp] theorem preCancel_nextTimer (s : DState) (v : Invk) (t : Nat) : (preCancel s v t).nextTimer = s.nextTimer := by
  unfold preCancel; split <;> simp
@[simp] theorem preCancel_invGen (s : DState) (v : Invk) (t : Nat) : (preCancel s v t).invGen = s.invGen := by
  unfold preCancel; split <;> simp
theorem preCancel_zero (s : DState) (v : Invk) : preCancel s v 0 = s := by
  unfold preCancel; rw [if_neg (by omega)]
theorem preCancel_pos (s : DState) (v : Invk) {t : Nat} (h : 0 < t) : preCancel s v t = s.cancelTimer v.timer := by
  unfold preCancel; rw [if_pos h]

theorem armTimer_preCancel (env : DEnv) (s : DState) (caller : SessKey) (req : Nat) (v : Invk) (t : Nat) :
    armTimer env (preCancel s v t) caller req v t =
      if t > 0 then
        { s.cancelTimer v.timer with
          timers := (s.cancelTimer v.timer).timers ++
            [{ id := (s.cancelTimer v.timer).nextTimer + 1, deadline := env.now + min t maxTimeoutMs, caller := caller, req := req }]
          nextTimer := (s.cancelTimer v.timer).nextTimer + 1
          d := (s.cancelTimer v.timer).d.setInv { v with timer := some ((s.cancelTimer v.timer).nextTimer + 1) } }
      else s := by
  unfold armTimer preCancel
  by_cases h : t > 0
  · rw [if_pos h, if_pos h, if_pos h]
  · rw [if_neg h, if_neg h, if_neg h]

/-- `dispatch` for a later chunk of a progressive call invocation: the previous timer is cancelled before a new
    one is armed -/
def dispatchL (env : DEnv) (s : DState) (caller : SessKey) (req : Nat) (callee : SessKey) (invReq : Nat)
    (v : Invk) (timeout : Nat) (m : Msg) : DOut :=
  if env.full callee then syncError s callee invReq [] ErrNetworkFailure [.str "<text>"] []
  else { st := armTimer env (preCancel s v timeout) caller req v timeout, sends := [⟨callee, m⟩] }

def newInvk (s : DState) (reg : Reg) (caller : SessKey) (req : Nat) (callee : SessKey) (opts : Dict) : Invk :=
  { id := ⟨callee, (invGenNext s.invGen callee).1⟩, callId := ⟨caller, req⟩, callee := callee,
    inProgress := opts.optFlag OptProgress, options := opts, regId := reg.id, fwdTimeout := reg.fwdTimeout }

def recordCall (s : DState) (v : Invk) (callee : SessKey) : DState :=
  { s with d := { s.d with calls := s.d.calls ++ [v.callId], invs := s.d.invs ++ [v],
                           byCall := s.d.byCall ++ [(v.callId, v.id)] },
           invGen := (invGenNext s.invGen callee).2 }

def firstChunk (env : DEnv) (s : DState) (reg : Reg) (caller : SessKey) (req : Nat) (opts : Dict) (proc : String)
    (args : List WVal) (kw : Dict) (callee : SessKey) (reg' : Reg) : DOut :=
  if opts.optFlag OptProgress && (!hasFeat env callee RoleCallee FeatureProgCallInvocations ||
      !hasFeat env callee RoleCallee FeatureCallCanceling) then
    { st := { s with d := s.d.setReg reg' }, sends := [⟨caller, errMsg tCALL req ErrFeatureNotSupported⟩] }
  else if pptScheme opts != "" && !hasFeat env caller RoleCaller FeaturePayloadPassthruMode then
    { st := { s with d := s.d.setReg reg' }, sends := [⟨caller, abortMsg "<text>"⟩], aborts := [caller] }
  else if pptScheme opts != "" && !hasFeat env callee RoleCallee FeaturePayloadPassthruMode then
    { st := { s with d := s.d.setReg reg' }, sends := [⟨caller, errMsg tCALL req ErrFeatureNotSupported⟩] }
  else if !reg.disclose && opts.optFlag OptDiscloseMe && !s.d.allowDisclose then
    { st := { s with d := s.d.setReg reg' }, sends := [⟨caller, errMsg tCALL req ErrOptionDisallowedDiscloseMe⟩] }
  else
    let s1 : DState := { s with d := s.d.setReg reg' }
    let v := newInvk s1 reg caller req callee opts
    dispatch env (recordCall s1 v callee) caller req callee v.id.req v (routerTimeout env reg callee opts)
      (.invocation v.id.req reg.id (invDetails env reg caller callee opts proc) args kw)

theorem firstChunk_eq (env : DEnv) (s : DState) (reg : Reg) (caller : SessKey) (req : Nat) (opts : Dict) (proc : String)
    (args : List WVal) (kw : Dict) (callee : SessKey) (reg' : Reg) :
    firstChunk env s reg caller req opts proc args kw callee reg' =
      match callRefusal env s.d.allowDisclose reg caller callee opts with
      | some (.err e) => { st := { s with d := s.d.setReg reg' }, sends := [⟨caller, errMsg tCALL req e⟩] }
      | some .abort => { st := { s with d := s.d.setReg reg' }, sends := [⟨caller, abortMsg "<text>"⟩], aborts := [caller] }
      | none =>
        dispatch env (recordCall { s with d := s.d.setReg reg' } (newInvk s reg caller req callee opts) callee) caller req callee
          (newInvk s reg caller req callee opts).id.req (newInvk s reg caller req callee opts) (routerTimeout env reg callee opts)
          (.invocation (newInvk s reg caller req callee opts).id.req reg.id (invDetails env reg caller callee opts proc) args kw) := by
  unfold firstChunk callRefusal
  split
  · rfl
  · split
    · rfl
    · split
      · rfl
      · split
        · rfl
        · rfl

def laterChunk (env : DEnv) (s : DState) (caller : SessKey) (req : Nat) (opts : Dict)
    (args : List WVal) (kw : Dict) (iid : ReqId) (v0 : Invk) : DOut :=
  let v : Invk := { v0 with inProgress := opts.optFlag OptProgress }
  dispatchL env { s with d := s.d.setInv v } caller req v.callee iid.req v (routerTimeoutF env v.fwdTimeout v.callee v.options)
    (.invocation iid.req v.regId [(OptProgress, .bool (opts.optFlag OptProgress))] args kw)

/-- the caller uses progressive call invocations without having announced them: ABORT, session aborted -/
def progressAbort (s : DState) (caller : SessKey) : DOut :=
  { st := s, sends := [⟨caller, abortMsg "<text>"⟩], aborts := [caller] }

theorem syncCall_eq (env : DEnv) (s : DState) (caller : SessKey) (req : Nat) (opts : Dict) (proc : String)
    (args : List WVal) (kw : Dict) (rnd : Nat) :
    syncCall env s caller req opts proc args kw rnd =
      match s.d.byCall? ⟨caller, req⟩ with
      | some iid =>
        match s.d.findInv iid with
        | none => { st := s, panic := some "syncCall: invocationByCall entry without invocation (nil dereference)" }
        | some v0 =>
          if opts.optFlag OptProgress && !hasFeat env caller RoleCaller FeatureProgCallInvocations then
            progressAbort s caller
          else laterChunk env s caller req opts args kw iid v0
      | none =>
        match s.d.matchProcedure proc with
        | none => { st := s, sends := [⟨caller, errMsg tCALL req ErrNoSuchProcedure⟩] }
        | some reg =>
          if reg.callees.isEmpty then { st := s, sends := [⟨caller, errMsg tCALL req ErrNoSuchProcedure⟩] }
          else if opts.optFlag OptProgress && !hasFeat env caller RoleCaller FeatureProgCallInvocations then
            progressAbort s caller
          else
            match pickCallee reg rnd with
            | none => { st := s, panic := some "syncCall: multiple callees registered with single policy" }
            | some (callee, reg') => firstChunk env s reg caller req opts proc args kw callee reg' := by
  unfold syncCall
  dsimp only
  cases s.d.byCall? ⟨caller, req⟩ with
  | some iid =>
    simp only []
    cases s.d.findInv iid with
    | none => rfl
    | some v0 =>
      simp only []
      by_cases h2 : (opts.optFlag OptProgress && !hasFeat env caller RoleCaller FeatureProgCallInvocations) = true
      · rw [if_pos h2, if_pos h2]; rfl
      · rw [if_neg h2, if_neg h2]
        unfold laterChunk dispatchL
        simp only [armTimer_preCancel]
        rfl
  | none =>
    simp only []
    cases s.d.matchProcedure proc with
    | none => rfl
    | some reg =>
      simp only []
      by_cases h1 : reg.callees.isEmpty = true
      · rw [if_pos h1, if_pos h1]
      · rw [if_neg h1, if_neg h1]
        by_cases h2 : (opts.optFlag OptProgress && !hasFeat env caller RoleCaller FeatureProgCallInvocations) = true
        · rw [if_pos h2, if_pos h2]; rfl
        · rw [if_neg h2, if_neg h2]
          cases pickCallee reg rnd with
          | none => rfl
          | some p =>
            obtain ⟨callee, reg'⟩ := p
            rfl
end Nexus.L2
