/-
  Work package A / C18 (audit C18-a4): the registration meta events of a departure.  When session `k`
  leaves, the dealer's `syncRemoveSession` announces, per registration `k` is a callee of (in the order
  of `k`'s entry of the callee index), `on_unregister` and then `on_delete` iff `k` was its last callee;
  nothing for the other registrations.  These publications are exactly the tasks the table-removal
  stage of `Realm.leave` adds (`leaveBaseTasks`).
-/
import Nexus.L2.Proofs.WpAC18Testament
import Nexus.L2.Proofs.RealmLeave

namespace Nexus.L2.WpA
open Nexus.L2 Nexus.L2.Realm Nexus.Gen.N

def onUnregisterPub (k : SessKey) (id : Nat) : MetaPub :=
  { topic := MetaEventRegOnUnregister, args := [sidVal k, .int id] }

def onRegDeletePub (k : SessKey) (id : Nat) : MetaPub :=
  { topic := MetaEventRegOnDelete, args := [sidVal k, .int id] }

/-- what the departure of session `k` announces for the registration with id `id` of dealer `d`:
    `on_unregister`, then `on_delete` iff `k` is its only callee; nothing if `k` is not a callee of it -/
def regDepartPubs (d : Dealer) (k : SessKey) (id : Nat) : List MetaPub :=
  match d.findReg id with
  | some reg =>
    if k ∈ reg.callees then
      onUnregisterPub k id :: (if reg.callees = [k] then [onRegDeletePub k id] else [])
    else []
  | none => []

theorem eraseFirst_isEmpty_iff (k : SessKey) : ∀ (l : List SessKey), k ∈ l →
    ((eraseFirst k l).isEmpty = true ↔ l = [k])
  | [], h => by cases h
  | x :: xs, _ => by
    unfold eraseFirst
    by_cases hx : x = k
    · subst hx
      simp
    · have : (x == k) = false := by simpa using hx
      simp only [this, Bool.false_eq_true, if_false, List.isEmpty_cons, List.cons.injEq]
      constructor
      · intro h; cases h
      · intro h; exact absurd h.1 hx

theorem delCalleeReg_eq {d : Dealer} {k : SessKey} {id : Nat} {reg : Reg}
    (hf : d.findReg id = some reg) (hk : k ∈ reg.callees) :
    d.delCalleeReg k id =
      some (if reg.callees = [k] then d.delReg id
            else d.setReg { reg with callees := eraseFirst k reg.callees }, decide (reg.callees = [k])) := by
  unfold Dealer.delCalleeReg
  rw [hf]
  simp only [List.contains_eq_mem, hk, decide_true, Bool.not_true, Bool.false_eq_true, if_false]
  by_cases hl : reg.callees = [k]
  · rw [if_pos ((eraseFirst_isEmpty_iff k _ hk).mpr hl), if_pos hl]; simp [hl]
  · rw [if_neg (fun h => hl ((eraseFirst_isEmpty_iff k _ hk).mp h)), if_neg hl]; simp [hl]

theorem findReg_delReg_ne (d : Dealer) {id id' : Nat} (h : id' ≠ id) : (d.delReg id).findReg id' = d.findReg id' := by
  unfold Dealer.delReg Dealer.findReg
  simp only
  induction d.regs with
  | nil => rfl
  | cons x xs ih =>
    by_cases hx : x.id = id
    · have h1 : (x.id != id) = false := by simp [hx]
      have h2 : (x.id == id') = false := by simpa [hx] using fun e : id = id' => h e.symm
      simp only [List.filter_cons, List.find?_cons, h1, h2, Bool.false_eq_true, if_false, ih]
    · have h1 : (x.id != id) = true := by simpa using hx
      simp only [List.filter_cons, List.find?_cons, h1, if_true, ih]

theorem findReg_setReg_ne (d : Dealer) (s : Reg) {id' : Nat} (h : id' ≠ s.id) : (d.setReg s).findReg id' = d.findReg id' := by
  unfold Dealer.setReg Dealer.findReg
  simp only
  induction d.regs with
  | nil => rfl
  | cons x xs ih =>
    by_cases hx : x.id = s.id
    · have h0 : (x.id == s.id) = true := by simpa using hx
      have h1 : (s.id == id') = false := by simpa using fun e : s.id = id' => h e.symm
      have h2 : (x.id == id') = false := by simpa [hx] using fun e : s.id = id' => h e.symm
      simp only [List.map_cons, List.find?_cons, h0, h1, h2, if_true, ih]
    · have h0 : (x.id == s.id) = false := by simpa using hx
      simp only [List.map_cons, List.find?_cons, h0, Bool.false_eq_true, if_false, ih]

theorem findReg_id {d : Dealer} {id : Nat} {reg : Reg} (h : d.findReg id = some reg) : reg.id = id := by
  unfold Dealer.findReg at h
  simpa using List.find?_some h

theorem regDepartPubs_of_find {d : Dealer} {k : SessKey} {id : Nat} {reg : Reg}
    (hf : d.findReg id = some reg) (hk : k ∈ reg.callees) :
    regDepartPubs d k id = onUnregisterPub k id :: (if reg.callees = [k] then [onRegDeletePub k id] else []) := by
  unfold regDepartPubs
  rw [hf]
  simp only [hk, if_true]

theorem regDepartPubs_congr {d d' : Dealer} {id : Nat} (h : d'.findReg id = d.findReg id) (k : SessKey) :
    regDepartPubs d' k id = regDepartPubs d k id := by
  unfold regDepartPubs; rw [h]

/-- the `calleeRegIDSet` loop, in closed form over the ORIGINAL table: registrations are independent -/
theorem removeRegs_pubs (k : SessKey) : ∀ (ids : List Nat) (d : Dealer), ids.Nodup →
    (∀ id ∈ ids, ∃ reg, d.findReg id = some reg ∧ k ∈ reg.callees) →
    (removeRegs d k ids).2.1 = ids.flatMap (regDepartPubs d k) ∧ (removeRegs d k ids).2.2 = none
  | [], d, _, _ => ⟨rfl, rfl⟩
  | id :: ids, d, hn, hall => by
    obtain ⟨reg, hf, hk⟩ := hall id (List.mem_cons_self ..)
    have hid := findReg_id hf
    have hnd := List.nodup_cons.mp hn
    have hstep : ∀ id' ∈ ids,
        (if reg.callees = [k] then d.delReg id
         else d.setReg { reg with callees := eraseFirst k reg.callees }).findReg id' = d.findReg id' := by
      intro id' hid'
      have hne : id' ≠ id := by rintro rfl; exact hnd.1 hid'
      split
      · exact findReg_delReg_ne d hne
      · exact findReg_setReg_ne d _ (by simpa [hid] using hne)
    have ih := removeRegs_pubs k ids _ hnd.2 (fun id' hid' => by
      rw [hstep id' hid']; exact hall id' (List.mem_cons_of_mem _ hid'))
    have hcongr : ids.flatMap (regDepartPubs
        (if reg.callees = [k] then d.delReg id else d.setReg { reg with callees := eraseFirst k reg.callees }) k) =
        ids.flatMap (regDepartPubs d k) :=
      flatMap_congr' (fun id' hid' => regDepartPubs_congr (hstep id' hid') k)
    simp only [removeRegs, delCalleeReg_eq hf hk, List.flatMap_cons]
    rw [ih.1, ih.2, hcongr]
    refine ⟨?_, rfl⟩
    rw [regDepartPubs_of_find hf hk]
    by_cases hl : reg.callees = [k] <;> simp [hl, onUnregisterPub, onRegDeletePub]

theorem syncRemoveSession_metaPubs_eq (env : DEnv) (s : DState) (k : SessKey) :
    (syncRemoveSession env s k).metaPubs = (removeRegs s.d k ((idxGet s.d.index k).getD [])).2.1 := by
  unfold syncRemoveSession
  rfl

/-- REGISTRATION EVENTS OF A DEPARTURE.  In a dealer state satisfying the invariant the publications
    `syncRemoveSession k` hands to the meta session are, for each id of `k`'s callee-index entry in order,
    `on_unregister [k, id]` followed by `on_delete [k, id]` iff `k` was the only callee of that registration —
    and nothing else; the ids of that entry are distinct and are exactly the registrations `k` is a callee of. -/
theorem syncRemoveSession_metaPubs {env : DEnv} {s : DState} (h : DealerInv s) (k : SessKey) :
    (syncRemoveSession env s k).metaPubs = (idxIds s.d.index k).flatMap (regDepartPubs s.d k) ∧
    (idxIds s.d.index k).Nodup ∧
    (∀ id, id ∈ idxIds s.d.index k ↔ ∃ reg ∈ s.d.regs, reg.id = id ∧ k ∈ reg.callees) := by
  have hnd := idxIds_nodup h.reg.ix k
  have hiff : ∀ id, id ∈ idxIds s.d.index k ↔ ∃ reg ∈ s.d.regs, reg.id = id ∧ k ∈ reg.callees :=
    fun id => h.reg.ixIff k id
  refine ⟨?_, hnd, hiff⟩
  rw [syncRemoveSession_metaPubs_eq]
  refine (removeRegs_pubs k _ s.d hnd ?_).1
  intro id hid
  obtain ⟨reg, hm, hrid, hk⟩ := (hiff id).mp hid
  exact ⟨reg, (findReg_eq_some h.reg.regs.ids).2 ⟨hm, hrid⟩, hk⟩

/-- the block one registration contributes, for a registration `k` IS a callee of -/
theorem regDepartPubs_callee {d : Dealer} (hn : (d.regs.map (·.id)).Nodup) {k : SessKey} {reg : Reg}
    (hm : reg ∈ d.regs) (hk : k ∈ reg.callees) :
    regDepartPubs d k reg.id =
      onUnregisterPub k reg.id :: (if reg.callees = [k] then [onRegDeletePub k reg.id] else []) := by
  exact regDepartPubs_of_find ((findReg_eq_some hn).2 ⟨hm, rfl⟩) hk

/-- nothing for a registration `k` is not a callee of (or an id naming no registration) -/
theorem regDepartPubs_other {d : Dealer} {k : SessKey} {id : Nat}
    (h : ∀ reg ∈ d.regs, reg.id = id → k ∉ reg.callees) : regDepartPubs d k id = [] := by
  unfold regDepartPubs
  cases hf : d.findReg id with
  | none => rfl
  | some reg =>
    have hm : reg ∈ d.regs := List.mem_of_find?_eq_some hf
    simp only
    rw [if_neg (h reg hm (findReg_id hf))]

/-! ### the realm: these publications are the tasks the removal stage adds -/

def notInvocation (m : Msg) : Prop := ∀ a b c d e, m ≠ .invocation a b c d e

theorem setPanic_tasks' (r : Realm) (p : Option String) : (r.setPanic p).tasks = r.tasks := by
  unfold setPanic; split <;> rfl

theorem trySend_tasks_noinv (r : Realm) (x : Send) (h : notInvocation x.msg) : (r.trySend x).tasks = r.tasks := by
  unfold trySend
  split
  · split
    · rename_i a b c d e he; exact absurd he (h a b c d e)
    · rfl
  · split
    · exact setPanic_tasks' _ _
    · split
      · rfl
      · split <;> rfl

theorem deliver_tasks_noinv : ∀ (ss : List Send) (r : Realm), (∀ x ∈ ss, notInvocation x.msg) →
    (r.deliver ss).tasks = r.tasks
  | [], _, _ => rfl
  | x :: ss, r, h => by
    rw [deliver_cons, deliver_tasks_noinv ss _ (fun y hy => h y (List.mem_cons_of_mem _ hy)),
      trySend_tasks_noinv r x (h x (List.mem_cons_self ..))]

theorem metaEvent_noinv (b : Broker) (t : String) (pid : Nat) (cause : SessKey) (args : List WVal) :
    ∀ x ∈ b.metaEvent t pid cause args, notInvocation x.msg := by
  intro x hx
  unfold Broker.metaEvent at hx
  simp only [List.mem_flatMap, List.mem_map] at hx
  obtain ⟨⟨msub, st⟩, _, k, _, rfl⟩ := hx
  intro a b c d e he
  cases he

theorem removeMember_noinv (b : Broker) (k : SessKey) (id p : Nat) :
    ∀ x ∈ (b.removeMember k id p).2.1, notInvocation x.msg := by
  intro x hx
  unfold Broker.removeMember at hx
  split at hx
  · cases hx
  · dsimp only at hx
    split at hx
    · rcases List.mem_append.mp hx with hx | hx <;> exact metaEvent_noinv _ _ _ _ _ x hx
    · exact metaEvent_noinv _ _ _ _ _ x hx

theorem removeMembers_noinv (k : SessKey) : ∀ (ids : List Nat) (b : Broker) (p : Nat),
    ∀ x ∈ (b.removeMembers k p ids).2.1, notInvocation x.msg
  | [], _, _ => fun x hx => by cases hx
  | id :: ids, b, p => by
    intro x hx
    simp only [Broker.removeMembers, List.mem_append] at hx
    rcases hx with hx | hx
    · exact removeMember_noinv b k id p x hx
    · exact removeMembers_noinv k ids _ _ x hx

theorem bsyncRemoveSession_noinv (b : Broker) (k : SessKey) (p : Nat) :
    ∀ x ∈ (b.syncRemoveSession k p).2.1, notInvocation x.msg := by
  intro x hx
  unfold Broker.syncRemoveSession at hx
  split at hx
  · cases hx
  · exact removeMembers_noinv k _ _ _ x hx

theorem applyD_tasks_noinv (r : Realm) (o : DOut) (h : ∀ x ∈ o.sends, notInvocation x.msg) :
    (r.applyD o).tasks =
      r.tasks ++ o.metaPubs.map Task.metaPub ++ o.aborts.map (fun k => Task.leave k .aborted) := by
  unfold applyD
  rw [setPanic_tasks']
  show ((({ r with ds := o.st } : Realm).deliver o.sends).tasks ++ _) ++ _ = _
  rw [deliver_tasks_noinv _ _ h]

theorem trySend_tasks_ne (r : Realm) (x : Send) (h : x.to ≠ metaKey) : (r.trySend x).tasks = r.tasks := by
  unfold trySend
  rw [if_neg h]
  split
  · exact setPanic_tasks' _ _
  · split
    · rfl
    · split <;> rfl

theorem leaveSend_tasks (r : Realm) (k : SessKey) (mode : LeaveMode) (hk : k ≠ metaKey) :
    (leaveSend r k mode).tasks = r.tasks := by
  cases mode <;> first | exact trySend_tasks_ne r _ hk | rfl

theorem leaveSend_ds (r : Realm) (k : SessKey) (mode : LeaveMode) : (leaveSend r k mode).ds = r.ds := by
  cases mode <;> first | exact (trySend_frame r _).ds | rfl

theorem takeTestaments_tasks_ds (r : Realm) (k : SessKey) :
    (r.takeTestaments k).2.tasks = r.tasks ∧ (r.takeTestaments k).2.ds = r.ds := by
  unfold takeTestaments
  split <;> exact ⟨rfl, rfl⟩

theorem goneErr_noinv (c : ReqId) : notInvocation (goneErr c).msg := by
  intro a b c' d e h
  cases h

/-- the tasks after the table-removal stage of a non-shutdown departure: what was pending, then the
    publications of the dealer's `syncRemoveSession` — nothing else (the dealer's sends are ERRORs for callers,
    the broker's are EVENTs: neither queues a task) -/
theorem leaveRemove_tasks {r : Realm} (hd : DealerInv r.ds) (k : SessKey) :
    (leaveRemove r k false).tasks = r.tasks ++ (syncRemoveSession r.denv r.ds k).metaPubs.map Task.metaPub ∧
    (leaveRemove r k true).tasks = r.tasks := by
  constructor
  · unfold leaveRemove
    simp only [Bool.false_eq_true, if_false]
    rw [deliver_tasks_noinv _ _ (bsyncRemoveSession_noinv _ _ _)]
    show (r.applyD (syncRemoveSession r.denv r.ds k)).tasks = _
    rw [applyD_tasks_noinv, syncRemoveSession_aborts]
    · simp
    · intro x hx
      rw [syncRemoveSession_sends hd] at hx
      obtain ⟨v, _, rfl⟩ := List.mem_map.mp hx
      exact goneErr_noinv _
  · unfold leaveRemove
    simp only [if_true]
    rw [setPanic_tasks']

/-- REGISTRATION EVENTS ON LEAVE (audit C18-a4): `leaveBaseTasks` characterised.  For a non-shutdown departure of
    session `k` from a realm whose dealer satisfies its invariant, the removal stage appends to the pending
    tasks exactly the publications `regDepartPubs` — per registration `k` is a callee of, in callee-index order,
    `on_unregister` then `on_delete` iff `k` was the last callee; a shutdown appends nothing. -/
theorem leaveBaseTasks_eq {r : Realm} (hd : DealerInv r.ds) {k : SessKey} (hk : k ≠ metaKey) (mode : LeaveMode) :
    leaveBaseTasks r k mode =
      r.tasks ++ (if mode.isShutdown then []
                  else ((idxIds r.ds.d.index k).flatMap (regDepartPubs r.ds.d k)).map Task.metaPub) := by
  unfold leaveBaseTasks
  have hds : ((leaveSend r k mode).takeTestaments k).2.ds = r.ds := by
    rw [(takeTestaments_tasks_ds _ k).2, leaveSend_ds]
  have hts : ((leaveSend r k mode).takeTestaments k).2.tasks = r.tasks := by
    rw [(takeTestaments_tasks_ds _ k).1, leaveSend_tasks r k mode hk]
  have hd' : DealerInv ((leaveSend r k mode).takeTestaments k).2.ds := hds ▸ hd
  cases hm : mode.isShutdown with
  | true =>
    rw [(leaveRemove_tasks hd' k).2, hts]; simp
  | false =>
    rw [(leaveRemove_tasks hd' k).1, hts, (syncRemoveSession_metaPubs hd' k).1, hds]; simp

end Nexus.L2.WpA
