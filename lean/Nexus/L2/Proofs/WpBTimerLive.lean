/-
  TimerLive — the liveness half of the call-timer invariant of the dealer model.

  `DealerInv` (field `AuxInv.timerOwned`) says: every live (armed, not cancelled) timer is the timer recorded in
  the invocation of its pending call.  This file is about the converse: a pending, not cancelled invocation that
  records a timer HAS that timer live in the table — except while its callee's handler sits in the retry loop
  of a non-progress YIELD (`syncYield` stops the timer, keeps the call and answers `again`), and except when the
  recorded timer has just been taken out of the table by the expiry bookkeeping (`dropTimers`).

  `DeadInv s i`   invocation `i` is stored, not cancelled, records a timer, and that timer is not live.
  `LiveStep s s' Q`  going from `s` to `s'` creates dead recorded timers only for the invocations in `Q`.
  `TimerLive P s`    every dead invocation of `s` is in `P` (the "parked" invocations).

  Main results: `DStepLive` — for EVERY `sync*` function the exact set `Q` (empty except for the blocked
  non-progress YIELD), and the composite "a timer fires" (`timerFire_liveStep`).
-/
import Nexus.L2.Proofs.DealerTimer
import Nexus.L2.Proofs.DealerFrame

namespace Nexus.L2.WpB
open Nexus.L2 Nexus.Gen.N

/-- timer `tid` is in the table and not cancelled -/
def LiveT (s : DState) (tid : Nat) : Prop := ∃ t ∈ s.timers, t.id = tid ∧ t.canceled = false

/-- invocation `i` is stored and not cancelled, it records a timer, and that timer is not live -/
def DeadInv (s : DState) (i : ReqId) : Prop :=
  ∃ v ∈ s.d.invs, v.id = i ∧ v.canceled = false ∧ ∃ tid, v.timer = some tid ∧ ¬ LiveT s tid

/-- every invocation whose recorded timer is not live is in `P` -/
def TimerLive (P : ReqId → Prop) (s : DState) : Prop := ∀ i, DeadInv s i → P i

/-- from `s` to `s'` recorded timers die only for the invocations in `Q` -/
def LiveStep (s s' : DState) (Q : ReqId → Prop) : Prop := ∀ i, DeadInv s' i → DeadInv s i ∨ Q i

def none : ReqId → Prop := fun _ => False

theorem LiveStep.refl (s : DState) : LiveStep s s none := fun _ h => Or.inl h

theorem LiveStep.of_eq {s s' : DState} (h : s' = s) : LiveStep s s' none := h ▸ LiveStep.refl s

theorem LiveStep.trans {a b c : DState} {Q1 Q2 : ReqId → Prop} (h1 : LiveStep a b Q1) (h2 : LiveStep b c Q2) :
    LiveStep a c (fun i => Q1 i ∨ Q2 i) := by
  intro i hd
  rcases h2 i hd with hb | hq
  · rcases h1 i hb with ha | hq
    · exact Or.inl ha
    · exact Or.inr (Or.inl hq)
  · exact Or.inr (Or.inr hq)

/-- replace the exception set: every excepted invocation that is dead in `s'` must be in `Q'` (or dead before) -/
theorem LiveStep.discharge {s s' : DState} {Q Q' : ReqId → Prop} (h : LiveStep s s' Q)
    (hq : ∀ i, Q i → DeadInv s' i → DeadInv s i ∨ Q' i) : LiveStep s s' Q' := by
  intro i hd
  rcases h i hd with ha | hq'
  · exact Or.inl ha
  · exact hq i hq' hd

theorem LiveStep.mono {s s' : DState} {Q Q' : ReqId → Prop} (h : LiveStep s s' Q) (hq : ∀ i, Q i → Q' i) :
    LiveStep s s' Q' := h.discharge (fun i hi _ => Or.inr (hq i hi))

/-- two steps without exceptions -/
theorem LiveStep.trans0 {a b c : DState} (h1 : LiveStep a b none) (h2 : LiveStep b c none) : LiveStep a c none :=
  (h1.trans h2).mono (fun _ h => h.elim id id)

theorem TimerLive.step {P Q : ReqId → Prop} {s s' : DState} (h : TimerLive P s) (st : LiveStep s s' Q) :
    TimerLive (fun i => P i ∨ Q i) s' := by
  intro i hd
  rcases st i hd with ha | hq
  · exact Or.inl (h i ha)
  · exact Or.inr hq

theorem TimerLive.step0 {P : ReqId → Prop} {s s' : DState} (h : TimerLive P s) (st : LiveStep s s' none) :
    TimerLive P s' := fun i hd => (h.step st i hd).elim id (fun f => f.elim)

/-! ### liveness of a timer across the elementary updates -/

theorem liveT_cancelTimer (s : DState) (x : Option Nat) (tid : Nat) :
    LiveT (s.cancelTimer x) tid ↔ LiveT s tid ∧ x ≠ some tid := by
  constructor
  · rintro ⟨t, ht, hid, hc⟩
    obtain ⟨h1, h2⟩ := cancelTimer_live ht hc
    exact ⟨⟨t, h1, hid, hc⟩, hid ▸ h2⟩
  · rintro ⟨⟨t, ht, hid, hc⟩, hx⟩
    refine ⟨t, ?_, hid, hc⟩
    rw [cancelTimer_timers]
    refine List.mem_map.2 ⟨t, ht, ?_⟩
    rw [if_neg]
    intro e
    exact hx (hid ▸ e.symm)

theorem liveT_congr {s s' : DState} (h : s'.timers = s.timers) (tid : Nat) : LiveT s' tid ↔ LiveT s tid := by
  unfold LiveT; rw [h]

/-- the general "nothing dies" lemma: same timer table; every uncancelled invocation of `s'` that records a timer
    was there, uncancelled, with the same timer -/
theorem liveStep_of_invs {s s' : DState} (ht : s'.timers = s.timers)
    (hw : ∀ w' ∈ s'.d.invs, w'.canceled = false → ∀ tid, w'.timer = some tid →
      ∃ w ∈ s.d.invs, w.id = w'.id ∧ w.canceled = false ∧ w.timer = some tid) : LiveStep s s' none := by
  rintro i ⟨w', hw', hid, hc, tid, htm, hdead⟩
  obtain ⟨w, hwm, h1, h2, h3⟩ := hw w' hw' hc tid htm
  exact Or.inl ⟨w, hwm, h1.trans hid, h2, tid, h3, fun hl => hdead ((liveT_congr ht tid).2 hl)⟩

/-- removing invocations (and anything else that leaves the remaining ones and the timers alone) -/
theorem liveStep_shrink {s s' : DState} (ht : s'.timers = s.timers) (hw : ∀ w ∈ s'.d.invs, w ∈ s.d.invs) :
    LiveStep s s' none :=
  liveStep_of_invs ht (fun w' hw' hc _ htm => ⟨w', hw w' hw', rfl, hc, htm⟩)

theorem liveStep_forget (s : DState) (c i : ReqId) : LiveStep s { s with d := s.d.forget c i } none :=
  liveStep_shrink rfl (fun _ hw => (List.mem_filter.1 hw).1)

theorem mem_setInv {d : Dealer} {v w : Invk} :
    w ∈ (d.setInv v).invs ↔ (w ∈ d.invs ∧ w.id ≠ v.id) ∨ (w = v ∧ ∃ x ∈ d.invs, x.id = v.id) := by
  unfold Dealer.setInv
  simp only
  rw [mem_map_update (f := fun x : Invk => x.id) (u := fun _ => v)]
  constructor
  · rintro (h | ⟨x, hx, hk, rfl⟩)
    · exact Or.inl h
    · exact Or.inr ⟨rfl, x, hx, hk⟩
  · rintro (h | ⟨rfl, x, hx, hk⟩)
    · exact Or.inl h
    · exact Or.inr ⟨x, hx, hk, rfl⟩

/-- replacing a stored invocation by a copy with the same timer that is cancelled if the original was -/
theorem liveStep_setInv {s : DState} (_hids : (s.d.invs.map (·.id)).Nodup) {v v' : Invk} (hv : v ∈ s.d.invs)
    (hid : v'.id = v.id) (ht : v'.timer = v.timer) (hc : v'.canceled = false → v.canceled = false) :
    LiveStep s { s with d := s.d.setInv v' } none := by
  refine liveStep_of_invs rfl ?_
  intro w' hw' hcw tid htm
  rcases mem_setInv.1 hw' with ⟨hw, _⟩ | ⟨rfl, _⟩
  · exact ⟨w', hw, rfl, hcw, htm⟩
  · exact ⟨v, hv, hid.symm, hc hcw, ht ▸ htm⟩

/-- stopping the timer recorded in the stored invocation `v`: only `v`'s recorded timer dies -/
theorem liveStep_cancelTimer {s : DState} (h : DealerInv s) {v : Invk} (hv : v ∈ s.d.invs) :
    LiveStep s (s.cancelTimer v.timer) (fun i => i = v.id) := by
  rintro i ⟨w, hw, hid, hc, tid, htm, hdead⟩
  rw [cancelTimer_d] at hw
  by_cases hl : LiveT s tid
  · right
    have hx : v.timer = some tid := by
      apply Classical.byContradiction
      intro hne
      exact hdead ((liveT_cancelTimer s v.timer tid).2 ⟨hl, hne⟩)
    rw [← hid]
    exact h.aux.invTimerInj w hw v hv tid htm hx
  · exact Or.inl ⟨w, hw, hid, hc, tid, htm, hl⟩

/-- `cancelTimer none` / a timer id nobody records -/
theorem liveStep_cancelTimer_none (s : DState) : LiveStep s (s.cancelTimer Option.none) none := LiveStep.refl s

/-- arming the timer of the stored invocation `v` -/
theorem liveStep_armTimer {env : DEnv} {s : DState} (_hids : (s.d.invs.map (·.id)).Nodup) {v : Invk} (_hv : v ∈ s.d.invs)
    (caller : SessKey) (req : Nat) (tmo : Nat) : LiveStep s (armTimer env s caller req v tmo) none := by
  unfold armTimer
  split
  · rintro i ⟨w', hw', hid, hc, tid, htm, hdead⟩
    rcases mem_setInv.1 hw' with ⟨hw, _⟩ | ⟨rfl, _⟩
    · left
      refine ⟨w', hw, hid, hc, tid, htm, ?_⟩
      rintro ⟨t, ht, htid, htc⟩
      exact hdead ⟨t, List.mem_append_left _ ht, htid, htc⟩
    · exfalso
      simp only [Option.some.injEq] at htm
      exact hdead ⟨_, List.mem_append_right _ (List.mem_singleton.2 rfl), htm, rfl⟩
  · exact LiveStep.refl s

/-- an invocation that is not stored (uncancelled) in `s'` is not dead there -/
theorem not_dead_of_gone {s' : DState} {i : ReqId} (h : ∀ w ∈ s'.d.invs, w.id = i → w.canceled = true) :
    ¬ DeadInv s' i := by
  rintro ⟨w, hw, hid, hc, _⟩
  rw [h w hw hid] at hc; cases hc

/-! ### the composite updates the `sync*` functions are made of -/

/-- a call ends: the timer recorded in its invocation is stopped, the call is forgotten -/
theorem liveStep_endCall {s : DState} (h : DealerInv s) {v : Invk} (hv : v ∈ s.d.invs) (c : ReqId) :
    LiveStep s { s.cancelTimer v.timer with d := s.d.forget c v.id } none := by
  have h1 := liveStep_cancelTimer h hv
  have h2 : LiveStep (s.cancelTimer v.timer) { s.cancelTimer v.timer with d := s.d.forget c v.id } none := by
    have := liveStep_forget (s.cancelTimer v.timer) c v.id
    rw [cancelTimer_d] at this
    exact this
  refine (h1.trans h2).discharge ?_
  intro i hi hd
  exfalso
  rcases hi with rfl | hf
  · refine not_dead_of_gone ?_ hd
    intro w hw hid
    have := (List.mem_filter.1 hw).2
    simp [hid] at this
  · exact hf

/-- `cancelMark`: `canceled := true`, recorded timer stopped -/
theorem liveStep_cancelMark {s : DState} (h : DealerInv s) {v : Invk} (hv : v ∈ s.d.invs) :
    LiveStep s (cancelMark s v) none := by
  have h1 : LiveStep s { s with d := s.d.setInv { v with canceled := true } } none :=
    liveStep_setInv h.call.invIds hv rfl rfl (fun hc => by cases hc)
  obtain ⟨_, hm⟩ := h.cancelMark' hv
  have hi1 : DealerInv ({ s with d := s.d.setInv { v with canceled := true } } : DState) :=
    h.setInv (v' := { v with canceled := true }) hv rfl rfl
  have h2 := liveStep_cancelTimer hi1 (v := { v with canceled := true }) hm
  refine (h1.trans h2).discharge ?_
  intro i hi hd
  exfalso
  rcases hi with hf | rfl
  · exact hf
  · refine not_dead_of_gone ?_ hd
    intro w hw hid
    have hw' : w ∈ (s.d.setInv { v with canceled := true }).invs := by
      rw [cancelTimer_d] at hw; exact hw
    have : w = { v with canceled := true } := nodup_map_inj hi1.call.invIds hw' hm hid
    rw [this]

/-! ### INVOCATION ERROR, CANCEL -/

theorem syncError_liveStep {s : DState} (h : DealerInv s) (callee : SessKey) (req : Nat) (details : Dict) (err : String)
    (args : List WVal) (kw : Dict) : LiveStep s (syncError s callee req details err args kw).st none := by
  cases hf : s.d.findInv ⟨callee, req⟩ with
  | none => rw [syncError_none _ _ _ _ hf]; exact LiveStep.refl s
  | some v =>
    rw [syncError_some' h.call _ _ _ _ hf]
    have hv := findInv_some_mem hf
    have := liveStep_endCall h hv.1 v.callId
    rw [hv.2] at this
    exact this

theorem cancelOut_liveStep {env : DEnv} {s : DState} (h : DealerInv s) (caller : SessKey) (req : Nat)
    (mode reason : String) (errArgs : List WVal) (i : ReqId) {v : Invk} (hv : v ∈ s.d.invs) :
    LiveStep s (cancelOut env s caller req mode reason errArgs i v).st none := by
  have hm := liveStep_cancelMark h hv
  rw [cancelOut_eq]
  split
  · split
    · exact hm
    · exact hm.trans0 (liveStep_forget _ _ _)
  · exact hm.trans0 (liveStep_forget _ _ _)

theorem syncCancel_liveStep {env : DEnv} {s : DState} (h : DealerInv s) (caller : SessKey) (req : Nat)
    (mode reason : String) (errArgs : List WVal) :
    LiveStep s (syncCancel env s caller req mode reason errArgs).st none := by
  by_cases hc : (⟨caller, req⟩ : ReqId) ∈ s.d.calls
  · obtain ⟨i, v, hb, hf, hv, _, _, _⟩ := h.call.lookup hc
    rw [syncCancel_pending mode reason errArgs hc hb hf]
    split
    · exact LiveStep.refl s
    · exact cancelOut_liveStep h caller req mode reason errArgs i hv
  · rw [syncCancel_not_pending mode reason errArgs hc]; exact LiveStep.refl s

/-! ### YIELD -/

theorem yieldTimer_liveStep {s : DState} (h : DealerInv s) (progress : Bool) {v : Invk} (hv : v ∈ s.d.invs) :
    LiveStep s (yieldTimer s progress v) (fun i => progress = false ∧ i = v.id) := by
  unfold yieldTimer
  cases progress
  · exact (liveStep_cancelTimer h hv).mono (fun i hi => ⟨rfl, hi⟩)
  · exact (LiveStep.refl s).mono (fun _ f => f.elim)

theorem yieldTimer_inv {s : DState} (h : DealerInv s) (progress : Bool) (v : Invk) : DealerInv (yieldTimer s progress v) := by
  unfold yieldTimer
  split
  · exact h
  · exact h.cancelTimer _

theorem yieldFinish_liveStep {s : DState} (h : DealerInv s) (progress : Bool) {v : Invk} (hv : v ∈ s.d.invs)
    {iid : ReqId} (hi : v.id = iid) : LiveStep s (yieldFinish s progress v iid) none := by
  unfold yieldFinish yieldTimer
  cases progress
  · have := liveStep_endCall h hv v.callId
    rw [hi] at this
    simpa using this
  · exact LiveStep.refl s

/-- an invocation removed by `forget` is not dead afterwards -/
theorem not_dead_forget {S : DState} (c i : ReqId) : ¬ DeadInv ({ S with d := S.d.forget c i } : DState) i := by
  refine not_dead_of_gone ?_
  intro w hw hid
  have := (List.mem_filter.1 hw).2
  simp [hid] at this

/-- `syncYield` for a stored invocation `v`: a recorded timer dies only for `v` itself, and only when a non-progress
    YIELD meets a full caller queue and is told to retry -/
theorem yieldOut_liveStep {env : DEnv} {s : DState} (h : DealerInv s) {callee : SessKey} {req : Nat} (opts : Dict)
    (args : List WVal) (kw : Dict) (progress canRetry : Bool) {v : Invk} (hv : v ∈ s.d.invs) (hi : v.id = ⟨callee, req⟩) :
    LiveStep s (yieldOut env s callee req opts args kw progress canRetry v).st
      (fun i => (yieldOut env s callee req opts args kw progress canRetry v).again = true ∧ progress = false ∧
        i = ⟨callee, req⟩) := by
  have hS := yieldTimer_inv h progress v
  have hvS : v ∈ (yieldTimer s progress v).d.invs := by rw [yieldTimer_d]; exact hv
  have h1 := yieldTimer_liveStep h progress hv
  have hfin : LiveStep s (yieldFinish s progress v ⟨callee, req⟩) none := yieldFinish_liveStep h progress hv hi
  cases c1 : yieldPptCalleeBad env callee opts
  case true =>
    rw [yieldOut_calleeBad args kw progress canRetry v c1]
    have h2 := liveStep_endCall hS hvS v.callId
    rw [hi] at h2
    simp only [cancelTimer_d]
    refine (h1.trans h2).discharge ?_
    intro i hq hd
    exfalso
    rcases hq with ⟨_, rfl⟩ | f
    · rw [hi] at hd
      exact not_dead_forget (S := (yieldTimer s progress v).cancelTimer v.timer) v.callId ⟨callee, req⟩
        (by simpa using hd)
    · exact f
  case false =>
  cases c2 : yieldPptCallerBad env v.callId.sess opts
  case true =>
    rw [yieldOut_callerBad args kw progress canRetry v c1 c2]
    exact hfin.mono (fun _ f => f.elim)
  case false =>
  cases c3 : env.full v.callId.sess
  case false =>
    rw [yieldOut_deliver args kw progress canRetry v c1 c2 c3]
    exact hfin.mono (fun _ f => f.elim)
  case true =>
  cases canRetry
  case true =>
    rw [yieldOut_retry args kw progress v c1 c2 c3]
    exact h1.mono (fun i hq => ⟨rfl, hq.1, hi ▸ hq.2⟩)
  case false =>
    rw [yieldOut_giveup' h args kw progress hv hi c1 c2 c3]
    split
    · exact hfin.mono (fun _ f => f.elim)
    · have h2 := liveStep_cancelMark hS hvS
      have h3 := liveStep_forget (cancelMark (yieldTimer s progress v) v) v.callId ⟨callee, req⟩
      refine (h1.trans (h2.trans0 h3)).discharge ?_
      intro i hq hd
      exfalso
      rcases hq with ⟨_, rfl⟩ | f
      · rw [hi] at hd
        exact not_dead_forget (S := cancelMark (yieldTimer s progress v) v) v.callId ⟨callee, req⟩ hd
      · exact f

theorem syncYield_liveStep {env : DEnv} {s : DState} (h : DealerInv s) (callee : SessKey) (req : Nat) (opts : Dict)
    (args : List WVal) (kw : Dict) (progress canRetry : Bool) :
    LiveStep s (syncYield env s callee req opts args kw progress canRetry).st
      (fun i => (syncYield env s callee req opts args kw progress canRetry).again = true ∧ progress = false ∧
        i = ⟨callee, req⟩) := by
  cases hf : s.d.findInv ⟨callee, req⟩ with
  | none =>
    rw [syncYield_none opts args kw progress canRetry hf]
    split <;> exact (LiveStep.refl s).mono (fun _ f => f.elim)
  | some v =>
    rw [syncYield_some' h.call opts args kw progress canRetry hf]
    have hv := findInv_some_mem hf
    exact yieldOut_liveStep h opts args kw progress canRetry hv.1 hv.2

/-- A non-progress YIELD that is not told to retry ends its invocation: whatever the outcome (delivered, refused for
    passthru, given up, caller gone), no invocation `(callee, req)` is stored afterwards. -/
theorem syncYield_final_gone {env : DEnv} {s : DState} (h : DealerInv s) (callee : SessKey) (req : Nat) (opts : Dict)
    (args : List WVal) (kw : Dict) (canRetry : Bool)
    (hag : (syncYield env s callee req opts args kw false canRetry).again = false) :
    ∀ w ∈ (syncYield env s callee req opts args kw false canRetry).st.d.invs, w.id ≠ ⟨callee, req⟩ := by
  have hforget : ∀ (S : DState) (c : ReqId), ∀ w ∈ (S.d.forget c ⟨callee, req⟩).invs, w.id ≠ ⟨callee, req⟩ := by
    intro S c w hw
    simpa using (List.mem_filter.1 hw).2
  cases hf : s.d.findInv ⟨callee, req⟩ with
  | none =>
    rw [syncYield_none opts args kw false canRetry hf]
    simp only [Bool.false_and, Bool.false_eq_true, if_false]
    exact findInv_eq_none.1 hf
  | some v =>
    rw [syncYield_some' h.call opts args kw false canRetry hf] at hag ⊢
    have hv := findInv_some_mem hf
    have hfin : ∀ w ∈ (yieldFinish s false v ⟨callee, req⟩).d.invs, w.id ≠ ⟨callee, req⟩ := by
      unfold yieldFinish
      exact hforget _ _
    cases c1 : yieldPptCalleeBad env callee opts
    case true =>
      rw [yieldOut_calleeBad args kw false canRetry v c1]
      exact hforget _ _
    case false =>
    cases c2 : yieldPptCallerBad env v.callId.sess opts
    case true => rw [yieldOut_callerBad args kw false canRetry v c1 c2]; exact hfin
    case false =>
    cases c3 : env.full v.callId.sess
    case false => rw [yieldOut_deliver args kw false canRetry v c1 c2 c3]; exact hfin
    case true =>
    cases canRetry
    case true =>
      rw [yieldOut_retry args kw false v c1 c2 c3] at hag
      cases hag
    case false =>
      rw [yieldOut_giveup' h args kw false hv.1 hv.2 c1 c2 c3]
      split
      · exact hfin
      · exact hforget _ _

/-! ### CALL -/

theorem armTimer_not_dead {env : DEnv} {S : DState} {v : Invk} (_hv : v ∈ S.d.invs) (caller : SessKey) (req : Nat)
    {tmo : Nat} (hpos : 0 < tmo) : ¬ DeadInv (armTimer env S caller req v tmo) v.id := by
  rw [armTimer_pos hpos]
  rintro ⟨w, hw, hid, hc, tid, htm, hdead⟩
  rcases (mem_setInv (d := S.d) (v := { v with timer := some (S.nextTimer + 1) })).1 hw with ⟨_, hne⟩ | ⟨rfl, _⟩
  · exact hne hid
  · simp only [Option.some.injEq] at htm
    exact hdead ⟨_, List.mem_append_right _ (List.mem_singleton.2 rfl), htm, rfl⟩

theorem liveStep_setReg (s : DState) (r : Reg) : LiveStep s { s with d := s.d.setReg r } none :=
  liveStep_shrink rfl (fun _ hw => hw)

theorem liveStep_recordCall (s : DState) {v : Invk} (hvt : v.timer = Option.none) (callee : SessKey) :
    LiveStep s (recordCall s v callee) none := by
  refine liveStep_of_invs rfl ?_
  intro w' hw' hc tid htm
  rcases List.mem_append.1 (show w' ∈ s.d.invs ++ [v] from hw') with hw | hw
  · exact ⟨w', hw, rfl, hc, htm⟩
  · simp only [List.mem_singleton] at hw; subst hw
    rw [hvt] at htm; cases htm

theorem liveStep_fullOut {S : DState} (h : DealerInv S) {v : Invk} (hv : v ∈ S.d.invs) (c : ReqId) :
    LiveStep S (fullOut S c v.id v.timer).st none := liveStep_endCall h hv c

theorem syncCall_liveStep {env : DEnv} {s : DState} (h : DealerInv s) (caller : SessKey) (req : Nat) (opts : Dict)
    (proc : String) (args : List WVal) (kw : Dict) (rnd : Nat) :
    LiveStep s (syncCall env s caller req opts proc args kw rnd).st none := by
  refine syncCall_cases (env := env) (P := fun o => LiveStep s o.st none) h caller req opts proc args kw rnd
    ?_ ?_ ?_ ?_ ?_ ?_ ?_ ?_
  · intro _; exact LiveStep.refl s
  · -- later chunk, sent: the previous timer is stopped, the next one armed
    intro iid v0 _ _ hv0 _ _ _ _
    have h1 : LiveStep s { s with d := s.d.setInv { v0 with inProgress := opts.optFlag OptProgress } } none :=
      liveStep_setInv h.call.invIds hv0 rfl rfl id
    have hi1 : DealerInv ({ s with d := s.d.setInv { v0 with inProgress := opts.optFlag OptProgress } } : DState) :=
      h.setInv (v' := { v0 with inProgress := opts.optFlag OptProgress }) hv0 rfl rfl
    have hm : ({ v0 with inProgress := opts.optFlag OptProgress } : Invk) ∈
        (s.d.setInv { v0 with inProgress := opts.optFlag OptProgress }).invs :=
      mem_setInv.2 (Or.inr ⟨rfl, v0, hv0, rfl⟩)
    generalize htmo : routerTimeoutF env v0.fwdTimeout v0.callee v0.options = tmo
    refine h1.trans0 ?_
    by_cases hpos : 0 < tmo
    · rw [preCancel_pos _ _ hpos]
      have h2 := liveStep_cancelTimer hi1 (v := { v0 with inProgress := opts.optFlag OptProgress }) hm
      have hi2 := hi1.cancelTimer ({ v0 with inProgress := opts.optFlag OptProgress } : Invk).timer
      have h3 := liveStep_armTimer (env := env) hi2.call.invIds
        (v := { v0 with inProgress := opts.optFlag OptProgress }) (by rw [cancelTimer_d]; exact hm) caller req tmo
      refine (h2.trans h3).discharge ?_
      intro i hq hd
      exfalso
      rcases hq with rfl | f
      · -- the re-armed invocation has a live timer
        exact armTimer_not_dead (env := env) (by rw [cancelTimer_d]; exact hm) caller req hpos hd
      · exact f
    · have h0 : tmo = 0 := by omega
      subst h0
      rw [preCancel_zero, armTimer_zero]
      exact LiveStep.refl _
  · -- later chunk, callee full
    intro iid v0 _ _ hv0 hvi _ _ _
    subst hvi
    have h1 : LiveStep s { s with d := s.d.setInv { v0 with inProgress := opts.optFlag OptProgress } } none :=
      liveStep_setInv h.call.invIds hv0 rfl rfl id
    have hi1 : DealerInv ({ s with d := s.d.setInv { v0 with inProgress := opts.optFlag OptProgress } } : DState) :=
      h.setInv (v' := { v0 with inProgress := opts.optFlag OptProgress }) hv0 rfl rfl
    have hm : ({ v0 with inProgress := opts.optFlag OptProgress } : Invk) ∈
        ({ s with d := s.d.setInv { v0 with inProgress := opts.optFlag OptProgress } } : DState).d.invs :=
      mem_setInv.2 (Or.inr ⟨rfl, v0, hv0, rfl⟩)
    have h2 := liveStep_fullOut hi1 hm ⟨caller, req⟩
    exact h1.trans0 h2
  · intro _ _ _; exact LiveStep.refl s
  · intro reg reg' callee e _ _ _ _ _ _ _; exact liveStep_setReg s reg'
  · intro reg reg' callee _ _ _ _ _ _ _; exact liveStep_setReg s reg'
  · -- first chunk, sent
    intro reg reg' callee _ hc0 _ hmem _ hs _ _
    have h1 := liveStep_setReg s reg'
    have hi1 : DealerInv ({ s with d := s.d.setReg reg' } : DState) := h.setReg hmem hs
    have h2 := liveStep_recordCall ({ s with d := s.d.setReg reg' } : DState)
      (v := newInvk s reg caller req callee opts) rfl callee
    have hi2 : DealerInv (recordCall { s with d := s.d.setReg reg' } (newInvk s reg caller req callee opts) callee) :=
      hi1.recordCall (reg := reg) (caller := caller) (req := req) (callee := callee) (opts := opts) hc0
    have h3 := liveStep_armTimer (env := env) hi2.call.invIds (v := newInvk s reg caller req callee opts)
      (show _ ∈ _ ++ [_] from List.mem_append_right _ (List.mem_singleton.2 rfl)) caller req
      (routerTimeout env reg callee opts)
    exact (h1.trans0 h2).trans0 h3
  · -- first chunk, callee full
    intro reg reg' callee _ hc0 _ hmem _ hs _ _
    have h1 := liveStep_setReg s reg'
    have h2 := liveStep_recordCall ({ s with d := s.d.setReg reg' } : DState)
      (v := newInvk s reg caller req callee opts) rfl callee
    have h3 : LiveStep (recordCall { s with d := s.d.setReg reg' } (newInvk s reg caller req callee opts) callee)
        (fullOut (recordCall { s with d := s.d.setReg reg' } (newInvk s reg caller req callee opts) callee) ⟨caller, req⟩
          ⟨callee, genOf s.invGen callee + 1⟩ Option.none).st none :=
      liveStep_forget _ _ _
    exact (h1.trans0 h2).trans0 h3

/-! ### REGISTER, UNREGISTER -/

theorem syncRegister_liveStep {s : DState} (h : DealerInv s) (callee : SessKey) (req : Nat) (proc m invoke : String)
    (disclose fwd wampURI : Bool) :
    LiveStep s (syncRegister s callee req proc m invoke disclose fwd wampURI).st none :=
  liveStep_shrink (syncRegister_timers ..) (fun _ hw => (syncRegister_frame h ..).2.1 ▸ hw)

theorem syncUnregister_liveStep {s : DState} (h : DealerInv s) (callee : SessKey) (req regId : Nat) :
    LiveStep s (syncUnregister s callee req regId).st none :=
  liveStep_shrink (syncUnregister_timers ..) (fun _ hw => (syncUnregister_frame h ..).2.1 ▸ hw)

/-! ### session removal -/

theorem dropOne_liveStep {s : DState} (h : DealerInv s) (c : ReqId) : LiveStep s (dropOne s c) none := by
  by_cases hc : c ∈ s.d.calls
  · obtain ⟨i, v, hv, hvi, _, he⟩ := dropOne_pending h hc
    rw [he, ← hvi]
    exact liveStep_endCall h hv c
  · have hb : (s.d.delCall c).byCall? c = Option.none := h.call.byCall?_none hc
    unfold dropOne
    simp only [hb]
    exact liveStep_shrink rfl (fun _ hw => hw)

theorem dropCalls_liveStep (k : SessKey) : ∀ (l : List ReqId) (s : DState), DealerInv s →
    LiveStep s (dropCalls s k l) none
  | [], s, _ => LiveStep.refl s
  | c :: rest, s, h => by
    by_cases hck : (c.sess != k) = true
    · rw [dropCalls_cons_skip rest hck]; exact dropCalls_liveStep k rest s h
    · rw [dropCalls_cons_hit rest hck]
      exact (dropOne_liveStep h c).trans0 (dropCalls_liveStep k rest _ (dropOne_inv h c))

theorem liveStep_uncancel {S : DState} (cur : Invk) : LiveStep S (uncancel S cur) (fun i => i = cur.id) := by
  rintro i ⟨w', hw', hid, hc, tid, htm, hdead⟩
  rcases (mem_setInv (d := S.d) (v := { cur with canceled := false })).1 hw' with ⟨hw, _⟩ | ⟨rfl, _⟩
  · exact Or.inl ⟨w', hw, hid, hc, tid, htm, hdead⟩
  · exact Or.inr hid.symm

/-- one iteration of the `cancelServed` loop on the stored invocation `cur` -/
theorem goneStep_liveStep {env : DEnv} {s : DState} (h : DealerInv s) {cur : Invk} (hcur : cur ∈ s.d.invs) :
    LiveStep s (syncCancel env (uncancel (s.cancelTimer cur.timer) cur) cur.callId.sess cur.callId.req CancelModeSkip
      ErrCanceled [.str "<text>"]).st none := by
  obtain ⟨_, g2, _, g4⟩ := goneStep (env := env) h hcur cur.timer (c := cur.callId) rfl
  have hS : (s.cancelTimer cur.timer).d = s.d := cancelTimer_d s cur.timer
  have hcur' : cur ∈ (s.cancelTimer cur.timer).d.invs := by rw [hS]; exact hcur
  have h1 := h.cancelTimer cur.timer
  have h2 : DealerInv (uncancel (s.cancelTimer cur.timer) cur) :=
    h1.setInv (v' := { cur with canceled := false }) hcur' rfl rfl
  have hm : ({ cur with canceled := false } : Invk) ∈ (uncancel (s.cancelTimer cur.timer) cur).d.invs :=
    (mem_setInv (d := (s.cancelTimer cur.timer).d)).2 (Or.inr ⟨rfl, cur, hcur', rfl⟩)
  have a := liveStep_cancelTimer h hcur
  have b := liveStep_uncancel (S := s.cancelTimer cur.timer) cur
  have c := syncCancel_liveStep (env := env) h2 cur.callId.sess cur.callId.req CancelModeSkip ErrCanceled [.str "<text>"]
  have hsub := syncCancel_sub env (uncancel (s.cancelTimer cur.timer) cur) cur.callId.sess cur.callId.req CancelModeSkip
    ErrCanceled [.str "<text>"]
  generalize syncCancel env (uncancel (s.cancelTimer cur.timer) cur) cur.callId.sess cur.callId.req CancelModeSkip
      ErrCanceled [.str "<text>"] = o at g2 g4 c hsub ⊢
  refine ((a.trans b).trans c).discharge ?_
  intro i hq hd
  exfalso
  have hi : i = cur.id := by
    rcases hq with (rfl | rfl) | f
    · rfl
    · rfl
    · exact f.elim
  subst hi
  obtain ⟨w, hw, hid, _⟩ := hd
  -- an invocation with id `cur.id` in `o.st` would belong to the call that has just been removed
  obtain ⟨w0, hw0, hs⟩ := hsub.invs w hw
  simp only [Invk.shapeC, Prod.mk.injEq] at hs
  have hw0e : w0 = { cur with canceled := false } := nodup_map_inj h2.call.invIds hw0 hm (hs.1.trans hid)
  have hwc : w.callId = cur.callId := by rw [← hs.2.1, hw0e]
  have := (g4.call.inv_call hw).1
  rw [g2, hwc] at this
  simpa using (List.mem_filter.1 this).2

theorem cancelServed_liveStep (env : DEnv) (k : SessKey) : ∀ (l : List Invk) (s : DState), DealerInv s →
    (l.map (·.callId)).Nodup →
    (∀ u ∈ l, u.callId ∈ s.d.calls → ∃ cur ∈ s.d.invs, cur.id = u.id ∧ cur.callId = u.callId ∧ cur.timer = u.timer) →
    LiveStep s (cancelServed env s k l).1 none
  | [], s, _, _, _ => LiveStep.refl s
  | invk :: rest, s, h, hnd, hcur => by
    rw [List.map_cons, List.nodup_cons] at hnd
    by_cases hcond : (invk.callee != k || !s.d.calls.contains invk.callId) = true
    · rw [cancelServed_cons_skip rest hcond]
      exact cancelServed_liveStep env k rest s h hnd.2 (fun u hu => hcur u (List.mem_cons_of_mem _ hu))
    · have hpend : invk.callId ∈ s.d.calls := by
        cases h2 : s.d.calls.contains invk.callId <;> simp_all
      obtain ⟨cur, hcm, hcid, hccall, hctm⟩ := hcur invk (List.mem_cons_self ..) hpend
      have hfi : (s.cancelTimer invk.timer).d.findInv invk.id = some cur := by
        rw [cancelTimer_d]; exact (findInv_eq_some h.call.invIds).2 ⟨hcm, hcid⟩
      rw [cancelServed_cons_hit rest hcond hfi]
      obtain ⟨_, g2, g3, g4⟩ := goneStep (env := env) h hcm invk.timer hccall
      have hstep := goneStep_liveStep (env := env) h hcm
      rw [hctm, hccall] at hstep
      generalize syncCancel env (uncancel (s.cancelTimer invk.timer) cur) invk.callId.sess invk.callId.req
          CancelModeSkip ErrCanceled [.str "<text>"] = o at g2 g3 g4 hstep ⊢
      have hcur' : ∀ u ∈ rest, u.callId ∈ o.st.d.calls →
          ∃ cur' ∈ o.st.d.invs, cur'.id = u.id ∧ cur'.callId = u.callId ∧ cur'.timer = u.timer := by
        intro u hu huc
        rw [g2] at huc
        have huc' := List.mem_filter.1 huc
        obtain ⟨cur', hm', hid', hcall', htm'⟩ := hcur u (List.mem_cons_of_mem _ hu) huc'.1
        refine ⟨cur', g3 cur' hm' ?_, hid', hcall', htm'⟩
        intro he
        have : cur' = cur := nodup_map_inj h.call.invIds hm' hcm he
        have hne' : u.callId ≠ invk.callId := by simpa using huc'.2
        exact hne' (by rw [← hcall', this, hccall])
      exact hstep.trans0 (cancelServed_liveStep env k rest o.st g4 hnd.2 hcur')

theorem syncRemoveSession_liveStep {env : DEnv} {s : DState} (h : DealerInv s) (k : SessKey) :
    LiveStep s (syncRemoveSession env s k).st none := by
  obtain ⟨s1, h1, _, hi, _, ⟨ht, _⟩, _, he⟩ := removeSession_mid (env := env) h k
  rw [he]
  simp only
  have a : LiveStep s s1 none := liveStep_shrink ht (fun w hw => hi ▸ hw)
  have b := cancelServed_liveStep env k s1.d.invs s1 h1 h1.call.invCalls (fun u hu _ => ⟨u, hu, rfl, rfl, rfl⟩)
  have c := dropCalls_liveStep k (cancelServed env s1 k s1.d.invs).1.d.calls _ (cancelServed_inv env k s1.d.invs s1 h1)
  exact (a.trans0 b).trans0 c

/-! ### timers leaving the table -/

/-- dropping timers from the table: a recorded timer dies only if it is dropped -/
theorem liveStep_filter (s : DState) (p : Timer → Bool) :
    LiveStep s { s with timers := s.timers.filter p }
      (fun i => ∃ v ∈ s.d.invs, v.id = i ∧ ∃ t ∈ s.timers, p t = false ∧ t.canceled = false ∧ v.timer = some t.id) := by
  rintro i ⟨w, hw, hid, hc, tid, htm, hdead⟩
  by_cases hl : LiveT s tid
  · obtain ⟨t, ht, htid, htc⟩ := hl
    right
    refine ⟨w, hw, hid, t, ht, ?_, htc, by rw [htm, htid]⟩
    cases hp : p t
    · rfl
    · exact absurd ⟨t, List.mem_filter.2 ⟨ht, hp⟩, htid, htc⟩ hdead
  · exact Or.inl ⟨w, hw, hid, hc, tid, htm, hl⟩

/-- A TIMER FIRES (`Realm.timerDue`): the live timer `t` leaves the table and `syncCancel(killnowait, timeout)` is
    posted for its call.  No recorded timer dies: `t` is the timer recorded for its own call (`timerOwned`), and that
    call is ended (or was cancelled before). -/
theorem timerFire_liveStep {env : DEnv} {s : DState} (h : DealerInv s) {t : Timer} (ht : t ∈ s.timers)
    (hc : t.canceled = false) (reason : String) (errArgs : List WVal) :
    LiveStep s (syncCancel env { s with timers := s.timers.filter (fun y => y.id != t.id) } t.caller t.req
      CancelModeKillNoWait reason errArgs).st none := by
  have hf := h.filterTimers (fun y => y.id != t.id)
  have a := liveStep_filter s (fun y => y.id != t.id)
  have b := syncCancel_liveStep (env := env) hf t.caller t.req CancelModeKillNoWait reason errArgs
  obtain ⟨v, hv, hvc, hvt⟩ := h.aux.timerOwned t ht hc
  refine (a.trans b).discharge ?_
  intro i hq hd
  exfalso
  rcases hq with ⟨w, hw, hwi, t', ht', hp, _, hwt⟩ | f
  · have hid : t'.id = t.id := by simpa using hp
    have hwv : w = v := nodup_map_inj h.call.invIds hw hv (h.aux.invTimerInj w hw v hv t.id (hid ▸ hwt) hvt)
    subst hwv
    subst hwi
    -- `w` is the invocation of the call the timer belongs to
    have hw' : w ∈ ({ s with timers := s.timers.filter (fun y => y.id != t.id) } : DState).d.invs := hw
    by_cases hcan : w.canceled = true
    · -- cancelled before (kill mode outstanding): the firing timer changes nothing, and `w` is not "dead"
      have := syncCancel_canceled (env := env) hf hw' hvc hcan CancelModeKillNoWait reason errArgs
      rw [this] at hd
      obtain ⟨w2, hw2, hid2, hc2, _⟩ := hd
      have : w2 = w := nodup_map_inj h.call.invIds hw2 hw hid2
      rw [this, hcan] at hc2; cases hc2
    · have hlive := syncCancel_live (env := env) hf hw' hvc (by simpa using hcan) CancelModeKillNoWait reason errArgs
      rw [hlive] at hd
      have hk : ¬ CancelModeKillNoWait = CancelModeKill := by decide
      rw [if_neg hk] at hd
      split at hd <;> exact not_dead_forget _ _ hd
  · exact f

/-! ### every step of the dealer -/

/-- the invocations whose recorded timer can die in the step `s → o`: the invocation a non-progress YIELD is told to
    retry for (its timer was stopped, the call kept), and the invocations whose recorded live timer the expiry
    bookkeeping `dropTimers p` takes out of the table -/
def Exc (s : DState) (o : DOut) (i : ReqId) : Prop :=
  (o.again = true ∧ ∃ env opts args kw canRetry, o = syncYield env s i.sess i.req opts args kw false canRetry) ∨
  (∃ p, o = { st := { s with timers := s.timers.filter p } } ∧
    ∃ v ∈ s.d.invs, v.id = i ∧ ∃ t ∈ s.timers, p t = false ∧ t.canceled = false ∧ v.timer = some t.id)

/-- ALL STEPS.  Across any step of the dealer a recorded timer dies (is cancelled or leaves the table while the
    invocation stays stored and not cancelled) only in the two situations of `Exc`.  In particular: every `sync*`
    function other than a blocked non-progress `syncYield` preserves "every pending, not cancelled invocation that
    records a timer has it live". -/
theorem dstep_liveStep {s : DState} {o : DOut} (h : DealerInv s) (st : DStep s o) : LiveStep s o.st (Exc s o) := by
  cases st with
  | register => exact (syncRegister_liveStep h _ _ _ _ _ _ _ _).mono (fun _ f => f.elim)
  | unregister => exact (syncUnregister_liveStep h _ _ _).mono (fun _ f => f.elim)
  | call => exact (syncCall_liveStep h _ _ _ _ _ _ _).mono (fun _ f => f.elim)
  | cancel => exact (syncCancel_liveStep h _ _ _ _ _).mono (fun _ f => f.elim)
  | error => exact (syncError_liveStep h _ _ _ _ _ _).mono (fun _ f => f.elim)
  | removeSession => exact (syncRemoveSession_liveStep h _).mono (fun _ f => f.elim)
  | yield env callee req opts args kw progress canRetry =>
    refine (syncYield_liveStep h callee req opts args kw progress canRetry).mono ?_
    rintro i ⟨ha, hp, rfl⟩
    subst hp
    exact Or.inl ⟨ha, env, opts, args, kw, canRetry, rfl⟩
  | dropTimers p =>
    refine (liveStep_filter s p).mono ?_
    intro i hq
    exact Or.inr ⟨p, rfl, hq⟩

theorem TimerLive.dstep {P : ReqId → Prop} {s : DState} {o : DOut} (hl : TimerLive P s) (h : DealerInv s)
    (st : DStep s o) : TimerLive (fun i => P i ∨ Exc s o i) o.st := hl.step (dstep_liveStep h st)

end Nexus.L2.WpB
