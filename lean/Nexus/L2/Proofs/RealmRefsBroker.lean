/-
  Which sessions the broker refers to and sends to (helper lemmas for C04/C05 `RealmInv`).

  `b.mem k`: session k is a member of some subscription of b.  Every `sync*` function of the
  broker sends only to members (and to the acting session), and adds only the acting session
  as a member; `syncRemoveSession k` leaves no trace of k (under `BrokerInv`).
-/
import Nexus.L2.Proofs.BrokerInv

namespace Nexus.L2
open Gen.N

/-- session `k` is a member of some subscription -/
def Broker.mem (b : Broker) (k : SessKey) : Prop := ∃ s ∈ b.subs, k ∈ s.members

theorem Broker.mem_of_subs_eq {b b' : Broker} (h : b'.subs = b.subs) (k : SessKey) : b'.mem k ↔ b.mem k := by
  unfold Broker.mem; rw [h]

theorem matching_sub {b : Broker} {t : String} {x : Sub × Bool} (h : x ∈ b.matching t) : x.1 ∈ b.subs := by
  obtain ⟨s, st⟩ := x
  exact ((mem_matching b t s st).mp h).1

theorem metaEvent_to {b : Broker} {t : String} {pid : Nat} {cause : SessKey} {args : List WVal} {x : Send}
    (h : x ∈ b.metaEvent t pid cause args) : b.mem x.to ∧ x.to ≠ cause := by
  unfold Broker.metaEvent at h
  obtain ⟨ms, hms, hx⟩ := List.mem_flatMap.mp h
  obtain ⟨k, hk, rfl⟩ := List.mem_map.mp hx
  have hk' := List.mem_filter.mp hk
  refine ⟨⟨ms.1, matching_sub hms, hk'.1⟩, ?_⟩
  intro e
  have : sidOf k = sidOf cause := by rw [show k = cause from e]
  simp [this] at hk'

theorem syncPublish_to {b : Broker} {sess : SessKey → Option Session} {now : Nat} {p : Publication} {x : Send}
    (h : x ∈ (b.syncPublish sess now p).2) : b.mem x.to := by
  rw [syncPublish_sends] at h
  obtain ⟨ms, hms, hx⟩ := List.mem_flatMap.mp h
  unfold eventsFor at hx
  obtain ⟨k, hk, hsome⟩ := List.mem_filterMap.mp hx
  refine ⟨ms.1, matching_sub hms, ?_⟩
  split at hsome
  · split at hsome
    · cases hsome; exact hk
    · cases hsome
  · cases hsome

/-! ### SUBSCRIBE -/

theorem mem_setSub {b : Broker} {sub new : Sub} (_hs : sub ∈ b.subs) {k : SessKey}
    (h : (b.setSub new).mem k) : b.mem k ∨ k ∈ new.members := by
  obtain ⟨s, hs', hk⟩ := h
  unfold Broker.setSub at hs'
  obtain ⟨x, hx, rfl⟩ := List.mem_map.mp hs'
  by_cases e : (x.id == new.id) = true
  · simp only [e, if_true] at hk; exact Or.inr hk
  · simp only [e] at hk; exact Or.inl ⟨x, hx, hk⟩

theorem syncSubscribe_mem {b : Broker} {k : SessKey} {req : Nat} {topic m : String} {pub0 : Nat} {k' : SessKey}
    (h : (b.syncSubscribe k req topic m pub0).1.mem k') : b.mem k' ∨ k' = k := by
  unfold Broker.syncSubscribe at h
  split at h
  · rename_i sub hf
    have hsub := (findTopic_some hf).1
    split at h
    · exact Or.inl h
    · have h' : (b.setSub { sub with members := sub.members ++ [k] }).mem k' := h
      rcases mem_setSub hsub h' with h1 | h1
      · exact Or.inl h1
      · rcases List.mem_append.mp h1 with h2 | h2
        · exact Or.inl ⟨sub, hsub, h2⟩
        · exact Or.inr (List.mem_singleton.mp h2)
  · obtain ⟨s, hs, hk⟩ := h
    rcases List.mem_append.mp hs with h1 | h1
    · exact Or.inl ⟨s, h1, hk⟩
    · rw [List.mem_singleton.mp h1] at hk
      exact Or.inr (List.mem_singleton.mp hk)

theorem syncSubscribe_to {b : Broker} {k : SessKey} {req : Nat} {topic m : String} {pub0 : Nat} {x : Send}
    (h : x ∈ (b.syncSubscribe k req topic m pub0).2.1) : b.mem x.to ∨ x.to = k := by
  have key : ∀ {t pid args}, x ∈ (b.syncSubscribe k req topic m pub0).1.metaEvent t pid k args → b.mem x.to ∨ x.to = k :=
    fun hx => syncSubscribe_mem (metaEvent_to hx).1
  unfold Broker.syncSubscribe at h key
  split at h
  · split at h
    · simp only [List.mem_singleton] at h; rw [h]; exact Or.inr rfl
    · rename_i sub hf hc
      simp only [hf, hc] at key
      simp only [List.mem_append, List.mem_singleton] at h
      rcases h with h | h
      · rw [h]; exact Or.inr rfl
      · exact key h
  · rename_i hf
    simp only [hf] at key
    simp only [List.mem_append, List.mem_singleton] at h
    rcases h with (h | h) | h
    · rw [h]; exact Or.inr rfl
    · exact key h
    · exact key h

/-! ### UNSUBSCRIBE and session removal: membership only shrinks -/

theorem mem_delSub {b : Broker} {id : Nat} {k : SessKey} (h : (b.delSub id).mem k) : b.mem k := by
  obtain ⟨s, hs, hk⟩ := h
  exact ⟨s, (List.mem_filter.mp hs).1, hk⟩

theorem mem_setSub_filter {b : Broker} {sub : Sub} (hs : sub ∈ b.subs) {p : SessKey → Bool} {k : SessKey}
    (h : (b.setSub { sub with members := sub.members.filter p }).mem k) : b.mem k := by
  rcases mem_setSub hs h with h1 | h1
  · exact h1
  · exact ⟨sub, hs, (List.mem_filter.mp h1).1⟩

theorem syncUnsubscribe_mem {b : Broker} {k : SessKey} {req subId pub0 : Nat} {k' : SessKey}
    (h : (b.syncUnsubscribe k req subId pub0).1.mem k') : b.mem k' := by
  unfold Broker.syncUnsubscribe at h
  split at h
  · exact h
  · rename_i sub hf
    have hsub := (findId_some hf).1
    split at h
    · exact h
    · dsimp only at h
      split at h
      all_goals
        first
        | exact mem_delSub ((Broker.mem_of_subs_eq (by first | rfl | (split <;> rfl)) k').mp h)
        | exact mem_setSub_filter hsub ((Broker.mem_of_subs_eq (by first | rfl | (split <;> rfl)) k').mp h)
        | skip

theorem syncUnsubscribe_to {b : Broker} {k : SessKey} {req subId pub0 : Nat} {x : Send}
    (h : x ∈ (b.syncUnsubscribe k req subId pub0).2.1) : b.mem x.to ∨ x.to = k := by
  have key : ∀ {t pid args}, x ∈ (b.syncUnsubscribe k req subId pub0).1.metaEvent t pid k args → b.mem x.to :=
    fun hx => syncUnsubscribe_mem (metaEvent_to hx).1
  unfold Broker.syncUnsubscribe at h key
  split at h
  · simp only [List.mem_singleton] at h; rw [h]; exact Or.inr rfl
  · rename_i sub hf
    simp only [hf] at key
    split at h
    · simp only [List.mem_singleton] at h; rw [h]; exact Or.inr rfl
    · rename_i hc
      simp only [hc] at key
      dsimp only at h key
      split at h
      · rename_i hd
        simp only [hd, if_true] at key
        simp only [List.mem_append, List.mem_singleton] at h
        rcases h with (h | h) | h
        · rw [h]; exact Or.inr rfl
        · exact Or.inl (key h)
        · exact Or.inl (key h)
      · rename_i hd
        simp only [hd] at key
        simp only [List.mem_append, List.mem_singleton] at h
        rcases h with h | h
        · rw [h]; exact Or.inr rfl
        · exact Or.inl (key h)

theorem removeMember_mem {b : Broker} {k : SessKey} {id pub0 : Nat} {k' : SessKey}
    (h : (b.removeMember k id pub0).1.mem k') : b.mem k' := by
  unfold Broker.removeMember at h
  split at h
  · exact h
  · rename_i sub hf
    have hsub := (findId_some hf).1
    dsimp only at h
    split at h
    · exact mem_delSub h
    · exact mem_setSub_filter hsub h

theorem removeMember_to {b : Broker} {k : SessKey} {id pub0 : Nat} {x : Send}
    (h : x ∈ (b.removeMember k id pub0).2.1) : b.mem x.to ∧ x.to ≠ k := by
  unfold Broker.removeMember at h
  split at h
  · cases h
  · rename_i sub hf
    have hsub := (findId_some hf).1
    dsimp only at h
    split at h
    · rcases List.mem_append.mp h with h | h
      · exact ⟨mem_delSub (metaEvent_to h).1, (metaEvent_to h).2⟩
      · exact ⟨mem_delSub (metaEvent_to h).1, (metaEvent_to h).2⟩
    · exact ⟨mem_setSub_filter hsub (metaEvent_to h).1, (metaEvent_to h).2⟩

theorem removeMembers_mem (k : SessKey) : ∀ (l : List Nat) (b : Broker) (pub0 : Nat) (k' : SessKey),
    (b.removeMembers k pub0 l).1.mem k' → b.mem k'
  | [], _, _, _, h => h
  | id :: ids, b, pub0, k', h => by
    simp only [Broker.removeMembers] at h
    exact removeMember_mem (removeMembers_mem k ids _ _ k' h)

theorem removeMembers_to (k : SessKey) : ∀ (l : List Nat) (b : Broker) (pub0 : Nat) (x : Send),
    x ∈ (b.removeMembers k pub0 l).2.1 → b.mem x.to ∧ x.to ≠ k
  | [], _, _, _, h => by cases h
  | id :: ids, b, pub0, x, h => by
    simp only [Broker.removeMembers, List.mem_append] at h
    rcases h with h | h
    · exact removeMember_to h
    · have := removeMembers_to k ids _ _ x h
      exact ⟨removeMember_mem this.1, this.2⟩

theorem syncRemoveSession_mem' {b : Broker} {k : SessKey} {pub0 : Nat} {k' : SessKey}
    (h : (b.syncRemoveSession k pub0).1.mem k') : b.mem k' := by
  unfold Broker.syncRemoveSession at h
  split at h
  · exact h
  · exact (Broker.mem_of_subs_eq (b := b) (b' := { b with index := idxDrop b.index k }) rfl k').mp
      (removeMembers_mem k _ _ _ k' h)

theorem syncRemoveSession_to {b : Broker} {k : SessKey} {pub0 : Nat} {x : Send}
    (h : x ∈ (b.syncRemoveSession k pub0).2.1) : b.mem x.to ∧ x.to ≠ k := by
  unfold Broker.syncRemoveSession at h
  split at h
  · cases h
  · have := removeMembers_to k _ _ _ x h
    exact ⟨(Broker.mem_of_subs_eq (b := b) (b' := { b with index := idxDrop b.index k }) rfl x.to).mp this.1, this.2⟩

/-- after `syncRemoveSession k` the session `k` is a member of no subscription and has no index
    entry (needs the index ↔ membership agreement of `BrokerInv`) -/
theorem syncRemoveSession_gone {b : Broker} (hb : BrokerInv b) (k : SessKey) (pub0 : Nat) :
    ¬ (b.syncRemoveSession k pub0).1.mem k ∧ ∀ e ∈ (b.syncRemoveSession k pub0).1.index, e.1 ≠ k := by
  have hb' := hb.removeSession k pub0
  have hidx : idxGet (b.syncRemoveSession k pub0).1.index k = none := by
    unfold Broker.syncRemoveSession
    cases hg : idxGet b.index k with
    | none => exact hg
    | some ids =>
      simp only
      have hids : ids.Nodup := hb.index_wf.ids _ (idxGet_some_mem hg)
      obtain ⟨_, _, _, h4⟩ := removeMembers_state k ids { b with index := idxDrop b.index k } pub0 hb.ids_nodup hids
      rw [h4]
      show idxGet (idxDrop b.index k) k = none
      rw [idxGet_eq_none]
      intro hm
      obtain ⟨e, he, hek⟩ := List.mem_map.mp hm
      have := (List.mem_filter.mp he).2
      simp [hek] at this
  refine ⟨?_, ?_⟩
  · rintro ⟨s, hs, hk⟩
    have : idxRel (b.syncRemoveSession k pub0).1.index k s.id := (hb'.index_iff k s.id).mpr ⟨s, hs, rfl, hk⟩
    unfold idxRel at this
    rw [hidx] at this
    simp at this
  · intro e he hk
    rw [idxGet_eq_none] at hidx
    exact hidx (List.mem_map.mpr ⟨e, he, hk⟩)

/-- every index key is a member (under `BrokerInv`) -/
theorem BrokerInv.index_mem {b : Broker} (hb : BrokerInv b) {e : SessKey × List Nat} (he : e ∈ b.index) : b.mem e.1 := by
  have hne := hb.index_wf.nonempty e he
  obtain ⟨id, hid⟩ := List.exists_mem_of_ne_nil _ hne
  have hget : idxGet b.index e.1 = some e.2 := (mem_iff_idxGet hb.index_wf.keys).mp he
  have : idxRel b.index e.1 id := by unfold idxRel; rw [hget]; exact hid
  obtain ⟨s, hs, _, hk⟩ := (hb.index_iff e.1 id).mp this
  exact ⟨s, hs, hk⟩

/-- session removal changes nobody else's memberships -/
theorem syncRemoveSession_isMember {b : Broker} (hb : BrokerInv b) (k : SessKey) (pub0 : Nat) (k' : SessKey) (id : Nat) :
    (b.syncRemoveSession k pub0).1.isMember k' id ↔ b.isMember k' id ∧ k' ≠ k := by
  have hb' := hb.removeSession k pub0
  rw [← hb'.index_iff, ← hb.index_iff]
  unfold Broker.syncRemoveSession
  cases hg : idxGet b.index k with
  | none =>
    simp only
    constructor
    · intro h
      refine ⟨h, ?_⟩
      rintro rfl
      unfold idxRel at h
      rw [hg] at h
      simp at h
    · exact fun h => h.1
  | some ids =>
    simp only
    have hids : ids.Nodup := hb.index_wf.ids _ (idxGet_some_mem hg)
    obtain ⟨_, _, _, h4⟩ := removeMembers_state k ids { b with index := idxDrop b.index k } pub0 hb.ids_nodup hids
    rw [h4]
    exact idxRel_drop hb.index_wf k k' id

end Nexus.L2
