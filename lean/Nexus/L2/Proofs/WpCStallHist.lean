/-
  C07 "stall isolation", part 9: histories.  Two runs of the realm from states that agree off `x`, fed the same
  inputs — except that `x` may stop and resume reading at different moments in the two runs — show every
  other client exactly the same at every step.  And the side condition `Idle x` holds in every state
  reached without an RPC message of `x`.
-/
import Nexus.L2.Proofs.WpCStallStep2

set_option linter.unusedSimpArgs false

namespace Nexus.L2.WpC
open Nexus.L2 Nexus.L2.Realm Gen.N

variable {x : SessKey}

/-- `x` stops or resumes reading -/
def ReadSwitch (x : SessKey) (op : Op) : Prop := op = .stall x ∨ op = .resume x

/-- corresponding inputs of the two runs: the same input (not an RPC message of `x`), or in both runs `x`
    switches between reading and not reading (not necessarily the same way) -/
def OpRel (x : SessKey) (op op' : Op) : Prop := (op' = op ∧ OpFree x op) ∨ (ReadSwitch x op ∧ ReadSwitch x op')

theorem unstall_switch (b : Bool) :
    (unstall x ∘ fun c : Session => if c.key == x then { c with stalled := b } else c) = unstall x := by
  funext c
  simp only [Function.comp]
  unfold unstall
  split <;> simp_all

theorem filter_off_idem (l : List SessKey) : (l.filter (· != x)).filter (· != x) = l.filter (· != x) := by
  rw [List.filter_filter]
  congr 1
  funext a
  simp

/-- whatever `x` does about reading in the two runs, the states still agree off `x` -/
theorem eqoff_stepOp_switch {r r' : Realm} (h : EqOff x r r') {op op' : Op} (ho : ReadSwitch x op)
    (ho' : ReadSwitch x op') : EqOff x (r.stepOp op) (r'.stepOp op') := by
  have hc : ∀ b b' : Bool,
      (r'.clients.map (fun c => if c.key == x then { c with stalled := b' } else c)).map (unstall x) =
        (r.clients.map (fun c => if c.key == x then { c with stalled := b } else c)).map (unstall x) := by
    intro b b'
    rw [List.map_map, List.map_map, unstall_switch, unstall_switch, h.clients]
  rcases ho with rfl | rfl <;> rcases ho' with rfl | rfl
  · rw [stepOp_stall, stepOp_stall]
    exact EqOff.mk h.cfg h.broker h.ds (hc _ _) h.ending h.testaments h.metaProcs h.metaS
      h.queues h.closedPeers h.tasks h.retries h.deferred h.inbox h.ghosts h.now h.pubCount h.rnd h.panic
  · rw [stepOp_stall, stepOp_resume]
    exact EqOff.mk h.cfg h.broker h.ds (hc _ _) h.ending h.testaments h.metaProcs h.metaS
      h.queues h.closedPeers h.tasks h.retries h.deferred h.inbox (by dsimp only; rw [filter_off_idem]; exact h.ghosts)
      h.now h.pubCount h.rnd h.panic
  · rw [stepOp_resume, stepOp_stall]
    exact EqOff.mk h.cfg h.broker h.ds (hc _ _) h.ending h.testaments h.metaProcs h.metaS
      h.queues h.closedPeers h.tasks h.retries h.deferred h.inbox (by dsimp only; rw [filter_off_idem]; exact h.ghosts)
      h.now h.pubCount h.rnd h.panic
  · rw [stepOp_resume, stepOp_resume]
    exact EqOff.mk h.cfg h.broker h.ds (hc _ _) h.ending h.testaments h.metaProcs h.metaS
      h.queues h.closedPeers h.tasks h.retries h.deferred h.inbox
      (by dsimp only; rw [filter_off_idem, filter_off_idem]; exact h.ghosts)
      h.now h.pubCount h.rnd h.panic

theorem opFree_switch {op : Op} (ho : ReadSwitch x op) : OpFree x op := by
  rcases ho with rfl | rfl <;> trivial

/-- what two observations have in common when restricted to the clients other than `x` -/
def ObsEq (x : SessKey) (o o' : Observed) : Prop :=
  o'.out.filter (fun q => q.1 != x) = o.out.filter (fun q => q.1 != x) ∧
  o'.closed.filter (· != x) = o.closed.filter (· != x) ∧ o'.panic = o.panic

/-- one step of each run -/
theorem eqoff_step_rel {r r' : Realm} (hx : x ≠ metaKey) (h : EqOff x r r') (hi : RealmInv r) (hid : Idle x r)
    {op op' : Op} (hop : OpRel x op op') :
    EqOff x (r.step op).2 (r'.step op').2 ∧ ObsEq x (r.step op).1 (r'.step op').1 ∧
    RealmInv (r.step op).2 ∧ Idle x (r.step op).2 := by
  rcases hop with ⟨rfl, hf⟩ | ⟨ho, ho'⟩
  · obtain ⟨a, b, c, d, e, f⟩ := eqoff_step hx h hi hid op' hf
    exact ⟨a, ⟨b, c, d⟩, e, f⟩
  · have hnt : ∀ ms, op ≠ .tick ms := by rcases ho with rfl | rfl <;> intro ms e <;> cases e
    have hnt' : ∀ ms, op' ≠ .tick ms := by rcases ho' with rfl | rfl <;> intro ms e <;> cases e
    rw [step_of_not_tick r op hnt, step_of_not_tick r' op' hnt']
    obtain ⟨a, b, c⟩ := eqoff_drain hx taskFuel (eqoff_stepOp_switch h ho ho') (stepOp_inv hi op).1
      (idle_stepOp hi.dinv hid op (opFree_switch ho))
    obtain ⟨f1, f2, f3, f4⟩ := eqoff_flush a
    exact ⟨f1, ⟨f2, f3, f4⟩, (flush_inv b).1, idle_flush c⟩

/-- two lists of the same length, related element by element -/
inductive Rel2 {α β : Type} (R : α → β → Prop) : List α → List β → Prop
  | nil : Rel2 R [] []
  | cons {a : α} {b : β} {l : List α} {l' : List β} : R a b → Rel2 R l l' → Rel2 R (a :: l) (b :: l')

/-- a run: the observations step by step, and the final state -/
def runOps (r : Realm) : List Op → List Observed × Realm
  | [] => ([], r)
  | op :: ops => ((r.step op).1 :: (runOps (r.step op).2 ops).1, (runOps (r.step op).2 ops).2)

/-- two runs -/
theorem eqoff_runOps (hx : x ≠ metaKey) : ∀ {ops ops' : List Op}, Rel2 (OpRel x) ops ops' →
    ∀ {r r' : Realm}, EqOff x r r' → RealmInv r → Idle x r →
    Rel2 (ObsEq x) (runOps r ops).1 (runOps r' ops').1 ∧ EqOff x (runOps r ops).2 (runOps r' ops').2 ∧
      RealmInv (runOps r ops).2 ∧ Idle x (runOps r ops).2 := by
  intro ops ops' hrel
  induction hrel with
  | nil => intro r r' h hi hid; exact ⟨Rel2.nil, h, hi, hid⟩
  | cons hop _ ih =>
    intro r r' h hi hid
    obtain ⟨a, b, c, d⟩ := eqoff_step_rel hx h hi hid hop
    obtain ⟨e, f, g, k⟩ := ih a c d
    exact ⟨Rel2.cons b e, f, g, k⟩

/-! ### where the side condition holds -/

/-- in a freshly created realm nobody but the meta session takes part in anything -/
theorem idle_create {cfg : Config} {r : Realm} (hx : x ≠ metaKey) (h : Realm.create cfg = some r) : Idle x r := by
  obtain ⟨hi, _, hc, _, _, ht, hr, _⟩ := create_rinv h
  refine ⟨?_, ?_, ?_⟩
  · intro hrf
    rcases hi.dref x hrf with e | ⟨c, hcm, _⟩
    · exact hx e
    · rw [hc] at hcm; cases hcm
  · rw [hr]; intro y hy; cases hy
  · rw [ht]; intro m hm; cases hm

/-- states reached from `Realm.create cfg` by inputs none of which is an RPC message of `x` -/
inductive FreeReachable (x : SessKey) (cfg : Config) : Realm → Prop
  | init {r : Realm} : Realm.create cfg = some r → FreeReachable x cfg r
  | step {r : Realm} (op : Op) : OpFree x op → FreeReachable x cfg r → FreeReachable x cfg (r.step op).2

theorem FreeReachable.reachable {cfg : Config} {r : Realm} (h : FreeReachable x cfg r) : Realm.Reachable cfg r := by
  induction h with
  | init h => exact Realm.Reachable.init h
  | step op _ _ ih => exact Realm.Reachable.step op ih

/-- … satisfy the side conditions of the isolation theorems -/
theorem FreeReachable.idle {cfg : Config} {r : Realm} (hx : x ≠ metaKey) (h : FreeReachable x cfg r) :
    RealmInv r ∧ Idle x r := by
  induction h with
  | init h => exact ⟨(create_rinv h).1, idle_create hx h⟩
  | step op hop _ ih =>
    obtain ⟨_, _, _, _, e, f⟩ := eqoff_step hx (EqOff.refl _) ih.1 ih.2 op hop
    exact ⟨e, f⟩

end Nexus.L2.WpC
