/-
  Work package A (sub-worker bk): helper lemmas for C20 — the argument parser `Realm.histQuery?`
  in a normal form over four named per-key parsers, and the `MetaProcEventHistory` branch of
  `Realm.metaProc` unfolded once for all argument shapes.
-/
import Nexus.L2.Proofs.BrokerQuery

namespace Nexus.L2.WpA
open Nexus.L2 Gen.N
open Nexus.L2.Realm (HistQuery histScan takeLast histEntryVal histQuery? metaProc mYield mErr kwStr)

/-- `limit`: absent / an integer / anything else (malformed) -/
def limRaw (kw : Dict) : Option (Option Int) :=
  match kw.get? "limit" with
  | none => some none
  | some (.int i) => some (some i)
  | some _ => none

def reverseArg (kw : Dict) : Option Bool :=
  match kw.get? "reverse" with
  | none => some false
  | some (.bool b) => some b
  | some _ => none

def timeArg (kw : Dict) (k : String) : Option (Option Nat) :=
  match kw.get? k with
  | some (.dict [("$ms", .int i)]) => some (some i.toNat)
  | some (.str _) => none
  | _ => some none

def pubArg (kw : Dict) (k : String) : Option Nat :=
  match kw.get? k with
  | none => some 0
  | some v => v.asID

theorem histQuery?_eq (kw : Dict) :
    histQuery? kw =
      (match limRaw kw, reverseArg kw, timeArg kw "from_time", timeArg kw "after_time", timeArg kw "before_time",
             timeArg kw "until_time", pubArg kw "from_publication", pubArg kw "after_publication",
             pubArg kw "before_publication", pubArg kw "until_publication" with
       | some lim, some rev, some ft, some at_, some bt, some ut, some fp, some ap, some bp, some up =>
         match lim with
         | some l => if l < 1 then none else
           some { limit := l.toNat, reverse := rev, fromT := ft, afterT := at_, beforeT := bt, untilT := ut,
                  topic := kwStr kw "topic", fromPub := fp, afterPub := ap, beforePub := bp, untilPub := up }
         | none =>
           some { limit := 0, reverse := rev, fromT := ft, afterT := at_, beforeT := bt, untilT := ut,
                  topic := kwStr kw "topic", fromPub := fp, afterPub := ap, beforePub := bp, untilPub := up }
       | _, _, _, _, _, _, _, _, _, _ => none) := rfl


/-! ### per-key facts -/

theorem limRaw_some_none {kw : Dict} : limRaw kw = some none ↔ kw.get? "limit" = none := by
  unfold limRaw
  split <;> simp_all

theorem limRaw_some_some {kw : Dict} {n : Int} : limRaw kw = some (some n) ↔ kw.get? "limit" = some (.int n) := by
  unfold limRaw
  split <;> simp_all

theorem limRaw_none {kw : Dict} : limRaw kw = none ↔ ∃ v, kw.get? "limit" = some v ∧ ∀ n : Int, v ≠ .int n := by
  unfold limRaw
  split
  · simp_all
  · simp_all
  · rename_i v hne hv
    simp only [true_iff]
    exact ⟨_, hv, fun n hn => hne n hn⟩

theorem reverseArg_some {kw : Dict} {b : Bool} :
    reverseArg kw = some b ↔ (kw.get? "reverse" = none ∧ b = false) ∨ kw.get? "reverse" = some (.bool b) := by
  unfold reverseArg
  split
  · rename_i h; simp [h, eq_comm]
  · rename_i b' h; simp [h, eq_comm]
  · rename_i v hne hv
    simp only [hv, reduceCtorEq, false_and, false_or, false_iff, Option.some.injEq]
    intro h; exact hne b h

theorem reverseArg_none {kw : Dict} : reverseArg kw = none ↔ ∃ v, kw.get? "reverse" = some v ∧ ∀ b, v ≠ .bool b := by
  unfold reverseArg
  split
  · simp_all
  · simp_all
  · rename_i v hne hv
    simp only [true_iff]
    exact ⟨_, hv, fun n hn => hne n hn⟩

theorem timeArg_none {kw : Dict} {k : String} : timeArg kw k = none ↔ ∃ s, kw.get? k = some (.str s) := by
  unfold timeArg
  split
  · simp_all
  · simp_all
  · rename_i h1 h2
    simp only [reduceCtorEq, false_iff, not_exists]
    intro s hs; exact h2 s hs

/-- the time bound denoted by key `k`: only the `{"$ms": n}` placeholder denotes one -/
def timeBound (kw : Dict) (k : String) : Option Nat :=
  match kw.get? k with
  | some (.dict [("$ms", .int i)]) => some i.toNat
  | _ => none

theorem timeArg_some {kw : Dict} {k : String} {t : Option Nat} (h : timeArg kw k = some t) : t = timeBound kw k := by
  unfold timeArg at h
  unfold timeBound
  split at h
  · rename_i i hi; rw [hi]; simpa using h.symm
  · simp at h
  · rename_i h1 h2
    split
    · rename_i i hi; exact absurd hi (h1 i)
    · simpa using h.symm

theorem pubArg_none {kw : Dict} {k : String} : pubArg kw k = none ↔ ∃ v, kw.get? k = some v ∧ v.asID = none := by
  unfold pubArg
  split <;> simp_all

theorem pubArg_some {kw : Dict} {k : String} {n : Nat} :
    pubArg kw k = some n ↔ (kw.get? k = none ∧ n = 0) ∨ ∃ v, kw.get? k = some v ∧ v.asID = some n := by
  unfold pubArg
  split
  · rename_i h; simp [h, eq_comm]
  · rename_i v h; simp [h]

/-! ### the meta procedure, all argument shapes -/

set_option maxRecDepth 2000 in
theorem metaProc_history_eq (r : Realm) (req : Nat) (details : Dict) (args : List WVal) (kw : Dict) :
    metaProc r MetaProcEventHistory req details args kw =
      (match args with
       | [] => (mErr req ErrInvalidArgument, r)
       | a :: _ => match a.asID with
         | none => (mErr req ErrInvalidArgument, r)
         | some id => match histQuery? kw with
           | none => (mErr req ErrInvalidArgument, r)
           | some q =>
             match (if (r.broker.findId id).isSome then r.broker.hist.find? (fun h => h.sub == id) else none) with
             | none => (mYield req [] [("is_limit_reached", .bool false)], r)
             | some h =>
               (mYield req ((histAnswer (subQuery r id q) h.entries).map histEntryVal)
                 [("is_limit_reached", .bool (h.entries.length ≥ h.limit))], r)) := by
  unfold metaProc
  have e1 : (MetaProcEventHistory == MetaProcSessionCount) = false := by decide
  have e2 : (MetaProcEventHistory == MetaProcSessionList) = false := by decide
  have e3 : (MetaProcEventHistory == MetaProcSessionGet) = false := by decide
  have e4 : (MetaProcEventHistory == MetaProcSessionKill) = false := by decide
  have e5 : (MetaProcEventHistory == MetaProcSessionKillByAuthid) = false := by decide
  have e6 : (MetaProcEventHistory == MetaProcSessionKillByAuthrole) = false := by decide
  have e7 : (MetaProcEventHistory == MetaProcSessionKillAll) = false := by decide
  have e8 : (MetaProcEventHistory == MetaProcSessionModifyDetails) = false := by decide
  have e9 : (MetaProcEventHistory == MetaProcRegList) = false := by decide
  have e10 : (MetaProcEventHistory == MetaProcRegLookup) = false := by decide
  have e11 : (MetaProcEventHistory == MetaProcRegMatch) = false := by decide
  have e12 : (MetaProcEventHistory == MetaProcRegGet) = false := by decide
  have e13 : (MetaProcEventHistory == MetaProcRegListCallees) = false := by decide
  have e14 : (MetaProcEventHistory == MetaProcRegCountCallees) = false := by decide
  have e15 : (MetaProcEventHistory == MetaProcSubList) = false := by decide
  have e16 : (MetaProcEventHistory == MetaProcSubLookup) = false := by decide
  have e17 : (MetaProcEventHistory == MetaProcSubMatch) = false := by decide
  have e18 : (MetaProcEventHistory == MetaProcSubGet) = false := by decide
  have e19 : (MetaProcEventHistory == MetaProcSubListSubscribers) = false := by decide
  have e20 : (MetaProcEventHistory == MetaProcSubCountSubscribers) = false := by decide
  have e21 : (MetaProcEventHistory == MetaProcEventHistory) = true := by decide
  simp only [e1, e2, e3, e4, e5, e6, e7, e8, e9, e10, e11, e12, e13, e14, e15, e16, e17, e18, e19, e20, e21,
    Bool.or_self, Bool.false_eq_true, if_false, if_true]
  rfl

end Nexus.L2.WpA
