/-
  WP-C / C05 (2): what is left of the registration and subscription tables, and of the client
  list, after `Realm.leave k`.

  * every registration left was there before with the same id / procedure / match / policy
    (`leave_regs_sub`), and its callees are the old callees without `k` (`leave_callees`);
  * every subscription left was there before with the same id / topic / match and a sub-list of
    the members; the history stores are untouched (`leave_subs_sub`, `leave_hist`);
  * `clients` after the leave is `clients` without the entries of key `k` (`leave_clients`);
  * session ids are injective in the session key (`sidOf_inj`).
-/
import Nexus.L2.Proofs.WpCLeaveCalls
import Nexus.L2.Proofs.RealmMeta
import Nexus.L2.Proofs.DealerRealmRpc

namespace Nexus.L2
namespace WpC
open Gen.N Realm

/-! ### registrations -/

/-- every registration of `regs'` is one of `regs` up to callees and cursor -/
def RegKeySub (regs regs' : List Reg) : Prop :=
  ∀ g' ∈ regs', ∃ g ∈ regs, g'.id = g.id ∧ g'.proc = g.proc ∧ g'.«match» = g.«match» ∧ g'.policy = g.policy

theorem RegKeySub.refl (l : List Reg) : RegKeySub l l := fun g hg => ⟨g, hg, rfl, rfl, rfl, rfl⟩

theorem RegKeySub.trans {a b c : List Reg} (h1 : RegKeySub a b) (h2 : RegKeySub b c) : RegKeySub a c := by
  intro g hg
  obtain ⟨g1, hg1, e1⟩ := h2 g hg
  obtain ⟨g0, hg0, e0⟩ := h1 g1 hg1
  exact ⟨g0, hg0, e1.1.trans e0.1, e1.2.1.trans e0.2.1, e1.2.2.1.trans e0.2.2.1, e1.2.2.2.trans e0.2.2.2⟩

theorem delCalleeReg_keySub {d d1 : Dealer} {k : SessKey} {id : Nat} {del : Bool}
    (h : d.delCalleeReg k id = some (d1, del)) : RegKeySub d.regs d1.regs := by
  unfold Dealer.delCalleeReg at h
  split at h
  · cases h
  · rename_i reg hreg
    have hm : reg ∈ d.regs := List.mem_of_find?_eq_some hreg
    split at h
    · cases h
    · dsimp only at h
      split at h
      · cases h
        intro g hg
        exact ⟨g, (List.mem_filter.mp hg).1, rfl, rfl, rfl, rfl⟩
      · cases h
        intro g hg
        obtain ⟨g0, hg0, e⟩ := List.mem_map.mp hg
        split at e
        · subst e; exact ⟨reg, hm, rfl, rfl, rfl, rfl⟩
        · subst e; exact ⟨g0, hg0, rfl, rfl, rfl, rfl⟩

theorem removeRegs_keySub (k : SessKey) : ∀ (ids : List Nat) (d : Dealer), RegKeySub d.regs (removeRegs d k ids).1.regs
  | [], d => RegKeySub.refl _
  | id :: ids, d => by
    unfold removeRegs
    cases h : d.delCalleeReg k id with
    | none => exact RegKeySub.refl _
    | some x =>
      obtain ⟨d1, del⟩ := x
      exact (delCalleeReg_keySub h).trans (removeRegs_keySub k ids d1)

theorem syncRemoveSession_regs (env : DEnv) (s : DState) (k : SessKey) :
    (syncRemoveSession env s k).st.d.regs = (removeRegs s.d k ((idxGet s.d.index k).getD [])).1.regs := by
  unfold syncRemoveSession
  dsimp only
  exact ((cancelServed_sub env k _ _).trans (dropCalls_sub k _ _)).regs

theorem syncRemoveSession_keySub (env : DEnv) (s : DState) (k : SessKey) :
    RegKeySub s.d.regs (syncRemoveSession env s k).st.d.regs := by
  rw [syncRemoveSession_regs]
  exact removeRegs_keySub k _ _

theorem reg_kind_eq {g g' : Reg} (h : g'.«match» = g.«match») : g'.kind = g.kind := by
  unfold Reg.kind; rw [h]

/-- every registration left after the departure of `k` was there before under the same id, procedure,
    match and policy -/
theorem leave_regs_sub {r : Realm} {k : SessKey} {s : Session} (mode : LeaveMode)
    (hf : r.clients.find? (fun c => c.key == k) = some s) :
    RegKeySub r.ds.d.regs (r.leave k mode).ds.d.regs := by
  obtain ⟨_, env, he⟩ := leave_tables mode hf
  rw [he]
  exact syncRemoveSession_keySub env r.ds k

/-- … and its callees are the old callees without `k` -/
theorem leave_calleeRel {r : Realm} (hi : RealmInv r) {k : SessKey} {s : Session} (mode : LeaveMode)
    (hf : r.clients.find? (fun c => c.key == k) = some s) (id : Nat) (c : SessKey) :
    calleeRel (r.leave k mode).ds.d.regs id c ↔ calleeRel r.ds.d.regs id c ∧ c ≠ k := by
  obtain ⟨_, env, he⟩ := leave_tables mode hf
  rw [he]
  exact (syncRemoveSession_frame (env := env) hi.dinv k).2.2 id c

theorem reg_eq_of_id {regs : List Reg} {n : Nat} (h : RegsOk regs n) {a b : Reg} (ha : a ∈ regs) (hb : b ∈ regs)
    (e : a.id = b.id) : a = b :=
  nodup_map_inj (f := fun x : Reg => x.id) h.ids ha hb e

theorem reg_eq_of_key {regs : List Reg} {n : Nat} (h : RegsOk regs n) {a b : Reg} (ha : a ∈ regs) (hb : b ∈ regs)
    (e1 : a.proc = b.proc) (e2 : a.kind = b.kind) : a = b :=
  nodup_map_inj (f := fun x : Reg => (x.proc, x.kind)) h.keys ha hb (by rw [e1, e2])


/-- a registration left after the departure of `k` is an old one (same id, procedure, match, policy)
    whose callees are the old callees without `k` -/
theorem leave_reg_frame {r : Realm} (hi : RealmInv r) {k : SessKey} {s : Session} (mode : LeaveMode)
    (hf : r.clients.find? (fun c => c.key == k) = some s) (hi' : RealmInv (r.leave k mode)) :
    ∀ g' ∈ (r.leave k mode).ds.d.regs, ∃ g ∈ r.ds.d.regs, g'.id = g.id ∧ g'.proc = g.proc ∧
      g'.«match» = g.«match» ∧ g'.policy = g.policy ∧ ∀ c, c ∈ g'.callees ↔ c ∈ g.callees ∧ c ≠ k := by
  intro g' hg'
  obtain ⟨g, hg, e1, e2, e3, e4⟩ := leave_regs_sub mode hf g' hg'
  refine ⟨g, hg, e1, e2, e3, e4, fun c => ?_⟩
  have hrel := leave_calleeRel hi mode hf g'.id c
  constructor
  · intro hc
    obtain ⟨⟨g0, hg0, hid, hc0⟩, hne⟩ := hrel.mp ⟨g', hg', rfl, hc⟩
    have : g0 = g := reg_eq_of_id hi.dinv.reg.regs hg0 hg (hid.trans e1)
    exact ⟨this ▸ hc0, hne⟩
  · rintro ⟨hc, hne⟩
    obtain ⟨g1, hg1, hid, hc1⟩ := hrel.mpr ⟨⟨g, hg, e1.symm, hc⟩, hne⟩
    have : g1 = g' := reg_eq_of_id hi'.dinv.reg.regs hg1 hg' hid
    exact this ▸ hc1

/-! ### subscriptions -/

/-- every subscription of `b'` is one of `b` with the same id, topic, match and a sub-list of members -/
def SubKeySub (b b' : Broker) : Prop :=
  ∀ s' ∈ b'.subs, ∃ s ∈ b.subs, s'.id = s.id ∧ s'.topic = s.topic ∧ s'.«match» = s.«match» ∧
    ∀ k', k' ∈ s'.members → k' ∈ s.members

theorem bremove_subs_sub {b : Broker} (hb : BrokerInv b) (k : SessKey) (p : Nat) :
    SubKeySub b (b.syncRemoveSession k p).1 ∧ (b.syncRemoveSession k p).1.hist = b.hist := by
  unfold Broker.syncRemoveSession
  cases hg : idxGet b.index k with
  | none => exact ⟨fun s hs => ⟨s, hs, rfl, rfl, rfl, fun _ h => h⟩, rfl⟩
  | some ids =>
    simp only
    have hids : ids.Nodup := hb.index_wf.ids _ (idxGet_some_mem hg)
    obtain ⟨h1, h2, _, _⟩ := removeMembers_state k ids { b with index := idxDrop b.index k } p hb.ids_nodup hids
    refine ⟨?_, h2⟩
    intro s' hs'
    rw [h1] at hs'
    obtain ⟨s, hs, he⟩ := List.mem_filterMap.mp hs'
    obtain ⟨e1, e2, e3, e4, _⟩ := stripIf_some he
    exact ⟨s, hs, e1, e2, e3, fun k' hk' => ((e4 k').mp hk').1⟩

theorem leave_subs_sub {r : Realm} (hi : RealmInv r) {k : SessKey} {s : Session} (mode : LeaveMode)
    (hf : r.clients.find? (fun c => c.key == k) = some s) :
    SubKeySub r.broker (r.leave k mode).broker ∧ (r.leave k mode).broker.hist = r.broker.hist := by
  obtain ⟨⟨p, hp⟩, _⟩ := leave_tables mode hf
  rw [hp]
  exact bremove_subs_sub hi.binv k p

theorem sub_kind_eq {s s' : Sub} (h : s'.«match» = s.«match») : s'.kind = s.kind := by
  unfold Sub.kind; rw [h]


/-- a subscription left after the departure of `k` is an old one (same id, topic, match) whose members
    are the old members without `k` -/
theorem leave_sub_frame {r : Realm} (hi : RealmInv r) {k : SessKey} {s : Session} (mode : LeaveMode)
    (hf : r.clients.find? (fun c => c.key == k) = some s) (hi' : RealmInv (r.leave k mode)) :
    ∀ s' ∈ (r.leave k mode).broker.subs, ∃ s0 ∈ r.broker.subs, s'.id = s0.id ∧ s'.topic = s0.topic ∧
      s'.«match» = s0.«match» ∧ ∀ c, c ∈ s'.members ↔ c ∈ s0.members ∧ c ≠ k := by
  intro s' hs'
  obtain ⟨s0, hs0, e1, e2, e3, _⟩ := (leave_subs_sub hi mode hf).1 s' hs'
  refine ⟨s0, hs0, e1, e2, e3, fun c => ?_⟩
  obtain ⟨⟨p, hp⟩, _⟩ := leave_tables mode hf
  have hrel : (r.leave k mode).broker.isMember c s'.id ↔ r.broker.isMember c s'.id ∧ c ≠ k := by
    rw [hp]; exact syncRemoveSession_isMember hi.binv k p c s'.id
  constructor
  · intro hc
    obtain ⟨⟨s1, hs1, hid, hc1⟩, hne⟩ := hrel.mp ⟨s', hs', rfl, hc⟩
    have : s1 = s0 := eq_of_id_eq hi.binv.ids_nodup hs1 hs0 (hid.trans e1)
    exact ⟨this ▸ hc1, hne⟩
  · rintro ⟨hc, hne⟩
    obtain ⟨s1, hs1, hid, hc1⟩ := hrel.mpr ⟨⟨s0, hs0, e1.symm, hc⟩, hne⟩
    have : s1 = s' := eq_of_id_eq hi'.binv.ids_nodup hs1 hs' hid
    exact this ▸ hc1

/-! ### clients -/

theorem leaveRemove_clients (r : Realm) (k : SessKey) (quiet : Bool) : (leaveRemove r k quiet).clients = r.clients := by
  unfold leaveRemove
  split
  · extract_lets o
    split
    exact (setPanic_cri _ _).1
  · extract_lets o ra
    split
    rw [(deliver_frame _ _).clients]
    exact (applyD_cri r o).1

/-- the client list after the departure of `k`: the entries with key `k` are removed, nothing else -/
theorem leave_clients (r : Realm) (k : SessKey) (mode : LeaveMode) :
    (r.leave k mode).clients = r.clients.filter (fun c => c.key != k) := by
  cases hf : r.clients.find? (fun c => c.key == k) with
  | none =>
    rw [leave_none mode hf]
    symm
    apply List.filter_eq_self.mpr
    intro c hc
    have := List.find?_eq_none.mp hf c hc
    simpa using this
  | some s =>
    rw [leave_some mode hf]
    have hsk := (find?_key hf).2
    have h4 : ∀ (x : Realm) (t : Option TBucket) (b : Bool), (leaveAnnounce x s t b).clients = x.clients := by
      intro x t b; unfold leaveAnnounce; split <;> rfl
    show (leaveAnnounce _ _ _ _).clients.filter _ = _
    rw [h4, leaveRemove_clients, dtakeTestaments_clients, dleaveSend_clients, hsk]

/-! ### session ids -/

theorem sidOf_inj {a b : Nat} (h : sidOf a = sidOf b) : a = b := by
  unfold sidOf metaKey sidBase at h
  split at h <;> split at h
  · rename_i h1 h2; exact h1.trans h2.symm
  · omega
  · omega
  · exact Nat.add_left_cancel h

theorem sidVal_inj {a b : SessKey} (h : sidVal a = sidVal b) : a = b := by
  unfold sidVal at h
  injection h with h
  exact sidOf_inj (Int.ofNat.inj h)

theorem sidVal_not_mem {k : SessKey} {l : List SessKey} (h : k ∉ l) : sidVal k ∉ l.map sidVal := by
  intro hm
  obtain ⟨c, hc, e⟩ := List.mem_map.mp hm
  exact h (sidVal_inj e ▸ hc)

end WpC
end Nexus.L2
