/-
  WP-E (C20): THE PUBLICATIONS OF THE GHOST TRACE.

  `Rec.pub? x`: the publication the action `x` hands to the broker goroutine, read off the action:
    * the handler of an attached session (external input `.msg k m`, or a message that waited in the
      transport: `inMsg`) reads a PUBLISH that the authorization gate lets through and that
      `broker.publish` accepts — valid topic, no payload passthru without the feature, no disallowed
      `disclose_me` (`pubAccepted`);
    * or the meta session publishes (`metaPub` task: session meta events, registration meta events,
      testaments), with the same acceptance test.
  `acceptedPubs tr`: those of a trace, in order.  Then

    the `.publish` steps among the broker steps of a trace are exactly `acceptedPubs`   (`bsteps_publish`)
    the entries a store of subscription `s` must hold are those accepted publications
      that match `s` and carry neither `exclude` nor `eligible`                         (`retained_trace`)
    an accepted publication of a CLIENT was sent by that client as a PUBLISH input      (`Rec.pub_src`)
-/
import Nexus.L2.Proofs.WpEReplies
import Nexus.L2.Proofs.BrokerHist

namespace Nexus.L2.WpE
open Nexus.L2 Nexus.L2.Realm Gen.N

/-- an accepted publication: the state in which `broker.publish` runs, the publishing session, the PUBLISH contents -/
structure PubRec where
  r : Realm
  s : Session
  opts : Dict
  topic : String
  args : List WVal
  kw : Dict

/-- what is handed to the broker goroutine -/
def PubRec.pub (p : PubRec) : Publication := pubOf p.r p.s p.opts p.topic p.args p.kw

/-- the broker step: `syncPublish` with the realm's session table and clock -/
def PubRec.step (p : PubRec) : BStep := .publish p.r.session? p.r.now p.pub

/-- the id drawn for the publication -/
theorem PubRec.pubId (p : PubRec) : p.pub.pubId = pubBase + p.r.pubCount := rfl

def publishPub (r : Realm) (s : Session) (opts : Dict) (topic : String) (args : List WVal) (kw : Dict) : Option PubRec :=
  if pubAccepted r s opts topic then some ⟨r, s, opts, topic, args, kw⟩ else none

def msgPub (r : Realm) (s : Session) (m : Msg) : Option PubRec :=
  if (authzGate r s m).1 then
    (match m with
     | .publish _ opts topic args kw => publishPub r s opts topic args kw
     | _ => none)
  else none

def recvPub (r : Realm) (k : SessKey) (m : Msg) : Option PubRec :=
  match r.clients.find? (fun c => c.key == k) with
  | none => none
  | some s => if r.ending.contains k then none else if r.busy k then none else msgPub r s m

/-- the publication the action hands to the broker goroutine, if any -/
def Rec.pub? (x : Rec) : Option PubRec :=
  match x.act with
  | .op (.msg k m) => recvPub x.pre k m
  | .task (.inMsg k m) => recvPub { x.pre with tasks := x.pre.tasks.tail } k m
  | .task (.metaMsg m) => msgPub { x.pre with tasks := x.pre.tasks.tail } x.pre.metaS m
  | .task (.metaPub p) => publishPub { x.pre with tasks := x.pre.tasks.tail } x.pre.metaS p.opts p.topic p.args p.kw
  | _ => none

/-- the accepted publications of a trace, in order -/
def acceptedPubs (tr : List Rec) : List PubRec := tr.filterMap Rec.pub?

/-! ### the publish steps of a script -/

def pubSteps (sc : Script) : List BStep := sc.bsteps.filter BStep.isPublish

theorem pubSteps_publishScript (r : Realm) (s : Session) (req : Nat) (opts : Dict) (topic : String) (args : List WVal)
    (kw : Dict) : pubSteps (publishScript r s req opts topic args kw) =
      ((publishPub r s opts topic args kw).map PubRec.step).toList := by
  unfold publishScript publishPub pubSteps
  split
  · rfl
  · split
    · rfl
    · split <;> rfl

theorem pubSteps_dispatchScript (r : Realm) (s : Session) (m : Msg) :
    pubSteps (dispatchScript r s m) =
      ((match m with
        | .publish _ opts topic args kw => publishPub r s opts topic args kw
        | _ => none).map PubRec.step).toList := by
  cases m
  case publish => exact pubSteps_publishScript ..
  case subscribe req opts topic =>
    show pubSteps (subscribeScript r s req opts topic) = _
    unfold subscribeScript pubSteps
    split <;> rfl
  case register req opts proc =>
    show pubSteps (registerScript r s req opts proc) = _
    unfold registerScript pubSteps
    split <;> rfl
  case cancel req opts =>
    show pubSteps (cancelScript r s req opts) = _
    unfold cancelScript pubSteps
    split <;> rfl
  case error typ req details err args kw =>
    show pubSteps (if typ != tINVOCATION then ({} : Script) else dealerScript r (syncError r.ds s.key req details err args kw)) = _
    unfold pubSteps
    split <;> rfl
  all_goals rfl

theorem pubSteps_msgScript (r : Realm) (s : Session) (m : Msg) :
    pubSteps (msgScript r s m) = ((msgPub r s m).map PubRec.step).toList := by
  unfold msgScript msgPub
  split
  · exact pubSteps_dispatchScript r s m
  · rfl

theorem pubSteps_recvScript (r : Realm) (k : SessKey) (m : Msg) :
    pubSteps (recvScript r k m) = ((recvPub r k m).map PubRec.step).toList := by
  unfold recvScript recvPub
  cases r.clients.find? (fun c => c.key == k) with
  | none => rfl
  | some s =>
    dsimp only
    split
    · rfl
    · split
      · rfl
      · exact pubSteps_msgScript r s m

/-- THE PUBLISH STEP OF AN ACTION is the step of its accepted publication (none if it has none) -/
theorem Rec.publish_steps (x : Rec) : pubSteps x.script = (x.pub?.map PubRec.step).toList := by
  obtain ⟨r, a⟩ := x
  cases a with
  | op o =>
    cases o with
    | msg k m => exact pubSteps_recvScript r k m
    | _ => rfl
  | task t =>
    cases t with
    | metaPub p => exact pubSteps_publishScript ..
    | metaInvoke req reg details args kw => rfl
    | metaMsg m => exact pubSteps_msgScript { r with tasks := r.tasks.tail } _ m
    | leave k mode =>
      show pubSteps (if ({ r with tasks := r.tasks.tail } : Realm).busy k then {} else
        leaveScript { r with tasks := r.tasks.tail } k mode) = _
      split
      · rfl
      · unfold leaveScript pubSteps
        split <;> rfl
    | inMsg k m => exact pubSteps_recvScript { r with tasks := r.tasks.tail } k m
  | timer t => rfl
  | retry y => rfl
  | flush => rfl
  | clock t => rfl
  | fuel text => rfl

/-- THE PUBLISH STEPS OF A TRACE ARE EXACTLY ITS ACCEPTED PUBLICATIONS, in order -/
theorem bsteps_publish (tr : List Rec) : (bstepsOf tr).filter BStep.isPublish = (acceptedPubs tr).map PubRec.step := by
  induction tr with
  | nil => rfl
  | cons x tr ih =>
    show (x.script.bsteps ++ bstepsOf tr).filter BStep.isPublish = _
    rw [List.filter_append, ih]
    have := x.publish_steps
    unfold pubSteps at this
    rw [this]
    unfold acceptedPubs
    rw [List.filterMap_cons]
    cases x.pub? with
    | none => rfl
    | some p => rfl

/-! ### what a store must hold -/

theorem retained_filter (s : Sub) : ∀ steps : List BStep, retained s steps = retained s (steps.filter BStep.isPublish)
  | [] => rfl
  | e :: rest => by
    cases e with
    | publish sess now p =>
      rw [List.filter_cons]
      simp only [BStep.isPublish, if_true, retained]
      rw [retained_filter s rest]
    | subscribe k req topic m pub0 =>
      rw [List.filter_cons]
      simp only [BStep.isPublish, Bool.false_eq_true, if_false, retained]
      exact retained_filter s rest
    | unsubscribe k req subId pub0 =>
      rw [List.filter_cons]
      simp only [BStep.isPublish, Bool.false_eq_true, if_false, retained]
      exact retained_filter s rest
    | removeSession k pub0 =>
      rw [List.filter_cons]
      simp only [BStep.isPublish, Bool.false_eq_true, if_false, retained]
      exact retained_filter s rest

/-- the entry a store of subscription `s` keeps for the accepted publication `p`: none unless the topic matches `s`
    under its policy and the options contain neither `exclude` nor `eligible` -/
def PubRec.retained? (s : Sub) (p : PubRec) : Option HistEntry :=
  if s.matchesTopic p.topic && !p.opts.contains "exclude" && !p.opts.contains "eligible"
  then some (retainedEntry s p.r.now p.pub) else none

theorem retained_pubs (s : Sub) : ∀ ps : List PubRec, retained s (ps.map PubRec.step) = ps.filterMap (PubRec.retained? s)
  | [] => rfl
  | p :: ps => by
    simp only [List.map_cons, PubRec.step, retained, List.filterMap_cons, PubRec.retained?]
    have e1 : p.pub.topic = p.topic := rfl
    have e2 : p.pub.opts = p.opts := rfl
    rw [e1, e2]
    split
    · rw [retained_pubs s ps]
    · exact retained_pubs s ps

/-- THE GHOST HISTORY OF A STORE along a trace: the accepted publications that match the subscription and are not
    restricted by `exclude` / `eligible`, as the entries the store must hold, in order -/
theorem retained_trace (s : Sub) (tr : List Rec) :
    retained s (bstepsOf tr) = (acceptedPubs tr).filterMap (PubRec.retained? s) := by
  rw [retained_filter, bsteps_publish, retained_pubs]

/-! ### an accepted publication of a client was sent by that client -/

theorem publishPub_some {r : Realm} {s : Session} {opts : Dict} {topic : String} {args : List WVal} {kw : Dict}
    {p : PubRec} (h : publishPub r s opts topic args kw = some p) :
    p = ⟨r, s, opts, topic, args, kw⟩ ∧ pubAccepted r s opts topic = true := by
  unfold publishPub at h
  split at h
  · simp only [Option.some.injEq] at h
    exact ⟨h.symm, ‹_›⟩
  · cases h

theorem msgPub_some {r : Realm} {s : Session} {m : Msg} {p : PubRec} (h : msgPub r s m = some p) :
    (authzGate r s m).1 = true ∧ p.r = r ∧ p.s = s ∧ pubAccepted r s p.opts p.topic = true ∧
    ∃ req, m = .publish req p.opts p.topic p.args p.kw := by
  unfold msgPub at h
  split at h
  · rename_i hg
    split at h
    · obtain ⟨rfl, hacc⟩ := publishPub_some h
      exact ⟨hg, rfl, rfl, hacc, _, rfl⟩
    · cases h
  · cases h

theorem recvPub_some {r : Realm} {k : SessKey} {m : Msg} {p : PubRec} (h : recvPub r k m = some p) :
    r.clients.find? (fun c => c.key == k) = some p.s ∧ r.ending.contains k = false ∧ r.busy k = false ∧
    (authzGate r p.s m).1 = true ∧ p.r = r ∧ pubAccepted r p.s p.opts p.topic = true ∧
    ∃ req, m = .publish req p.opts p.topic p.args p.kw := by
  unfold recvPub at h
  split at h
  · cases h
  · rename_i s hf
    split at h
    · cases h
    · rename_i he
      split at h
      · cases h
      · rename_i hb
        obtain ⟨h1, h2, h3, h4, h5⟩ := msgPub_some h
        subst h3
        exact ⟨hf, by simpa using he, by simpa using hb, h1, h2, h4, h5⟩

/-- WHERE AN ACCEPTED PUBLICATION COMES FROM: the handler of the attached session `p.s` reads the PUBLISH (brought by
    an external input or having waited in the transport), not ending, not busy, the gate lets it through and
    `broker.publish` accepts it — or the meta session publishes a meta event / testament -/
theorem Rec.pub_spec (x : Rec) {p : PubRec} (h : x.pub? = some p) :
    pubAccepted p.r p.s p.opts p.topic = true ∧ p.r.broker = x.pre.broker ∧ p.r.pubCount = x.pre.pubCount ∧
    p.r.now = x.pre.now ∧ p.r.session? = x.pre.session? ∧
    ((∃ k m req, (x.act = .op (.msg k m) ∨ x.act = .task (.inMsg k m)) ∧ m = .publish req p.opts p.topic p.args p.kw ∧
        x.pre.clients.find? (fun c => c.key == k) = some p.s ∧ (authzGate p.r p.s m).1 = true) ∨
     (∃ mp, x.act = .task (.metaPub mp) ∧ p.s = x.pre.metaS ∧ p.opts = mp.opts ∧ p.topic = mp.topic ∧
        p.args = mp.args ∧ p.kw = mp.kw) ∨
     (∃ m, x.act = .task (.metaMsg m) ∧ p.s = x.pre.metaS)) := by
  obtain ⟨r, a⟩ := x
  unfold Rec.pub? at h
  dsimp only at h
  split at h
  · rename_i k m
    obtain ⟨h1, _, _, h4, h5, h6, req, h7⟩ := recvPub_some h
    refine ⟨by rw [h5]; exact h6, by rw [h5], by rw [h5], by rw [h5], by rw [h5],
      Or.inl ⟨k, m, req, Or.inl rfl, h7, h1, by rw [h5]; exact h4⟩⟩
  · rename_i k m
    obtain ⟨h1, _, _, h4, h5, h6, req, h7⟩ := recvPub_some h
    refine ⟨by rw [h5]; exact h6, by rw [h5], by rw [h5], by rw [h5], by rw [h5]; rfl,
      Or.inl ⟨k, m, req, Or.inr rfl, h7, h1, by rw [h5]; exact h4⟩⟩
  · rename_i m
    obtain ⟨_, h2, h3, h4, _⟩ := msgPub_some h
    exact ⟨by rw [h2, h3]; exact h4, by rw [h2], by rw [h2], by rw [h2], by rw [h2]; rfl, Or.inr (Or.inr ⟨m, rfl, h3⟩)⟩
  · rename_i mp
    obtain ⟨rfl, hacc⟩ := publishPub_some h
    exact ⟨hacc, rfl, rfl, rfl, rfl, Or.inr (Or.inl ⟨mp, rfl, rfl, rfl, rfl, rfl, rfl⟩)⟩
  · cases h

/-- an accepted publication of a CLIENT in a well-formed trace: the PUBLISH was brought by an external input, or it
    waited in the transport (`TasksOk P`) -/
theorem Rec.pub_src {P : SessKey → Msg → Prop} (x : Rec) (hw : x.wf) (ht : TasksOk P x.pre)
    (hop : ∀ k m, x.act = .op (.msg k m) → P k m) {p : PubRec} (h : x.pub? = some p)
    (hc : ∃ k m, x.act = .op (.msg k m) ∨ x.act = .task (.inMsg k m)) :
    ∃ req, P p.s.key (.publish req p.opts p.topic p.args p.kw) := by
  obtain ⟨_, _, _, _, _, hsrc⟩ := x.pub_spec h
  rcases hsrc with ⟨k, m, req, hact, rfl, hf, _⟩ | ⟨mp, hact, _⟩ | ⟨m, hact, _⟩
  · have hk : p.s.key = k := (find?_key hf).2
    rcases hact with hact | hact
    · exact ⟨req, hk ▸ hop k _ hact⟩
    · have hh := hw _ hact
      have hmem : Task.inMsg k (.publish req p.opts p.topic p.args p.kw) ∈ x.pre.tasks := by
        cases hl : x.pre.tasks with
        | nil => rw [hl] at hh; cases hh
        | cons a l =>
          rw [hl] at hh
          simp only [List.head?_cons, Option.some.injEq] at hh
          subst hh; exact List.mem_cons_self ..
      exact ⟨req, hk ▸ ht.tasks _ hmem⟩
  · obtain ⟨k, m, hk | hk⟩ := hc <;> rw [hact] at hk <;> cases hk
  · obtain ⟨k, m, hk | hk⟩ := hc <;> rw [hact] at hk <;> cases hk

end Nexus.L2.WpE
