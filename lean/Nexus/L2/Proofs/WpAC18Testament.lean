/-
  Work package A / C18: what happens to a queued meta publication (testament, on_join, on_leave,
  registration meta events) when its task runs: published through the meta session exactly as
  requested — or dropped silently (invalid topic; disclose_me in a realm that disallows it).
  Also: the meta topics are valid URIs, so the router's own meta publications are never dropped.
-/
import Nexus.L2.Proofs.RealmPublish
import Nexus.L2.Proofs.WpAC18MetaS

namespace Nexus.L2.Realm.WpA
open Nexus.L2 Nexus.L2.Realm Nexus.Gen.N

/-- a reply addressed to the meta session that is not an INVOCATION is ignored by `trySend` -/
theorem trySend_meta_ignored (r : Realm) (s : Send) (h : s.to = metaKey)
    (hm : ∀ a b c d e, s.msg ≠ .invocation a b c d e) : r.trySend s = r := by
  unfold trySend
  rw [if_pos h]
  split
  · rename_i a b c d e he; exact absurd he (hm a b c d e)
  · rfl

/-- the acknowledgement (PUBLISHED or ERROR) of a publication by the meta session changes nothing -/
theorem deliver_ack_meta (r : Realm) (opts : Dict) (x : Send) (h : x.to = metaKey)
    (hm : ∀ a b c d e, x.msg ≠ .invocation a b c d e) : r.deliver (ackList opts x) = r := by
  unfold ackList
  split
  · rw [deliver_cons, deliver_nil, trySend_meta_ignored r x h hm]
  · rfl

/-- a publisher that announced the payload-passthru feature is never refused for using it -/
theorem pptRefused_of_feature (s : Session) (opts : Dict)
    (h : s.hasFeature RolePublisher FeaturePayloadPassthruMode = true) : pptRefused s opts = false := by
  unfold pptRefused; rw [h]; simp

/-- the task of a meta publication IS the meta session's PUBLISH (request id 0) -/
theorem runTask_metaPub_eq (r : Realm) (p : MetaPub) :
    r.runTask (.metaPub p) = r.metaPublish p ∧
    r.metaPublish p = handlePublish r r.metaS 0 p.opts p.topic p.args p.kw := ⟨rfl, rfl⟩

/-- PUBLISHED: valid topic, disclosure not refused → one publication id is drawn, the broker publishes
    exactly the publication `pubOf r r.metaS opts topic args kw`, its EVENTs are delivered; an
    `acknowledge` option changes nothing (the PUBLISHED goes to the meta session, which ignores it). -/
theorem metaPublish_ok (r : Realm) (p : MetaPub) (hk : r.metaS.key = metaKey)
    (hf : r.metaS.hasFeature RolePublisher FeaturePayloadPassthruMode = true)
    (hv : validUri r.broker.strict "" p.topic = true) (hd : discloseRefused r p.opts = false) :
    r.metaPublish p =
      ({ r with pubCount := r.pubCount + 1,
                broker := (r.broker.syncPublish r.session? r.now (pubOf r r.metaS p.opts p.topic p.args p.kw)).1 } : Realm).deliver
        (r.broker.syncPublish r.session? r.now (pubOf r r.metaS p.opts p.topic p.args p.kw)).2 := by
  unfold metaPublish
  rw [handlePublish_ok r r.metaS 0 p.opts p.topic p.args p.kw hv (pptRefused_of_feature _ _ hf) hd, deliver_append,
    deliver_ack_meta _ _ _ hk (by intro _ _ _ _ _ h; cases h)]

/-- DROPPED, nobody is told: invalid topic (with or without `acknowledge`) → state unchanged -/
theorem metaPublish_invalid (r : Realm) (p : MetaPub) (hk : r.metaS.key = metaKey)
    (hv : validUri r.broker.strict "" p.topic = false) : r.metaPublish p = r := by
  unfold metaPublish
  rw [handlePublish_invalid r r.metaS 0 p.opts p.topic p.args p.kw hv,
    deliver_ack_meta _ _ _ hk (by intro _ _ _ _ _ h; cases h)]

/-- DROPPED, nobody is told: `disclose_me` requested in a realm that disallows disclosure → state unchanged -/
theorem metaPublish_refused (r : Realm) (p : MetaPub) (hk : r.metaS.key = metaKey)
    (hf : r.metaS.hasFeature RolePublisher FeaturePayloadPassthruMode = true)
    (hv : validUri r.broker.strict "" p.topic = true) (hd : discloseRefused r p.opts = true) :
    r.metaPublish p = r := by
  unfold metaPublish
  rw [handlePublish_refused r r.metaS 0 p.opts p.topic p.args p.kw hv (pptRefused_of_feature _ _ hf) hd,
    deliver_ack_meta _ _ _ hk (by intro _ _ _ _ _ h; cases h)]

/-- the three cases are exhaustive: a meta publication never aborts the meta session, never queues a task,
    never ends a session -/
theorem metaPublish_cases (r : Realm) (p : MetaPub) (hk : r.metaS.key = metaKey)
    (hf : r.metaS.hasFeature RolePublisher FeaturePayloadPassthruMode = true) :
    r.metaPublish p = r ∨
    (validUri r.broker.strict "" p.topic = true ∧ discloseRefused r p.opts = false ∧
     r.metaPublish p =
      ({ r with pubCount := r.pubCount + 1,
                broker := (r.broker.syncPublish r.session? r.now (pubOf r r.metaS p.opts p.topic p.args p.kw)).1 } : Realm).deliver
        (r.broker.syncPublish r.session? r.now (pubOf r r.metaS p.opts p.topic p.args p.kw)).2) := by
  cases hv : validUri r.broker.strict "" p.topic with
  | false => exact Or.inl (metaPublish_invalid r p hk hv)
  | true =>
    cases hd : discloseRefused r p.opts with
    | true => exact Or.inl (metaPublish_refused r p hk hf hv hd)
    | false => exact Or.inr ⟨rfl, rfl, metaPublish_ok r p hk hf hv hd⟩

/-- what the publication of a meta publication looks like: the meta session is the publisher (key 0, its
    details), the options / topic / arguments are the requested ones, and the payload-passthru keys of the
    options are copied into the EVENT details iff `ppt_scheme` is given -/
theorem pubOf_meta (r : Realm) (opts : Dict) (topic : String) (args : List WVal) (kw : Dict) :
    (pubOf r r.metaS opts topic args kw).publisher = r.metaS.key ∧
    (pubOf r r.metaS opts topic args kw).pubDetails = r.metaS.details ∧
    (pubOf r r.metaS opts topic args kw).topic = topic ∧
    (pubOf r r.metaS opts topic args kw).args = args ∧
    (pubOf r r.metaS opts topic args kw).kw = kw ∧
    (pubOf r r.metaS opts topic args kw).opts = opts ∧
    (pubOf r r.metaS opts topic args kw).pubId = pubBase + r.pubCount ∧
    (pubOf r r.metaS opts topic args kw).disclose = opts.optFlag OptDiscloseMe ∧
    (pptScheme opts = "" → (pubOf r r.metaS opts topic args kw).baseDetails = []) ∧
    (pptScheme opts ≠ "" → (pubOf r r.metaS opts topic args kw).baseDetails = pptInto opts []) := by
  refine ⟨rfl, rfl, rfl, rfl, rfl, rfl, rfl, rfl, ?_, ?_⟩
  · intro h; unfold pubOf; simp [h]
  · intro h; unfold pubOf; simp [h]

/-! ### the queues afterwards: exactly the EVENTs of C01 for that publication -/

/-- after a published meta publication the queue of every attached client `k` is its old queue offered
    (bounded by its capacity) exactly the EVENTs the broker computed for `k`; through each subscription `s`
    those are `deliveryOf` (C01: one EVENT iff `s` matches, `k` is a member and not ruled out by the
    publication's options) -/
theorem metaPublish_queue (r : Realm) (p : MetaPub) (hk : r.metaS.key = metaKey)
    (hf : r.metaS.hasFeature RolePublisher FeaturePayloadPassthruMode = true)
    (hv : validUri r.broker.strict "" p.topic = true) (hd : discloseRefused r p.opts = false)
    (k : SessKey) (c : Session) (hne : k ≠ metaKey) (hc : r.client? k = some c) :
    (r.metaPublish p).queueOf k =
      accept c.cap (r.queueOf k)
        (msgsTo k (r.broker.syncPublish r.session? r.now (pubOf r r.metaS p.opts p.topic p.args p.kw)).2) ∧
    (BrokerInv r.broker → ∀ s ∈ r.broker.subs,
      through (r.broker.syncPublish r.session? r.now (pubOf r r.metaS p.opts p.topic p.args p.kw)).2 k s.id =
        deliveryOf r.session? (pubOf r r.metaS p.opts p.topic p.args p.kw) s k) := by
  refine ⟨?_, fun hb s hs => through_syncPublish_eq_deliveryOf hb _ _ _ hs k⟩
  rw [metaPublish_ok r p hk hf hv hd]
  exact queueOf_deliver_client _ _ k c hne hc

/-! ### meta topics are valid URIs (strict or loose), so the router's own meta publications are never
    dropped for URI reasons -/

theorem metaTopics_valid (strict : Bool) :
    validUri strict "" MetaEventSessionOnJoin = true ∧ validUri strict "" MetaEventSessionOnLeave = true ∧
    validUri strict "" MetaEventSubOnCreate = true ∧ validUri strict "" MetaEventSubOnSubscribe = true ∧
    validUri strict "" MetaEventSubOnUnsubscribe = true ∧ validUri strict "" MetaEventSubOnDelete = true ∧
    validUri strict "" MetaEventRegOnCreate = true ∧ validUri strict "" MetaEventRegOnRegister = true ∧
    validUri strict "" MetaEventRegOnUnregister = true ∧ validUri strict "" MetaEventRegOnDelete = true := by
  cases strict <;> decide +kernel

end Nexus.L2.Realm.WpA
