/-
  The URI functions used by the L2 realm model (Nexus.L2.Uri) are, on byte
  strings, the functions characterised in C19 (Nexus.Uri.*), which are proved
  there to be what the regular expressions regenerated from wamp/identifier.go
  accept.  So `validUriBytes` is `ValidURI` of the source, for every byte string.
-/
import Nexus.L2.Uri
import Nexus.Uri.Rule
import Nexus.Uri.Match
import Nexus.Props.C19

namespace Nexus.L2

theorem splitDots_eq (u : List UInt8) : splitDots u = Nexus.Uri.splitDot u := by
  induction u with
  | nil => rfl
  | cons c cs ih =>
    simp only [splitDots, Nexus.Uri.splitDot, Nexus.Uri.splitAux]
    rw [ih]
    by_cases h : c = 46
    · subst h
      simp [Nexus.Uri.dot, Nexus.Uri.splitDot]
    · have h' : ¬ c = Nexus.Uri.dot := by simpa [Nexus.Uri.dot] using h
      simp [h, h', Nexus.Uri.splitDot]

theorem dec_eq_beq (a b : UInt8) : decide (a = b) = (a == b) := by
  by_cases h : a = b <;> simp [h]

theorem looseByte_eq (c : UInt8) : looseByte c = Nexus.Uri.looseByte c := by
  simp [looseByte, Nexus.Uri.looseByte, dec_eq_beq]

theorem strictByte_eq (c : UInt8) : strictByte c = Nexus.Uri.strictByte c := by
  simp [strictByte, Nexus.Uri.strictByte, dec_eq_beq]

theorem compOk_eq (strict : Bool) (p : List UInt8) :
    compOk strict p = p.all (Nexus.Uri.okByte strict) := by
  cases strict
  · have : (fun c => looseByte c) = Nexus.Uri.okByte false := by
      funext c; simp [Nexus.Uri.okByte, looseByte_eq]
    simp [compOk, ← this]
  · have : (fun c => strictByte c) = Nexus.Uri.okByte true := by
      funext c; simp [Nexus.Uri.okByte, strictByte_eq]
    simp [compOk, ← this]

def policyOfKind : MatchKind → Nexus.Uri.Policy
  | .exact => .nonEmpty
  | .pfx => .lastEmpty
  | .wild => .anyEmpty

theorem allNonEmpty_eq (l : List (List UInt8)) : allNonEmpty l = l.all (fun c => !c.isEmpty) := by
  induction l with
  | nil => rfl
  | cons p ps ih => simp [allNonEmpty, ih]

theorem initNonEmpty_eq (l : List (List UInt8)) : initNonEmpty l = l.dropLast.all (fun c => !c.isEmpty) := by
  induction l with
  | nil => rfl
  | cons p ps ih =>
    cases ps with
    | nil => simp [initNonEmpty]
    | cons q qs => simp [initNonEmpty, ih, List.dropLast]

/-- the L2 model's validity test is C19's executable rule -/
theorem validUriBytes_eq_ruleB (strict : Bool) (k : MatchKind) (u : List UInt8) :
    validUriBytes strict k u = Nexus.Uri.ruleB strict (policyOfKind k) u := by
  unfold validUriBytes Nexus.Uri.ruleB
  simp only [splitDots_eq]
  have h : (Nexus.Uri.splitDot u).all (compOk strict) =
      (Nexus.Uri.splitDot u).all (fun c => c.all (Nexus.Uri.okByte strict)) := by
    congr 1; funext p; exact compOk_eq strict p
  rw [h]
  cases k <;> simp [policyOfKind, allNonEmpty_eq, initNonEmpty_eq]

/-- … hence, by C19's theorems, exactly what the regenerated regular expression of that
    (strict, policy) accepts. -/
theorem validUriBytes_iff_regex (strict : Bool) (k : MatchKind) (u : List UInt8) :
    validUriBytes strict k u = true ↔
      Nexus.Uri.Regex.Matches (Nexus.Uri.regexFor strict (policyOfKind k)) u := by
  rw [validUriBytes_eq_ruleB, Nexus.C19.ruleB_iff_rule, ← Nexus.C19.regexFor_iff_rule]

theorem isPrefixOf_eq (p u : List UInt8) : isPrefixOf p u = p.isPrefixOf u := by
  induction p generalizing u with
  | nil => simp [isPrefixOf]
  | cons a as ih =>
    cases u with
    | nil => simp [isPrefixOf]
    | cons b bs => simp [isPrefixOf, ih, List.isPrefixOf, dec_eq_beq]

/-- the model's prefix test is `strings.HasPrefix` as characterised in C19 -/
theorem isPrefixOf_iff (p u : List UInt8) : isPrefixOf p u = true ↔ ∃ t, u = p ++ t := by
  rw [isPrefixOf_eq]
  exact Nexus.C19.prefixMatch_iff u p

theorem wildParts_eq : ∀ (ws ps : List (List UInt8)),
    wildParts ws ps = (decide (ps.length = ws.length) && Nexus.Uri.wildLoop ws ps)
  | [], [] => by simp [wildParts, Nexus.Uri.wildLoop]
  | [], _ :: _ => by simp [wildParts]
  | _ :: _, [] => by simp [wildParts]
  | w :: ws, p :: ps => by
    simp only [wildParts, Nexus.Uri.wildLoop, wildParts_eq ws ps, List.length_cons]
    by_cases hw : w = []
    · subst hw; simp
    · by_cases hp : w = p
      · subst hp; simp [hw]
      · simp [hw, hp]

/-- the model's wildcard test is `WildcardMatch` as characterised in C19 -/
theorem wildParts_splitDots (u w : List UInt8) :
    wildParts (splitDots w) (splitDots u) = Nexus.Uri.wildcardMatch u w := by
  rw [wildParts_eq, splitDots_eq, splitDots_eq]
  unfold Nexus.Uri.wildcardMatch
  by_cases h : (Nexus.Uri.splitDot u).length = (Nexus.Uri.splitDot w).length <;> simp [h]

end Nexus.L2
