/-
  Work package C: the control-field effect (`Eff`, WpCBase.lean) of the remaining atomic actions of the
  realm model — the departure of a session (`leave`), a meta-procedure invocation (`metaInvoke`), a call
  timeout (`timerDue`) — and the `drain` induction principle.
-/
import Nexus.L2.Proofs.WpCBase
import Nexus.L2.Proofs.RealmMeta

namespace Nexus.L2.WpC
open Nexus.L2 Nexus.L2.Realm Nexus.Gen.N

variable {P : SessKey → Prop} {Q : Retry → Prop}

theorem app_nil_of_eq {α : Type} {p : α → Prop} {l l' : List α} (h : l' = l) : ∃ e, l' = l ++ e ∧ ∀ x ∈ e, p x :=
  ⟨[], by rw [h]; simp, fun _ h => nomatch h⟩

theorem setPanic_some_ne_none (r : Realm) (m : String) : (r.setPanic (some m)).panic ≠ none := by
  unfold setPanic
  cases hp : r.panic with
  | none => simp
  | some p => simp [hp]

/-- a record update that touches none of the control fields -/
theorem eff_tables (r : Realm) (b : Broker) (d : DState) (n : Nat) (tst : List (SessKey × TBucket)) :
    Eff P Q r { r with broker := b, ds := d, pubCount := n, testaments := tst } :=
  ⟨rfl, rfl, rfl, rfl, rfl, rfl, rfl, rfl, rfl, ⟨[], by simp, fun _ h => nomatch h⟩,
   ⟨[], by simp, fun _ h => nomatch h⟩, ⟨[], by simp, fun _ h => nomatch h⟩, ⟨[], by simp, fun _ h => nomatch h⟩⟩

theorem eff_addTasks (r : Realm) (ts : List Task) (h : ∀ t ∈ ts, NewTask P t) : Eff P Q r (r.addTasks ts) :=
  ⟨rfl, rfl, rfl, rfl, rfl, rfl, rfl, rfl, rfl, app_nil_of_eq rfl, app_nil_of_eq rfl, ⟨ts, rfl, h⟩, app_nil_of_eq rfl⟩

/-! ### the stages of `Realm.leave` -/

theorem eff_leaveSend (r : Realm) (k : SessKey) (mode : LeaveMode) : Eff P Q r (leaveSend r k mode) := by
  cases mode <;> first | exact eff_trySend _ _ | exact Eff.refl _

theorem eff_takeTestaments (r : Realm) (k : SessKey) : Eff P Q r (r.takeTestaments k).2 := by
  unfold takeTestaments
  split
  · exact eff_tables r r.broker r.ds r.pubCount _
  · exact Eff.refl _

theorem eff_leaveRemove (r : Realm) (k : SessKey) (quiet : Bool) : Eff P Q r (leaveRemove r k quiet) := by
  unfold leaveRemove
  split
  · extract_lets o
    split
    rename_i b x1 x2 heq
    exact (eff_tables r b o.st r.pubCount r.testaments).trans (eff_setPanic _ _)
  · extract_lets o ra
    have h1 : Eff P Q r ra := eff_applyD _ _ (by
      intro j hj
      have : o.aborts = [] := syncRemoveSession_aborts ..
      rw [this] at hj; cases hj)
    split
    exact h1.trans (eff_brokerStep _ _ _ _)

theorem eff_leaveAnnounce (r : Realm) (s : Session) (tst : Option TBucket) (silent : Bool) :
    Eff P Q r (leaveAnnounce r s tst silent) := by
  unfold leaveAnnounce
  split
  · exact Eff.refl _
  · refine eff_addTasks _ _ ?_
    intro t ht
    rcases List.mem_append.mp ht with h | h
    · unfold testamentTasks at h
      split at h
      · obtain ⟨x, _, rfl⟩ := List.mem_map.mp h; trivial
      · cases h
    · rw [List.mem_singleton.mp h]; trivial

/-- The departure of an attached session `k` (any mode), control fields: up to the final `sess.Close()`
    it appends `metaPub` / `metaInvoke` tasks and NOTHING else — no session is ended, no retry, nothing
    deferred; then `k` is taken out of `clients` and `ending`. -/
theorem leave_eff {r : Realm} {k : SessKey} {s : Session} (mode : LeaveMode)
    (hf : r.clients.find? (fun c => c.key == k) = some s) :
    ∃ r4, Eff P Q r r4 ∧ r.leave k mode = leaveClose r4 s :=
  ⟨_, (eff_leaveSend r k mode).trans ((eff_takeTestaments _ k).trans ((eff_leaveRemove _ k _).trans
    (eff_leaveAnnounce _ s _ _))), leave_some mode hf⟩

/-- the control fields after `leave` -/
theorem leave_ctl {r : Realm} {k : SessKey} {s : Session} (mode : LeaveMode)
    (hf : r.clients.find? (fun c => c.key == k) = some s) :
    (r.leave k mode).cfg = r.cfg ∧ (r.leave k mode).metaProcs = r.metaProcs ∧ (r.leave k mode).metaS = r.metaS ∧
    (r.leave k mode).now = r.now ∧ (r.leave k mode).deferred = r.deferred ∧ (r.leave k mode).retries = r.retries ∧
    (r.leave k mode).inbox = r.inbox ∧
    (r.leave k mode).clients = r.clients.filter (fun c => c.key != k) ∧
    (r.leave k mode).ending = r.ending.filter (· != k) ∧
    (∃ ts, (r.leave k mode).tasks = r.tasks ++ ts ∧ ∀ t ∈ ts, NewTask (fun _ => False) t) := by
  obtain ⟨r4, h, e⟩ := leave_eff (P := fun _ => False) (Q := fun _ => False) mode hf
  have hk : s.key = k := (find?_key hf).2
  obtain ⟨ib, hib, pib⟩ := h.inbox
  obtain ⟨en, hen, pen⟩ := h.ending
  obtain ⟨xs, hxs, pxs⟩ := h.retries
  have ib0 : ib = [] := by cases ib with | nil => rfl | cons a _ => exact absurd (pib a (List.mem_cons_self ..)) id
  have en0 : en = [] := by cases en with | nil => rfl | cons a _ => exact absurd (pen a (List.mem_cons_self ..)) id
  have xs0 : xs = [] := by cases xs with | nil => rfl | cons a _ => exact absurd (pxs a (List.mem_cons_self ..)) id
  rw [e]
  refine ⟨h.cfg, h.metaProcs, h.metaS, h.now, h.deferred, ?_, ?_, ?_, ?_, h.tasks⟩
  · show r4.retries = _; rw [hxs, xs0]; simp
  · show r4.inbox = _; rw [hib, ib0]; simp
  · show r4.clients.filter _ = _; rw [h.clients, hk]
  · show r4.ending.filter _ = _; rw [hen, en0, hk]; simp

/-! ### meta-procedure invocations -/

/-- the answers of the meta-procedure handler, exactly: `YIELD` with EMPTY options, or `ERROR` of type INVOCATION -/
def cleanAnswer : Msg → Bool
  | .yield _ opts _ _ => opts.isEmpty
  | .error typ _ _ _ _ _ => typ == tINVOCATION
  | _ => false

theorem metaProc_clean (r : Realm) (proc : String) (req : Nat) (details : Dict) (args : List WVal) (kw : Dict) :
    cleanAnswer (metaProc r proc req details args kw).1 = true := by
  unfold metaProc
  extract_lets +onlyGivenNames caller reason message badReason
  clear_value caller reason message badReason
  repeat' (first
    | (refine ite_cases (Q := fun x => cleanAnswer (Prod.fst x) = true) (fun _ => ?_) (fun _ => ?_))
    | split
    | dsimp only)
  all_goals rfl

/-- what running a `metaInvoke` task does to the control fields: possibly some attached, not yet ending
    sessions are told to end (`kill*`), one answer of the meta-procedure handler is queued -/
structure MetaAct (r r' : Realm) : Prop where
  cfg : r'.cfg = r.cfg
  metaProcs : r'.metaProcs = r.metaProcs
  metaS : r'.metaS = r.metaS
  now : r'.now = r.now
  deferred : r'.deferred = r.deferred
  retries : r'.retries = r.retries
  inbox : r'.inbox = r.inbox
  broker : r'.broker = r.broker
  ds : r'.ds = r.ds
  queues : r'.queues = r.queues
  closedPeers : r'.closedPeers = r.closedPeers
  ghosts : r'.ghosts = r.ghosts
  keys : r'.clients.map (·.key) = r.clients.map (·.key)
  ending : ∃ e, r'.ending = r.ending ++ e ∧ ∀ j ∈ e, r.isClient j ∧ j ∉ r.ending
  tasks : ∃ ts rsp, r'.tasks = r.tasks ++ ts ++ [.metaMsg rsp] ∧ cleanAnswer rsp = true ∧
    ∀ t ∈ ts, ∃ j mode, t = Task.leave j mode ∧ r.isClient j ∧ j ∉ r.ending

theorem metaInvoke_act (r : Realm) (req reg : Nat) (details : Dict) (args : List WVal) (kw : Dict) :
    MetaAct r (r.runTask (.metaInvoke req reg details args kw)) := by
  rw [runTask_metaInvoke]
  split
  · exact ⟨rfl, rfl, rfl, rfl, rfl, rfl, rfl, rfl, rfl, rfl, rfl, rfl, rfl, app_nil_of_eq rfl,
      ⟨[], mErr req ErrNoSuchProcedure, by simp [addTasks], rfl, fun _ h => nomatch h⟩⟩
  · rename_i proc _
    have hc := metaProc_clean r proc req details args kw
    have he := metaProc_effect r proc req details args kw
    revert hc he
    generalize metaProc r proc req details args kw = res
    obtain ⟨rsp, r2⟩ := res
    intro hc he
    dsimp only at hc he ⊢
    cases he with
    | same =>
      exact ⟨rfl, rfl, rfl, rfl, rfl, rfl, rfl, rfl, rfl, rfl, rfl, rfl, rfl, app_nil_of_eq rfl,
        ⟨[], rsp, by simp [addTasks], hc, fun _ h => nomatch h⟩⟩
    | kill sel g ka =>
      have hv : ∀ c ∈ r.clients.filter (fun c => sel c && !r.ending.contains c.key), r.isClient c.key ∧ c.key ∉ r.ending := by
        intro c hcm
        obtain ⟨h1, h2⟩ := List.mem_filter.mp hcm
        refine ⟨⟨c, h1, rfl⟩, ?_⟩
        have : r.ending.contains c.key = false := by
          cases hh : r.ending.contains c.key
          · rfl
          · rw [hh] at h2; simp at h2
        intro hin
        rw [List.contains_iff_mem.mpr hin] at this
        cases this
      refine ⟨rfl, rfl, rfl, rfl, rfl, rfl, rfl, rfl, rfl, rfl, rfl, rfl, rfl, ⟨_, rfl, ?_⟩, ⟨_, rsp, rfl, hc, ?_⟩⟩
      · intro j hj
        obtain ⟨c, hcm, rfl⟩ := List.mem_map.mp hj
        exact hv c hcm
      · intro t ht
        obtain ⟨c, hcm, rfl⟩ := List.mem_map.mp ht
        exact ⟨_, _, rfl, hv c hcm⟩
    | modify k d =>
      exact ⟨rfl, rfl, rfl, rfl, rfl, rfl, rfl, rfl, rfl, rfl, rfl, rfl,
        isClient_map (r := r) (fun c => if c.key == k then { c with details := d } else c) (fun c => by split <;> rfl),
        app_nil_of_eq rfl, ⟨[], rsp, by simp [addTasks], hc, fun _ h => nomatch h⟩⟩
    | testaments t _ =>
      exact ⟨rfl, rfl, rfl, rfl, rfl, rfl, rfl, rfl, rfl, rfl, rfl, rfl, rfl, app_nil_of_eq rfl,
        ⟨[], rsp, by simp [addTasks], hc, fun _ h => nomatch h⟩⟩

theorem MetaAct.isClient {r r' : Realm} (h : MetaAct r r') (k : SessKey) : r'.isClient k ↔ r.isClient k :=
  isClient_congr h.keys k

/-! ### timed events -/

theorem eff_timerDue (r : Realm) (t : Timer) : Eff P Q r (r.timerDue t) := by
  unfold timerDue
  extract_lets ds1 r1
  exact (eff_tables r r.broker ds1 r.pubCount r.testaments).trans
    (eff_applyD _ _ (by rw [syncCancel_aborts]; intro j hj; cases hj))

/-- the dealer part of one turn of the yield retry loop -/
theorem eff_retryApply (r : Realm) (x : Retry) (ha : ∀ j ∈ (retryOut r x).aborts, P j) :
    Eff P Q ({ r with retries := r.retries.filter (fun y => y.callee != x.callee) } : Realm)
      (({ r with retries := r.retries.filter (fun y => y.callee != x.callee) } : Realm).applyD (retryOut r x)) :=
  eff_applyD _ _ ha

/-! ### the `drain` induction principle -/

/-- `drain` relationally: the realms before each task that was run -/
theorem drain_quiescent (I : Realm → Prop)
    (hstep : ∀ (r : Realm) (t : Task) (ts : List Task), RealmInv r → r.tasks = t :: ts → I r →
      I (runTask { r with tasks := ts } t)) :
    ∀ (fuel : Nat) (r : Realm), RealmInv r → I r → (drain fuel r).panic = none →
      I (drain fuel r) ∧ (drain fuel r).tasks = [] ∧ r.panic = none ∧ RealmInv (drain fuel r)
  | 0, r, hi, h, hp => by
    rw [drain_zero] at hp ⊢
    split
    · rename_i ht
      rw [if_pos ht] at hp
      exact ⟨h, by simpa using ht, hp, hi⟩
    · rename_i ht
      rw [if_neg ht] at hp
      exact absurd hp (setPanic_some_ne_none _ _)
  | fuel + 1, r, hi, h, hp => by
    cases ht : r.tasks with
    | nil =>
      rw [drain_succ_nil _ _ ht] at hp ⊢
      exact ⟨h, ht, hp, hi⟩
    | cons t ts =>
      rw [drain_succ_cons _ _ t ts ht] at hp ⊢
      have hi0 : RealmInv ({ r with tasks := ts } : Realm) :=
        hi.of_parts rfl hi.binv hi.dinv hi.bmem hi.dref hi.callers hi.retr
          (fun t' ht' => hi.tasks t' (by rw [ht]; exact List.mem_cons_of_mem _ ht')) hi.inb rfl
      have hto : TaskOk t := hi.tasks t (by rw [ht]; exact List.mem_cons_self ..)
      obtain ⟨h1, h2⟩ := runTask_inv hi0 t hto
      obtain ⟨g1, g2, g3, g4⟩ := drain_quiescent I hstep fuel _ h1 (hstep r t ts hi ht h) hp
      exact ⟨g1, g2, by rw [← h2]; exact g3, g4⟩

end Nexus.L2.WpC
