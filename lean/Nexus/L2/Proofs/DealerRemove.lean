/-
  DealerInv: session removal (`syncRemoveSession`), the initial state, the step
  relation `DStep` (any `sync*` call with any arguments in any environment, or the
  expiry bookkeeping of a timer), `Reachable`, and the absence of panics.
-/
import Nexus.L2.Proofs.DealerPres

namespace Nexus.L2
open Gen.N

/-! ### the `calleeRegIDSet` loop -/

theorem removeRegs_spec (k : SessKey) {n : Nat} : ∀ (ids : List Nat) (d : Dealer), RegsOk d.regs n → ids.Nodup →
    (∀ id ∈ ids, calleeRel d.regs id k) →
    ∃ d' pubs, removeRegs d k ids = (d', pubs, none) ∧ RegsOk d'.regs n ∧
      (∀ id' c, calleeRel d'.regs id' c ↔ calleeRel d.regs id' c ∧ ¬ (c = k ∧ id' ∈ ids)) ∧
      d' = { d with regs := d'.regs }
  | [], d, h, _, _ => ⟨d, [], rfl, h, by simp, rfl⟩
  | id :: ids, d, h, hnd, hall => by
    rw [List.nodup_cons] at hnd
    obtain ⟨d1, del, he, hok, hrel, hd1⟩ := delCalleeReg_some h (hall id (List.mem_cons_self ..))
    have hall1 : ∀ id' ∈ ids, calleeRel d1.regs id' k := by
      intro id' hid'
      rw [hrel]
      exact ⟨hall id' (List.mem_cons_of_mem _ hid'), fun hc => hnd.1 (hc.2 ▸ hid')⟩
    obtain ⟨d2, pubs, he2, hok2, hrel2, hd2⟩ := removeRegs_spec k ids d1 hok hnd.2 hall1
    have hx : ∃ pubs', removeRegs d k (id :: ids) = (d2, pubs', none) := by
      simp only [removeRegs, he, he2]; exact ⟨_, rfl⟩
    obtain ⟨pubs', hx⟩ := hx
    refine ⟨d2, pubs', hx, hok2, ?_, ?_⟩
    · intro id' c
      rw [hrel2, hrel]
      simp only [List.mem_cons]
      constructor
      · rintro ⟨⟨hc, h1⟩, h2⟩
        exact ⟨hc, fun hx => hx.2.elim (fun hx2 => h1 ⟨hx.1, hx2⟩) (fun hx2 => h2 ⟨hx.1, hx2⟩)⟩
      · rintro ⟨hc, h1⟩
        exact ⟨⟨hc, fun hx => h1 ⟨hx.1, Or.inl hx.2⟩⟩, fun hx => h1 ⟨hx.1, Or.inr hx.2⟩⟩
    · rw [hd2, hd1]

/-! ### the two loops over invocations and calls -/

theorem cancelServed_inv (env : DEnv) (k : SessKey) : ∀ (l : List Invk) (s : DState), DealerInv s →
    DealerInv (cancelServed env s k l).1
  | [], s, h => h
  | invk :: rest, s, h => by
    unfold cancelServed
    split
    · exact cancelServed_inv env k rest s h
    · simp only
      apply cancelServed_inv env k rest
      apply syncCancel_inv
      have h1 := h.cancelTimer invk.timer
      cases hf : (s.cancelTimer invk.timer).d.findInv invk.id with
      | none => exact h1
      | some cur =>
        simp only
        have hm := findInv_some_mem hf
        exact h1.setInv (v' := { cur with canceled := false }) hm.1 rfl rfl

theorem dropCalls_inv (k : SessKey) : ∀ (l : List ReqId) (s : DState), DealerInv s → DealerInv (dropCalls s k l)
  | [], s, h => h
  | c :: rest, s, h => by
    unfold dropCalls
    split
    · exact dropCalls_inv k rest s h
    · apply dropCalls_inv k rest
      simp only
      by_cases hc : c ∈ s.d.calls
      · obtain ⟨i, v, hb, hf, hv, hvi, hvc, _⟩ := h.call.lookup hc
        have hb' : (s.d.delCall c).byCall? c = some i := hb
        have hf' : (s.d.delCall c).findInv i = some v := hf
        rw [hb']
        simp only [hf']
        have := h.endCall hv
        rw [hvi, hvc] at this
        rw [delCall_delByCall_delInv]
        exact this
      · have hb : (s.d.delCall c).byCall? c = none := h.call.byCall?_none hc
        rw [hb]
        simp only
        have : s.d.delCall c = s.d := by
          have h1 : s.d.calls.filter (· != c) = s.d.calls :=
            List.filter_eq_self.2 (fun a ha => by simpa using fun he : a = c => hc (he ▸ ha))
          cases hd : s.d
          simp only [Dealer.delCall, hd] at h1 ⊢
          rw [h1]
        rw [this]; exact h

/-! ### `syncRemoveSession` -/

/-- the registration part of `syncRemoveSession`: all registrations of `k` are removed -/
theorem removeRegs_all {s : DState} (h : DealerInv s) (k : SessKey) :
    ∃ d' pubs, removeRegs s.d k ((idxGet s.d.index k).getD []) = (d', pubs, none) ∧
      RegInv { d' with index := idxDrop d'.index k } ∧
      (∀ id c, calleeRel d'.regs id c ↔ calleeRel s.d.regs id c ∧ c ≠ k) ∧
      d' = { s.d with regs := d'.regs } := by
  obtain ⟨d', pubs, he, hok, hrel, hd'⟩ := removeRegs_spec k (idxIds s.d.index k) s.d h.reg.regs
    (idxIds_nodup h.reg.ix k) (fun id hid => (h.reg.ixIff k id).1 hid)
  have hrel' : ∀ id c, calleeRel d'.regs id c ↔ calleeRel s.d.regs id c ∧ c ≠ k := by
    intro id c
    rw [hrel]
    constructor
    · rintro ⟨hc, hne⟩
      exact ⟨hc, fun hck => hne ⟨hck, (h.reg.ixIff k id).2 (hck ▸ hc)⟩⟩
    · rintro ⟨hc, hne⟩
      exact ⟨hc, fun hx => hne hx.1⟩
  refine ⟨d', pubs, he, ⟨?_, ?_, ?_⟩, hrel', hd'⟩
  · show RegsOk d'.regs d'.nextReg
    rw [hd']; exact hok
  · show IdxOk (idxDrop d'.index k)
    rw [hd']; exact idxDrop_ok h.reg.ix k
  · intro k' id
    show id ∈ idxIds (idxDrop d'.index k) k' ↔ calleeRel d'.regs id k'
    rw [hrel', hd']
    show id ∈ idxIds (idxDrop s.d.index k) k' ↔ _
    rw [mem_idxIds_idxDrop h.reg.ix, h.reg.ixIff]

theorem syncRemoveSession_inv {env : DEnv} {s : DState} (h : DealerInv s) (k : SessKey) :
    DealerInv (syncRemoveSession env s k).st ∧ (syncRemoveSession env s k).panic = none := by
  obtain ⟨d', pubs, he, hreg, _, hd'⟩ := removeRegs_all h k
  refine ⟨?_, by unfold syncRemoveSession; simp only [he]⟩
  unfold syncRemoveSession
  simp only [he]
  apply dropCalls_inv
  apply cancelServed_inv
  exact ⟨hreg, h.call.congr (by rw [hd']) (by rw [hd']) (by rw [hd']), h.aux.congr (by rw [hd']) rfl rfl rfl⟩

/-! ### the initial state -/

theorem DealerInv.init (strict allowDisclose : Bool) :
    DealerInv { d := { strict := strict, allowDisclose := allowDisclose } } := by
  refine ⟨⟨⟨by simp, by simp, by simp, by simp, by simp, by simp⟩, idxOk_nil, ?_⟩,
    ⟨by simp, by simp, by simp, by simp, by simp, by simp, by simp, by simp⟩,
    ⟨by simp, by simp, by simp, by simp, by simp, by simp⟩⟩
  intro k id
  simp [idxIds, idxGet, calleeRel]

/-! ### timers leaving the table (`timerDue`, and the old `fireTimers`) -/

theorem DealerInv.filterTimers {s : DState} (h : DealerInv s) (p : Timer → Bool) :
    DealerInv { s with timers := s.timers.filter p } := by
  refine ⟨h.reg, h.call, ⟨h.aux.gen, nodup_map_filter _ _ h.aux.timerIds,
    fun t ht => h.aux.timerRange t (List.mem_filter.1 ht).1, ?_, h.aux.invTimerInj,
    fun t ht hc => h.aux.timerOwned t (List.mem_filter.1 ht).1 hc⟩⟩
  intro v hv tid hvt
  obtain ⟨h1, h2, h3⟩ := h.aux.invTimer v hv tid hvt
  exact ⟨h1, h2, fun t ht => h3 t (List.mem_filter.1 ht).1⟩

/-! ### steps and reachability -/

/-- One atomic action of the dealer goroutine: any `sync*` function with any arguments in any
    environment (session table, queue-full predicate, time), and the removal of timers from the
    timer table (expiry bookkeeping). `invoke` of a REGISTER is one of the policies `dealer.register`
    lets through. -/
inductive DStep (s : DState) : DOut → Prop
  | register (callee : SessKey) (req : Nat) (proc «match» invoke : String) (disclose fwd wampURI : Bool)
      (hk : invoke ∈ Realm.knownPolicies) :
      DStep s (syncRegister s callee req proc «match» invoke disclose fwd wampURI)
  | unregister (callee : SessKey) (req regId : Nat) : DStep s (syncUnregister s callee req regId)
  | call (env : DEnv) (caller : SessKey) (req : Nat) (opts : Dict) (proc : String) (args : List WVal) (kw : Dict)
      (rnd : Nat) : DStep s (syncCall env s caller req opts proc args kw rnd)
  | cancel (env : DEnv) (caller : SessKey) (req : Nat) (mode reason : String) (errArgs : List WVal) :
      DStep s (syncCancel env s caller req mode reason errArgs)
  | yield (env : DEnv) (callee : SessKey) (req : Nat) (opts : Dict) (args : List WVal) (kw : Dict)
      (progress canRetry : Bool) : DStep s (syncYield env s callee req opts args kw progress canRetry)
  | error (callee : SessKey) (req : Nat) (details : Dict) (err : String) (args : List WVal) (kw : Dict) :
      DStep s (syncError s callee req details err args kw)
  | removeSession (env : DEnv) (k : SessKey) : DStep s (syncRemoveSession env s k)
  | dropTimers (p : Timer → Bool) : DStep s { st := { s with timers := s.timers.filter p } }

/-- DealerInv is preserved by every step. -/
theorem DStep.inv {s : DState} {o : DOut} (h : DealerInv s) (st : DStep s o) : DealerInv o.st := by
  cases st with
  | register callee req proc m invoke disclose fwd wampURI hk => exact syncRegister_inv h _ _ _ _ _ _ _ _ hk
  | unregister => exact syncUnregister_inv h _ _ _
  | call => exact syncCall_inv h _ _ _ _ _ _ _
  | cancel => exact syncCancel_inv h _ _ _ _ _
  | yield => exact syncYield_inv h _ _ _ _ _ _ _
  | error => exact syncError_inv h _ _ _ _ _ _
  | removeSession => exact (syncRemoveSession_inv h _).1
  | dropTimers p => exact h.filterTimers p

/-- states reachable from an empty dealer by any sequence of steps -/
inductive Reachable : DState → Prop
  | init (strict allowDisclose : Bool) : Reachable { d := { strict := strict, allowDisclose := allowDisclose } }
  | step {s : DState} {o : DOut} : Reachable s → DStep s o → Reachable o.st

theorem Reachable.inv {s : DState} (h : Reachable s) : DealerInv s := by
  induction h with
  | init => exact DealerInv.init _ _
  | step _ st ih => exact st.inv ih

/-- A run of the dealer: consecutive steps, each recorded with the state it starts in. -/
inductive Run : DState → List (DState × DOut) → DState → Prop
  | nil (s : DState) : Run s [] s
  | cons {s : DState} {o : DOut} {tr : List (DState × DOut)} {s' : DState} :
      DStep s o → Run o.st tr s' → Run s ((s, o) :: tr) s'

theorem Run.inv {s s' : DState} {tr : List (DState × DOut)} (run : Run s tr s') (h : DealerInv s) : DealerInv s' := by
  induction run with
  | nil => exact h
  | cons st _ ih => exact ih (st.inv h)

/-! ### no panics -/

theorem syncError_panic (s : DState) (callee : SessKey) (req : Nat) (details : Dict) (err : String)
    (args : List WVal) (kw : Dict) : (syncError s callee req details err args kw).panic = none := by
  unfold syncError
  simp only
  split
  · rfl
  · split <;> rfl

theorem syncCancel_panic (env : DEnv) (s : DState) (caller : SessKey) (req : Nat) (mode reason : String)
    (errArgs : List WVal) : (syncCancel env s caller req mode reason errArgs).panic = none := by
  unfold syncCancel
  simp only
  split
  · rfl
  · split
    · rfl
    · split
      · rfl
      · split
        · rfl
        · split <;> rfl

theorem syncYield_panic (env : DEnv) (s : DState) (callee : SessKey) (req : Nat) (opts : Dict)
    (args : List WVal) (kw : Dict) (progress canRetry : Bool) :
    (syncYield env s callee req opts args kw progress canRetry).panic = none := by
  unfold syncYield
  simp only
  split
  · split <;> rfl
  · split
    · rfl
    · split
      · rfl
      · split
        · rfl
        · split
          · rfl
          · split
            · rfl
            · split
              · rfl
              · exact syncCancel_panic ..

theorem syncRegister_panic (s : DState) (callee : SessKey) (req : Nat) (proc m invoke : String)
    (disclose fwd wampURI : Bool) : (syncRegister s callee req proc m invoke disclose fwd wampURI).panic = none := by
  unfold syncRegister
  simp only
  split
  · rfl
  · split
    · rfl
    · split
      · rfl
      · split <;> rfl

theorem syncUnregister_panic (s : DState) (callee : SessKey) (req regId : Nat) :
    (syncUnregister s callee req regId).panic = none := by
  unfold syncUnregister
  simp only
  split <;> rfl

theorem dispatch_panic (env : DEnv) (s : DState) (caller : SessKey) (req : Nat) (callee : SessKey) (invReq : Nat)
    (v : Invk) (timeout : Nat) (m : Msg) : (dispatch env s caller req callee invReq v timeout m).panic = none := by
  unfold dispatch
  split
  · exact syncError_panic ..
  · rfl

theorem dispatchL_panic (env : DEnv) (s : DState) (caller : SessKey) (req : Nat) (callee : SessKey) (invReq : Nat)
    (v : Invk) (timeout : Nat) (m : Msg) : (dispatchL env s caller req callee invReq v timeout m).panic = none := by
  unfold dispatchL
  split
  · exact syncError_panic ..
  · rfl

/-- A registration satisfying the invariant always yields a callee: the Go `panic("multiple callees
    registered … with 'single' policy")` is unreachable.  (Uses `RegsOk.known`: `dealer.register` refuses
    invocation policies outside the six known ones; without that check the panic was reachable, see
    `pickCallee_unknown_policy_panics`.) -/
theorem pickCallee_isSome {regs : List Reg} {n : Nat} (h : RegsOk regs n) {reg : Reg} (hm : reg ∈ regs) (rnd : Nat) :
    ∃ c reg', pickCallee reg rnd = some (c, reg') := by
  cases hp : pickCallee reg rnd with
  | some p => exact ⟨p.1, p.2, rfl⟩
  | none =>
    exfalso
    rcases (pickCallee_none_iff reg rnd).1 hp with he | ⟨h2, h3, h4, h5, h6⟩
    · exact (h.callees reg hm).1 he
    · have hk := h.known reg hm
      simp only [Realm.knownPolicies, List.mem_cons, List.not_mem_nil, or_false] at hk
      rcases hk with hk | hk | hk | hk | hk | hk
      · have := h.single reg hm (Or.inl hk); omega
      · have := h.single reg hm (Or.inr hk); omega
      · exact h3 hk
      · exact h6 hk
      · exact h4 hk
      · exact h5 hk

/-- the side condition is needed: two callees under an unknown policy make `pickCallee` fail -/
theorem pickCallee_unknown_policy_panics :
    pickCallee { id := 1, proc := "p", «match» := "", policy := "foo", disclose := false, fwdTimeout := false,
                 callees := [1, 2] } 0 = none := by
  decide

theorem syncCall_no_panic {env : DEnv} {s : DState} (h : DealerInv s) (caller : SessKey) (req : Nat) (opts : Dict)
    (proc : String) (args : List WVal) (kw : Dict) (rnd : Nat) :
    (syncCall env s caller req opts proc args kw rnd).panic = none := by
  rw [syncCall_eq]
  split
  · rename_i iid hb
    split
    · rename_i hf
      obtain ⟨_, v, hf', _⟩ := h.call.byCall?_some hb
      rw [hf] at hf'; cases hf'
    · split
      · rfl
      · exact dispatchL_panic ..
  · split
    · rfl
    · rename_i reg hm
      have hmem := matchProcedure_mem hm
      split
      · rfl
      · split
        · rfl
        · split
          · rename_i hp
            obtain ⟨c, reg', hp'⟩ := pickCallee_isSome h.reg.regs hmem rnd
            rw [hp] at hp'; cases hp'
          · rw [firstChunk_eq]
            split
            · rfl
            · rfl
            · exact dispatch_panic ..

/-- In a state satisfying the invariant no dealer action panics. -/
theorem DStep.no_panic {s : DState} {o : DOut} (h : DealerInv s) (st : DStep s o) : o.panic = none := by
  cases st with
  | register => exact syncRegister_panic ..
  | unregister => exact syncUnregister_panic ..
  | call => exact syncCall_no_panic h ..
  | cancel => exact syncCancel_panic ..
  | yield => exact syncYield_panic ..
  | error => exact syncError_panic ..
  | removeSession => exact (syncRemoveSession_inv h _).2
  | dropTimers => rfl

end Nexus.L2
