/-
  C07 "stall isolation", part 3: the dealer's `sync*` functions read `env.full` only at specific sessions
  (INVOCATION → the chosen callee, INTERRUPT → the callee of the invocation, RESULT → the caller), and
  read sessions only up to `stalled`.  If two environments agree off `x` (`EnvEq x`) and `x` is none of
  the sessions consulted, the outputs are IDENTICAL.
-/
import Nexus.L2.Proofs.WpCStallBase
import Nexus.L2.Proofs.DealerRefs

set_option linter.unusedSimpArgs false

namespace Nexus.L2.WpC
open Nexus.L2 Nexus.L2.Realm Gen.N

variable {x : SessKey}

/-- two dealer environments that agree off `x`: the same sessions up to `stalled` of `x`, the same
    clock, and the same "queue is full" answers for every session other than `x` -/
structure EnvEq (x : SessKey) (env env' : DEnv) : Prop where
  sess : ∀ k, OSEq x (env.sess k) (env'.sess k)
  now : env'.now = env.now
  full : ∀ k, k ≠ x → env'.full k = env.full k

theorem EnvEq.hasFeat {env env' : DEnv} (h : EnvEq x env env') (k : SessKey) (role feat : String) :
    hasFeat env' k role feat = hasFeat env k role feat := by
  unfold Nexus.L2.hasFeat
  rcases (h.sess k).cases with ⟨e1, e2⟩ | ⟨c, c', e1, e2, hc⟩
  · rw [e1, e2]
  · rw [e1, e2]; exact hc.hasFeature role feat

theorem EnvEq.detailsOf {env env' : DEnv} (h : EnvEq x env env') (k : SessKey) :
    detailsOf env' k = detailsOf env k := by
  unfold Nexus.L2.detailsOf
  rcases (h.sess k).cases with ⟨e1, e2⟩ | ⟨c, c', e1, e2, hc⟩
  · rw [e1, e2]
  · rw [e1, e2]; exact hc.details

theorem EnvEq.discloseCaller {env env' : DEnv} (h : EnvEq x env env') (k : SessKey) (d : Dict) :
    discloseCaller env' k d = discloseCaller env k d := by
  unfold Nexus.L2.discloseCaller; rw [h.detailsOf]

/-- the realm's dealer environments agree off `x` -/
theorem EqOff.denv {r r' : Realm} (h : EqOff x r r') : EnvEq x r.denv r'.denv :=
  ⟨fun k => h.session k, h.now, fun _ hk => h.isFull hk⟩

/-- `x` is the callee of no registration, the caller of no pending call and the callee of no invocation -/
structure DIdle (x : SessKey) (s : DState) : Prop where
  regs : ∀ g ∈ s.d.regs, x ∉ g.callees
  calls : ∀ c ∈ s.d.calls, c.sess ≠ x
  invs : ∀ v ∈ s.d.invs, v.callee ≠ x

theorem DIdle.of_not_refs {s : DState} (h : ¬ s.refs x) : DIdle x s :=
  ⟨fun g hg hx => h (Or.inl ⟨g.id, g, hg, rfl, hx⟩),
   fun c hc e => h (Or.inr (Or.inl ⟨c, hc, e⟩)),
   fun v hv e => h (Or.inr (Or.inr (Or.inl ⟨v, hv, e⟩)))⟩

/-! ### CANCEL: INTERRUPT consults the queue of the invocation's callee -/

theorem syncCancel_congr {env env' : DEnv} (h : EnvEq x env env') (s : DState) (caller : SessKey) (req : Nat)
    (mode reason : String) (errArgs : List WVal)
    (hc : mode = CancelModeSkip ∨ ∀ v ∈ s.d.invs, v.callee ≠ x) :
    syncCancel env' s caller req mode reason errArgs = syncCancel env s caller req mode reason errArgs := by
  unfold syncCancel
  simp only
  split
  · rfl
  · split
    · rfl
    · split
      · rfl
      · rename_i iid _ invk hf
        split
        · rfl
        · rcases hc with rfl | hc
          · simp only [bne_self_eq_false, Bool.false_and]
          · simp only [h.hasFeat, h.full _ (hc invk (findInv_some_mem hf).1)]

/-! ### CALL: INVOCATION consults the queue of the chosen callee -/

theorem dispatch_congr {env env' : DEnv} (h : EnvEq x env env') (s : DState) (caller : SessKey) (req : Nat)
    {callee : SessKey} (invReq : Nat) (v : Invk) (timeout : Nat) (m : Msg) (hc : callee ≠ x) :
    dispatch env' s caller req callee invReq v timeout m = dispatch env s caller req callee invReq v timeout m := by
  unfold dispatch armTimer
  simp only [h.full _ hc, h.now]

theorem invDetails_congr {env env' : DEnv} (h : EnvEq x env env') (reg : Reg) (caller callee : SessKey) (opts : Dict)
    (proc : String) : invDetails env' reg caller callee opts proc = invDetails env reg caller callee opts proc := by
  unfold invDetails forwardsTimeout forwardsF
  simp only [h.hasFeat, h.discloseCaller]

theorem routerTimeoutF_congr {env env' : DEnv} (h : EnvEq x env env') (fwd : Bool) (callee : SessKey) (opts : Dict) :
    routerTimeoutF env' fwd callee opts = routerTimeoutF env fwd callee opts := by
  unfold routerTimeoutF forwardsF
  simp only [h.hasFeat]

theorem firstChunk_congr {env env' : DEnv} (h : EnvEq x env env') (s : DState) (reg : Reg) (caller : SessKey)
    (req : Nat) (opts : Dict) (proc : String) (args : List WVal) (kw : Dict) {callee : SessKey} (reg' : Reg)
    (hc : callee ≠ x) :
    firstChunk env' s reg caller req opts proc args kw callee reg' =
      firstChunk env s reg caller req opts proc args kw callee reg' := by
  unfold firstChunk routerTimeout
  simp only [h.hasFeat, invDetails_congr h, routerTimeoutF_congr h, dispatch_congr h _ _ _ _ _ _ _ hc]

theorem laterChunk_congr {env env' : DEnv} (h : EnvEq x env env') (s : DState) (caller : SessKey)
    (req : Nat) (opts : Dict) (args : List WVal) (kw : Dict) (iid : ReqId) {v0 : Invk} (hc : v0.callee ≠ x) :
    laterChunk env' s caller req opts args kw iid v0 = laterChunk env s caller req opts args kw iid v0 := by
  unfold laterChunk
  simp only [routerTimeoutF_congr h]
  -- (robust against the variant of `laterChunk` that cancels the earlier chunk's timer first, `dispatchL`)
  first
    | exact dispatch_congr h _ _ _ _ _ _ _ hc
    | (unfold dispatchL armTimer preCancel
       simp only [h.full _ hc, h.now])

theorem syncCall_congr {env env' : DEnv} (h : EnvEq x env env') (s : DState) (caller : SessKey) (req : Nat)
    (opts : Dict) (proc : String) (args : List WVal) (kw : Dict) (rnd : Nat)
    (hr : ∀ g ∈ s.d.regs, x ∉ g.callees) (hi : ∀ v ∈ s.d.invs, v.callee ≠ x) :
    syncCall env' s caller req opts proc args kw rnd = syncCall env s caller req opts proc args kw rnd := by
  rw [syncCall_eq, syncCall_eq]
  simp only [h.hasFeat]
  split
  · split
    · rfl
    · rename_i iid _ v0 hf
      split
      · rfl
      · exact laterChunk_congr h _ _ _ _ _ _ _ (hi v0 (findInv_some_mem hf).1)
  · split
    · rfl
    · rename_i reg hm
      split
      · rfl
      · split
        · rfl
        · split
          · rfl
          · rename_i callee reg' hp
            refine firstChunk_congr h _ _ _ _ _ _ _ _ _ ?_
            intro e
            exact hr reg (matchProcedure_mem hm) (e ▸ (pickCallee_mem hp).1)

/-! ### YIELD: RESULT consults the queue of the caller (and an unknown progressive YIELD that of the callee) -/

theorem syncYield_congr {env env' : DEnv} (h : EnvEq x env env') (s : DState) {callee : SessKey} (req : Nat)
    (opts : Dict) (args : List WVal) (kw : Dict) (progress canRetry : Bool)
    (hk : callee ≠ x) (hc : ∀ c ∈ s.d.calls, c.sess ≠ x) (hi : ∀ v ∈ s.d.invs, v.callee ≠ x) :
    syncYield env' s callee req opts args kw progress canRetry =
      syncYield env s callee req opts args kw progress canRetry := by
  unfold syncYield
  simp only [h.hasFeat, h.full _ hk]
  split
  · rfl
  · rename_i invk hf
    split
    · rfl
    · split
      · rfl
      · rename_i hcc
        have hcaller : invk.callId.sess ≠ x := hc _ (by simpa using hcc)
        have hcan : ∀ s0 : DState, s0.d.invs = s.d.invs →
            syncCancel env' s0 invk.callId.sess invk.callId.req CancelModeKillNoWait ErrCanceled [] =
              syncCancel env s0 invk.callId.sess invk.callId.req CancelModeKillNoWait ErrCanceled [] :=
          fun s0 e => syncCancel_congr h s0 _ _ _ _ _ (Or.inr (e ▸ hi))
        simp only [h.full _ hcaller]
        cases progress
        · simp only [Bool.false_eq_true, if_false, hcan (s.cancelTimer invk.timer) (by simp)]
        · simp only [if_true, hcan s rfl]

/-! ### session removal never interrupts: no queue is consulted at all -/

theorem cancelServed_congr {env env' : DEnv} (h : EnvEq x env env') (k : SessKey) : ∀ (l : List Invk) (s : DState),
    cancelServed env' s k l = cancelServed env s k l
  | [], _ => rfl
  | invk :: rest, s => by
    unfold cancelServed
    split
    · exact cancelServed_congr h k rest s
    · simp only [syncCancel_congr h _ _ _ CancelModeSkip _ _ (Or.inl rfl), cancelServed_congr h k rest]

theorem syncRemoveSession_congr {env env' : DEnv} (h : EnvEq x env env') (s : DState) (k : SessKey) :
    syncRemoveSession env' s k = syncRemoveSession env s k := by
  unfold syncRemoveSession
  simp only [cancelServed_congr h]

end Nexus.L2.WpC
