/-
  The restricted `wamp.` namespace (C03): in every reachable realm state, a registration whose procedure URI starts
  with "wamp." is served by the meta session alone.  `dealer.register` refuses such a REGISTER from any other session
  (`Realm.handleRegister`); nothing else adds callees.
-/
import Nexus.L2.Proofs.WpBRealmSteps

namespace Nexus.L2.WpB
open Nexus.L2 Nexus.L2.Realm Nexus.Gen.N

/-- every callee of a `wamp.`-procedure is the meta session -/
def WampOk (s : DState) : Prop :=
  ∀ reg ∈ s.d.regs, reg.proc.startsWith "wamp." = true → ∀ c ∈ reg.callees, c = metaKey

/-- every registration of `regs'` stems from one of `regs` with the same procedure and no new callee -/
def RegsSub (regs regs' : List Reg) : Prop :=
  ∀ reg' ∈ regs', ∃ reg ∈ regs, reg.proc = reg'.proc ∧ ∀ c ∈ reg'.callees, c ∈ reg.callees

theorem RegsSub.refl (l : List Reg) : RegsSub l l := fun r hr => ⟨r, hr, rfl, fun _ h => h⟩

theorem RegsSub.of_eq {l l' : List Reg} (h : l' = l) : RegsSub l l' := h ▸ RegsSub.refl l

theorem RegsSub.trans {a b c : List Reg} (h1 : RegsSub a b) (h2 : RegsSub b c) : RegsSub a c := by
  intro r hr
  obtain ⟨r1, hr1, e1, s1⟩ := h2 r hr
  obtain ⟨r0, hr0, e0, s0⟩ := h1 r1 hr1
  exact ⟨r0, hr0, e0.trans e1, fun c hc => s0 c (s1 c hc)⟩

theorem WampOk.sub {s s' : DState} (h : WampOk s) (hs : RegsSub s.d.regs s'.d.regs) : WampOk s' := by
  intro r' hr' hw c hc
  obtain ⟨r, hr, e, sub⟩ := hs r' hr'
  exact h r hr (e ▸ hw) c (sub c hc)

theorem regsSub_of_shape {l l' : List Reg} (h : l'.map Reg.shape = l.map Reg.shape) : RegsSub l l' := by
  intro r' hr'
  obtain ⟨r, hr, he⟩ := exists_of_map_eq h hr'
  simp only [Reg.shape, Prod.mk.injEq] at he
  exact ⟨r, hr, he.2.1, fun c hc => he.2.2.2.2 ▸ hc⟩

theorem mem_eraseFirst_sub {k x : SessKey} {l : List SessKey} (h : x ∈ eraseFirst k l) : x ∈ l := by
  rw [eraseFirst_eq_erase] at h
  exact List.mem_of_mem_erase h

theorem delCalleeReg_regsSub {d d' : Dealer} {k : SessKey} {id : Nat} {del : Bool}
    (h : d.delCalleeReg k id = some (d', del)) : RegsSub d.regs d'.regs := by
  unfold Dealer.delCalleeReg at h
  split at h
  · cases h
  · rename_i reg hf
    have hreg : reg ∈ d.regs := List.mem_of_find?_eq_some hf
    split at h
    · cases h
    · simp only at h
      split at h
      · simp only [Option.some.injEq, Prod.mk.injEq] at h
        obtain ⟨rfl, _⟩ := h
        intro r hr
        exact ⟨r, (List.mem_filter.1 hr).1, rfl, fun _ hc => hc⟩
      · simp only [Option.some.injEq, Prod.mk.injEq] at h
        obtain ⟨rfl, _⟩ := h
        intro r hr
        unfold Dealer.setReg at hr
        simp only at hr
        rcases List.mem_map.1 hr with ⟨x, hx, rfl⟩
        split
        · exact ⟨reg, hreg, rfl, fun c hc => mem_eraseFirst_sub hc⟩
        · exact ⟨x, hx, rfl, fun _ hc => hc⟩

theorem removeRegs_regsSub (k : SessKey) : ∀ (ids : List Nat) (d : Dealer), RegsSub d.regs (removeRegs d k ids).1.regs
  | [], d => RegsSub.refl _
  | id :: ids, d => by
    unfold removeRegs
    split
    · exact RegsSub.refl _
    · rename_i d1 deleted he
      exact (delCalleeReg_regsSub he).trans (removeRegs_regsSub k ids d1)

theorem syncRemoveSession_regs (env : DEnv) (s : DState) (k : SessKey) :
    (syncRemoveSession env s k).st.d.regs = (removeRegs s.d k ((idxGet s.d.index k).getD [])).1.regs := by
  unfold syncRemoveSession
  simp only
  generalize removeRegs s.d k ((idxGet s.d.index k).getD []) = tr
  obtain ⟨d, pubs, p⟩ := tr
  simp only
  rw [(dropCalls_sub k _ _).regs, (cancelServed_sub env k _ _).regs]

theorem syncUnregister_regsSub (s : DState) (callee : SessKey) (req regId : Nat) :
    RegsSub s.d.regs (syncUnregister s callee req regId).st.d.regs := by
  unfold syncUnregister
  simp only
  split
  · exact RegsSub.refl _
  · rename_i d' del he
    exact delCalleeReg_regsSub (d := { s.d with index := idxDel s.d.index callee regId }) he

/-- REGISTER keeps the restriction provided a `wamp.` procedure is registered by the meta session only -/
theorem syncRegister_wampOk {s : DState} (h : WampOk s) (hinv : DealerInv s) (callee : SessKey) (req : Nat)
    (proc m invoke : String) (disclose fwd wampURI : Bool) (hw : proc.startsWith "wamp." = true → callee = metaKey) :
    WampOk (syncRegister s callee req proc m invoke disclose fwd wampURI).st := by
  unfold syncRegister
  simp only
  split
  · intro reg hreg hwamp c hc
    rcases List.mem_append.1 (show reg ∈ s.d.regs ++ [_] from hreg) with hr | hr
    · exact h reg hr hwamp c hc
    · simp only [List.mem_singleton] at hr
      subst hr
      simp only [List.mem_singleton] at hc
      rw [hc]; exact hw hwamp
  · rename_i reg0 hf
    have hm := (findProc_eq_some hinv.reg.regs.keys).1 hf
    split
    · exact h
    · split
      · exact h
      · split
        · exact h
        · intro reg hreg hwamp c hc
          have hreg' : reg ∈ (s.d.setReg { reg0 with callees := reg0.callees ++ [callee] }).regs := hreg
          unfold Dealer.setReg at hreg'
          simp only at hreg'
          rcases List.mem_map.1 hreg' with ⟨x, hx, rfl⟩
          split at hwamp
          · rename_i hxid
            simp only [hxid, if_true] at hc
            rcases List.mem_append.1 hc with hc | hc
            · exact h reg0 hm.1 hwamp c hc
            · simp only [List.mem_singleton] at hc
              rw [hc]
              exact hw (hm.2.2 ▸ hwamp)
          · rename_i hxid
            simp only [hxid] at hc
            exact h x hx hwamp c hc

/-- every realm-performed dealer action keeps the restriction -/
theorem RStep.wampOk {s : DState} {o : DOut} (hinv : DealerInv s) (h : WampOk s) (st : RStep s o) : WampOk o.st := by
  cases st with
  | register callee req proc m invoke disclose fwd wampURI hk hw =>
    exact syncRegister_wampOk h hinv callee req proc m invoke disclose fwd wampURI hw
  | unregister callee req regId => exact h.sub (syncUnregister_regsSub s callee req regId)
  | call env caller req opts proc args kw rnd =>
    exact h.sub (regsSub_of_shape (syncCall_frame hinv caller req opts proc args kw rnd).2.1)
  | cancel env caller req mode reason errArgs => exact h.sub (RegsSub.of_eq (syncCancel_sub ..).regs)
  | yield env callee req opts args kw progress canRetry => exact h.sub (RegsSub.of_eq (syncYield_sub ..).regs)
  | error callee req details err args kw => exact h.sub (RegsSub.of_eq (syncError_sub ..).regs)
  | removeSession env k =>
    refine h.sub ?_
    rw [syncRemoveSession_regs]
    exact removeRegs_regsSub k _ _
  | fire env t _ _ =>
    exact h.sub (RegsSub.of_eq (syncCancel_sub env { s with timers := _ } ..).regs)

/-- In every reachable realm state every callee of a `wamp.` registration is the meta session … -/
theorem Reachable.wampOk {cfg : Config} {r : Realm} (h : Realm.Reachable cfg r) : WampOk r.ds :=
  Reachable.dinvariant (I := WampOk) (fun _ _ reg hreg => by cases hreg) (fun _ _ hd hi st => RStep.wampOk hd hi st) h

/-- … so its callee list is exactly `[metaKey]` (callee lists are non-empty and duplicate-free, `RegsOk`). -/
theorem Reachable.wamp_callees {cfg : Config} {r : Realm} (h : Realm.Reachable cfg r) {reg : Reg}
    (hreg : reg ∈ r.ds.d.regs) (hw : reg.proc.startsWith "wamp." = true) : reg.callees = [metaKey] := by
  have hall := Reachable.wampOk h reg hreg hw
  obtain ⟨hne, hnd⟩ := h.inv.1.dinv.reg.regs.callees reg hreg
  cases hc : reg.callees with
  | nil => exact absurd hc hne
  | cons a rest =>
    rw [hc] at hall hnd
    have ha : a = metaKey := hall a (List.mem_cons_self ..)
    cases rest with
    | nil => rw [ha]
    | cons b rest' =>
      exfalso
      have hb : b = metaKey := hall b (List.mem_cons_of_mem _ (List.mem_cons_self ..))
      rw [ha, hb] at hnd
      simp at hnd

end Nexus.L2.WpB
