/-
  The router as a table of realms: frame lemmas and the confinement invariant (helpers for C11).

  `Router.Inv rt`: realm names are distinct and every realm of the table is confined
  (`Realm.Conf`) to the sessions that joined it according to `rt.sessRealm`.
-/
import Nexus.L2.Router
import Nexus.L2.Proofs.RealmFrame

namespace Nexus.L2
namespace Router
open Realm

/-- session `k` has joined the realm named `A` -/
def joined (rt : Router) (A : String) (k : SessKey) : Prop := (k, A) ∈ rt.sessRealm

/-- the realm an operation of session `k` is dispatched to -/
def realmOf (rt : Router) (k : SessKey) : Option String :=
  (rt.sessRealm.find? (fun p => p.1 == k)).map (·.2)

/-- the table without the realm(s) named `A` -/
def others (rt : Router) (A : String) : List (String × Realm) := rt.realms.filter (fun p => p.1 != A)

structure Inv (rt : Router) : Prop where
  names : (rt.realms.map (·.1)).Nodup
  conf : ∀ p ∈ rt.realms, Conf (rt.joined p.1) p.2

/-- operations as the router's API produces them: a session operation is not a `join`
    (sessions attach through `ROp.join` only) -/
def _root_.Nexus.L2.ROp.wf : ROp → Prop
  | .sess _ op => op.isJoin = false
  | _ => True

/-! ### lists -/

theorem filter_map_frame {α : Type} (q : α → Bool) (f : α → α) (hq : ∀ x, q (f x) = q x)
    (hf : ∀ x, q x = true → f x = x) : ∀ l : List α, (l.map f).filter q = l.filter q
  | [] => rfl
  | x :: l => by
    simp only [List.map_cons, List.filter_cons, hq, filter_map_frame q f hq hf l]
    cases h : q x
    · rfl
    · simp only [if_true]; rw [hf x h]

theorem realm?_mem {rt : Router} {A : String} {r : Realm} (h : rt.realm? A = some r) : (A, r) ∈ rt.realms := by
  unfold realm? at h
  cases hf : rt.realms.find? (fun p => p.1 == A) with
  | none => rw [hf] at h; cases h
  | some p =>
    rw [hf] at h
    have h1 := List.mem_of_find?_eq_some hf
    have h2 : p.1 = A := by simpa using List.find?_some hf
    cases h
    obtain ⟨n, r⟩ := p
    cases h2
    exact h1

theorem realm?_none {rt : Router} {A : String} (h : rt.realm? A = none) : ∀ p ∈ rt.realms, p.1 ≠ A := by
  unfold realm? at h
  intro p hp e
  have : rt.realms.find? (fun p => p.1 == A) = none := by
    cases hf : rt.realms.find? (fun p => p.1 == A) with
    | none => rfl
    | some q => rw [hf] at h; cases h
  have := List.find?_eq_none.mp this p hp
  simp [e] at this

/-! ### `setRealm` -/

theorem setRealm_sessRealm (rt : Router) (A : String) (r : Realm) : (rt.setRealm A r).sessRealm = rt.sessRealm := rfl

theorem others_setRealm (rt : Router) (A : String) (r : Realm) : (rt.setRealm A r).others A = rt.others A := by
  unfold others setRealm
  apply filter_map_frame
  · intro x
    by_cases h : (x.1 == A) = true
    · have : x.1 = A := by simpa using h
      simp [this]
    · simp [h]
  · intro x hx
    have : ¬ (x.1 == A) = true := by simpa using hx
    simp [this]

theorem names_setRealm (rt : Router) (A : String) (r : Realm) :
    (rt.setRealm A r).realms.map (·.1) = rt.realms.map (·.1) := by
  unfold setRealm
  simp only [List.map_map]
  apply List.map_congr_left
  intro x _
  by_cases h : x.1 = A
  · simp [h]
  · simp [h]

theorem mem_setRealm {rt : Router} {A : String} {r : Realm} {p : String × Realm}
    (h : p ∈ (rt.setRealm A r).realms) : (p = (A, r) ∧ ∃ r0, (A, r0) ∈ rt.realms) ∨ (p ∈ rt.realms ∧ p.1 ≠ A) := by
  unfold setRealm at h
  obtain ⟨x, hx, rfl⟩ := List.mem_map.mp h
  by_cases e : (x.1 == A) = true
  · have e' : x.1 = A := by simpa using e
    left
    refine ⟨by simp [e], x.2, ?_⟩
    rw [← e']; exact hx
  · right
    have e' : x.1 ≠ A := by simpa using e
    simp only [e]
    exact ⟨hx, e'⟩

/-! ### realm construction and shutdown -/

theorem registerMeta_io : ∀ (ps : List String) (r : Realm),
    (registerMeta r ps).clients = r.clients ∧ (registerMeta r ps).queues = r.queues ∧
    (registerMeta r ps).closedPeers = r.closedPeers
  | [], r => ⟨rfl, rfl, rfl⟩
  | p :: ps, r => by
    unfold registerMeta
    extract_lets o id
    exact registerMeta_io ps _

theorem create_conf {cfg : Config} {r : Realm} (h : Realm.create cfg = some r) (P : SessKey → Prop) : Conf P r := by
  unfold Realm.create at h
  split at h
  · cases h
  · split at h
    · cases h
    · extract_lets b d at h
      cases h
      obtain ⟨h1, h2, h3⟩ := registerMeta_io (metaProcNames cfg) { cfg := cfg, broker := b, ds := { d := d } }
      refine ⟨?_, ?_, ?_⟩
      · rw [h1]; intro c hc; cases hc
      · rw [h2]; intro c hc; cases hc
      · rw [h3]; intro c hc; cases hc

theorem registerMeta_now : ∀ (ps : List String) (r : Realm), (registerMeta r ps).now = r.now
  | [], _ => rfl
  | p :: ps, r => by
    unfold registerMeta
    extract_lets o id
    exact registerMeta_now ps _

/-- a realm as `Realm.create` builds it starts at time 0 -/
theorem create_now {cfg : Config} {r : Realm} (h : Realm.create cfg = some r) : r.now = 0 := by
  unfold Realm.create at h
  split at h
  · cases h
  · split at h
    · cases h
    · extract_lets b d at h
      cases h
      exact registerMeta_now _ _

theorem Conf.foldl_leave {P : SessKey → Prop} : ∀ (cs : List Session) {r : Realm}, Conf P r →
    Conf P (cs.foldl (fun r c => r.leave c.key .shutdown) r)
  | [], _, h => h
  | c :: cs, _, h => Conf.foldl_leave cs (h.leave c.key .shutdown)

theorem shutdownRealm_conf {P : SessKey → Prop} {r : Realm} (h : Conf P r) :
    Conf P (shutdownRealm r).2 ∧ (∀ q ∈ (shutdownRealm r).1.out, P q.1) ∧ (∀ k ∈ (shutdownRealm r).1.closed, P k) := by
  unfold shutdownRealm
  exact (Conf.foldl_leave r.clients (r := { r with retries := [], deferred := [], inbox := [], tasks := [] }) h).flush

/-! ### the clock: every realm advances on its own -/

/-- the fold of `Router.step (.tick ms)` -/
def tickFold (ms : Nat) (l : List (String × Realm)) (acc : RObserved × Router) : RObserved × Router :=
  l.foldl (fun (acc : RObserved × Router) p =>
      let (o, r) := p.2.step (.tick ms)
      (merge acc.1 o, acc.2.setRealm p.1 r)) acc

theorem step_tick_eq (rt : Router) (ms : Nat) :
    rt.step (.tick ms) = tickFold ms rt.realms ({}, { rt with now := rt.now + ms }) := rfl

theorem tickFold_cons (ms : Nat) (p : String × Realm) (l : List (String × Realm)) (acc : RObserved × Router) :
    tickFold ms (p :: l) acc =
      tickFold ms l (merge acc.1 (p.2.step (.tick ms)).1, acc.2.setRealm p.1 (p.2.step (.tick ms)).2) := rfl

theorem tickFold_router (ms : Nat) : ∀ (l : List (String × Realm)) (acc : RObserved × Router),
    (l.map (·.1)).Nodup →
    (tickFold ms l acc).2.realms = acc.2.realms.map (fun q =>
          match l.find? (fun p => p.1 == q.1) with
          | some p => (p.1, (p.2.step (.tick ms)).2)
          | none => q) ∧
    (tickFold ms l acc).2.sessRealm = acc.2.sessRealm ∧ (tickFold ms l acc).2.closed = acc.2.closed ∧
    (tickFold ms l acc).2.created = acc.2.created
  | [], acc, _ => by
    refine ⟨?_, rfl, rfl, rfl⟩
    show acc.2.realms = _
    simp
  | p :: l, acc, hn => by
    rw [tickFold_cons]
    obtain ⟨h1, h2, h3, h4⟩ := tickFold_router ms l
      (merge acc.1 (p.2.step (.tick ms)).1, acc.2.setRealm p.1 (p.2.step (.tick ms)).2) (List.nodup_cons.mp hn).2
    refine ⟨?_, h2, h3, h4⟩
    rw [h1]
    have hp : ∀ x ∈ l, x.1 ≠ p.1 := fun x hx e =>
      (List.nodup_cons.mp hn).1 (List.mem_map.mpr ⟨x, hx, e⟩)
    simp only [setRealm, List.map_map]
    apply List.map_congr_left
    intro q _
    simp only [Function.comp, List.find?_cons]
    by_cases e : (q.1 == p.1) = true
    · have e' : q.1 = p.1 := by simpa using e
      have e2 : (p.1 == q.1) = true := by simp [e']
      have : l.find? (fun x => x.1 == p.1) = none :=
        List.find?_eq_none.mpr (fun x hx => by simpa using hp x hx)
      simp [e, e2, this]
    · have e' : q.1 ≠ p.1 := by simpa using e
      have e2 : (p.1 == q.1) = false := by simpa using fun h => e' h.symm
      simp [e, e2]

theorem tickFold_obs (ms : Nat) : ∀ (l : List (String × Realm)) (acc : RObserved × Router),
    (tickFold ms l acc).1.out = acc.1.out ++ l.flatMap (fun p => (p.2.step (.tick ms)).1.out) ∧
    (tickFold ms l acc).1.closed = acc.1.closed ++ l.flatMap (fun p => (p.2.step (.tick ms)).1.closed)
  | [], acc => by simp [tickFold]
  | p :: l, acc => by
    rw [tickFold_cons]
    obtain ⟨h1, h2⟩ := tickFold_obs ms l (merge acc.1 (p.2.step (.tick ms)).1, acc.2.setRealm p.1 (p.2.step (.tick ms)).2)
    rw [h1, h2]
    simp [merge, List.append_assoc]

theorem find?_self {l : List (String × Realm)} (hn : (l.map (·.1)).Nodup) {q : String × Realm} (hq : q ∈ l) :
    l.find? (fun p => p.1 == q.1) = some q := by
  induction l with
  | nil => cases hq
  | cons x l ih =>
    simp only [List.map_cons, List.nodup_cons] at hn
    rcases List.mem_cons.mp hq with rfl | hq
    · simp
    · have : x.1 ≠ q.1 := fun e => hn.1 (e ▸ List.mem_map_of_mem (f := (·.1)) hq)
      simp [this, ih hn.2 hq]

/-- the clock advances every realm by its own `Realm.step (.tick ms)`, pointwise -/
theorem step_tick_realms (rt : Router) (ms : Nat) (hn : (rt.realms.map (·.1)).Nodup) :
    (rt.step (.tick ms)).2.realms = rt.realms.map (fun q => (q.1, (q.2.step (.tick ms)).2)) ∧
    (rt.step (.tick ms)).2.sessRealm = rt.sessRealm ∧ (rt.step (.tick ms)).2.closed = rt.closed ∧
    (rt.step (.tick ms)).2.created = rt.created := by
  rw [step_tick_eq]
  obtain ⟨h1, h2, h3, h4⟩ := tickFold_router ms rt.realms ({}, { rt with now := rt.now + ms }) hn
  refine ⟨?_, h2, h3, h4⟩
  rw [h1]
  apply List.map_congr_left
  intro q hq
  rw [find?_self hn hq]

/-! ### equations of `Router.step` -/

/-- the router after the on-demand creation of realm `name` from the realm template
    (`Config.RealmTemplate`): unchanged unless the realm is absent, a template is configured and
    `Realm.create` accepts the template for that name -/
def ensureRealm (rt : Router) (name : String) : Router :=
  match rt.realm? name, rt.template with
  | none, some t =>
    match Realm.create { t with uri := name } with
    | some r => { rt with realms := rt.realms ++ [(name, { r with pubCount := rt.created * 1000000, now := rt.now })],
                          created := rt.created + 1 }
    | none => rt
  | _, _ => rt

theorem step_join (rt : Router) (name : String) (k : SessKey) (l : Bool) (d : Dict) (ro : Roles) (c : Nat) :
    rt.step (.join name k l d ro c) =
      if rt.closed || name == "" then ({ refused := true }, rt) else
      match (rt.ensureRealm name).realm? name with
      | none => ({ refused := true }, rt.ensureRealm name)
      | some r =>
        (merge {} (r.step (.join k l d ro c)).1,
         { (rt.ensureRealm name).setRealm name (r.step (.join k l d ro c)).2 with
             sessRealm := (rt.ensureRealm name).sessRealm ++ [(k, name)] }) := rfl

/-- what `ensureRealm` can do: nothing, or append one fresh realm named `name` created from the
    template -/
theorem ensureRealm_cases (rt : Router) (name : String) :
    rt.ensureRealm name = rt ∨
    (rt.realm? name = none ∧ ∃ t r, rt.template = some t ∧ Realm.create { t with uri := name } = some r ∧
      rt.ensureRealm name =
        { rt with realms := rt.realms ++ [(name, { r with pubCount := rt.created * 1000000, now := rt.now })],
                  created := rt.created + 1 }) := by
  unfold ensureRealm
  split
  · rename_i t hr ht
    split
    · rename_i r hc
      exact Or.inr ⟨hr, t, r, ht, hc, rfl⟩
    · exact Or.inl rfl
  · exact Or.inl rfl

theorem ensureRealm_fields (rt : Router) (name : String) :
    (rt.ensureRealm name).sessRealm = rt.sessRealm ∧ (rt.ensureRealm name).closed = rt.closed ∧
    (rt.ensureRealm name).template = rt.template ∧
    ((rt.ensureRealm name).realms = rt.realms ∨
      (rt.realm? name = none ∧ ∃ r, (rt.ensureRealm name).realms = rt.realms ++ [(name, r)])) := by
  rcases ensureRealm_cases rt name with h | ⟨hn, t, r, _, _, h⟩
  · rw [h]; exact ⟨rfl, rfl, rfl, Or.inl rfl⟩
  · rw [h]; exact ⟨rfl, rfl, rfl, Or.inr ⟨hn, _, rfl⟩⟩

theorem others_ensureRealm (rt : Router) (name : String) : (rt.ensureRealm name).others name = rt.others name := by
  unfold others
  rcases (ensureRealm_fields rt name).2.2.2 with h | ⟨_, r, h⟩
  · rw [h]
  · rw [h, List.filter_append]
    simp

theorem step_sess (rt : Router) (k : SessKey) (op : Op) :
    rt.step (.sess k op) =
      match rt.realmOf k with
      | none => ({}, rt)
      | some name =>
        match rt.realm? name with
        | none => ({}, rt)
        | some r => (merge {} (r.step op).1, rt.setRealm name (r.step op).2) := rfl

theorem step_remove (rt : Router) (A : String) :
    rt.step (.removeRealm A) =
      match rt.realm? A with
      | none => ({}, rt)
      | some r => (merge {} (shutdownRealm r).1, { rt with realms := rt.realms.filter (fun p => p.1 != A) }) := rfl

theorem step_add (rt : Router) (cfg : Config) :
    rt.step (.addRealm cfg) =
      if rt.closed || rt.realms.any (fun p => p.1 == cfg.uri) then ({ refused := true }, rt)
      else match Realm.create cfg with
        | some r => ({}, { rt with realms := rt.realms ++ [(cfg.uri, { r with pubCount := rt.created * 1000000, now := rt.now })],
                                   created := rt.created + 1 })
        | none => ({ refused := true }, rt) := rfl

theorem step_rnd (rt : Router) (n : Nat) :
    rt.step (.rnd n) = ({}, { rt with realms := rt.realms.map (fun p => (p.1, { p.2 with rnd := n })) }) := rfl

theorem step_close (rt : Router) :
    rt.step .close =
      (rt.realms.foldl (fun (acc : RObserved) p => merge acc (shutdownRealm p.2).1) {},
       { rt with realms := [], closed := true }) := rfl

theorem step_join_refused {rt : Router} {name : String} (h : (rt.closed || name == "") = true) (k : SessKey) (l : Bool)
    (d : Dict) (ro : Roles) (c : Nat) : rt.step (.join name k l d ro c) = ({ refused := true }, rt) := by
  rw [step_join, if_pos h]

theorem step_join_none {rt : Router} {name : String} (hc : (rt.closed || name == "") = false)
    (h : (rt.ensureRealm name).realm? name = none) (k : SessKey) (l : Bool) (d : Dict)
    (ro : Roles) (c : Nat) : rt.step (.join name k l d ro c) = ({ refused := true }, rt.ensureRealm name) := by
  rw [step_join, hc, h]; simp

theorem step_join_some {rt : Router} {name : String} {r : Realm} (hc : (rt.closed || name == "") = false)
    (h : (rt.ensureRealm name).realm? name = some r)
    (k : SessKey) (l : Bool) (d : Dict) (ro : Roles) (c : Nat) :
    rt.step (.join name k l d ro c) =
      (merge {} (r.step (.join k l d ro c)).1,
       { (rt.ensureRealm name).setRealm name (r.step (.join k l d ro c)).2 with
           sessRealm := (rt.ensureRealm name).sessRealm ++ [(k, name)] }) := by
  rw [step_join, hc, h]; simp

theorem step_sess_unknown {rt : Router} {k : SessKey} (h : rt.realmOf k = none) (op : Op) :
    rt.step (.sess k op) = ({}, rt) := by
  rw [step_sess, h]

theorem step_sess_gone {rt : Router} {k : SessKey} {A : String} (h : rt.realmOf k = some A)
    (hr : rt.realm? A = none) (op : Op) : rt.step (.sess k op) = ({}, rt) := by
  rw [step_sess, h]; simp only [hr]

theorem step_sess_some {rt : Router} {k : SessKey} {A : String} {r : Realm} (h : rt.realmOf k = some A)
    (hr : rt.realm? A = some r) (op : Op) :
    rt.step (.sess k op) = (merge {} (r.step op).1, rt.setRealm A (r.step op).2) := by
  rw [step_sess, h]; simp only [hr]

theorem step_remove_none {rt : Router} {A : String} (h : rt.realm? A = none) :
    rt.step (.removeRealm A) = ({}, rt) := by
  rw [step_remove, h]

theorem step_remove_some {rt : Router} {A : String} {r : Realm} (h : rt.realm? A = some r) :
    rt.step (.removeRealm A) =
      (merge {} (shutdownRealm r).1, { rt with realms := rt.realms.filter (fun p => p.1 != A) }) := by
  rw [step_remove, h]

theorem merge_empty_out (o : Realm.Observed) : (merge {} o).out = o.out := rfl
theorem merge_empty_closed (o : Realm.Observed) : (merge {} o).closed = o.closed := rfl

/-! ### the invariant is preserved -/

theorem Inv.mono_joined {rt rt' : Router} (hs : ∀ x ∈ rt.sessRealm, x ∈ rt'.sessRealm) (A : String) (k : SessKey) :
    rt.joined A k → rt'.joined A k := hs _

theorem Inv.setRealm {rt : Router} (hi : Inv rt) {A : String} {r' : Realm} (sr : List (SessKey × String))
    (hs : ∀ x ∈ rt.sessRealm, x ∈ sr) (hr : Conf (fun k => (k, A) ∈ sr) r') :
    Inv { rt.setRealm A r' with sessRealm := sr } := by
  refine ⟨?_, ?_⟩
  · show ((rt.setRealm A r').realms.map (·.1)).Nodup
    rw [names_setRealm]; exact hi.names
  · intro p hp
    rcases mem_setRealm (rt := rt) hp with ⟨rfl, _⟩ | ⟨hp, _⟩
    · exact hr
    · exact (hi.conf p hp).mono (fun k hk => hs _ hk)

/-- creating the joined realm from the template keeps the invariant: the name is fresh (the realm
    was absent) and a new realm has no sessions -/
theorem Inv.ensureRealm {rt : Router} (hi : Inv rt) (name : String) : Inv (rt.ensureRealm name) := by
  rcases ensureRealm_cases rt name with h | ⟨hn, t, r, _, hcr, h⟩
  · rw [h]; exact hi
  · rw [h]
    refine ⟨?_, ?_⟩
    · show ((rt.realms ++ [(name, _)]).map (fun p : String × Realm => p.1)).Nodup
      rw [List.map_append, List.nodup_append]
      refine ⟨hi.names, by simp, ?_⟩
      intro a ha b hb
      have hb' : b = name := by simpa using hb
      rw [hb']
      obtain ⟨q, hq, rfl⟩ := List.mem_map.mp ha
      exact realm?_none hn q hq
    · intro p hp
      rcases List.mem_append.mp hp with hp | hp
      · exact hi.conf p hp
      · rw [List.mem_singleton.mp hp]
        exact create_conf (cfg := { t with uri := name }) hcr _

theorem Inv.step {rt : Router} (hi : Inv rt) (rop : ROp) (hw : rop.wf) : Inv (rt.step rop).2 := by
  cases rop with
  | join name k l d ro c =>
    cases hc : (rt.closed || name == "") with
    | true => rw [step_join_refused hc]; exact hi
    | false =>
      have hi' : Inv (rt.ensureRealm name) := hi.ensureRealm name
      cases hr : (rt.ensureRealm name).realm? name with
      | none => rw [step_join_none hc hr]; exact hi'
      | some r =>
        rw [step_join_some hc hr]
        refine hi'.setRealm _ (fun x hx => List.mem_append_left _ hx) ?_
        have h0 : Conf (fun k' => (k', name) ∈ (rt.ensureRealm name).sessRealm ++ [(k, name)]) r := by
          refine (hi'.conf _ (realm?_mem hr)).mono ?_
          intro k' hk'
          exact List.mem_append_left _ hk'
        refine (h0.step _ ?_).1
        intro k' l' d' ro' c' e
        cases e
        exact List.mem_append_right _ (List.mem_singleton.mpr rfl)
  | sess k op =>
    cases h : rt.realmOf k with
    | none => rw [step_sess_unknown h]; exact hi
    | some A =>
      cases hr : rt.realm? A with
      | none => rw [step_sess_gone h hr]; exact hi
      | some r =>
        rw [step_sess_some h hr]
        refine hi.setRealm (rt := rt) rt.sessRealm (fun x hx => hx) ?_
        refine ((hi.conf _ (realm?_mem hr)).step op ?_).1
        intro k' l d ro c e
        rw [e] at hw
        cases hw
  | tick ms =>
    obtain ⟨h1, h2, _, _⟩ := step_tick_realms rt ms hi.names
    refine ⟨?_, ?_⟩
    · rw [h1, List.map_map]; exact hi.names
    · intro p hp
      rw [h1] at hp
      obtain ⟨q, hq, rfl⟩ := List.mem_map.mp hp
      have := ((hi.conf q hq).step (.tick ms) (fun _ _ _ _ _ e => by cases e)).1
      refine this.mono ?_
      intro k hk
      show (k, q.1) ∈ _
      rw [h2]; exact hk
  | rnd n =>
    rw [step_rnd]
    refine ⟨?_, ?_⟩
    · show ((rt.realms.map (fun p => (p.1, { p.2 with rnd := n }))).map (·.1)).Nodup
      rw [List.map_map]; exact hi.names
    · intro p hp
      obtain ⟨q, hq, rfl⟩ := List.mem_map.mp hp
      exact hi.conf q hq
  | close => rw [step_close]; exact ⟨List.nodup_nil, fun p hp => by cases hp⟩
  | removeRealm A =>
    cases hr : rt.realm? A with
    | none => rw [step_remove_none hr]; exact hi
    | some r =>
      rw [step_remove_some hr]
      refine ⟨?_, ?_⟩
      · exact ((List.filter_sublist (l := rt.realms)).map (fun p : String × Realm => p.1)).nodup hi.names
      · intro p hp
        exact hi.conf p (List.mem_filter.mp hp).1
  | addRealm cfg =>
    rw [step_add]
    split
    · exact hi
    · rename_i hc
      split
      · rename_i r hr
        refine ⟨?_, ?_⟩
        · show ((rt.realms ++ [(cfg.uri, _)]).map (fun p : String × Realm => p.1)).Nodup
          rw [List.map_append, List.nodup_append]
          refine ⟨hi.names, by simp, ?_⟩
          intro a ha b hb
          simp only [List.map_cons, List.map_nil, List.mem_singleton] at hb
          subst hb
          obtain ⟨q, hq, rfl⟩ := List.mem_map.mp ha
          intro e
          apply hc
          simp only [Bool.or_eq_true, List.any_eq_true]
          right
          exact ⟨q, hq, by simp [e]⟩
        · intro p hp
          rcases List.mem_append.mp hp with hp | hp
          · exact hi.conf p hp
          · rw [List.mem_singleton.mp hp]
            exact create_conf hr _
      · exact hi

/-! ### the router's clock -/

/-- the time an operation lets pass: `ms` for `.tick ms`, none for every other operation -/
def _root_.Nexus.L2.ROp.elapsed : ROp → Nat
  | .tick ms => ms
  | _ => 0

theorem tickFold_now (ms : Nat) : ∀ (l : List (String × Realm)) (acc : RObserved × Router),
    (tickFold ms l acc).2.now = acc.2.now
  | [], _ => rfl
  | p :: l, acc => by rw [tickFold_cons]; exact tickFold_now ms l _

theorem ensureRealm_now (rt : Router) (name : String) : (rt.ensureRealm name).now = rt.now := by
  rcases ensureRealm_cases rt name with h | ⟨_, _, _, _, _, h⟩ <;> rw [h]

/-- the router's clock is advanced by `.tick ms` (by `ms`) and by nothing else -/
theorem step_now (rt : Router) (rop : ROp) : (rt.step rop).2.now = rt.now + rop.elapsed := by
  cases rop with
  | join name k l d ro c =>
    cases hc : (rt.closed || name == "") with
    | true => rw [step_join_refused hc]; rfl
    | false =>
      cases hr : (rt.ensureRealm name).realm? name with
      | none => rw [step_join_none hc hr]; exact ensureRealm_now rt name
      | some r => rw [step_join_some hc hr]; exact ensureRealm_now rt name
  | sess k op =>
    cases h : rt.realmOf k with
    | none => rw [step_sess_unknown h]; rfl
    | some A =>
      cases hr : rt.realm? A with
      | none => rw [step_sess_gone h hr]; rfl
      | some r => rw [step_sess_some h hr]; rfl
  | tick ms => rw [step_tick_eq, tickFold_now]; rfl
  | rnd n => rfl
  | close => rfl
  | removeRealm A =>
    cases hr : rt.realm? A with
    | none => rw [step_remove_none hr]; rfl
    | some r => rw [step_remove_some hr]; rfl
  | addRealm cfg =>
    rw [step_add]
    split
    · rfl
    · split <;> rfl

/-! ### lookups -/

theorem find?_congr' {α : Type} {p q : α → Bool} : ∀ {l : List α}, (∀ x ∈ l, p x = q x) → l.find? p = l.find? q
  | [], _ => rfl
  | x :: l, h => by
    simp only [List.find?_cons, h x (List.mem_cons_self ..)]
    rw [find?_congr' (fun y hy => h y (List.mem_cons_of_mem _ hy))]

theorem realm?_of_others {rt rt' : Router} {A B : String} (hB : B ≠ A) (h : rt'.others A = rt.others A) :
    rt'.realm? B = rt.realm? B := by
  have key : ∀ r : Router, r.realm? B = ((r.others A).find? (fun p => p.1 == B)).map (·.2) := by
    intro r
    unfold realm? others
    rw [List.find?_filter]
    congr 1
    apply find?_congr'
    intro x _
    by_cases e : x.1 = B
    · simp [e, hB]
    · simp [e]
  rw [key rt', key rt, h]

theorem realm?_setRealm_self {rt : Router} {A : String} {r : Realm} (r' : Realm) (h : rt.realm? A = some r) :
    (rt.setRealm A r').realm? A = some r' := by
  unfold realm? setRealm at *
  rw [List.find?_map]
  cases hf : rt.realms.find? (fun p => p.1 == A) with
  | none => rw [hf] at h; cases h
  | some p =>
    have hp : p.1 = A := by simpa using List.find?_some hf
    have : rt.realms.find? ((fun p => p.1 == A) ∘ fun p => if p.1 == A then (A, r') else p) = some p := by
      rw [← hf]
      apply find?_congr'
      intro x _
      by_cases e : x.1 = A
      · simp [e]
      · simp [e]
    rw [this]
    simp [hp]

theorem pair_eq_of_nodup_fst {α β : Type} {l : List (α × β)} (hn : (l.map (·.1)).Nodup) {p q : α × β}
    (hp : p ∈ l) (hq : q ∈ l) (h : p.1 = q.1) : p = q := by
  induction l with
  | nil => cases hp
  | cons x l ih =>
    simp only [List.map_cons, List.nodup_cons] at hn
    rcases List.mem_cons.mp hp with e1 | hp' <;> rcases List.mem_cons.mp hq with e2 | hq'
    · rw [e1, e2]
    · exact (hn.1 (List.mem_map.mpr ⟨q, hq', by rw [← h, e1]⟩)).elim
    · exact (hn.1 (List.mem_map.mpr ⟨p, hp', by rw [h, e2]⟩)).elim
    · exact ih hn.2 hp' hq'

theorem find?_fst_of_nodup {l : List (SessKey × String)} (hn : (l.map (·.1)).Nodup) {p : SessKey × String}
    (hp : p ∈ l) : l.find? (fun x => x.1 == p.1) = some p := by
  induction l with
  | nil => cases hp
  | cons x l ih =>
    simp only [List.map_cons, List.nodup_cons] at hn
    rcases List.mem_cons.mp hp with rfl | hp
    · simp
    · have : x.1 ≠ p.1 := fun e => hn.1 (List.mem_map.mpr ⟨p, hp, e.symm⟩)
      simp [this, ih hn.2 hp]

theorem tick_fields (rt : Router) (ms : Nat) :
    (rt.step (.tick ms)).2.sessRealm = rt.sessRealm ∧ (rt.step (.tick ms)).2.closed = rt.closed := by
  rw [step_tick_eq]
  have : ∀ (l : List (String × Realm)) (acc : RObserved × Router),
      (tickFold ms l acc).2.sessRealm = acc.2.sessRealm ∧ (tickFold ms l acc).2.closed = acc.2.closed := by
    intro l
    induction l with
    | nil => intro acc; exact ⟨rfl, rfl⟩
    | cons p l ih => intro acc; rw [tickFold_cons]; exact ih _
  exact this _ _

theorem closeFold_obs : ∀ (l : List (String × Realm)) (acc : RObserved),
    (l.foldl (fun (acc : RObserved) p => merge acc (shutdownRealm p.2).1) acc).out =
      acc.out ++ l.flatMap (fun p => (shutdownRealm p.2).1.out) ∧
    (l.foldl (fun (acc : RObserved) p => merge acc (shutdownRealm p.2).1) acc).closed =
      acc.closed ++ l.flatMap (fun p => (shutdownRealm p.2).1.closed)
  | [], acc => by simp
  | p :: l, acc => by
    obtain ⟨h1, h2⟩ := closeFold_obs l (merge acc (shutdownRealm p.2).1)
    simp only [List.foldl_cons, List.flatMap_cons]
    rw [h1, h2]
    simp [merge, List.append_assoc]

/-! ### the initial router -/

/-- one step of the fold in `Router.create` -/
def createStep (acc : Option Router) (cfg : Config) : Option Router :=
  match acc with
  | none => none
  | some rt =>
    if rt.realms.any (fun p => p.1 == cfg.uri) then none
    else match Realm.create cfg with
      | some r => some { rt with realms := rt.realms ++ [(cfg.uri, { r with pubCount := rt.created * 1000000 })],
                                 created := rt.created + 1 }
      | none => none

theorem create_eq (cfgs : List Config) : Router.create cfgs = cfgs.foldl createStep (some {}) := rfl

theorem createStep_inv {acc : Option Router} (h : ∀ rt, acc = some rt → Inv rt) (cfg : Config) :
    ∀ rt, createStep acc cfg = some rt → Inv rt := by
  intro rt' e
  unfold createStep at e
  split at e
  · cases e
  · rename_i rt
    have hi := h rt rfl
    split at e
    · cases e
    · rename_i hc
      split at e
      · rename_i r hr
        cases e
        refine ⟨?_, ?_⟩
        · show ((rt.realms ++ [(cfg.uri, _)]).map (fun p : String × Realm => p.1)).Nodup
          rw [List.map_append, List.nodup_append]
          refine ⟨hi.names, by simp, ?_⟩
          intro a ha b hb
          simp only [List.map_cons, List.map_nil, List.mem_singleton] at hb
          subst hb
          obtain ⟨q, hq, rfl⟩ := List.mem_map.mp ha
          intro e
          apply hc
          simp only [List.any_eq_true]
          exact ⟨q, hq, by simp [e]⟩
        · intro p hp
          rcases List.mem_append.mp hp with hp | hp
          · exact hi.conf p hp
          · rw [List.mem_singleton.mp hp]
            exact create_conf hr _
      · cases e

theorem foldl_createStep_inv : ∀ (cfgs : List Config) (acc : Option Router), (∀ rt, acc = some rt → Inv rt) →
    ∀ rt, cfgs.foldl createStep acc = some rt → Inv rt
  | [], _, h => h
  | cfg :: cfgs, _, h => foldl_createStep_inv cfgs _ (createStep_inv h cfg)

theorem create_inv {cfgs : List Config} {rt : Router} (h : Router.create cfgs = some rt) : Inv rt := by
  rw [create_eq] at h
  refine foldl_createStep_inv cfgs (some {}) ?_ rt h
  intro rt0 e
  cases e
  exact ⟨List.nodup_nil, fun p hp => by cases hp⟩

/-- the invariant does not mention the realm template -/
theorem Inv.withTemplate {rt : Router} (hi : Inv rt) (t : Option Config) : Inv { rt with template := t } :=
  ⟨hi.names, hi.conf⟩

/-- routers reachable by well-formed operations from the initial router `NewRouter` builds: the
    realms of `Router.create cfgs` together with the realm template `t` of the router configuration
    (`Config.RealmTemplate`; `none` = no template).  The template is fixed at construction and no
    operation changes it (`step_template`). -/
inductive Reachable : Router → Prop
  | init {cfgs : List Config} {rt : Router} (t : Option Config) :
      Router.create cfgs = some rt → Reachable { rt with template := t }
  | step {rt : Router} (rop : ROp) : Reachable rt → rop.wf → Reachable (rt.step rop).2

theorem Reachable.inv {rt : Router} (h : Reachable rt) : Inv rt := by
  induction h with
  | init t h => exact (create_inv h).withTemplate t
  | step rop _ hw ih => exact ih.step rop hw

/-- a router built without a template (`Router.create` as it stands) is reachable -/
theorem Reachable.init0 {cfgs : List Config} {rt : Router} (h : Router.create cfgs = some rt) : Reachable rt := by
  have e : rt.template = none := by
    rw [create_eq] at h
    have key : ∀ (cfgs : List Config) (acc : Option Router), (∀ r, acc = some r → r.template = none) →
        ∀ r, cfgs.foldl createStep acc = some r → r.template = none := by
      intro cfgs
      induction cfgs with
      | nil => intro acc ha; exact ha
      | cons c cs ih =>
        intro acc ha
        refine ih _ ?_
        intro r e
        unfold createStep at e
        split at e
        · cases e
        · rename_i r0
          split at e
          · cases e
          · split at e
            · cases e; exact ha r0 rfl
            · cases e
    exact key cfgs (some {}) (fun r e => by cases e; rfl) rt h
  have : rt = { rt with template := none } := by cases rt; simp_all
  rw [this]
  exact .init none h

/-- no operation changes the realm template -/
theorem step_template (rt : Router) (rop : ROp) : (rt.step rop).2.template = rt.template := by
  cases rop with
  | join name k l d ro c =>
    cases hc : (rt.closed || name == "") with
    | true => rw [step_join_refused hc]
    | false =>
      cases hr : (rt.ensureRealm name).realm? name with
      | none => rw [step_join_none hc hr]; exact (ensureRealm_fields rt name).2.2.1
      | some r => rw [step_join_some hc hr]; exact (ensureRealm_fields rt name).2.2.1
  | sess k op =>
    cases h : rt.realmOf k with
    | none => rw [step_sess_unknown h]
    | some A =>
      cases hr : rt.realm? A with
      | none => rw [step_sess_gone h hr]
      | some r => rw [step_sess_some h hr]; rfl
  | tick ms =>
    rw [step_tick_eq]
    have : ∀ (l : List (String × Realm)) (acc : RObserved × Router), (tickFold ms l acc).2.template = acc.2.template := by
      intro l
      induction l with
      | nil => intro acc; rfl
      | cons p l ih => intro acc; rw [tickFold_cons]; exact ih _
    exact this _ _
  | rnd n => rfl
  | close => rfl
  | removeRealm A =>
    cases hr : rt.realm? A with
    | none => rw [step_remove_none hr]
    | some r => rw [step_remove_some hr]
  | addRealm cfg =>
    rw [step_add]
    split
    · rfl
    · split <;> rfl

end Router
end Nexus.L2
