/-
  Post-join stability of session details (helpers for C09, audit item a4).

  `idPart r = (r.clients, r.metaProcs)`: the attached sessions (with their details) and the table
  of registered meta procedures.  Every function of `Nexus.L2.Realm` returns `idPart` unchanged
  except
    * `stepOp (.join …)`      appends the joining session (details as given by the attach);
    * `stepOp (.stall/.resume/.buffer)` sets a transport flag of one session (key, details kept);
    * `leave`                  removes one session;
    * `metaProc MetaProcSessionModifyDetails` replaces the details of one session.
  So in a realm where `wamp.session.modify_details` is not registered (`Config.metaModify = false`)
  the details of an attached session never change (`KeepsDetails.step`); with it they can be
  rewritten by any caller the dealer lets through (`Nexus.C09.modify_details_rewrites_authid`).
-/
import Nexus.L2.Proofs.RealmBase

namespace Nexus.L2
namespace Realm
namespace WpD
open Gen.N

def idPart (r : Realm) : List Session × List (Nat × String) := (r.clients, r.metaProcs)

theorem idPart_setPanic (r : Realm) (p : Option String) : idPart (r.setPanic p) = idPart r := by
  unfold setPanic; split <;> rfl

theorem idPart_addTasks (r : Realm) (ts : List Task) : idPart (r.addTasks ts) = idPart r := rfl

theorem idPart_trySend (r : Realm) (s : Send) : idPart (r.trySend s) = idPart r := by
  unfold trySend
  split
  · split <;> rfl
  · split
    · exact idPart_setPanic _ _
    · split
      · rfl
      · split <;> rfl

theorem idPart_deliver (ss : List Send) : ∀ (r : Realm), idPart (r.deliver ss) = idPart r := by
  induction ss with
  | nil => intro r; rfl
  | cons s ss ih => intro r; simp only [deliver]; rw [ih, idPart_trySend]

theorem idPart_applyD (r : Realm) (o : DOut) : idPart (r.applyD o) = idPart r := by
  unfold applyD
  simp only [idPart_setPanic]
  show idPart (({ r with ds := o.st } : Realm).deliver o.sends) = idPart r
  rw [idPart_deliver]
  rfl

macro "idp_tac" : tactic => `(tactic| (
  try dsimp only
  repeat' split
  all_goals (try simp only [idPart_trySend, idPart_deliver, idPart_applyD, idPart_setPanic])
  all_goals (first | rfl | exact (idPart_trySend _ _) | skip)))

theorem idPart_handlePublish (r : Realm) (s : Session) (req : Nat) (opts : Dict) (topic : String)
    (args : List WVal) (kw : Dict) : idPart (handlePublish r s req opts topic args kw) = idPart r := by
  unfold handlePublish
  simp only [freshPub]
  idp_tac

theorem idPart_handleSubscribe (r : Realm) (s : Session) (req : Nat) (opts : Dict) (topic : String) :
    idPart (handleSubscribe r s req opts topic) = idPart r := by
  unfold handleSubscribe
  idp_tac

theorem idPart_handleUnsubscribe (r : Realm) (s : Session) (req sub : Nat) :
    idPart (handleUnsubscribe r s req sub) = idPart r := by
  unfold handleUnsubscribe
  idp_tac

theorem idPart_handleRegister (r : Realm) (s : Session) (req : Nat) (opts : Dict) (proc : String) :
    idPart (handleRegister r s req opts proc) = idPart r := by
  unfold handleRegister
  idp_tac

theorem idPart_handleUnregister (r : Realm) (s : Session) (req reg : Nat) :
    idPart (handleUnregister r s req reg) = idPart r := idPart_applyD _ _

theorem idPart_handleCall (r : Realm) (s : Session) (req : Nat) (opts : Dict) (proc : String)
    (args : List WVal) (kw : Dict) : idPart (handleCall r s req opts proc args kw) = idPart r :=
  idPart_applyD _ _

theorem idPart_handleCancel (r : Realm) (s : Session) (req : Nat) (opts : Dict) :
    idPart (handleCancel r s req opts) = idPart r := by
  unfold handleCancel
  idp_tac

theorem idPart_handleYield (r : Realm) (s : Session) (req : Nat) (opts : Dict) (args : List WVal) (kw : Dict) :
    idPart (handleYield r s req opts args kw) = idPart r := by
  unfold handleYield
  dsimp only
  split
  · exact Eq.trans rfl (idPart_applyD r _)
  · exact idPart_applyD _ _

theorem idPart_handleError (r : Realm) (s : Session) (req : Nat) (details : Dict) (err : String)
    (args : List WVal) (kw : Dict) : idPart (handleError r s req details err args kw) = idPart r :=
  idPart_applyD _ _

theorem idPart_authzGate (r : Realm) (s : Session) (m : Msg) : idPart (authzGate r s m).2 = idPart r := by
  unfold authzGate
  idp_tac

theorem idPart_handleMsg (r : Realm) (s : Session) (m : Msg) : idPart (handleMsg r s m) = idPart r := by
  unfold handleMsg
  have hg := idPart_authzGate r s m
  revert hg
  generalize authzGate r s m = g
  obtain ⟨ok, r'⟩ := g
  intro hg
  simp only [] at hg ⊢
  rw [← hg]
  split
  · rfl
  · split
    · exact idPart_handlePublish ..
    · exact idPart_handleYield ..
    · exact idPart_handleCall ..
    · exact idPart_handleCancel ..
    · exact idPart_handleSubscribe ..
    · exact idPart_handleRegister ..
    · exact idPart_handleUnsubscribe ..
    · exact idPart_handleUnregister ..
    · split
      · rfl
      · exact idPart_handleError ..
    · show idPart (r'.trySend _) = _
      exact idPart_trySend _ _
    · rfl

/-! ### session end -/

theorem idPart_takeTestaments (r : Realm) (k : SessKey) : idPart (r.takeTestaments k).2 = idPart r := by
  unfold takeTestaments
  split <;> rfl

theorem idPart_leaveSend (r : Realm) (k : SessKey) (mode : LeaveMode) : idPart (leaveSend r k mode) = idPart r := by
  cases mode <;> first | exact idPart_trySend _ _ | rfl

theorem idPart_leaveRemove (r : Realm) (k : SessKey) (quiet : Bool) : idPart (leaveRemove r k quiet) = idPart r := by
  unfold leaveRemove
  split
  · extract_lets o
    split
    rw [idPart_setPanic]
    rfl
  · extract_lets o ra
    split
    rw [idPart_deliver]
    exact Eq.trans rfl (idPart_applyD r o)

theorem idPart_leaveAnnounce (r : Realm) (s : Session) (tst : Option TBucket) (silent : Bool) :
    idPart (leaveAnnounce r s tst silent) = idPart r := by
  unfold leaveAnnounce
  split <;> rfl

/-- the state predicate: every attached session carries details allowed by `S`, and the table of
    meta procedures is `mp` -/
def KeepsDetails (S : SessKey → Dict → Prop) (mp : List (Nat × String)) (r : Realm) : Prop :=
  (∀ c ∈ r.clients, S c.key c.details) ∧ r.metaProcs = mp

variable {S : SessKey → Dict → Prop} {mp : List (Nat × String)}

theorem KeepsDetails.of_idPart {r r' : Realm} (h : KeepsDetails S mp r) (e : idPart r' = idPart r) :
    KeepsDetails S mp r' := by
  have e1 : r'.clients = r.clients := congrArg Prod.fst e
  have e2 : r'.metaProcs = r.metaProcs := congrArg Prod.snd e
  exact ⟨by rw [e1]; exact h.1, by rw [e2]; exact h.2⟩

theorem KeepsDetails.leave {r : Realm} (h : KeepsDetails S mp r) (k : SessKey) (mode : LeaveMode) :
    KeepsDetails S mp (r.leave k mode) := by
  cases hf : r.clients.find? (fun c => c.key == k) with
  | none => rw [leave_none mode hf]; exact h
  | some s =>
    rw [leave_some mode hf]
    have h4 : KeepsDetails S mp (leaveAnnounce (leaveRemove ((leaveSend r k mode).takeTestaments k).2 k mode.isShutdown) s
        ((leaveSend r k mode).takeTestaments k).1 mode.isShutdown) :=
      h.of_idPart (by rw [idPart_leaveAnnounce, idPart_leaveRemove, idPart_takeTestaments, idPart_leaveSend])
    revert h4
    generalize leaveAnnounce _ _ _ _ = r4
    intro h4
    exact ⟨fun c hc => h4.1 c (List.mem_filter.mp hc).1, h4.2⟩

/-! ### meta procedures other than `wamp.session.modify_details` -/

theorem ite_cases' {α : Sort _} {Q : α → Prop} {c : Prop} [Decidable c] {a b : α}
    (ha : c → Q a) (hb : ¬c → Q b) : Q (if c then a else b) := by
  split
  · exact ha ‹_›
  · exact hb ‹_›

theorem idPart_killWhere' {r r' : Realm} {n : Nat} {sel : Session → Bool} {g : Msg} {ka : Bool}
    (h : r.killWhere sel g ka = (n, r')) : idPart r' = idPart r := by
  have h2 := congrArg Prod.snd h
  dsimp only at h2
  subst h2
  rfl

/-- a meta procedure other than `modify_details` leaves the attached sessions as they are -/
theorem idPart_metaProc (r : Realm) (proc : String) (req : Nat) (details : Dict) (args : List WVal) (kw : Dict)
    (hne : (proc == MetaProcSessionModifyDetails) = false) :
    idPart (metaProc r proc req details args kw).2 = idPart r := by
  unfold metaProc
  extract_lets +onlyGivenNames caller reason message badReason
  clear_value caller reason message badReason
  repeat' (first
    | (refine ite_cases' (Q := fun x => idPart (Prod.snd x) = idPart _) (fun _ => ?_) (fun _ => ?_))
    | split
    | dsimp only)
  all_goals first
    | rfl
    | (apply idPart_killWhere'; assumption)
    | (rename_i h; rw [hne] at h; exact absurd h (by decide))
    | (simp_all)

theorem KeepsDetails.recvMsg {r : Realm} (h : KeepsDetails S mp r) (k : SessKey) (m : Msg) :
    KeepsDetails S mp (r.recvMsg k m) := by
  rw [recvMsg_eq]
  split
  · exact h
  · split
    · exact h
    · split
      · split <;> exact h
      · exact h.of_idPart (idPart_handleMsg _ _ _)

theorem KeepsDetails.runTask {r : Realm} (h : KeepsDetails S mp r)
    (hmp : ∀ p ∈ mp, (p.2 == MetaProcSessionModifyDetails) = false) (t : Task) :
    KeepsDetails S mp (r.runTask t) := by
  cases t with
  | inMsg k m => exact h.recvMsg k m
  | metaPub p => exact h.of_idPart (idPart_handlePublish _ _ _ _ _ _ _)
  | metaInvoke req reg details args kw =>
    rw [runTask_metaInvoke]
    split
    · exact h
    · rename_i x proc hf
      have hm : (x, proc) ∈ mp := h.2 ▸ List.mem_of_find?_eq_some hf
      exact h.of_idPart ((idPart_addTasks _ _).trans (idPart_metaProc r proc req details args kw (hmp _ hm)))
  | metaMsg m => exact h.of_idPart (idPart_handleMsg _ _ _)
  | leave k mode =>
    rw [runTask_leave]
    split
    · exact h
    · exact h.leave k mode

theorem KeepsDetails.drain (hmp : ∀ p ∈ mp, (p.2 == MetaProcSessionModifyDetails) = false) :
    ∀ (fuel : Nat) {r : Realm}, KeepsDetails S mp r → KeepsDetails S mp (drain fuel r)
  | 0, r, h => by
    rw [drain_zero]
    split
    · exact h
    · exact h.of_idPart (idPart_setPanic _ _)
  | fuel + 1, r, h => by
    cases ht : r.tasks with
    | nil => rw [drain_succ_nil _ _ ht]; exact h
    | cons t ts =>
      rw [drain_succ_cons _ _ t ts ht]
      exact KeepsDetails.drain hmp fuel (KeepsDetails.runTask (r := { r with tasks := ts }) h hmp t)


/-! ### external inputs -/

theorem KeepsDetails.stepOp {r : Realm} (h : KeepsDetails S mp r) (op : Op)
    (hj : ∀ k l d ro c, op = .join k l d ro c → S k d) : KeepsDetails S mp (r.stepOp op) := by
  cases op with
  | join k isLocal details roles cap =>
    have hk := hj k isLocal details roles cap rfl
    rw [stepOp_join]
    split
    · exact h
    refine ⟨?_, h.2⟩
    intro c hc
    rcases List.mem_append.mp hc with hc | hc
    · exact h.1 c hc
    · rw [List.mem_singleton.mp hc]; exact hk
  | msg k m => exact h.recvMsg k m
  | buffer k =>
    rw [stepOp_buffer]
    refine ⟨?_, h.2⟩
    intro c hc
    obtain ⟨c0, hc0, rfl⟩ := List.mem_map.mp hc
    by_cases e : (c0.key == k) = true
    · simpa [e] using h.1 c0 hc0
    · simpa [e] using h.1 c0 hc0
  | drop k =>
    rw [stepOp_drop]
    split
    · exact h
    split <;> exact h
  | stall k =>
    rw [stepOp_stall]
    refine ⟨?_, h.2⟩
    intro c hc
    obtain ⟨c0, hc0, rfl⟩ := List.mem_map.mp hc
    by_cases e : (c0.key == k) = true
    · simpa [e] using h.1 c0 hc0
    · simpa [e] using h.1 c0 hc0
  | resume k =>
    rw [stepOp_resume]
    refine ⟨?_, h.2⟩
    intro c hc
    obtain ⟨c0, hc0, rfl⟩ := List.mem_map.mp hc
    by_cases e : (c0.key == k) = true
    · simpa [e] using h.1 c0 hc0
    · simpa [e] using h.1 c0 hc0
  | tick ms => exact h
  | rnd n => exact h

theorem KeepsDetails.retryDue {r : Realm} (h : KeepsDetails S mp r) (x : Retry) : KeepsDetails S mp (r.retryDue x) := by
  unfold Realm.retryDue
  extract_lets r1 canRetry o r2
  have h2 : KeepsDetails S mp r2 := h.of_idPart (Eq.trans (idPart_applyD r1 o) rfl)
  split <;> exact h2

theorem KeepsDetails.timerDue {r : Realm} (h : KeepsDetails S mp r) (t : Timer) : KeepsDetails S mp (r.timerDue t) := by
  unfold Realm.timerDue
  extract_lets ds1 r1
  exact h.of_idPart (Eq.trans (idPart_applyD r1 _) rfl)

theorem KeepsDetails.advance (hmp : ∀ p ∈ mp, (p.2 == MetaProcSessionModifyDetails) = false) :
    ∀ (fuel : Nat) {r : Realm} (target : Nat), KeepsDetails S mp r → KeepsDetails S mp (advance fuel r target)
  | 0, r, target, h => by
    unfold Realm.advance
    exact h.of_idPart (Eq.trans (idPart_setPanic _ _) rfl)
  | fuel + 1, r, target, h => by
    unfold Realm.advance
    split
    · exact h
    · rename_i d _
      extract_lets r1 r2
      refine KeepsDetails.advance hmp fuel target (KeepsDetails.drain hmp _ ?_)
      have h1 : KeepsDetails S mp r1 := h
      cases d with
      | timer t => exact h1.timerDue t
      | retry x => exact h1.retryDue x

theorem idPart_flush (r : Realm) : idPart r.flush.2 = idPart r := by
  unfold Realm.flush
  extract_lets reading out seenClosed keep keepEmpty
  rfl

/-- One external input run to quiescence, in a realm whose meta-procedure table `mp` does not
    contain `wamp.session.modify_details`: every attached session still carries details allowed by
    `S` (a joining session must bring allowed details), and the table is still `mp`. -/
theorem KeepsDetails.step {r : Realm} (h : KeepsDetails S mp r)
    (hmp : ∀ p ∈ mp, (p.2 == MetaProcSessionModifyDetails) = false) (op : Op)
    (hj : ∀ k l d ro c, op = .join k l d ro c → S k d) : KeepsDetails S mp (r.step op).2 := by
  by_cases ht : ∃ ms, op = .tick ms
  · obtain ⟨ms, rfl⟩ := ht
    rw [step_tick]
    exact (KeepsDetails.advance hmp _ _ h).of_idPart (idPart_flush _)
  · rw [step_of_not_tick r op (fun ms e => ht ⟨ms, e⟩)]
    exact (KeepsDetails.drain hmp _ (h.stepOp op hj)).of_idPart (idPart_flush _)

/-- a realm built by `Realm.create` from a configuration with `metaModify = false` does not
    register `wamp.session.modify_details` -/
theorem registerMeta_metaProcs : ∀ (ps : List String) (r : Realm),
    (registerMeta r ps).metaProcs.map (·.2) = r.metaProcs.map (·.2) ++ ps
  | [], r => by simp [registerMeta]
  | p :: ps, r => by
    unfold registerMeta
    extract_lets o id
    rw [registerMeta_metaProcs ps]
    simp

theorem create_no_modify {cfg : Config} {r : Realm} (h : Realm.create cfg = some r) (hm : cfg.metaModify = false) :
    ∀ p ∈ r.metaProcs, (p.2 == MetaProcSessionModifyDetails) = false := by
  unfold Realm.create at h
  split at h
  · cases h
  · split at h
    · cases h
    · extract_lets b d at h
      cases h
      intro p hp
      have hp2 : p.2 ∈ (registerMeta { cfg := cfg, broker := b, ds := { d := d } } (metaProcNames cfg)).metaProcs.map (·.2) :=
        List.mem_map_of_mem hp
      rw [registerMeta_metaProcs] at hp2
      simp only [List.map_nil, List.nil_append] at hp2
      unfold metaProcNames at hp2
      rw [hm] at hp2
      revert hp2
      generalize p.2 = x
      intro hx
      have hall : ∀ y ∈ ([MetaProcSessionCount, MetaProcSessionList, MetaProcSessionGet] ++
          [MetaProcSessionKill, MetaProcSessionKillByAuthid, MetaProcSessionKillByAuthrole, MetaProcSessionKillAll] ++
          [MetaProcRegList, MetaProcRegLookup, MetaProcRegMatch, MetaProcRegGet, MetaProcRegListCallees,
            MetaProcRegCountCallees, MetaProcSubList, MetaProcSubLookup, MetaProcSubMatch, MetaProcSubGet,
            MetaProcSubListSubscribers, MetaProcSubCountSubscribers, MetaProcEventHistory,
            MetaProcSessionAddTestament, MetaProcSessionFlushTestaments]),
          (y == MetaProcSessionModifyDetails) = false := by decide
      apply hall
      simp only [Bool.false_eq_true, if_false, List.append_nil, List.mem_append] at hx ⊢
      rcases hx with (h1 | h1) | h1
      · exact Or.inl (Or.inl h1)
      · split at h1
        · exact Or.inl (Or.inr h1)
        · cases h1
      · exact Or.inr h1

end WpD
end Realm
end Nexus.L2

/-! ## C09, audit item a4: "recorded … and shown to others ALWAYS"

The identity theorems of `Nexus.Props.C09` speak about the session details at the instant of the
attach.  Afterwards, in the L2 realm model (as in router/realm.go): -/

namespace Nexus.C09
open Nexus.L2 Nexus.L2.Realm Nexus.L2.Realm.WpD Nexus.Gen.N

/-- POST-JOIN STABILITY.  In a realm in which `wamp.session.modify_details` is not registered
    (`Config.metaModify = false`, `create_no_modify`), one external input run to quiescence —
    any message of any session, any meta-API call, departures, timeouts — leaves the details of
    every attached session exactly as they were: every session attached afterwards was attached
    before with the same key and the same details (ALL details, in particular `session`, `authid`,
    `authrole`, `authmethod`, `authprovider`), or is the session this very input attached, with the
    details the attach handed over.  The table of meta procedures is unchanged, so the hypothesis
    holds again for the next input. -/
theorem identity_stable_step (r : Realm) (op : Realm.Op)
    (hno : ∀ p ∈ r.metaProcs, (p.2 == MetaProcSessionModifyDetails) = false) :
    (∀ c' ∈ (r.step op).2.clients,
        (∃ c ∈ r.clients, c.key = c'.key ∧ c.details = c'.details) ∨
        (∃ l ro cap, op = .join c'.key l c'.details ro cap)) ∧
    (r.step op).2.metaProcs = r.metaProcs := by
  have h0 : KeepsDetails (fun k d => (∃ c ∈ r.clients, c.key = k ∧ c.details = d) ∨
      (∃ l ro cap, op = .join k l d ro cap)) r.metaProcs r :=
    ⟨fun c hc => Or.inl ⟨c, hc, rfl, rfl⟩, rfl⟩
  have h1 := h0.step hno op (fun k l d ro c e => Or.inr ⟨l, ro, c, e⟩)
  exact ⟨fun c' hc' => h1.1 c' hc', h1.2⟩

theorem session_eq_of_nodup_key : ∀ {l : List Session}, (l.map (·.key)).Nodup → ∀ {c s : Session},
    c ∈ l → s ∈ l → c.key = s.key → c = s
  | [], _, _, _, hc, _, _ => nomatch hc
  | x :: xs, hn, c, s, hc, hm, hck => by
    simp only [List.map_cons, List.nodup_cons] at hn
    rcases List.mem_cons.mp hc with e1 | hc'
    · rcases List.mem_cons.mp hm with e2 | hm'
      · rw [e1, e2]
      · exact (hn.1 (List.mem_map.mpr ⟨s, hm', by rw [← hck, e1]⟩)).elim
    · rcases List.mem_cons.mp hm with e2 | hm'
      · exact (hn.1 (List.mem_map.mpr ⟨c, hc', by rw [hck, e2]⟩)).elim
      · exact session_eq_of_nodup_key hn.2 hc' hm' hck

/-- The same as a lookup, for realms whose session keys are distinct: if `k` is attached before
    and after an input that is not a join of `k`, its details are the same. -/
theorem identity_stable_lookup (r : Realm) (op : Realm.Op)
    (hno : ∀ p ∈ r.metaProcs, (p.2 == MetaProcSessionModifyDetails) = false)
    (hn : (r.clients.map (·.key)).Nodup) (k : SessKey) (s s' : Session)
    (hs : r.clients.find? (fun c => c.key == k) = some s)
    (hs' : (r.step op).2.clients.find? (fun c => c.key == k) = some s')
    (hop : ∀ l d ro cap, op ≠ .join k l d ro cap) : s'.details = s.details := by
  obtain ⟨hm', hk'⟩ := find?_key hs'
  obtain ⟨hm, hk⟩ := find?_key hs
  rcases (identity_stable_step r op hno).1 s' hm' with ⟨c, hc, e1, e2⟩ | ⟨l, ro, cap, e⟩
  · have : c = s := session_eq_of_nodup_key hn hc hm (by rw [e1, hk', hk])
    rw [← e2, this]
  · rw [hk'] at e
    exact absurd e (hop _ _ _ _)

-- non-vacuity: realms built from a configuration with `metaModify = false` satisfy the hypothesis
example (cfg : Config) (r : Realm) (h : Realm.create cfg = some r) (hm : cfg.metaModify = false) :
    ∀ p ∈ r.metaProcs, (p.2 == MetaProcSessionModifyDetails) = false := create_no_modify h hm
example : (∀ p ∈ ({ clients := [{ key := 5, details := [("authid", .str "alice")], roles := [], isLocal := false }] } :
    Realm).metaProcs, (p.2 == MetaProcSessionModifyDetails) = false) := fun _ h => nomatch h

namespace ModifyWitness
/-- an attached session with identity alice / user -/
def victim : Session :=
  { key := 5, details := [("authid", .str "alice"), ("authrole", .str "user")], roles := [], isLocal := false }
/-- another ordinary session, identity mallory / user -/
def attacker : Session :=
  { key := 6, details := [("authid", .str "mallory"), ("authrole", .str "user")], roles := [], isLocal := false }
/-- a realm holding both, with `wamp.session.modify_details` registered by the meta session as
    `setupMetaProcedures` does (`Config.MetaStrict`/… irrelevant; no Authorizer) -/
def realm : Realm :=
  registerMeta { clients := [victim, attacker], queues := [(5, []), (6, [])] } [MetaProcSessionModifyDetails]
/-- CALL wamp.session.modify_details(victim's session id, {authid: root, authrole: admin}) -/
def theCall : Msg :=
  .call 9 [] MetaProcSessionModifyDetails
    [.int (sidOf 5), .dict [("authid", .str "root"), ("authrole", .str "admin")]] []
end ModifyWitness

open ModifyWitness in
/-- THE EXCEPTION (recorded deviation from "recorded … and shown to others always"; faithful to
    router/realm.go:1365-1382 `modifySessionDetails`, which protects only the key `session`).
    In a realm with `wamp.session.modify_details` registered, ONE CALL by an ordinary session (6,
    authrole "user") rewrites `authid` and `authrole` of ANOTHER attached session (5): before the
    step session 5 is alice / user, after it root / admin; the caller gets an empty RESULT.  Who
    may call the procedure is left to the Authorizer (C10); the dealer has no check of its own.
    Everything that later discloses session 5 (`wamp.session.get`, `on_leave`, caller/publisher
    disclosure, `kill_by_authid`, `session.list` filters) uses the rewritten values. -/
theorem modify_details_rewrites_authid :
    -- before: alice / user
    (realm.clients.find? (fun c => c.key == 5)).map (fun c => (c.details.get? "authid", c.details.get? "authrole")) =
      some (some (.str "alice"), some (.str "user")) ∧
    -- one CALL by session 6
    ((realm.step (.msg 6 theCall)).2.clients.find? (fun c => c.key == 5)).map
        (fun c => (c.details.get? "authid", c.details.get? "authrole")) =
      some (some (.str "root"), some (.str "admin")) ∧
    -- the caller is answered with a RESULT, nobody else hears anything
    (realm.step (.msg 6 theCall)).1.out = [(6, [.result 9 [] [] []])] ∧
    -- and the hypothesis of `identity_stable_step` is what fails here
    realm.metaProcs.map (·.2) = [MetaProcSessionModifyDetails] := by
  refine ⟨by rfl, by rfl, by rfl, by rfl⟩

end Nexus.C09
