/-
  Work package A / C18: the meta-call round trip.  A CALL of a registered meta procedure is routed to the
  meta session (`syncCall` → INVOCATION to key 0 → `trySend` ⇒ `.metaInvoke` task); the task runs `metaProc` on
  the realm state AT THAT MOMENT and queues the answer as a `.metaMsg` task; that task is the meta session's
  YIELD / ERROR, which the dealer turns into the caller's RESULT / ERROR.
-/
import Nexus.L2.Proofs.WpAC18RegLeave

namespace Nexus.L2.Realm.WpA
open Nexus.L2 Nexus.L2.Realm Nexus.Gen.N Nexus.L2.WpA

/-! ### the cheap first steps -/

/-- the `metaInvoke` task: `metaProc` runs on the state the task finds, the answer is queued as a task -/
theorem runTask_metaInvoke_some {r : Realm} {req reg : Nat} {d : Dict} {a : List WVal} {kw : Dict}
    {reg' : Nat} {proc : String} (h : r.metaProcs.find? (fun p => p.1 == reg) = some (reg', proc)) :
    r.runTask (.metaInvoke req reg d a kw) =
      (metaProc r proc req d a kw).2.addTasks [.metaMsg (metaProc r proc req d a kw).1] := by
  rw [runTask_metaInvoke, h]

/-- … for a registration id that names no meta procedure: ERROR no_such_procedure -/
theorem runTask_metaInvoke_none {r : Realm} {req reg : Nat} {d : Dict} {a : List WVal} {kw : Dict}
    (h : r.metaProcs.find? (fun p => p.1 == reg) = none) :
    r.runTask (.metaInvoke req reg d a kw) = r.addTasks [.metaMsg (mErr req ErrNoSuchProcedure)] := by
  rw [runTask_metaInvoke, h]

/-- the authorizer is never consulted for the meta session -/
theorem authzGate_meta (r : Realm) (s : Session) (m : Msg) (hk : s.key = metaKey) : authzGate r s m = (true, r) := by
  unfold authzGate
  split
  · rfl
  · rw [if_pos (by simp [hk])]

/-- the `metaMsg` task with a YIELD is the meta session's `dealer.yield` -/
theorem runTask_metaMsg_yield (r : Realm) (hk : r.metaS.key = metaKey) (req : Nat) (a : List WVal) (kw : Dict) :
    r.runTask (.metaMsg (mYield req a kw)) = handleYield r r.metaS req [] a kw := by
  rw [runTask_metaMsg]
  unfold handleMsg
  rw [authzGate_meta r r.metaS _ hk]
  rfl

/-- the `metaMsg` task with an ERROR is the meta session's `dealer.error` -/
theorem runTask_metaMsg_err (r : Realm) (hk : r.metaS.key = metaKey) (req : Nat) (uri : String) :
    r.runTask (.metaMsg (mErr req uri)) = handleError r r.metaS req [] uri [] [] := by
  rw [runTask_metaMsg]
  unfold handleMsg
  rw [authzGate_meta r r.metaS _ hk]
  rfl

/-! ### what a meta procedure answers and leaves alone -/

/-- a meta procedure answers with a YIELD or an ERROR carrying the invocation's request id -/
theorem metaProc_answer (r : Realm) (proc : String) (req : Nat) (details : Dict) (args : List WVal) (kw : Dict) :
    (∃ a kw', (metaProc r proc req details args kw).1 = mYield req a kw') ∨
    (∃ uri, (metaProc r proc req details args kw).1 = mErr req uri) := by
  unfold metaProc
  extract_lets +onlyGivenNames caller reason message badReason
  clear_value caller reason message badReason
  repeat' (first
    | (refine ite_cases (Q := fun x => (∃ a kw', Prod.fst x = mYield req a kw') ∨ (∃ uri, Prod.fst x = mErr req uri))
        (fun _ => ?_) (fun _ => ?_))
    | split
    | dsimp only)
  all_goals first
    | exact Or.inl ⟨_, _, rfl⟩
    | exact Or.inr ⟨_, rfl⟩

def isKillProc (p : String) : Bool :=
  p == MetaProcSessionKill || p == MetaProcSessionKillByAuthid || p == MetaProcSessionKillByAuthrole ||
  p == MetaProcSessionKillAll

/-- what a meta procedure leaves alone: dealer, broker, queues, meta session, procedure table, panic flag; the
    capacity of every attached client; and — unless it is one of the four kill procedures — the task list and
    the `ending` marks -/
theorem metaEffect_frame {r r' : Realm} (e : MetaEffect r r') :
    r'.ds = r.ds ∧ r'.broker = r.broker ∧ r'.queues = r.queues ∧ r'.metaS = r.metaS ∧ r'.metaProcs = r.metaProcs ∧
    r'.panic = r.panic ∧ r'.retries = r.retries ∧ r'.now = r.now ∧
    (∀ k c, r.clients.find? (fun c => c.key == k) = some c →
      ∃ c', r'.clients.find? (fun c => c.key == k) = some c' ∧ c'.cap = c.cap) := by
  cases e with
  | same => exact ⟨rfl, rfl, rfl, rfl, rfl, rfl, rfl, rfl, fun k c h => ⟨c, h, rfl⟩⟩
  | kill sel g ka => exact ⟨rfl, rfl, rfl, rfl, rfl, rfl, rfl, rfl, fun k c h => ⟨c, h, rfl⟩⟩
  | testaments t _ => exact ⟨rfl, rfl, rfl, rfl, rfl, rfl, rfl, rfl, fun k c h => ⟨c, h, rfl⟩⟩
  | modify k0 d =>
    refine ⟨rfl, rfl, rfl, rfl, rfl, rfl, rfl, rfl, fun k c h => ?_⟩
    simp only
    rw [List.find?_map]
    have hcomp : ((fun c : Session => c.key == k) ∘
        fun c : Session => if (c.key == k0) = true then { c with details := d } else c) = fun c => c.key == k := by
      funext c
      simp only [Function.comp]
      split <;> rfl
    rw [hcomp, h]
    simp only [Option.map_some]
    refine ⟨_, rfl, ?_⟩
    split <;> rfl

theorem metaProc_tasks_nokill (r : Realm) (proc : String) (req : Nat) (details : Dict) (args : List WVal) (kw : Dict)
    (hnk : isKillProc proc = false) :
    (metaProc r proc req details args kw).2.tasks = r.tasks ∧
    (metaProc r proc req details args kw).2.ending = r.ending := by
  unfold isKillProc at hnk
  simp only [Bool.or_eq_false_iff] at hnk
  obtain ⟨⟨⟨h1, h2⟩, h3⟩, h4⟩ := hnk
  unfold metaProc
  extract_lets +onlyGivenNames caller reason message badReason
  clear_value caller reason message badReason
  repeat' (first
    | (refine ite_cases (Q := fun x : Msg × Realm => x.2.tasks = r.tasks ∧ x.2.ending = r.ending)
        (fun _ => ?_) (fun _ => ?_))
    | split
    | dsimp only)
  all_goals first
    | exact ⟨rfl, rfl⟩
    | (exfalso; simp_all)

/-! ### applying a dealer output -/

theorem setPanic_none (r : Realm) : r.setPanic none = r := by
  unfold setPanic
  split
  · rename_i h; cases h
  · rfl

/-- a dealer output that sends exactly one message and nothing else -/
theorem applyD_single (r : Realm) (o : DOut) {x : Send} (hs : o.sends = [x]) (hm : o.metaPubs = [])
    (ha : o.aborts = []) (hp : o.panic = none) :
    r.applyD o = ({ r with ds := o.st } : Realm).trySend x := by
  unfold applyD
  rw [hs, hm, ha, hp]
  simp only [List.map_nil, deliver, addTasks, List.append_nil, setPanic_none]

/-- an INVOCATION for the meta session becomes a `metaInvoke` task -/
theorem trySend_meta_invocation (r : Realm) (a b : Nat) (c : Dict) (d : List WVal) (e : Dict) :
    r.trySend ⟨metaKey, .invocation a b c d e⟩ = { r with tasks := r.tasks ++ [.metaInvoke a b c d e] } := by
  unfold trySend
  rw [if_pos rfl]

/-- the caller's view of the meta session's answer: YIELD ↦ RESULT, ERROR ↦ ERROR(CALL), with the CALL's request id -/
def callerReply (req : Nat) : Msg → Msg
  | .yield _ _ args kw => .result req [] args kw
  | .error _ _ details err args kw => .error tCALL req details err args kw
  | m => m

theorem armTimer_mem {env : DEnv} {s : DState} {v : Invk} (hv : v ∈ s.d.invs) (caller : SessKey) (req t : Nat) :
    ∃ v' ∈ (armTimer env s caller req v t).d.invs, v'.id = v.id ∧ v'.callId = v.callId := by
  unfold armTimer
  split
  · refine ⟨{ v with timer := some (s.nextTimer + 1) }, ?_, rfl, rfl⟩
    unfold Dealer.setInv
    simp only
    exact List.mem_map.mpr ⟨v, hv, by simp⟩
  · exact ⟨v, hv, rfl, rfl⟩

theorem pickCallee_single {reg : Reg} {c : SessKey} (h : reg.callees = [c]) (rnd : Nat) :
    pickCallee reg rnd = some (c, reg) := by
  unfold pickCallee
  rw [h]

/-- a plain CALL (no progress, no payload passthru) to a procedure whose best match is a registration of the
    meta session alone, with caller disclosure on (every meta registration): exactly the INVOCATION for the meta
    session -/
theorem syncCall_meta {env : DEnv} {s : DState} {caller : SessKey} {req : Nat} {opts : Dict} {proc : String}
    (args : List WVal) (kw : Dict) (rnd : Nat) {reg : Reg}
    (hb : s.d.byCall? ⟨caller, req⟩ = none) (hm : s.d.matchProcedure proc = some reg)
    (hcal : reg.callees = [metaKey]) (hdis : reg.disclose = true)
    (hprog : opts.optFlag OptProgress = false) (hppt : pptScheme opts = "") (hfull : env.full metaKey = false) :
    syncCall env s caller req opts proc args kw rnd =
      { st := armTimer env (recordCall { s with d := s.d.setReg reg } (newInvk s reg caller req metaKey opts) metaKey)
                caller req (newInvk s reg caller req metaKey opts) (routerTimeout env reg metaKey opts)
        sends := [⟨metaKey, .invocation (genOf s.invGen metaKey + 1) reg.id
                    (invDetails env reg caller metaKey opts proc) args kw⟩] } := by
  have hr : callRefusal env s.d.allowDisclose reg caller metaKey opts = none := by
    unfold callRefusal
    simp [hprog, hppt, hdis]
  rw [syncCall_first args kw hm (by rw [hcal]; rfl) (by rw [hprog]; rfl) hb (pickCallee_single hcal rnd),
    firstChunk_ok args kw reg hr hfull]

/-! ### the answer half: the meta session's YIELD / ERROR reaches the caller -/

theorem queueOf_congr {r r' : Realm} (h : r'.queues = r.queues) (k : SessKey) : r'.queueOf k = r.queueOf k := by
  unfold queueOf; rw [h]

theorem queueLen_congr {r r' : Realm} (h : r'.queues = r.queues) (k : SessKey) : r'.queueLen k = r.queueLen k := by
  unfold queueLen; rw [h]

/-- one reply to an attached client whose queue has room, nothing else: appended to that queue; no task -/
theorem applyD_reply {r : Realm} (o : DOut) {k : SessKey} {c : Session} {m : Msg} (hk : k ≠ metaKey)
    (hc : r.clients.find? (fun c => c.key == k) = some c) (hroom : r.queueLen k < c.cap)
    (hs : o.sends = [⟨k, m⟩]) (hm : o.metaPubs = []) (ha : o.aborts = []) (hp : o.panic = none) :
    (r.applyD o).tasks = r.tasks ∧ (r.applyD o).queueOf k = r.queueOf k ++ [m] := by
  rw [applyD_single r o hs hm ha hp]
  refine ⟨trySend_tasks_ne _ _ hk, ?_⟩
  rw [queueOf_trySend, if_pos]
  · rfl
  · refine ⟨rfl, hk, c, hc, ?_⟩
    have := queueLen_eq r k
    show (r.queueOf k).length < c.cap
    omega

/-- THE ANSWER HALF.  The meta session holds invocation `invId` for the call `(k, req)` of an attached client
    whose queue has room; no other task is pending.  Running the `metaMsg` task with the answer `m` (the YIELD or
    ERROR `metaProc` produced for `invId`) appends exactly `callerReply req m` — RESULT(req, {}, args, kwargs) for a
    YIELD, ERROR(CALL, req, {}, uri) for an ERROR — to the caller's queue and leaves no task behind. -/
theorem meta_answer_delivered {r : Realm} (hd : DealerInv r.ds) (hms : r.metaS.key = metaKey) (ht : r.tasks = [])
    {v : Invk} {invId req : Nat} {k : SessKey} (hv : v ∈ r.ds.d.invs) (hvid : v.id = ⟨metaKey, invId⟩)
    (hvc : v.callId = ⟨k, req⟩) (hk : k ≠ metaKey)
    {c : Session} (hc : r.clients.find? (fun c => c.key == k) = some c) (hroom : r.queueLen k < c.cap)
    (m : Msg) (hmsg : (∃ a kw', m = mYield invId a kw') ∨ (∃ uri, m = mErr invId uri)) :
    (r.runTask (.metaMsg m)).tasks = [] ∧ (r.runTask (.metaMsg m)).queueOf k = r.queueOf k ++ [callerReply req m] := by
  have hf : r.ds.d.findInv ⟨metaKey, invId⟩ = some v := (findInv_eq_some hd.call.invIds).2 ⟨hv, hvid⟩
  have hcall : v.callId ∈ r.ds.d.calls := (hd.call.inv_call hv).1
  have hfull : r.denv.full k = false := by
    show r.isFull k = false
    unfold isFull session?
    rw [if_neg hk, if_neg hk, hc]
    simp only [ge_iff_le, decide_eq_false_iff_not, Nat.not_le]
    exact hroom
  rcases hmsg with ⟨a, kw', rfl⟩ | ⟨uri, rfl⟩
  · rw [runTask_metaMsg_yield r hms]
    unfold handleYield
    simp only [hms]
    have hy : syncYield r.denv r.ds metaKey invId [] a kw' (Dict.optFlag [] OptProgress) true =
        { st := yieldFinish r.ds false v ⟨metaKey, invId⟩,
          sends := [⟨k, .result req [] a kw'⟩] } := by
      have hp : Dict.optFlag [] OptProgress = false := rfl
      rw [hp, syncYield_some' hd.call [] a kw' false true hf,
        yieldOut_deliver a kw' false true v (by rfl) (by rfl) (by rw [hvc]; exact hfull), hvc]
      rfl
    rw [hy]
    simp only [Bool.false_eq_true, if_false]
    have := applyD_reply (r := r) { st := yieldFinish r.ds false v ⟨metaKey, invId⟩, sends := [⟨k, .result req [] a kw'⟩] }
      hk hc hroom rfl rfl rfl rfl
    rw [this.1, this.2, ht]
    exact ⟨rfl, rfl⟩
  · rw [runTask_metaMsg_err r hms]
    unfold handleError
    simp only [hms]
    rw [syncError_some' hd.call [] uri [] [] hf]
    have := applyD_reply (r := r)
      { st := { (r.ds.cancelTimer v.timer) with d := r.ds.d.forget v.callId ⟨metaKey, invId⟩ },
        sends := [callErr v.callId [] uri [] []] } (m := .error tCALL req [] uri [] [])
      hk hc hroom (by rw [hvc]; rfl) rfl rfl rfl
    rw [this.1, this.2, ht]
    exact ⟨rfl, rfl⟩

/-! ### the call half and the composition -/

/-- the dealer state after a plain CALL was routed to the meta session -/
def metaCallState (r : Realm) (reg : Reg) (k : SessKey) (req : Nat) (opts : Dict) : DState :=
  armTimer r.denv (recordCall { r.ds with d := r.ds.d.setReg reg } (newInvk r.ds reg k req metaKey opts) metaKey)
    k req (newInvk r.ds reg k req metaKey opts) (routerTimeout r.denv reg metaKey opts)

/-- THE CALL HALF: `dealer.call` for a plain CALL whose best match is a registration of the meta session: the
    call is recorded and exactly one task is queued — the invocation of that registration with a fresh invocation
    id, the details built for the meta session (caller disclosed), the CALL's payload.  Nothing is sent. -/
theorem handleCall_meta {r : Realm} {c : Session} {req : Nat} {opts : Dict} {proc : String}
    (args : List WVal) (kw : Dict) {reg : Reg}
    (hb : r.ds.d.byCall? ⟨c.key, req⟩ = none) (hm : r.ds.d.matchProcedure proc = some reg)
    (hcal : reg.callees = [metaKey]) (hdis : reg.disclose = true)
    (hprog : opts.optFlag OptProgress = false) (hppt : pptScheme opts = "") :
    handleCall r c req opts proc args kw =
      { r with ds := metaCallState r reg c.key req opts,
               tasks := r.tasks ++ [.metaInvoke (genOf r.ds.invGen metaKey + 1) reg.id
                                      (invDetails r.denv reg c.key metaKey opts proc) args kw] } := by
  have hfull : r.denv.full metaKey = false := by
    show r.isFull metaKey = false
    unfold isFull
    rw [if_pos rfl]
  unfold handleCall
  rw [syncCall_meta args kw r.rnd hb hm hcal hdis hprog hppt hfull, applyD_single _ _ rfl rfl rfl rfl,
    trySend_meta_invocation]
  rfl

theorem drain_of_no_tasks (fuel : Nat) (r : Realm) (h : r.tasks = []) : drain fuel r = r := by
  cases fuel with
  | zero => rw [drain_zero, h]; rfl
  | succ n => exact drain_succ_nil n r h

/-- THE ROUND TRIP (meta procedures other than the four kill procedures).  In a quiescent realm whose dealer
    satisfies its invariant, an attached client `k` (handler idle, not ending, authorized, queue not full, no
    call pending under this request id) sends a plain CALL of a procedure whose best match `reg` is a
    registration of the meta session alone, bound to meta procedure `mp`.  Then WITHIN THE SAME STEP the client's
    queue receives exactly one more message: the RESULT / ERROR rendered (`callerReply`) from the answer of
    `metaProc` evaluated on the realm state AFTER the CALL was routed (`handleCall …`, tasks emptied — the call is
    recorded, everything completed before it is visible), with the invocation's id, the details built for the
    meta session and the CALL's payload; and no task is left. -/
theorem call_roundtrip {r : Realm} (hd : DealerInv r.ds) (hms : r.metaS.key = metaKey) (ht : r.tasks = [])
    {k : SessKey} {c : Session} (hk : k ≠ metaKey) (hc : r.clients.find? (fun c => c.key == k) = some c)
    (hend : r.ending.contains k = false) (hbusy : r.busy k = false)
    (req : Nat) (opts : Dict) (proc : String) (args : List WVal) (kw : Dict)
    (hauth : authzGate r c (.call req opts proc args kw) = (true, r))
    (hb : r.ds.d.byCall? ⟨k, req⟩ = none)
    {reg : Reg} (hm : r.ds.d.matchProcedure proc = some reg) (hcal : reg.callees = [metaKey])
    (hdis : reg.disclose = true)
    {reg' : Nat} {mp : String} (hmp : r.metaProcs.find? (fun p => p.1 == reg.id) = some (reg', mp))
    (hnk : isKillProc mp = false)
    (hprog : opts.optFlag OptProgress = false) (hppt : pptScheme opts = "")
    (hroom : r.queueLen k < c.cap) :
    ∃ R : Realm,
      r.step (.msg k (.call req opts proc args kw)) = flush R ∧ R.tasks = [] ∧
      R.queueOf k = r.queueOf k ++
        [callerReply req (metaProc { handleCall r c req opts proc args kw with tasks := [] } mp
            (genOf r.ds.invGen metaKey + 1) (invDetails r.denv reg k metaKey opts proc) args kw).1] := by
  have hck : c.key = k := (find?_key hc).2
  subst hck
  -- the step is the drain of `handleCall`
  have hstep : r.step (.msg c.key (.call req opts proc args kw)) =
      flush (drain taskFuel (handleCall r c req opts proc args kw)) := by
    show flush (drain taskFuel (r.recvMsg c.key (.call req opts proc args kw))) = _
    rw [recvMsg_eq, hc]
    simp only [hend, hbusy, Bool.false_eq_true, if_false]
    unfold handleMsg
    rw [hauth]
    rfl
  have h1 := handleCall_meta (r := r) (c := c) (req := req) (opts := opts) (proc := proc) args kw hb hm hcal hdis hprog hppt
  generalize hr1 : handleCall r c req opts proc args kw = r1 at h1 hstep ⊢
  have hds1 : DealerInv r1.ds := hr1 ▸ handleCall_inv hd c req opts proc args kw
  -- first task: the invocation
  have ht1 : r1.tasks = [.metaInvoke (genOf r.ds.invGen metaKey + 1) reg.id
      (invDetails r.denv reg c.key metaKey opts proc) args kw] := by rw [h1, ht]; rfl
  have hmp1 : ({ r1 with tasks := [] } : Realm).metaProcs.find? (fun p => p.1 == reg.id) = some (reg', mp) := by
    rw [h1]; exact hmp
  have hd1 : taskFuel = 99998 + 1 + 1 := rfl
  rw [hstep, hd1, drain_succ_cons _ _ _ _ ht1, runTask_metaInvoke_some hmp1]
  generalize hans : metaProc { r1 with tasks := [] } mp (genOf r.ds.invGen metaKey + 1)
    (invDetails r.denv reg c.key metaKey opts proc) args kw = ans
  have heff : MetaEffect { r1 with tasks := [] } ans.2 := hans ▸ metaProc_effect _ _ _ _ _ _
  have hfr := metaEffect_frame heff
  have htk : ans.2.tasks = [] := by
    have := (metaProc_tasks_nokill { r1 with tasks := [] } mp (genOf r.ds.invGen metaKey + 1)
      (invDetails r.denv reg c.key metaKey opts proc) args kw hnk).1
    rw [hans] at this
    exact this
  -- second task: the answer
  have ht2 : (ans.2.addTasks [.metaMsg ans.1]).tasks = [.metaMsg ans.1] := by
    show ans.2.tasks ++ _ = _
    rw [htk]; rfl
  rw [drain_succ_cons _ _ _ _ ht2]
  -- the state in which the answer task runs
  have hds2 : ({ ans.2.addTasks [.metaMsg ans.1] with tasks := [] } : Realm).ds = r1.ds := hfr.1
  have hq2 : ({ ans.2.addTasks [.metaMsg ans.1] with tasks := [] } : Realm).queues = r.queues := by
    show ans.2.queues = _
    rw [hfr.2.2.1, h1]
  have hms2 : ({ ans.2.addTasks [.metaMsg ans.1] with tasks := [] } : Realm).metaS.key = metaKey := by
    show ans.2.metaS.key = _
    rw [hfr.2.2.2.1, h1]; exact hms
  obtain ⟨c', hc', hcap⟩ := hfr.2.2.2.2.2.2.2.2 c.key c (by rw [h1]; exact hc)
  -- the invocation recorded by the CALL
  have hvmem : newInvk r.ds reg c.key req metaKey opts ∈
      (recordCall { r.ds with d := r.ds.d.setReg reg } (newInvk r.ds reg c.key req metaKey opts) metaKey).d.invs := by
    show _ ∈ _ ++ [_]
    exact List.mem_append_right _ (List.mem_singleton.2 rfl)
  obtain ⟨v, hv, hvid, hvc⟩ := armTimer_mem (env := r.denv) hvmem c.key req (routerTimeout r.denv reg metaKey opts)
  have hv1 : v ∈ r1.ds.d.invs := by rw [h1]; exact hv
  have hans' : (∃ a kw', ans.1 = mYield (genOf r.ds.invGen metaKey + 1) a kw') ∨
      (∃ uri, ans.1 = mErr (genOf r.ds.invGen metaKey + 1) uri) := hans ▸ metaProc_answer _ _ _ _ _ _
  have hfin := meta_answer_delivered (r := { ans.2.addTasks [.metaMsg ans.1] with tasks := [] })
    (hds2 ▸ hds1) hms2 rfl (v := v) (invId := genOf r.ds.invGen metaKey + 1) (req := req) (k := c.key)
    (by rw [hds2]; exact hv1) (by rw [hvid, newInvk_id]) (by rw [hvc]; rfl) hk hc'
    (by rw [queueLen_congr hq2, hcap]; exact hroom) ans.1 hans'
  refine ⟨_, by rw [drain_of_no_tasks _ _ hfin.1], hfin.1, ?_⟩
  rw [hfin.2, queueOf_congr hq2]

/-- the three task-unfolding lemmas composed: a realm whose only pending task is the invocation of a (non-kill)
    meta procedure: two tasks later the state is the meta session's answer (`handleMsg` = `dealer.yield` /
    `dealer.error`, see `runTask_metaMsg_yield/_err`) applied to the state `metaProc` returned -/
theorem meta_call_drain {r : Realm} {req reg : Nat} {d : Dict} {a : List WVal} {kw : Dict}
    (h : r.tasks = [.metaInvoke req reg d a kw]) {reg' : Nat} {proc : String}
    (hmp : r.metaProcs.find? (fun p => p.1 == reg) = some (reg', proc)) (hnk : isKillProc proc = false) (fuel : Nat) :
    drain (fuel + 1 + 1) r =
      drain fuel (handleMsg { (metaProc { r with tasks := [] } proc req d a kw).2 with tasks := [] }
        (metaProc { r with tasks := [] } proc req d a kw).2.metaS (metaProc { r with tasks := [] } proc req d a kw).1) := by
  have hmp1 : ({ r with tasks := [] } : Realm).metaProcs.find? (fun p => p.1 == reg) = some (reg', proc) := hmp
  rw [drain_succ_cons _ _ _ _ h, runTask_metaInvoke_some hmp1]
  have htk := (metaProc_tasks_nokill { r with tasks := [] } proc req d a kw hnk).1
  have ht2 : ((metaProc { r with tasks := [] } proc req d a kw).2.addTasks
      [.metaMsg (metaProc { r with tasks := [] } proc req d a kw).1]).tasks =
      [.metaMsg (metaProc { r with tasks := [] } proc req d a kw).1] := by
    show (metaProc { r with tasks := [] } proc req d a kw).2.tasks ++ _ = _
    rw [htk]; rfl
  rw [drain_succ_cons _ _ _ _ ht2]
  rfl

/-- the INVOCATION details built for a registration with caller disclosure (every meta registration) carry the
    caller's session id under `caller` — which is what `callerOf` hands to the meta procedure -/
theorem invDetails_caller (env : DEnv) (reg : Reg) (caller callee : SessKey) (opts : Dict) (proc : String)
    (hd : reg.disclose = true) :
    Dict.get? (invDetails env reg caller callee opts proc) "caller" = some (sidVal caller) := by
  have h1 : RoleCaller ∈ identityKeys := by simp [identityKeys]
  have hdis : disclosed env reg callee opts = true := by unfold disclosed; rw [hd]; rfl
  have e : ("caller" : String) = RoleCaller := rfl
  rw [e, invDetails_get?_identity _ _ _ _ _ _ h1, hdis]
  simp only [if_true]
  unfold discloseCaller discloseInto
  simp only
  have n12 : RoleCaller ≠ RoleCaller ++ "_authid" := by decide
  have n13 : RoleCaller ≠ RoleCaller ++ "_authrole" := by decide
  cases Dict.get? (detailsOf env caller) "authid" <;> cases Dict.get? (detailsOf env caller) "authrole" <;>
    simp only [Dict.dget?_set, Ne.symm n12, Ne.symm n13, if_true, if_false] <;> rfl

end Nexus.L2.Realm.WpA
