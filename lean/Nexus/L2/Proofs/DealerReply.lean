/-
  The caller-side reply stream of the dealer model (vocabulary of property C02) and what each
  `sync*` function contributes to it; exact outputs of `syncCancel` per mode (C13).
-/
import Nexus.L2.Proofs.DealerRemove

namespace Nexus.L2
open Gen.N

/-! ### dictionaries -/

theorem Dict.get?_set_ne (d : Dict) {k k' : String} (v : WVal) (h : k ≠ k') :
    Dict.get? (Dict.set d k v) k' = Dict.get? d k' := by
  induction d with
  | nil => simp [Dict.set, Dict.get?, h]
  | cons p rest ih =>
    obtain ⟨a, b⟩ := p
    simp only [Dict.set]
    by_cases ha : a = k
    · subst ha; simp [Dict.get?, h]
    · simp only [beq_iff_eq, ha, if_false, Dict.get?]
      rw [ih]

theorem Dict.get?_set_eq (d : Dict) (k : String) (v : WVal) : Dict.get? (Dict.set d k v) k = some v := by
  induction d with
  | nil => simp [Dict.set, Dict.get?]
  | cons p rest ih =>
    obtain ⟨a, b⟩ := p
    simp only [Dict.set]
    by_cases ha : a = k
    · subst ha; simp [Dict.get?]
    · simp only [beq_iff_eq, ha, if_false, Dict.get?]
      exact ih

theorem pptFold_get? (opts : Dict) (k : String) : ∀ (ks : List String) (d : Dict), (∀ key ∈ ks, key ≠ k) →
    Dict.get? (ks.foldl (fun d key => match Dict.get? opts key with
      | some (.str v) => Dict.set d key (.str v)
      | _ => d) d) k = Dict.get? d k
  | [], _, _ => rfl
  | key :: ks, d, h => by
    simp only [List.foldl]
    rw [pptFold_get? opts k ks _ (fun x hx => h x (List.mem_cons_of_mem _ hx))]
    split
    · exact Dict.get?_set_ne _ _ (h key (List.mem_cons_self ..))
    · rfl

theorem pptInto_get?_of_ne (opts d : Dict) {k : String} (h1 : k ≠ OptPPTScheme) (h2 : k ≠ OptPPTSerializer)
    (h3 : k ≠ OptPPTCipher) (h4 : k ≠ OptPPTKeyId) : Dict.get? (pptInto opts d) k = Dict.get? d k := by
  unfold pptInto
  apply pptFold_get?
  intro key hk
  simp only [List.mem_cons, List.not_mem_nil, or_false] at hk
  rcases hk with rfl | rfl | rfl | rfl
  · exact Ne.symm h1
  · exact Ne.symm h2
  · exact Ne.symm h3
  · exact Ne.symm h4

theorem pptInto_progress (opts d : Dict) : Dict.optFlag (pptInto opts d) OptProgress = Dict.optFlag d OptProgress := by
  unfold Dict.optFlag
  rw [pptInto_get?_of_ne opts d (by decide) (by decide) (by decide) (by decide)]

/-! ### replies -/

/-- the request id a message answers, if it is a reply to a CALL: RESULT, or ERROR of type CALL -/
def Msg.replyReq : Msg → Option Nat
  | .result r _ _ _ => some r
  | .error typ r _ _ _ _ => if typ = tCALL then some r else none
  | _ => none

/-- final reply = RESULT without `progress: true`, or ERROR (of type CALL) -/
def Msg.isFinalReply : Msg → Bool
  | .result _ d _ _ => !d.optFlag OptProgress
  | .error typ _ _ _ _ _ => typ == tCALL
  | _ => false

/-- the call (caller session, request) a queued message is a reply to -/
def Send.replyTo (x : Send) : Option ReqId := x.msg.replyReq.map (fun r => ⟨x.to, r⟩)

/-- the replies to call `c` among the messages of one step -/
def repliesFor (c : ReqId) (sends : List Send) : List Send := sends.filter (fun x => x.replyTo == some c)
def finalsFor (c : ReqId) (sends : List Send) : List Send := (repliesFor c sends).filter (fun x => x.msg.isFinalReply)
def progsFor (c : ReqId) (sends : List Send) : List Send := (repliesFor c sends).filter (fun x => !x.msg.isFinalReply)

/-- ERROR(CALL) for call `c` -/
def callErr (c : ReqId) (details : Dict) (err : String) (args : List WVal) (kw : Dict) : Send :=
  ⟨c.sess, .error tCALL c.req details err args kw⟩

@[simp] theorem callErr_replyTo (c : ReqId) (details : Dict) (err : String) (args : List WVal) (kw : Dict) :
    (callErr c details err args kw).replyTo = some c := by
  simp [callErr, Send.replyTo, Msg.replyReq]

@[simp] theorem callErr_final (c : ReqId) (details : Dict) (err : String) (args : List WVal) (kw : Dict) :
    (callErr c details err args kw).msg.isFinalReply = true := by
  simp [callErr, Msg.isFinalReply]

theorem repliesFor_append (c : ReqId) (l l' : List Send) : repliesFor c (l ++ l') = repliesFor c l ++ repliesFor c l' := by
  simp [repliesFor]

theorem repliesFor_of_none {c : ReqId} {l : List Send} (h : ∀ x ∈ l, x.replyTo = none) : repliesFor c l = [] := by
  unfold repliesFor
  rw [List.filter_eq_nil_iff]
  intro x hx; simp [h x hx]

theorem repliesFor_callErr (c c' : ReqId) (details : Dict) (err : String) (args : List WVal) (kw : Dict) :
    repliesFor c [callErr c' details err args kw] = if c' = c then [callErr c' details err args kw] else [] := by
  unfold repliesFor
  by_cases h : c' = c <;> simp [h]

/-! ### CANCEL -/

/-- the invocation of a cancelled call: `canceled` set, timer stopped -/
def cancelMark (s : DState) (v : Invk) : DState :=
  ({ s with d := s.d.setInv { v with canceled := true } } : DState).cancelTimer v.timer

/-- can (and does) the dealer interrupt the callee: mode ≠ skip, callee announced `call_canceling`,
    callee's queue has room -/
def canInterrupt (env : DEnv) (v : Invk) (mode : String) : Bool :=
  (mode != CancelModeSkip && hasFeat env v.callee RoleCallee FeatureCallCanceling) && !env.full v.callee

def interruptOf (v : Invk) (i : ReqId) (mode reason : String) : Send :=
  ⟨v.callee, .interrupt i.req [(OptReason, .str reason), (OptMode, .str mode)]⟩

/-- `syncCancel` on a pending, not yet cancelled call, by cases -/
theorem cancelOut_eq (env : DEnv) (s : DState) (caller : SessKey) (req : Nat) (mode reason : String)
    (errArgs : List WVal) (i : ReqId) (v : Invk) :
    cancelOut env s caller req mode reason errArgs i v =
      if canInterrupt env v mode then
        if mode = CancelModeKill then { st := cancelMark s v, sends := [interruptOf v i mode reason] }
        else { st := { cancelMark s v with d := (cancelMark s v).d.forget ⟨caller, req⟩ i }
               sends := [interruptOf v i mode reason, callErr ⟨caller, req⟩ [] reason errArgs []] }
      else { st := { cancelMark s v with d := (cancelMark s v).d.forget ⟨caller, req⟩ i }
             sends := [callErr ⟨caller, req⟩ [] reason errArgs []] } := by
  unfold cancelOut canInterrupt
  simp only
  generalize ((mode != CancelModeSkip && hasFeat env v.callee RoleCallee FeatureCallCanceling) && !env.full v.callee) = b
  cases b
  · simp [cancelMark, callErr]
  · by_cases h2 : mode = CancelModeKill
    · simp [h2, cancelMark, interruptOf]
    · simp [h2, cancelMark, interruptOf, callErr]

@[simp] theorem cancelMark_calls (s : DState) (v : Invk) : (cancelMark s v).d.calls = s.d.calls := by
  simp [cancelMark]
@[simp] theorem cancelMark_byCall (s : DState) (v : Invk) : (cancelMark s v).d.byCall = s.d.byCall := by
  simp [cancelMark]
@[simp] theorem cancelMark_regs (s : DState) (v : Invk) : (cancelMark s v).d.regs = s.d.regs := by
  simp [cancelMark]
@[simp] theorem cancelMark_invs (s : DState) (v : Invk) :
    (cancelMark s v).d.invs = (s.d.setInv { v with canceled := true }).invs := by
  simp [cancelMark]

theorem interruptOf_replyTo (v : Invk) (i : ReqId) (mode reason : String) : (interruptOf v i mode reason).replyTo = none := rfl


theorem repliesFor_cons (c : ReqId) (x : Send) (l : List Send) :
    repliesFor c (x :: l) = if x.replyTo = some c then x :: repliesFor c l else repliesFor c l := by
  unfold repliesFor
  by_cases h : x.replyTo = some c <;> simp [h]

@[simp] theorem repliesFor_nil (c : ReqId) : repliesFor c [] = [] := rfl

/-- the reply discipline of one step towards call `c`; `fresh` says that the step is the CALL
    that introduces `c` -/
structure ReplyOK (s : DState) (o : DOut) (c : ReqId) (fresh : Prop) : Prop where
  /-- at most one reply per step -/
  one : (repliesFor c o.sends).length ≤ 1
  /-- only for a pending call (or the CALL being processed) -/
  known : repliesFor c o.sends ≠ [] → c ∈ s.d.calls ∨ fresh
  /-- a final reply goes with the removal of the call -/
  final : finalsFor c o.sends ≠ [] → c ∉ o.st.d.calls
  /-- a progressive result leaves the call pending -/
  prog : progsFor c o.sends ≠ [] → c ∈ s.d.calls ∧ c ∈ o.st.d.calls

theorem ReplyOK.of_nil {s : DState} {o : DOut} {c : ReqId} {fresh : Prop} (h : repliesFor c o.sends = []) :
    ReplyOK s o c fresh :=
  ⟨by simp [h], by simp [h], by simp [finalsFor, h], by simp [progsFor, h]⟩

theorem ReplyOK.of_final {s : DState} {o : DOut} {c : ReqId} {fresh : Prop} {x : Send}
    (h : repliesFor c o.sends = [x]) (hf : x.msg.isFinalReply = true) (hk : c ∈ s.d.calls ∨ fresh)
    (hr : c ∉ o.st.d.calls) : ReplyOK s o c fresh :=
  ⟨by simp [h], fun _ => hk, fun _ => hr, by simp [progsFor, h, hf]⟩

theorem ReplyOK.of_prog {s : DState} {o : DOut} {c : ReqId} {fresh : Prop} {x : Send}
    (h : repliesFor c o.sends = [x]) (hf : x.msg.isFinalReply = false) (hk : c ∈ s.d.calls)
    (hr : c ∈ o.st.d.calls) : ReplyOK s o c fresh :=
  ⟨by simp [h], fun _ => Or.inl hk, by simp [finalsFor, h, hf], fun _ => ⟨hk, hr⟩⟩

/-! ### INVOCATION ERROR -/

theorem syncError_some' {s : DState} (h : CallInv s.d) {callee : SessKey} {req : Nat} {v : Invk}
    (details : Dict) (err : String) (args : List WVal) (kw : Dict) (hf : s.d.findInv ⟨callee, req⟩ = some v) :
    syncError s callee req details err args kw =
      { st := { (s.cancelTimer v.timer) with d := s.d.forget v.callId ⟨callee, req⟩ }
        sends := [callErr v.callId details err args kw] } :=
  syncError_some h details err args kw hf

theorem mem_forget_calls {d : Dealer} {c c' i : ReqId} : c' ∈ (d.forget c i).calls ↔ c' ∈ d.calls ∧ c' ≠ c := by
  simp

theorem syncError_replyOK {s : DState} (h : DealerInv s) (callee : SessKey) (req : Nat) (details : Dict) (err : String)
    (args : List WVal) (kw : Dict) (c : ReqId) (fresh : Prop) :
    ReplyOK s (syncError s callee req details err args kw) c fresh := by
  cases hf : s.d.findInv ⟨callee, req⟩ with
  | none => rw [syncError_none _ _ _ _ hf]; exact ReplyOK.of_nil rfl
  | some v =>
    rw [syncError_some' h.call _ _ _ _ hf]
    have hv := findInv_some_mem hf
    by_cases hc : v.callId = c
    · refine ReplyOK.of_final (x := callErr v.callId details err args kw) ?_ (by simp)
        (Or.inl (hc ▸ (h.call.inv_call hv.1).1)) ?_
      · simp [repliesFor_callErr, hc]
      · simp [hc]
    · exact ReplyOK.of_nil (by simp [repliesFor_callErr, hc])

/-! ### CANCEL -/

theorem cancelOut_replyOK {env : DEnv} {s : DState} {caller : SessKey} {req : Nat} (mode reason : String)
    (errArgs : List WVal) (i : ReqId) (v : Invk) (hc : (⟨caller, req⟩ : ReqId) ∈ s.d.calls) (c : ReqId) (fresh : Prop) :
    ReplyOK s (cancelOut env s caller req mode reason errArgs i v) c fresh := by
  rw [cancelOut_eq]
  split
  · split
    · exact ReplyOK.of_nil (by simp [repliesFor_cons, interruptOf_replyTo])
    · by_cases hcc : (⟨caller, req⟩ : ReqId) = c
      · refine ReplyOK.of_final (x := callErr ⟨caller, req⟩ [] reason errArgs []) ?_ (by simp) (Or.inl (hcc ▸ hc)) ?_
        · simp [repliesFor_cons, interruptOf_replyTo, hcc]
        · simp [hcc]
      · exact ReplyOK.of_nil (by simp [repliesFor_cons, interruptOf_replyTo, hcc])
  · by_cases hcc : (⟨caller, req⟩ : ReqId) = c
    · refine ReplyOK.of_final (x := callErr ⟨caller, req⟩ [] reason errArgs []) ?_ (by simp) (Or.inl (hcc ▸ hc)) ?_
      · simp [repliesFor_cons, hcc]
      · simp [hcc]
    · exact ReplyOK.of_nil (by simp [repliesFor_cons, hcc])

theorem syncCancel_replyOK {env : DEnv} {s : DState} (h : DealerInv s) (caller : SessKey) (req : Nat)
    (mode reason : String) (errArgs : List WVal) (c : ReqId) (fresh : Prop) :
    ReplyOK s (syncCancel env s caller req mode reason errArgs) c fresh := by
  by_cases hc : (⟨caller, req⟩ : ReqId) ∈ s.d.calls
  · obtain ⟨i, v, hb, hf, _⟩ := h.call.lookup hc
    rw [syncCancel_pending mode reason errArgs hc hb hf]
    split
    · exact ReplyOK.of_nil rfl
    · exact cancelOut_replyOK mode reason errArgs i v hc c fresh
  · rw [syncCancel_not_pending mode reason errArgs hc]; exact ReplyOK.of_nil rfl



/-! ### YIELD -/

/-- details of the RESULT built from a YIELD -/
def yieldDetails (opts : Dict) (progress : Bool) : Dict :=
  if pptScheme opts != "" then pptInto opts (if progress then [(OptProgress, .bool true)] else [])
  else (if progress then [(OptProgress, .bool true)] else [])

theorem yieldDetails_progress (opts : Dict) (progress : Bool) :
    (yieldDetails opts progress).optFlag OptProgress = progress := by
  unfold yieldDetails
  split
  · rw [pptInto_progress]; cases progress <;> rfl
  · cases progress <;> rfl

/-- the YIELD may use payload passthru: callee and caller both announced it (or it is not used) -/
def yieldPptCalleeBad (env : DEnv) (callee : SessKey) (opts : Dict) : Bool :=
  pptScheme opts != "" && !hasFeat env callee RoleCallee FeaturePayloadPassthruMode
def yieldPptCallerBad (env : DEnv) (caller : SessKey) (opts : Dict) : Bool :=
  pptScheme opts != "" && !hasFeat env caller RoleCaller FeaturePayloadPassthruMode

def pptErr (c : ReqId) : Send := callErr c [("error", .str "<text>")] ErrFeatureNotSupported [] []

/-- state after the YIELD's own bookkeeping: a non-progress YIELD stops the timer -/
def yieldTimer (s : DState) (progress : Bool) (v : Invk) : DState := if progress then s else s.cancelTimer v.timer

/-- … and forgets the call -/
def yieldFinish (s : DState) (progress : Bool) (v : Invk) (iid : ReqId) : DState :=
  if progress then yieldTimer s progress v
  else { yieldTimer s progress v with d := (yieldTimer s progress v).d.forget v.callId iid }

@[simp] theorem yieldTimer_d (s : DState) (progress : Bool) (v : Invk) : (yieldTimer s progress v).d = s.d := by
  unfold yieldTimer; split <;> simp

theorem yieldFinish_calls (s : DState) (progress : Bool) (v : Invk) (iid : ReqId) :
    (yieldFinish s progress v iid).d.calls = if progress then s.d.calls else s.d.calls.filter (· != v.callId) := by
  unfold yieldFinish
  split <;> simp

theorem yieldOut_calleeBad {env : DEnv} {s : DState} {callee : SessKey} {req : Nat} {opts : Dict}
    (args : List WVal) (kw : Dict) (progress canRetry : Bool) (v : Invk)
    (h1 : yieldPptCalleeBad env callee opts = true) :
    yieldOut env s callee req opts args kw progress canRetry v =
      { st := { (yieldTimer s progress v).cancelTimer v.timer with
                d := ((yieldTimer s progress v).cancelTimer v.timer).d.forget v.callId ⟨callee, req⟩ }
        sends := [pptErr v.callId, ⟨callee, abortMsg "<text>"⟩]
        aborts := [callee] } := by
  unfold yieldOut
  unfold yieldPptCalleeBad at h1
  simp only
  rw [if_pos h1]
  rfl

theorem yieldOut_callerBad {env : DEnv} {s : DState} {callee : SessKey} {req : Nat} {opts : Dict}
    (args : List WVal) (kw : Dict) (progress canRetry : Bool) (v : Invk)
    (h1 : yieldPptCalleeBad env callee opts = false) (h2 : yieldPptCallerBad env v.callId.sess opts = true) :
    yieldOut env s callee req opts args kw progress canRetry v =
      { st := yieldFinish s progress v ⟨callee, req⟩
        sends := [⟨callee, .error tYIELD req [("error", .str "<text>")] ErrFeatureNotSupported [] []⟩] ++
                 (if progress then [] else [pptErr v.callId]) } := by
  unfold yieldOut
  unfold yieldPptCalleeBad at h1
  unfold yieldPptCallerBad at h2
  simp only
  rw [if_neg (by simp [h1]), if_pos h2]
  rfl

theorem yieldOut_deliver {env : DEnv} {s : DState} {callee : SessKey} {req : Nat} {opts : Dict}
    (args : List WVal) (kw : Dict) (progress canRetry : Bool) (v : Invk)
    (h1 : yieldPptCalleeBad env callee opts = false) (h2 : yieldPptCallerBad env v.callId.sess opts = false)
    (h3 : env.full v.callId.sess = false) :
    yieldOut env s callee req opts args kw progress canRetry v =
      { st := yieldFinish s progress v ⟨callee, req⟩
        sends := [⟨v.callId.sess, .result v.callId.req (yieldDetails opts progress) args kw⟩] } := by
  unfold yieldOut
  unfold yieldPptCalleeBad at h1
  unfold yieldPptCallerBad at h2
  simp only
  rw [if_neg (by simp [h1]), if_neg (by simp [h2]), if_pos (by simp [h3])]
  rfl

theorem yieldOut_retry {env : DEnv} {s : DState} {callee : SessKey} {req : Nat} {opts : Dict}
    (args : List WVal) (kw : Dict) (progress : Bool) (v : Invk)
    (h1 : yieldPptCalleeBad env callee opts = false) (h2 : yieldPptCallerBad env v.callId.sess opts = false)
    (h3 : env.full v.callId.sess = true) :
    yieldOut env s callee req opts args kw progress true v =
      { st := yieldTimer s progress v, again := true } := by
  unfold yieldOut
  unfold yieldPptCalleeBad at h1
  unfold yieldPptCallerBad at h2
  simp only
  rw [if_neg (by simp [h1]), if_neg (by simp [h2]), if_neg (by simp [h3])]
  rfl

theorem yieldOut_giveup {env : DEnv} {s : DState} {callee : SessKey} {req : Nat} {opts : Dict}
    (args : List WVal) (kw : Dict) (progress : Bool) (v : Invk)
    (h1 : yieldPptCalleeBad env callee opts = false) (h2 : yieldPptCallerBad env v.callId.sess opts = false)
    (h3 : env.full v.callId.sess = true) :
    yieldOut env s callee req opts args kw progress false v =
      { syncCancel env (yieldTimer s progress v) v.callId.sess v.callId.req CancelModeKillNoWait ErrCanceled [] with
        st := if progress then
            (syncCancel env (yieldTimer s progress v) v.callId.sess v.callId.req CancelModeKillNoWait ErrCanceled []).st
          else
            { (syncCancel env (yieldTimer s progress v) v.callId.sess v.callId.req CancelModeKillNoWait ErrCanceled []).st with
              d := (syncCancel env (yieldTimer s progress v) v.callId.sess v.callId.req CancelModeKillNoWait ErrCanceled []).st.d.forget
                v.callId ⟨callee, req⟩ } } := by
  unfold yieldOut
  unfold yieldPptCalleeBad at h1
  unfold yieldPptCallerBad at h2
  simp only
  rw [if_neg (by simp [h1]), if_neg (by simp [h2]), if_neg (by simp [h3])]
  rfl



@[simp] theorem abort_replyTo (k : SessKey) (t : String) : (⟨k, abortMsg t⟩ : Send).replyTo = none := rfl
@[simp] theorem yieldErr_replyTo (k : SessKey) (r : Nat) (d : Dict) (e : String) (a : List WVal) (kw : Dict) :
    (⟨k, .error tYIELD r d e a kw⟩ : Send).replyTo = none := rfl
@[simp] theorem interrupt_replyTo (k : SessKey) (r : Nat) (d : Dict) : (⟨k, .interrupt r d⟩ : Send).replyTo = none := rfl
@[simp] theorem result_replyTo (k : SessKey) (r : Nat) (d : Dict) (a : List WVal) (kw : Dict) :
    (⟨k, .result r d a kw⟩ : Send).replyTo = some ⟨k, r⟩ := rfl
@[simp] theorem invocation_replyTo (k : SessKey) (r g : Nat) (d : Dict) (a : List WVal) (kw : Dict) :
    (⟨k, .invocation r g d a kw⟩ : Send).replyTo = none := rfl
attribute [simp] interruptOf_replyTo

@[simp] theorem pptErr_replyTo (c : ReqId) : (pptErr c).replyTo = some c := by simp [pptErr]
@[simp] theorem pptErr_final (c : ReqId) : (pptErr c).msg.isFinalReply = true := by simp [pptErr]

/-- the dropped-RESULT branch of `syncYield` (caller's queue full, no retry left) on a stored invocation -/
theorem yieldOut_giveup' {env : DEnv} {s : DState} (h : DealerInv s) {callee : SessKey} {req : Nat} {opts : Dict}
    (args : List WVal) (kw : Dict) (progress : Bool) {v : Invk} (hv : v ∈ s.d.invs) (hi : v.id = ⟨callee, req⟩)
    (h1 : yieldPptCalleeBad env callee opts = false) (h2 : yieldPptCallerBad env v.callId.sess opts = false)
    (h3 : env.full v.callId.sess = true) :
    yieldOut env s callee req opts args kw progress false v =
      if v.canceled then { st := yieldFinish s progress v ⟨callee, req⟩ }
      else
        { st := { cancelMark (yieldTimer s progress v) v with
                  d := (cancelMark (yieldTimer s progress v) v).d.forget v.callId ⟨callee, req⟩ }
          sends := (if canInterrupt env v CancelModeKillNoWait
                    then [interruptOf v ⟨callee, req⟩ CancelModeKillNoWait ErrCanceled] else []) ++
                   [callErr v.callId [] ErrCanceled [] []] } := by
  rw [yieldOut_giveup args kw progress v h1 h2 h3]
  have hb : (v.callId, (⟨callee, req⟩ : ReqId)) ∈ s.d.byCall := hi ▸ (h.call.byInv v.callId v.id).2 ⟨v, hv, rfl, rfl⟩
  have hc : (⟨v.callId.sess, v.callId.req⟩ : ReqId) ∈ (yieldTimer s progress v).d.calls := by
    rw [yieldTimer_d]; exact (h.call.inv_call hv).1
  have hby : (yieldTimer s progress v).d.byCall? ⟨v.callId.sess, v.callId.req⟩ = some ⟨callee, req⟩ := by
    rw [yieldTimer_d]; exact (byCall?_eq_some h.call.byFst).2 hb
  have hfi : (yieldTimer s progress v).d.findInv ⟨callee, req⟩ = some v := by
    rw [yieldTimer_d]; exact (findInv_eq_some h.call.invIds).2 ⟨hv, hi⟩
  rw [syncCancel_pending (env := env) CancelModeKillNoWait ErrCanceled [] hc hby hfi]
  by_cases hcan : v.canceled = true
  · rw [if_pos hcan, if_pos hcan]
    unfold yieldFinish
    cases progress <;> rfl
  · rw [if_neg hcan, if_neg hcan, cancelOut_eq]
    have hk : ¬ CancelModeKillNoWait = CancelModeKill := by decide
    have hff : ∀ (d : Dealer) (c i : ReqId), (d.forget c i).forget c i = d.forget c i := by
      intro d c i
      simp [Dealer.forget, Dealer.delCall, Dealer.delByCall, Dealer.delInv]
    by_cases hci : canInterrupt env v CancelModeKillNoWait = true
    · rw [if_pos hci, if_neg hk, if_pos hci]
      cases progress
      · simp only [Bool.false_eq_true, if_false, hff]; rfl
      · rfl
    · rw [if_neg hci, if_neg hci]
      cases progress
      · simp only [Bool.false_eq_true, if_false, hff]; rfl
      · rfl

theorem yieldOut_replyOK {env : DEnv} {s : DState} (h : DealerInv s) {callee : SessKey} {req : Nat} (opts : Dict)
    (args : List WVal) (kw : Dict) (progress canRetry : Bool) {v : Invk} (hv : v ∈ s.d.invs) (hi : v.id = ⟨callee, req⟩)
    (c : ReqId) (fresh : Prop) :
    ReplyOK s (yieldOut env s callee req opts args kw progress canRetry v) c fresh := by
  have hpend : v.callId ∈ s.d.calls := (h.call.inv_call hv).1
  by_cases hcc : v.callId = c
  case neg =>
    -- replies of this step are for `v.callId` only
    apply ReplyOK.of_nil
    cases h1 : yieldPptCalleeBad env callee opts
    case true => rw [yieldOut_calleeBad args kw progress canRetry v h1]; simp [repliesFor_cons, hcc]
    case false =>
    cases h2 : yieldPptCallerBad env v.callId.sess opts
    case true =>
      rw [yieldOut_callerBad args kw progress canRetry v h1 h2]
      cases progress <;> simp [repliesFor_cons, hcc]
    case false =>
    cases h3 : env.full v.callId.sess
    case false =>
      rw [yieldOut_deliver args kw progress canRetry v h1 h2 h3]
      have : (⟨v.callId.sess, v.callId.req⟩ : ReqId) = v.callId := rfl
      simp [repliesFor_cons, this, hcc]
    case true =>
    cases canRetry
    case true => rw [yieldOut_retry args kw progress v h1 h2 h3]; rfl
    case false =>
      rw [yieldOut_giveup' h args kw progress hv hi h1 h2 h3]
      split
      · rfl
      · split <;> simp [repliesFor_cons, hcc]
  case pos =>
    subst hcc
    cases h1 : yieldPptCalleeBad env callee opts
    case true =>
      rw [yieldOut_calleeBad args kw progress canRetry v h1]
      refine ReplyOK.of_final (x := pptErr v.callId) ?_ (by simp) (Or.inl hpend) (by simp)
      simp [repliesFor_cons]
    case false =>
    cases h2 : yieldPptCallerBad env v.callId.sess opts
    case true =>
      rw [yieldOut_callerBad args kw progress canRetry v h1 h2]
      cases progress
      · refine ReplyOK.of_final (x := pptErr v.callId) ?_ (by simp) (Or.inl hpend) ?_
        · simp [repliesFor_cons]
        · simp [yieldFinish_calls]
      · exact ReplyOK.of_nil (by simp [repliesFor_cons])
    case false =>
    cases h3 : env.full v.callId.sess
    case false =>
      rw [yieldOut_deliver args kw progress canRetry v h1 h2 h3]
      have hrt : (⟨v.callId.sess, Msg.result v.callId.req (yieldDetails opts progress) args kw⟩ : Send).replyTo = some v.callId := rfl
      cases progress
      · refine ReplyOK.of_final (x := ⟨v.callId.sess, .result v.callId.req (yieldDetails opts false) args kw⟩) ?_ ?_
          (Or.inl hpend) ?_
        · simp [repliesFor_cons, hrt]
        · simp [Msg.isFinalReply, yieldDetails_progress]
        · simp [yieldFinish_calls]
      · refine ReplyOK.of_prog (x := ⟨v.callId.sess, .result v.callId.req (yieldDetails opts true) args kw⟩) ?_ ?_
          hpend ?_
        · simp [repliesFor_cons, hrt]
        · simp [Msg.isFinalReply, yieldDetails_progress]
        · simp [yieldFinish_calls, hpend]
    case true =>
    cases canRetry
    case true => rw [yieldOut_retry args kw progress v h1 h2 h3]; exact ReplyOK.of_nil rfl
    case false =>
      rw [yieldOut_giveup' h args kw progress hv hi h1 h2 h3]
      split
      · exact ReplyOK.of_nil rfl
      · refine ReplyOK.of_final (x := callErr v.callId [] ErrCanceled [] []) ?_ (by simp) (Or.inl hpend) (by simp)
        split <;> simp [repliesFor_cons]

theorem syncYield_replyOK {env : DEnv} {s : DState} (h : DealerInv s) (callee : SessKey) (req : Nat) (opts : Dict)
    (args : List WVal) (kw : Dict) (progress canRetry : Bool) (c : ReqId) (fresh : Prop) :
    ReplyOK s (syncYield env s callee req opts args kw progress canRetry) c fresh := by
  cases hf : s.d.findInv ⟨callee, req⟩ with
  | none =>
    rw [syncYield_none opts args kw progress canRetry hf]
    split
    · exact ReplyOK.of_nil (by simp [repliesFor_cons])
    · exact ReplyOK.of_nil rfl
  | some v =>
    rw [syncYield_some' h.call opts args kw progress canRetry hf]
    have hv := findInv_some_mem hf
    exact yieldOut_replyOK h opts args kw progress canRetry hv.1 hv.2 c fresh



/-! ### CALL -/

theorem errMsg_call (caller : SessKey) (req : Nat) (e : String) :
    (⟨caller, errMsg tCALL req e⟩ : Send) = callErr ⟨caller, req⟩ [] e [] [] := rfl

@[simp] theorem armTimer_calls (env : DEnv) (s : DState) (caller : SessKey) (req : Nat) (v : Invk) (t : Nat) :
    (armTimer env s caller req v t).d.calls = s.d.calls := by
  unfold armTimer; split <;> rfl

theorem dispatch_full {env : DEnv} {s : DState} (h : CallInv s.d) {caller : SessKey} {req : Nat} {callee : SessKey}
    {invReq : Nat} (v : Invk) (timeout : Nat) (m : Msg) {v' : Invk} (hf : env.full callee = true)
    (hfi : s.d.findInv ⟨callee, invReq⟩ = some v') :
    dispatch env s caller req callee invReq v timeout m =
      { st := { (s.cancelTimer v'.timer) with d := s.d.forget v'.callId ⟨callee, invReq⟩ }
        sends := [callErr v'.callId [] ErrNetworkFailure [.str "<text>"] []] } := by
  unfold dispatch
  rw [if_pos hf]
  exact syncError_some' h _ _ _ _ hfi

theorem dispatch_ok {env : DEnv} {s : DState} {caller : SessKey} {req : Nat} {callee : SessKey}
    (invReq : Nat) (v : Invk) (timeout : Nat) (m : Msg) (hf : env.full callee = false) :
    dispatch env s caller req callee invReq v timeout m =
      { st := armTimer env s caller req v timeout, sends := [⟨callee, m⟩] } := by
  unfold dispatch
  rw [if_neg (by simp [hf])]

theorem dispatchL_full {env : DEnv} {s : DState} (h : CallInv s.d) {caller : SessKey} {req : Nat} {callee : SessKey}
    {invReq : Nat} (v : Invk) (timeout : Nat) (m : Msg) {v' : Invk} (hf : env.full callee = true)
    (hfi : s.d.findInv ⟨callee, invReq⟩ = some v') :
    dispatchL env s caller req callee invReq v timeout m =
      { st := { (s.cancelTimer v'.timer) with d := s.d.forget v'.callId ⟨callee, invReq⟩ }
        sends := [callErr v'.callId [] ErrNetworkFailure [.str "<text>"] []] } := by
  unfold dispatchL
  rw [if_pos hf]
  exact syncError_some' h _ _ _ _ hfi

theorem dispatchL_ok {env : DEnv} {s : DState} {caller : SessKey} {req : Nat} {callee : SessKey}
    (invReq : Nat) (v : Invk) (timeout : Nat) (m : Msg) (hf : env.full callee = false) :
    dispatchL env s caller req callee invReq v timeout m =
      { st := armTimer env (preCancel s v timeout) caller req v timeout, sends := [⟨callee, m⟩] } := by
  unfold dispatchL
  rw [if_neg (by simp [hf])]

theorem findInv_setInv {d : Dealer} (hids : (d.invs.map (·.id)).Nodup) {v0 v : Invk} (hm : v0 ∈ d.invs)
    (hid : v.id = v0.id) : (d.setInv v).findInv v.id = some v := by
  have hn : ((d.setInv v).invs.map (·.id)).Nodup := by
    unfold Dealer.setInv; simp only
    rw [map_update_map_eq (f := fun x : Invk => x.id) (u := fun _ => v)]
    · exact hids
    · intro x _ hk; exact hk.symm
  rw [findInv_eq_some hn]
  refine ⟨?_, rfl⟩
  unfold Dealer.setInv; simp only
  exact (mem_map_update (f := fun x : Invk => x.id) (u := fun _ => v)).2 (Or.inr ⟨v0, hm, hid.symm, rfl⟩)

theorem findInv_setInv_ne {d : Dealer} {v : Invk} {i : ReqId} (hne : i ≠ v.id) :
    (d.setInv v).findInv i = d.findInv i := by
  unfold Dealer.setInv Dealer.findInv
  simp only
  rw [List.find?_map]
  have : ((fun x : Invk => x.id == i) ∘ fun x : Invk => if (x.id == v.id) = true then v else x) = fun x => x.id == i := by
    funext x
    simp only [Function.comp]
    by_cases hx : x.id = v.id
    · simp [hx]
    · simp [hx]
  rw [this]
  cases hf : d.invs.find? (fun x => x.id == i) with
  | none => rfl
  | some w =>
    have hw : w.id = i := by simpa using List.find?_some hf
    have : ¬ w.id = v.id := fun hx => hne (hw.symm.trans hx)
    simp [this]

/-- output of a CALL whose callee has no room: the INVOCATION is treated as answered with ERROR network_failure —
    the call `c` (invocation `i`, recorded timer `t`) is forgotten and the caller gets that ERROR -/
def fullOut (S : DState) (c i : ReqId) (t : Option Nat) : DOut :=
  { st := { S.cancelTimer t with d := S.d.forget c i }
    sends := [callErr c [] ErrNetworkFailure [.str "<text>"] []] }

/-- the first chunk of a call, accepted, callee has room: exactly the INVOCATION -/
theorem firstChunk_ok {env : DEnv} {s : DState} {reg : Reg} {caller : SessKey} {req : Nat} {opts : Dict} {proc : String}
    (args : List WVal) (kw : Dict) {callee : SessKey} (reg' : Reg)
    (hr : callRefusal env s.d.allowDisclose reg caller callee opts = none) (hf : env.full callee = false) :
    firstChunk env s reg caller req opts proc args kw callee reg' =
      { st := armTimer env (recordCall { s with d := s.d.setReg reg' } (newInvk s reg caller req callee opts) callee) caller req
                (newInvk s reg caller req callee opts) (routerTimeout env reg callee opts)
        sends := [⟨callee, .invocation (genOf s.invGen callee + 1) reg.id (invDetails env reg caller callee opts proc) args kw⟩] } := by
  rw [firstChunk_eq, hr]
  simp only
  rw [dispatch_ok _ _ _ _ hf, newInvk_id]

/-- the first chunk of a call, accepted, callee's queue full -/
theorem firstChunk_full_eq {env : DEnv} {s : DState} (h : DealerInv s) {reg : Reg} (hm : reg ∈ s.d.regs) {caller : SessKey}
    {req : Nat} {opts : Dict} {proc : String} (args : List WVal) (kw : Dict) {callee : SessKey} {reg' : Reg}
    (hs : reg'.shape = reg.shape) (hc : (⟨caller, req⟩ : ReqId) ∉ s.d.calls)
    (hr : callRefusal env s.d.allowDisclose reg caller callee opts = none) (hf : env.full callee = true) :
    firstChunk env s reg caller req opts proc args kw callee reg' =
      fullOut (recordCall { s with d := s.d.setReg reg' } (newInvk s reg caller req callee opts) callee) ⟨caller, req⟩
        ⟨callee, genOf s.invGen callee + 1⟩ none := by
  rw [firstChunk_eq, hr]
  simp only
  have h1 : DealerInv { s with d := s.d.setReg reg' } := h.setReg hm hs
  have h2 : DealerInv (recordCall { s with d := s.d.setReg reg' } (newInvk s reg caller req callee opts) callee) :=
    h1.recordCall (reg := reg) (caller := caller) (req := req) (callee := callee) (opts := opts) hc
  have hmem : newInvk s reg caller req callee opts ∈
      (recordCall { s with d := s.d.setReg reg' } (newInvk s reg caller req callee opts) callee).d.invs := by
    show _ ∈ _ ++ [_]
    exact List.mem_append_right _ (List.mem_singleton.2 rfl)
  have hfi := (findInv_eq_some h2.call.invIds).2 ⟨hmem, rfl⟩
  have hid : (newInvk s reg caller req callee opts).id = ⟨callee, (newInvk s reg caller req callee opts).id.req⟩ := by
    rw [newInvk_id]
  rw [hid] at hfi
  rw [dispatch_full h2.call _ _ _ hf hfi]
  have hreq : (newInvk s reg caller req callee opts).id.req = genOf s.invGen callee + 1 := by rw [newInvk_id]
  unfold fullOut
  rw [hreq]
  rfl

theorem fullOut_fresh_calls {s : DState} {reg : Reg} {reg' : Reg} {caller : SessKey} {req : Nat} {callee : SessKey}
    {opts : Dict} (hc : (⟨caller, req⟩ : ReqId) ∉ s.d.calls) (i : ReqId) (t : Option Nat) :
    (fullOut (recordCall { s with d := s.d.setReg reg' } (newInvk s reg caller req callee opts) callee) ⟨caller, req⟩
      i t).st.d.calls = s.d.calls := by
  show ((s.d.calls ++ [(newInvk s reg caller req callee opts).callId]).filter (· != (⟨caller, req⟩ : ReqId))) = s.d.calls
  have hcid : (newInvk s reg caller req callee opts).callId = ⟨caller, req⟩ := rfl
  rw [hcid, List.filter_append]
  have : s.d.calls.filter (· != (⟨caller, req⟩ : ReqId)) = s.d.calls :=
    List.filter_eq_self.2 (fun a ha => by simpa using fun he : a = ⟨caller, req⟩ => hc (he ▸ ha))
  rw [this]; simp

/-- the first chunk of a call, accepted, callee's queue full: ERROR network_failure, nothing recorded -/
theorem firstChunk_full {env : DEnv} {s : DState} (h : DealerInv s) {reg : Reg} (hm : reg ∈ s.d.regs) {caller : SessKey}
    {req : Nat} {opts : Dict} {proc : String} (args : List WVal) (kw : Dict) {callee : SessKey} {reg' : Reg}
    (hs : reg'.shape = reg.shape) (hc : (⟨caller, req⟩ : ReqId) ∉ s.d.calls)
    (hr : callRefusal env s.d.allowDisclose reg caller callee opts = none) (hf : env.full callee = true) :
    (firstChunk env s reg caller req opts proc args kw callee reg').sends =
        [callErr ⟨caller, req⟩ [] ErrNetworkFailure [.str "<text>"] []] ∧
      (firstChunk env s reg caller req opts proc args kw callee reg').st.d.calls = s.d.calls := by
  rw [firstChunk_full_eq h hm args kw hs hc hr hf]
  exact ⟨rfl, fullOut_fresh_calls hc _ _⟩

theorem laterChunk_ok {env : DEnv} {s : DState} (caller : SessKey) (req : Nat) (opts : Dict)
    (args : List WVal) (kw : Dict) (iid : ReqId) {v0 : Invk} (hf : env.full v0.callee = false) :
    laterChunk env s caller req opts args kw iid v0 =
      { st := armTimer env (preCancel { s with d := s.d.setInv { v0 with inProgress := opts.optFlag OptProgress } }
                  { v0 with inProgress := opts.optFlag OptProgress } (routerTimeoutF env v0.fwdTimeout v0.callee v0.options)) caller req
                { v0 with inProgress := opts.optFlag OptProgress } (routerTimeoutF env v0.fwdTimeout v0.callee v0.options)
        sends := [⟨v0.callee, .invocation iid.req v0.regId [(OptProgress, .bool (opts.optFlag OptProgress))] args kw⟩] } := by
  unfold laterChunk
  simp only
  rw [dispatchL_ok _ _ _ _ hf]

theorem laterChunk_full_eq {env : DEnv} {s : DState} (h : DealerInv s) {caller : SessKey} {req : Nat}
    (opts : Dict) (args : List WVal) (kw : Dict) {iid : ReqId} {v0 : Invk}
    (hb : s.d.byCall? ⟨caller, req⟩ = some iid) (hfi : s.d.findInv iid = some v0) (hf : env.full v0.callee = true) :
    laterChunk env s caller req opts args kw iid v0 =
      fullOut { s with d := s.d.setInv { v0 with inProgress := opts.optFlag OptProgress } } ⟨caller, req⟩ iid v0.timer := by
  obtain ⟨_, v, hf', hv, hvi, hvc, hve⟩ := h.call.byCall?_some hb
  rw [hfi] at hf'; cases hf'
  have h1 : DealerInv { s with d := s.d.setInv { v0 with inProgress := opts.optFlag OptProgress } } :=
    h.setInv (v' := { v0 with inProgress := opts.optFlag OptProgress }) hv rfl rfl
  have hfi' : (s.d.setInv { v0 with inProgress := opts.optFlag OptProgress }).findInv ⟨v0.callee, iid.req⟩ =
      some { v0 with inProgress := opts.optFlag OptProgress } := by
    have := findInv_setInv h.call.invIds (v := { v0 with inProgress := opts.optFlag OptProgress }) hv rfl
    have hid : (⟨v0.callee, iid.req⟩ : ReqId) = v0.id := by rw [hvi, hve]
    rw [hid]; exact this
  unfold laterChunk
  simp only
  rw [dispatchL_full h1.call _ _ _ hf hfi']
  have hid : (⟨v0.callee, iid.req⟩ : ReqId) = iid := by rw [hve]
  unfold fullOut
  simp only
  rw [hid, hvc]

theorem laterChunk_full {env : DEnv} {s : DState} (h : DealerInv s) {caller : SessKey} {req : Nat}
    (opts : Dict) (args : List WVal) (kw : Dict) {iid : ReqId} {v0 : Invk}
    (hb : s.d.byCall? ⟨caller, req⟩ = some iid) (hfi : s.d.findInv iid = some v0) (hf : env.full v0.callee = true) :
    (laterChunk env s caller req opts args kw iid v0).sends =
        [callErr ⟨caller, req⟩ [] ErrNetworkFailure [.str "<text>"] []] ∧
      (laterChunk env s caller req opts args kw iid v0).st.d.calls = s.d.calls.filter (· != ⟨caller, req⟩) := by
  rw [laterChunk_full_eq h opts args kw hb hfi hf]
  exact ⟨rfl, rfl⟩

/-- CASE ANALYSIS of `syncCall` under the invariant (the two panics and the empty-callee-list branch are excluded):
    a later chunk of a pending call (aborted / sent / callee full), or a new call (no match / caller aborted /
    refused / caller aborted for passthru / sent / callee full). -/
theorem syncCall_cases {env : DEnv} {s : DState} (h : DealerInv s) (caller : SessKey) (req : Nat) (opts : Dict)
    (proc : String) (args : List WVal) (kw : Dict) (rnd : Nat) {P : DOut → Prop}
    (hAbort : (opts.optFlag OptProgress && !hasFeat env caller RoleCaller FeatureProgCallInvocations) = true →
      P (progressAbort s caller))
    (hLaterOk : ∀ (iid : ReqId) (v0 : Invk), s.d.byCall? ⟨caller, req⟩ = some iid → s.d.findInv iid = some v0 →
      v0 ∈ s.d.invs → v0.id = iid → v0.callId = ⟨caller, req⟩ → v0.callee = iid.sess → env.full v0.callee = false →
      P { st := armTimer env (preCancel { s with d := s.d.setInv { v0 with inProgress := opts.optFlag OptProgress } }
                    { v0 with inProgress := opts.optFlag OptProgress } (routerTimeoutF env v0.fwdTimeout v0.callee v0.options)) caller req
                  { v0 with inProgress := opts.optFlag OptProgress } (routerTimeoutF env v0.fwdTimeout v0.callee v0.options)
          sends := [⟨v0.callee, .invocation iid.req v0.regId [(OptProgress, .bool (opts.optFlag OptProgress))] args kw⟩] })
    (hLaterFull : ∀ (iid : ReqId) (v0 : Invk), s.d.byCall? ⟨caller, req⟩ = some iid → s.d.findInv iid = some v0 →
      v0 ∈ s.d.invs → v0.id = iid → v0.callId = ⟨caller, req⟩ → v0.callee = iid.sess → env.full v0.callee = true →
      P (fullOut { s with d := s.d.setInv { v0 with inProgress := opts.optFlag OptProgress } } ⟨caller, req⟩ iid v0.timer))
    (hNoMatch : s.d.byCall? ⟨caller, req⟩ = none → (⟨caller, req⟩ : ReqId) ∉ s.d.calls → s.d.matchProcedure proc = none →
      P { st := s, sends := [callErr ⟨caller, req⟩ [] ErrNoSuchProcedure [] []] })
    (hRefErr : ∀ (reg reg' : Reg) (callee : SessKey) (e : String), s.d.byCall? ⟨caller, req⟩ = none →
      (⟨caller, req⟩ : ReqId) ∉ s.d.calls → s.d.matchProcedure proc = some reg → reg ∈ s.d.regs →
      pickCallee reg rnd = some (callee, reg') → reg'.shape = reg.shape →
      callRefusal env s.d.allowDisclose reg caller callee opts = some (.err e) →
      P { st := { s with d := s.d.setReg reg' }, sends := [callErr ⟨caller, req⟩ [] e [] []] })
    (hRefAbort : ∀ (reg reg' : Reg) (callee : SessKey), s.d.byCall? ⟨caller, req⟩ = none →
      (⟨caller, req⟩ : ReqId) ∉ s.d.calls → s.d.matchProcedure proc = some reg → reg ∈ s.d.regs →
      pickCallee reg rnd = some (callee, reg') → reg'.shape = reg.shape →
      callRefusal env s.d.allowDisclose reg caller callee opts = some .abort →
      P { st := { s with d := s.d.setReg reg' }, sends := [⟨caller, abortMsg "<text>"⟩], aborts := [caller] })
    (hFirstOk : ∀ (reg reg' : Reg) (callee : SessKey), s.d.byCall? ⟨caller, req⟩ = none →
      (⟨caller, req⟩ : ReqId) ∉ s.d.calls → s.d.matchProcedure proc = some reg → reg ∈ s.d.regs →
      pickCallee reg rnd = some (callee, reg') → reg'.shape = reg.shape →
      callRefusal env s.d.allowDisclose reg caller callee opts = none → env.full callee = false →
      P { st := armTimer env (recordCall { s with d := s.d.setReg reg' } (newInvk s reg caller req callee opts) callee)
                  caller req (newInvk s reg caller req callee opts) (routerTimeout env reg callee opts)
          sends := [⟨callee, .invocation (genOf s.invGen callee + 1) reg.id (invDetails env reg caller callee opts proc)
                      args kw⟩] })
    (hFirstFull : ∀ (reg reg' : Reg) (callee : SessKey), s.d.byCall? ⟨caller, req⟩ = none →
      (⟨caller, req⟩ : ReqId) ∉ s.d.calls → s.d.matchProcedure proc = some reg → reg ∈ s.d.regs →
      pickCallee reg rnd = some (callee, reg') → reg'.shape = reg.shape →
      callRefusal env s.d.allowDisclose reg caller callee opts = none → env.full callee = true →
      P (fullOut (recordCall { s with d := s.d.setReg reg' } (newInvk s reg caller req callee opts) callee) ⟨caller, req⟩
          ⟨callee, genOf s.invGen callee + 1⟩ none)) :
    P (syncCall env s caller req opts proc args kw rnd) := by
  rw [syncCall_eq]
  split
  · rename_i iid hb
    obtain ⟨_, v, hf', hv, hvi, hvc, hve⟩ := h.call.byCall?_some hb
    rw [hf']
    simp only
    split
    · rename_i hp; exact hAbort hp
    · cases hf : env.full v.callee with
      | false => rw [laterChunk_ok caller req opts args kw iid hf]; exact hLaterOk iid v hb hf' hv hvi hvc hve hf
      | true => rw [laterChunk_full_eq h opts args kw hb hf' hf]; exact hLaterFull iid v hb hf' hv hvi hvc hve hf
  · rename_i hb
    have hc0 : (⟨caller, req⟩ : ReqId) ∉ s.d.calls := by
      intro hc
      obtain ⟨i, _, hb', _⟩ := h.call.lookup hc
      rw [hb] at hb'; cases hb'
    split
    · rename_i hm; exact hNoMatch hb hc0 hm
    · rename_i reg hm
      have hmem := matchProcedure_mem hm
      split
      · rename_i he
        exact absurd (by simpa using he) (h.reg.regs.callees reg hmem).1
      · split
        · rename_i hp; exact hAbort hp
        · split
          · rename_i hp
            obtain ⟨c, reg', hp'⟩ := pickCallee_isSome h.reg.regs hmem rnd
            rw [hp] at hp'; cases hp'
          · rename_i callee reg' hp
            have hs := (pickCallee_shape hp).1
            cases hr : callRefusal env s.d.allowDisclose reg caller callee opts with
            | some r =>
              rw [firstChunk_eq, hr]
              cases r with
              | err e => exact hRefErr reg reg' callee e hb hc0 hm hmem hp hs hr
              | abort => exact hRefAbort reg reg' callee hb hc0 hm hmem hp hs hr
            | none =>
              cases hf : env.full callee with
              | false => rw [firstChunk_ok args kw reg' hr hf]; exact hFirstOk reg reg' callee hb hc0 hm hmem hp hs hr hf
              | true =>
                rw [firstChunk_full_eq h hmem args kw hs hc0 hr hf]
                exact hFirstFull reg reg' callee hb hc0 hm hmem hp hs hr hf

theorem syncCall_replyOK {env : DEnv} {s : DState} (h : DealerInv s) (caller : SessKey) (req : Nat) (opts : Dict)
    (proc : String) (args : List WVal) (kw : Dict) (rnd : Nat) (c : ReqId) :
    ReplyOK s (syncCall env s caller req opts proc args kw rnd) c (c = ⟨caller, req⟩) := by
  have hfin : ∀ (o : DOut) (d : Dict) (e : String) (a : List WVal), o.sends = [callErr ⟨caller, req⟩ d e a []] →
      (⟨caller, req⟩ : ReqId) ∉ o.st.d.calls → ReplyOK s o c (c = ⟨caller, req⟩) := by
    intro o d e a hs hgone
    by_cases hc : (⟨caller, req⟩ : ReqId) = c
    · subst hc
      exact ReplyOK.of_final (x := callErr ⟨caller, req⟩ d e a []) (by rw [hs]; simp [repliesFor_cons]) (by simp)
        (Or.inr rfl) hgone
    · exact ReplyOK.of_nil (by rw [hs]; simp [repliesFor_cons, hc])
  refine syncCall_cases (env := env) (P := fun o => ReplyOK s o c (c = ⟨caller, req⟩)) h caller req opts proc args kw rnd
    ?_ ?_ ?_ ?_ ?_ ?_ ?_ ?_
  · intro _; exact ReplyOK.of_nil (by simp [progressAbort, repliesFor_cons])
  · intros; exact ReplyOK.of_nil (by simp [repliesFor_cons])
  · intros; exact hfin _ _ _ _ rfl (by simp [fullOut])
  · intro _ hc0 _; exact hfin _ _ _ _ rfl hc0
  · intro reg reg' callee e _ hc0 _ _ _ _ _; exact hfin _ _ _ _ rfl hc0
  · intros; exact ReplyOK.of_nil (by simp [repliesFor_cons])
  · intros; exact ReplyOK.of_nil (by simp [repliesFor_cons])
  · intro reg reg' callee _ hc0 _ _ _ _ _ _
    exact hfin _ _ _ _ rfl (by rw [fullOut_fresh_calls hc0]; exact hc0)

/-! ### session removal -/

/-- the ERROR a caller gets when the callee serving its call goes away -/
def goneErr (c : ReqId) : Send := callErr c [] ErrCanceled [.str "<text>"] []

theorem mem_setInv_of_ne {d : Dealer} {v w : Invk} (hw : w ∈ d.invs) (hne : w.id ≠ v.id) : w ∈ (d.setInv v).invs := by
  unfold Dealer.setInv; simp only
  exact (mem_map_update (f := fun x : Invk => x.id) (u := fun _ => v)).2 (Or.inl ⟨hw, hne⟩)

/-- `invk.canceled = false` in `syncRemoveSession` -/
def uncancel (s : DState) (cur : Invk) : DState := { s with d := s.d.setInv { cur with canceled := false } }

/-- one iteration of the `cancelServed` loop on a stored invocation -/
theorem goneStep {env : DEnv} {s : DState} (h : DealerInv s) {cur : Invk} (hcur : cur ∈ s.d.invs) (t : Option Nat)
    {c : ReqId} (hcc : cur.callId = c) :
    (syncCancel env (uncancel (s.cancelTimer t) cur) c.sess c.req CancelModeSkip ErrCanceled [.str "<text>"]).sends =
      [goneErr c] ∧
    (syncCancel env (uncancel (s.cancelTimer t) cur) c.sess c.req CancelModeSkip ErrCanceled [.str "<text>"]).st.d.calls =
      s.d.calls.filter (· != c) ∧
    (∀ w ∈ s.d.invs, w.id ≠ cur.id →
      w ∈ (syncCancel env (uncancel (s.cancelTimer t) cur) c.sess c.req CancelModeSkip ErrCanceled [.str "<text>"]).st.d.invs) ∧
    DealerInv (syncCancel env (uncancel (s.cancelTimer t) cur) c.sess c.req CancelModeSkip ErrCanceled [.str "<text>"]).st := by
  subst hcc
  have hS : (s.cancelTimer t).d = s.d := cancelTimer_d s t
  have hcur' : cur ∈ (s.cancelTimer t).d.invs := by rw [hS]; exact hcur
  have h1 := h.cancelTimer t
  have h2 : DealerInv (uncancel (s.cancelTimer t) cur) := h1.setInv (v' := { cur with canceled := false }) hcur' rfl rfl
  have hc : (⟨cur.callId.sess, cur.callId.req⟩ : ReqId) ∈ (uncancel (s.cancelTimer t) cur).d.calls := by
    show cur.callId ∈ (s.cancelTimer t).d.calls
    rw [hS]; exact (h.call.inv_call hcur).1
  have hb : (uncancel (s.cancelTimer t) cur).d.byCall? ⟨cur.callId.sess, cur.callId.req⟩ = some cur.id := by
    show (s.cancelTimer t).d.byCall? cur.callId = some cur.id
    rw [hS]; exact (h.call.inv_call hcur).2.1
  have hf : (uncancel (s.cancelTimer t) cur).d.findInv cur.id = some { cur with canceled := false } :=
    findInv_setInv h1.call.invIds (v := { cur with canceled := false }) hcur' rfl
  have hci : canInterrupt env { cur with canceled := false } CancelModeSkip = false := by simp [canInterrupt]
  have hsc : syncCancel env (uncancel (s.cancelTimer t) cur) cur.callId.sess cur.callId.req CancelModeSkip ErrCanceled
      [.str "<text>"] =
      { st := { cancelMark (uncancel (s.cancelTimer t) cur) { cur with canceled := false } with
                d := (cancelMark (uncancel (s.cancelTimer t) cur) { cur with canceled := false }).d.forget
                  ⟨cur.callId.sess, cur.callId.req⟩ cur.id }
        sends := [callErr ⟨cur.callId.sess, cur.callId.req⟩ [] ErrCanceled [.str "<text>"] []] } := by
    rw [syncCancel_pending (env := env) CancelModeSkip ErrCanceled [.str "<text>"] hc hb hf]
    rw [if_neg (by simp), cancelOut_eq, hci]
    simp only [Bool.false_eq_true, if_false]
  refine ⟨?_, ?_, ?_, syncCancel_inv h2 _ _ _ _ _⟩
  · rw [hsc]; rfl
  · rw [hsc]
    simp only [forget_calls, cancelMark_calls]
    show (s.cancelTimer t).d.calls.filter _ = _
    rw [hS]
  · intro w hw hne
    rw [hsc]
    simp only [forget_invs, cancelMark_invs, List.mem_filter, bne_iff_ne, ne_eq]
    exact ⟨mem_setInv_of_ne (mem_setInv_of_ne (hS ▸ hw) hne) hne, hne⟩

theorem cancelServed_cons_skip {env : DEnv} {s : DState} {k : SessKey} {invk : Invk} (rest : List Invk)
    (hcond : (invk.callee != k || !s.d.calls.contains invk.callId) = true) :
    cancelServed env s k (invk :: rest) = cancelServed env s k rest := by
  rw [cancelServed, if_pos hcond]

theorem cancelServed_cons_hit {env : DEnv} {s : DState} {k : SessKey} {invk : Invk} (rest : List Invk) {cur : Invk}
    (hcond : ¬ (invk.callee != k || !s.d.calls.contains invk.callId) = true)
    (hfi : (s.cancelTimer invk.timer).d.findInv invk.id = some cur) :
    cancelServed env s k (invk :: rest) =
      ((cancelServed env (syncCancel env (uncancel (s.cancelTimer invk.timer) cur) invk.callId.sess invk.callId.req
          CancelModeSkip ErrCanceled [.str "<text>"]).st k rest).1,
       (syncCancel env (uncancel (s.cancelTimer invk.timer) cur) invk.callId.sess invk.callId.req
          CancelModeSkip ErrCanceled [.str "<text>"]).sends ++
       (cancelServed env (syncCancel env (uncancel (s.cancelTimer invk.timer) cur) invk.callId.sess invk.callId.req
          CancelModeSkip ErrCanceled [.str "<text>"]).st k rest).2) := by
  rw [cancelServed, if_neg hcond]
  simp only [hfi]
  rfl

theorem cancelServed_spec (env : DEnv) (k : SessKey) : ∀ (l : List Invk) (s : DState), DealerInv s →
    (l.map (·.callId)).Nodup →
    (∀ v ∈ l, v.callId ∈ s.d.calls → ∃ cur ∈ s.d.invs, cur.id = v.id ∧ cur.callId = v.callId) →
    (cancelServed env s k l).2 =
        (l.filter (fun v => v.callee == k && s.d.calls.contains v.callId)).map (fun v => goneErr v.callId) ∧
      (∀ c, c ∈ (cancelServed env s k l).1.d.calls ↔
        c ∈ s.d.calls ∧ ∀ v ∈ l, v.callee = k → v.callId ≠ c)
  | [], s, _, _, _ => by simp [cancelServed]
  | invk :: rest, s, h, hnd, hcur => by
    rw [List.map_cons, List.nodup_cons] at hnd
    by_cases hcond : (invk.callee != k || !s.d.calls.contains invk.callId) = true
    · rw [cancelServed_cons_skip rest hcond]
      obtain ⟨ih1, ih2⟩ := cancelServed_spec env k rest s h hnd.2 (fun v hv => hcur v (List.mem_cons_of_mem _ hv))
      have hcond' : (invk.callee == k && s.d.calls.contains invk.callId) = false := by
        cases h1 : invk.callee == k <;> cases h2 : s.d.calls.contains invk.callId <;> simp_all
      refine ⟨?_, ?_⟩
      · rw [ih1, List.filter_cons, hcond']; rfl
      · intro c
        rw [ih2]
        constructor
        · rintro ⟨hc, hall⟩
          refine ⟨hc, fun v hv hk => ?_⟩
          rcases List.mem_cons.1 hv with rfl | hv
          · intro he
            have : v.callId ∈ s.d.calls := he ▸ hc
            simp [hk, this] at hcond'
          · exact hall v hv hk
        · rintro ⟨hc, hall⟩
          exact ⟨hc, fun v hv => hall v (List.mem_cons_of_mem _ hv)⟩
    · have hk : invk.callee = k := by
        cases h1 : invk.callee == k <;> simp_all
      have hpend : invk.callId ∈ s.d.calls := by
        cases h2 : s.d.calls.contains invk.callId <;> simp_all
      obtain ⟨cur, hcm, hcid, hccall⟩ := hcur invk (List.mem_cons_self ..) hpend
      have hfi : (s.cancelTimer invk.timer).d.findInv invk.id = some cur := by
        rw [cancelTimer_d]; exact (findInv_eq_some h.call.invIds).2 ⟨hcm, hcid⟩
      rw [cancelServed_cons_hit rest hcond hfi]
      obtain ⟨g1, g2, g3, g4⟩ := goneStep (env := env) h hcm invk.timer hccall
      generalize syncCancel env (uncancel (s.cancelTimer invk.timer) cur) invk.callId.sess invk.callId.req
          CancelModeSkip ErrCanceled [.str "<text>"] = o at g1 g2 g3 g4 ⊢
      have hcur' : ∀ v ∈ rest, v.callId ∈ o.st.d.calls →
          ∃ cur' ∈ o.st.d.invs, cur'.id = v.id ∧ cur'.callId = v.callId := by
        intro v hv hvc
        rw [g2] at hvc
        have hvc' := List.mem_filter.1 hvc
        obtain ⟨cur', hm', hid', hcall'⟩ := hcur v (List.mem_cons_of_mem _ hv) hvc'.1
        refine ⟨cur', g3 cur' hm' ?_, hid', hcall'⟩
        intro he
        have : cur' = cur := nodup_map_inj h.call.invIds hm' hcm he
        have hne : v.callId ≠ invk.callId := by simpa using hvc'.2
        exact hne (by rw [← hcall', this, hccall])
      obtain ⟨ih1, ih2⟩ := cancelServed_spec env k rest o.st g4 hnd.2 hcur'
      have hcond' : (invk.callee == k && s.d.calls.contains invk.callId) = true := by simp [hk, hpend]
      refine ⟨?_, ?_⟩
      · simp only
        rw [ih1, g1, List.filter_cons, hcond', if_pos rfl, List.map_cons]
        rw [List.singleton_append]
        congr 2
        apply List.filter_congr
        intro v hv
        congr 1
        rw [g2]
        have hne : v.callId ≠ invk.callId := fun he => hnd.1 (List.mem_map.2 ⟨v, hv, he⟩)
        simp [hne]
      · intro c
        simp only
        rw [ih2, g2]
        simp only [List.mem_filter, bne_iff_ne, ne_eq, List.mem_cons, forall_eq_or_imp]
        constructor
        · rintro ⟨⟨hc, hne⟩, hall⟩
          exact ⟨hc, fun _ he => hne he.symm, hall⟩
        · rintro ⟨hc, hhead, hall⟩
          exact ⟨⟨hc, fun he => hhead hk he.symm⟩, hall⟩



theorem filter_key_nodup {α κ} [BEq κ] [LawfulBEq κ] {f : α → κ} : ∀ {l : List α}, (l.map f).Nodup → ∀ k : κ,
    (l.filter (fun x => f x == k) = [] ∧ ∀ x ∈ l, f x ≠ k) ∨
      ∃ v, v ∈ l ∧ f v = k ∧ l.filter (fun x => f x == k) = [v]
  | [], _, _ => Or.inl ⟨rfl, by simp⟩
  | x :: xs, h, k => by
    rw [List.map_cons, List.nodup_cons] at h
    by_cases hx : f x = k
    · right
      refine ⟨x, List.mem_cons_self .., hx, ?_⟩
      rw [List.filter_cons, if_pos (by simp [hx])]
      congr 1
      rw [List.filter_eq_nil_iff]
      intro y hy
      have : f y ≠ k := fun hyk => h.1 (hx ▸ hyk ▸ List.mem_map_of_mem hy)
      simpa using this
    · rcases filter_key_nodup h.2 k with ⟨h1, h2⟩ | ⟨v, hv, hvk, h1⟩
      · left
        refine ⟨by rw [List.filter_cons, if_neg (by simp [hx]), h1], ?_⟩
        intro y hy
        rcases List.mem_cons.1 hy with rfl | hy
        · exact hx
        · exact h2 y hy
      · right
        exact ⟨v, List.mem_cons_of_mem _ hv, hvk, by rw [List.filter_cons, if_neg (by simp [hx]), h1]⟩

theorem dropCalls_calls_subset (k : SessKey) : ∀ (l : List ReqId) (s : DState) (c : ReqId),
    c ∈ (dropCalls s k l).d.calls → c ∈ s.d.calls
  | [], _, _, h => h
  | x :: rest, s, c, h => by
    unfold dropCalls at h
    split at h
    · exact dropCalls_calls_subset k rest s c h
    · have := dropCalls_calls_subset k rest _ c h
      have hsub : ∀ (s' : DState), s'.d.calls = (s.d.delCall x).calls → c ∈ s'.d.calls → c ∈ s.d.calls := by
        intro s' he hc
        rw [he] at hc
        exact (List.mem_filter.1 hc).1
      revert this
      simp only
      split
      · intro this; exact hsub _ (by simp [Dealer.delByCall, Dealer.delInv]) this
      · intro this; exact hsub _ rfl this

theorem dropCalls_sess (k : SessKey) : ∀ (l : List ReqId) (s : DState) (c : ReqId),
    c ∈ (dropCalls s k l).d.calls → c ∈ l → c.sess ≠ k
  | [], _, _, _, hl => by cases hl
  | x :: rest, s, c, h, hl => by
    unfold dropCalls at h
    split at h
    · rename_i hx
      rcases List.mem_cons.1 hl with rfl | hl
      · simpa using hx
      · exact dropCalls_sess k rest s c h hl
    · rcases List.mem_cons.1 hl with rfl | hl
      · exfalso
        have := dropCalls_calls_subset k rest _ c h
        revert this
        simp only
        split <;> simp [Dealer.delCall, Dealer.delByCall, Dealer.delInv]
      · exact dropCalls_sess k rest _ c h hl

/-- state in which the invocation/call loops of `syncRemoveSession` start -/
theorem removeSession_mid {env : DEnv} {s : DState} (h : DealerInv s) (k : SessKey) :
    ∃ s1 : DState, DealerInv s1 ∧ s1.d.calls = s.d.calls ∧ s1.d.invs = s.d.invs ∧ s1.d.byCall = s.d.byCall ∧
      (s1.timers = s.timers ∧ s1.invGen = s.invGen) ∧ (∀ id c, calleeRel s1.d.regs id c ↔ calleeRel s.d.regs id c ∧ c ≠ k) ∧
      syncRemoveSession env s k =
        { st := dropCalls (cancelServed env s1 k s1.d.invs).1 k (cancelServed env s1 k s1.d.invs).1.d.calls
          sends := (cancelServed env s1 k s1.d.invs).2
          metaPubs := (removeRegs s.d k ((idxGet s.d.index k).getD [])).2.1
          panic := none } := by
  obtain ⟨d', pubs, he, hreg, hrel, hd'⟩ := removeRegs_all h k
  refine ⟨{ s with d := { d' with index := idxDrop d'.index k } },
    ⟨hreg, h.call.congr (by rw [hd']) (by rw [hd']) (by rw [hd']), h.aux.congr (by rw [hd']) rfl rfl rfl⟩,
    by rw [hd'], by rw [hd'], by rw [hd'], ⟨rfl, rfl⟩, hrel, ?_⟩
  unfold syncRemoveSession
  simp only [he]

theorem syncRemoveSession_sends {env : DEnv} {s : DState} (h : DealerInv s) (k : SessKey) :
    (syncRemoveSession env s k).sends = (s.d.invs.filter (fun v => v.callee == k)).map (fun v => goneErr v.callId) := by
  obtain ⟨s1, h1, hc, hi, _, _, _, he⟩ := removeSession_mid (env := env) h k
  rw [he]
  simp only
  have hspec := cancelServed_spec env k s1.d.invs s1 h1 h1.call.invCalls
    (fun v hv _ => ⟨v, hv, rfl, rfl⟩)
  rw [hspec.1, hi]
  congr 1
  apply List.filter_congr
  intro v hv
  have : v.callId ∈ s1.d.calls := (h1.call.inv_call (hi ▸ hv)).1
  simp [this]

theorem syncRemoveSession_calls {env : DEnv} {s : DState} (h : DealerInv s) (k : SessKey) (c : ReqId)
    (hc : c ∈ (syncRemoveSession env s k).st.d.calls) :
    c ∈ s.d.calls ∧ c.sess ≠ k ∧ ∀ v ∈ s.d.invs, v.callee = k → v.callId ≠ c := by
  obtain ⟨s1, h1, hcs, hi, _, _, _, he⟩ := removeSession_mid (env := env) h k
  rw [he] at hc
  simp only at hc
  have hspec := cancelServed_spec env k s1.d.invs s1 h1 h1.call.invCalls
    (fun v hv _ => ⟨v, hv, rfl, rfl⟩)
  have h2 := dropCalls_calls_subset k _ _ c hc
  have h3 := dropCalls_sess k _ _ c hc h2
  have h4 := (hspec.2 c).1 h2
  exact ⟨hcs ▸ h4.1, h3, fun v hv => h4.2 v (hi ▸ hv)⟩



@[simp] theorem goneErr_replyTo (c : ReqId) : (goneErr c).replyTo = some c := by simp [goneErr]
@[simp] theorem goneErr_final (c : ReqId) : (goneErr c).msg.isFinalReply = true := by simp [goneErr]

theorem repliesFor_map_goneErr (c : ReqId) (l : List Invk) :
    repliesFor c (l.map (fun v => goneErr v.callId)) =
      (l.filter (fun v => v.callId == c)).map (fun v => goneErr v.callId) := by
  unfold repliesFor
  rw [List.filter_map]
  congr 1

theorem syncRemoveSession_replies {env : DEnv} {s : DState} (h : DealerInv s) (k : SessKey) (c : ReqId) :
    (repliesFor c (syncRemoveSession env s k).sends = [] ∧ ∀ v ∈ s.d.invs, v.callee = k → v.callId ≠ c) ∨
    (repliesFor c (syncRemoveSession env s k).sends = [goneErr c] ∧ ∃ v ∈ s.d.invs, v.callee = k ∧ v.callId = c) := by
  rw [syncRemoveSession_sends h, repliesFor_map_goneErr]
  have hnd : ((s.d.invs.filter (fun v => v.callee == k)).map (·.callId)).Nodup := nodup_map_filter _ _ h.call.invCalls
  rcases filter_key_nodup (f := fun v : Invk => v.callId) hnd c with ⟨h1, h2⟩ | ⟨v, hv, hvc, h1⟩
  · left
    refine ⟨by rw [h1]; rfl, fun v hv hk => h2 v (List.mem_filter.2 ⟨hv, by simpa using hk⟩)⟩
  · right
    have hv' := List.mem_filter.1 hv
    exact ⟨by rw [h1]; simp [hvc], v, hv'.1, by simpa using hv'.2, hvc⟩

theorem syncRemoveSession_replyOK {env : DEnv} {s : DState} (h : DealerInv s) (k : SessKey) (c : ReqId) (fresh : Prop) :
    ReplyOK s (syncRemoveSession env s k) c fresh := by
  rcases syncRemoveSession_replies (env := env) h k c with ⟨h1, _⟩ | ⟨h1, v, hv, hk, hvc⟩
  · exact ReplyOK.of_nil h1
  · refine ReplyOK.of_final h1 (by simp) (Or.inl (hvc ▸ (h.call.inv_call hv).1)) ?_
    intro hc
    exact (syncRemoveSession_calls h k c hc).2.2 v hv hk hvc

theorem syncRegister_no_reply (s : DState) (callee : SessKey) (req : Nat) (proc m invoke : String)
    (disclose fwd wampURI : Bool) (c : ReqId) :
    repliesFor c (syncRegister s callee req proc m invoke disclose fwd wampURI).sends = [] := by
  apply repliesFor_of_none
  unfold syncRegister
  simp only
  split
  · simp [Send.replyTo, Msg.replyReq]
  · split
    · simp [Send.replyTo, Msg.replyReq, errMsg, tREGISTER, tCALL]
    · split
      · simp [Send.replyTo, Msg.replyReq, errMsg, tREGISTER, tCALL]
      · split
        · simp [Send.replyTo, Msg.replyReq, errMsg, tREGISTER, tCALL]
        · simp [Send.replyTo, Msg.replyReq]

theorem syncUnregister_no_reply (s : DState) (callee : SessKey) (req regId : Nat) (c : ReqId) :
    repliesFor c (syncUnregister s callee req regId).sends = [] := by
  apply repliesFor_of_none
  unfold syncUnregister
  simp only
  split
  · simp [Send.replyTo, Msg.replyReq, errMsg, tUNREGISTER, tCALL]
  · simp [Send.replyTo, Msg.replyReq]

/-- the step is the CALL (first or later chunk) with call id `c` -/
def IsCallStep (s : DState) (o : DOut) (c : ReqId) : Prop :=
  ∃ env opts proc args kw rnd, o = syncCall env s c.sess c.req opts proc args kw rnd

theorem ReplyOK.mono_fresh {s : DState} {o : DOut} {c : ReqId} {f f' : Prop} (h : ReplyOK s o c f) (hf : f → f') :
    ReplyOK s o c f' :=
  ⟨h.one, fun hn => (h.known hn).imp id hf, h.final, h.prog⟩

/-- The reply discipline holds for every step of the dealer. -/
theorem DStep.replyOK {s : DState} {o : DOut} (h : DealerInv s) (st : DStep s o) (c : ReqId) :
    ReplyOK s o c (IsCallStep s o c) := by
  cases st with
  | register => exact ReplyOK.of_nil (syncRegister_no_reply ..)
  | unregister => exact ReplyOK.of_nil (syncUnregister_no_reply ..)
  | call env caller req opts proc args kw rnd =>
    refine (syncCall_replyOK h caller req opts proc args kw rnd c).mono_fresh ?_
    rintro rfl
    exact ⟨env, opts, proc, args, kw, rnd, rfl⟩
  | cancel => exact syncCancel_replyOK h ..
  | yield => exact syncYield_replyOK h ..
  | error => exact syncError_replyOK h ..
  | removeSession => exact syncRemoveSession_replyOK h ..
  | dropTimers => exact ReplyOK.of_nil rfl



/-! ### which branch of `syncCall` is taken -/

/-- CALL to a procedure that resolves to nothing (not a chunk of a pending call): refused -/
theorem syncCall_nomatch {env : DEnv} {s : DState} (caller : SessKey) (req : Nat) (opts : Dict) {proc : String}
    (args : List WVal) (kw : Dict) (rnd : Nat) (hm : s.d.matchProcedure proc = none)
    (hb : s.d.byCall? ⟨caller, req⟩ = none) :
    syncCall env s caller req opts proc args kw rnd =
      { st := s, sends := [callErr ⟨caller, req⟩ [] ErrNoSuchProcedure [] []] } := by
  rw [syncCall_eq, hb]
  simp only [hm]
  rfl

theorem syncCall_first {env : DEnv} {s : DState} {caller : SessKey} {req : Nat} {opts : Dict} {proc : String}
    (args : List WVal) (kw : Dict) {rnd : Nat} {reg reg' : Reg} {callee : SessKey}
    (hm : s.d.matchProcedure proc = some reg) (hne : reg.callees.isEmpty = false)
    (hprog : (opts.optFlag OptProgress && !hasFeat env caller RoleCaller FeatureProgCallInvocations) = false)
    (hb : s.d.byCall? ⟨caller, req⟩ = none) (hp : pickCallee reg rnd = some (callee, reg')) :
    syncCall env s caller req opts proc args kw rnd = firstChunk env s reg caller req opts proc args kw callee reg' := by
  rw [syncCall_eq, hb]
  simp only [hm, hne, hprog, hp, Bool.false_eq_true, if_false]

/-- a later chunk of a pending call is routed without looking at the chunk's URI -/
theorem syncCall_later {env : DEnv} {s : DState} {caller : SessKey} {req : Nat} {opts : Dict} (proc : String)
    (args : List WVal) (kw : Dict) (rnd : Nat) {iid : ReqId} {v0 : Invk}
    (hprog : (opts.optFlag OptProgress && !hasFeat env caller RoleCaller FeatureProgCallInvocations) = false)
    (hb : s.d.byCall? ⟨caller, req⟩ = some iid) (hf : s.d.findInv iid = some v0) :
    syncCall env s caller req opts proc args kw rnd = laterChunk env s caller req opts args kw iid v0 := by
  rw [syncCall_eq, hb]
  simp only [hf, hprog, Bool.false_eq_true, if_false]

/-! ### `calls` grows only by the CALL being processed -/

theorem syncError_calls_sub {s : DState} (h : DealerInv s) (callee : SessKey) (req : Nat) (details : Dict) (err : String)
    (args : List WVal) (kw : Dict) (c : ReqId) (hc : c ∈ (syncError s callee req details err args kw).st.d.calls) :
    c ∈ s.d.calls := by
  cases hf : s.d.findInv ⟨callee, req⟩ with
  | none => rw [syncError_none _ _ _ _ hf] at hc; exact hc
  | some v =>
    rw [syncError_some' h.call _ _ _ _ hf] at hc
    exact (List.mem_filter.1 hc).1

theorem syncCancel_calls_sub {env : DEnv} {s : DState} (h : DealerInv s) (caller : SessKey) (req : Nat)
    (mode reason : String) (errArgs : List WVal) (c : ReqId)
    (hc : c ∈ (syncCancel env s caller req mode reason errArgs).st.d.calls) : c ∈ s.d.calls := by
  by_cases hp : (⟨caller, req⟩ : ReqId) ∈ s.d.calls
  · obtain ⟨i, v, hb, hf, _⟩ := h.call.lookup hp
    rw [syncCancel_pending mode reason errArgs hp hb hf] at hc
    split at hc
    · exact hc
    · rw [cancelOut_eq] at hc
      split at hc
      · split at hc
        · simpa using hc
        · simp only [forget_calls, cancelMark_calls] at hc; exact (List.mem_filter.1 hc).1
      · simp only [forget_calls, cancelMark_calls] at hc; exact (List.mem_filter.1 hc).1
  · rw [syncCancel_not_pending mode reason errArgs hp] at hc; exact hc

theorem syncYield_calls_sub {env : DEnv} {s : DState} (h : DealerInv s) (callee : SessKey) (req : Nat) (opts : Dict)
    (args : List WVal) (kw : Dict) (progress canRetry : Bool) (c : ReqId)
    (hc : c ∈ (syncYield env s callee req opts args kw progress canRetry).st.d.calls) : c ∈ s.d.calls := by
  cases hf : s.d.findInv ⟨callee, req⟩ with
  | none =>
    rw [syncYield_none opts args kw progress canRetry hf] at hc
    split at hc <;> exact hc
  | some v =>
    rw [syncYield_some' h.call opts args kw progress canRetry hf] at hc
    have hv := findInv_some_mem hf
    have hfin : c ∈ (yieldFinish s progress v ⟨callee, req⟩).d.calls → c ∈ s.d.calls := by
      rw [yieldFinish_calls]
      split
      · exact id
      · exact fun hx => (List.mem_filter.1 hx).1
    cases h1 : yieldPptCalleeBad env callee opts
    case true =>
      rw [yieldOut_calleeBad args kw progress canRetry v h1] at hc
      simp only [forget_calls, cancelTimer_d, yieldTimer_d] at hc
      exact (List.mem_filter.1 hc).1
    case false =>
    cases h2 : yieldPptCallerBad env v.callId.sess opts
    case true => rw [yieldOut_callerBad args kw progress canRetry v h1 h2] at hc; exact hfin hc
    case false =>
    cases h3 : env.full v.callId.sess
    case false => rw [yieldOut_deliver args kw progress canRetry v h1 h2 h3] at hc; exact hfin hc
    case true =>
    cases canRetry
    case true => rw [yieldOut_retry args kw progress v h1 h2 h3] at hc; simpa using hc
    case false =>
      rw [yieldOut_giveup' h args kw progress hv.1 hv.2 h1 h2 h3] at hc
      split at hc
      · exact hfin hc
      · simp only [forget_calls, cancelMark_calls, yieldTimer_d] at hc
        exact (List.mem_filter.1 hc).1

theorem syncCall_calls_sub {env : DEnv} {s : DState} (h : DealerInv s) (caller : SessKey) (req : Nat) (opts : Dict)
    (proc : String) (args : List WVal) (kw : Dict) (rnd : Nat) (c : ReqId)
    (hc : c ∈ (syncCall env s caller req opts proc args kw rnd).st.d.calls) : c ∈ s.d.calls ∨ c = ⟨caller, req⟩ := by
  revert hc
  refine syncCall_cases (env := env) (P := fun o => c ∈ o.st.d.calls → c ∈ s.d.calls ∨ c = ⟨caller, req⟩) h caller req
    opts proc args kw rnd ?_ ?_ ?_ ?_ ?_ ?_ ?_ ?_
  · intro _ hc; exact Or.inl hc
  · intro iid v0 _ _ _ _ _ _ _ hc
    simp only [armTimer_calls, preCancel_d] at hc; exact Or.inl hc
  · intro iid v0 _ _ _ _ _ _ _ hc
    exact Or.inl (List.mem_filter.1 hc).1
  · intro _ _ _ hc; exact Or.inl hc
  · intro reg reg' callee e _ _ _ _ _ _ _ hc; exact Or.inl hc
  · intro reg reg' callee _ _ _ _ _ _ _ hc; exact Or.inl hc
  · intro reg reg' callee _ _ _ _ _ _ _ _ hc
    simp only [armTimer_calls] at hc
    rcases List.mem_append.1 hc with hc | hc
    · exact Or.inl hc
    · exact Or.inr (List.mem_singleton.1 hc)
  · intro reg reg' callee _ hc0 _ _ _ _ _ _ hc
    rw [fullOut_fresh_calls hc0] at hc; exact Or.inl hc

theorem syncRegister_calls (s : DState) (callee : SessKey) (req : Nat) (proc m invoke : String)
    (disclose fwd wampURI : Bool) : (syncRegister s callee req proc m invoke disclose fwd wampURI).st.d.calls = s.d.calls := by
  unfold syncRegister
  simp only
  split
  · rfl
  · split
    · rfl
    · split
      · rfl
      · split <;> rfl

theorem syncUnregister_calls {s : DState} (h : DealerInv s) (callee : SessKey) (req regId : Nat) :
    (syncUnregister s callee req regId).st.d.calls = s.d.calls := by
  unfold syncUnregister
  simp only
  by_cases hr : calleeRel s.d.regs regId callee
  · obtain ⟨d', del, he, _, _, hd'⟩ :=
      delCalleeReg_some (d := { s.d with index := idxDel s.d.index callee regId }) h.reg.regs hr
    rw [he]; simp only; rw [hd']
  · rw [delCalleeReg_none (d := { s.d with index := idxDel s.d.index callee regId }) h.reg.regs hr]

/-- a call id enters `calls` only through the CALL that carries it -/
theorem DStep.calls_sub {s : DState} {o : DOut} (h : DealerInv s) (st : DStep s o) (c : ReqId)
    (hc : c ∈ o.st.d.calls) : c ∈ s.d.calls ∨ IsCallStep s o c := by
  cases st with
  | register => rw [syncRegister_calls] at hc; exact Or.inl hc
  | unregister => rw [syncUnregister_calls h] at hc; exact Or.inl hc
  | call env caller req opts proc args kw rnd =>
    rcases syncCall_calls_sub h caller req opts proc args kw rnd c hc with hc | rfl
    · exact Or.inl hc
    · exact Or.inr ⟨env, opts, proc, args, kw, rnd, rfl⟩
  | cancel => exact Or.inl (syncCancel_calls_sub h _ _ _ _ _ c hc)
  | yield => exact Or.inl (syncYield_calls_sub h _ _ _ _ _ _ _ c hc)
  | error => exact Or.inl (syncError_calls_sub h _ _ _ _ _ _ c hc)
  | removeSession => exact Or.inl (syncRemoveSession_calls h _ c hc).1
  | dropTimers => exact Or.inl hc



/-- a non-progress YIELD by the owning callee, caller able to receive: exactly one final reply
    (RESULT, or ERROR feature_not_supported when payload passthru is misused), call removed -/
theorem yield_final {env : DEnv} {s : DState} (h : DealerInv s) {v : Invk} (hv : v ∈ s.d.invs) (opts : Dict)
    (args : List WVal) (kw : Dict) (canRetry : Bool) (hfull : env.full v.callId.sess = false) :
    ∃ x, repliesFor v.callId (syncYield env s v.id.sess v.id.req opts args kw false canRetry).sends = [x] ∧
      x.msg.isFinalReply = true ∧ v.callId ∉ (syncYield env s v.id.sess v.id.req opts args kw false canRetry).st.d.calls := by
  have hf : s.d.findInv ⟨v.id.sess, v.id.req⟩ = some v := (findInv_eq_some h.call.invIds).2 ⟨hv, rfl⟩
  rw [syncYield_some' h.call opts args kw false canRetry hf]
  cases h1 : yieldPptCalleeBad env v.id.sess opts
  case true =>
    rw [yieldOut_calleeBad args kw false canRetry v h1]
    exact ⟨pptErr v.callId, by simp [repliesFor_cons], by simp, by simp⟩
  case false =>
  cases h2 : yieldPptCallerBad env v.callId.sess opts
  case true =>
    rw [yieldOut_callerBad args kw false canRetry v h1 h2]
    exact ⟨pptErr v.callId, by simp [repliesFor_cons], by simp, by simp [yieldFinish_calls]⟩
  case false =>
    rw [yieldOut_deliver args kw false canRetry v h1 h2 hfull]
    refine ⟨⟨v.callId.sess, .result v.callId.req (yieldDetails opts false) args kw⟩, ?_, ?_, by simp [yieldFinish_calls]⟩
    · have hrt : (⟨v.callId.sess, Msg.result v.callId.req (yieldDetails opts false) args kw⟩ : Send).replyTo = some v.callId := rfl
      simp [repliesFor_cons, hrt]
    · simp [Msg.isFinalReply, yieldDetails_progress]

/-- … and when payload passthru is not misused the reply is the RESULT carrying the YIELD's payload -/
theorem yield_final_payload {env : DEnv} {s : DState} (h : DealerInv s) {v : Invk} (hv : v ∈ s.d.invs) (opts : Dict)
    (args : List WVal) (kw : Dict) (canRetry : Bool) (hfull : env.full v.callId.sess = false)
    (h1 : yieldPptCalleeBad env v.id.sess opts = false) (h2 : yieldPptCallerBad env v.callId.sess opts = false) :
    (syncYield env s v.id.sess v.id.req opts args kw false canRetry).sends =
      [⟨v.callId.sess, .result v.callId.req (yieldDetails opts false) args kw⟩] := by
  have hf : s.d.findInv ⟨v.id.sess, v.id.req⟩ = some v := (findInv_eq_some h.call.invIds).2 ⟨hv, rfl⟩
  rw [syncYield_some' h.call opts args kw false canRetry hf, yieldOut_deliver args kw false canRetry v h1 h2 hfull]

/-- a progressive YIELD by the owning callee, caller able to receive and passthru not misused: one progressive
    RESULT with the payload, call stays -/
theorem yield_progress {env : DEnv} {s : DState} (h : DealerInv s) {v : Invk} (hv : v ∈ s.d.invs) (opts : Dict)
    (args : List WVal) (kw : Dict) (canRetry : Bool) (hfull : env.full v.callId.sess = false)
    (h1 : yieldPptCalleeBad env v.id.sess opts = false) (h2 : yieldPptCallerBad env v.callId.sess opts = false) :
    syncYield env s v.id.sess v.id.req opts args kw true canRetry =
      { st := s, sends := [⟨v.callId.sess, .result v.callId.req (yieldDetails opts true) args kw⟩] } := by
  have hf : s.d.findInv ⟨v.id.sess, v.id.req⟩ = some v := (findInv_eq_some h.call.invIds).2 ⟨hv, rfl⟩
  rw [syncYield_some' h.call opts args kw true canRetry hf, yieldOut_deliver args kw true canRetry v h1 h2 hfull]
  rfl

/-- `syncCancel` on a pending call -/
theorem syncCancel_lookup {env : DEnv} {s : DState} (h : DealerInv s) {c : ReqId} (hc : c ∈ s.d.calls) :
    ∃ i v, v ∈ s.d.invs ∧ v.id = i ∧ v.callId = c ∧ v.callee = i.sess ∧ s.d.byCall? c = some i ∧
      s.d.findInv i = some v ∧
      ∀ mode reason errArgs, syncCancel env s c.sess c.req mode reason errArgs =
        if v.canceled then { st := s } else cancelOut env s c.sess c.req mode reason errArgs i v := by
  obtain ⟨i, v, hb, hf, hv, hvi, hvc, hve⟩ := h.call.lookup hc
  exact ⟨i, v, hv, hvi, hvc, hve, hb, hf, fun mode reason errArgs => syncCancel_pending mode reason errArgs hc hb hf⟩


/-- `syncCancel` on a pending, not yet cancelled call, by cases on "can the callee be interrupted" and the mode -/
theorem syncCancel_live {env : DEnv} {s : DState} (h : DealerInv s) {c : ReqId} {v : Invk} (hv : v ∈ s.d.invs)
    (hvc : v.callId = c) (hcan : v.canceled = false) (mode reason : String) (errArgs : List WVal) :
    syncCancel env s c.sess c.req mode reason errArgs =
      if canInterrupt env v mode then
        if mode = CancelModeKill then { st := cancelMark s v, sends := [interruptOf v v.id mode reason] }
        else { st := { cancelMark s v with d := (cancelMark s v).d.forget c v.id }
               sends := [interruptOf v v.id mode reason, callErr c [] reason errArgs []] }
      else { st := { cancelMark s v with d := (cancelMark s v).d.forget c v.id }
             sends := [callErr c [] reason errArgs []] } := by
  have hc : c ∈ s.d.calls := hvc ▸ (h.call.inv_call hv).1
  obtain ⟨i, v', hv', hvi, hvc', _, hb, hf, hsc⟩ := syncCancel_lookup (env := env) h hc
  have : v' = v := nodup_map_inj h.call.invCalls hv' hv (hvc'.trans hvc.symm)
  subst this
  subst hvi
  rw [hsc, if_neg (by simp [hcan]), cancelOut_eq]

/-- `syncCancel` has no effect on a call that is already cancelled (kill mode, waiting for the callee) -/
theorem syncCancel_canceled {env : DEnv} {s : DState} (h : DealerInv s) {c : ReqId} {v : Invk} (hv : v ∈ s.d.invs)
    (hvc : v.callId = c) (hcan : v.canceled = true) (mode reason : String) (errArgs : List WVal) :
    syncCancel env s c.sess c.req mode reason errArgs = { st := s } := by
  have hc : c ∈ s.d.calls := hvc ▸ (h.call.inv_call hv).1
  obtain ⟨i, v', hv', hvi, hvc', _, hb, hf, hsc⟩ := syncCancel_lookup (env := env) h hc
  have : v' = v := nodup_map_inj h.call.invCalls hv' hv (hvc'.trans hvc.symm)
  subst this
  rw [hsc, if_pos hcan]

/-- the invocation of a cancelled call is still stored, with `canceled` set -/
theorem cancelMark_inv {s : DState} (h : DealerInv s) {v : Invk} (hv : v ∈ s.d.invs) :
    DealerInv (cancelMark s v) ∧ ({ v with canceled := true } : Invk) ∈ (cancelMark s v).d.invs := by
  refine ⟨(h.setInv (v' := { v with canceled := true }) hv rfl rfl).cancelTimer _, ?_⟩
  rw [cancelMark_invs]
  unfold Dealer.setInv
  simp only
  exact (mem_map_update (f := fun x : Invk => x.id) (u := fun _ => { v with canceled := true })).2
    (Or.inr ⟨v, hv, rfl, rfl⟩)

end Nexus.L2
