/-
  WP-C / C07 (yield retry loop), part 1: who touches `Realm.retries` and `Realm.now`.

  `RN r r'`: `r'` has the retry table and the clock of `r`.  Every function of the realm model
  except `handleYield` (appends one entry), `retryDue` (one turn of the loop) and `advance`
  (moves the clock) satisfies it.  `handleMsg`, `recvMsg`, `runTask`, `stepOp` are characterised
  by `Enter`: the table is unchanged, or one entry in phase 1 was appended by a YIELD whose
  RESULT met a full caller queue.
-/
import Nexus.L2.Proofs.RealmInv
import Nexus.L2.Proofs.DealerRealmRpc
import Nexus.L2.Proofs.RealmAuthz

namespace Nexus.L2.WpC
open Nexus.L2 Nexus.L2.Realm Gen.N

/-- `r'` has the retry table and the clock of `r` -/
def RN (r r' : Realm) : Prop := r'.retries = r.retries ∧ r'.now = r.now

theorem RN.refl (r : Realm) : RN r r := ⟨rfl, rfl⟩

theorem RN.trans {a b c : Realm} (h1 : RN a b) (h2 : RN b c) : RN a c :=
  ⟨h2.1.trans h1.1, h2.2.trans h1.2⟩

theorem rn_setPanic (r : Realm) (p : Option String) : RN r (r.setPanic p) :=
  ⟨dsetPanic_retries r p, dsetPanic_now r p⟩

theorem rn_trySend (r : Realm) (s : Send) : RN r (r.trySend s) := ⟨dtrySend_retries r s, dtrySend_now r s⟩

theorem rn_deliver (r : Realm) (ss : List Send) : RN r (r.deliver ss) := ⟨ddeliver_retries ss r, ddeliver_now ss r⟩

theorem rn_applyD (r : Realm) (o : DOut) : RN r (r.applyD o) := ⟨dapplyD_retries r o, dapplyD_now r o⟩

macro "rn_tac" : tactic => `(tactic| (
  try dsimp only
  repeat' split
  all_goals (unfold RN)
  all_goals (try simp only [dtrySend_retries, dtrySend_now, ddeliver_retries, ddeliver_now, dapplyD_retries,
    dapplyD_now, dsetPanic_retries, dsetPanic_now])
  all_goals (first | exact ⟨rfl, rfl⟩ | exact ⟨trivial, trivial⟩ | skip)))

theorem rn_handlePublish (r : Realm) (s : Session) (req : Nat) (opts : Dict) (topic : String)
    (args : List WVal) (kw : Dict) : RN r (handlePublish r s req opts topic args kw) := by
  unfold handlePublish
  simp only [freshPub]
  rn_tac

theorem rn_handleSubscribe (r : Realm) (s : Session) (req : Nat) (opts : Dict) (topic : String) :
    RN r (handleSubscribe r s req opts topic) := by
  unfold handleSubscribe
  rn_tac

theorem rn_handleUnsubscribe (r : Realm) (s : Session) (req sub : Nat) : RN r (handleUnsubscribe r s req sub) := by
  unfold handleUnsubscribe
  rn_tac

theorem rn_handleRegister (r : Realm) (s : Session) (req : Nat) (opts : Dict) (proc : String) :
    RN r (handleRegister r s req opts proc) := by
  unfold handleRegister
  rn_tac

theorem rn_handleUnregister (r : Realm) (s : Session) (req reg : Nat) : RN r (handleUnregister r s req reg) :=
  rn_applyD _ _

theorem rn_handleCall (r : Realm) (s : Session) (req : Nat) (opts : Dict) (proc : String) (args : List WVal)
    (kw : Dict) : RN r (handleCall r s req opts proc args kw) := rn_applyD _ _

theorem rn_handleCancel (r : Realm) (s : Session) (req : Nat) (opts : Dict) : RN r (handleCancel r s req opts) := by
  unfold handleCancel
  rn_tac

theorem rn_handleError (r : Realm) (s : Session) (req : Nat) (details : Dict) (err : String) (args : List WVal)
    (kw : Dict) : RN r (handleError r s req details err args kw) := rn_applyD _ _

/-! ### the gate -/

theorem gate_pass (r : Realm) (s : Session) (m : Msg) (h : (authzGate r s m).1 = true) : (authzGate r s m).2 = r := by
  rw [authzGate_eq_gateG] at h ⊢
  generalize Option.map authzDecision r.cfg.authz = dec at h ⊢
  cases dec with
  | none => rfl
  | some f =>
    unfold gateG at h ⊢
    dsimp only at h ⊢
    by_cases h1 : exempt r.cfg.localAuthz s = true
    · rw [if_pos h1]
    · rw [if_neg h1] at h ⊢
      by_cases h2 : allows (f s.key m) = true
      · rw [if_pos h2]
      · rw [if_neg h2] at h
        cases h

theorem rn_gate (r : Realm) (s : Session) (m : Msg) : RN r (authzGate r s m).2 := by
  rw [authzGate_eq_gateG]
  unfold gateG
  rn_tac

/-! ### entering the loop -/

/-- the entry `handleYield` appends when the dealer answers "again" -/
def entryOf (r : Realm) (k : SessKey) (req : Nat) (opts : Dict) (args : List WVal) (kw : Dict) : Retry :=
  { callee := k, req := req, opts := opts, args := args, kw := kw, progress := opts.optFlag OptProgress,
    start := r.now, next := r.now + yieldRetryDelayMs, delay := yieldRetryDelayMs }

/-- what the YIELD handler of session `k` may do to the retry table: nothing, or (the dealer answered "again",
    i.e. the RESULT met a full caller queue) append one fresh entry for `k`; the clock is untouched -/
def Enter (k : SessKey) (r r' : Realm) : Prop :=
  r'.now = r.now ∧
  (r'.retries = r.retries ∨
    ∃ req opts args kw,
      (syncYield r.denv r.ds k req opts args kw (opts.optFlag OptProgress) true).again = true ∧
      r'.retries = r.retries ++ [entryOf r k req opts args kw])

theorem Enter.of_rn {k : SessKey} {r r' : Realm} (h : RN r r') : Enter k r r' := ⟨h.2, Or.inl h.1⟩

theorem handleYield_enter (r : Realm) (s : Session) (req : Nat) (opts : Dict) (args : List WVal) (kw : Dict) :
    Enter s.key r (handleYield r s req opts args kw) := by
  unfold handleYield
  dsimp only
  split
  · rename_i ha
    refine ⟨dapplyD_now _ _, Or.inr ⟨req, opts, args, kw, ha, ?_⟩⟩
    simp only [dapplyD_retries, dapplyD_now]
    rfl
  · exact Enter.of_rn (rn_applyD _ _)

theorem dispatch_enter (r : Realm) (s : Session) (m : Msg) : Enter s.key r (Realm.dispatch r s m) := by
  cases m
  case publish => exact Enter.of_rn (rn_handlePublish ..)
  case yield => exact handleYield_enter ..
  case call => exact Enter.of_rn (rn_handleCall ..)
  case cancel => exact Enter.of_rn (rn_handleCancel ..)
  case subscribe => exact Enter.of_rn (rn_handleSubscribe ..)
  case register => exact Enter.of_rn (rn_handleRegister ..)
  case unsubscribe => exact Enter.of_rn (rn_handleUnsubscribe ..)
  case unregister => exact Enter.of_rn (rn_handleUnregister ..)
  case error typ req details err args kw =>
    show Enter s.key r (if typ != tINVOCATION then _ else handleError r s req details err args kw)
    split
    · exact Enter.of_rn ⟨rfl, rfl⟩
    · exact Enter.of_rn (rn_handleError ..)
  case goodbye =>
    apply Enter.of_rn
    show RN r (let r' := r.trySend _; ({ r' with tasks := _, ending := _ } : Realm))
    exact ⟨dtrySend_retries _ _, dtrySend_now _ _⟩
  all_goals exact Enter.of_rn ⟨rfl, rfl⟩

theorem handleMsg_enter (r : Realm) (s : Session) (m : Msg) : Enter s.key r (handleMsg r s m) := by
  rw [handleMsg_eq]
  split
  · rename_i h
    rw [gate_pass r s m h]
    exact dispatch_enter r s m
  · exact Enter.of_rn (rn_gate r s m)

/-- a message read by the handler of `k`: as `Enter`, and an entry is appended only when `k` was not busy -/
theorem recvMsg_enter (r : Realm) (k : SessKey) (m : Msg) :
    Enter k r (r.recvMsg k m) ∧ ((r.recvMsg k m).retries ≠ r.retries → r.busy k = false) := by
  rw [recvMsg_eq]
  split
  · exact ⟨Enter.of_rn (RN.refl r), fun h => absurd rfl h⟩
  · rename_i s hs
    split
    · exact ⟨Enter.of_rn (RN.refl r), fun h => absurd rfl h⟩
    · split
      · split
        · exact ⟨Enter.of_rn ⟨rfl, rfl⟩, fun h => absurd rfl h⟩
        · exact ⟨Enter.of_rn (RN.refl r), fun h => absurd rfl h⟩
      · rename_i hb
        have hk : s.key = k := (find?_key hs).2
        refine ⟨hk ▸ handleMsg_enter r s m, fun _ => ?_⟩
        simpa using hb

/-! ### session end -/

theorem rn_takeTestaments (r : Realm) (k : SessKey) : RN r (r.takeTestaments k).2 := by
  unfold takeTestaments
  split <;> exact ⟨rfl, rfl⟩

theorem rn_leaveSend (r : Realm) (k : SessKey) (mode : LeaveMode) : RN r (leaveSend r k mode) := by
  cases mode <;> first | exact rn_trySend _ _ | exact RN.refl r

theorem rn_leaveRemove (r : Realm) (k : SessKey) (quiet : Bool) : RN r (leaveRemove r k quiet) := by
  unfold leaveRemove
  split
  · extract_lets o
    split
    exact RN.trans (b := { r with ds := o.st, broker := _ }) ⟨rfl, rfl⟩ (rn_setPanic _ _)
  · extract_lets o ra
    split
    exact RN.trans (rn_applyD r o) (RN.trans (b := { ra with broker := _, pubCount := _ }) ⟨rfl, rfl⟩ (rn_deliver _ _))

theorem rn_leaveAnnounce (r : Realm) (s : Session) (tst : Option TBucket) (silent : Bool) :
    RN r (leaveAnnounce r s tst silent) := by
  unfold leaveAnnounce
  split <;> exact ⟨rfl, rfl⟩

theorem rn_leave (r : Realm) (k : SessKey) (mode : LeaveMode) : RN r (r.leave k mode) := by
  cases hf : r.clients.find? (fun c => c.key == k) with
  | none => rw [leave_none mode hf]; exact RN.refl r
  | some s =>
    rw [leave_some mode hf]
    have h4 := RN.trans (RN.trans (RN.trans (rn_leaveSend r k mode) (rn_takeTestaments _ k))
      (rn_leaveRemove _ k mode.isShutdown))
      (rn_leaveAnnounce _ s ((leaveSend r k mode).takeTestaments k).1 mode.isShutdown)
    exact RN.trans h4 ⟨rfl, rfl⟩

theorem rn_metaEffect {r r' : Realm} (e : MetaEffect r r') : RN r r' := by
  cases e <;> exact ⟨rfl, rfl⟩

/-! ### tasks and external inputs -/

/-- the session whose handler runs the task (for the tasks that can reach `handleYield`) -/
def taskKey (r : Realm) : Task → SessKey
  | .inMsg k _ => k
  | _ => r.metaS.key

/-- One internal task: the clock is untouched; the retry table is unchanged or got one fresh entry — through
    `metaMsg` (the meta session's handler, callee `metaS.key`) or through `inMsg k` for a handler `k` that
    was not busy. -/
theorem runTask_enter (r : Realm) (t : Task) :
    Enter (taskKey r t) r (r.runTask t) ∧
    ((r.runTask t).retries ≠ r.retries → (∃ m, t = .metaMsg m) ∨ ∃ k m, t = .inMsg k m ∧ r.busy k = false) := by
  cases t with
  | inMsg k m =>
    obtain ⟨h1, h2⟩ := recvMsg_enter r k m
    exact ⟨h1, fun h => Or.inr ⟨k, m, rfl, h2 h⟩⟩
  | metaPub p => exact ⟨Enter.of_rn (rn_handlePublish ..), fun h => absurd (rn_handlePublish ..).1 h⟩
  | metaInvoke req reg details args kw =>
    rw [runTask_metaInvoke]
    split
    · exact ⟨Enter.of_rn ⟨rfl, rfl⟩, fun h => absurd rfl h⟩
    · rename_i proc _
      have := rn_metaEffect (metaProc_effect r proc req details args kw)
      exact ⟨Enter.of_rn ⟨this.1, this.2⟩, fun h => absurd this.1 h⟩
  | metaMsg m => exact ⟨handleMsg_enter r r.metaS m, fun _ => Or.inl ⟨m, rfl⟩⟩
  | leave k mode =>
    rw [runTask_leave]
    split
    · exact ⟨Enter.of_rn ⟨rfl, rfl⟩, fun h => absurd rfl h⟩
    · exact ⟨Enter.of_rn (rn_leave r k mode), fun h => absurd (rn_leave r k mode).1 h⟩

/-- One external input before its tasks run (`tick` is handled by `advance`). -/
theorem stepOp_enter (r : Realm) (op : Op) :
    (∃ k, Enter k r (r.stepOp op) ∧ ((r.stepOp op).retries ≠ r.retries → r.busy k = false)) := by
  cases op with
  | msg k m => exact ⟨k, recvMsg_enter r k m⟩
  | join k isLocal details roles cap =>
    refine ⟨0, ?_, ?_⟩ <;> rw [stepOp_join] <;> split
    · exact Enter.of_rn ⟨rfl, rfl⟩
    · exact Enter.of_rn ⟨rfl, rfl⟩
    · exact fun h => absurd rfl h
    · exact fun h => absurd rfl h
  | buffer k => exact ⟨0, Enter.of_rn ⟨rfl, rfl⟩, fun h => absurd rfl h⟩
  | drop k =>
    refine ⟨0, ?_, ?_⟩ <;> rw [stepOp_drop] <;> split <;> (try split)
    · exact Enter.of_rn ⟨rfl, rfl⟩
    · exact Enter.of_rn ⟨rfl, rfl⟩
    · exact Enter.of_rn ⟨rfl, rfl⟩
    · exact fun h => absurd rfl h
    · exact fun h => absurd rfl h
    · exact fun h => absurd rfl h
  | stall k => exact ⟨0, Enter.of_rn ⟨rfl, rfl⟩, fun h => absurd rfl h⟩
  | resume k => exact ⟨0, Enter.of_rn ⟨rfl, rfl⟩, fun h => absurd rfl h⟩
  | tick ms => exact ⟨0, Enter.of_rn ⟨rfl, rfl⟩, fun h => absurd rfl h⟩
  | rnd n => exact ⟨0, Enter.of_rn ⟨rfl, rfl⟩, fun h => absurd rfl h⟩

theorem rn_timerDue (r : Realm) (t : Timer) : RN r (r.timerDue t) := by
  unfold timerDue
  extract_lets ds1 r1
  exact RN.trans (b := r1) ⟨rfl, rfl⟩ (rn_applyD r1 _)

theorem rn_flush (r : Realm) : RN r r.flush.2 := by
  unfold flush
  extract_lets reading out seenClosed keep keepEmpty
  exact ⟨rfl, rfl⟩

end Nexus.L2.WpC
