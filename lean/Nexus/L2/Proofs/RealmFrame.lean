/-
  Confinement of a realm's inputs and outputs to its own sessions (helper lemmas for C11).

  `Realm.Conf P r`: every session key the realm `r` can emit output for — the attached
  sessions (`clients`), the owners of the router→client queues (`queues`) and the peers
  closed during the current step (`closedPeers`) — satisfies `P`.

  The lemmas show that `Conf P` is preserved by every function of `Nexus.L2.Realm`
  (for a `join` the joining key must satisfy `P`), and that everything `flush` shows to
  the outside concerns keys satisfying `P`.
-/
import Nexus.L2.Proofs.RealmBase

namespace Nexus.L2
namespace Realm
open Gen.N

def Conf (P : SessKey → Prop) (r : Realm) : Prop :=
  (∀ c ∈ r.clients, P c.key) ∧ (∀ q ∈ r.queues, P q.1) ∧ (∀ k ∈ r.closedPeers, P k)

variable {P : SessKey → Prop}

theorem Conf.mono {Q : SessKey → Prop} {r : Realm} (h : Conf P r) (hpq : ∀ k, P k → Q k) : Conf Q r :=
  ⟨fun c hc => hpq _ (h.1 c hc), fun q hq => hpq _ (h.2.1 q hq), fun k hk => hpq _ (h.2.2 k hk)⟩

/-! ### primitives: `Conf` is insensitive to them -/

theorem conf_setPanic (r : Realm) (p : Option String) : Conf P (r.setPanic p) ↔ Conf P r := by
  unfold setPanic
  split <;> exact Iff.rfl

theorem conf_addTasks (r : Realm) (ts : List Task) : Conf P (r.addTasks ts) ↔ Conf P r := Iff.rfl

theorem conf_trySend (r : Realm) (s : Send) : Conf P (r.trySend s) ↔ Conf P r := by
  unfold trySend
  split
  · split <;> exact Iff.rfl
  · split
    · exact conf_setPanic _ _
    · rename_i c hc
      obtain ⟨hm, hk⟩ := find?_key hc
      split
      · exact Iff.rfl
      · split
        · simp only [Conf, List.mem_map]
          constructor
          · rintro ⟨h1, h2, h3⟩
            refine ⟨h1, fun q hq => ?_, h3⟩
            have := h2 _ ⟨q, hq, rfl⟩
            by_cases e : (q.1 == s.to) = true
            · simpa [e] using this
            · simpa [e] using this
          · rintro ⟨h1, h2, h3⟩
            refine ⟨h1, ?_, h3⟩
            rintro _ ⟨q, hq, rfl⟩
            by_cases e : (q.1 == s.to) = true
            · simpa [e] using h2 q hq
            · simpa [e] using h2 q hq
        · simp only [Conf, List.mem_append, List.mem_singleton]
          constructor
          · rintro ⟨h1, h2, h3⟩
            exact ⟨h1, fun q hq => h2 q (Or.inl hq), h3⟩
          · rintro ⟨h1, h2, h3⟩
            refine ⟨h1, ?_, h3⟩
            rintro q (hq | rfl)
            · exact h2 q hq
            · exact hk ▸ h1 c hm

theorem conf_deliver (ss : List Send) : ∀ (r : Realm), Conf P (r.deliver ss) ↔ Conf P r := by
  induction ss with
  | nil => intro r; exact Iff.rfl
  | cons s ss ih => intro r; simp only [deliver]; rw [ih, conf_trySend]

theorem conf_applyD (r : Realm) (o : DOut) : Conf P (r.applyD o) ↔ Conf P r := by
  unfold applyD
  simp only [conf_setPanic]
  show Conf P (({ r with ds := o.st } : Realm).deliver o.sends) ↔ Conf P r
  rw [conf_deliver]
  exact Iff.rfl

/-! ### handlers -/

macro "conf_tac" : tactic => `(tactic| (
  try dsimp only
  repeat' split
  all_goals (try simp only [conf_trySend, conf_deliver, conf_applyD, conf_setPanic])
  all_goals (first | exact Iff.rfl | exact Iff.trans Iff.rfl (conf_trySend _ _) | skip)))

theorem conf_handlePublish (r : Realm) (s : Session) (req : Nat) (opts : Dict) (topic : String)
    (args : List WVal) (kw : Dict) : Conf P (handlePublish r s req opts topic args kw) ↔ Conf P r := by
  unfold handlePublish
  simp only [freshPub]
  conf_tac

theorem conf_handleSubscribe (r : Realm) (s : Session) (req : Nat) (opts : Dict) (topic : String) :
    Conf P (handleSubscribe r s req opts topic) ↔ Conf P r := by
  unfold handleSubscribe
  conf_tac

theorem conf_handleUnsubscribe (r : Realm) (s : Session) (req sub : Nat) :
    Conf P (handleUnsubscribe r s req sub) ↔ Conf P r := by
  unfold handleUnsubscribe
  conf_tac

theorem conf_handleRegister (r : Realm) (s : Session) (req : Nat) (opts : Dict) (proc : String) :
    Conf P (handleRegister r s req opts proc) ↔ Conf P r := by
  unfold handleRegister
  conf_tac

theorem conf_handleUnregister (r : Realm) (s : Session) (req reg : Nat) :
    Conf P (handleUnregister r s req reg) ↔ Conf P r := conf_applyD _ _

theorem conf_handleCall (r : Realm) (s : Session) (req : Nat) (opts : Dict) (proc : String)
    (args : List WVal) (kw : Dict) : Conf P (handleCall r s req opts proc args kw) ↔ Conf P r :=
  conf_applyD _ _

theorem conf_handleCancel (r : Realm) (s : Session) (req : Nat) (opts : Dict) :
    Conf P (handleCancel r s req opts) ↔ Conf P r := by
  unfold handleCancel
  conf_tac

theorem conf_handleYield (r : Realm) (s : Session) (req : Nat) (opts : Dict) (args : List WVal) (kw : Dict) :
    Conf P (handleYield r s req opts args kw) ↔ Conf P r := by
  unfold handleYield
  dsimp only
  split
  · exact Iff.trans Iff.rfl (conf_applyD r _)
  · exact conf_applyD _ _

theorem conf_handleError (r : Realm) (s : Session) (req : Nat) (details : Dict) (err : String)
    (args : List WVal) (kw : Dict) : Conf P (handleError r s req details err args kw) ↔ Conf P r :=
  conf_applyD _ _

theorem conf_authzGate (r : Realm) (s : Session) (m : Msg) : Conf P (authzGate r s m).2 ↔ Conf P r := by
  unfold authzGate
  conf_tac

theorem conf_handleMsg (r : Realm) (s : Session) (m : Msg) : Conf P (handleMsg r s m) ↔ Conf P r := by
  unfold handleMsg
  have hg := conf_authzGate (P := P) r s m
  revert hg
  generalize authzGate r s m = g
  obtain ⟨ok, r'⟩ := g
  intro hg
  simp only [] at hg ⊢
  rw [← hg]
  split
  · exact Iff.rfl
  · split
    · exact conf_handlePublish ..
    · exact conf_handleYield ..
    · exact conf_handleCall ..
    · exact conf_handleCancel ..
    · exact conf_handleSubscribe ..
    · exact conf_handleRegister ..
    · exact conf_handleUnsubscribe ..
    · exact conf_handleUnregister ..
    · split
      · exact Iff.rfl
      · exact conf_handleError ..
    · show Conf P (r'.trySend _) ↔ _
      exact conf_trySend _ _
    · exact Iff.rfl

/-! ### session end -/

theorem conf_takeTestaments (r : Realm) (k : SessKey) : Conf P (r.takeTestaments k).2 ↔ Conf P r := by
  unfold takeTestaments
  split <;> exact Iff.rfl

theorem conf_leaveSend (r : Realm) (k : SessKey) (mode : LeaveMode) :
    Conf P (leaveSend r k mode) ↔ Conf P r := by
  cases mode <;> first | exact conf_trySend _ _ | exact Iff.rfl

theorem conf_leaveRemove (r : Realm) (k : SessKey) (quiet : Bool) :
    Conf P (leaveRemove r k quiet) ↔ Conf P r := by
  unfold leaveRemove
  split
  · extract_lets o
    split
    rw [conf_setPanic]
    exact Iff.rfl
  · extract_lets o ra
    split
    rw [conf_deliver]
    exact Iff.trans Iff.rfl (conf_applyD r o)

theorem conf_leaveAnnounce (r : Realm) (s : Session) (tst : Option TBucket) (silent : Bool) :
    Conf P (leaveAnnounce r s tst silent) ↔ Conf P r := by
  unfold leaveAnnounce
  split <;> exact Iff.rfl

theorem Conf.leave {r : Realm} (h : Conf P r) (k : SessKey) (mode : LeaveMode) : Conf P (r.leave k mode) := by
  cases hf : r.clients.find? (fun c => c.key == k) with
  | none => rw [leave_none mode hf]; exact h
  | some s =>
    rw [leave_some mode hf]
    obtain ⟨hm, hk⟩ := find?_key hf
    have hPk : P s.key := h.1 s hm
    have h4 := (conf_leaveAnnounce (P := P) _ s ((leaveSend r k mode).takeTestaments k).1
      mode.isShutdown).mpr
      ((conf_leaveRemove (P := P) _ k mode.isShutdown).mpr ((conf_takeTestaments _ k).mpr ((conf_leaveSend r k mode).mpr h)))
    revert h4
    generalize leaveAnnounce _ _ _ _ = r4
    intro h4
    refine ⟨fun c hc => h4.1 c (List.mem_filter.mp hc).1, h4.2.1, ?_⟩
    intro k' hk'
    rcases List.mem_append.mp hk' with hk' | hk'
    · exact h4.2.2 k' hk'
    · rw [List.mem_singleton.mp hk']; exact hPk

/-! ### internal tasks -/

theorem Conf.metaEffect {r r' : Realm} (h : Conf P r) (e : MetaEffect r r') : Conf P r' := by
  cases e with
  | same => exact h
  | kill sel g ka => exact h
  | testaments t _ => exact h
  | modify k d =>
    refine ⟨?_, h.2.1, h.2.2⟩
    intro c hc
    obtain ⟨c0, hc0, rfl⟩ := List.mem_map.mp hc
    by_cases e : (c0.key == k) = true
    · simpa [e] using h.1 c0 hc0
    · simpa [e] using h.1 c0 hc0

theorem Conf.recvMsg {r : Realm} (h : Conf P r) (k : SessKey) (m : Msg) : Conf P (r.recvMsg k m) := by
  rw [recvMsg_eq]
  split
  · exact h
  · split
    · exact h
    · split
      · split <;> exact h
      · exact (conf_handleMsg _ _ _).mpr h

theorem Conf.runTask {r : Realm} (h : Conf P r) (t : Task) : Conf P (r.runTask t) := by
  cases t with
  | inMsg k m => exact h.recvMsg k m
  | metaPub p => exact (conf_handlePublish _ _ _ _ _ _ _).mpr h
  | metaInvoke req reg details args kw =>
    rw [runTask_metaInvoke]
    split
    · exact h
    · exact (conf_addTasks _ _).mpr (h.metaEffect (metaProc_effect r _ req details args kw))
  | metaMsg m => exact (conf_handleMsg _ _ _).mpr h
  | leave k mode =>
    rw [runTask_leave]
    split
    · exact h
    · exact h.leave k mode

theorem Conf.drain : ∀ (fuel : Nat) {r : Realm}, Conf P r → Conf P (drain fuel r)
  | 0, r, h => by
    rw [drain_zero]
    split
    · exact h
    · exact (conf_setPanic _ _).mpr h
  | fuel + 1, r, h => by
    cases ht : r.tasks with
    | nil => rw [drain_succ_nil _ _ ht]; exact h
    | cons t ts =>
      rw [drain_succ_cons _ _ t ts ht]
      exact Conf.drain fuel (Conf.runTask (r := { r with tasks := ts }) h t)

theorem Conf.stepOp {r : Realm} (h : Conf P r) (op : Op)
    (hj : ∀ k l d ro c, op = .join k l d ro c → P k) : Conf P (r.stepOp op) := by
  cases op with
  | join k isLocal details roles cap =>
    have hk := hj k isLocal details roles cap rfl
    rw [stepOp_join]
    split
    · exact h
    refine ⟨?_, ?_, h.2.2⟩
    · intro c hc
      rcases List.mem_append.mp hc with hc | hc
      · exact h.1 c hc
      · rw [List.mem_singleton.mp hc]; exact hk
    · intro q hq
      rcases List.mem_append.mp hq with hq | hq
      · exact h.2.1 q hq
      · rw [List.mem_singleton.mp hq]; exact hk
  | msg k m => exact h.recvMsg k m
  | buffer k =>
    rw [stepOp_buffer]
    refine ⟨?_, h.2.1, h.2.2⟩
    intro c hc
    obtain ⟨c0, hc0, rfl⟩ := List.mem_map.mp hc
    by_cases e : (c0.key == k) = true
    · simpa [e] using h.1 c0 hc0
    · simpa [e] using h.1 c0 hc0
  | drop k =>
    rw [stepOp_drop]
    split
    · exact h
    split <;> exact h
  | stall k =>
    rw [stepOp_stall]
    refine ⟨?_, h.2.1, h.2.2⟩
    intro c hc
    obtain ⟨c0, hc0, rfl⟩ := List.mem_map.mp hc
    by_cases e : (c0.key == k) = true
    · simpa [e] using h.1 c0 hc0
    · simpa [e] using h.1 c0 hc0
  | resume k =>
    rw [stepOp_resume]
    refine ⟨?_, h.2.1, h.2.2⟩
    intro c hc
    obtain ⟨c0, hc0, rfl⟩ := List.mem_map.mp hc
    by_cases e : (c0.key == k) = true
    · simpa [e] using h.1 c0 hc0
    · simpa [e] using h.1 c0 hc0
  | tick ms => exact h
  | rnd n => exact h

/-! ### timed events -/

theorem Conf.retryDue {r : Realm} (h : Conf P r) (x : Retry) : Conf P (r.retryDue x) := by
  unfold Realm.retryDue
  extract_lets r1 canRetry o r2
  have h2 : Conf P r2 := (conf_applyD r1 o).mpr h
  split <;> exact h2

theorem Conf.timerDue {r : Realm} (h : Conf P r) (t : Timer) : Conf P (r.timerDue t) := by
  unfold Realm.timerDue
  extract_lets ds1 r1
  exact (conf_applyD r1 _).mpr h

theorem Conf.advance : ∀ (fuel : Nat) {r : Realm} (target : Nat), Conf P r → Conf P (advance fuel r target)
  | 0, r, target, h => by
    unfold Realm.advance
    exact (conf_setPanic _ _).mpr h
  | fuel + 1, r, target, h => by
    unfold Realm.advance
    split
    · exact h
    · rename_i d _
      extract_lets r1 r2
      refine Conf.advance fuel target (Conf.drain _ ?_)
      have h1 : Conf P r1 := h
      cases d with
      | timer t => exact h1.timerDue t
      | retry x => exact h1.retryDue x

/-! ### what the clients see -/

theorem Conf.flush {r : Realm} (h : Conf P r) :
    Conf P r.flush.2 ∧ (∀ q ∈ r.flush.1.out, P q.1) ∧ (∀ k ∈ r.flush.1.closed, P k) := by
  unfold Realm.flush
  extract_lets reading out seenClosed keep keepEmpty
  refine ⟨⟨h.1, ?_, ?_⟩, ?_, ?_⟩
  · intro q hq
    rcases List.mem_append.mp hq with hq | hq
    · exact h.2.1 q (List.mem_filter.mp hq).1
    · obtain ⟨q0, hq0, rfl⟩ := List.mem_map.mp hq
      exact h.2.1 q0 (List.mem_filter.mp hq0).1
  · intro k hk
    exact h.2.2 k (List.mem_filter.mp hk).1
  · intro q hq
    exact h.2.1 q (List.mem_filter.mp hq).1
  · intro k hk
    exact h.2.2 k (List.mem_filter.mp hk).1

/-- One external input: the realm stays confined to `P` and everything observed concerns
    sessions satisfying `P` (a joining key must satisfy `P`). -/
theorem Conf.step {r : Realm} (h : Conf P r) (op : Op)
    (hj : ∀ k l d ro c, op = .join k l d ro c → P k) :
    Conf P (r.step op).2 ∧ (∀ q ∈ (r.step op).1.out, P q.1) ∧ (∀ k ∈ (r.step op).1.closed, P k) := by
  by_cases ht : ∃ ms, op = .tick ms
  · obtain ⟨ms, rfl⟩ := ht
    rw [step_tick]
    exact (Conf.advance _ _ h).flush
  · rw [step_of_not_tick r op (fun ms e => ht ⟨ms, e⟩)]
    exact (Conf.drain _ (h.stepOp op hj)).flush

end Realm
end Nexus.L2
