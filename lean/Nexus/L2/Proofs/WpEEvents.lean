/-
  WP-E (C08): WHO IS OFFERED AN EVENT.

  `EvOk b sc`: every EVENT among the offers of the script `sc` is addressed to a session that is a
  member of the subscription the EVENT names — in the broker `b` the action starts with AND in the
  broker `b.run sc.bsteps` it ends with.  Proved for the script of every atomic action
  (`Rec.evOk`), from the broker invariant of the state the action starts in:

    * the dealer sends no EVENT at all (`DStep.noEv`, by inspection of every `sync*` function),
      nor do the handlers themselves, the gate, or the last message of a departing session;
    * the EVENTs of a publication go to members (`bsyncPublish_member`), and a publication changes
      no membership;
    * the subscription meta events of SUBSCRIBE / UNSUBSCRIBE / a departure go to OTHER sessions,
      members before and after: only the acting session's membership changes.
-/
import Nexus.L2.Proofs.WpETrace

namespace Nexus.L2.WpE
open Nexus.L2 Nexus.L2.Realm Gen.N

/-! ### messages that are no EVENTs -/

/-- no message of the list is an EVENT -/
def NoEv (l : List Send) : Prop := l.all (fun x => x.msg.eventSub?.isNone) = true

theorem NoEv.mem {l : List Send} (h : NoEv l) {x : Send} (hx : x ∈ l) : x.msg.eventSub? = none := by
  have := List.all_eq_true.mp h x hx
  simpa using this

theorem noEv_of_forall {l : List Send} (h : ∀ x ∈ l, x.msg.eventSub? = none) : NoEv l := by
  unfold NoEv
  rw [List.all_eq_true]
  intro x hx
  rw [h x hx]; rfl

theorem noEv_append {a b : List Send} (ha : NoEv a) (hb : NoEv b) : NoEv (a ++ b) := by
  unfold NoEv at *; rw [List.all_append, ha, hb]; rfl

macro "noev_tac" : tactic => `(tactic| (repeat' split) <;> rfl)

theorem syncError_noEv (s : DState) (callee : SessKey) (req : Nat) (details : Dict) (err : String)
    (args : List WVal) (kw : Dict) : NoEv (syncError s callee req details err args kw).sends := by
  unfold syncError NoEv
  dsimp only
  noev_tac

theorem syncCancel_noEv (env : DEnv) (s : DState) (caller : SessKey) (req : Nat) (mode reason : String)
    (errArgs : List WVal) : NoEv (syncCancel env s caller req mode reason errArgs).sends := by
  unfold syncCancel NoEv
  dsimp only
  noev_tac

theorem syncRegister_noEv (s : DState) (callee : SessKey) (req : Nat) (proc m invoke : String)
    (disclose fwd wampURI : Bool) : NoEv (syncRegister s callee req proc m invoke disclose fwd wampURI).sends := by
  unfold syncRegister NoEv
  dsimp only
  noev_tac

theorem syncUnregister_noEv (s : DState) (callee : SessKey) (req regId : Nat) :
    NoEv (syncUnregister s callee req regId).sends := by
  unfold syncUnregister NoEv
  dsimp only
  noev_tac

theorem syncYield_noEv (env : DEnv) (s : DState) (callee : SessKey) (req : Nat) (opts : Dict)
    (args : List WVal) (kw : Dict) (progress canRetry : Bool) :
    NoEv (syncYield env s callee req opts args kw progress canRetry).sends := by
  unfold syncYield
  dsimp only
  repeat' split
  all_goals first
    | rfl
    | exact syncCancel_noEv ..

theorem syncCall_noEv (env : DEnv) (s : DState) (caller : SessKey) (req : Nat) (opts : Dict) (proc : String)
    (args : List WVal) (kw : Dict) (rnd : Nat) : NoEv (syncCall env s caller req opts proc args kw rnd).sends := by
  rw [syncCall_eq]
  repeat' split
  all_goals first
    | rfl
    | (unfold laterChunk dispatchL
       dsimp only
       split
       · exact syncError_noEv ..
       · rfl)
    | (unfold firstChunk Nexus.L2.dispatch
       dsimp only
       repeat' split
       all_goals first
         | rfl
         | exact syncError_noEv ..)

theorem cancelServed_noEv (env : DEnv) (k : SessKey) : ∀ (l : List Invk) (s : DState), NoEv (cancelServed env s k l).2
  | [], _ => rfl
  | invk :: rest, s => by
    unfold cancelServed
    split
    · exact cancelServed_noEv env k rest s
    · dsimp only
      exact noEv_append (syncCancel_noEv ..) (cancelServed_noEv env k rest _)

theorem syncRemoveSession_noEv (env : DEnv) (s : DState) (k : SessKey) : NoEv (syncRemoveSession env s k).sends := by
  unfold syncRemoveSession
  dsimp only
  exact cancelServed_noEv ..

/-- NO DEALER ACTION SENDS AN EVENT -/
theorem DStep.noEv {s : DState} {o : DOut} (st : DStep s o) : NoEv o.sends := by
  cases st with
  | register => exact syncRegister_noEv ..
  | unregister => exact syncUnregister_noEv ..
  | call => exact syncCall_noEv ..
  | cancel => exact syncCancel_noEv ..
  | yield => exact syncYield_noEv ..
  | error => exact syncError_noEv ..
  | removeSession => exact syncRemoveSession_noEv ..
  | dropTimers p => rfl

theorem ackList_noEv (opts : Dict) (x : Send) (h : x.msg.eventSub? = none) : NoEv (ackList opts x) := by
  unfold ackList
  split
  · exact noEv_of_forall (fun y hy => by rw [List.mem_singleton.mp hy]; exact h)
  · rfl

theorem denialReply_noEv (dec : String) (m e : Msg) (h : denialReply dec m = some e) : e.eventSub? = none := by
  have key : ∀ (skip : Bool) (a b : Msg),
      (if skip = true then none else some (if (dec == "fail") = true then a else b)) = some e → e = a ∨ e = b := by
    intro skip a b h
    cases skip
    · simp only [Bool.false_eq_true, if_false, Option.some.injEq] at h
      subst h
      split
      · exact Or.inl rfl
      · exact Or.inr rfl
    · simp at h
  unfold denialReply at h
  rcases key _ _ _ h with rfl | rfl <;> rfl

theorem gateOffers_noEv (r : Realm) (s : Session) (m : Msg) : NoEv (gateOffers r s m) := by
  unfold gateOffers
  cases r.cfg.authz.map authzDecision with
  | none => rfl
  | some f =>
    dsimp only
    split
    · rfl
    · split
      · rfl
      · cases hd : denialReply (f s.key m) m with
        | none => rfl
        | some e =>
          exact noEv_of_forall (fun y hy => by
            rw [List.mem_singleton.mp hy]; exact denialReply_noEv _ _ _ hd)

/-- the message is a GOODBYE -/
def isGoodbyeMsg : Msg → Bool
  | .goodbye .. => true
  | _ => false

theorem goodbye_noEv {g : Msg} (h : isGoodbyeMsg g = true) : g.eventSub? = none := by
  cases g <;> first | rfl | cases h

theorem leaveOffer_noEv (k : SessKey) (mode : LeaveMode) (hm : ∀ g ka, mode = .killed g ka → isGoodbyeMsg g = true) :
    NoEv (leaveOffer k mode) := by
  cases mode with
  | killed g ka =>
    exact noEv_of_forall (fun y hy => by rw [List.mem_singleton.mp hy]; exact goodbye_noEv (hm g ka rfl))
  | _ => rfl

/-! ### scripts whose EVENTs go to members -/

/-- every EVENT among the offers is addressed to a member of its subscription, in the broker `b` the action
    starts with and in the broker `b.run sc.bsteps` it ends with -/
def EvOk (b : Broker) (sc : Script) : Prop :=
  ∀ x ∈ sc.offers, ∀ i, x.msg.eventSub? = some i → b.isMember x.to i ∧ (b.run sc.bsteps).isMember x.to i

theorem evOk_of_noEv {b : Broker} {sc : Script} (h : NoEv sc.offers) : EvOk b sc := by
  intro x hx i hi
  rw [h.mem hx] at hi; cases hi

theorem evOk_nil (b : Broker) : EvOk b {} := evOk_of_noEv rfl

theorem evOk_dealerScript (b : Broker) (r : Realm) {o : DOut} (st : DStep r.ds o) : EvOk b (dealerScript r o) :=
  evOk_of_noEv (DStep.noEv st)

theorem evOk_publishScript (r : Realm) (s : Session) (req : Nat) (opts : Dict) (topic : String) (args : List WVal)
    (kw : Dict) : EvOk r.broker (publishScript r s req opts topic args kw) := by
  unfold publishScript
  split
  · intro x hx i hi
    rcases List.mem_append.mp hx with h | h
    · obtain ⟨j, hj, hm⟩ := bsyncPublish_member h
      rw [hi] at hj
      cases hj
      refine ⟨hm, ?_⟩
      show ((r.broker.syncPublish r.session? r.now (pubOf r s opts topic args kw)).1).isMember x.to i
      exact (isMember_congr_subs (syncPublish_subs _ _ _ _).1 _ _).mpr hm
    · have := (ackList_noEv opts ⟨s.key, .published req (pubBase + r.pubCount)⟩ rfl).mem h
      rw [this] at hi; cases hi
  · split
    · exact evOk_of_noEv (ackList_noEv _ _ rfl)
    · split
      · exact evOk_of_noEv rfl
      · exact evOk_of_noEv (ackList_noEv _ _ rfl)

theorem evOk_subscribeScript (r : Realm) (hb : BrokerInv r.broker) (s : Session) (req : Nat) (opts : Dict)
    (topic : String) : EvOk r.broker (subscribeScript r s req opts topic) := by
  unfold subscribeScript
  split
  · obtain ⟨id, rest, hs, hrest, _, hoth⟩ :=
      bsyncSubscribe_spec hb s.key req topic (opts.optString OptMatch) r.pubCount
    intro x hx i hi
    have hx' : x ∈ (r.broker.syncSubscribe s.key req topic (opts.optString OptMatch) r.pubCount).2.1 := hx
    rw [hs] at hx'
    rcases List.mem_cons.mp hx' with rfl | hx'
    · cases hi
    · obtain ⟨hne, j, hj, hm⟩ := hrest x hx'
      rw [hi] at hj
      cases hj
      exact ⟨hm, (hoth x.to i hne).mpr hm⟩
  · exact evOk_of_noEv rfl

theorem evOk_unsubscribeScript (r : Realm) (hb : BrokerInv r.broker) (s : Session) (req sub : Nat) :
    EvOk r.broker (unsubscribeScript r s req sub) := by
  unfold unsubscribeScript
  by_cases hm : r.broker.isMember s.key sub
  · obtain ⟨rest, hs, hrest, _, hoth⟩ := bsyncUnsubscribe_spec hb s.key req sub r.pubCount hm
    intro x hx i hi
    have hx' : x ∈ (r.broker.syncUnsubscribe s.key req sub r.pubCount).2.1 := hx
    rw [hs] at hx'
    rcases List.mem_cons.mp hx' with rfl | hx'
    · cases hi
    · obtain ⟨hne, j, hj, hmem⟩ := hrest x hx'
      rw [hi] at hj
      cases hj
      exact ⟨hmem, (hoth x.to i).mpr ⟨hmem, fun h => hne h.1⟩⟩
  · have he := syncUnsubscribe_err_state r.broker s.key req sub r.pubCount (by
      intro sb hf hk
      exact hm ⟨sb, (findId_some hf).1, (findId_some hf).2, hk⟩)
    apply evOk_of_noEv
    show NoEv (r.broker.syncUnsubscribe s.key req sub r.pubCount).2.1
    rw [he]; rfl

/-! the meta events of a departure -/

theorem isMember_delSub {b : Broker} {id : Nat} {k : SessKey} {i : Nat} (h : (b.delSub id).isMember k i) :
    b.isMember k i := by
  obtain ⟨s, hs, hi, hk⟩ := h
  exact ⟨s, (List.mem_filter.mp hs).1, hi, hk⟩

theorem isMember_setSub_filter {b : Broker} {sub : Sub} (hs : sub ∈ b.subs) {p : SessKey → Bool} {k : SessKey} {i : Nat}
    (h : (b.setSub { sub with members := sub.members.filter p }).isMember k i) : b.isMember k i := by
  obtain ⟨s, hs', hi, hk⟩ := h
  unfold Broker.setSub at hs'
  obtain ⟨x, hx, rfl⟩ := List.mem_map.mp hs'
  by_cases e : (x.id == sub.id) = true
  · simp only [e, if_true] at hk hi
    exact ⟨sub, hs, hi, (List.mem_filter.mp hk).1⟩
  · simp only [e] at hk hi
    exact ⟨x, hx, hi, hk⟩

theorem removeMember_isMember {b : Broker} {k : SessKey} {id pub0 : Nat} {k' : SessKey} {i : Nat}
    (h : (b.removeMember k id pub0).1.isMember k' i) : b.isMember k' i := by
  unfold Broker.removeMember at h
  split at h
  · exact h
  · rename_i sub hf
    have hsub := (findId_some hf).1
    dsimp only at h
    split at h
    · exact isMember_delSub h
    · exact isMember_setSub_filter hsub h

theorem removeMember_event {b : Broker} {k : SessKey} {id pub0 : Nat} {x : Send}
    (h : x ∈ (b.removeMember k id pub0).2.1) :
    x.to ≠ k ∧ ∃ i, x.msg.eventSub? = some i ∧ b.isMember x.to i := by
  unfold Broker.removeMember at h
  split at h
  · cases h
  · rename_i sub hf
    have hsub := (findId_some hf).1
    dsimp only at h
    split at h
    · rcases List.mem_append.mp h with h | h
      · obtain ⟨i, h1, h2, h3⟩ := bmetaEvent_member h
        exact ⟨h3, i, h1, isMember_delSub h2⟩
      · obtain ⟨i, h1, h2, h3⟩ := bmetaEvent_member h
        exact ⟨h3, i, h1, isMember_delSub h2⟩
    · obtain ⟨i, h1, h2, h3⟩ := bmetaEvent_member h
      exact ⟨h3, i, h1, isMember_setSub_filter hsub h2⟩

theorem removeMembers_isMember (k : SessKey) : ∀ (l : List Nat) (b : Broker) (pub0 : Nat) (k' : SessKey) (i : Nat),
    (b.removeMembers k pub0 l).1.isMember k' i → b.isMember k' i
  | [], _, _, _, _, h => h
  | id :: ids, b, pub0, k', i, h => by
    simp only [Broker.removeMembers] at h
    exact removeMember_isMember (removeMembers_isMember k ids _ _ k' i h)

theorem removeMembers_event (k : SessKey) : ∀ (l : List Nat) (b : Broker) (pub0 : Nat) (x : Send),
    x ∈ (b.removeMembers k pub0 l).2.1 → x.to ≠ k ∧ ∃ i, x.msg.eventSub? = some i ∧ b.isMember x.to i
  | [], _, _, _, h => by cases h
  | id :: ids, b, pub0, x, h => by
    simp only [Broker.removeMembers, List.mem_append] at h
    rcases h with h | h
    · exact removeMember_event h
    · obtain ⟨h1, i, h2, h3⟩ := removeMembers_event k ids _ _ x h
      exact ⟨h1, i, h2, removeMember_isMember h3⟩

/-- the meta events of a departure go to OTHER sessions, each a member (before the departure) of the
    subscription it arrives through -/
theorem syncRemoveSession_event {b : Broker} {k : SessKey} {pub0 : Nat} {x : Send}
    (h : x ∈ (b.syncRemoveSession k pub0).2.1) :
    x.to ≠ k ∧ ∃ i, x.msg.eventSub? = some i ∧ b.isMember x.to i := by
  unfold Broker.syncRemoveSession at h
  split at h
  · cases h
  · obtain ⟨h1, i, h2, h3⟩ := removeMembers_event k _ _ _ x h
    exact ⟨h1, i, h2, (isMember_congr_subs (b := b) (b' := { b with index := idxDrop b.index k }) rfl x.to i).mp h3⟩

theorem evOk_leaveScript (r : Realm) (hb : BrokerInv r.broker) (k : SessKey) (mode : LeaveMode)
    (hm : ∀ g ka, mode = .killed g ka → isGoodbyeMsg g = true) : EvOk r.broker (leaveScript r k mode) := by
  unfold leaveScript
  split
  · exact evOk_nil _
  · intro x hx i hi
    dsimp only at hx
    rcases List.mem_append.mp hx with h | h
    · rw [(leaveOffer_noEv k mode hm).mem h] at hi; cases hi
    · split at h
      · cases h
      · rcases List.mem_append.mp h with h | h
        · rw [(syncRemoveSession_noEv _ _ _).mem h] at hi; cases hi
        · obtain ⟨hne, j, hj, hmem⟩ := syncRemoveSession_event h
          rw [hi] at hj
          cases hj
          exact ⟨hmem, (syncRemoveSession_isMember hb k r.pubCount x.to i).mpr ⟨hmem, hne⟩⟩

/-! ### the message switch -/

theorem registerRefusal_noEv (r : Realm) (s : Session) (req : Nat) (opts : Dict) (proc : String) (e : Msg)
    (h : registerRefusal r s req opts proc = some e) : e.eventSub? = none := by
  unfold registerRefusal at h
  repeat' split at h
  all_goals first
    | (simp only [Option.some.injEq] at h; subst h; rfl)
    | cases h

theorem evOk_dispatchScript (r : Realm) (hb : BrokerInv r.broker) (s : Session) (m : Msg) :
    EvOk r.broker (dispatchScript r s m) := by
  cases m
  case publish => exact evOk_publishScript _ _ _ _ _ _ _
  case yield => exact evOk_dealerScript _ r (.yield ..)
  case call => exact evOk_dealerScript _ r (.call ..)
  case cancel req opts =>
    show EvOk r.broker (cancelScript r s req opts)
    unfold cancelScript
    split
    · exact evOk_dealerScript _ r (.cancel ..)
    · exact evOk_of_noEv rfl
  case subscribe => exact evOk_subscribeScript r hb _ _ _ _
  case register req opts proc =>
    show EvOk r.broker (registerScript r s req opts proc)
    unfold registerScript
    cases hr : registerRefusal r s req opts proc with
    | some e =>
      exact evOk_of_noEv (noEv_of_forall (fun y hy => by
        rw [List.mem_singleton.mp hy]; exact registerRefusal_noEv r s req opts proc e hr))
    | none => exact evOk_of_noEv (syncRegister_noEv ..)
  case unsubscribe => exact evOk_unsubscribeScript r hb _ _ _
  case unregister => exact evOk_dealerScript _ r (.unregister ..)
  case error typ req details err args kw =>
    show EvOk r.broker (if typ != tINVOCATION then {} else dealerScript r (syncError r.ds s.key req details err args kw))
    split
    · exact evOk_nil _
    · exact evOk_dealerScript _ r (.error ..)
  case goodbye => exact evOk_of_noEv rfl
  all_goals exact evOk_nil _

theorem evOk_msgScript (r : Realm) (hb : BrokerInv r.broker) (s : Session) (m : Msg) :
    EvOk r.broker (msgScript r s m) := by
  unfold msgScript
  split
  · exact evOk_dispatchScript r hb s m
  · exact evOk_of_noEv (gateOffers_noEv r s m)

theorem evOk_recvScript (r : Realm) (hb : BrokerInv r.broker) (k : SessKey) (m : Msg) :
    EvOk r.broker (recvScript r k m) := by
  unfold recvScript
  split
  · exact evOk_nil _
  · split
    · exact evOk_nil _
    · split
      · exact evOk_nil _
      · exact evOk_msgScript r hb _ m

/-- the goodbye of a kill is a GOODBYE -/
def TaskEvOk : Task → Prop
  | .leave _ (.killed g _) => isGoodbyeMsg g = true
  | _ => True

/-- THE SCRIPT OF EVERY ATOMIC ACTION offers EVENTs to members only (members before and after the action) — given
    the broker invariant, and that the goodbye message of a pending kill is no EVENT. -/
theorem Rec.evOk (x : Rec) (hb : BrokerInv x.pre.broker) (ht : ∀ t, x.act = .task t → TaskEvOk t) :
    EvOk x.pre.broker x.script := by
  obtain ⟨r, a⟩ := x
  cases a with
  | op o =>
    cases o with
    | msg k m => exact evOk_recvScript r hb k m
    | _ => exact evOk_nil _
  | task t =>
    have hb' : BrokerInv ({ r with tasks := r.tasks.tail } : Realm).broker := hb
    cases t with
    | metaPub p => exact evOk_publishScript _ _ _ _ _ _ _
    | metaInvoke req reg details args kw => exact evOk_nil _
    | metaMsg m => exact evOk_msgScript _ hb' _ m
    | leave k mode =>
      show EvOk r.broker (if ({ r with tasks := r.tasks.tail } : Realm).busy k then {} else
        leaveScript { r with tasks := r.tasks.tail } k mode)
      split
      · exact evOk_nil _
      · refine evOk_leaveScript _ hb' k mode ?_
        intro g ka e
        have := ht _ rfl
        rw [e] at this
        exact this
    | inMsg k m => exact evOk_recvScript _ hb' k m
  | timer t => exact evOk_of_noEv (syncCancel_noEv ..)
  | retry y => exact evOk_of_noEv (syncYield_noEv ..)
  | flush => exact evOk_nil _
  | clock t => exact evOk_nil _
  | fuel text => exact evOk_nil _

end Nexus.L2.WpE
