/-
  `RealmInv` — the invariant of the realm model carried by C04 and C05:

  * the broker and dealer invariants of the sibling proofs (`BrokerInv`, `DealerInv`);
  * LIVE REFERENCES: every session the broker refers to (subscribers, index keys) and every
    caller of a pending call is an attached session (∈ `clients`); every session the dealer
    refers to (callees of registrations, callee-index keys, invocation callees) and every
    handler in the yield retry loop is an attached session or the meta session;
  * pending `metaMsg` tasks carry only YIELD/ERROR answers of the meta-procedure handler;
  * INBOX: every message waiting in the transport (`inbox`) was sent by an attached, buffered
    session whose handler is still in the yield retry loop (`InboxOk`).

  Preserved by every `stepOp`, every `runTask`, every timed event, `drain`, `advance`,
  `flush` and `step`; established by `Realm.create`.  Under the invariant no function of the
  realm takes an explicit panic branch: the `panic` field changes only by the fuel markers of
  `drain` / `advance`.
-/
import Nexus.L2.Proofs.RealmBase
import Nexus.L2.Proofs.RealmAuthz
import Nexus.L2.Proofs.RealmRefsBroker
import Nexus.L2.Proofs.DealerRefs
import Nexus.L2.Proofs.DealerRealm

namespace Nexus.L2
open Gen.N

/-- answers of the meta-procedure handler -/
def Msg.isMetaAnswer : Msg → Bool
  | .yield .. => true
  | .error .. => true
  | _ => false

namespace Realm

/-- `k` is an attached (non-meta) session -/
def isClient (r : Realm) (k : SessKey) : Prop := ∃ c ∈ r.clients, c.key = k

/-- `k` is an attached session or the meta session -/
def att (r : Realm) (k : SessKey) : Prop := k = metaKey ∨ r.isClient k

def TaskOk : Task → Prop
  | .metaMsg m => m.isMetaAnswer = true
  | _ => True

/-- what waits in the transport (`inbox`) was sent by an attached session that is `buffered` and
    whose handler is (still) in the yield retry loop -/
def InboxOk (r : Realm) : Prop :=
  ∀ e ∈ r.inbox, (∃ c ∈ r.clients, c.key = e.1 ∧ c.buffered = true) ∧ r.busy e.1 = true

structure RealmInv (r : Realm) : Prop where
  binv : BrokerInv r.broker
  dinv : DealerInv r.ds
  /-- every subscriber is an attached session -/
  bmem : ∀ k, r.broker.mem k → r.isClient k
  /-- every callee, caller, invocation callee and callee-index key is attached (or the meta session) -/
  dref : ∀ k, r.ds.refs k → r.att k
  /-- every caller of a pending call is an attached session -/
  callers : ∀ c ∈ r.ds.d.calls, r.isClient c.sess
  /-- a handler in the yield retry loop belongs to an attached session -/
  retr : ∀ x ∈ r.retries, r.att x.callee
  tasks : ∀ t ∈ r.tasks, TaskOk t
  /-- a message waits in the transport only for an attached, buffered session whose handler is busy -/
  inb : InboxOk r
  metaKey : r.metaS.key = metaKey

theorem InboxOk.congr {r r' : Realm} (hc : r'.clients = r.clients) (hr : r'.retries = r.retries)
    (hi : r'.inbox = r.inbox) (h : InboxOk r) : InboxOk r' := by
  unfold InboxOk busy at *
  rw [hc, hr, hi]; exact h

/-- more handlers busy, same clients, same inbox -/
theorem InboxOk.mono {r r' : Realm} (hc : r'.clients = r.clients) (hr : ∀ x ∈ r.retries, x ∈ r'.retries)
    (hi : r'.inbox = r.inbox) (h : InboxOk r) : InboxOk r' := by
  intro e he
  rw [hi] at he
  obtain ⟨hcl, hb⟩ := h e he
  refine ⟨hc ▸ hcl, ?_⟩
  unfold busy at *
  obtain ⟨x, hx, hxk⟩ := List.any_eq_true.mp hb
  exact List.any_eq_true.mpr ⟨x, hr x hx, hxk⟩

/-- the clients replaced by copies with the same key that stay buffered (stall, resume, buffer, modify_details) -/
theorem InboxOk.map_clients {r r' : Realm} (f : Session → Session) (hk : ∀ c, (f c).key = c.key)
    (hb : ∀ c, c.buffered = true → (f c).buffered = true) (hc : r'.clients = r.clients.map f)
    (hr : r'.retries = r.retries) (hi : r'.inbox = r.inbox) (h : InboxOk r) : InboxOk r' := by
  intro e he
  rw [hi] at he
  obtain ⟨⟨c, hcm, hck, hcb⟩, hbz⟩ := h e he
  refine ⟨⟨f c, by rw [hc]; exact List.mem_map.mpr ⟨c, hcm, rfl⟩, (hk c).trans hck, hb c hcb⟩, ?_⟩
  unfold busy at *
  rw [hr]; exact hbz

theorem isClient_congr {r r' : Realm} (h : r'.clients.map (·.key) = r.clients.map (·.key)) (k : SessKey) :
    r'.isClient k ↔ r.isClient k := by
  have key : ∀ r : Realm, r.isClient k ↔ k ∈ r.clients.map (·.key) := by
    intro r
    unfold isClient
    simp only [List.mem_map]
  rw [key, key, h]

theorem att_congr {r r' : Realm} (h : r'.clients.map (·.key) = r.clients.map (·.key)) (k : SessKey) :
    r'.att k ↔ r.att k := by
  unfold att; rw [isClient_congr h]

theorem isClient_of_find {r : Realm} {k : SessKey} {c : Session}
    (h : r.clients.find? (fun c => c.key == k) = some c) : r.isClient k :=
  ⟨c, (find?_key h).1, (find?_key h).2⟩

/-- rebuild the invariant for a realm with the same clients / retries / tasks / meta session -/
theorem RealmInv.of_parts {r r' : Realm} (hi : RealmInv r)
    (hcl : r'.clients.map (·.key) = r.clients.map (·.key))
    (hb : BrokerInv r'.broker) (hd : DealerInv r'.ds)
    (hbm : ∀ k, r'.broker.mem k → r.isClient k)
    (hdr : ∀ k, r'.ds.refs k → r.att k)
    (hca : ∀ c ∈ r'.ds.d.calls, r.isClient c.sess)
    (hre : ∀ x ∈ r'.retries, r.att x.callee)
    (hta : ∀ t ∈ r'.tasks, TaskOk t)
    (hin : InboxOk r')
    (hms : r'.metaS = r.metaS) : RealmInv r' :=
  ⟨hb, hd, fun k h => (isClient_congr hcl k).mpr (hbm k h), fun k h => (att_congr hcl k).mpr (hdr k h),
   fun c h => (isClient_congr hcl _).mpr (hca c h), fun x h => (att_congr hcl _).mpr (hre x h), hta, hin,
   hms ▸ hi.metaKey⟩

/-! ### sending -/

/-- `r'` is `r` after some sends that found their peer: only the queues change, and invocations
    for the meta session have become `metaInvoke` tasks -/
structure Sent (r r' : Realm) : Prop where
  cfg : r'.cfg = r.cfg
  broker : r'.broker = r.broker
  ds : r'.ds = r.ds
  clients : r'.clients = r.clients
  ending : r'.ending = r.ending
  testaments : r'.testaments = r.testaments
  metaProcs : r'.metaProcs = r.metaProcs
  metaS : r'.metaS = r.metaS
  closedPeers : r'.closedPeers = r.closedPeers
  retries : r'.retries = r.retries
  deferred : r'.deferred = r.deferred
  inbox : r'.inbox = r.inbox
  ghosts : r'.ghosts = r.ghosts
  now : r'.now = r.now
  pubCount : r'.pubCount = r.pubCount
  rnd : r'.rnd = r.rnd
  panic : r'.panic = r.panic
  tasks : ∃ ts, r'.tasks = r.tasks ++ ts ∧ ∀ t ∈ ts, ∃ a b c d e, t = Task.metaInvoke a b c d e

theorem Sent.refl (r : Realm) : Sent r r :=
  ⟨rfl, rfl, rfl, rfl, rfl, rfl, rfl, rfl, rfl, rfl, rfl, rfl, rfl, rfl, rfl, rfl, rfl, [], by simp, fun _ h => nomatch h⟩

theorem Sent.trans {a b c : Realm} (h1 : Sent a b) (h2 : Sent b c) : Sent a c := by
  obtain ⟨t1, e1, o1⟩ := h1.tasks
  obtain ⟨t2, e2, o2⟩ := h2.tasks
  exact ⟨h2.cfg.trans h1.cfg, h2.broker.trans h1.broker, h2.ds.trans h1.ds, h2.clients.trans h1.clients,
    h2.ending.trans h1.ending, h2.testaments.trans h1.testaments, h2.metaProcs.trans h1.metaProcs,
    h2.metaS.trans h1.metaS, h2.closedPeers.trans h1.closedPeers, h2.retries.trans h1.retries,
    h2.deferred.trans h1.deferred, h2.inbox.trans h1.inbox, h2.ghosts.trans h1.ghosts, h2.now.trans h1.now, h2.pubCount.trans h1.pubCount,
    h2.rnd.trans h1.rnd, h2.panic.trans h1.panic,
    t1 ++ t2, by rw [e2, e1, List.append_assoc], fun t ht => by
      rcases List.mem_append.mp ht with h | h
      · exact o1 t h
      · exact o2 t h⟩

theorem Sent.att {r r' : Realm} (h : Sent r r') (k : SessKey) : r'.att k ↔ r.att k :=
  att_congr (by rw [h.clients]) k

theorem trySend_sent {r : Realm} {s : Send} (h : r.att s.to) : Sent r (r.trySend s) := by
  unfold trySend
  split
  · split
    · exact ⟨rfl, rfl, rfl, rfl, rfl, rfl, rfl, rfl, rfl, rfl, rfl, rfl, rfl, rfl, rfl, rfl, rfl,
        [_], rfl, fun t ht => by rw [List.mem_singleton.mp ht]; exact ⟨_, _, _, _, _, rfl⟩⟩
    · exact Sent.refl r
  · rename_i hne
    split
    · rename_i hnone
      exfalso
      rcases h with h | ⟨c, hc, hk⟩
      · exact hne h
      · have := List.find?_eq_none.mp hnone c hc
        simp [hk] at this
    · split
      · exact Sent.refl r
      · split <;> exact ⟨rfl, rfl, rfl, rfl, rfl, rfl, rfl, rfl, rfl, rfl, rfl, rfl, rfl, rfl, rfl, rfl, rfl,
          [], by simp, fun _ h => nomatch h⟩

theorem deliver_sent : ∀ (ss : List Send) {r : Realm}, (∀ x ∈ ss, r.att x.to) → Sent r (r.deliver ss)
  | [], r, _ => Sent.refl r
  | s :: ss, r, h => by
    have h1 := trySend_sent (h s (List.mem_cons_self ..))
    refine h1.trans (deliver_sent ss ?_)
    intro x hx
    exact (h1.att x.to).mpr (h x (List.mem_cons_of_mem _ hx))

theorem RealmInv.sent {r r' : Realm} (hi : RealmInv r) (h : Sent r r') : RealmInv r' := by
  refine hi.of_parts (by rw [h.clients]) (h.broker ▸ hi.binv) (h.ds ▸ hi.dinv)
    (by rw [h.broker]; exact hi.bmem) (by rw [h.ds]; exact hi.dref) (by rw [h.ds]; exact hi.callers)
    (by rw [h.retries]; exact hi.retr) ?_ (hi.inb.congr h.clients h.retries h.inbox) h.metaS
  obtain ⟨ts, e, o⟩ := h.tasks
  intro t ht
  rw [e] at ht
  rcases List.mem_append.mp ht with ht | ht
  · exact hi.tasks t ht
  · obtain ⟨a, b, c, d, e, rfl⟩ := o t ht
    trivial

/-- adding internal tasks / marking sessions as ending keeps the invariant -/
theorem RealmInv.with_tasks {r : Realm} (hi : RealmInv r) (ts : List Task) (en : List SessKey)
    (hts : ∀ t ∈ ts, TaskOk t) : RealmInv { r with tasks := r.tasks ++ ts, ending := en } :=
  hi.of_parts rfl hi.binv hi.dinv hi.bmem hi.dref hi.callers hi.retr
    (fun t ht => by
      rcases List.mem_append.mp ht with h | h
      · exact hi.tasks t h
      · exact hts t h) hi.inb rfl

/-! ### applying a dealer action -/

theorem applyD_eq (r : Realm) (o : DOut) :
    r.applyD o =
      ({ (({ r with ds := o.st } : Realm).deliver o.sends) with
          tasks := (({ r with ds := o.st } : Realm).deliver o.sends).tasks ++
            (o.metaPubs.map Task.metaPub ++ o.aborts.map (fun k => Task.leave k .aborted)),
          ending := (({ r with ds := o.st } : Realm).deliver o.sends).ending ++ o.aborts } : Realm).setPanic o.panic := by
  unfold applyD addTasks
  simp only [List.append_assoc]

theorem setPanic_none (r : Realm) : r.setPanic none = r := by
  unfold setPanic
  split
  · rename_i h; cases h
  · rfl

/-- A dealer action whose result satisfies `DealerInv`, refers only to sessions the old state
    referred to or to attached sessions, sends only to such sessions and does not panic, keeps
    the realm invariant; the `panic` field is untouched. -/
theorem RealmInv.applyD {r : Realm} (hi : RealmInv r) {o : DOut}
    (hd : DealerInv o.st)
    (hrefs : ∀ k, o.st.refs k → r.ds.refs k ∨ r.att k)
    (hcalls : ∀ c ∈ o.st.d.calls, c ∈ r.ds.d.calls ∨ r.isClient c.sess)
    (hsends : ∀ x ∈ o.sends, r.ds.refs x.to ∨ r.att x.to)
    (hpanic : o.panic = none) :
    RealmInv (r.applyD o) ∧ (r.applyD o).panic = r.panic ∧ (r.applyD o).clients = r.clients ∧
    (r.applyD o).broker = r.broker ∧ (r.applyD o).retries = r.retries ∧ (r.applyD o).ds = o.st ∧
    (r.applyD o).inbox = r.inbox := by
  rw [applyD_eq, hpanic, setPanic_none]
  have h1 : RealmInv ({ r with ds := o.st } : Realm) :=
    hi.of_parts rfl hi.binv hd hi.bmem
      (fun k hk => (hrefs k hk).elim (hi.dref k) id)
      (fun c hc => (hcalls c hc).elim (hi.callers c) id) hi.retr hi.tasks hi.inb rfl
  have hs : Sent ({ r with ds := o.st } : Realm) (({ r with ds := o.st } : Realm).deliver o.sends) :=
    deliver_sent o.sends (fun x hx => (hsends x hx).elim (hi.dref x.to) id)
  have h2 := h1.sent hs
  refine ⟨?_, hs.panic, hs.clients, hs.broker, hs.retries, hs.ds, hs.inbox⟩
  refine h2.with_tasks _ _ ?_
  intro t ht
  rcases List.mem_append.mp ht with h | h
  · obtain ⟨p, _, rfl⟩ := List.mem_map.mp h; trivial
  · obtain ⟨p, _, rfl⟩ := List.mem_map.mp h; trivial

/-! ### the handlers keep the invariant and never panic -/

/-- `r'` satisfies the invariant, has the panic flag and the attached session keys of `r` -/
def Good (r r' : Realm) : Prop :=
  RealmInv r' ∧ r'.panic = r.panic ∧ r'.clients.map (·.key) = r.clients.map (·.key)

theorem Good.refl {r : Realm} (hi : RealmInv r) : Good r r := ⟨hi, rfl, rfl⟩

theorem Good.trans {a b c : Realm} (h1 : Good a b) (h2 : Good b c) : Good a c :=
  ⟨h2.1, h2.2.1.trans h1.2.1, h2.2.2.trans h1.2.2⟩

theorem Good.att {a b : Realm} (h : Good a b) (k : SessKey) : b.att k ↔ a.att k := att_congr h.2.2 k
theorem Good.isClient {a b : Realm} (h : Good a b) (k : SessKey) : b.isClient k ↔ a.isClient k :=
  isClient_congr h.2.2 k

theorem good_sent {r r' : Realm} (hi : RealmInv r) (h : Sent r r') : Good r r' :=
  ⟨hi.sent h, h.panic, by rw [h.clients]⟩

theorem good_trySend {r : Realm} (hi : RealmInv r) {s : Send} (h : r.att s.to) : Good r (r.trySend s) :=
  good_sent hi (trySend_sent h)

theorem good_tasks {r : Realm} (hi : RealmInv r) (ts : List Task) (en : List SessKey) (hts : ∀ t ∈ ts, TaskOk t) :
    Good r { r with tasks := r.tasks ++ ts, ending := en } := ⟨hi.with_tasks ts en hts, rfl, rfl⟩

theorem good_applyD {r : Realm} (hi : RealmInv r) {o : DOut}
    (hd : DealerInv o.st)
    (hrefs : ∀ k, o.st.refs k → r.ds.refs k ∨ r.att k)
    (hcalls : ∀ c ∈ o.st.d.calls, c ∈ r.ds.d.calls ∨ r.isClient c.sess)
    (hsends : ∀ x ∈ o.sends, r.ds.refs x.to ∨ r.att x.to)
    (hpanic : o.panic = none) : Good r (r.applyD o) :=
  let h := hi.applyD hd hrefs hcalls hsends hpanic
  ⟨h.1, h.2.1, by rw [h.2.2.1]⟩

/-- the publication proper: history and EVENTs -/
theorem good_publishCore {r : Realm} (hi : RealmInv r) (sess : SessKey → Option Session) (now : Nat)
    (p : Publication) (n : Nat) :
    Good r (({ r with broker := (r.broker.syncPublish sess now p).1, pubCount := n } : Realm).deliver
      (r.broker.syncPublish sess now p).2) := by
  obtain ⟨hsubs, _, _⟩ := syncPublish_subs r.broker sess now p
  have hmem : ∀ k, (r.broker.syncPublish sess now p).1.mem k ↔ r.broker.mem k := Broker.mem_of_subs_eq hsubs
  have h1 : RealmInv ({ r with broker := (r.broker.syncPublish sess now p).1, pubCount := n } : Realm) :=
    hi.of_parts rfl (hi.binv.publish sess now p) hi.dinv (fun k hk => hi.bmem k ((hmem k).mp hk))
      hi.dref hi.callers hi.retr hi.tasks hi.inb rfl
  have hs := deliver_sent (r := ({ r with broker := (r.broker.syncPublish sess now p).1, pubCount := n } : Realm))
    (r.broker.syncPublish sess now p).2 (fun x hx => Or.inr (hi.bmem x.to (syncPublish_to hx)))
  exact ⟨h1.sent hs, hs.panic, by rw [hs.clients]⟩

theorem good_handlePublish {r : Realm} (hi : RealmInv r) (s : Session) (hs : r.att s.key) (req : Nat) (opts : Dict)
    (topic : String) (args : List WVal) (kw : Dict) : Good r (handlePublish r s req opts topic args kw) := by
  unfold handlePublish
  simp only [freshPub]
  split
  · split
    · exact good_trySend hi hs
    · exact Good.refl hi
  · split
    · have h1 := good_trySend hi (s := ⟨s.key, abortMsg "<text>"⟩) hs
      exact h1.trans (good_tasks h1.1 _ _ (fun t ht => by rw [List.mem_singleton.mp ht]; trivial))
    · split
      · split
        · exact good_trySend hi hs
        · exact Good.refl hi
      · have hc := good_publishCore hi ({ r with pubCount := r.pubCount + 1 } : Realm).session? r.now
          { publisher := s.key, pubDetails := s.details, topic := topic, pubId := pubBase + r.pubCount, args := args,
            kw := kw, opts := opts,
            excludePub := (match opts.get? OptExcludeMe with
              | some (.bool b) => b
              | _ => true),
            disclose := opts.optFlag OptDiscloseMe,
            baseDetails := if (pptScheme opts != "") = true then pptInto opts [] else [] } (r.pubCount + 1)
        split
        · exact hc.trans (good_trySend hc.1 ((hc.att s.key).mpr hs))
        · exact hc

/-- a broker action: new broker state satisfying `BrokerInv` whose members are attached, sends to
    attached sessions -/
theorem good_brokerStep {r : Realm} (hi : RealmInv r) (b' : Broker) (sends : List Send) (n : Nat)
    (hb : BrokerInv b') (hmem : ∀ k, b'.mem k → r.isClient k) (hto : ∀ x ∈ sends, r.att x.to) :
    Good r (({ r with broker := b', pubCount := n } : Realm).deliver sends) := by
  have h1 : RealmInv ({ r with broker := b', pubCount := n } : Realm) :=
    hi.of_parts rfl hb hi.dinv hmem hi.dref hi.callers hi.retr hi.tasks hi.inb rfl
  have hsd := deliver_sent (r := ({ r with broker := b', pubCount := n } : Realm)) sends hto
  exact ⟨h1.sent hsd, hsd.panic, by rw [hsd.clients]⟩

theorem brokerStep_fields {r : Realm} (b' : Broker) (sends : List Send) (n : Nat) (hto : ∀ x ∈ sends, r.att x.to) :
    (({ r with broker := b', pubCount := n } : Realm).deliver sends).retries = r.retries ∧
    (({ r with broker := b', pubCount := n } : Realm).deliver sends).broker = b' ∧
    (({ r with broker := b', pubCount := n } : Realm).deliver sends).ds = r.ds := by
  have hsd := deliver_sent (r := ({ r with broker := b', pubCount := n } : Realm)) sends hto
  exact ⟨hsd.retries, hsd.broker, hsd.ds⟩

theorem good_handleSubscribe {r : Realm} (hi : RealmInv r) (s : Session) (hs : r.isClient s.key) (req : Nat)
    (opts : Dict) (topic : String) : Good r (handleSubscribe r s req opts topic) := by
  unfold handleSubscribe
  extract_lets m
  split
  · exact good_trySend hi (Or.inr hs)
  · split
    rename_i b sends n heq
    have e1 : b = (r.broker.syncSubscribe s.key req topic m r.pubCount).1 := by rw [heq]
    have e2 : sends = (r.broker.syncSubscribe s.key req topic m r.pubCount).2.1 := by rw [heq]
    subst e1 e2
    exact good_brokerStep hi _ _ _ (hi.binv.subscribe s.key req topic m r.pubCount)
      (fun k hk => (syncSubscribe_mem hk).elim (hi.bmem k) (fun e => e ▸ hs))
      (fun x hx => Or.inr ((syncSubscribe_to hx).elim (hi.bmem x.to) (fun e => e ▸ hs)))

theorem good_handleUnsubscribe {r : Realm} (hi : RealmInv r) (s : Session) (hs : r.att s.key) (req sub : Nat) :
    Good r (handleUnsubscribe r s req sub) := by
  unfold handleUnsubscribe
  split
  rename_i b sends n heq
  have e1 : b = (r.broker.syncUnsubscribe s.key req sub r.pubCount).1 := by rw [heq]
  have e2 : sends = (r.broker.syncUnsubscribe s.key req sub r.pubCount).2.1 := by rw [heq]
  subst e1 e2
  exact good_brokerStep hi _ _ _ (hi.binv.unsubscribe s.key req sub r.pubCount)
    (fun k hk => hi.bmem k (syncUnsubscribe_mem hk))
    (fun x hx => (syncUnsubscribe_to hx).elim (fun h => Or.inr (hi.bmem x.to h)) (fun e => e ▸ hs))

theorem good_handleRegister {r : Realm} (hi : RealmInv r) (s : Session) (hs : r.att s.key) (req : Nat)
    (opts : Dict) (proc : String) : Good r (handleRegister r s req opts proc) := by
  unfold handleRegister
  extract_lets m wampURI disclose invoke fwd
  split
  · exact good_trySend hi hs
  · split
    · exact good_trySend hi hs
    · split
      · exact good_trySend hi hs
      · split
        · exact good_trySend hi hs
        · rename_i hk
          have hkn := knownPolicies_contains hk
          refine good_applyD hi (syncRegister_inv hi.dinv _ _ _ _ _ _ _ _ hkn) ?_ ?_ ?_ ?_
          · intro k hk'
            exact (syncRegister_refs_sub hi.dinv _ _ _ _ _ _ _ _ k hk').elim Or.inl (fun e => Or.inr (e ▸ hs))
          · intro c hc
            rw [syncRegister_calls] at hc
            exact Or.inl hc
          · intro x hx
            exact Or.inr ((syncRegister_sends_to _ _ _ _ _ _ _ _ _ x hx) ▸ hs)
          · exact syncRegister_panic ..

theorem good_handleUnregister {r : Realm} (hi : RealmInv r) (s : Session) (hs : r.att s.key) (req reg : Nat) :
    Good r (handleUnregister r s req reg) := by
  unfold handleUnregister
  refine good_applyD hi (syncUnregister_inv hi.dinv _ _ _) ?_ ?_ ?_ ?_
  · intro k hk
    exact Or.inl (syncUnregister_refs_sub hi.dinv _ _ _ k hk)
  · intro c hc
    rw [syncUnregister_calls hi.dinv] at hc
    exact Or.inl hc
  · intro x hx
    exact Or.inr ((syncUnregister_sends_to _ _ _ _ x hx) ▸ hs)
  · exact syncUnregister_panic ..

theorem good_handleCall {r : Realm} (hi : RealmInv r) (s : Session) (hs : r.isClient s.key) (req : Nat) (opts : Dict)
    (proc : String) (args : List WVal) (kw : Dict) : Good r (handleCall r s req opts proc args kw) := by
  unfold handleCall
  refine good_applyD hi (syncCall_inv hi.dinv _ _ _ _ _ _ _) ?_ ?_ ?_ ?_
  · intro k hk
    exact (syncCall_refs_sub hi.dinv _ _ _ _ _ _ _ k hk).elim Or.inl (fun e => Or.inr (Or.inr (e ▸ hs)))
  · intro c hc
    exact (syncCall_calls_sub hi.dinv _ _ _ _ _ _ _ c hc).elim Or.inl (fun e => Or.inr (e ▸ hs))
  · intro x hx
    exact (syncCall_sends_to hi.dinv _ _ _ _ _ _ _ x hx).elim Or.inl (fun e => Or.inr (Or.inr (e ▸ hs)))
  · exact syncCall_no_panic hi.dinv ..

theorem good_cancel {r : Realm} (hi : RealmInv r) (caller : SessKey) (req : Nat) (mode reason : String)
    (errArgs : List WVal) : Good r (r.applyD (syncCancel r.denv r.ds caller req mode reason errArgs)) := by
  refine good_applyD hi (syncCancel_inv hi.dinv _ _ _ _ _) ?_ ?_ ?_ ?_
  · intro k hk
    exact Or.inl (syncCancel_refs_sub hi.dinv _ _ _ _ _ k hk)
  · intro c hc
    exact Or.inl (syncCancel_calls_sub hi.dinv _ _ _ _ _ c hc)
  · intro x hx
    exact Or.inl (syncCancel_sends_to hi.dinv _ _ _ _ _ x hx)
  · exact syncCancel_panic ..

theorem good_handleCancel {r : Realm} (hi : RealmInv r) (s : Session) (hs : r.att s.key) (req : Nat) (opts : Dict) :
    Good r (handleCancel r s req opts) := by
  unfold handleCancel
  extract_lets mode0 mode
  split
  · exact good_cancel hi _ _ _ _ _
  · exact good_trySend hi hs

theorem good_yield {r : Realm} (hi : RealmInv r) (callee : SessKey) (hs : r.att callee) (req : Nat) (opts : Dict)
    (args : List WVal) (kw : Dict) (progress canRetry : Bool) :
    Good r (r.applyD (syncYield r.denv r.ds callee req opts args kw progress canRetry)) := by
  refine good_applyD hi (syncYield_inv hi.dinv _ _ _ _ _ _ _) ?_ ?_ ?_ ?_
  · intro k hk
    exact Or.inl (syncYield_refs_sub hi.dinv _ _ _ _ _ _ _ k hk)
  · intro c hc
    exact Or.inl (syncYield_calls_sub hi.dinv _ _ _ _ _ _ _ c hc)
  · intro x hx
    exact (syncYield_sends_to hi.dinv _ _ _ _ _ _ _ x hx).elim Or.inl (fun e => Or.inr (e ▸ hs))
  · exact syncYield_panic ..

theorem good_handleYield {r : Realm} (hi : RealmInv r) (s : Session) (hs : r.att s.key) (req : Nat) (opts : Dict)
    (args : List WVal) (kw : Dict) : Good r (handleYield r s req opts args kw) := by
  unfold handleYield
  extract_lets progress o r1
  have h1 : Good r r1 := good_yield hi s.key hs req opts args kw progress true
  split
  · refine h1.trans ⟨?_, rfl, rfl⟩
    refine h1.1.of_parts rfl h1.1.binv h1.1.dinv h1.1.bmem h1.1.dref h1.1.callers ?_ h1.1.tasks ?_ rfl
    intro x hx
    rcases List.mem_append.mp hx with hx | hx
    · exact h1.1.retr x hx
    · rw [List.mem_singleton.mp hx]
      exact (h1.att s.key).mpr hs
    · exact h1.1.inb.mono (r := r1) rfl (fun y hy => List.mem_append_left _ hy) rfl
  · exact h1

theorem good_handleError {r : Realm} (hi : RealmInv r) (s : Session) (req : Nat) (details : Dict) (err : String)
    (args : List WVal) (kw : Dict) : Good r (handleError r s req details err args kw) := by
  unfold handleError
  refine good_applyD hi (syncError_inv hi.dinv _ _ _ _ _ _) ?_ ?_ ?_ ?_
  · intro k hk
    exact Or.inl (syncError_refs_sub hi.dinv _ _ _ _ _ _ k hk)
  · intro c hc
    exact Or.inl (syncError_calls_sub hi.dinv _ _ _ _ _ _ c hc)
  · intro x hx
    exact Or.inl (syncError_sends_to hi.dinv _ _ _ _ _ _ x hx)
  · exact syncError_panic ..

/-! ### the message switch -/

theorem good_authzGate {r : Realm} (hi : RealmInv r) (s : Session) (hs : r.att s.key) (m : Msg) :
    Good r (authzGate r s m).2 := by
  rw [authzGate_eq_gateG]
  unfold gateG
  split
  · exact Good.refl hi
  · split
    · exact Good.refl hi
    · split
      · exact Good.refl hi
      · dsimp only
        split
        · exact Good.refl hi
        · exact good_trySend hi hs

theorem leaveTask_ok (k : SessKey) (mode : LeaveMode) : ∀ t ∈ [Task.leave k mode], TaskOk t :=
  fun t ht => by rw [List.mem_singleton.mp ht]; trivial

theorem good_dispatch_client {r : Realm} (hi : RealmInv r) (s : Session) (hs : r.isClient s.key) (m : Msg) :
    Good r (dispatch r s m) := by
  have ha : r.att s.key := Or.inr hs
  cases m
  case publish => exact good_handlePublish hi s ha ..
  case yield => exact good_handleYield hi s ha ..
  case call => exact good_handleCall hi s hs ..
  case cancel => exact good_handleCancel hi s ha ..
  case subscribe => exact good_handleSubscribe hi s hs ..
  case register => exact good_handleRegister hi s ha ..
  case unsubscribe => exact good_handleUnsubscribe hi s ha ..
  case unregister => exact good_handleUnregister hi s ha ..
  case error typ req details err args kw =>
    show Good r (if typ != tINVOCATION then _ else handleError r s req details err args kw)
    split
    · exact good_tasks hi _ _ (leaveTask_ok _ _)
    · exact good_handleError hi s ..
  case goodbye =>
    have h1 := good_trySend hi (s := ⟨s.key, .goodbye [] CloseGoodbyeAndOut⟩) ha
    exact h1.trans (good_tasks h1.1 _ _ (leaveTask_ok _ _))
  all_goals exact good_tasks hi _ _ (leaveTask_ok _ _)

theorem good_dispatch_meta {r : Realm} (hi : RealmInv r) (s : Session) (hs : s.key = metaKey) (m : Msg)
    (hm : m.isMetaAnswer = true) : Good r (dispatch r s m) := by
  have ha : r.att s.key := Or.inl hs
  cases m
  case yield => exact good_handleYield hi s ha ..
  case error typ req details err args kw =>
    show Good r (if typ != tINVOCATION then _ else handleError r s req details err args kw)
    split
    · exact good_tasks hi _ _ (leaveTask_ok _ _)
    · exact good_handleError hi s ..
  all_goals cases hm

theorem good_handleMsg {r : Realm} (hi : RealmInv r) (s : Session) (m : Msg)
    (h : r.isClient s.key ∨ (s.key = metaKey ∧ m.isMetaAnswer = true)) : Good r (handleMsg r s m) := by
  rw [handleMsg_eq]
  have ha : r.att s.key := h.elim Or.inr (fun h => Or.inl h.1)
  have hg := good_authzGate hi s ha m
  split
  · refine hg.trans ?_
    rcases h with h | ⟨h1, h2⟩
    · exact good_dispatch_client hg.1 s ((hg.isClient s.key).mpr h) m
    · exact good_dispatch_meta hg.1 s h1 m h2
  · exact hg

/-! ### internal tasks -/

theorem metaProc_answer (r : Realm) (proc : String) (req : Nat) (details : Dict) (args : List WVal) (kw : Dict) :
    (metaProc r proc req details args kw).1.isMetaAnswer = true := by
  unfold metaProc
  extract_lets +onlyGivenNames caller reason message badReason
  clear_value caller reason message badReason
  repeat' (first
    | (refine ite_cases (Q := fun x => Msg.isMetaAnswer (Prod.fst x) = true) (fun _ => ?_) (fun _ => ?_))
    | split
    | dsimp only)
  all_goals rfl

theorem isClient_map {r : Realm} (f : Session → Session) (hf : ∀ c, (f c).key = c.key) :
    ({ r with clients := r.clients.map f } : Realm).clients.map (·.key) = r.clients.map (·.key) := by
  show (r.clients.map f).map (·.key) = _
  rw [List.map_map]
  apply List.map_congr_left
  intro c _
  exact hf c

theorem RealmInv.metaEffect {r r' : Realm} (hi : RealmInv r) (e : MetaEffect r r') :
    RealmInv r' ∧ r'.panic = r.panic ∧ r'.clients.map (·.key) = r.clients.map (·.key) ∧ r'.retries = r.retries := by
  cases e with
  | same => exact ⟨hi, rfl, rfl, rfl⟩
  | kill sel g ka =>
    refine ⟨?_, rfl, rfl, rfl⟩
    unfold killWhere
    refine hi.with_tasks _ _ ?_
    intro t ht
    obtain ⟨c, _, rfl⟩ := List.mem_map.mp ht
    trivial
  | testaments t _ =>
    exact ⟨hi.of_parts rfl hi.binv hi.dinv hi.bmem hi.dref hi.callers hi.retr hi.tasks hi.inb rfl, rfl, rfl, rfl⟩
  | modify k d =>
    have hk := isClient_map (r := r) (fun c => if c.key == k then { c with details := d } else c)
      (fun c => by split <;> rfl)
    exact ⟨hi.of_parts hk hi.binv hi.dinv hi.bmem hi.dref hi.callers hi.retr hi.tasks
      (hi.inb.map_clients (fun c => if c.key == k then { c with details := d } else c)
        (fun c => by split <;> rfl) (fun c hc => by split <;> exact hc) rfl rfl rfl) rfl, rfl, hk, rfl⟩

/-! ### session end -/

/-- session `k` occurs nowhere in the broker and dealer tables -/
def Gone (r : Realm) (k : SessKey) : Prop :=
  ¬ r.broker.mem k ∧ (∀ e ∈ r.broker.index, e.1 ≠ k) ∧ ¬ r.ds.refs k

theorem good_leaveSend {r : Realm} (hi : RealmInv r) {k : SessKey} (hk : r.isClient k) (mode : LeaveMode) :
    Good r (leaveSend r k mode) ∧ (leaveSend r k mode).retries = r.retries := by
  cases mode <;> first
    | exact ⟨good_trySend hi (Or.inr hk), (trySend_sent (Or.inr hk)).retries⟩
    | exact ⟨Good.refl hi, rfl⟩

theorem good_takeTestaments {r : Realm} (hi : RealmInv r) (k : SessKey) :
    Good r (r.takeTestaments k).2 ∧ (r.takeTestaments k).2.retries = r.retries := by
  unfold takeTestaments
  split
  · exact ⟨⟨hi.of_parts rfl hi.binv hi.dinv hi.bmem hi.dref hi.callers hi.retr hi.tasks hi.inb rfl, rfl, rfl⟩, rfl⟩
  · exact ⟨Good.refl hi, rfl⟩

theorem good_leaveRemove {r : Realm} (hi : RealmInv r) (k : SessKey) (quiet : Bool) :
    Good r (leaveRemove r k quiet) ∧ (leaveRemove r k quiet).retries = r.retries ∧ Gone (leaveRemove r k quiet) k := by
  have hdi := syncRemoveSession_inv (env := r.denv) hi.dinv k
  have hrefs := syncRemoveSession_refs_sub (env := r.denv) hi.dinv k
  have hgone := syncRemoveSession_gone hi.binv k
  unfold leaveRemove
  split
  · -- quiet
    extract_lets o
    split
    rename_i b x1 x2 heq
    have eb : b = (r.broker.syncRemoveSession k r.pubCount).1 := by rw [heq]
    subst eb
    rw [hdi.2, setPanic_none]
    have h1 : RealmInv ({ r with ds := o.st, broker := (r.broker.syncRemoveSession k r.pubCount).1 } : Realm) :=
      hi.of_parts rfl (hi.binv.removeSession k r.pubCount) hdi.1
        (fun k' hk' => hi.bmem k' (syncRemoveSession_mem' hk'))
        (fun k' hk' => hi.dref k' (hrefs k' hk').1)
        (fun c hc => hi.callers c (syncRemoveSession_calls hi.dinv k c hc).1) hi.retr hi.tasks hi.inb rfl
    exact ⟨⟨h1, rfl, rfl⟩, rfl, (hgone r.pubCount).1, (hgone r.pubCount).2, fun h => (hrefs k h).2 rfl⟩
  · extract_lets o ra
    have ha := hi.applyD (o := o) hdi.1 (fun k' hk' => Or.inl (hrefs k' hk').1)
      (fun c hc => Or.inl (syncRemoveSession_calls hi.dinv k c hc).1)
      (fun x hx => Or.inl (syncRemoveSession_sends_to hi.dinv k x hx)) hdi.2
    obtain ⟨hia, hpa, hca, hba, hra, hda, _⟩ := ha
    have hia' : RealmInv ra := hia
    split
    rename_i b sends n heq
    have eb : b = (ra.broker.syncRemoveSession k ra.pubCount).1 := by rw [heq]
    have es : sends = (ra.broker.syncRemoveSession k ra.pubCount).2.1 := by rw [heq]
    subst eb es
    have hgone' := syncRemoveSession_gone hia'.binv k ra.pubCount
    have hg := good_brokerStep hia' (ra.broker.syncRemoveSession k ra.pubCount).1
      (ra.broker.syncRemoveSession k ra.pubCount).2.1 (ra.pubCount + n)
      (hia'.binv.removeSession k ra.pubCount)
      (fun k' hk' => hia'.bmem k' (syncRemoveSession_mem' hk'))
      (fun x hx => Or.inr (hia'.bmem x.to (syncRemoveSession_to hx).1))
    obtain ⟨f1, f2, f3⟩ := brokerStep_fields (r := ra) (ra.broker.syncRemoveSession k ra.pubCount).1
      (ra.broker.syncRemoveSession k ra.pubCount).2.1 (ra.pubCount + n)
      (fun x hx => Or.inr (hia'.bmem x.to (syncRemoveSession_to hx).1))
    refine ⟨⟨hg.1, hg.2.1.trans hpa, hg.2.2.trans (by rw [hca])⟩, ?_, ?_, ?_, ?_⟩
    · rw [f1]; exact hra
    · rw [f2]; exact hgone'.1
    · rw [f2]; exact hgone'.2
    · rw [f3]
      show ¬ ra.ds.refs k
      rw [hda]
      exact fun h => (hrefs k h).2 rfl

theorem isClient_leaveClose (r : Realm) (s : Session) (k : SessKey) :
    (leaveClose r s).isClient k ↔ r.isClient k ∧ k ≠ s.key := by
  unfold isClient leaveClose
  constructor
  · rintro ⟨c, hc, rfl⟩
    have := List.mem_filter.mp hc
    exact ⟨⟨c, this.1, rfl⟩, by simpa using this.2⟩
  · rintro ⟨⟨c, hc, rfl⟩, hne⟩
    exact ⟨c, List.mem_filter.mpr ⟨hc, by simpa using hne⟩, rfl⟩

theorem leaveClose_inv {r : Realm} (hi : RealmInv r) (s : Session) (hg : Gone r s.key)
    (hre : ∀ x ∈ r.retries, x.callee ≠ s.key) : RealmInv (leaveClose r s) := by
  have hatt : ∀ k, r.att k → k ≠ s.key → (leaveClose r s).att k := by
    rintro k (h | h) hne
    · exact Or.inl h
    · exact Or.inr ((isClient_leaveClose r s k).mpr ⟨h, hne⟩)
  refine ⟨hi.binv, hi.dinv, ?_, ?_, ?_, ?_, hi.tasks, ?_, hi.metaKey⟩
  rotate_right
  · -- the inbox: its senders are busy, hence not the session that is closed
    intro e he
    obtain ⟨⟨c, hc, hck, hcb⟩, hbz⟩ := hi.inb e he
    refine ⟨⟨c, ?_, hck, hcb⟩, hbz⟩
    obtain ⟨x, hx, hxk⟩ := List.any_eq_true.mp hbz
    have hne : e.1 ≠ s.key := fun e' => hre x hx ((by simpa using hxk : x.callee = e.1).trans e')
    exact List.mem_filter.mpr ⟨hc, by simpa [hck] using hne⟩
  · intro k hk
    exact (isClient_leaveClose r s k).mpr ⟨hi.bmem k hk, fun e => hg.1 (e ▸ hk)⟩
  · intro k hk
    exact hatt k (hi.dref k hk) (fun e => hg.2.2 (e ▸ hk))
  · intro c hc
    refine (isClient_leaveClose r s c.sess).mpr ⟨hi.callers c hc, fun e => hg.2.2 ?_⟩
    exact Or.inr (Or.inl ⟨c, hc, e⟩)
  · intro x hx
    exact hatt _ (hi.retr x hx) (hre x hx)

theorem gone_leaveClose {r : Realm} {k : SessKey} (s : Session) (h : Gone r k) : Gone (leaveClose r s) k := h

/-- A session handler exits (any mode): the invariant is kept, nothing panics, and — when `k` was
    attached — `k` is gone from the broker and dealer tables and from `clients`. -/
theorem leave_inv {r : Realm} (hi : RealmInv r) (k : SessKey) (mode : LeaveMode)
    (hnb : ∀ x ∈ r.retries, x.callee ≠ k) :
    RealmInv (r.leave k mode) ∧ (r.leave k mode).panic = r.panic ∧
    (r.isClient k → Gone (r.leave k mode) k ∧ ¬ (r.leave k mode).isClient k) ∧
    (∀ k', (r.leave k mode).isClient k' → r.isClient k') := by
  cases hf : r.clients.find? (fun c => c.key == k) with
  | none =>
    rw [leave_none mode hf]
    refine ⟨hi, rfl, ?_, fun _ h => h⟩
    rintro ⟨c, hc, hk⟩
    have := List.find?_eq_none.mp hf c hc
    simp [hk] at this
  | some s =>
    rw [leave_some mode hf]
    have hsk : s.key = k := (find?_key hf).2
    have hcl : r.isClient k := isClient_of_find hf
    obtain ⟨g1, q1⟩ := good_leaveSend hi hcl mode
    obtain ⟨g2, q2⟩ := good_takeTestaments g1.1 k
    obtain ⟨g3, q3, gone3⟩ := good_leaveRemove g2.1 k mode.isShutdown
    generalize hr3 : leaveRemove ((leaveSend r k mode).takeTestaments k).2 k mode.isShutdown = r3 at g3 q3 gone3
    have g13 : Good r r3 := g1.trans (g2.trans g3)
    have q13 : r3.retries = r.retries := by rw [q3, q2, q1]
    -- announce
    have h4 : RealmInv (leaveAnnounce r3 s ((leaveSend r k mode).takeTestaments k).1 mode.isShutdown) ∧
        (leaveAnnounce r3 s ((leaveSend r k mode).takeTestaments k).1 mode.isShutdown).panic = r3.panic ∧
        (leaveAnnounce r3 s ((leaveSend r k mode).takeTestaments k).1 mode.isShutdown).clients = r3.clients ∧
        (leaveAnnounce r3 s ((leaveSend r k mode).takeTestaments k).1 mode.isShutdown).retries = r3.retries ∧
        Gone (leaveAnnounce r3 s ((leaveSend r k mode).takeTestaments k).1 mode.isShutdown) k := by
      unfold leaveAnnounce
      split
      · exact ⟨g13.1, rfl, rfl, rfl, gone3⟩
      · refine ⟨g13.1.with_tasks _ _ ?_, rfl, rfl, rfl, gone3⟩
        intro t ht
        rcases List.mem_append.mp ht with h | h
        · unfold testamentTasks at h
          split at h
          · obtain ⟨x, _, rfl⟩ := List.mem_map.mp h; trivial
          · cases h
        · rw [List.mem_singleton.mp h]; trivial
    generalize leaveAnnounce r3 s ((leaveSend r k mode).takeTestaments k).1 mode.isShutdown = r4 at h4
    obtain ⟨i4, p4, c4, q4, gone4⟩ := h4
    have gone4' : Gone r4 s.key := hsk ▸ gone4
    have hre : ∀ x ∈ r4.retries, x.callee ≠ s.key := by
      rw [q4, q13, hsk]; exact hnb
    refine ⟨leaveClose_inv i4 s gone4' hre, ?_, ?_, ?_⟩
    · show r4.panic = r.panic
      rw [p4]; exact g13.2.1
    · intro _
      refine ⟨gone_leaveClose s gone4, ?_⟩
      intro h
      exact ((isClient_leaveClose r4 s k).mp h).2 hsk.symm
    · intro k' h
      have h' := ((isClient_leaveClose r4 s k').mp h).1
      have : r3.isClient k' := (isClient_congr (r := r3) (r' := r4) (by rw [c4]) k').mp h'
      exact (g13.isClient k').mp this

/-! ### tasks, external inputs, timed events -/

theorem not_busy {r : Realm} {k : SessKey} (h : ¬ r.busy k = true) : ∀ x ∈ r.retries, x.callee ≠ k := by
  intro x hx e
  apply h
  unfold busy
  exact List.any_eq_true.mpr ⟨x, hx, by simp [e]⟩

/-- the handler reads a message (or cannot: the message of a busy buffered session joins `inbox`) -/
theorem good_recvMsg {r : Realm} (hi : RealmInv r) (k : SessKey) (m : Msg) : Good r (r.recvMsg k m) := by
  rw [recvMsg_eq]
  split
  · exact Good.refl hi
  · rename_i s hs
    split
    · exact Good.refl hi
    · split
      · rename_i hb
        split
        · rename_i hbuf
          refine ⟨hi.of_parts rfl hi.binv hi.dinv hi.bmem hi.dref hi.callers hi.retr hi.tasks ?_ rfl, rfl, rfl⟩
          intro e he
          rcases List.mem_append.mp he with he | he
          · exact hi.inb e he
          · rw [List.mem_singleton.mp he]
            exact ⟨⟨s, (find?_key hs).1, (find?_key hs).2, hbuf⟩, hb⟩
        · exact Good.refl hi
      · have hk : s.key = k := (find?_key hs).2
        exact good_handleMsg hi s m (Or.inl (hk ▸ isClient_of_find hs))

theorem recvMsg_inv {r : Realm} (hi : RealmInv r) (k : SessKey) (m : Msg) :
    RealmInv (r.recvMsg k m) ∧ (r.recvMsg k m).panic = r.panic :=
  ⟨(good_recvMsg hi k m).1, (good_recvMsg hi k m).2.1⟩

theorem runTask_inv {r : Realm} (hi : RealmInv r) (t : Task) (ht : TaskOk t) :
    RealmInv (r.runTask t) ∧ (r.runTask t).panic = r.panic := by
  cases t with
  | inMsg k m => exact recvMsg_inv hi k m
  | metaPub p =>
    have := good_handlePublish hi r.metaS (Or.inl hi.metaKey) 0 p.opts p.topic p.args p.kw
    exact ⟨this.1, this.2.1⟩
  | metaInvoke req reg details args kw =>
    rw [runTask_metaInvoke]
    split
    · exact ⟨hi.with_tasks [.metaMsg (mErr req ErrNoSuchProcedure)] r.ending (fun t ht => by
        rw [List.mem_singleton.mp ht]; rfl), rfl⟩
    · rename_i proc _
      obtain ⟨h1, h2, _, _⟩ := hi.metaEffect (metaProc_effect r proc req details args kw)
      refine ⟨h1.with_tasks [.metaMsg (metaProc r proc req details args kw).1] _ ?_, h2⟩
      intro t ht
      rw [List.mem_singleton.mp ht]
      exact metaProc_answer r proc req details args kw
  | metaMsg m =>
    have := good_handleMsg hi r.metaS m (Or.inr ⟨hi.metaKey, ht⟩)
    exact ⟨this.1, this.2.1⟩
  | leave k mode =>
    rw [runTask_leave]
    split
    · exact ⟨hi.of_parts rfl hi.binv hi.dinv hi.bmem hi.dref hi.callers hi.retr hi.tasks hi.inb rfl, rfl⟩
    · rename_i hb
      have := leave_inv hi k mode (not_busy hb)
      exact ⟨this.1, this.2.1⟩

theorem stepOp_inv {r : Realm} (hi : RealmInv r) (op : Op) :
    RealmInv (r.stepOp op) ∧ (r.stepOp op).panic = r.panic := by
  cases op with
  | join k isLocal details roles cap =>
    rw [stepOp_join]
    split
    · exact ⟨hi, rfl⟩
    refine ⟨?_, rfl⟩
    have hmono : ∀ k', r.isClient k' →
        ({ r with clients := r.clients ++ [{ key := k, details := details, roles := roles, isLocal := isLocal, cap := cap }],
                  queues := r.queues ++ [(k, [])] } : Realm).isClient k' := by
      rintro k' ⟨c, hc, hk⟩
      exact ⟨c, List.mem_append_left _ hc, hk⟩
    have hatt : ∀ k', r.att k' →
        ({ r with clients := r.clients ++ [{ key := k, details := details, roles := roles, isLocal := isLocal, cap := cap }],
                  queues := r.queues ++ [(k, [])] } : Realm).att k' := fun k' h => h.imp id (hmono k')
    have hr0 : RealmInv ({ r with clients := r.clients ++ [{ key := k, details := details, roles := roles, isLocal := isLocal, cap := cap }], queues := r.queues ++ [(k, [])] } : Realm) :=
      ⟨hi.binv, hi.dinv, fun k' h => hmono k' (hi.bmem k' h), fun k' h => hatt k' (hi.dref k' h),
        fun c h => hmono _ (hi.callers c h), fun x h => hatt _ (hi.retr x h), hi.tasks,
        fun e he => ⟨(hi.inb e he).1.imp (fun c hc => ⟨List.mem_append_left _ hc.1, hc.2⟩), (hi.inb e he).2⟩,
        hi.metaKey⟩
    exact hr0.with_tasks _ _ (fun t ht => by rw [List.mem_singleton.mp ht]; trivial)
  | msg k m => exact recvMsg_inv hi k m
  | buffer k =>
    rw [stepOp_buffer]
    have hk := isClient_map (r := r) (fun c => if c.key == k then { c with buffered := true } else c)
      (fun c => by split <;> rfl)
    exact ⟨hi.of_parts hk hi.binv hi.dinv hi.bmem hi.dref hi.callers hi.retr hi.tasks
      (hi.inb.map_clients (fun c => if c.key == k then { c with buffered := true } else c)
        (fun c => by split <;> rfl) (fun c hc => by split <;> first | rfl | exact hc) rfl rfl rfl) rfl, rfl⟩
  | drop k =>
    rw [stepOp_drop]
    split
    · exact ⟨hi, rfl⟩
    split
    · exact ⟨hi, rfl⟩
    · exact ⟨hi.with_tasks _ _ (leaveTask_ok _ _), rfl⟩
  | stall k =>
    rw [stepOp_stall]
    have hk := isClient_map (r := r) (fun c => if c.key == k then { c with stalled := true } else c)
      (fun c => by split <;> rfl)
    exact ⟨hi.of_parts hk hi.binv hi.dinv hi.bmem hi.dref hi.callers hi.retr hi.tasks
      (hi.inb.map_clients (fun c => if c.key == k then { c with stalled := true } else c)
        (fun c => by split <;> rfl) (fun c hc => by split <;> exact hc) rfl rfl rfl) rfl, rfl⟩
  | resume k =>
    rw [stepOp_resume]
    have hk := isClient_map (r := r) (fun c => if c.key == k then { c with stalled := false } else c)
      (fun c => by split <;> rfl)
    exact ⟨hi.of_parts hk hi.binv hi.dinv hi.bmem hi.dref hi.callers hi.retr hi.tasks
      (hi.inb.map_clients (fun c => if c.key == k then { c with stalled := false } else c)
        (fun c => by split <;> rfl) (fun c hc => by split <;> exact hc) rfl rfl rfl) rfl, rfl⟩
  | tick ms => exact ⟨hi, rfl⟩
  | rnd n => exact ⟨hi.of_parts rfl hi.binv hi.dinv hi.bmem hi.dref hi.callers hi.retr hi.tasks hi.inb rfl, rfl⟩

theorem nextDue_retry {r : Realm} {limit : Nat} {x : Retry} (h : nextDue r limit = some (.retry x)) :
    x ∈ r.retries := by
  unfold nextDue at h
  obtain ⟨g1, _, _⟩ :=
    (foldl_min_spec ((dueTimers r limit).map Due.timer ++ (dueRetries r limit).map Due.retry) none).2 _ h
  rcases g1 with g1 | g1
  · cases g1
  · rcases List.mem_append.1 g1 with g1 | g1
    · rcases List.mem_map.1 g1 with ⟨_, _, he⟩; cases he
    · rcases List.mem_map.1 g1 with ⟨x', hx', he⟩
      cases he
      exact (List.mem_filter.1 hx').1

/-! the `inbox` field commutes with everything a dealer action does to the realm -/

theorem setPanic_inbox_comm (r : Realm) (p : Option String) (ib : List (SessKey × Msg)) :
    ({ r with inbox := ib } : Realm).setPanic p = { r.setPanic p with inbox := ib } := by
  unfold setPanic
  dsimp only
  split <;> rfl

theorem trySend_inbox_comm (r : Realm) (s : Send) (ib : List (SessKey × Msg)) :
    ({ r with inbox := ib } : Realm).trySend s = { r.trySend s with inbox := ib } := by
  unfold trySend
  simp only [setPanic_inbox_comm]
  unfold queueLen
  dsimp only
  repeat' split
  all_goals rfl

theorem deliver_inbox_comm (ib : List (SessKey × Msg)) : ∀ (ss : List Send) (r : Realm),
    ({ r with inbox := ib } : Realm).deliver ss = { r.deliver ss with inbox := ib }
  | [], _ => rfl
  | s :: ss, r => by
    show (({ r with inbox := ib } : Realm).trySend s).deliver ss = _
    rw [trySend_inbox_comm, deliver_inbox_comm ib ss]; rfl

theorem applyD_inbox_comm (r : Realm) (o : DOut) (ib : List (SessKey × Msg)) :
    ({ r with inbox := ib } : Realm).applyD o = { r.applyD o with inbox := ib } := by
  rw [applyD_eq, applyD_eq]
  have : ({ ({ r with inbox := ib } : Realm) with ds := o.st } : Realm) = { ({ r with ds := o.st } : Realm) with inbox := ib } := rfl
  rw [this, deliver_inbox_comm, ← setPanic_inbox_comm]

theorem setPanic_cri (r : Realm) (p : Option String) :
    (r.setPanic p).clients = r.clients ∧ (r.setPanic p).retries = r.retries ∧ (r.setPanic p).inbox = r.inbox := by
  unfold setPanic; split <;> exact ⟨rfl, rfl, rfl⟩

theorem trySend_cri (r : Realm) (s : Send) :
    (r.trySend s).clients = r.clients ∧ (r.trySend s).retries = r.retries ∧ (r.trySend s).inbox = r.inbox := by
  unfold trySend
  repeat' split
  all_goals first | exact ⟨rfl, rfl, rfl⟩ | exact setPanic_cri _ _

theorem deliver_cri : ∀ (ss : List Send) (r : Realm),
    (r.deliver ss).clients = r.clients ∧ (r.deliver ss).retries = r.retries ∧ (r.deliver ss).inbox = r.inbox
  | [], _ => ⟨rfl, rfl, rfl⟩
  | s :: ss, r => by
    obtain ⟨a1, a2, a3⟩ := deliver_cri ss (r.trySend s)
    obtain ⟨b1, b2, b3⟩ := trySend_cri r s
    exact ⟨a1.trans b1, a2.trans b2, a3.trans b3⟩

/-- a dealer action leaves `clients`, `retries` and `inbox` alone -/
theorem applyD_cri (r : Realm) (o : DOut) :
    (r.applyD o).clients = r.clients ∧ (r.applyD o).retries = r.retries ∧ (r.applyD o).inbox = r.inbox := by
  rw [applyD_eq]
  obtain ⟨a1, a2, a3⟩ := setPanic_cri ({ (({ r with ds := o.st } : Realm).deliver o.sends) with
          tasks := (({ r with ds := o.st } : Realm).deliver o.sends).tasks ++
            (o.metaPubs.map Task.metaPub ++ o.aborts.map (fun k => Task.leave k .aborted)),
          ending := (({ r with ds := o.st } : Realm).deliver o.sends).ending ++ o.aborts } : Realm) o.panic
  obtain ⟨b1, b2, b3⟩ := deliver_cri o.sends ({ r with ds := o.st } : Realm)
  exact ⟨a1.trans b1, a2.trans b2, a3.trans b3⟩

/-- One turn of the yield retry loop.  While the turn runs the callee's handler is not in `retries`
    although its messages still wait in `inbox`; the invariant is re-established at the end of the
    turn: the handler is busy again, or its `inbox` entries have become `inMsg` tasks. -/
theorem retryDue_rinv {r : Realm} (hi : RealmInv r) (x : Retry) (hx : r.att x.callee) :
    RealmInv (r.retryDue x) ∧ (r.retryDue x).panic = r.panic := by
  unfold retryDue
  extract_lets r1 canRetry o r2
  -- the same turn in the realm whose inbox holds the other sessions' messages only
  have hi1 : RealmInv ({ r1 with inbox := r.inbox.filter (fun d => d.1 != x.callee) } : Realm) := by
    refine hi.of_parts rfl hi.binv hi.dinv hi.bmem hi.dref hi.callers
      (fun y hy => hi.retr y (List.mem_filter.mp hy).1) hi.tasks ?_ rfl
    intro e he
    obtain ⟨he0, hne⟩ := List.mem_filter.mp he
    obtain ⟨hcl, hb⟩ := hi.inb e he0
    refine ⟨hcl, ?_⟩
    obtain ⟨y, hy, hyk⟩ := List.any_eq_true.mp hb
    have hyk' : y.callee = e.1 := by simpa using hyk
    refine List.any_eq_true.mpr ⟨y, List.mem_filter.mpr ⟨hy, ?_⟩, hyk⟩
    rw [hyk']; exact hne
  have h2' := good_yield hi1 x.callee hx x.req x.opts x.args x.kw x.progress canRetry
  have h2 : Good ({ r1 with inbox := r.inbox.filter (fun d => d.1 != x.callee) } : Realm)
      ({ r2 with inbox := r.inbox.filter (fun d => d.1 != x.callee) } : Realm) := by
    have e := applyD_inbox_comm r1 o (r.inbox.filter (fun d => d.1 != x.callee))
    rw [← e]; exact h2'
  obtain ⟨c2, q2, i2⟩ := applyD_cri r1 o
  have c2' : r2.clients = r.clients := c2
  have q2' : r2.retries = r.retries.filter (fun y => y.callee != x.callee) := q2
  have i2' : r2.inbox = r.inbox := i2
  have hp : r2.panic = r.panic := h2.2.1
  split
  · refine ⟨?_, hp⟩
    refine h2.1.of_parts rfl h2.1.binv h2.1.dinv h2.1.bmem h2.1.dref h2.1.callers ?_ h2.1.tasks ?_ rfl
    · intro y hy
      rcases List.mem_append.mp hy with hy | hy
      · exact h2.1.retr y hy
      · rw [List.mem_singleton.mp hy]
        exact (h2.att x.callee).mpr hx
    · -- every sender in `inbox` is busy again: the callee through the new entry, the others as before
      intro e he
      have he' : e ∈ r.inbox := i2' ▸ he
      obtain ⟨hcl, hb⟩ := hi.inb e he'
      refine ⟨c2' ▸ hcl, ?_⟩
      obtain ⟨y, hy, hyk⟩ := List.any_eq_true.mp hb
      have hyk' : y.callee = e.1 := by simpa using hyk
      by_cases hc : y.callee = x.callee
      · exact List.any_eq_true.mpr ⟨_, List.mem_append_right _ (List.mem_singleton.mpr rfl),
          by simpa using hc.symm.trans hyk'⟩
      · refine List.any_eq_true.mpr ⟨y, List.mem_append_left _ ?_, hyk⟩
        show y ∈ r2.retries
        rw [q2']
        exact List.mem_filter.mpr ⟨hy, by simpa using hc⟩
  · refine ⟨?_, hp⟩
    rw [i2']
    refine h2.1.of_parts rfl h2.1.binv h2.1.dinv h2.1.bmem h2.1.dref h2.1.callers h2.1.retr ?_ h2.1.inb rfl
    intro t ht
    rcases List.mem_append.mp ht with ht | ht
    · rcases List.mem_append.mp ht with ht | ht
      · exact h2.1.tasks t ht
      · obtain ⟨d, _, rfl⟩ := List.mem_map.mp ht; trivial
    · obtain ⟨d, _, rfl⟩ := List.mem_map.mp ht; trivial

theorem refs_timers (s : DState) (ts : List Timer) (k : SessKey) : ({ s with timers := ts } : DState).refs k ↔ s.refs k :=
  Iff.rfl

theorem timerDue_rinv {r : Realm} (hi : RealmInv r) (t : Timer) :
    RealmInv (r.timerDue t) ∧ (r.timerDue t).panic = r.panic := by
  unfold timerDue
  extract_lets ds1 r1
  have hi1 : RealmInv r1 :=
    hi.of_parts rfl hi.binv (hi.dinv.filterTimers _) hi.bmem hi.dref hi.callers hi.retr hi.tasks hi.inb rfl
  have := good_cancel hi1 t.caller t.req CancelModeKillNoWait ErrTimeout [.str "<text>"]
  exact ⟨this.1, this.2.1⟩

/-- the panic flag holds at most a fuel marker of the model (`drain` / `advance` ran out of fuel) -/
def FuelOnly (p : Option String) : Prop :=
  p = none ∨ p = some "model: task fuel exhausted" ∨ p = some "model: timed-event fuel exhausted"

theorem fuelOnly_setPanic {r : Realm} (h : FuelOnly r.panic) {m : String}
    (hm : m = "model: task fuel exhausted" ∨ m = "model: timed-event fuel exhausted") :
    FuelOnly (r.setPanic (some m)).panic := by
  cases hpn : r.panic with
  | none =>
    have : r.setPanic (some m) = { r with panic := some m } := by unfold setPanic; rw [hpn]
    rw [this]
    rcases hm with rfl | rfl
    · exact Or.inr (Or.inl rfl)
    · exact Or.inr (Or.inr rfl)
  | some x =>
    have : r.setPanic (some m) = r := by unfold setPanic; rw [hpn]
    rw [this]
    exact h

theorem RealmInv.setPanic {r : Realm} (hi : RealmInv r) (p : Option String) : RealmInv (r.setPanic p) := by
  unfold Realm.setPanic
  split
  · exact hi.of_parts rfl hi.binv hi.dinv hi.bmem hi.dref hi.callers hi.retr hi.tasks hi.inb rfl
  · exact hi

theorem drain_inv : ∀ (fuel : Nat) {r : Realm}, RealmInv r → FuelOnly r.panic →
    RealmInv (drain fuel r) ∧ FuelOnly (drain fuel r).panic
  | 0, r, hi, hp => by
    rw [drain_zero]
    split
    · exact ⟨hi, hp⟩
    · exact ⟨hi.setPanic _, fuelOnly_setPanic hp (Or.inl rfl)⟩
  | fuel + 1, r, hi, hp => by
    cases ht : r.tasks with
    | nil => rw [drain_succ_nil _ _ ht]; exact ⟨hi, hp⟩
    | cons t ts =>
      rw [drain_succ_cons _ _ t ts ht]
      have hi0 : RealmInv ({ r with tasks := ts } : Realm) :=
        hi.of_parts rfl hi.binv hi.dinv hi.bmem hi.dref hi.callers hi.retr
          (fun t' ht' => hi.tasks t' (by rw [ht]; exact List.mem_cons_of_mem _ ht')) hi.inb rfl
      have hto : TaskOk t := hi.tasks t (by rw [ht]; exact List.mem_cons_self ..)
      obtain ⟨h1, h2⟩ := runTask_inv hi0 t hto
      exact drain_inv fuel h1 (by rw [h2]; exact hp)

theorem advance_inv : ∀ (fuel : Nat) {r : Realm} (target : Nat), RealmInv r → FuelOnly r.panic →
    RealmInv (advance fuel r target) ∧ FuelOnly (advance fuel r target).panic
  | 0, r, target, hi, hp => by
    unfold advance
    have hi0 : RealmInv ({ r with now := target } : Realm) :=
      hi.of_parts rfl hi.binv hi.dinv hi.bmem hi.dref hi.callers hi.retr hi.tasks hi.inb rfl
    exact ⟨hi0.setPanic _, fuelOnly_setPanic (r := ({ r with now := target } : Realm)) hp (Or.inr rfl)⟩
  | fuel + 1, r, target, hi, hp => by
    unfold advance
    split
    · exact ⟨hi.of_parts rfl hi.binv hi.dinv hi.bmem hi.dref hi.callers hi.retr hi.tasks hi.inb rfl, hp⟩
    · rename_i d hd
      extract_lets r1 r2
      have hi1 : RealmInv r1 :=
        hi.of_parts rfl hi.binv hi.dinv hi.bmem hi.dref hi.callers hi.retr hi.tasks hi.inb rfl
      have h2 : RealmInv r2 ∧ r2.panic = r.panic := by
        cases d with
        | timer t => exact timerDue_rinv hi1 t
        | retry x => exact retryDue_rinv hi1 x (hi.retr x (nextDue_retry hd))
      obtain ⟨h3, h4⟩ := drain_inv taskFuel h2.1 (by rw [h2.2]; exact hp)
      exact advance_inv fuel target h3 h4

theorem flush_inv {r : Realm} (hi : RealmInv r) : RealmInv r.flush.2 ∧ r.flush.2.panic = r.panic ∧ r.flush.1.panic = r.panic := by
  unfold flush
  extract_lets reading out seenClosed keep keepEmpty
  exact ⟨hi.of_parts rfl hi.binv hi.dinv hi.bmem hi.dref hi.callers hi.retr hi.tasks hi.inb rfl, rfl, rfl⟩

/-- one external input, run to quiescence -/
theorem step_inv {r : Realm} (hi : RealmInv r) (hp : FuelOnly r.panic) (op : Op) :
    RealmInv (r.step op).2 ∧ FuelOnly (r.step op).2.panic ∧ FuelOnly (r.step op).1.panic := by
  by_cases ht : ∃ ms, op = .tick ms
  · obtain ⟨ms, rfl⟩ := ht
    rw [step_tick]
    obtain ⟨h1, h2⟩ := advance_inv 10000 (r.now + ms) hi hp
    obtain ⟨f1, f2, f3⟩ := flush_inv h1
    exact ⟨f1, f2 ▸ h2, f3 ▸ h2⟩
  · rw [step_of_not_tick r op (fun ms e => ht ⟨ms, e⟩)]
    obtain ⟨s1, s2⟩ := stepOp_inv hi op
    obtain ⟨h1, h2⟩ := drain_inv taskFuel s1 (by rw [s2]; exact hp)
    obtain ⟨f1, f2, f3⟩ := flush_inv h1
    exact ⟨f1, f2 ▸ h2, f3 ▸ h2⟩

/-! ### the initial realm -/

theorem preInit_mem : ∀ (cfg : List (String × String × Nat)) (b : Broker), (∀ k, ¬ b.mem k) →
    ∀ k, ¬ (b.preInit cfg).mem k
  | [], _, h => h
  | (topic, m, limit) :: rest, b, h => by
    unfold Broker.preInit
    split
    · exact preInit_mem rest _ (fun k hk => h k hk)
    · refine preInit_mem rest _ ?_
      rintro k ⟨s, hs, hk⟩
      rcases List.mem_append.mp hs with hs | hs
      · exact h k ⟨s, hs, hk⟩
      · rw [List.mem_singleton.mp hs] at hk
        cases hk

theorem registerMeta_fields : ∀ (ps : List String) (r : Realm),
    (registerMeta r ps).broker = r.broker ∧ (registerMeta r ps).clients = r.clients ∧
    (registerMeta r ps).retries = r.retries ∧ (registerMeta r ps).tasks = r.tasks ∧
    (registerMeta r ps).metaS = r.metaS ∧ (registerMeta r ps).panic = r.panic ∧
    (registerMeta r ps).queues = r.queues ∧ (registerMeta r ps).testaments = r.testaments ∧
    (registerMeta r ps).ending = r.ending ∧ (registerMeta r ps).closedPeers = r.closedPeers ∧
    (registerMeta r ps).ghosts = r.ghosts ∧ (registerMeta r ps).cfg = r.cfg
  | [], _ => ⟨rfl, rfl, rfl, rfl, rfl, rfl, rfl, rfl, rfl, rfl, rfl, rfl⟩
  | p :: ps, r => by
    unfold registerMeta
    extract_lets o id
    exact registerMeta_fields ps _

theorem registerMeta_inbox : ∀ (ps : List String) (r : Realm), (registerMeta r ps).inbox = r.inbox
  | [], _ => rfl
  | p :: ps, r => by
    unfold registerMeta
    extract_lets o id
    exact registerMeta_inbox ps _

theorem registerMeta_refs : ∀ (ps : List String) (r : Realm), DealerInv r.ds →
    (∀ k, r.ds.refs k → k = metaKey) → r.ds.d.calls = [] →
    (∀ k, (registerMeta r ps).ds.refs k → k = metaKey) ∧ (registerMeta r ps).ds.d.calls = []
  | [], _, _, h1, h2 => ⟨h1, h2⟩
  | p :: ps, r, hd, h1, h2 => by
    unfold registerMeta
    extract_lets o id
    refine registerMeta_refs ps _ (syncRegister_inv hd _ _ _ _ _ _ _ _ (by decide)) ?_ ?_
    · intro k hk
      exact (syncRegister_refs_sub hd _ _ _ _ _ _ _ _ k hk).elim (h1 k) (fun e => e)
    · show o.st.d.calls = []
      rw [syncRegister_calls]; exact h2

theorem create_rinv {cfg : Config} {r : Realm} (h : Realm.create cfg = some r) :
    RealmInv r ∧ r.panic = none ∧ r.clients = [] ∧ r.queues = [] ∧ r.testaments = [] ∧ r.tasks = [] ∧
    r.retries = [] ∧ r.cfg = cfg := by
  have hdi := Realm.create_inv h
  unfold Realm.create at h
  split at h
  · cases h
  · split at h
    · cases h
    · extract_lets b d at h
      cases h
      obtain ⟨f1, f2, f3, f4, f5, f6, f7, f8, _, _, _, f12⟩ :=
        registerMeta_fields (metaProcNames cfg) { cfg := cfg, broker := b, ds := { d := d } }
      have hrefs := registerMeta_refs (metaProcNames cfg) { cfg := cfg, broker := b, ds := { d := d } }
        (DealerInv.init _ _)
        (by
          rintro k (⟨id, r0, hr0, _⟩ | ⟨c, hc, _⟩ | ⟨v, hv, _⟩ | ⟨e, he, _⟩)
          · cases hr0
          · cases hc
          · cases hv
          · cases he) rfl
      refine ⟨⟨?_, hdi, ?_, ?_, ?_, ?_, ?_, ?_, ?_⟩, f6, f2, f7, f8, f4, f3, f12⟩
      · rw [f1]; exact BrokerInv.preInit _ _ _
      · intro k hk
        rw [f1] at hk
        exact absurd hk (preInit_mem cfg.history _ (by rintro k ⟨s, hs, _⟩; cases hs) k)
      · intro k hk
        exact Or.inl (hrefs.1 k hk)
      · intro c hc
        rw [hrefs.2] at hc; cases hc
      · rw [f3]; intro x hx; cases hx
      · rw [f4]; intro x hx; cases hx
      · intro e he
        rw [registerMeta_inbox] at he
        cases he
      · rw [f5]

/-- realm states reachable from `Realm.create cfg` by external inputs, each run to quiescence -/
inductive Reachable (cfg : Config) : Realm → Prop
  | init {r : Realm} : Realm.create cfg = some r → Reachable cfg r
  | step {r : Realm} (op : Op) : Reachable cfg r → Reachable cfg (r.step op).2

theorem Reachable.inv {cfg : Config} {r : Realm} (h : Reachable cfg r) : RealmInv r ∧ FuelOnly r.panic := by
  induction h with
  | init h => exact ⟨(create_rinv h).1, Or.inl (create_rinv h).2.1⟩
  | step op _ ih => exact ⟨(step_inv ih.1 ih.2 op).1, (step_inv ih.1 ih.2 op).2.1⟩

end Realm
end Nexus.L2
