/-
  Which meta events a state change produces (helper lemmas for C18_events): the exact send lists
  of SUBSCRIBE / UNSUBSCRIBE and the exact `metaPubs` of REGISTER / UNREGISTER, case by case.
-/
import Nexus.L2.Proofs.RealmMeta
import Nexus.L2.Proofs.RealmRefsBroker

namespace Nexus.L2
open Gen.N

/-! ### SUBSCRIBE -/

/-- the subscription a creating SUBSCRIBE adds -/
def newSub (b : Broker) (k : SessKey) (topic m : String) : Sub :=
  { id := b.nextSub + 1, topic := topic, «match» := m, members := [k] }

/-- the broker after a creating SUBSCRIBE -/
def afterCreate (b : Broker) (k : SessKey) (topic m : String) : Broker :=
  { b with subs := b.subs ++ [newSub b k topic m], nextSub := b.nextSub + 1, index := idxAdd b.index k (b.nextSub + 1) }

/-- SUBSCRIBE to a (topic, match kind) nobody is subscribed to: SUBSCRIBED, then `on_create`
    (one EVENT per observer), then `on_subscribe` (one EVENT per observer); two publication ids. -/
theorem syncSubscribe_create {b : Broker} {k : SessKey} {req : Nat} {topic m : String} {p : Nat}
    (hf : b.findTopic topic (matchKind m) = none) :
    b.syncSubscribe k req topic m p =
      (afterCreate b k topic m,
       [⟨k, .subscribed req (b.nextSub + 1)⟩] ++
         (afterCreate b k topic m).metaEvent MetaEventSubOnCreate (pubBase + p) k [sidVal k, subDetailsDict (newSub b k topic m)] ++
         (afterCreate b k topic m).metaEvent MetaEventSubOnSubscribe (pubBase + p + 1) k [sidVal k, .int (b.nextSub + 1)], 2) := by
  unfold Broker.syncSubscribe
  rw [hf]
  rfl

/-- the broker after joining an existing subscription -/
def afterJoin (b : Broker) (k : SessKey) (sub : Sub) : Broker :=
  { b.setSub { sub with members := sub.members ++ [k] } with
      index := idxAdd (b.setSub { sub with members := sub.members ++ [k] }).index k sub.id }

/-- SUBSCRIBE to an existing subscription by a non-member: SUBSCRIBED, then `on_subscribe` only. -/
theorem syncSubscribe_join_sends {b : Broker} {k : SessKey} {req : Nat} {topic m : String} {p : Nat} {sub : Sub}
    (hf : b.findTopic topic (matchKind m) = some sub) (hk : k ∉ sub.members) :
    b.syncSubscribe k req topic m p =
      (afterJoin b k sub,
       [⟨k, .subscribed req sub.id⟩] ++
         (afterJoin b k sub).metaEvent MetaEventSubOnSubscribe (pubBase + p) k [sidVal k, .int sub.id], 1) := by
  unfold Broker.syncSubscribe
  rw [hf]
  have : sub.members.contains k = false := by simpa using hk
  simp only [this, Bool.false_eq_true, if_false]
  rfl

/-- SUBSCRIBE by a session that is already a member: SUBSCRIBED with the same id, no meta event,
    no state change. -/
theorem syncSubscribe_again {b : Broker} {k : SessKey} {req : Nat} {topic m : String} {p : Nat} {sub : Sub}
    (hf : b.findTopic topic (matchKind m) = some sub) (hk : k ∈ sub.members) :
    b.syncSubscribe k req topic m p = (b, [⟨k, .subscribed req sub.id⟩], 0) := by
  unfold Broker.syncSubscribe
  rw [hf]
  have : sub.members.contains k = true := by simpa using hk
  simp only [this, if_true]

/-! ### UNSUBSCRIBE -/

/-- an effective UNSUBSCRIBE: UNSUBSCRIBED, `on_unsubscribe`, and `on_delete` iff the subscription
    was emptied and has no history store -/
theorem syncUnsubscribe_sends {b : Broker} {k : SessKey} {req subId p : Nat} {sub : Sub}
    (hf : b.findId subId = some sub) (hk : k ∈ sub.members) :
    let b' := (b.syncUnsubscribe k req subId p).1
    let del := (sub.members.filter (· != k)).isEmpty && !b.hasHist sub.id
    (b.syncUnsubscribe k req subId p).2.1 =
      [⟨k, .unsubscribed req⟩] ++ b'.metaEvent MetaEventSubOnUnsubscribe (pubBase + p) k [sidVal k, .int subId] ++
        (if del then b'.metaEvent MetaEventSubOnDelete (pubBase + p + 1) k [sidVal k, .int subId] else []) ∧
    (b.syncUnsubscribe k req subId p).2.2 = if del then 2 else 1 := by
  intro b' del
  have hb' : b' = (b.syncUnsubscribe k req subId p).1 := rfl
  unfold Broker.syncUnsubscribe at hb' ⊢
  rw [hf] at hb' ⊢
  have hc : (!sub.members.contains k) = false := by simpa using hk
  simp only [hc, Bool.false_eq_true, if_false] at hb' ⊢
  by_cases hd : del = true
  · have hd' : ((sub.members.filter (· != k)).isEmpty && !b.hasHist sub.id) = true := hd
    simp only [hd', if_true] at hb' ⊢
    rw [hd, hb']
    simp
  · have hd' : ¬ ((sub.members.filter (· != k)).isEmpty && !b.hasHist sub.id) = true := hd
    simp only [hd'] at hb' ⊢
    have : del = false := by simpa using hd
    rw [this, hb']
    simp

/-! ### departure of a member (`syncRemoveSession`) -/

/-- session `k` leaves subscription `sub`: the subscription goes with it iff `k` was its last
    member and it has no history store -/
def departDeletes (b : Broker) (k : SessKey) (sub : Sub) : Bool :=
  (sub.members.filter (· != k)).isEmpty && !b.hasHist sub.id

/-- the broker after session `k` has been taken out of subscription `sub` -/
def afterDepart (b : Broker) (k : SessKey) (sub : Sub) : Broker :=
  if departDeletes b k sub then b.delSub sub.id
  else b.setSub { sub with members := sub.members.filter (· != k) }

/-- what the departure of `k` from `sub` announces: `on_unsubscribe` (publication id `pubBase + p`),
    then — iff the subscription is deleted — `on_delete` (`pubBase + p + 1`); nothing else -/
def departEvents (b : Broker) (k : SessKey) (sub : Sub) (p : Nat) : List Send :=
  (afterDepart b k sub).metaEvent MetaEventSubOnUnsubscribe (pubBase + p) k [sidVal k, .int sub.id] ++
    (if departDeletes b k sub
     then (afterDepart b k sub).metaEvent MetaEventSubOnDelete (pubBase + p + 1) k [sidVal k, .int sub.id] else [])

/-- the number of publication ids it draws -/
def departCount (b : Broker) (k : SessKey) (sub : Sub) : Nat := if departDeletes b k sub then 2 else 1

/-- one iteration of `syncRemoveSession` for an existing subscription: `on_unsubscribe`, then
    `on_delete` iff the subscription was deleted with its last member -/
theorem removeMember_sends {b : Broker} {k : SessKey} {subId p : Nat} {sub : Sub} (hf : b.findId subId = some sub) :
    b.removeMember k subId p = (afterDepart b k sub, departEvents b k sub p, departCount b k sub) := by
  have hid : sub.id = subId := (findId_some hf).2
  unfold Broker.removeMember departEvents departCount afterDepart departDeletes
  rw [hf]
  simp only
  subst hid
  by_cases hd : ((sub.members.filter (· != k)).isEmpty && !b.hasHist sub.id) = true
  · simp only [hd, if_true]
  · simp only [hd, Bool.false_eq_true, if_false, List.append_nil]

/-- … for an id that names no subscription: nothing -/
theorem removeMember_unknown {b : Broker} {k : SessKey} {subId p : Nat} (hf : b.findId subId = none) :
    b.removeMember k subId p = (b, [], 0) := by
  unfold Broker.removeMember
  rw [hf]

theorem removeMembers_cons (b : Broker) (k : SessKey) (p id : Nat) (ids : List Nat) :
    b.removeMembers k p (id :: ids) =
      (((b.removeMember k id p).1.removeMembers k (p + (b.removeMember k id p).2.2) ids).1,
       (b.removeMember k id p).2.1 ++ ((b.removeMember k id p).1.removeMembers k (p + (b.removeMember k id p).2.2) ids).2.1,
       (b.removeMember k id p).2.2 + ((b.removeMember k id p).1.removeMembers k (p + (b.removeMember k id p).2.2) ids).2.2) := rfl

/-- `Departure k b p ids b' sends n`: starting from broker `b` with `p` publication ids drawn, session `k`
    is taken out of the subscriptions `ids` one after the other; `sends` is, subscription by
    subscription in that order, `on_unsubscribe` followed by `on_delete` iff the subscription was
    deleted (each computed in the broker state reached so far, with consecutive publication ids) —
    and nothing else; `b'` is the final broker, `n` the number of publication ids drawn. -/
inductive Departure (k : SessKey) : Broker → Nat → List Nat → Broker → List Send → Nat → Prop
  | done (b : Broker) (p : Nat) : Departure k b p [] b [] 0
  | member {b : Broker} {p id : Nat} {ids : List Nat} {sub : Sub} {b' : Broker} {ss : List Send} {n : Nat} :
      b.findId id = some sub →
      Departure k (afterDepart b k sub) (p + departCount b k sub) ids b' ss n →
      Departure k b p (id :: ids) b' (departEvents b k sub p ++ ss) (departCount b k sub + n)

theorem findId_delSub_ne (b : Broker) {id id' : Nat} (h : id' ≠ id) : (b.delSub id).findId id' = b.findId id' := by
  unfold Broker.delSub Broker.findId
  simp only
  induction b.subs with
  | nil => rfl
  | cons x xs ih =>
    by_cases hx : x.id = id
    · have h1 : (x.id != id) = false := by simp [hx]
      have h2 : (x.id == id') = false := by simpa [hx] using fun e : id = id' => h e.symm
      simp only [List.filter_cons, List.find?_cons, h1, h2, Bool.false_eq_true, if_false, ih]
    · have h1 : (x.id != id) = true := by simpa using hx
      simp only [List.filter_cons, List.find?_cons, h1, if_true, ih]

theorem findId_setSub_ne (b : Broker) (s : Sub) {id' : Nat} (h : id' ≠ s.id) : (b.setSub s).findId id' = b.findId id' := by
  unfold Broker.setSub Broker.findId
  simp only
  induction b.subs with
  | nil => rfl
  | cons x xs ih =>
    by_cases hx : x.id = s.id
    · have h0 : (x.id == s.id) = true := by simpa using hx
      have h1 : (s.id == id') = false := by simpa using fun e : s.id = id' => h e.symm
      have h2 : (x.id == id') = false := by simpa [hx] using fun e : s.id = id' => h e.symm
      simp only [List.map_cons, List.find?_cons, h0, h1, h2, if_true, ih]
    · have h0 : (x.id == s.id) = false := by simpa using hx
      simp only [List.map_cons, List.find?_cons, h0, Bool.false_eq_true, if_false, ih]

theorem findId_afterDepart_ne (b : Broker) (k : SessKey) (sub : Sub) {id' : Nat} (h : id' ≠ sub.id) :
    (afterDepart b k sub).findId id' = b.findId id' := by
  unfold afterDepart
  split
  · exact findId_delSub_ne b h
  · exact findId_setSub_ne b _ h

/-- the loop of `syncRemoveSession` over distinct ids of existing subscriptions -/
theorem removeMembers_departure (k : SessKey) : ∀ (ids : List Nat) (b : Broker) (p : Nat), ids.Nodup →
    (∀ id ∈ ids, (b.findId id).isSome = true) →
    Departure k b p ids (b.removeMembers k p ids).1 (b.removeMembers k p ids).2.1 (b.removeMembers k p ids).2.2
  | [], b, p, _, _ => Departure.done b p
  | id :: ids, b, p, hn, hall => by
    obtain ⟨sub, hf⟩ := Option.isSome_iff_exists.mp (hall id (List.mem_cons_self ..))
    have hid : sub.id = id := (findId_some hf).2
    rw [removeMembers_cons, removeMember_sends hf]
    refine Departure.member hf (removeMembers_departure k ids _ _ (List.nodup_cons.mp hn).2 ?_)
    intro id' hid'
    have hne : id' ≠ sub.id := by
      rw [hid]; rintro rfl; exact (List.nodup_cons.mp hn).1 hid'
    rw [findId_afterDepart_ne b k sub hne]
    exact hall id' (List.mem_cons_of_mem _ hid')

/-- a session that is subscribed to nothing: its departure changes nothing in the broker and
    announces nothing -/
theorem syncRemoveSession_none {b : Broker} {k : SessKey} (p : Nat) (hg : idxGet b.index k = none) :
    b.syncRemoveSession k p = (b, [], 0) := by
  unfold Broker.syncRemoveSession
  rw [hg]

/-- THE DEPARTURE OF A SESSION, as the broker announces it: the ids the loop runs over are exactly
    the subscriptions `k` is a member of, each once; for each of them, in index order,
    `on_unsubscribe` followed by `on_delete` iff the subscription was deleted — nothing else. -/
theorem syncRemoveSession_departure {b : Broker} (hb : BrokerInv b) {k : SessKey} (p : Nat) {ids : List Nat}
    (hg : idxGet b.index k = some ids) :
    ids.Nodup ∧ (∀ id, id ∈ ids ↔ b.isMember k id) ∧
    Departure k { b with index := idxDrop b.index k } p ids
      (b.syncRemoveSession k p).1 (b.syncRemoveSession k p).2.1 (b.syncRemoveSession k p).2.2 := by
  have hids : ids.Nodup := hb.index_wf.ids _ (idxGet_some_mem hg)
  have hmem : ∀ id, id ∈ ids ↔ b.isMember k id := by
    intro id
    rw [← hb.index_iff]; unfold idxRel; rw [hg]; simp
  refine ⟨hids, hmem, ?_⟩
  have : b.syncRemoveSession k p = Broker.removeMembers { b with index := idxDrop b.index k } k p ids := by
    unfold Broker.syncRemoveSession; rw [hg]
  rw [this]
  refine removeMembers_departure k ids _ p hids ?_
  intro id hid
  obtain ⟨s, hs, hsid, _⟩ := (hmem id).mp hid
  show (b.subs.find? (fun s => s.id == id)).isSome = true
  rw [List.find?_isSome]
  exact ⟨s, hs, by simpa using hsid⟩

/-! ### REGISTER / UNREGISTER -/

theorem syncRegister_create {s : DState} {callee : SessKey} {req : Nat} {proc m invoke : String}
    {disclose fwd wampURI : Bool} (hf : s.d.findProc proc (matchKind m) = none) :
    (syncRegister s callee req proc m invoke disclose fwd wampURI).sends = [⟨callee, .registered req (s.d.nextReg + 1)⟩] ∧
    (syncRegister s callee req proc m invoke disclose fwd wampURI).metaPubs =
      if wampURI then [] else
        [ { topic := MetaEventRegOnCreate, args := [sidVal callee, regDetailsDict (s.d.nextReg + 1) proc m invoke] },
          { topic := MetaEventRegOnRegister, args := [sidVal callee, .int (s.d.nextReg + 1)] } ] := by
  unfold syncRegister
  simp only [hf]
  constructor <;> first | rfl | trivial

/-- REGISTER for an existing registration is refused (policy single, different policy, or already
    a callee): one ERROR procedure_already_exists, no meta event, state unchanged -/
theorem syncRegister_refused {s : DState} {callee : SessKey} {req : Nat} {proc m invoke : String}
    {disclose fwd wampURI : Bool} {reg : Reg} (hf : s.d.findProc proc (matchKind m) = some reg)
    (hr : reg.policy = "" ∨ reg.policy = InvokeSingle ∨ reg.policy ≠ invoke ∨ callee ∈ reg.callees) :
    syncRegister s callee req proc m invoke disclose fwd wampURI =
      { st := s, sends := [⟨callee, errMsg tREGISTER req ErrProcedureAlreadyExists⟩] } := by
  unfold syncRegister
  simp only [hf]
  by_cases h1 : (reg.policy == "" || reg.policy == InvokeSingle) = true
  · rw [if_pos h1]
  · rw [if_neg h1]
    by_cases h2 : (reg.policy != invoke) = true
    · rw [if_pos h2]
    · rw [if_neg h2]
      by_cases h3 : reg.callees.contains callee = true
      · rw [if_pos h3]
      · exfalso
        rcases hr with h | h | h | h
        · exact h1 (by simp [h])
        · exact h1 (by simp [h])
        · exact h2 (by simpa using h)
        · exact h3 (by simpa using h)

/-- REGISTER joining a shared registration: REGISTERED with the existing id, `on_register` only -/
theorem syncRegister_shared {s : DState} {callee : SessKey} {req : Nat} {proc m invoke : String}
    {disclose fwd wampURI : Bool} {reg : Reg} (hf : s.d.findProc proc (matchKind m) = some reg)
    (h1 : reg.policy ≠ "") (h2 : reg.policy ≠ InvokeSingle) (h3 : reg.policy = invoke) (h4 : callee ∉ reg.callees) :
    (syncRegister s callee req proc m invoke disclose fwd wampURI).sends = [⟨callee, .registered req reg.id⟩] ∧
    (syncRegister s callee req proc m invoke disclose fwd wampURI).metaPubs =
      if wampURI then [] else [ { topic := MetaEventRegOnRegister, args := [sidVal callee, .int reg.id] } ] := by
  unfold syncRegister
  simp only [hf]
  have e1 : (reg.policy == "" || reg.policy == InvokeSingle) = false := by simp [h1, h2]
  have e2 : (reg.policy != invoke) = false := by simp [h3]
  have e3 : reg.callees.contains callee = false := by simpa using h4
  simp only [e1, e2, e3, Bool.false_eq_true, if_false]
  constructor <;> first | rfl | trivial

/-- UNREGISTER: either refused (ERROR no_such_registration, no meta event), or UNREGISTERED with
    `on_unregister` followed by `on_delete` iff the registration was deleted -/
theorem syncUnregister_events (s : DState) (callee : SessKey) (req regId : Nat) :
    ((syncUnregister s callee req regId).sends = [⟨callee, errMsg tUNREGISTER req ErrNoSuchRegistration⟩] ∧
     (syncUnregister s callee req regId).metaPubs = []) ∨
    ((syncUnregister s callee req regId).sends = [⟨callee, .unregistered req⟩] ∧
     ∃ deleted : Bool,
      (syncUnregister s callee req regId).metaPubs =
        [ { topic := MetaEventRegOnUnregister, args := [sidVal callee, .int regId] } ] ++
        (if deleted then [ { topic := MetaEventRegOnDelete, args := [sidVal callee, .int regId] } ] else []) ∧
      (deleted = true ↔ (syncUnregister s callee req regId).st.d.findReg regId = none ∨
        ∀ g ∈ (syncUnregister s callee req regId).st.d.regs, g.id ≠ regId)) := by
  unfold syncUnregister
  dsimp only
  split
  · left; exact ⟨rfl, rfl⟩
  · rename_i d' deleted hdel
    right
    refine ⟨rfl, deleted, rfl, ?_⟩
    dsimp only
    generalize ({ s.d with index := idxDel s.d.index callee regId } : Dealer) = d at hdel
    unfold Dealer.delCalleeReg at hdel
    split at hdel
    · cases hdel
    · rename_i reg hreg
      split at hdel
      · cases hdel
      · dsimp only at hdel
        split at hdel
        · cases hdel
          constructor
          · intro _
            right
            intro g hg
            have := (List.mem_filter.mp hg).2
            simpa using this
          · intro _; rfl
        · cases hdel
          constructor
          · intro h; cases h
          · rintro (h | h)
            · exfalso
              have hmem : reg ∈ d.regs := List.mem_of_find?_eq_some hreg
              have hid : reg.id = regId := by simpa using List.find?_some hreg
              have : (d.setReg { reg with callees := eraseFirst callee reg.callees }).findReg regId ≠ none := by
                unfold Dealer.findReg Dealer.setReg
                intro hn
                have := List.find?_eq_none.mp hn ({ reg with callees := eraseFirst callee reg.callees })
                  (List.mem_map.mpr ⟨reg, hmem, by simp⟩)
                simp [hid] at this
              exact this h
            · exfalso
              have hmem : reg ∈ d.regs := List.mem_of_find?_eq_some hreg
              have hid : reg.id = regId := by simpa using List.find?_some hreg
              exact h ({ reg with callees := eraseFirst callee reg.callees })
                (List.mem_map.mpr ⟨reg, hmem, by simp⟩) hid

end Nexus.L2
