/-
  Which meta events a state change produces (helper lemmas for C18_events): the exact send lists
  of SUBSCRIBE / UNSUBSCRIBE and the exact `metaPubs` of REGISTER / UNREGISTER, case by case.
-/
import Nexus.L2.Proofs.RealmMeta
import Nexus.L2.Proofs.RealmRefsBroker

namespace Nexus.L2
open Gen.N

/-! ### SUBSCRIBE -/

/-- the subscription a creating SUBSCRIBE adds -/
def newSub (b : Broker) (k : SessKey) (topic m : String) : Sub :=
  { id := b.nextSub + 1, topic := topic, «match» := m, members := [k] }

/-- the broker after a creating SUBSCRIBE -/
def afterCreate (b : Broker) (k : SessKey) (topic m : String) : Broker :=
  { b with subs := b.subs ++ [newSub b k topic m], nextSub := b.nextSub + 1, index := idxAdd b.index k (b.nextSub + 1) }

/-- SUBSCRIBE to a (topic, match kind) nobody is subscribed to: SUBSCRIBED, then `on_create`
    (one EVENT per observer), then `on_subscribe` (one EVENT per observer); two publication ids. -/
theorem syncSubscribe_create {b : Broker} {k : SessKey} {req : Nat} {topic m : String} {p : Nat}
    (hf : b.findTopic topic (matchKind m) = none) :
    b.syncSubscribe k req topic m p =
      (afterCreate b k topic m,
       [⟨k, .subscribed req (b.nextSub + 1)⟩] ++
         (afterCreate b k topic m).metaEvent MetaEventSubOnCreate (pubBase + p) k [sidVal k, subDetailsDict (newSub b k topic m)] ++
         (afterCreate b k topic m).metaEvent MetaEventSubOnSubscribe (pubBase + p + 1) k [sidVal k, .int (b.nextSub + 1)], 2) := by
  unfold Broker.syncSubscribe
  rw [hf]
  rfl

/-- the broker after joining an existing subscription -/
def afterJoin (b : Broker) (k : SessKey) (sub : Sub) : Broker :=
  { b.setSub { sub with members := sub.members ++ [k] } with
      index := idxAdd (b.setSub { sub with members := sub.members ++ [k] }).index k sub.id }

/-- SUBSCRIBE to an existing subscription by a non-member: SUBSCRIBED, then `on_subscribe` only. -/
theorem syncSubscribe_join {b : Broker} {k : SessKey} {req : Nat} {topic m : String} {p : Nat} {sub : Sub}
    (hf : b.findTopic topic (matchKind m) = some sub) (hk : k ∉ sub.members) :
    b.syncSubscribe k req topic m p =
      (afterJoin b k sub,
       [⟨k, .subscribed req sub.id⟩] ++
         (afterJoin b k sub).metaEvent MetaEventSubOnSubscribe (pubBase + p) k [sidVal k, .int sub.id], 1) := by
  unfold Broker.syncSubscribe
  rw [hf]
  have : sub.members.contains k = false := by simpa using hk
  simp only [this, Bool.false_eq_true, if_false]
  rfl

/-- SUBSCRIBE by a session that is already a member: SUBSCRIBED with the same id, no meta event,
    no state change. -/
theorem syncSubscribe_again {b : Broker} {k : SessKey} {req : Nat} {topic m : String} {p : Nat} {sub : Sub}
    (hf : b.findTopic topic (matchKind m) = some sub) (hk : k ∈ sub.members) :
    b.syncSubscribe k req topic m p = (b, [⟨k, .subscribed req sub.id⟩], 0) := by
  unfold Broker.syncSubscribe
  rw [hf]
  have : sub.members.contains k = true := by simpa using hk
  simp only [this, if_true]

/-! ### UNSUBSCRIBE -/

/-- an effective UNSUBSCRIBE: UNSUBSCRIBED, `on_unsubscribe`, and `on_delete` iff the subscription
    was emptied and has no history store -/
theorem syncUnsubscribe_sends {b : Broker} {k : SessKey} {req subId p : Nat} {sub : Sub}
    (hf : b.findId subId = some sub) (hk : k ∈ sub.members) :
    let b' := (b.syncUnsubscribe k req subId p).1
    let del := (sub.members.filter (· != k)).isEmpty && !b.hasHist sub.id
    (b.syncUnsubscribe k req subId p).2.1 =
      [⟨k, .unsubscribed req⟩] ++ b'.metaEvent MetaEventSubOnUnsubscribe (pubBase + p) k [sidVal k, .int subId] ++
        (if del then b'.metaEvent MetaEventSubOnDelete (pubBase + p + 1) k [sidVal k, .int subId] else []) ∧
    (b.syncUnsubscribe k req subId p).2.2 = if del then 2 else 1 := by
  intro b' del
  have hb' : b' = (b.syncUnsubscribe k req subId p).1 := rfl
  unfold Broker.syncUnsubscribe at hb' ⊢
  rw [hf] at hb' ⊢
  have hc : (!sub.members.contains k) = false := by simpa using hk
  simp only [hc, Bool.false_eq_true, if_false] at hb' ⊢
  by_cases hd : del = true
  · have hd' : ((sub.members.filter (· != k)).isEmpty && !b.hasHist sub.id) = true := hd
    simp only [hd', if_true] at hb' ⊢
    rw [hd, hb']
    simp
  · have hd' : ¬ ((sub.members.filter (· != k)).isEmpty && !b.hasHist sub.id) = true := hd
    simp only [hd'] at hb' ⊢
    have : del = false := by simpa using hd
    rw [this, hb']
    simp

/-! ### REGISTER / UNREGISTER -/

theorem syncRegister_create {s : DState} {callee : SessKey} {req : Nat} {proc m invoke : String}
    {disclose fwd wampURI : Bool} (hf : s.d.findProc proc (matchKind m) = none) :
    (syncRegister s callee req proc m invoke disclose fwd wampURI).sends = [⟨callee, .registered req (s.d.nextReg + 1)⟩] ∧
    (syncRegister s callee req proc m invoke disclose fwd wampURI).metaPubs =
      if wampURI then [] else
        [ { topic := MetaEventRegOnCreate, args := [sidVal callee, regDetailsDict (s.d.nextReg + 1) proc m invoke] },
          { topic := MetaEventRegOnRegister, args := [sidVal callee, .int (s.d.nextReg + 1)] } ] := by
  unfold syncRegister
  simp only [hf]
  constructor <;> first | rfl | trivial

/-- REGISTER for an existing registration is refused (policy single, different policy, or already
    a callee): one ERROR procedure_already_exists, no meta event, state unchanged -/
theorem syncRegister_refused {s : DState} {callee : SessKey} {req : Nat} {proc m invoke : String}
    {disclose fwd wampURI : Bool} {reg : Reg} (hf : s.d.findProc proc (matchKind m) = some reg)
    (hr : reg.policy = "" ∨ reg.policy = InvokeSingle ∨ reg.policy ≠ invoke ∨ callee ∈ reg.callees) :
    syncRegister s callee req proc m invoke disclose fwd wampURI =
      { st := s, sends := [⟨callee, errMsg tREGISTER req ErrProcedureAlreadyExists⟩] } := by
  unfold syncRegister
  simp only [hf]
  by_cases h1 : (reg.policy == "" || reg.policy == InvokeSingle) = true
  · rw [if_pos h1]
  · rw [if_neg h1]
    by_cases h2 : (reg.policy != invoke) = true
    · rw [if_pos h2]
    · rw [if_neg h2]
      by_cases h3 : reg.callees.contains callee = true
      · rw [if_pos h3]
      · exfalso
        rcases hr with h | h | h | h
        · exact h1 (by simp [h])
        · exact h1 (by simp [h])
        · exact h2 (by simpa using h)
        · exact h3 (by simpa using h)

/-- REGISTER joining a shared registration: REGISTERED with the existing id, `on_register` only -/
theorem syncRegister_shared {s : DState} {callee : SessKey} {req : Nat} {proc m invoke : String}
    {disclose fwd wampURI : Bool} {reg : Reg} (hf : s.d.findProc proc (matchKind m) = some reg)
    (h1 : reg.policy ≠ "") (h2 : reg.policy ≠ InvokeSingle) (h3 : reg.policy = invoke) (h4 : callee ∉ reg.callees) :
    (syncRegister s callee req proc m invoke disclose fwd wampURI).sends = [⟨callee, .registered req reg.id⟩] ∧
    (syncRegister s callee req proc m invoke disclose fwd wampURI).metaPubs =
      if wampURI then [] else [ { topic := MetaEventRegOnRegister, args := [sidVal callee, .int reg.id] } ] := by
  unfold syncRegister
  simp only [hf]
  have e1 : (reg.policy == "" || reg.policy == InvokeSingle) = false := by simp [h1, h2]
  have e2 : (reg.policy != invoke) = false := by simp [h3]
  have e3 : reg.callees.contains callee = false := by simpa using h4
  simp only [e1, e2, e3, Bool.false_eq_true, if_false]
  constructor <;> first | rfl | trivial

/-- UNREGISTER: either refused (ERROR no_such_registration, no meta event), or UNREGISTERED with
    `on_unregister` followed by `on_delete` iff the registration was deleted -/
theorem syncUnregister_events (s : DState) (callee : SessKey) (req regId : Nat) :
    ((syncUnregister s callee req regId).sends = [⟨callee, errMsg tUNREGISTER req ErrNoSuchRegistration⟩] ∧
     (syncUnregister s callee req regId).metaPubs = []) ∨
    ((syncUnregister s callee req regId).sends = [⟨callee, .unregistered req⟩] ∧
     ∃ deleted : Bool,
      (syncUnregister s callee req regId).metaPubs =
        [ { topic := MetaEventRegOnUnregister, args := [sidVal callee, .int regId] } ] ++
        (if deleted then [ { topic := MetaEventRegOnDelete, args := [sidVal callee, .int regId] } ] else []) ∧
      (deleted = true ↔ (syncUnregister s callee req regId).st.d.findReg regId = none ∨
        ∀ g ∈ (syncUnregister s callee req regId).st.d.regs, g.id ≠ regId)) := by
  unfold syncUnregister
  dsimp only
  split
  · left; exact ⟨rfl, rfl⟩
  · rename_i d' deleted hdel
    right
    refine ⟨rfl, deleted, rfl, ?_⟩
    dsimp only
    generalize ({ s.d with index := idxDel s.d.index callee regId } : Dealer) = d at hdel
    unfold Dealer.delCalleeReg at hdel
    split at hdel
    · cases hdel
    · rename_i reg hreg
      split at hdel
      · cases hdel
      · dsimp only at hdel
        split at hdel
        · cases hdel
          constructor
          · intro _
            right
            intro g hg
            have := (List.mem_filter.mp hg).2
            simpa using this
          · intro _; rfl
        · cases hdel
          constructor
          · intro h; cases h
          · rintro (h | h)
            · exfalso
              have hmem : reg ∈ d.regs := List.mem_of_find?_eq_some hreg
              have hid : reg.id = regId := by simpa using List.find?_some hreg
              have : (d.setReg { reg with callees := eraseFirst callee reg.callees }).findReg regId ≠ none := by
                unfold Dealer.findReg Dealer.setReg
                intro hn
                have := List.find?_eq_none.mp hn ({ reg with callees := eraseFirst callee reg.callees })
                  (List.mem_map.mpr ⟨reg, hmem, by simp⟩)
                simp [hid] at this
              exact this h
            · exfalso
              have hmem : reg ∈ d.regs := List.mem_of_find?_eq_some hreg
              have hid : reg.id = regId := by simpa using List.find?_some hreg
              exact h ({ reg with callees := eraseFirst callee reg.callees })
                (List.mem_map.mpr ⟨reg, hmem, by simp⟩) hid

end Nexus.L2
