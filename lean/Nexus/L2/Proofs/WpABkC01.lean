/-
  Work package A (sub-worker bk): C01 theorems at broker / handler level.

  * `C01_id_never_reused`, `C01_id_stable`, `C01_id_stable_between`, `C01_id_not_reused_after_delete`:
    the history-level reading of "a stable per-(topic,policy) subscription id" (audit C01-a4): along
    ANY run of broker steps an id keeps denoting the same (topic, policy) while its subscription
    lives, and after the subscription is deleted the id is never given out again.
  * `C01_pubOf_base`, `C01_pubOf_fields`: the publication `Realm.pubOf` that `handlePublish` hands to
    the broker, field by field (audit C01-a5): no `topic` / publisher key among the base details,
    `exclude_me` defaulting to true, the publisher's arguments and options unchanged.
-/
import Nexus.L2.Proofs.BrokerHist
import Nexus.L2.Proofs.BrokerBase
import Nexus.L2.Proofs.RealmPublish

namespace Nexus.L2.WpA
open Nexus.L2 Gen.N
open Nexus.L2.Realm (pubOf optFlag_iff)

/-! ### subscription ids along a run -/

/-- the id generator never goes back -/
theorem bk_step_nextSub_mono {b : Broker} (hb : BrokerInv b) (e : BStep) : b.nextSub ≤ (b.step e).nextSub := by
  cases e with
  | publish sess now p =>
    have : (b.step (.publish sess now p)).nextSub = b.nextSub := (syncPublish_subs b sess now p).2.2
    omega
  | subscribe k req topic m pub0 =>
    simp only [Broker.step]
    unfold Broker.syncSubscribe
    cases hf : b.findTopic topic (matchKind m) with
    | none => simp
    | some sub =>
      simp only
      split
      · exact Nat.le_refl _
      · simp [Broker.setSub]
  | unsubscribe k req subId pub0 =>
    simp only [Broker.step]
    by_cases h : ∃ sub, b.findId subId = some sub ∧ k ∈ sub.members
    · obtain ⟨sub, hf, hk⟩ := h
      have := (syncUnsubscribe_state hb.ids_nodup k req subId pub0 hf hk).2.2.1
      omega
    · rw [syncUnsubscribe_err_state]
      · exact Nat.le_refl _
      · intro sub hf hk; exact h ⟨sub, hf, hk⟩
  | removeSession k pub0 =>
    simp only [Broker.step]
    obtain ⟨_, _, _, _, h⟩ := syncRemoveSession_state hb k pub0
    omega

theorem bk_run_cons (b : Broker) (e : BStep) (rest : List BStep) : b.run (e :: rest) = (b.step e).run rest := rfl

theorem bk_run_append (b : Broker) (l1 l2 : List BStep) : b.run (l1 ++ l2) = (b.run l1).run l2 := by
  unfold Broker.run; rw [List.foldl_append]

/-- `nextSub` never decreases along a run -/
theorem bk_run_nextSub_mono (steps : List BStep) : ∀ {b : Broker}, BrokerInv b → b.nextSub ≤ (b.run steps).nextSub := by
  induction steps with
  | nil => intro b _; exact Nat.le_refl _
  | cons e rest ih =>
    intro b hb
    rw [bk_run_cons]
    exact Nat.le_trans (bk_step_nextSub_mono hb e) (ih (hb.step e))

/-- Along ANY run of broker steps (publications, SUBSCRIBEs, UNSUBSCRIBEs, session removals, by
    anybody, in any order) every subscription of the final state either continues a subscription of
    the initial state — same id, same topic, same policy — or carries an id that the initial state's
    generator had not reached: an id is never given to a different (topic, policy). -/
theorem C01_id_never_reused {b : Broker} (hb : BrokerInv b) (steps : List BStep) :
    ∀ s' ∈ (b.run steps).subs,
      (∃ s ∈ b.subs, s'.id = s.id ∧ s'.topic = s.topic ∧ s'.«match» = s.«match») ∨ b.nextSub < s'.id := by
  induction steps generalizing b with
  | nil => intro s' hs'; exact Or.inl ⟨s', hs', rfl, rfl, rfl⟩
  | cons e rest ih =>
    intro s' hs'
    rw [bk_run_cons] at hs'
    rcases ih (hb.step e) s' hs' with ⟨s1, hs1, e1, e2, e3⟩ | hlt
    · rcases step_subs_origin hb e s1 hs1 with ⟨s, hs, f1, f2, f3⟩ | hlt
      · exact Or.inl ⟨s, hs, e1.trans f1, e2.trans f2, e3.trans f3⟩
      · exact Or.inr (by rw [e1]; exact hlt)
    · exact Or.inr (Nat.lt_of_le_of_lt (bk_step_nextSub_mono hb e) hlt)

/-- Companion: the generator never goes back, and a subscription of the initial state that still
    exists after the run (same id) has the same topic and the same policy. -/
theorem C01_id_stable {b : Broker} (hb : BrokerInv b) (steps : List BStep) :
    b.nextSub ≤ (b.run steps).nextSub ∧
    ∀ s ∈ b.subs, ∀ s' ∈ (b.run steps).subs, s'.id = s.id →
      s'.topic = s.topic ∧ s'.«match» = s.«match» := by
  refine ⟨bk_run_nextSub_mono steps hb, ?_⟩
  intro s hs s' hs' hid
  rcases C01_id_never_reused hb steps s' hs' with ⟨s0, hs0, e1, e2, e3⟩ | hlt
  · have : s0 = s := eq_of_id_eq hb.ids_nodup hs0 hs (e1.symm.trans hid)
    subst this
    exact ⟨e2, e3⟩
  · have := (hb.ids_pos s hs).2
    omega

/-- "An id, once given to a (topic, policy), never denotes another": between ANY two moments of a
    history (after `steps1`, and after `steps1 ++ steps2`) a subscription id present at both denotes
    the same topic and policy. -/
theorem C01_id_stable_between {b : Broker} (hb : BrokerInv b) (steps1 steps2 : List BStep) :
    ∀ s ∈ (b.run steps1).subs, ∀ s' ∈ (b.run (steps1 ++ steps2)).subs, s'.id = s.id →
      s'.topic = s.topic ∧ s'.«match» = s.«match» := by
  rw [bk_run_append]
  exact (C01_id_stable (hb.run steps1) steps2).2

/-- … and after its subscription has been deleted the id is never given out again: if id `i` denotes
    a subscription after `steps1` and none after `steps1 ++ steps2`, then no subscription has id `i`
    after `steps1 ++ steps2 ++ steps3`, whatever `steps3`. -/
theorem C01_id_not_reused_after_delete {b : Broker} (hb : BrokerInv b) (steps1 steps2 steps3 : List BStep)
    {s : Sub} (hs : s ∈ (b.run steps1).subs)
    (hgone : ∀ s2 ∈ (b.run (steps1 ++ steps2)).subs, s2.id ≠ s.id) :
    ∀ s3 ∈ (b.run (steps1 ++ steps2 ++ steps3)).subs, s3.id ≠ s.id := by
  intro s3 hs3 hid
  have hb1 := hb.run steps1
  have hb2 := hb.run (steps1 ++ steps2)
  rw [bk_run_append b (steps1 ++ steps2) steps3] at hs3
  rcases C01_id_never_reused hb2 steps3 s3 hs3 with ⟨s2, hs2, e1, _, _⟩ | hlt
  · exact hgone s2 hs2 (e1.symm.trans hid)
  · have h1 := (hb1.ids_pos s hs).2
    have h2 : (b.run steps1).nextSub ≤ (b.run (steps1 ++ steps2)).nextSub := by
      rw [bk_run_append]; exact bk_run_nextSub_mono steps2 hb1
    omega

/-! non-vacuity: the empty broker satisfies the invariant; a concrete history in which the
    subscription on "t" (id 1) is created, deleted by its only member's UNSUBSCRIBE, and a later
    SUBSCRIBE to the same topic gets the fresh id 2 -/
def exSteps1 : List BStep := [.subscribe 5 1 "t" "exact" 0]
def exSteps2 : List BStep := [.unsubscribe 5 2 1 2]
def exSteps3 : List BStep := [.subscribe 6 1 "t" "exact" 4]

example : BrokerInv ({} : Broker) := BrokerInv.empty false false

example : ((({} : Broker).run exSteps1).subs.map (fun s => (s.id, s.topic, s.members))) = [(1, "t", [5])] ∧
    (({} : Broker).run (exSteps1 ++ exSteps2)).subs.map (·.id) = [] ∧
    ((({} : Broker).run (exSteps1 ++ exSteps2 ++ exSteps3)).subs.map (fun s => (s.id, s.topic, s.members))) =
      [(2, "t", [6])] := by
  refine ⟨by decide, by decide, by decide⟩

/-- non-vacuity of the hypotheses of `C01_id_not_reused_after_delete` on that history: id 1 denotes a
    subscription after `exSteps1` and none after `exSteps1 ++ exSteps2` -/
example : ∃ s ∈ (({} : Broker).run exSteps1).subs, s.id = 1 ∧
    ∀ s2 ∈ (({} : Broker).run (exSteps1 ++ exSteps2)).subs, s2.id ≠ s.id := by
  have h1 : (({} : Broker).run exSteps1).subs.map (·.id) = [1] := by decide
  have h2 : (({} : Broker).run (exSteps1 ++ exSteps2)).subs.map (·.id) = [] := by decide
  have hm : 1 ∈ (({} : Broker).run exSteps1).subs.map (·.id) := by rw [h1]; simp
  obtain ⟨s, hs, hid⟩ := List.mem_map.mp hm
  refine ⟨s, hs, hid, ?_⟩
  intro s2 hs2
  have : s2.id ∈ (({} : Broker).run (exSteps1 ++ exSteps2)).subs.map (·.id) := List.mem_map.mpr ⟨s2, hs2, rfl⟩
  rw [h2] at this
  cases this

/-! ### the publication handed to the broker -/

/-- The publication `handlePublish` hands over carries neither `topic` nor a publisher key among its
    base (payload-passthru) details — the side condition of the C01 topic clause, of C12 and of C20 —
    and excludes the publisher unless `exclude_me` is the boolean `false`. -/
theorem C01_pubOf_base (r : Realm) (s : Session) (opts : Dict) (topic : String) (args : List WVal) (kw : Dict) :
    (∀ key, key = "topic" ∨ isPublisherKey key →
        (pubOf r s opts topic args kw).baseDetails.get? key = none) ∧
    ((pubOf r s opts topic args kw).excludePub = false ↔ opts.get? OptExcludeMe = some (.bool false)) := by
  constructor
  · intro key hk
    exact realm_base_ok opts (pptScheme opts != "") key hk
  · unfold pubOf
    simp only
    split
    · rename_i b h; rw [h]; cases b <;> simp
    · rename_i h
      constructor
      · intro hh; cases hh
      · intro hh; exact absurd hh (h false)

/-- the other fields of `pubOf`: the publisher is the sending session (key and details), the id is
    the next publication id, topic / arguments / keyword arguments / options are the PUBLISH
    message's, `disclose` iff `disclose_me` is the boolean `true`. -/
theorem C01_pubOf_fields (r : Realm) (s : Session) (opts : Dict) (topic : String) (args : List WVal) (kw : Dict) :
    (pubOf r s opts topic args kw).publisher = s.key ∧
    (pubOf r s opts topic args kw).pubDetails = s.details ∧
    (pubOf r s opts topic args kw).topic = topic ∧
    (pubOf r s opts topic args kw).pubId = pubBase + r.pubCount ∧
    (pubOf r s opts topic args kw).args = args ∧
    (pubOf r s opts topic args kw).kw = kw ∧
    (pubOf r s opts topic args kw).opts = opts ∧
    ((pubOf r s opts topic args kw).disclose = true ↔ opts.get? OptDiscloseMe = some (.bool true)) ∧
    ((pubOf r s opts topic args kw).excludePub = true ↔ opts.get? OptExcludeMe ≠ some (.bool false)) :=
  ⟨rfl, rfl, rfl, rfl, rfl, rfl, rfl, optFlag_iff opts OptDiscloseMe, by
    have h := (C01_pubOf_base r s opts topic args kw).2
    constructor
    · intro ht hf; rw [h.mpr hf] at ht; cases ht
    · intro hne
      cases hx : (pubOf r s opts topic args kw).excludePub with
      | false => exact absurd (h.mp hx) hne
      | true => rfl⟩

end Nexus.L2.WpA
