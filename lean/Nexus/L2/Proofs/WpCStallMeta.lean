/-
  C07 "stall isolation", part 5: the meta procedures read the attached sessions only up to `stalled`, and
  never look at a queue: same answer, and `EqOff x` is preserved.
-/
import Nexus.L2.Proofs.WpCStallBase

set_option linter.unusedSimpArgs false

namespace Nexus.L2.WpC
open Nexus.L2 Nexus.L2.Realm Gen.N

variable {x : SessKey}

theorem eqoff_sel_len {r r' : Realm} (h : EqOff x r r') (p : Session → Bool) (hp : ∀ c, p (unstall x c) = p c) :
    (r'.clients.filter p).length = (r.clients.filter p).length := by
  have := congrArg List.length (filter_of_map_eq h.clients p hp)
  simpa using this

theorem eqoff_sel_map {β : Type} {r r' : Realm} (h : EqOff x r r') (p : Session → Bool)
    (hp : ∀ c, p (unstall x c) = p c) (g : Session → β) (hg : ∀ c, g (unstall x c) = g c) :
    (r'.clients.filter p).map g = (r.clients.filter p).map g :=
  map_of_map_eq (filter_of_map_eq h.clients p hp) g hg

theorem eqoff_keyOfSid {r r' : Realm} (h : EqOff x r r') (sid : Nat) : OSEq x (r.keyOfSid sid) (r'.keyOfSid sid) :=
  find?_of_map_eq h.clients _ (fun c => by simp)

theorem eqoff_any_key {r r' : Realm} (h : EqOff x r r') (k : SessKey) :
    r'.clients.any (fun s => s.key == k) = r.clients.any (fun s => s.key == k) :=
  any_of_map_eq h.clients _ (fun c => by simp)

theorem cleanDetails_congr {r r' : Realm} (h : EqOff x r r') (d : Dict) : r'.cleanDetails d = r.cleanDetails d := by
  unfold Realm.cleanDetails; rw [h.cfg]

/-- the answer and the new state of a meta procedure, compared -/
def MPRel (x : SessKey) (p p' : Msg × Realm) : Prop := p'.1 = p.1 ∧ EqOff x p.2 p'.2

theorem MPRel.same {r r' : Realm} (h : EqOff x r r') (m : Msg) : MPRel x (m, r) (m, r') := ⟨rfl, h⟩

theorem eqoff_killWhere {r r' : Realm} (h : EqOff x r r') (sel : Session → Bool)
    (hsel : ∀ c, sel (unstall x c) = sel c) (g : Msg) (ka : Bool) :
    (r'.killWhere sel g ka).1 = (r.killWhere sel g ka).1 ∧
      EqOff x (r.killWhere sel g ka).2 (r'.killWhere sel g ka).2 := by
  unfold Realm.killWhere
  dsimp only
  rw [h.ending]
  have hp : ∀ c, (fun c : Session => sel c && !r.ending.contains c.key) (unstall x c) =
      (fun c : Session => sel c && !r.ending.contains c.key) c := by
    intro c; simp only [hsel, unstall_key]
  refine ⟨eqoff_sel_len h (fun c : Session => sel c && !r.ending.contains c.key) hp, ?_⟩
  have e1 := eqoff_sel_map h (fun c : Session => sel c && !r.ending.contains c.key) hp (fun c => Task.leave c.key (.killed g ka)) (fun c => by simp only [unstall_key])
  have e2 := eqoff_sel_map h (fun c : Session => sel c && !r.ending.contains c.key) hp (fun c : Session => c.key) (fun c => by simp only [unstall_key])
  refine EqOff.mk h.cfg h.broker h.ds h.clients ?_ h.testaments h.metaProcs h.metaS h.queues h.closedPeers ?_
    h.retries h.deferred h.inbox h.ghosts h.now h.pubCount h.rnd h.panic
  · dsimp only
    rw [e2]
  · dsimp only
    rw [h.tasks, e1]

theorem MPRel_ite {c : Prop} [Decidable c] {a b a' b' : Msg × Realm} (h1 : c → MPRel x a a') (h2 : ¬c → MPRel x b b') :
    MPRel x (if c then a else b) (if c then a' else b') := by
  split
  · exact h1 ‹_›
  · exact h2 ‹_›

theorem MPRel.of_eq {r r' : Realm} (h : EqOff x r r') {m m' : Msg} (hm : m' = m) : MPRel x (m, r) (m', r') := ⟨hm, h⟩

theorem MPRel.kill {r r' : Realm} (h : EqOff x r r') (sel sel' : Session → Bool) (hs' : sel' = sel)
    (hsel : ∀ c, sel (unstall x c) = sel c) (g : Msg) (ka : Bool) (f : Nat → Msg) :
    MPRel x (match r.killWhere sel g ka with | (n, r) => (f n, r))
      (match r'.killWhere sel' g ka with | (n, r) => (f n, r)) := by
  rw [hs']
  obtain ⟨h1, h2⟩ := eqoff_killWhere h sel hsel g ka
  exact ⟨congrArg f h1, h2⟩

theorem unstall_upd (k : SessKey) (d : Dict) (c : Session) :
    unstall x (if c.key == k then { c with details := d } else c) =
      (if (unstall x c).key == k then { unstall x c with details := d } else unstall x c) := by
  rw [unstall_key]
  unfold unstall
  split <;> split <;> simp_all

theorem eqoff_modify {r r' : Realm} (h : EqOff x r r') (k : SessKey) (d : Dict) :
    EqOff x ({ r with clients := r.clients.map (fun c => if c.key == k then { c with details := d } else c) } : Realm)
      ({ r' with clients := r'.clients.map (fun c => if c.key == k then { c with details := d } else c) } : Realm) := by
  refine EqOff.mk h.cfg h.broker h.ds ?_ h.ending h.testaments h.metaProcs h.metaS h.queues h.closedPeers h.tasks
    h.retries h.deferred h.inbox h.ghosts h.now h.pubCount h.rnd h.panic
  dsimp only
  have e : ∀ l : List Session, (l.map (fun c => if c.key == k then { c with details := d } else c)).map (unstall x) =
      (l.map (unstall x)).map (fun c => if c.key == k then { c with details := d } else c) := by
    intro l
    rw [List.map_map, List.map_map]
    apply List.map_congr_left
    intro c _
    exact unstall_upd k d c
  rw [e, e, h.clients]

macro "mp_leaf " h:term : tactic => `(tactic|
  first | exact MPRel.same $h _ | exact ⟨rfl, by eqoff_upd $h⟩)

theorem eqoff_metaProc {r r' : Realm} (h : EqOff x r r') (proc : String) (req : Nat) (details : Dict)
    (args : List WVal) (kw : Dict) :
    MPRel x (metaProc r proc req details args kw) (metaProc r' proc req details args kw) := by
  unfold metaProc
  extract_lets +onlyGivenNames caller reason message badReason
  clear_value caller reason message badReason
  refine MPRel_ite (fun _ => ?_) (fun _ => ?_)
  · -- count / list
    dsimp only
    split
    · exact MPRel.same h _
    · rename_i f _
      have hp : ∀ c, (fun c : Session => f.isEmpty || f.contains (authroleOf c)) (unstall x c) =
          (fun c : Session => f.isEmpty || f.contains (authroleOf c)) c := by
        intro c; simp only [authroleOf, unstall_details]
      refine MPRel_ite (fun _ => ?_) (fun _ => ?_)
      · exact MPRel.of_eq h (by rw [eqoff_sel_len h _ hp])
      · exact MPRel.of_eq h (by rw [eqoff_sel_map h _ hp (fun c => sidVal c.key) (fun c => by simp only [unstall_key])])
  refine MPRel_ite (fun _ => ?_) (fun _ => ?_)
  · -- get
    split
    · exact MPRel.same h _
    · split
      · exact MPRel.same h _
      · rename_i sid _
        rcases (eqoff_keyOfSid h sid).cases with ⟨e1, e2⟩ | ⟨c, c', e1, e2, hc⟩
        · rw [e1, e2]; exact MPRel.same h _
        · rw [e1, e2]
          exact MPRel.of_eq h (by rw [cleanDetails_congr h, hc.details])
  refine MPRel_ite (fun _ => ?_) (fun _ => ?_)
  · -- kill
    split
    · exact MPRel.same h _
    · split
      · exact MPRel.same h _
      · rename_i sid _
        refine MPRel_ite (fun _ => MPRel.same h _) (fun _ => ?_)
        refine MPRel_ite (fun _ => MPRel.same h _) (fun _ => ?_)
        rcases (eqoff_keyOfSid h sid).cases with ⟨e1, e2⟩ | ⟨c, c', e1, e2, hc⟩
        · rw [e1, e2]; exact MPRel.same h _
        · rw [e1, e2]
          exact MPRel.kill h _ _ (by rw [hc.key]) (fun c => by simp only [unstall_key]) _ _ (fun _ => mYield req [])
  refine MPRel_ite (fun _ => ?_) (fun _ => ?_)
  · -- kill by authid / authrole
    split
    · exact MPRel.same h _
    · split
      · exact MPRel.same h _
      · refine MPRel_ite (fun _ => MPRel.same h _) (fun _ => ?_)
        dsimp only
        exact MPRel.kill h _ _ rfl (fun c => by simp only [unstall_key, unstall_details]) _ _ (fun n => mYield req [.int n])
  refine MPRel_ite (fun _ => ?_) (fun _ => ?_)
  · -- kill all
    refine MPRel_ite (fun _ => MPRel.same h _) (fun _ => ?_)
    exact MPRel.kill h _ _ rfl (fun c => by simp only [unstall_key]) _ _ (fun n => mYield req [.int n])
  refine MPRel_ite (fun _ => ?_) (fun _ => ?_)
  · -- modify details
    split
    · split
      · exact MPRel.same h _
      · rename_i sid _
        refine MPRel_ite (fun _ => MPRel.same h _) (fun _ => ?_)
        split
        · exact MPRel.same h _
        · refine MPRel_ite (fun _ => MPRel.same h _) (fun _ => ?_)
          rcases (eqoff_keyOfSid h sid).cases with ⟨e1, e2⟩ | ⟨c, c', e1, e2, hc⟩
          · rw [e1, e2]; exact MPRel.same h _
          · rw [e1, e2]
            dsimp only
            rw [hc.key, hc.details]
            exact ⟨rfl, eqoff_modify h _ _⟩
    · exact MPRel.same h _
  -- the remaining procedures read the dealer, the broker and the testament table only
  rw [h.ds, h.broker, h.testaments]
  repeat' (first
    | (refine MPRel_ite (fun _ => ?_) (fun _ => ?_))
    | split
    | dsimp only)
  all_goals first
    | exact MPRel.same h _
    | (exfalso; simp only [eqoff_any_key h] at *; contradiction)
    | (refine ⟨rfl, ?_⟩; eqoff_upd h)
end Nexus.L2.WpC
