/-
  WP-E: WHAT WAITS IN THE TASK LIST, IN `deferred` AND IN `inbox`.

  `TasksOk P r` (for a predicate `P` on (session, message)):
    * the GOODBYE of a pending kill — carried by its `leave k (.killed g _)` task or, while the
      handler sleeps in the yield retry loop, by the `deferred` entry — is a GOODBYE;
    * an answer of the meta-procedure handler waiting as `metaMsg` task is a YIELD or an ERROR;
    * every message of a client waiting to be read (`inMsg` task, `inbox` entry) satisfies `P`.
  It holds in the state `Realm.create` builds and is kept by every atomic action, provided `P`
  holds for the message an external input `.msg k m` brings (`tasksOk_apply`).
  `KillOk` is the instance `P := True` (used for C08); C02 uses `P k m := .msg k m ∈ ops`.
-/
import Nexus.L2.Proofs.WpEEvents

namespace Nexus.L2.WpE
open Nexus.L2 Nexus.L2.Realm Gen.N

/-- a waiting task is in order -/
def TOk (P : SessKey → Msg → Prop) : Task → Prop
  | .leave _ (.killed g _) => isGoodbyeMsg g = true
  | .inMsg k m => P k m
  | .metaMsg m => m.isMetaAnswer = true
  | _ => True

/-- a task a handler, a departure, a timer or the dealer may append -/
def NewOk : Task → Prop
  | .leave _ (.killed g _) => isGoodbyeMsg g = true
  | .inMsg .. => False
  | .metaMsg m => m.isMetaAnswer = true
  | _ => True

theorem NewOk.tOk {P : SessKey → Msg → Prop} : ∀ {t : Task}, NewOk t → TOk P t
  | .leave _ (.killed _ _), h => h
  | .leave _ .lost, _ => trivial
  | .leave _ .aborted, _ => trivial
  | .leave _ (.violation _), _ => trivial
  | .leave _ .shutdown, _ => trivial
  | .inMsg .., h => h.elim
  | .metaMsg _, h => h
  | .metaPub _, _ => trivial
  | .metaInvoke .., _ => trivial

theorem TOk.evOk {P : SessKey → Msg → Prop} : ∀ {t : Task}, TOk P t → TaskEvOk t
  | .leave _ (.killed _ _), h => h
  | .leave _ .lost, _ => trivial
  | .leave _ .aborted, _ => trivial
  | .leave _ (.violation _), _ => trivial
  | .leave _ .shutdown, _ => trivial
  | .inMsg .., _ => trivial
  | .metaMsg _, _ => trivial
  | .metaPub _, _ => trivial
  | .metaInvoke .., _ => trivial

structure TasksOk (P : SessKey → Msg → Prop) (r : Realm) : Prop where
  tasks : ∀ t ∈ r.tasks, TOk P t
  deferred : ∀ d ∈ r.deferred, TOk P (.leave d.1 d.2)
  inbox : ∀ e ∈ r.inbox, P e.1 e.2

abbrev KillOk (r : Realm) : Prop := TasksOk (fun _ _ => True) r

/-- `deferred` and `inbox` unchanged, new tasks appended -/
structure TG (r r' : Realm) : Prop where
  deferred : r'.deferred = r.deferred
  inbox : r'.inbox = r.inbox
  tasks : ∃ ts, r'.tasks = r.tasks ++ ts ∧ ∀ t ∈ ts, NewOk t

theorem TG.refl (r : Realm) : TG r r := ⟨rfl, rfl, [], by simp, fun _ h => nomatch h⟩

theorem TG.trans {a b c : Realm} (h1 : TG a b) (h2 : TG b c) : TG a c := by
  obtain ⟨t1, e1, p1⟩ := h1.tasks
  obtain ⟨t2, e2, p2⟩ := h2.tasks
  refine ⟨h2.deferred.trans h1.deferred, h2.inbox.trans h1.inbox, t1 ++ t2, by rw [e2, e1, List.append_assoc], ?_⟩
  intro t ht
  rcases List.mem_append.mp ht with h | h
  · exact p1 t h
  · exact p2 t h

variable {P : SessKey → Msg → Prop}

theorem TG.tasksOk {r r' : Realm} (h : TG r r') (hk : TasksOk P r) : TasksOk P r' := by
  obtain ⟨ts, e, p⟩ := h.tasks
  refine ⟨?_, by rw [h.deferred]; exact hk.deferred, by rw [h.inbox]; exact hk.inbox⟩
  intro t ht
  rw [e] at ht
  rcases List.mem_append.mp ht with h | h
  · exact hk.tasks t h
  · exact (p t h).tOk

theorem tg_same {r r' : Realm} (hd : r'.deferred = r.deferred) (hi : r'.inbox = r.inbox) (ht : r'.tasks = r.tasks) :
    TG r r' := ⟨hd, hi, [], by rw [ht]; simp, fun _ h => nomatch h⟩

theorem tg_add {r r' : Realm} (ts : List Task) (hd : r'.deferred = r.deferred) (hi : r'.inbox = r.inbox)
    (ht : r'.tasks = r.tasks ++ ts) (hg : ∀ t ∈ ts, NewOk t) : TG r r' := ⟨hd, hi, ts, ht, hg⟩

theorem tg_setPanic (r : Realm) (p : Option String) : TG r (r.setPanic p) :=
  tg_same (dsetPanic_deferred r p) (dsetPanic_inbox r p) (dsetPanic_tasks r p)

theorem dmetaTask_good (x : Send) : ∀ t ∈ (dmetaTask x).toList, NewOk t := by
  intro t ht
  unfold dmetaTask at ht
  split at ht
  · split at ht
    · simp only [Option.toList_some, List.mem_singleton] at ht; subst ht; trivial
    · cases ht
  · cases ht

theorem tg_trySend (r : Realm) (s : Send) : TG r (r.trySend s) :=
  tg_add _ (dtrySend_deferred r s) (dtrySend_inbox r s) (dtrySend_tasks r s) (dmetaTask_good s)

theorem tg_deliver : ∀ (ss : List Send) (r : Realm), TG r (r.deliver ss)
  | [], r => TG.refl r
  | s :: ss, r => (tg_trySend r s).trans (tg_deliver ss _)

theorem tg_applyD (r : Realm) (o : DOut) : TG r (r.applyD o) := by
  rw [applyD_eq]
  refine TG.trans ?_ (tg_setPanic _ _)
  have h1 : TG r ({ r with ds := o.st } : Realm) := tg_same rfl rfl rfl
  refine h1.trans ((tg_deliver o.sends _).trans ?_)
  refine tg_add _ rfl rfl rfl ?_
  intro t ht
  rcases List.mem_append.mp ht with h | h
  · obtain ⟨p, _, rfl⟩ := List.mem_map.mp h; trivial
  · obtain ⟨k, _, rfl⟩ := List.mem_map.mp h; trivial

/-! ### handlers -/

theorem tg_tables (r : Realm) (b : Broker) (n : Nat) (ss : List Send) :
    TG r (({ r with broker := b, pubCount := n } : Realm).deliver ss) :=
  TG.trans (b := ({ r with broker := b, pubCount := n } : Realm)) (tg_same rfl rfl rfl) (tg_deliver _ _)

theorem tg_handlePublish (r : Realm) (s : Session) (req : Nat) (opts : Dict) (topic : String)
    (args : List WVal) (kw : Dict) : TG r (handlePublish r s req opts topic args kw) := by
  by_cases hv : validUri r.broker.strict "" topic = true
  · by_cases hp : pptRefused s opts = true
    · rw [handlePublish_ppt r s req opts topic args kw hv hp]
      exact (tg_trySend r _).trans (tg_add [.leave s.key .aborted] rfl rfl rfl (by
        intro t ht; rw [List.mem_singleton.mp ht]; trivial))
    · have hp' : pptRefused s opts = false := by simpa using hp
      by_cases hd : discloseRefused r opts = true
      · rw [handlePublish_refused r s req opts topic args kw hv hp' hd]
        exact tg_deliver _ r
      · have hd' : discloseRefused r opts = false := by simpa using hd
        rw [handlePublish_ok r s req opts topic args kw hv hp' hd']
        exact tg_tables r _ _ _
  · have hv' : validUri r.broker.strict "" topic = false := by simpa using hv
    rw [handlePublish_invalid r s req opts topic args kw hv']
    exact tg_deliver _ r

theorem tg_handleSubscribe (r : Realm) (s : Session) (req : Nat) (opts : Dict) (topic : String) :
    TG r (handleSubscribe r s req opts topic) := by
  by_cases hv : validUri r.broker.strict (opts.optString OptMatch) topic = true
  · rw [handleSubscribe_ok r s req opts topic hv]
    exact tg_tables r _ _ _
  · have hv' : validUri r.broker.strict (opts.optString OptMatch) topic = false := by simpa using hv
    rw [handleSubscribe_invalid r s req opts topic hv']
    exact tg_deliver _ r

theorem tg_handleUnsubscribe (r : Realm) (s : Session) (req sub : Nat) : TG r (handleUnsubscribe r s req sub) := by
  rw [handleUnsubscribe_eq]
  exact tg_tables r _ _ _

theorem tg_handleRegister (r : Realm) (s : Session) (req : Nat) (opts : Dict) (proc : String) :
    TG r (handleRegister r s req opts proc) := by
  unfold handleRegister
  dsimp only
  repeat' split
  all_goals first
    | exact tg_trySend _ _
    | exact tg_applyD _ _

theorem tg_handleCancel (r : Realm) (s : Session) (req : Nat) (opts : Dict) : TG r (handleCancel r s req opts) := by
  unfold handleCancel
  dsimp only
  repeat' split
  all_goals first
    | exact tg_applyD _ _
    | exact tg_trySend _ _

theorem tg_handleYield (r : Realm) (s : Session) (req : Nat) (opts : Dict) (args : List WVal) (kw : Dict) :
    TG r (handleYield r s req opts args kw) := by
  unfold handleYield
  dsimp only
  have h := tg_applyD r (syncYield r.denv r.ds s.key req opts args kw (opts.optFlag OptProgress) true)
  split
  · exact h.trans (tg_same rfl rfl rfl)
  · exact h

theorem tg_leaveTask (r : Realm) (k : SessKey) (mode : LeaveMode) (hm : NewOk (.leave k mode)) :
    TG r ({ r with tasks := r.tasks ++ [.leave k mode], ending := r.ending ++ [k] } : Realm) :=
  tg_add [.leave k mode] rfl rfl rfl (by intro t ht; rw [List.mem_singleton.mp ht]; exact hm)

theorem tg_dispatch (r : Realm) (s : Session) (m : Msg) : TG r (Realm.dispatch r s m) := by
  cases m
  case publish => exact tg_handlePublish ..
  case yield => exact tg_handleYield ..
  case call => exact tg_applyD ..
  case cancel => exact tg_handleCancel ..
  case subscribe => exact tg_handleSubscribe ..
  case register => exact tg_handleRegister ..
  case unsubscribe => exact tg_handleUnsubscribe ..
  case unregister => exact tg_applyD ..
  case error typ req details err args kw =>
    show TG r (if typ != tINVOCATION then _ else handleError r s req details err args kw)
    split
    · exact tg_leaveTask r s.key _ trivial
    · exact tg_applyD ..
  case goodbye =>
    exact (tg_trySend r ⟨s.key, .goodbye [] CloseGoodbyeAndOut⟩).trans (tg_leaveTask _ s.key .lost trivial)
  all_goals exact tg_leaveTask r s.key _ trivial

theorem tg_authzGate (r : Realm) (s : Session) (m : Msg) : TG r (authzGate r s m).2 := by
  rw [(authzGate_deliver r s m).1]
  exact tg_deliver _ r

theorem tg_handleMsg (r : Realm) (s : Session) (m : Msg) : TG r (handleMsg r s m) := by
  rw [handleMsg_eq]
  split
  · exact (tg_authzGate r s m).trans (tg_dispatch _ s m)
  · exact tg_authzGate r s m

/-- the session handler is handed a message: nothing happens, or the message waits in the transport, or it is handled -/
theorem tasksOk_recvMsg {r : Realm} (h : TasksOk P r) (k : SessKey) (m : Msg) (hp : P k m) :
    TasksOk P (r.recvMsg k m) := by
  rw [recvMsg_eq]
  split
  · exact h
  · split
    · exact h
    · split
      · split
        · refine ⟨h.tasks, h.deferred, ?_⟩
          intro e he
          rcases List.mem_append.mp he with he | he
          · exact h.inbox e he
          · rw [List.mem_singleton.mp he]; exact hp
        · exact h
      · exact (tg_handleMsg ..).tasksOk h

/-! ### session end -/

theorem tg_leave (r : Realm) (k : SessKey) (mode : LeaveMode) : TG r (r.leave k mode) := by
  cases hf : r.clients.find? (fun c => c.key == k) with
  | none => rw [leave_none mode hf]; exact TG.refl r
  | some s =>
    rw [leave_some mode hf]
    have h1 : TG r (leaveSend r k mode) := by
      cases mode <;> first | exact tg_trySend _ _ | exact TG.refl _
    have h2 : TG (leaveSend r k mode) ((leaveSend r k mode).takeTestaments k).2 := by
      unfold takeTestaments; split <;> exact tg_same rfl rfl rfl
    have h3 : ∀ (x : Realm) (q : Bool), TG x (leaveRemove x k q) := by
      intro x q
      unfold leaveRemove
      split
      · extract_lets o
        split
        rename_i b _ _ _
        have h := tg_setPanic ({ x with ds := o.st, broker := b } : Realm) o.panic
        have h0 : TG x ({ x with ds := o.st, broker := b } : Realm) := tg_same rfl rfl rfl
        exact h0.trans h
      · extract_lets o ra
        split
        exact (tg_applyD x o).trans (tg_tables ra _ _ _)
    have h4 : ∀ (x : Realm) (t : Option TBucket) (b : Bool), TG x (leaveAnnounce x s t b) := by
      intro x t b
      unfold leaveAnnounce
      split
      · exact TG.refl _
      · refine tg_add _ rfl rfl rfl ?_
        intro u hu
        rcases List.mem_append.mp hu with h | h
        · unfold testamentTasks at h
          split at h
          · obtain ⟨_, _, rfl⟩ := List.mem_map.mp h; trivial
          · cases h
        · rw [List.mem_singleton.mp h]; trivial
    exact h1.trans (h2.trans ((h3 _ _).trans ((h4 _ _ _).trans (tg_same rfl rfl rfl))))

/-! ### meta procedures -/

/-- as `MetaEffect`, the GOODBYE of a kill being a GOODBYE -/
inductive MetaEffectG (r : Realm) : Realm → Prop
  | same : MetaEffectG r r
  | kill (sel : Session → Bool) (g : Msg) (ka : Bool) (hg : isGoodbyeMsg g = true) :
      MetaEffectG r (r.killWhere sel g ka).2
  | modify (k : SessKey) (d : Dict) :
      MetaEffectG r { r with clients := r.clients.map (fun c => if c.key == k then { c with details := d } else c) }
  | testaments (t : List (SessKey × TBucket)) : MetaEffectG r { r with testaments := t }

theorem MetaEffectG.kill' {r r' : Realm} {n : Nat} {sel : Session → Bool} {g : Msg} {ka : Bool}
    (hg : isGoodbyeMsg g = true) (h : r.killWhere sel g ka = (n, r')) : MetaEffectG r r' := by
  have h2 := congrArg Prod.snd h
  dsimp only at h2
  subst h2
  exact MetaEffectG.kill _ _ _ hg

theorem makeGoodbye_isGoodbye (reason message : String) (all : Bool) :
    isGoodbyeMsg (makeGoodbye reason message all) = true := rfl

theorem metaProc_effectG (r : Realm) (proc : String) (req : Nat) (details : Dict) (args : List WVal) (kw : Dict) :
    MetaEffectG r (metaProc r proc req details args kw).2 := by
  unfold metaProc
  extract_lets +onlyGivenNames caller reason message badReason
  clear_value caller reason message badReason
  repeat' (first
    | (refine ite_cases (Q := fun x => MetaEffectG _ (Prod.snd x)) (fun _ => ?_) (fun _ => ?_))
    | split
    | dsimp only)
  all_goals first
    | exact MetaEffectG.same
    | exact MetaEffectG.modify _ _
    | exact MetaEffectG.testaments _
    | exact MetaEffectG.kill _ _ _ (makeGoodbye_isGoodbye _ _ _)
    | (apply MetaEffectG.kill' (makeGoodbye_isGoodbye _ _ _); assumption)

theorem tg_metaEffectG {r r' : Realm} (e : MetaEffectG r r') : TG r r' := by
  cases e with
  | same => exact TG.refl r
  | kill sel g ka hg =>
    refine tg_add _ rfl rfl rfl ?_
    intro t ht
    obtain ⟨c, _, rfl⟩ := List.mem_map.mp ht
    exact hg
  | testaments t => exact tg_same rfl rfl rfl
  | modify k d => exact tg_same rfl rfl rfl

/-! ### atomic actions -/

theorem tasksOk_pop {r : Realm} (h : TasksOk P r) : TasksOk P ({ r with tasks := r.tasks.tail } : Realm) :=
  ⟨fun t ht => h.tasks t (List.mem_of_mem_tail ht), h.deferred, h.inbox⟩

theorem tasksOk_runTask {r : Realm} (h : TasksOk P r) (t : Task) (ht : TOk P t) : TasksOk P (r.runTask t) := by
  cases t with
  | metaPub p => exact (tg_handlePublish ..).tasksOk h
  | metaInvoke req reg details args kw =>
    rw [runTask_metaInvoke]
    split
    · have hh : TG r (r.addTasks [.metaMsg (mErr req ErrNoSuchProcedure)]) :=
        tg_add [.metaMsg (mErr req ErrNoSuchProcedure)] rfl rfl rfl (by
          intro t ht; rw [List.mem_singleton.mp ht]; rfl)
      exact hh.tasksOk h
    · rename_i proc _
      have hh : TG (metaProc r proc req details args kw).2
          ((metaProc r proc req details args kw).2.addTasks [.metaMsg (metaProc r proc req details args kw).1]) :=
        tg_add [.metaMsg (metaProc r proc req details args kw).1] rfl rfl rfl (by
          intro t ht; rw [List.mem_singleton.mp ht]; exact metaProc_answer r proc req details args kw)
      exact ((tg_metaEffectG (metaProc_effectG r proc req details args kw)).trans hh).tasksOk h
  | metaMsg m => exact (tg_handleMsg ..).tasksOk h
  | leave k mode =>
    rw [runTask_leave]
    split
    · refine ⟨h.tasks, ?_, h.inbox⟩
      intro d hd
      rcases List.mem_append.mp hd with hd | hd
      · exact h.deferred d hd
      · rw [List.mem_singleton.mp hd]; exact ht
    · exact (tg_leave r k mode).tasksOk h
  | inMsg k m => exact tasksOk_recvMsg h k m ht

theorem tasksOk_stepOp {r : Realm} (h : TasksOk P r) (op : Op) (hop : ∀ k m, op = .msg k m → P k m) :
    TasksOk P (r.stepOp op) := by
  cases op with
  | join k isLocal details roles cap =>
    rw [stepOp_join]
    split
    · exact h
    · refine TG.tasksOk ?_ h
      exact tg_add _ rfl rfl rfl (by intro t ht; rw [List.mem_singleton.mp ht]; trivial)
  | msg k m => exact tasksOk_recvMsg h k m (hop k m rfl)
  | buffer k => rw [stepOp_buffer]; exact ⟨h.tasks, h.deferred, h.inbox⟩
  | drop k =>
    rw [stepOp_drop]
    split
    · exact h
    split
    · exact h
    · exact (tg_leaveTask r k .lost trivial).tasksOk h
  | stall k => rw [stepOp_stall]; exact ⟨h.tasks, h.deferred, h.inbox⟩
  | resume k => rw [stepOp_resume]; exact ⟨h.tasks, h.deferred, h.inbox⟩
  | tick ms => exact h
  | rnd n => exact ⟨h.tasks, h.deferred, h.inbox⟩

theorem tasksOk_timerDue {r : Realm} (h : TasksOk P r) (t : Timer) : TasksOk P (r.timerDue t) := by
  unfold Realm.timerDue
  extract_lets ds1 r1
  have h0 : TG r r1 := tg_same rfl rfl rfl
  exact (h0.trans (tg_applyD r1 _)).tasksOk h

theorem tasksOk_retryDue {r : Realm} (h : TasksOk P r) (x : Retry) : TasksOk P (r.retryDue x) := by
  rw [retryDue_eq]
  let r0 : Realm := { r with retries := r.retries.filter (fun y => y.callee != x.callee) }
  have h0 : TG r r0 := tg_same rfl rfl rfl
  have h1 : TasksOk P (r0.applyD (retryOut r x)) := (h0.trans (tg_applyD r0 _)).tasksOk h
  split
  · exact ⟨h1.tasks, h1.deferred, h1.inbox⟩
  · refine ⟨?_, fun d hd => h1.deferred d (List.mem_filter.mp hd).1, fun e he => h1.inbox e (List.mem_filter.mp he).1⟩
    intro t ht
    rcases List.mem_append.mp ht with ht | ht
    · rcases List.mem_append.mp ht with ht | ht
      · exact h1.tasks t ht
      · obtain ⟨d, hd, rfl⟩ := List.mem_map.mp ht
        exact h1.inbox d (List.mem_filter.mp hd).1
    · obtain ⟨d, hd, rfl⟩ := List.mem_map.mp ht
      exact h1.deferred d (List.mem_filter.mp hd).1

/-- `TasksOk P` is kept by every atomic action (the message of an external input satisfying `P`) -/
theorem tasksOk_apply {r : Realm} (h : TasksOk P r) (a : Act) (ht : ∀ t, a = .task t → r.tasks.head? = some t)
    (hop : ∀ k m, a = .op (.msg k m) → P k m) : TasksOk P (a.apply r) := by
  cases a with
  | op o => exact tasksOk_stepOp h o (fun k m e => hop k m (by rw [e]))
  | task t =>
    have hh := ht t rfl
    have hmem : t ∈ r.tasks := by
      cases hl : r.tasks with
      | nil => rw [hl] at hh; cases hh
      | cons a l => rw [hl] at hh; simp only [List.head?_cons, Option.some.injEq] at hh; subst hh; exact List.mem_cons_self ..
    exact tasksOk_runTask (tasksOk_pop h) t (h.tasks t hmem)
  | timer t => exact tasksOk_timerDue (r := { r with now := max r.now t.deadline }) ⟨h.tasks, h.deferred, h.inbox⟩ t
  | retry y => exact tasksOk_retryDue (r := { r with now := max r.now y.next }) ⟨h.tasks, h.deferred, h.inbox⟩ y
  | flush =>
    show TasksOk P r.flush.2
    unfold Realm.flush
    exact ⟨h.tasks, h.deferred, h.inbox⟩
  | clock t => exact ⟨h.tasks, h.deferred, h.inbox⟩
  | fuel text => exact (tg_setPanic r _).tasksOk h

theorem killOk_apply {r : Realm} (h : KillOk r) (a : Act) (ht : ∀ t, a = .task t → r.tasks.head? = some t) :
    KillOk (a.apply r) := tasksOk_apply h a ht (fun _ _ _ => trivial)

end Nexus.L2.WpE
