/-
  The meta procedures one by one (helper lemmas for C18): `metaProc r P …` for each procedure
  name `P`, obtained by evaluating the dispatch chain of `Realm.metaProc` on the name constants.
-/
import Nexus.L2.Proofs.RealmBase

namespace Nexus.L2
namespace Realm
open Gen.N

theorem ite_neg_eq {α : Sort _} {c : Prop} [Decidable c] {a b x : α} (hc : ¬c) (h : b = x) :
    (if c then a else b) = x := by rw [if_neg hc]; exact h
theorem ite_pos_eq {α : Sort _} {c : Prop} [Decidable c] {a b x : α} (hc : c) (h : a = x) :
    (if c then a else b) = x := by rw [if_pos hc]; exact h

/-- peel the dispatch chain of `metaProc` down to the branch of the (constant) procedure name -/
macro "meta_branch" : tactic => `(tactic| (
  unfold metaProc
  extract_lets +onlyGivenNames caller reason message badReason
  repeat (refine ite_neg_eq (by decide) ?_)
  refine ite_pos_eq (by decide) ?_))

/-- the session filter argument of `session.count` / `session.list` -/
def sessFilter (args : List WVal) : Option (List String) :=
  match args with
  | [] => some []
  | a :: _ => strList? a

/-- the sessions selected by an authrole filter (empty filter: all) -/
def sessSel (r : Realm) (f : List String) : List Session :=
  r.clients.filter (fun c => f.isEmpty || f.contains (authroleOf c))

theorem metaProc_sessionCount (r : Realm) (req : Nat) (details : Dict) (args : List WVal) (kw : Dict) :
    metaProc r MetaProcSessionCount req details args kw =
      match sessFilter args with
      | none => (mErr req ErrInvalidArgument, r)
      | some f => (mYield req [.int (sessSel r f).length], r) := by
  meta_branch
  show (match sessFilter args with | none => _ | some f => _) = _
  cases sessFilter args with
  | none => rfl
  | some f => exact ite_pos_eq (by decide) rfl

theorem metaProc_sessionList (r : Realm) (req : Nat) (details : Dict) (args : List WVal) (kw : Dict) :
    metaProc r MetaProcSessionList req details args kw =
      match sessFilter args with
      | none => (mErr req ErrInvalidArgument, r)
      | some f => (mYield req [.list ((sessSel r f).map (fun c => sidVal c.key))], r) := by
  meta_branch
  show (match sessFilter args with | none => _ | some f => _) = _
  cases sessFilter args with
  | none => rfl
  | some f => exact ite_neg_eq (by decide) rfl

theorem metaProc_sessionGet (r : Realm) (req : Nat) (details : Dict) (args : List WVal) (kw : Dict) :
    metaProc r MetaProcSessionGet req details args kw =
      match args with
      | [] => (mErr req ErrNoSuchSession, r)
      | a :: _ => match a.asID with
        | none => (mErr req ErrNoSuchSession, r)
        | some sid => match r.keyOfSid sid with
          | none => (mErr req ErrNoSuchSession, r)
          | some s => (mYield req [.dict (r.cleanDetails s.details)], r) := by
  meta_branch
  rfl

/-! ### registrations -/

/-- the registration named by the first argument -/
def regArg (r : Realm) (args : List WVal) : Option Reg :=
  match args with
  | a :: _ => match a.asID with | some id => r.ds.d.findReg id | none => none
  | [] => none

theorem metaProc_regList (r : Realm) (req : Nat) (details : Dict) (args : List WVal) (kw : Dict) :
    metaProc r MetaProcRegList req details args kw =
      (mYield req [idLists (r.ds.d.regs.map (fun x => (x.kind, x.id)))], r) := by
  meta_branch
  rfl

theorem metaProc_regLookup (r : Realm) (req : Nat) (details : Dict) (args : List WVal) (kw : Dict) :
    metaProc r MetaProcRegLookup req details args kw =
      match args with
      | a :: _ => match a.asString with
        | some p =>
          (mYield req [.int (match r.ds.d.findProc p (matchKind (lookupMatchOpt args)) with | some x => x.id | none => 0)], r)
        | none => (mYield req [.int 0], r)
      | [] => (mYield req [.int 0], r) := by
  meta_branch
  rfl

theorem metaProc_regMatch (r : Realm) (req : Nat) (details : Dict) (args : List WVal) (kw : Dict) :
    metaProc r MetaProcRegMatch req details args kw =
      match args with
      | a :: _ => match a.asString with
        | some p => (mYield req [.int (match r.ds.d.matchProcedure p with | some x => x.id | none => 0)], r)
        | none => (mYield req [.int 0], r)
      | [] => (mYield req [.int 0], r) := by
  meta_branch
  rfl

theorem metaProc_regGet (r : Realm) (req : Nat) (details : Dict) (args : List WVal) (kw : Dict) :
    metaProc r MetaProcRegGet req details args kw =
      match regArg r args with
      | none => (mErr req ErrNoSuchRegistration, r)
      | some x => (mYield req [regDetailsDict x.id x.proc x.«match» x.policy], r) := by
  meta_branch
  show (match regArg r args with | none => _ | some x => _) = _
  cases regArg r args with
  | none => rfl
  | some x => exact ite_pos_eq (by decide) rfl

theorem metaProc_regListCallees (r : Realm) (req : Nat) (details : Dict) (args : List WVal) (kw : Dict) :
    metaProc r MetaProcRegListCallees req details args kw =
      match regArg r args with
      | none => (mErr req ErrNoSuchRegistration, r)
      | some x => (mYield req [.list (x.callees.map sidVal)], r) := by
  meta_branch
  show (match regArg r args with | none => _ | some x => _) = _
  cases regArg r args with
  | none => rfl
  | some x => exact ite_neg_eq (by decide) (ite_pos_eq (by decide) rfl)

theorem metaProc_regCountCallees (r : Realm) (req : Nat) (details : Dict) (args : List WVal) (kw : Dict) :
    metaProc r MetaProcRegCountCallees req details args kw =
      match regArg r args with
      | none => (mErr req ErrNoSuchRegistration, r)
      | some x => (mYield req [.int x.callees.length], r) := by
  meta_branch
  show (match regArg r args with | none => _ | some x => _) = _
  cases regArg r args with
  | none => rfl
  | some x => exact ite_neg_eq (by decide) (ite_neg_eq (by decide) rfl)

/-! ### subscriptions -/

/-- the subscription named by the first argument -/
def subArg (r : Realm) (args : List WVal) : Option Sub :=
  match args with
  | a :: _ => match a.asID with | some id => r.broker.findId id | none => none
  | [] => none

theorem metaProc_subList (r : Realm) (req : Nat) (details : Dict) (args : List WVal) (kw : Dict) :
    metaProc r MetaProcSubList req details args kw =
      (mYield req [idLists (r.broker.subs.map (fun x => (x.kind, x.id)))], r) := by
  meta_branch
  rfl

theorem metaProc_subLookup (r : Realm) (req : Nat) (details : Dict) (args : List WVal) (kw : Dict) :
    metaProc r MetaProcSubLookup req details args kw =
      match args with
      | a :: _ => match a.asString with
        | some t =>
          (mYield req [.int (match r.broker.findTopic t (matchKind (lookupMatchOpt args)) with | some x => x.id | none => 0)], r)
        | none => (mYield req [.int 0], r)
      | [] => (mYield req [.int 0], r) := by
  meta_branch
  rfl

theorem metaProc_subMatch (r : Realm) (req : Nat) (details : Dict) (args : List WVal) (kw : Dict) :
    metaProc r MetaProcSubMatch req details args kw =
      match args with
      | a :: _ => match a.asString with
        | some t => (mYield req [.list ((r.broker.matching t).map (fun p => .int p.1.id))], r)
        | none => (mYield req [.list []], r)
      | [] => (mYield req [.list []], r) := by
  meta_branch
  rfl

theorem metaProc_subGet (r : Realm) (req : Nat) (details : Dict) (args : List WVal) (kw : Dict) :
    metaProc r MetaProcSubGet req details args kw =
      match subArg r args with
      | none => (mErr req ErrNoSuchSubscription, r)
      | some x => (mYield req [subDetailsDict x], r) := by
  meta_branch
  show (match subArg r args with | none => _ | some x => _) = _
  cases subArg r args with
  | none => rfl
  | some x => exact ite_pos_eq (by decide) rfl

theorem metaProc_subListSubscribers (r : Realm) (req : Nat) (details : Dict) (args : List WVal) (kw : Dict) :
    metaProc r MetaProcSubListSubscribers req details args kw =
      match subArg r args with
      | none => (mErr req ErrNoSuchSubscription, r)
      | some x => (mYield req [.list (x.members.map sidVal)], r) := by
  meta_branch
  show (match subArg r args with | none => _ | some x => _) = _
  cases subArg r args with
  | none => rfl
  | some x => exact ite_neg_eq (by decide) (ite_pos_eq (by decide) rfl)

theorem metaProc_subCountSubscribers (r : Realm) (req : Nat) (details : Dict) (args : List WVal) (kw : Dict) :
    metaProc r MetaProcSubCountSubscribers req details args kw =
      match subArg r args with
      | none => (mErr req ErrNoSuchSubscription, r)
      | some x => (mYield req [.int x.members.length], r) := by
  meta_branch
  show (match subArg r args with | none => _ | some x => _) = _
  cases subArg r args with
  | none => rfl
  | some x => exact ite_neg_eq (by decide) (ite_neg_eq (by decide) rfl)

/-! ### kill procedures -/

/-- `reason` given and not a valid URI -/
def badReasonOf (kw : Dict) : Bool := kwStr kw "reason" != "" && !validUri false "" (kwStr kw "reason")

theorem metaProc_kill (r : Realm) (req : Nat) (details : Dict) (args : List WVal) (kw : Dict) :
    metaProc r MetaProcSessionKill req details args kw =
      match args with
      | [] => (mErr req ErrNoSuchSession, r)
      | a :: _ => match a.asID with
        | none => (mErr req ErrNoSuchSession, r)
        | some sid =>
          if callerOf details == some sid then (mErr req ErrNoSuchSession, r)
          else if badReasonOf kw then (mErr req ErrInvalidURI, r)
          else match r.keyOfSid sid with
            | none => (mErr req ErrNoSuchSession, r)
            | some s =>
              (mYield req [], (r.killWhere (fun c => c.key == s.key)
                (makeGoodbye (kwStr kw "reason") (kwStr kw "message") false) false).2) := by
  meta_branch
  rfl

/-- the selector of `kill_by_authid` / `kill_by_authrole` -/
def killSel (details : Dict) (key v : String) (c : Session) : Bool :=
  some (sidOf c.key) != callerOf details &&
    (match c.details.get? key with | some (.str x) => x == v | _ => false)

theorem metaProc_killByAuthid (r : Realm) (req : Nat) (details : Dict) (args : List WVal) (kw : Dict) :
    metaProc r MetaProcSessionKillByAuthid req details args kw =
      match args with
      | [] => (mErr req ErrNoSuchSession, r)
      | a :: _ => match a.asString with
        | none => (mErr req ErrNoSuchSession, r)
        | some v =>
          if badReasonOf kw then (mErr req ErrInvalidURI, r)
          else
            (mYield req [.int (r.killWhere (killSel details "authid" v)
                (makeGoodbye (kwStr kw "reason") (kwStr kw "message") false) false).1],
             (r.killWhere (killSel details "authid" v)
                (makeGoodbye (kwStr kw "reason") (kwStr kw "message") false) false).2) := by
  meta_branch
  rfl

theorem metaProc_killByAuthrole (r : Realm) (req : Nat) (details : Dict) (args : List WVal) (kw : Dict) :
    metaProc r MetaProcSessionKillByAuthrole req details args kw =
      match args with
      | [] => (mErr req ErrNoSuchSession, r)
      | a :: _ => match a.asString with
        | none => (mErr req ErrNoSuchSession, r)
        | some v =>
          if badReasonOf kw then (mErr req ErrInvalidURI, r)
          else
            (mYield req [.int (r.killWhere (killSel details "authrole" v)
                (makeGoodbye (kwStr kw "reason") (kwStr kw "message") false) false).1],
             (r.killWhere (killSel details "authrole" v)
                (makeGoodbye (kwStr kw "reason") (kwStr kw "message") false) false).2) := by
  meta_branch
  rfl

theorem metaProc_killAll (r : Realm) (req : Nat) (details : Dict) (args : List WVal) (kw : Dict) :
    metaProc r MetaProcSessionKillAll req details args kw =
      if badReasonOf kw then (mErr req ErrInvalidURI, r)
      else
        (mYield req [.int (r.killWhere (fun c => some (sidOf c.key) != callerOf details)
            (makeGoodbye (kwStr kw "reason") (kwStr kw "message") true) true).1],
         (r.killWhere (fun c => some (sidOf c.key) != callerOf details)
            (makeGoodbye (kwStr kw "reason") (kwStr kw "message") true) true).2) := by
  meta_branch
  rfl

/-- what `killWhere` does: the selected sessions that are not already ending get a `leave` task
    carrying the GOODBYE, and are marked as ending; nothing else changes -/
theorem killWhere_spec (r : Realm) (sel : Session → Bool) (g : Msg) (ka : Bool) :
    (r.killWhere sel g ka).1 = (r.clients.filter (fun c => sel c && !r.ending.contains c.key)).length ∧
    (r.killWhere sel g ka).2 =
      { r with tasks := r.tasks ++ (r.clients.filter (fun c => sel c && !r.ending.contains c.key)).map
                  (fun c => Task.leave c.key (.killed g ka)),
               ending := r.ending ++ (r.clients.filter (fun c => sel c && !r.ending.contains c.key)).map (·.key) } :=
  ⟨rfl, rfl⟩

/-! ### testaments -/

/-- the scope argument: "destroyed" when absent -/
def scopeOf (kw : Dict) : String := if kwStr kw "scope" == "" then "destroyed" else kwStr kw "scope"

/-- the bucket with `t` appended in the scope -/
def addToBucket (cur : TBucket) (scope : String) (t : Testament) : TBucket :=
  if scope == "destroyed" then { cur with destroyed := cur.destroyed ++ [t] }
  else { cur with detached := cur.detached ++ [t] }

/-- the caller id `c` (a session id) is that of an attached client
    (`_, ok := r.clients[caller]` in `sessionAddTestament`) -/
def attachedCaller (r : Realm) (c : Nat) : Bool :=
  decide (sidBase ≤ c) && r.clients.any (fun s => s.key == c - sidBase)

theorem metaProc_addTestament (r : Realm) (req : Nat) (details : Dict) (args : List WVal) (kw : Dict) :
    metaProc r MetaProcSessionAddTestament req details args kw =
      match callerOf details, args with
      | some c, t :: a :: k :: _ =>
        match t.asString, a.asList, k.asDict with
        | some topic, some targs, some tkw =>
          if scopeOf kw != "destroyed" && scopeOf kw != "detached" then (mErr req ErrInvalidArgument, r)
          else if !attachedCaller r c then (mYield req [], r)
          else
            (mYield req [],
             { r with testaments := (r.testaments.filter (fun x => x.1 != c - sidBase)) ++
                [(c - sidBase,
                  addToBucket (((r.testaments.find? (fun x => x.1 == c - sidBase)).map (·.2)).getD {}) (scopeOf kw)
                    { topic := topic, args := targs, kw := tkw,
                      opts := (match kw.get? "publish_options" with
                        | some v => (v.asDict).getD []
                        | none => []) })] })
        | _, _, _ => (mErr req ErrInvalidArgument, r)
      | _, _ => (mErr req ErrInvalidArgument, r) := by
  meta_branch
  rfl

theorem attachedCaller_false {r : Realm} {c : Nat} (h : c < sidBase ∨ ∀ s ∈ r.clients, s.key ≠ c - sidBase) :
    attachedCaller r c = false := by
  unfold attachedCaller
  rcases h with h | h
  · have : decide (sidBase ≤ c) = false := by simpa using h
    rw [this]; rfl
  · have : r.clients.any (fun s => s.key == c - sidBase) = false := by
      rw [List.any_eq_false]
      intro s hs'
      simpa using h s hs'
    rw [this]; simp

theorem attachedCaller_true {r : Realm} {c : Nat} (h : attachedCaller r c = true) :
    sidBase ≤ c ∧ ∃ s ∈ r.clients, s.key = c - sidBase := by
  unfold attachedCaller at h
  simpa using h

/-- `add_testament` by a caller that is not an attached client (its id is below the session-id base,
    or names no session in `clients`): the same empty YIELD, and the state is UNCHANGED -/
theorem metaProc_addTestament_unattached (r : Realm) (req c : Nat) (details : Dict) (kw : Dict) (topic : String)
    (targs : List WVal) (tkw : Dict) (rest : List WVal) (hc : callerOf details = some c)
    (hs : scopeOf kw = "destroyed" ∨ scopeOf kw = "detached")
    (hna : c < sidBase ∨ ∀ s ∈ r.clients, s.key ≠ c - sidBase) :
    metaProc r MetaProcSessionAddTestament req details (.str topic :: .list targs :: .dict tkw :: rest) kw =
      (mYield req [], r) := by
  have hsc : (scopeOf kw != "destroyed" && scopeOf kw != "detached") = false := by
    rcases hs with h | h <;> simp [h]
  rw [metaProc_addTestament, hc]
  simp only [hsc, attachedCaller_false hna, Bool.false_eq_true, if_false, Bool.not_false, if_true]
  rfl

/-- the bucket with the scope emptied -/
def flushBucket (cur : TBucket) (scope : String) : TBucket :=
  if scope == "destroyed" then { cur with destroyed := [] } else { cur with detached := [] }

theorem metaProc_flushTestaments (r : Realm) (req : Nat) (details : Dict) (args : List WVal) (kw : Dict) :
    metaProc r MetaProcSessionFlushTestaments req details args kw =
      match callerOf details with
      | none => (mErr req ErrInvalidArgument, r)
      | some c =>
        if scopeOf kw != "destroyed" && scopeOf kw != "detached" then (mErr req ErrInvalidArgument, r)
        else
          match r.testaments.find? (fun x => x.1 == c - sidBase) with
          | none => (mYield req [], r)
          | some (_, cur) =>
            if (flushBucket cur (scopeOf kw)).destroyed.isEmpty && (flushBucket cur (scopeOf kw)).detached.isEmpty then
              (mYield req [], { r with testaments := r.testaments.filter (fun x => x.1 != c - sidBase) })
            else
              (mYield req [], { r with testaments := r.testaments.filter (fun x => x.1 != c - sidBase) ++
                                          [(c - sidBase, flushBucket cur (scopeOf kw))] }) := by
  meta_branch
  rfl

/-! ### `cleanSessionDetails` never shows `transport.auth` -/

theorem dget?_set_self (d : Dict) (k : String) (v : WVal) : Dict.get? (Dict.set d k v) k = some v := by
  induction d with
  | nil => simp [Dict.set, Dict.get?]
  | cons p rest ih =>
    obtain ⟨k', v'⟩ := p
    by_cases h : (k' == k) = true
    · simp [Dict.set, Dict.get?, h]
    · simp [Dict.set, Dict.get?, h, ih]

theorem dget?_set_ne (d : Dict) {k k' : String} (v : WVal) (h : k ≠ k') :
    Dict.get? (Dict.set d k v) k' = Dict.get? d k' := by
  induction d with
  | nil => simp [Dict.set, Dict.get?, h]
  | cons p rest ih =>
    obtain ⟨k0, v0⟩ := p
    by_cases h0 : (k0 == k) = true
    · have e : k0 = k := by simpa using h0
      have h1 : ¬ (k0 == k') = true := by simpa [e] using h
      have h2 : ¬ (k == k') = true := by simpa using h
      simp [Dict.set, Dict.get?, h0, h1, h2]
    · by_cases h1 : (k0 == k') = true
      · simp [Dict.set, Dict.get?, h0, h1]
      · simp [Dict.set, Dict.get?, h0, h1, ih]

theorem dget?_erase_self (d : Dict) (k : String) : Dict.get? (Dict.erase d k) k = none := by
  induction d with
  | nil => rfl
  | cons p rest ih =>
    obtain ⟨k0, v0⟩ := p
    by_cases h0 : k0 = k
    · simpa [Dict.erase, h0] using ih
    · have : ¬ (k0 == k) = true := by simpa using h0
      simp only [Dict.erase, List.filter_cons, bne_iff_ne, ne_eq, h0, not_false_eq_true, if_true,
        Dict.get?, this, Bool.false_eq_true, if_false]
      exact ih

/-- the strict-mode copy loop only copies values of `details` -/
theorem strictCopy_get? (details : Dict) (k : String) (v : WVal) : ∀ (ks : List String) (acc : Dict),
    Dict.get? (ks.foldl (fun acc k => match details.get? k with
      | some v => acc.set k v
      | none => acc) acc) k = some v → details.get? k = some v ∨ Dict.get? acc k = some v
  | [], acc, h => Or.inr h
  | k0 :: ks, acc, h => by
    simp only [List.foldl_cons] at h
    rcases strictCopy_get? details k v ks _ h with h | h
    · exact Or.inl h
    · cases hd : details.get? k0 with
      | none => rw [hd] at h; exact Or.inr h
      | some v0 =>
        rw [hd] at h
        by_cases e : k0 = k
        · subst e
          rw [dget?_set_self] at h
          exact Or.inl (h ▸ hd)
        · rw [dget?_set_ne _ _ e] at h
          exact Or.inr h

/-- the details a meta procedure or meta event shows never contain a `transport.auth` dict -/
theorem cleanDetails_no_transport_auth (r : Realm) (details : Dict) (t a : Dict)
    (h : Dict.get? (r.cleanDetails details) "transport" = some (.dict t)) : Dict.get? t "auth" ≠ some (.dict a) := by
  unfold cleanDetails at h
  extract_lets std clean at h
  have hclean : ∀ v, Dict.get? clean "transport" = some v → details.get? "transport" = some v := by
    intro v hv
    show details.get? "transport" = some v
    have hv' : Dict.get? (if r.cfg.metaStrict then _ else details) "transport" = some v := hv
    split at hv'
    · rcases strictCopy_get? details "transport" v _ [] hv' with h | h
      · exact h
      · cases h
    · exact hv'
  split at h
  · rename_i t0 ht0
    split at h
    · rw [dget?_set_self] at h
      cases h
      rw [dget?_erase_self]
      exact fun e => nomatch e
    · rename_i hna
      have := hclean _ h
      rw [ht0] at this
      cases this
      exact fun e => hna a e
  · rename_i hnd
    exact absurd (hclean _ h) (fun e => hnd t e)

end Realm
end Nexus.L2
