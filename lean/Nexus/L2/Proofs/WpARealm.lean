/-
  WP-A: consequences of `Evo` / `RealmInv` for every reachable realm:
  configuration flags, the broker as a run of `BStep`s from the pre-initialised broker,
  freshness of the stored publication ids, coherence of the session table, and the message
  switch (`stepOp (.msg k m)` is the handler of `m`).
-/
import Nexus.L2.Proofs.WpAEvo

namespace Nexus.L2.WpA
open Nexus.L2 Nexus.L2.Realm Gen.N

/-! ### flags and the broker run -/

theorem preInit_flags : ∀ (cfg : List (String × String × Nat)) (b : Broker), BFlags b (b.preInit cfg)
  | [], b => ⟨rfl, rfl⟩
  | (topic, m, limit) :: rest, b => by
    unfold Broker.preInit
    split
    · exact BFlags.trans (b := _) ⟨rfl, rfl⟩ (preInit_flags rest _)
    · exact BFlags.trans (b := _) ⟨rfl, rfl⟩ (preInit_flags rest _)

/-- in every reachable realm the four configuration flags are those of the configuration, the
    configuration itself is unchanged and the meta session is the one every realm starts with -/
theorem flags_const {cfg : Config} {r : Realm} (h : Realm.Reachable cfg r) :
    r.broker.allowDisclose = cfg.allowDisclose ∧ r.ds.d.allowDisclose = cfg.allowDisclose ∧
    r.broker.strict = cfg.strict ∧ r.ds.d.strict = cfg.strict ∧ r.cfg = cfg ∧ r.metaS = ({} : Realm).metaS := by
  obtain ⟨r0, h0, e⟩ := reachable_evo h
  obtain ⟨c1, c2, c3, c4, _, c6⟩ := create_fields h0
  obtain ⟨steps, hb, _⟩ := e.run
  have hf := run_flags steps r0.broker
  rw [← hb, c2] at hf
  have hf := (preInit_flags cfg.history _).trans hf
  exact ⟨hf.2, e.dfl.2.trans c4, hf.1, e.dfl.1.trans c3, e.cfg.trans c1, e.metaS.trans c6⟩

/-- the broker of a reachable realm is a run of broker steps from the pre-initialised broker; the
    publish steps carry increasing fresh ids below `pubBase + r.pubCount` -/
theorem reachable_run {cfg : Config} {r : Realm} (h : Realm.Reachable cfg r) :
    ∃ steps, r.broker =
      (({ strict := cfg.strict, allowDisclose := cfg.allowDisclose } : Broker).preInit cfg.history).run steps ∧
      Trace 0 steps r.pubCount := by
  obtain ⟨r0, h0, e⟩ := reachable_evo h
  obtain ⟨_, c2, _, _, c5, _⟩ := create_fields h0
  obtain ⟨steps, hb, ht⟩ := e.run
  exact ⟨steps, by rw [hb, c2], by rw [← c5]; exact ht⟩

/-- every publish step of a trace hands the broker details without publisher keys / topic -/
theorem Trace.pubOk : ∀ {steps : List BStep} {n n' : Nat}, Trace n steps n' →
    ∀ sess now p, BStep.publish sess now p ∈ steps → PubOk p
  | [], _, _, _, _, _, _, hm => nomatch hm
  | e :: rest, n, n', h, sess, now, p, hm => by
    cases e with
    | publish sess' now' p' =>
      obtain ⟨m, _, _, h3, h4⟩ := h
      rcases List.mem_cons.mp hm with he | hm'
      · cases he; exact h3
      · exact Trace.pubOk h4 sess now p hm'
    | subscribe k req topic m pub0 =>
      rcases List.mem_cons.mp hm with he | hm'
      · cases he
      · exact Trace.pubOk (steps := rest) h sess now p hm'
    | unsubscribe k req subId pub0 =>
      rcases List.mem_cons.mp hm with he | hm'
      · cases he
      · exact Trace.pubOk (steps := rest) h sess now p hm'
    | removeSession k pub0 =>
      rcases List.mem_cons.mp hm with he | hm'
      · cases he
      · exact Trace.pubOk (steps := rest) h sess now p hm'

/-- publication id of a publish step -/
def stepPubId : BStep → Option Nat
  | .publish _ _ p => some p.pubId
  | _ => none

/-- the publication ids of the publish steps of a trace are strictly increasing, at least
    `pubBase + n` and below `pubBase + n'` -/
theorem Trace.ids : ∀ {steps : List BStep} {n n' : Nat}, Trace n steps n' →
    (steps.filterMap stepPubId).Pairwise (· < ·) ∧
    ∀ i ∈ steps.filterMap stepPubId, pubBase + n ≤ i ∧ i < pubBase + n'
  | [], _, _, _ => ⟨List.Pairwise.nil, fun _ hi => nomatch hi⟩
  | e :: rest, n, n', h => by
    cases e with
    | publish sess now p =>
      obtain ⟨m, h1, h2, _, h4⟩ := h
      obtain ⟨ih1, ih2⟩ := Trace.ids h4
      have hle := Trace.le h4
      simp only [List.filterMap_cons, stepPubId]
      refine ⟨List.pairwise_cons.mpr ⟨fun i hi => ?_, ih1⟩, fun i hi => ?_⟩
      · have := (ih2 i hi).1; omega
      · rcases List.mem_cons.mp hi with rfl | hi
        · omega
        · have := ih2 i hi; omega
    | subscribe k req topic m pub0 => simpa only [List.filterMap_cons, stepPubId] using Trace.ids (steps := rest) h
    | unsubscribe k req subId pub0 => simpa only [List.filterMap_cons, stepPubId] using Trace.ids (steps := rest) h
    | removeSession k pub0 => simpa only [List.filterMap_cons, stepPubId] using Trace.ids (steps := rest) h

/-- a realm is only created from a configuration whose history entries are valid URIs with a
    positive limit -/
theorem create_historyOk {cfg : Config} {r : Realm} (h : Realm.create cfg = some r) :
    ∀ c ∈ cfg.history, validUri cfg.strict c.2.1 c.1 = true ∧ 0 < c.2.2 := by
  unfold Realm.create at h
  split at h
  · cases h
  · rename_i hok
    have hok' : historyOk cfg = true := by simpa using hok
    unfold historyOk at hok'
    intro c hc
    have := List.all_eq_true.mp hok' c hc
    obtain ⟨t, m, l⟩ := c
    simpa using this

theorem reachable_created {cfg : Config} {r : Realm} (h : Realm.Reachable cfg r) :
    ∃ r0, Realm.create cfg = some r0 := by
  obtain ⟨r0, h0, _⟩ := reachable_evo h
  exact ⟨r0, h0⟩

/-! ### stored publication ids -/

/-- the ids stored in every history are strictly increasing and below `pubBase + n` -/
def HistFresh (b : Broker) (n : Nat) : Prop :=
  ∀ h ∈ b.hist, (h.entries.map (·.pub)).Pairwise (· < ·) ∧ ∀ e ∈ h.entries, e.pub < pubBase + n

theorem HistFresh.mono {b : Broker} {n m : Nat} (h : HistFresh b n) (hm : n ≤ m) : HistFresh b m :=
  fun x hx => ⟨(h x hx).1, fun e he => Nat.lt_of_lt_of_le ((h x hx).2 e he) (by omega)⟩

theorem histFresh_save {h : Hist} {e : HistEntry} {n m : Nat}
    (hp : (h.entries.map (·.pub)).Pairwise (· < ·)) (hb : ∀ x ∈ h.entries, x.pub < pubBase + n)
    (hm : n ≤ m) (he : e.pub = pubBase + m) :
    ((h.save e).entries.map (·.pub)).Pairwise (· < ·) ∧ ∀ x ∈ (h.save e).entries, x.pub < pubBase + (m + 1) := by
  rw [Hist.save_entries]
  have hsub : ∀ l : List HistEntry, l.Sublist h.entries →
      ((l ++ [e]).map (·.pub)).Pairwise (· < ·) ∧ ∀ x ∈ l ++ [e], x.pub < pubBase + (m + 1) := by
    intro l hl
    constructor
    · rw [List.map_append, List.pairwise_append]
      refine ⟨hp.sublist (hl.map _), by simp, ?_⟩
      intro a ha b hb'
      obtain ⟨x, hx, rfl⟩ := List.mem_map.mp ha
      simp only [List.map_cons, List.map_nil, List.mem_singleton] at hb'
      subst hb'
      have := hb x (hl.subset hx)
      omega
    · intro x hx
      rcases List.mem_append.mp hx with hx | hx
      · have := hb x (hl.subset hx); omega
      · rw [List.mem_singleton.mp hx, he]; omega
  split
  · exact hsub _ (List.drop_sublist _ _)
  · exact hsub _ (List.Sublist.refl _)

theorem histFresh_step_publish {b : Broker} (hb : BrokerInv b) {n m : Nat} (hf : HistFresh b n) (hm : n ≤ m)
    (sess : SessKey → Option Session) (now : Nat) (p : Publication) (hp : p.pubId = pubBase + m) :
    HistFresh (b.step (.publish sess now p)) (m + 1) := by
  intro h' hh'
  have hhist : (b.step (.publish sess now p)).hist =
      b.hist.map (fun h => (b.matching p.topic).foldl (histUpd1 now p) h) := syncPublish_hist b sess now p
  rw [hhist] at hh'
  obtain ⟨h0, hh0, rfl⟩ := List.mem_map.mp hh'
  obtain ⟨s, hs, hid⟩ := hb.hist_sub h0 hh0
  rw [matching_foldl_store hb now p hs h0 hid.symm]
  split
  · exact histFresh_save (hf h0 hh0).1 (hf h0 hh0).2 hm hp
  · exact ⟨(hf h0 hh0).1, fun e he => Nat.lt_of_lt_of_le ((hf h0 hh0).2 e he) (by omega)⟩

theorem histFresh_run : ∀ (steps : List BStep) {b : Broker} {n n' : Nat}, BrokerInv b → HistFresh b n →
    Trace n steps n' → HistFresh (b.run steps) n'
  | [], b, n, n', _, hf, ht => hf.mono ht
  | e :: rest, b, n, n', hb, hf, ht => by
    show HistFresh ((b.step e).run rest) n'
    cases e with
    | publish sess now p =>
      obtain ⟨m, h1, h2, _, h4⟩ := ht
      exact histFresh_run rest (hb.step _) (histFresh_step_publish hb hf h1 sess now p h2) h4
    | subscribe k req topic m pub0 =>
      refine histFresh_run rest (hb.step _) ?_ ht
      unfold HistFresh; rw [step_hist_nonpublish hb _ (by intros; simp)]; exact hf
    | unsubscribe k req subId pub0 =>
      refine histFresh_run rest (hb.step _) ?_ ht
      unfold HistFresh; rw [step_hist_nonpublish hb _ (by intros; simp)]; exact hf
    | removeSession k pub0 =>
      refine histFresh_run rest (hb.step _) ?_ ht
      unfold HistFresh; rw [step_hist_nonpublish hb _ (by intros; simp)]; exact hf

theorem pairwise_lt_nodup {l : List Nat} (h : l.Pairwise (· < ·)) : l.Nodup :=
  h.imp (fun hab => Nat.ne_of_lt hab)

/-- in a reachable realm every history store holds strictly increasing (hence distinct) publication
    ids, all of them already drawn (`< pubBase + pubCount`) -/
theorem store_pubs_fresh {cfg : Config} {r : Realm} (h : Realm.Reachable cfg r) : HistFresh r.broker r.pubCount := by
  obtain ⟨steps, hb, ht⟩ := reachable_run h
  rw [hb]
  refine histFresh_run steps (BrokerInv.preInit cfg.strict cfg.allowDisclose cfg.history) ?_ ht
  intro x hx
  have := preInit_entries cfg.history ({ strict := cfg.strict, allowDisclose := cfg.allowDisclose } : Broker)
    (by intro h hh; cases hh) x hx
  rw [this]
  exact ⟨List.Pairwise.nil, fun e he => nomatch he⟩

/-- in a reachable realm no stored history entry carries a publisher key -/
theorem hist_clean_reachable {cfg : Config} {r : Realm} (h : Realm.Reachable cfg r) : HistClean r.broker := by
  obtain ⟨steps, hb, ht⟩ := reachable_run h
  rw [hb]
  refine HistClean.run steps (BrokerInv.preInit cfg.strict cfg.allowDisclose cfg.history) ?_
    (fun sess now p hm key hk => Trace.pubOk ht sess now p hm key (Or.inr hk))
  intro x hx e he
  rw [preInit_entries cfg.history _ (by intro h hh; cases hh) x hx] at he
  cases he

/-! ### the session table -/

theorem client?_of_isClient {r : Realm} {k : SessKey} (h : r.isClient k) :
    ∃ c, r.client? k = some c ∧ c.key = k := by
  obtain ⟨c, hc, hk⟩ := h
  unfold client?
  cases hf : r.clients.find? (fun c => c.key == k) with
  | none =>
    have := List.find?_eq_none.mp hf c hc
    simp [hk] at this
  | some c' => exact ⟨c', rfl, (find?_key hf).2⟩

theorem session?_of_att {r : Realm} (hm : r.metaS.key = metaKey) {k : SessKey} (h : r.att k) :
    ∃ c, r.session? k = some c ∧ c.key = k := by
  unfold session?
  by_cases hk : k = metaKey
  · rw [if_pos hk]; exact ⟨_, rfl, hm.trans hk.symm⟩
  · rw [if_neg hk]
    rcases h with h | h
    · exact absurd h hk
    · exact client?_of_isClient h

theorem sessCoherent_of_inv {r : Realm} (hm : r.metaS.key = metaKey) : SessCoherent r.session? := by
  intro k c h
  unfold session? at h
  split at h
  · rename_i hk
    cases h
    exact hm.trans hk.symm
  · exact (find?_key h).2

/-- In every reachable realm: the broker invariant holds, the session table is coherent, and every
    member of every subscription is an attached client (found in the session table under its key). -/
theorem reachable_realm {cfg : Config} {r : Realm} (h : Realm.Reachable cfg r) :
    BrokerInv r.broker ∧ SessCoherent r.session? ∧
    ∀ s ∈ r.broker.subs, ∀ k ∈ s.members,
      (∃ c, r.client? k = some c ∧ c.key = k) ∧ (∃ c, r.session? k = some c ∧ c.key = k) := by
  have hi := (Realm.Reachable.inv h).1
  refine ⟨hi.binv, sessCoherent_of_inv hi.metaKey, ?_⟩
  intro s hs k hk
  have hc : r.isClient k := hi.bmem k ⟨s, hs, hk⟩
  exact ⟨client?_of_isClient hc, session?_of_att hi.metaKey (Or.inr hc)⟩

/-! ### the message switch -/

/-- when the authorizer lets the message through it has queued nothing -/
theorem authzGate_cases (r : Realm) (s : Session) (m : Msg) :
    authzGate r s m = (true, r) ∨ (authzGate r s m).1 = false := by
  unfold authzGate
  dsimp only
  repeat' split
  all_goals first
    | exact Or.inl rfl
    | exact Or.inr rfl

theorem authzGate_pass (r : Realm) (s : Session) (m : Msg) (h : (authzGate r s m).1 = true) :
    (authzGate r s m).2 = r := by
  rcases authzGate_cases r s m with h1 | h1
  · rw [h1]
  · rw [h1] at h; cases h

/-- A message `m` from the attached client `k` (session record `s`), whose handler is neither
    ending nor busy in the yield retry loop, and which the authorizer allows, is handled by the
    handler of its type: `stepOp (.msg k m) = dispatch r s m`. -/
theorem stepOp_msg_dispatch (r : Realm) (k : SessKey) (s : Session) (m : Msg)
    (hc : r.client? k = some s) (he : r.ending.contains k = false) (hb : r.busy k = false)
    (ha : (authzGate r s m).1 = true) : r.stepOp (.msg k m) = Realm.dispatch r s m := by
  rw [stepOp_msg, recvMsg_eq]
  unfold client? at hc
  rw [hc]
  simp only [he, hb, Bool.false_eq_true, if_false]
  rw [handleMsg_eq, ha, if_pos rfl, authzGate_pass r s m ha]

/-- … and one the authorizer refuses changes nothing but the (at most one) error reply it queued -/
theorem stepOp_msg_denied (r : Realm) (k : SessKey) (s : Session) (m : Msg)
    (hc : r.client? k = some s) (he : r.ending.contains k = false) (hb : r.busy k = false)
    (ha : (authzGate r s m).1 = false) : r.stepOp (.msg k m) = (authzGate r s m).2 := by
  rw [stepOp_msg, recvMsg_eq]
  unfold client? at hc
  rw [hc]
  simp only [he, hb, Bool.false_eq_true, if_false]
  rw [handleMsg_eq, ha]
  rfl

end Nexus.L2.WpA
