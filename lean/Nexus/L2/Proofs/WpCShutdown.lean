/-
  `Router.shutdownRealm` (realm.close of Router.Close / RemoveRealm), realm-level helper lemmas for
  C06: what `Realm.leave k .shutdown` does field by field, the fold over all attached clients, and
  what `flush` then shows to the clients.
-/
import Nexus.L2.Router
import Nexus.L2.Proofs.RealmQueue
import Nexus.L2.Proofs.RealmLeave

namespace Nexus.L2.WpC
open Nexus.L2 Nexus.L2.Realm Gen.N

/-- the farewell of a realm that is closed -/
def byeMsg : Msg := .goodbye [] CloseSystemShutdown

/-! ### one departure in shutdown mode -/

theorem trySend_bye_tasks (r : Realm) (k : SessKey) : (r.trySend ⟨k, byeMsg⟩).tasks = r.tasks := by
  unfold trySend
  split
  · rfl
  · split
    · exact setPanic_tasks _ _
    · split
      · rfl
      · split <;> rfl

theorem shut_takeTestaments_fields (r : Realm) (k : SessKey) :
    (r.takeTestaments k).2.clients = r.clients ∧ (r.takeTestaments k).2.queues = r.queues ∧
    (r.takeTestaments k).2.closedPeers = r.closedPeers ∧ (r.takeTestaments k).2.ghosts = r.ghosts ∧
    (r.takeTestaments k).2.ending = r.ending ∧ (r.takeTestaments k).2.retries = r.retries ∧
    (r.takeTestaments k).2.deferred = r.deferred ∧ (r.takeTestaments k).2.inbox = r.inbox ∧
    (r.takeTestaments k).2.tasks = r.tasks := by
  unfold takeTestaments
  split <;> exact ⟨rfl, rfl, rfl, rfl, rfl, rfl, rfl, rfl, rfl⟩

theorem leaveRemove_quiet_eq (r : Realm) (k : SessKey) :
    leaveRemove r k true =
      ({ r with ds := (syncRemoveSession r.denv r.ds k).st, broker := (r.broker.syncRemoveSession k r.pubCount).1 } : Realm).setPanic
        (syncRemoveSession r.denv r.ds k).panic := rfl

theorem leaveRemove_quiet_fields (r : Realm) (k : SessKey) :
    (leaveRemove r k true).clients = r.clients ∧ (leaveRemove r k true).queues = r.queues ∧
    (leaveRemove r k true).closedPeers = r.closedPeers ∧ (leaveRemove r k true).ghosts = r.ghosts ∧
    (leaveRemove r k true).ending = r.ending ∧ (leaveRemove r k true).retries = r.retries ∧
    (leaveRemove r k true).deferred = r.deferred ∧ (leaveRemove r k true).inbox = r.inbox ∧
    (leaveRemove r k true).tasks = r.tasks ∧ (leaveRemove r k true).testaments = r.testaments := by
  rw [leaveRemove_quiet_eq]
  generalize (syncRemoveSession r.denv r.ds k).panic = p
  generalize (syncRemoveSession r.denv r.ds k).st = st
  generalize (r.broker.syncRemoveSession k r.pubCount).1 = b
  have f := setPanic_frame ({ r with ds := st, broker := b } : Realm) p
  exact ⟨f.clients, setPanic_queues _ _, f.closedPeers, f.ghosts, f.ending, f.retries, f.deferred, f.inbox,
    setPanic_tasks _ _, f.testaments⟩

/-- `leave k .shutdown` of an attached client, field by field: GOODBYE is offered to its queue
    (`trySend`), its testament bucket is dropped, its peer is closed; no task is created, nothing
    is sent to anybody else. -/
theorem leave_shutdown_fields {r : Realm} {k : SessKey} {s : Session}
    (hf : r.clients.find? (fun c => c.key == k) = some s) :
    (r.leave k .shutdown).clients = r.clients.filter (fun c => c.key != k) ∧
    (r.leave k .shutdown).queues = (r.trySend ⟨k, byeMsg⟩).queues ∧
    (r.leave k .shutdown).closedPeers = r.closedPeers ++ [k] ∧
    (r.leave k .shutdown).ghosts = (if s.stalled then r.ghosts ++ [k] else r.ghosts) ∧
    (r.leave k .shutdown).ending = r.ending.filter (· != k) ∧
    (r.leave k .shutdown).testaments = r.testaments.filter (fun t => t.1 != k) ∧
    (r.leave k .shutdown).retries = r.retries ∧ (r.leave k .shutdown).deferred = r.deferred ∧
    (r.leave k .shutdown).inbox = r.inbox ∧ (r.leave k .shutdown).tasks = r.tasks := by
  have hsk : s.key = k := (find?_key hf).2
  rw [leave_some .shutdown hf]
  have e1 : leaveSend r k .shutdown = r.trySend ⟨k, byeMsg⟩ := rfl
  have eS : LeaveMode.shutdown.isShutdown = true := rfl
  rw [e1, eS]
  have f1 := trySend_frame r ⟨k, byeMsg⟩
  obtain ⟨t1, t2, t3, t4, t5, t6, t7, t8, t9⟩ := shut_takeTestaments_fields (r.trySend ⟨k, byeMsg⟩) k
  obtain ⟨l1, l2, l3, l4, l5, l6, l7, l8, l9, l10⟩ :=
    leaveRemove_quiet_fields ((r.trySend ⟨k, byeMsg⟩).takeTestaments k).2 k
  have ha : ∀ (x : Realm) (t : Option TBucket), leaveAnnounce x s t true = x := fun _ _ => rfl
  rw [ha]
  unfold leaveClose
  rw [hsk]
  refine ⟨?_, ?_, ?_, ?_, ?_, ?_, ?_, ?_, ?_, ?_⟩
  · show List.filter _ (leaveRemove _ k true).clients = _
    rw [l1, t1, f1.clients]
  · show (leaveRemove _ k true).queues = _
    rw [l2, t2]
  · show (leaveRemove _ k true).closedPeers ++ [k] = _
    rw [l3, t3, f1.closedPeers]
  · show (if s.stalled then (leaveRemove _ k true).ghosts ++ [k] else (leaveRemove _ k true).ghosts) = _
    rw [l4, t4, f1.ghosts]
  · show List.filter _ (leaveRemove _ k true).ending = _
    rw [l5, t5, f1.ending]
  · show (leaveRemove _ k true).testaments = _
    rw [l10, (takeTestaments_table _ k).1, f1.testaments]
  · show (leaveRemove _ k true).retries = _
    rw [l6, t6, f1.retries]
  · show (leaveRemove _ k true).deferred = _
    rw [l7, t7, f1.deferred]
  · show (leaveRemove _ k true).inbox = _
    rw [l8, t8, f1.inbox]
  · show (leaveRemove _ k true).tasks = _
    rw [l9, t9, trySend_bye_tasks]

/-! ### the queue table -/

/-- the queue table after client `c` has been offered the farewell: GOODBYE is appended to its
    queue if there is room (a client that — in the model only — carries the meta key is never
    queued anything) -/
def sayBye (qs : List (SessKey × List Msg)) (c : Session) : List (SessKey × List Msg) :=
  if c.key ≠ metaKey ∧ (qlook qs c.key).length < c.cap then enq qs c.key byeMsg else qs

theorem trySend_bye_queues {r : Realm} {c : Session} (hc : r.client? c.key = some c) :
    (r.trySend ⟨c.key, byeMsg⟩).queues = sayBye r.queues c := by
  unfold sayBye
  by_cases hm : c.key = metaKey
  · rw [(trySend_meta r ⟨c.key, byeMsg⟩ hm).1, if_neg (fun h => h.1 hm)]
  · rw [trySend_client r ⟨c.key, byeMsg⟩ hm hc, queueLen_eq, queueOf_eq]
    by_cases hfull : (qlook r.queues c.key).length ≥ c.cap
    · rw [if_pos hfull, if_neg (fun h => by omega)]
    · rw [if_neg hfull, if_pos ⟨hm, by omega⟩]

theorem qlook_sayBye (qs : List (SessKey × List Msg)) (c : Session) (k : SessKey) :
    qlook (sayBye qs c) k =
      if k = c.key ∧ c.key ≠ metaKey ∧ (qlook qs c.key).length < c.cap then qlook qs k ++ [byeMsg] else qlook qs k := by
  unfold sayBye
  by_cases h : c.key ≠ metaKey ∧ (qlook qs c.key).length < c.cap
  · rw [if_pos h, qlook_enq]
    by_cases e : k = c.key
    · rw [if_pos e, if_pos ⟨e, h⟩]
    · rw [if_neg e, if_neg (fun x => e x.1)]
  · rw [if_neg h, if_neg (fun x => h x.2)]

/-! ### all attached clients leave -/

/-- the state after the clients `cs` (distinct keys, all attached) have left `r` in shutdown mode -/
structure ShutFold (r : Realm) (cs : List Session) (rf : Realm) : Prop where
  inv : RealmInv rf
  panic : rf.panic = r.panic
  clients : rf.clients = r.clients.filter (fun c => !(cs.map (·.key)).contains c.key)
  queues : rf.queues = cs.foldl sayBye r.queues
  closedPeers : rf.closedPeers = r.closedPeers ++ cs.map (·.key)
  ghosts : rf.ghosts = r.ghosts ++ (cs.filter (·.stalled)).map (·.key)
  ending : rf.ending = r.ending.filter (fun k => !(cs.map (·.key)).contains k)
  testaments : rf.testaments = r.testaments.filter (fun t => !(cs.map (·.key)).contains t.1)
  retries : rf.retries = r.retries
  deferred : rf.deferred = r.deferred
  inbox : rf.inbox = r.inbox
  tasks : rf.tasks = r.tasks

theorem shut_find?_filter_ne {l : List Session} {k k' : SessKey} (h : k' ≠ k) :
    (l.filter (fun c => c.key != k)).find? (fun c => c.key == k') = l.find? (fun c => c.key == k') := by
  induction l with
  | nil => rfl
  | cons a l ih =>
    by_cases e : a.key = k
    · have hb1 : (a.key != k) = false := by simp [e]
      have hb2 : (a.key == k') = false := by
        rw [e]; simpa using fun x : k = k' => h x.symm
      simp only [List.filter_cons, hb1, List.find?_cons, hb2, Bool.false_eq_true, if_false]
      exact ih
    · have hb1 : (a.key != k) = true := by simpa using e
      simp only [List.filter_cons, hb1, if_true, List.find?_cons]
      cases (a.key == k')
      · exact ih
      · rfl

theorem foldl_leave_shutdown : ∀ (cs : List Session) (r : Realm), RealmInv r → r.retries = [] →
    (cs.map (·.key)).Nodup → (∀ c ∈ cs, r.clients.find? (fun x => x.key == c.key) = some c) →
    ShutFold r cs (cs.foldl (fun r c => r.leave c.key .shutdown) r)
  | [], r, hi, _, _, _ => by
    refine ⟨hi, rfl, ?_, rfl, by simp, by simp, ?_, ?_, rfl, rfl, rfl, rfl⟩ <;>
      exact (List.filter_eq_self.mpr (fun _ _ => rfl)).symm
  | c :: cs, r, hi, hr, hn, hf => by
    have hfc := hf c (List.mem_cons_self ..)
    obtain ⟨f1, f2, f3, f4, f5, f6, f7, f8, f9, f10⟩ := leave_shutdown_fields hfc
    obtain ⟨i1, p1, _, _⟩ := leave_inv hi c.key .shutdown (by rw [hr]; intro x hx; cases hx)
    have hn' : c.key ∉ cs.map (·.key) ∧ (cs.map (·.key)).Nodup := List.nodup_cons.mp hn
    have hne : ∀ c' ∈ cs, c'.key ≠ c.key := fun c' hc' e => hn'.1 (List.mem_map.mpr ⟨c', hc', e⟩)
    have hf1 : ∀ c' ∈ cs, (r.leave c.key .shutdown).clients.find? (fun x => x.key == c'.key) = some c' := by
      intro c' hc'
      rw [f1, shut_find?_filter_ne (hne c' hc')]
      exact hf c' (List.mem_cons_of_mem _ hc')
    have ih := foldl_leave_shutdown cs (r.leave c.key .shutdown) i1 (by rw [f7, hr]) hn'.2 hf1
    rw [List.foldl_cons]
    refine ⟨ih.inv, ih.panic.trans p1, ?_, ?_, ?_, ?_, ?_, ?_, ih.retries.trans f7, ih.deferred.trans f8,
      ih.inbox.trans f9, ih.tasks.trans f10⟩
    · rw [ih.clients, f1, List.filter_filter]
      apply List.filter_congr
      intro x _
      simp only [List.map_cons, List.contains_cons]
      cases h1 : (List.map (fun x => x.key) cs).contains x.key <;> cases h2 : (x.key == c.key) <;> simp [bne, h2]
    · rw [ih.queues, f2, trySend_bye_queues hfc, List.foldl_cons]
    · rw [ih.closedPeers, f3]; simp
    · rw [ih.ghosts, f4]
      cases hs : c.stalled <;> simp [hs]
    · rw [ih.ending, f5, List.filter_filter]
      apply List.filter_congr
      intro x _
      simp only [List.map_cons, List.contains_cons]
      cases h1 : (List.map (fun x => x.key) cs).contains x <;> cases h2 : (x == c.key) <;> simp [bne, h2]
    · rw [ih.testaments, f6, List.filter_filter]
      apply List.filter_congr
      intro x _
      simp only [List.map_cons, List.contains_cons]
      cases h1 : (List.map (fun x => x.key) cs).contains x.1 <;> cases h2 : (x.1 == c.key) <;> simp [bne, h2]

/-! ### the queue table after all farewells -/

theorem qlook_foldl_sayBye_other : ∀ (cs : List Session) (qs : List (SessKey × List Msg)) (k : SessKey),
    (∀ c ∈ cs, c.key ≠ k) → qlook (cs.foldl sayBye qs) k = qlook qs k
  | [], _, _, _ => rfl
  | c :: cs, qs, k, h => by
    rw [List.foldl_cons, qlook_foldl_sayBye_other cs _ k (fun c' hc' => h c' (List.mem_cons_of_mem _ hc')),
      qlook_sayBye, if_neg (fun x => h c (List.mem_cons_self ..) x.1.symm)]

theorem qlook_foldl_sayBye_client : ∀ (cs : List Session) (qs : List (SessKey × List Msg)),
    (cs.map (·.key)).Nodup → ∀ c ∈ cs,
    qlook (cs.foldl sayBye qs) c.key =
      if c.key ≠ metaKey ∧ (qlook qs c.key).length < c.cap then qlook qs c.key ++ [byeMsg] else qlook qs c.key
  | [], _, _, c, hc => nomatch hc
  | a :: cs, qs, hn, c, hc => by
    have hn' : a.key ∉ cs.map (·.key) ∧ (cs.map (·.key)).Nodup := List.nodup_cons.mp hn
    rw [List.foldl_cons]
    rcases List.mem_cons.mp hc with rfl | hc'
    · rw [qlook_foldl_sayBye_other cs _ c.key (fun c' hc' e => hn'.1 (List.mem_map.mpr ⟨c', hc', e⟩)), qlook_sayBye]
      by_cases h : c.key ≠ metaKey ∧ (qlook qs c.key).length < c.cap
      · rw [if_pos h, if_pos ⟨rfl, h⟩]
      · rw [if_neg h, if_neg (fun x => h x.2)]
    · have hne : c.key ≠ a.key := fun e => hn'.1 (List.mem_map.mpr ⟨c, hc', e⟩)
      have e : qlook (sayBye qs a) c.key = qlook qs c.key := by
        rw [qlook_sayBye, if_neg (fun x => hne x.1)]
      rw [qlook_foldl_sayBye_client cs (sayBye qs a) hn'.2 c hc', e]

/-- entry level: what `enq` can produce -/
theorem shut_mem_enq {qs : List (SessKey × List Msg)} {k : SessKey} {m : Msg} {q : SessKey × List Msg}
    (h : q ∈ enq qs k m) :
    (q ∈ qs ∧ q.1 ≠ k) ∨ (q.1 = k ∧ ((∃ q0 ∈ qs, q0.1 = k ∧ q.2 = q0.2 ++ [m]) ∨ q.2 = [m])) := by
  unfold enq at h
  split at h
  · obtain ⟨q0, hq0, rfl⟩ := List.mem_map.mp h
    by_cases e : q0.1 = k
    · have hb : (q0.1 == k) = true := by simpa using e
      simp only [hb, if_true]
      exact Or.inr ⟨e, Or.inl ⟨q0, hq0, e, rfl⟩⟩
    · have hb : (q0.1 == k) = false := by simpa using e
      simp only [hb, Bool.false_eq_true, if_false]
      exact Or.inl ⟨hq0, e⟩
  · rename_i hany
    rcases List.mem_append.mp h with h | h
    · refine Or.inl ⟨h, fun e => hany ?_⟩
      exact List.any_eq_true.mpr ⟨q, h, by simpa using e⟩
    · rw [List.mem_singleton.mp h]
      exact Or.inr ⟨rfl, Or.inr rfl⟩

/-- entry level: every buffer of the table after the farewells is an old buffer, or the buffer of
    one of the clients with one GOODBYE appended, or the single GOODBYE -/
theorem mem_foldl_sayBye : ∀ (cs : List Session) (qs : List (SessKey × List Msg)), (cs.map (·.key)).Nodup →
    ∀ q ∈ cs.foldl sayBye qs,
      q ∈ qs ∨ ∃ c ∈ cs, q.1 = c.key ∧ c.key ≠ metaKey ∧
        ((∃ q0 ∈ qs, q0.1 = c.key ∧ q.2 = q0.2 ++ [byeMsg]) ∨ q.2 = [byeMsg])
  | [], _, _, q, hq => Or.inl hq
  | a :: cs, qs, hn, q, hq => by
    have hn' : a.key ∉ cs.map (·.key) ∧ (cs.map (·.key)).Nodup := List.nodup_cons.mp hn
    rw [List.foldl_cons] at hq
    -- entries of `sayBye qs a`
    have hstep : ∀ x ∈ sayBye qs a, (x ∈ qs ∧ (x.1 = a.key → sayBye qs a = qs)) ∨
        (x.1 = a.key ∧ a.key ≠ metaKey ∧
          ((∃ q0 ∈ qs, q0.1 = a.key ∧ x.2 = q0.2 ++ [byeMsg]) ∨ x.2 = [byeMsg])) := by
      intro x hx
      unfold sayBye at hx ⊢
      split at hx
      · rename_i hc
        rw [if_pos hc]
        rcases shut_mem_enq hx with ⟨h1, h2⟩ | ⟨h1, h2⟩
        · exact Or.inl ⟨h1, fun e => absurd e h2⟩
        · exact Or.inr ⟨h1, hc.1, h2⟩
      · rename_i hc
        rw [if_neg hc]
        exact Or.inl ⟨hx, fun _ => rfl⟩
    rcases mem_foldl_sayBye cs (sayBye qs a) hn'.2 q hq with h | ⟨c, hc, hk, hm, h⟩
    · rcases hstep q h with ⟨h1, _⟩ | ⟨h1, h2, h3⟩
      · exact Or.inl h1
      · refine Or.inr ⟨a, List.mem_cons_self .., h1, h2, ?_⟩
        exact h3
    · refine Or.inr ⟨c, List.mem_cons_of_mem _ hc, hk, hm, ?_⟩
      have hne : c.key ≠ a.key := fun e => hn'.1 (List.mem_map.mpr ⟨c, hc, e⟩)
      rcases h with ⟨q0, hq0, e0, e1⟩ | h
      · rcases hstep q0 hq0 with ⟨h1, _⟩ | ⟨h1, _, _⟩
        · exact Or.inl ⟨q0, h1, e0, e1⟩
        · exact absurd (e0.symm.trans h1) hne
      · exact Or.inr h

/-! ### what the clients see once nobody is attached -/

/-- `flush` of a realm without attached clients: everybody who is not a ghost reads -/
theorem shut_flush_noclients (r : Realm) (hc : r.clients = []) :
    r.flush.1.out = r.queues.filter (fun q => !r.ghosts.contains q.1 && !q.2.isEmpty) ∧
    r.flush.1.closed = r.closedPeers.filter (fun k => !r.ghosts.contains k) ∧
    r.flush.2.queues =
      r.queues.filter (fun q => r.ghosts.contains q.1) ++
        (r.queues.filter (fun q => !r.ghosts.contains q.1 && !r.closedPeers.contains q.1)).map (fun q => (q.1, [])) ∧
    r.flush.2.closedPeers = r.closedPeers.filter (fun k => r.ghosts.contains k) := by
  have hread : ∀ b : Bool, (if b = true then false else true) = !b := by
    intro b; cases b <;> rfl
  unfold Realm.flush
  simp only [hc, List.find?_nil, hread, Bool.not_not, and_self]

theorem shut_flush_fields (r : Realm) :
    r.flush.2.clients = r.clients ∧ r.flush.2.ghosts = r.ghosts ∧ r.flush.2.ending = r.ending ∧
    r.flush.2.testaments = r.testaments ∧ r.flush.2.retries = r.retries ∧ r.flush.2.deferred = r.deferred ∧
    r.flush.2.inbox = r.inbox ∧ r.flush.2.tasks = r.tasks ∧ r.flush.2.ds = r.ds ∧ r.flush.2.broker = r.broker :=
  ⟨rfl, rfl, rfl, rfl, rfl, rfl, rfl, rfl, rfl, rfl⟩

/-! ### `Router.shutdownRealm` -/

/-- the realm with the sleeping handlers woken up (`recvDone`): what `shutdownRealm` starts from -/
def woken (r : Realm) : Realm := { r with retries := [], deferred := [], inbox := [], tasks := [] }

/-- the state when every session handler has exited, before the clients look -/
def shutFold (r : Realm) : Realm := r.clients.foldl (fun r c => r.leave c.key .shutdown) (woken r)

theorem shutdownRealm_eq (r : Realm) : Router.shutdownRealm r = (shutFold r).flush := rfl

theorem woken_inv {r : Realm} (hi : RealmInv r) : RealmInv (woken r) :=
  hi.of_parts rfl hi.binv hi.dinv hi.bmem hi.dref hi.callers (fun _ hx => nomatch hx) (fun _ ht => nomatch ht)
    (fun _ he => nomatch he) rfl

theorem shutFold_spec {r : Realm} (hi : RealmInv r) (hn : (r.clients.map (·.key)).Nodup) :
    ShutFold (woken r) r.clients (shutFold r) ∧ (shutFold r).clients = [] := by
  have h := foldl_leave_shutdown r.clients (woken r) (woken_inv hi) rfl hn
    (fun c hc => client?_of_mem (r := r) hn hc)
  refine ⟨h, ?_⟩
  have hc := h.clients
  unfold shutFold
  rw [hc]
  apply List.filter_eq_nil_iff.mpr
  intro a ha
  have : (r.clients.map (·.key)).contains a.key = true :=
    List.contains_iff_mem.mpr (List.mem_map.mpr ⟨a, ha, rfl⟩)
  show ¬ (!(r.clients.map (·.key)).contains a.key) = true
  rw [this]; simp

theorem shut_eq_of_key {r : Realm} (hn : (r.clients.map (·.key)).Nodup) {c c' : Session} (hc : c ∈ r.clients)
    (hc' : c' ∈ r.clients) (h : c'.key = c.key) : c' = c := by
  have h1 := client?_of_mem hn hc
  have h2 := client?_of_mem hn hc'
  rw [h, h1] at h2
  exact (Option.some.inj h2).symm

/-- who is a ghost when all handlers have exited: the old ghosts and the clients that were not reading -/
theorem ghosts_after {r : Realm} (hi : RealmInv r) (hn : (r.clients.map (·.key)).Nodup) {c : Session}
    (hc : c ∈ r.clients) : c.key ∈ (shutFold r).ghosts ↔ c.key ∈ r.ghosts ∨ c.stalled = true := by
  rw [(shutFold_spec hi hn).1.ghosts]
  show c.key ∈ r.ghosts ++ _ ↔ _
  rw [List.mem_append]
  constructor
  · rintro (h | h)
    · exact Or.inl h
    · obtain ⟨c', hc', e⟩ := List.mem_map.mp h
      obtain ⟨hm, hs⟩ := List.mem_filter.mp hc'
      rw [shut_eq_of_key hn hc hm e] at hs
      exact Or.inr hs
  · rintro (h | h)
    · exact Or.inl h
    · exact Or.inr (List.mem_map.mpr ⟨c, List.mem_filter.mpr ⟨hc, h⟩, rfl⟩)

theorem shut_mem_of_qlook {qs : List (SessKey × List Msg)} {k : SessKey} (h : qlook qs k ≠ []) :
    (k, qlook qs k) ∈ qs := by
  unfold qlook at h ⊢
  cases hf : qs.find? (fun q => q.1 == k) with
  | none => rw [hf] at h; exact absurd rfl h
  | some q =>
    have h1 := List.mem_of_find?_eq_some hf
    have h2 : q.1 = k := by simpa using List.find?_some hf
    obtain ⟨a, b⟩ := q
    cases h2
    exact h1

/-- what stays buffered after the flush of a realm without clients: the queues of the ghosts -/
theorem shut_queueOf_flush (r : Realm) (hc : r.clients = []) (k : SessKey) :
    r.flush.2.queueOf k = if r.ghosts.contains k then r.queueOf k else [] := by
  rw [queueOf_eq, (shut_flush_noclients r hc).2.2.1, qlook_append,
    qlook_filter_key (fun k => r.ghosts.contains k) r.queues k]
  have he : qlook ((r.queues.filter (fun q => !r.ghosts.contains q.1 && !r.closedPeers.contains q.1)).map
      (fun q => (q.1, ([] : List Msg)))) k = [] :=
    qlook_all_empty (by
      intro q hq
      obtain ⟨q0, _, rfl⟩ := List.mem_map.mp hq
      rfl) k
  rw [he]
  split
  · rfl
  · rename_i hany
    split
    · rename_i hg
      have : qlook (r.queues.filter (fun q => r.ghosts.contains q.1)) k = [] := by
        apply qlook_of_not_mem
        intro q hq e
        exact hany (List.any_eq_true.mpr ⟨q, hq, by simpa using e⟩)
      rw [qlook_filter_key (fun k => r.ghosts.contains k) r.queues k, if_pos hg] at this
      rw [queueOf_eq, this]
    · rfl

theorem shut_qinv_foldl_leave : ∀ (cs : List Session) {r : Realm}, QueueInv r →
    QueueInv (cs.foldl (fun r c => r.leave c.key .shutdown) r)
  | [], _, h => h
  | c :: cs, _, h => shut_qinv_foldl_leave cs (qinv_leave h c.key .shutdown)

theorem shutdownRealm_qinv {r : Realm} (h : QueueInv r) : QueueInv (Router.shutdownRealm r).2 := by
  rw [shutdownRealm_eq]
  exact qinv_flush (shut_qinv_foldl_leave r.clients (qinv_congr (r := r) (r' := woken r) rfl rfl rfl rfl h))

/-! ### concrete states (for non-vacuity examples) -/

/-- a realm with empty broker and dealer tables and nothing pending satisfies the invariant,
    whoever is attached -/
theorem shut_rinv_plain (cl : List Session) (qs : List (SessKey × List Msg)) (g cp : List SessKey) :
    RealmInv ({ clients := cl, queues := qs, ghosts := g, closedPeers := cp } : Realm) := by
  refine ⟨BrokerInv.empty false false, DealerInv.init false false, ?_, ?_, ?_, ?_, ?_, ?_, rfl⟩
  · rintro k ⟨s, hs, _⟩; cases hs
  · rintro k (⟨id, g, hg, _⟩ | ⟨c, hc, _⟩ | ⟨v, hv, _⟩ | ⟨e, he, _⟩)
    · cases hg
    · cases hc
    · cases hv
    · cases he
  · intro c hc; cases hc
  · intro x hx; cases hx
  · intro t ht; cases ht
  · intro e he; cases he

/-- three clients: 1 reads and has room, 2 has stopped reading, 3 reads and its queue is full -/
def shutExRealm : Realm :=
  { clients := [{ key := 1, details := [], roles := [], isLocal := false, cap := 2 },
                { key := 2, details := [], roles := [], isLocal := false, cap := 1, stalled := true },
                { key := 3, details := [], roles := [], isLocal := true, cap := 1 }],
    queues := [(1, []), (2, []), (3, [.other 99])] }

/-- a client carrying the meta key (model artefact; the router never hands out session id 1) -/
def shutExRealmKey0 : Realm :=
  { clients := [{ key := metaKey, details := [], roles := [], isLocal := false, cap := 2 }],
    queues := [(metaKey, [])] }

end Nexus.L2.WpC
