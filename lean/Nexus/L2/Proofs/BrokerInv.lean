/-
  The broker invariant `BrokerInv` (DESIGN.md Appendix B): stated, proved for the
  pre-initialised broker and proved to be preserved by every `sync*` transition of
  `Nexus.L2.Broker`.

  Assumption (explicit): the subscription id generator does not wrap — `nextSub` is a
  `Nat` in the model, the `< 2^53` bound of `wamp.IDGen` is not modelled.
-/
import Nexus.L2.Proofs.Broker

namespace Nexus.L2
open Gen.N

/-! ### the per-session index (`sessionSubIDSet`) -/


structure IdxWF (ix : List (SessKey × List Nat)) : Prop where
  keys : (ix.map (·.1)).Nodup
  nonempty : ∀ e ∈ ix, e.2 ≠ []
  ids : ∀ e ∈ ix, e.2.Nodup

def idxRel (ix : List (SessKey × List Nat)) (k : SessKey) (id : Nat) : Prop :=
  id ∈ (idxGet ix k).getD []

theorem idxGet_nil (k : SessKey) : idxGet [] k = none := rfl

theorem idxGet_cons (e : SessKey × List Nat) (ix) (k : SessKey) :
    idxGet (e :: ix) k = if e.1 = k then some e.2 else idxGet ix k := by
  unfold idxGet
  by_cases h : e.1 = k <;> simp [h]

theorem idxGet_eq_none {ix : List (SessKey × List Nat)} {k : SessKey} :
    idxGet ix k = none ↔ k ∉ ix.map (·.1) := by
  induction ix with
  | nil => simp [idxGet_nil]
  | cons e ix ih => rw [idxGet_cons]; by_cases h : e.1 = k <;> grind

theorem idxGet_some_mem {ix : List (SessKey × List Nat)} {k : SessKey} {ids : List Nat}
    (h : idxGet ix k = some ids) : (k, ids) ∈ ix := by
  induction ix with
  | nil => simp [idxGet_nil] at h
  | cons e ix ih =>
    rw [idxGet_cons] at h
    by_cases hk : e.1 = k <;> grind

theorem mem_iff_idxGet {ix : List (SessKey × List Nat)} (hk : (ix.map (·.1)).Nodup) {k : SessKey}
    {ids : List Nat} : (k, ids) ∈ ix ↔ idxGet ix k = some ids := by
  refine ⟨?_, idxGet_some_mem⟩
  induction ix with
  | nil => simp
  | cons e ix ih =>
    intro h
    rw [idxGet_cons]
    grind


theorem idxRel_iff_mem {ix} (hw : IdxWF ix) {k id} :
    idxRel ix k id ↔ ∃ ids, (k, ids) ∈ ix ∧ id ∈ ids := by
  unfold idxRel
  constructor
  · intro h
    cases hg : idxGet ix k with
    | none => simp [hg] at h
    | some ids => exact ⟨ids, idxGet_some_mem hg, by simpa [hg] using h⟩
  · rintro ⟨ids, hm, hi⟩
    rw [(mem_iff_idxGet hw.keys).mp hm]; simpa using hi

/-! idxDrop -/
theorem IdxWF.drop {ix} (hw : IdxWF ix) (k : SessKey) : IdxWF (idxDrop ix k) := by
  unfold idxDrop
  refine ⟨?_, ?_, ?_⟩
  · exact (List.filter_sublist.map _).nodup hw.keys
  · intro e he; exact hw.nonempty e (List.mem_filter.mp he).1
  · intro e he; exact hw.ids e (List.mem_filter.mp he).1

theorem idxRel_drop {ix} (hw : IdxWF ix) (k k' : SessKey) (id : Nat) :
    idxRel (idxDrop ix k) k' id ↔ idxRel ix k' id ∧ k' ≠ k := by
  rw [idxRel_iff_mem (hw.drop k), idxRel_iff_mem hw]
  unfold idxDrop
  simp only [List.mem_filter]
  grind

/-! idxDel -/
theorem IdxWF.del {ix} (hw : IdxWF ix) (k : SessKey) (id : Nat) : IdxWF (idxDel ix k id) := by
  unfold idxDel
  refine ⟨?_, ?_, ?_⟩
  · refine (List.filter_sublist.map _).nodup ?_
    have : (ix.map (fun p => if p.1 == k then (k, p.2.filter (· != id)) else p)).map (·.1) = ix.map (·.1) := by
      rw [List.map_map]; apply List.map_congr_left; intro p _; by_cases h : p.1 = k <;> simp [h]
    rw [this]; exact hw.keys
  · intro e he
    simp only [List.mem_filter, List.mem_map] at he
    obtain ⟨⟨p, hp, rfl⟩, h2⟩ := he
    have := hw.nonempty p hp
    by_cases h : p.1 = k <;> simp_all
  · intro e he
    simp only [List.mem_filter, List.mem_map] at he
    obtain ⟨⟨p, hp, rfl⟩, h2⟩ := he
    have := hw.ids p hp
    by_cases h : p.1 = k
    · simp [h]; exact this.filter _
    · simpa [h] using this

theorem idxRel_del {ix} (hw : IdxWF ix) (k k' : SessKey) (id id' : Nat) :
    idxRel (idxDel ix k id) k' id' ↔ idxRel ix k' id' ∧ ¬(k' = k ∧ id' = id) := by
  rw [idxRel_iff_mem (hw.del k id), idxRel_iff_mem hw]
  unfold idxDel
  simp only [List.mem_filter, List.mem_map]
  constructor
  · rintro ⟨ids, ⟨⟨p, hp, he⟩, h2⟩, hi⟩
    by_cases h : p.1 = k
    · simp [h] at he; obtain ⟨rfl, rfl⟩ := he
      simp at hi
      exact ⟨⟨p.2, by rw [← h]; exact hp, hi.1⟩, by simp [hi.2]⟩
    · simp [h] at he; subst he
      exact ⟨⟨ids, hp, hi⟩, fun hh => h hh.1⟩
  · rintro ⟨⟨ids, hm, hi⟩, hne⟩
    by_cases h : k' = k
    · subst h
      refine ⟨ids.filter (· != id), ⟨⟨(k', ids), hm, by simp⟩, ?_⟩, ?_⟩
      · simp; exact ⟨id', hi, by simpa using hne⟩
      · simp; exact ⟨hi, by simpa using hne⟩
    · exact ⟨ids, ⟨⟨(k', ids), hm, by simp [h]⟩, by simp [h]⟩, hi⟩


theorem IdxWF.add {ix} (hw : IdxWF ix) (k : SessKey) (id : Nat) : IdxWF (idxAdd ix k id) := by
  unfold idxAdd
  cases hg : idxGet ix k with
  | none =>
    simp only
    have hk := idxGet_eq_none.mp hg
    refine ⟨?_, ?_, ?_⟩
    · rw [List.map_append, List.nodup_append]
      refine ⟨hw.keys, by simp, ?_⟩
      intro a ha b hb; simp at hb; subst hb; intro h; subst h; exact hk ha
    · intro e he; rcases List.mem_append.mp he with h | h
      · exact hw.nonempty e h
      · simp at h; subst h; simp
    · intro e he; rcases List.mem_append.mp he with h | h
      · exact hw.ids e h
      · simp at h; subst h; simp
  | some ids =>
    simp only
    have hm := idxGet_some_mem hg
    by_cases hc : ids.contains id = true
    · rw [if_pos hc]; exact hw
    · rw [if_neg hc]
      refine ⟨?_, ?_, ?_⟩
      · have : (ix.map (fun p => if p.1 == k then (k, ids ++ [id]) else p)).map (·.1) = ix.map (·.1) := by
          rw [List.map_map]; apply List.map_congr_left; intro p _; by_cases h : p.1 = k <;> simp [h]
        rw [this]; exact hw.keys
      · intro e he
        simp only [List.mem_map] at he
        obtain ⟨p, hp, rfl⟩ := he
        have := hw.nonempty p hp
        by_cases h : p.1 = k <;> simp_all
      · intro e he
        simp only [List.mem_map] at he
        obtain ⟨p, hp, rfl⟩ := he
        by_cases h : p.1 = k
        · simp [h]
          have := hw.ids _ hm
          rw [List.nodup_append]
          refine ⟨this, by simp, ?_⟩
          intro a ha b hb; simp at hb; subst hb; intro h; subst h; simp at hc; exact hc ha
        · simpa [h] using hw.ids p hp

theorem idxRel_add {ix} (hw : IdxWF ix) (k k' : SessKey) (id id' : Nat) :
    idxRel (idxAdd ix k id) k' id' ↔ idxRel ix k' id' ∨ (k' = k ∧ id' = id) := by
  rw [idxRel_iff_mem (hw.add k id), idxRel_iff_mem hw]
  unfold idxAdd
  cases hg : idxGet ix k with
  | none =>
    simp only [List.mem_append, List.mem_singleton, Prod.mk.injEq]
    grind
  | some ids =>
    simp only
    have hm := idxGet_some_mem hg
    by_cases hc : ids.contains id = true
    · simp only [hc, if_true]
      simp at hc
      grind
    · simp only [hc, Bool.false_eq_true, if_false, List.mem_map]
      constructor
      · rintro ⟨ids', ⟨p, hp, he⟩, hi⟩
        by_cases h : p.1 = k
        · simp [h] at he; obtain ⟨rfl, rfl⟩ := he
          have : p.2 = ids := by
            have := (mem_iff_idxGet hw.keys (k := p.1) (ids := p.2)).mp hp
            rw [h, hg] at this; exact (Option.some.inj this).symm
          simp at hi
          rcases hi with hi | hi
          · left; exact ⟨ids, hm, hi⟩
          · right; exact ⟨rfl, hi⟩
        · simp [h] at he; subst he
          left; exact ⟨ids', hp, hi⟩
      · rintro (⟨ids', hm', hi⟩ | ⟨rfl, rfl⟩)
        · by_cases h : k' = k
          · subst h
            have : ids' = ids := by
              have := (mem_iff_idxGet hw.keys).mp hm'
              rw [hg] at this; exact (Option.some.inj this).symm
            subst this
            exact ⟨ids' ++ [id], ⟨(k', ids'), hm', by simp⟩, by simp [hi]⟩
          · exact ⟨ids', ⟨(k', ids'), hm', by simp [h]⟩, hi⟩
        · exact ⟨ids ++ [id'], ⟨(k', ids), hm, by simp⟩, by simp⟩

/-! ### the invariant -/

/-- session `k` is a member of the subscription with id `id` -/
def Broker.isMember (b : Broker) (k : SessKey) (id : Nat) : Prop :=
  ∃ s ∈ b.subs, s.id = id ∧ k ∈ s.members

structure BrokerInv (b : Broker) : Prop where
  /-- subscription ids are pairwise distinct -/
  ids_nodup : (b.subs.map (·.id)).Nodup
  /-- … positive and at most the generator's counter -/
  ids_pos : ∀ s ∈ b.subs, 0 < s.id ∧ s.id ≤ b.nextSub
  /-- at most one subscription per (topic, kind) -/
  topic_unique : ∀ s ∈ b.subs, ∀ t ∈ b.subs, s.topic = t.topic → s.kind = t.kind → s = t
  /-- member lists are duplicate-free -/
  members_nodup : ∀ s ∈ b.subs, s.members.Nodup
  /-- index: keys distinct, no empty entry, id sets duplicate-free -/
  index_wf : IdxWF b.index
  /-- index agrees with membership -/
  index_iff : ∀ k id, idxRel b.index k id ↔ b.isMember k id
  /-- a subscription without members exists only if it has a history store -/
  empty_hist : ∀ s ∈ b.subs, s.members = [] → b.hasHist s.id = true
  /-- every history store belongs to an existing subscription -/
  hist_sub : ∀ h ∈ b.hist, ∃ s ∈ b.subs, s.id = h.sub
  /-- at most one store per subscription -/
  hist_nodup : (b.hist.map (·.sub)).Nodup
  /-- a store holds at most `limit` entries -/
  hist_len : ∀ h ∈ b.hist, 0 < h.limit → h.entries.length ≤ h.limit

/-! ### lookups -/

theorem findTopic_some {b : Broker} {t : String} {k : MatchKind} {s : Sub}
    (h : b.findTopic t k = some s) : s ∈ b.subs ∧ s.kind = k ∧ s.topic = t := by
  unfold Broker.findTopic at h
  have h1 := List.mem_of_find?_eq_some h
  have h2 := List.find?_some h
  simp at h2
  exact ⟨h1, h2.1, h2.2⟩

theorem findTopic_none {b : Broker} {t : String} {k : MatchKind}
    (h : b.findTopic t k = none) : ∀ s ∈ b.subs, ¬(s.kind = k ∧ s.topic = t) := by
  unfold Broker.findTopic at h
  simp at h
  intro s hs ⟨h1, h2⟩; exact h s hs h1 h2

theorem findId_some {b : Broker} {id : Nat} {s : Sub}
    (h : b.findId id = some s) : s ∈ b.subs ∧ s.id = id := by
  unfold Broker.findId at h
  have h1 := List.mem_of_find?_eq_some h
  have h2 := List.find?_some h
  simp at h2
  exact ⟨h1, h2⟩

theorem findId_none {b : Broker} {id : Nat}
    (h : b.findId id = none) : ∀ s ∈ b.subs, s.id ≠ id := by
  unfold Broker.findId at h
  simp at h
  exact h

theorem eq_of_id_eq {l : List Sub} (hn : (l.map (·.id)).Nodup) {s t : Sub}
    (hs : s ∈ l) (ht : t ∈ l) (h : s.id = t.id) : s = t := by
  induction l with
  | nil => simp at hs
  | cons a l ih =>
    simp only [List.map_cons, List.nodup_cons, List.mem_map, not_exists, not_and] at hn
    rcases List.mem_cons.mp hs with rfl | hs' <;> rcases List.mem_cons.mp ht with rfl | ht'
    · rfl
    · exact absurd h.symm (hn.1 t ht')
    · exact absurd h (hn.1 s hs')
    · exact ih hn.2 hs' ht'

theorem findId_of_mem {b : Broker} (hn : (b.subs.map (·.id)).Nodup) {s : Sub} (hs : s ∈ b.subs) :
    b.findId s.id = some s := by
  cases h : b.findId s.id with
  | none => exact absurd rfl (findId_none h s hs)
  | some t => obtain ⟨h1, h2⟩ := findId_some h; rw [eq_of_id_eq hn h1 hs h2]

theorem hasHist_iff {b : Broker} {id : Nat} : b.hasHist id = true ↔ ∃ h ∈ b.hist, h.sub = id := by
  unfold Broker.hasHist; simp


/-! ### publishing: what happens to the history stores -/

/-- the publication carries neither `exclude` nor `eligible` -/
def Publication.unrestricted (p : Publication) : Bool :=
  !(p.opts.contains BlacklistKey) && !(p.opts.contains WhitelistKey)

/-- the history entry `syncPubEvent` stores for subscription `sub` -/
def histEntryOf (p : Publication) (sub : Sub) (st : Bool) (now : Nat) : HistEntry :=
  { pub := p.pubId, sub := sub.id, details := eventDetails p st none, args := p.args, kw := p.kw, time := now }

/-- effect of one visited subscription on one store -/
def histUpd1 (now : Nat) (p : Publication) (h : Hist) (x : Sub × Bool) : Hist :=
  if p.unrestricted && h.sub == x.1.id then h.save (histEntryOf p x.1 x.2 now) else h

@[simp] theorem Hist.save_sub (h : Hist) (e : HistEntry) : (h.save e).sub = h.sub := rfl
@[simp] theorem Hist.save_limit (h : Hist) (e : HistEntry) : (h.save e).limit = h.limit := rfl

theorem Hist.save_entries (h : Hist) (e : HistEntry) :
    (h.save e).entries = (if h.entries.length ≥ h.limit then h.entries.drop 1 else h.entries) ++ [e] := rfl

theorem Hist.save_length (h : Hist) (e : HistEntry) (hl : 0 < h.limit) (hb : h.entries.length ≤ h.limit) :
    (h.save e).entries.length ≤ h.limit := by
  rw [Hist.save_entries]
  split <;> simp <;> omega

theorem pubEvent_hist (b : Broker) sess now p f sub st :
    (b.pubEvent sess now p f sub st).1.hist = b.hist.map (fun h => histUpd1 now p h (sub, st)) := by
  unfold Broker.pubEvent
  simp only
  by_cases hu : p.unrestricted = true
  · by_cases hh : b.hasHist sub.id = true
    · have : (b.hasHist sub.id && !(p.opts.contains BlacklistKey) && !(p.opts.contains WhitelistKey)) = true := by
        unfold Publication.unrestricted at hu; simp_all
      rw [if_pos this]
      simp [histUpd1, hu, histEntryOf]
    · have : ¬ (b.hasHist sub.id && !(p.opts.contains BlacklistKey) && !(p.opts.contains WhitelistKey)) = true := by
        simp_all
      rw [if_neg this]
      symm
      conv => rhs; rw [← List.map_id b.hist]
      apply List.map_congr_left
      intro h hm
      have : h.sub ≠ sub.id := fun he => hh (hasHist_iff.mpr ⟨h, hm, he⟩)
      simp [histUpd1, this]
  · have : ¬ (b.hasHist sub.id && !(p.opts.contains BlacklistKey) && !(p.opts.contains WhitelistKey)) = true := by
      unfold Publication.unrestricted at hu; simp_all
    rw [if_neg this]
    symm
    conv => rhs; rw [← List.map_id b.hist]
    apply List.map_congr_left
    intro h _
    simp [histUpd1, hu]

theorem pubEvents_hist (sess : SessKey → Option Session) (now : Nat) (p : Publication) (f : Filter) :
    ∀ (l : List (Sub × Bool)) (b : Broker),
      (b.pubEvents sess now p f l).1.hist = b.hist.map (fun h => l.foldl (histUpd1 now p) h)
  | [], b => by simp [Broker.pubEvents]
  | (sub, st) :: rest, b => by
    simp only [Broker.pubEvents, List.foldl_cons]
    rw [pubEvents_hist sess now p f rest, pubEvent_hist, List.map_map]
    rfl

theorem syncPublish_hist (b : Broker) (sess : SessKey → Option Session) (now : Nat) (p : Publication) :
    (b.syncPublish sess now p).1.hist =
      b.hist.map (fun h => (b.matching p.topic).foldl (histUpd1 now p) h) := by
  unfold Broker.syncPublish
  exact pubEvents_hist sess now p _ _ b

theorem histUpd_foldl_inv (now : Nat) (p : Publication) (l : List (Sub × Bool)) (h : Hist) :
    (l.foldl (histUpd1 now p) h).sub = h.sub ∧ (l.foldl (histUpd1 now p) h).limit = h.limit ∧
    (0 < h.limit → h.entries.length ≤ h.limit → (l.foldl (histUpd1 now p) h).entries.length ≤ h.limit) := by
  induction l generalizing h with
  | nil => simp
  | cons x l ih =>
    simp only [List.foldl_cons]
    have h1 : (histUpd1 now p h x).sub = h.sub := by unfold histUpd1; split <;> simp
    have h2 : (histUpd1 now p h x).limit = h.limit := by unfold histUpd1; split <;> simp
    have h3 : 0 < h.limit → h.entries.length ≤ h.limit → (histUpd1 now p h x).entries.length ≤ h.limit := by
      intro a c; unfold histUpd1; split
      · exact Hist.save_length h _ a c
      · exact c
    obtain ⟨i1, i2, i3⟩ := ih (histUpd1 now p h x)
    refine ⟨i1.trans h1, i2.trans h2, ?_⟩
    intro a c
    rw [h2] at i3
    exact i3 a (h3 a c)

theorem BrokerInv.publish {b : Broker} (hb : BrokerInv b) (sess : SessKey → Option Session) (now : Nat)
    (p : Publication) : BrokerInv (b.syncPublish sess now p).1 := by
  obtain ⟨hs, hi, hn⟩ := syncPublish_subs b sess now p
  have hh := syncPublish_hist b sess now p
  have hsub : (b.syncPublish sess now p).1.hist.map (·.sub) = b.hist.map (·.sub) := by
    rw [hh, List.map_map]; apply List.map_congr_left; intro h _
    exact (histUpd_foldl_inv now p _ h).1
  have hhas : ∀ id, (b.syncPublish sess now p).1.hasHist id = b.hasHist id := by
    intro id
    have : ∀ l : List Hist, l.any (fun h => h.sub == id) = (l.map (·.sub)).any (· == id) := by
      intro l; simp [List.any_map]; rfl
    unfold Broker.hasHist
    rw [this, this, hsub]
  refine ⟨by rw [hs]; exact hb.ids_nodup, by rw [hs, hn]; exact hb.ids_pos, by rw [hs]; exact hb.topic_unique,
    by rw [hs]; exact hb.members_nodup, by rw [hi]; exact hb.index_wf, ?_, ?_, ?_, by rw [hsub]; exact hb.hist_nodup, ?_⟩
  · intro k id; rw [hi]; unfold Broker.isMember; rw [hs]; exact hb.index_iff k id
  · intro s hm he; rw [hhas]; rw [hs] at hm; exact hb.empty_hist s hm he
  · intro h hm
    rw [hh] at hm
    obtain ⟨h0, hm0, rfl⟩ := List.mem_map.mp hm
    rw [hs, (histUpd_foldl_inv now p _ h0).1]
    exact hb.hist_sub h0 hm0
  · intro h hm
    rw [hh] at hm
    obtain ⟨h0, hm0, rfl⟩ := List.mem_map.mp hm
    obtain ⟨_, i2, i3⟩ := histUpd_foldl_inv now p (b.matching p.topic) h0
    rw [i2]
    intro hl
    exact i3 hl (hb.hist_len h0 hm0 hl)


/-! ### creating a subscription -/

theorem isMember_congr_subs {b b' : Broker} (h : b'.subs = b.subs) (k id) : b'.isMember k id ↔ b.isMember k id := by
  unfold Broker.isMember; rw [h]

/-- SUBSCRIBE to a (topic, kind) that has no subscription yet. -/
theorem BrokerInv.subscribe_new {b : Broker} (hb : BrokerInv b) (k : SessKey) (topic m : String)
    (hf : b.findTopic topic (matchKind m) = none) :
    BrokerInv { b with subs := b.subs ++ [{ id := b.nextSub + 1, topic := topic, «match» := m, members := [k] }],
                       nextSub := b.nextSub + 1, index := idxAdd b.index k (b.nextSub + 1) } := by
  have hfresh : ∀ s ∈ b.subs, s.id ≠ b.nextSub + 1 := fun s hs => by have := (hb.ids_pos s hs).2; omega
  have hnone := findTopic_none hf
  refine ⟨?_, ?_, ?_, ?_, hb.index_wf.add _ _, ?_, ?_, ?_, hb.hist_nodup, hb.hist_len⟩
  · simp only [List.map_append, List.map_cons, List.map_nil]
    rw [List.nodup_append]
    refine ⟨hb.ids_nodup, by simp, ?_⟩
    intro a ha c hc; simp at hc; subst hc
    obtain ⟨s, hs, rfl⟩ := List.mem_map.mp ha
    exact hfresh s hs
  · intro s hs
    rcases List.mem_append.mp hs with h | h
    · have := hb.ids_pos s h; simp only; omega
    · simp at h; subst h; simp
  · intro s hs t ht h1 h2
    simp only [List.mem_append, List.mem_singleton] at hs ht
    rcases hs with hs | rfl <;> rcases ht with ht | rfl
    · exact hb.topic_unique s hs t ht h1 h2
    · exact absurd ⟨h2, h1⟩ (hnone s hs)
    · exact absurd ⟨h2.symm, h1.symm⟩ (hnone t ht)
    · rfl
  · intro s hs
    rcases List.mem_append.mp hs with h | h
    · exact hb.members_nodup s h
    · simp at h; subst h; simp
  · intro k' id
    rw [idxRel_add hb.index_wf, hb.index_iff]
    unfold Broker.isMember
    simp only [List.mem_append, List.mem_singleton]
    constructor
    · rintro (⟨s, hs, h1, h2⟩ | ⟨rfl, rfl⟩)
      · exact ⟨s, Or.inl hs, h1, h2⟩
      · exact ⟨_, Or.inr rfl, rfl, by simp⟩
    · rintro ⟨s, hs | rfl, h1, h2⟩
      · exact Or.inl ⟨s, hs, h1, h2⟩
      · simp at h1 h2; exact Or.inr ⟨h2, h1.symm⟩
  · intro s hs he
    rcases List.mem_append.mp hs with h | h
    · exact hb.empty_hist s h he
    · simp at h; subst h; simp at he
  · intro h hm
    obtain ⟨s, hs, he⟩ := hb.hist_sub h hm
    exact ⟨s, List.mem_append_left _ hs, he⟩

/-- SUBSCRIBE of a new member to an existing subscription. -/
theorem BrokerInv.subscribe_join {b : Broker} (hb : BrokerInv b) (k : SessKey) {sub : Sub}
    (hs : sub ∈ b.subs) (hk : k ∉ sub.members) :
    BrokerInv { b.setSub { sub with members := sub.members ++ [k] } with
                index := idxAdd (b.setSub { sub with members := sub.members ++ [k] }).index k sub.id } := by
  have hmem : ∀ t, t ∈ (b.setSub { sub with members := sub.members ++ [k] }).subs ↔
      (t = { sub with members := sub.members ++ [k] }) ∨ (t ∈ b.subs ∧ t.id ≠ sub.id) := by
    intro t
    unfold Broker.setSub
    simp only [List.mem_map]
    constructor
    · rintro ⟨x, hx, rfl⟩
      by_cases h : x.id = sub.id
      · left; simp [h]
      · right; simp [h, hx]
    · rintro (rfl | ⟨ht, hne⟩)
      · exact ⟨sub, hs, by simp⟩
      · exact ⟨t, ht, by simp [hne]⟩
  have hids : (b.setSub { sub with members := sub.members ++ [k] }).subs.map (·.id) = b.subs.map (·.id) := by
    unfold Broker.setSub
    simp only [List.map_map]
    apply List.map_congr_left
    intro x _
    by_cases h : x.id = sub.id <;> simp [h]
  refine ⟨by rw [hids]; exact hb.ids_nodup, ?_, ?_, ?_, hb.index_wf.add _ _, ?_, ?_, ?_, hb.hist_nodup, hb.hist_len⟩
  · intro s hs'
    rcases (hmem s).mp hs' with rfl | ⟨h, _⟩
    · exact hb.ids_pos sub hs
    · exact hb.ids_pos s h
  · intro s hs' t ht h1 h2
    rcases (hmem s).mp hs' with rfl | ⟨hs1, hs2⟩ <;> rcases (hmem t).mp ht with rfl | ⟨ht1, ht2⟩
    · rfl
    · exact absurd (congrArg Sub.id (hb.topic_unique sub hs t ht1 h1 h2)).symm ht2
    · exact absurd (congrArg Sub.id (hb.topic_unique s hs1 sub hs h1 h2)) hs2
    · exact hb.topic_unique s hs1 t ht1 h1 h2
  · intro s hs'
    rcases (hmem s).mp hs' with rfl | ⟨h, _⟩
    · simp only
      rw [List.nodup_append]
      refine ⟨hb.members_nodup sub hs, by simp, ?_⟩
      intro a ha c hc; simp at hc; subst hc; intro h; subst h; exact hk ha
    · exact hb.members_nodup s h
  · intro k' id
    show idxRel (idxAdd b.index k sub.id) k' id ↔ _
    rw [idxRel_add hb.index_wf, hb.index_iff]
    unfold Broker.isMember
    constructor
    · rintro (⟨s, hs1, h1, h2⟩ | ⟨rfl, rfl⟩)
      · by_cases h : s.id = sub.id
        · have := eq_of_id_eq hb.ids_nodup hs1 hs h; subst this
          exact ⟨_, (hmem _).mpr (Or.inl rfl), h1, by simp [h2]⟩
        · exact ⟨s, (hmem _).mpr (Or.inr ⟨hs1, h⟩), h1, h2⟩
      · exact ⟨_, (hmem _).mpr (Or.inl rfl), rfl, by simp⟩
    · rintro ⟨s, hs', h1, h2⟩
      rcases (hmem s).mp hs' with rfl | ⟨hs1, _⟩
      · simp at h1 h2
        rcases h2 with h2 | h2
        · exact Or.inl ⟨sub, hs, h1, h2⟩
        · exact Or.inr ⟨h2, h1.symm⟩
      · exact Or.inl ⟨s, hs1, h1, h2⟩
  · intro s hs' he
    rcases (hmem s).mp hs' with rfl | ⟨h, _⟩
    · simp at he
    · exact hb.empty_hist s h he
  · intro h hm
    obtain ⟨s, hs1, he⟩ := hb.hist_sub h hm
    by_cases hh : s.id = sub.id
    · exact ⟨_, (hmem _).mpr (Or.inl rfl), by simpa [← hh] using he⟩
    · exact ⟨s, (hmem _).mpr (Or.inr ⟨hs1, hh⟩), he⟩

theorem BrokerInv.subscribe {b : Broker} (hb : BrokerInv b) (k : SessKey) (req : Nat) (topic m : String)
    (pub0 : Nat) : BrokerInv (b.syncSubscribe k req topic m pub0).1 := by
  unfold Broker.syncSubscribe
  cases hf : b.findTopic topic (matchKind m) with
  | none => exact hb.subscribe_new k topic m hf
  | some sub =>
    simp only
    obtain ⟨hs, _, _⟩ := findTopic_some hf
    by_cases hc : sub.members.contains k = true
    · rw [if_pos hc]; exact hb
    · rw [if_neg hc]
      exact hb.subscribe_join k hs (by simpa using hc)


/-! ### the pre-initialised broker -/

theorem BrokerInv.empty (strict allowDisclose : Bool) :
    BrokerInv ({ strict := strict, allowDisclose := allowDisclose } : Broker) := by
  refine ⟨by simp, by simp, by simp, by simp, ⟨by simp, by simp, by simp⟩, ?_, by simp, by simp, by simp, by simp⟩
  intro k id
  simp [idxRel, idxGet, Broker.isMember]

theorem hasHist_append (b : Broker) (l : List Hist) (id : Nat) :
    ({ b with hist := b.hist ++ l } : Broker).hasHist id = (b.hasHist id || l.any (fun h => h.sub == id)) := by
  simp [Broker.hasHist]

theorem BrokerInv.preInit_step_new {b : Broker} (hb : BrokerInv b) (topic m : String) (limit : Nat)
    (hf : b.findTopic topic (matchKind m) = none) :
    BrokerInv { b with subs := b.subs ++ [{ id := b.nextSub + 1, topic := topic, «match» := m, members := [] }],
                       nextSub := b.nextSub + 1,
                       hist := b.hist ++ [{ sub := b.nextSub + 1, limit := limit, entries := [] }] } := by
  have hfresh : ∀ s ∈ b.subs, s.id ≠ b.nextSub + 1 := fun s hs => by have := (hb.ids_pos s hs).2; omega
  have hnone := findTopic_none hf
  refine ⟨?_, ?_, ?_, ?_, hb.index_wf, ?_, ?_, ?_, ?_, ?_⟩
  · simp only [List.map_append, List.map_cons, List.map_nil]
    rw [List.nodup_append]
    refine ⟨hb.ids_nodup, by simp, ?_⟩
    intro a ha c hc; simp at hc; subst hc
    obtain ⟨s, hs, rfl⟩ := List.mem_map.mp ha
    exact hfresh s hs
  · intro s hs
    rcases List.mem_append.mp hs with h | h
    · have := hb.ids_pos s h; simp only; omega
    · simp at h; subst h; simp
  · intro s hs t ht h1 h2
    simp only [List.mem_append, List.mem_singleton] at hs ht
    rcases hs with hs | rfl <;> rcases ht with ht | rfl
    · exact hb.topic_unique s hs t ht h1 h2
    · exact absurd ⟨h2, h1⟩ (hnone s hs)
    · exact absurd ⟨h2.symm, h1.symm⟩ (hnone t ht)
    · rfl
  · intro s hs
    rcases List.mem_append.mp hs with h | h
    · exact hb.members_nodup s h
    · simp at h; subst h; simp
  · intro k' id
    rw [hb.index_iff]
    unfold Broker.isMember
    simp only [List.mem_append, List.mem_singleton]
    constructor
    · rintro ⟨s, hs, h1, h2⟩; exact ⟨s, Or.inl hs, h1, h2⟩
    · rintro ⟨s, hs | rfl, h1, h2⟩
      · exact ⟨s, hs, h1, h2⟩
      · simp at h2
  · intro s hs he
    rw [hasHist_iff]
    rcases List.mem_append.mp hs with h | h
    · obtain ⟨x, hx, hx2⟩ := hasHist_iff.mp (hb.empty_hist s h he)
      exact ⟨x, List.mem_append_left _ hx, hx2⟩
    · simp at h; subst h; exact ⟨_, List.mem_append_right _ (List.mem_singleton.mpr rfl), rfl⟩
  · intro h hm
    rcases List.mem_append.mp hm with hm | hm
    · obtain ⟨s, hs, he⟩ := hb.hist_sub h hm
      exact ⟨s, List.mem_append_left _ hs, he⟩
    · simp at hm; subst hm
      exact ⟨_, List.mem_append_right _ (List.mem_singleton.mpr rfl), rfl⟩
  · simp only [List.map_append, List.map_cons, List.map_nil]
    rw [List.nodup_append]
    refine ⟨hb.hist_nodup, by simp, ?_⟩
    intro a ha c hc; simp at hc; subst hc
    obtain ⟨h, hh, rfl⟩ := List.mem_map.mp ha
    obtain ⟨s, hs, he⟩ := hb.hist_sub h hh
    rw [← he]; exact hfresh s hs
  · intro h hm
    rcases List.mem_append.mp hm with hm | hm
    · exact hb.hist_len h hm
    · simp at hm; subst hm; simp

theorem BrokerInv.preInit_step_old {b : Broker} (hb : BrokerInv b) (limit : Nat) {sub : Sub}
    (hs : sub ∈ b.subs) :
    BrokerInv { b with hist := (b.hist.filter (fun h => h.sub != sub.id)) ++
                                [{ sub := sub.id, limit := limit, entries := [] }] } := by
  refine ⟨hb.ids_nodup, hb.ids_pos, hb.topic_unique, hb.members_nodup, hb.index_wf, hb.index_iff, ?_, ?_, ?_, ?_⟩
  · intro s hs' he
    obtain ⟨x, hx, hx2⟩ := hasHist_iff.mp (hb.empty_hist s hs' he)
    rw [hasHist_iff]
    by_cases h : s.id = sub.id
    · exact ⟨_, List.mem_append_right _ (List.mem_singleton.mpr rfl), h.symm⟩
    · refine ⟨x, List.mem_append_left _ (List.mem_filter.mpr ⟨hx, ?_⟩), hx2⟩
      simp [hx2, h]
  · intro h hm
    rcases List.mem_append.mp hm with hm | hm
    · exact hb.hist_sub h (List.mem_filter.mp hm).1
    · simp at hm; subst hm; exact ⟨sub, hs, rfl⟩
  · simp only [List.map_append, List.map_cons, List.map_nil]
    rw [List.nodup_append]
    refine ⟨(List.filter_sublist.map _).nodup hb.hist_nodup, by simp, ?_⟩
    intro a ha c hc; simp at hc; subst hc
    obtain ⟨h, hh, rfl⟩ := List.mem_map.mp ha
    simpa using (List.mem_filter.mp hh).2
  · intro h hm
    rcases List.mem_append.mp hm with hm | hm
    · exact hb.hist_len h (List.mem_filter.mp hm).1
    · simp at hm; subst hm; simp

theorem BrokerInv.preInit' : ∀ (cfg : List (String × String × Nat)) {b : Broker}, BrokerInv b →
    BrokerInv (b.preInit cfg)
  | [], b, hb => by simpa [Broker.preInit] using hb
  | (topic, m, limit) :: rest, b, hb => by
    unfold Broker.preInit
    cases hf : b.findTopic topic (matchKind m) with
    | none => exact BrokerInv.preInit' rest (hb.preInit_step_new topic m limit hf)
    | some sub => exact BrokerInv.preInit' rest (hb.preInit_step_old limit (findTopic_some hf).1)

/-- The broker a realm starts with satisfies the invariant (for every configuration). -/
theorem BrokerInv.preInit (strict allowDisclose : Bool) (cfg : List (String × String × Nat)) :
    BrokerInv (({ strict := strict, allowDisclose := allowDisclose } : Broker).preInit cfg) :=
  BrokerInv.preInit' cfg (BrokerInv.empty strict allowDisclose)


/-! ### removing a session from subscriptions (UNSUBSCRIBE, session removal) -/

/-- What happens to a subscription `k` leaves: deleted when nobody is left and it has no
    history store, else kept without `k`. -/
def Broker.strip (b : Broker) (k : SessKey) (s : Sub) : Option Sub :=
  if (s.members.filter (· != k)).isEmpty && !b.hasHist s.id then none
  else some { s with members := s.members.filter (· != k) }

/-- `strip` applied to the subscriptions whose id satisfies `P` -/
def Broker.stripIf (b : Broker) (k : SessKey) (P : Nat → Bool) (s : Sub) : Option Sub :=
  if P s.id then b.strip k s else some s

theorem stripIf_some {b : Broker} {k : SessKey} {P : Nat → Bool} {s s' : Sub} (h : b.stripIf k P s = some s') :
    s'.id = s.id ∧ s'.topic = s.topic ∧ s'.«match» = s.«match» ∧
    (∀ k', k' ∈ s'.members ↔ k' ∈ s.members ∧ ¬(k' = k ∧ P s.id = true)) ∧
    (s.members.Nodup → s'.members.Nodup) ∧
    (s'.members = [] → s.members = [] ∨ b.hasHist s.id = true) := by
  unfold Broker.stripIf at h
  by_cases hp : P s.id = true
  · rw [if_pos hp] at h
    unfold Broker.strip at h
    split at h
    · simp at h
    · rename_i hc
      simp at h; subst h
      refine ⟨rfl, rfl, rfl, ?_, fun hn => hn.filter _, ?_⟩
      · intro k'; simp [hp]
      · intro he; simp only at he; right
        simp only [he, List.isEmpty_nil, Bool.true_and, Bool.not_eq_true'] at hc
        simpa using hc
  · rw [if_neg hp] at h
    simp at h; subst h
    refine ⟨rfl, rfl, rfl, ?_, id, Or.inl⟩
    intro k'; simp [hp]

theorem stripIf_kind {b : Broker} {k : SessKey} {P : Nat → Bool} {s s' : Sub} (h : b.stripIf k P s = some s') :
    s'.kind = s.kind := by
  unfold Sub.kind; rw [(stripIf_some h).2.2.1]

theorem stripIf_isSome_of_member {b : Broker} {k k' : SessKey} {P : Nat → Bool} {s : Sub}
    (hm : k' ∈ s.members) (hne : ¬(k' = k ∧ P s.id = true)) : ∃ s', b.stripIf k P s = some s' := by
  unfold Broker.stripIf
  by_cases hp : P s.id = true
  · rw [if_pos hp]
    unfold Broker.strip
    have : k' ∈ s.members.filter (· != k) := by
      simp only [List.mem_filter, bne_iff_ne, ne_eq]
      exact ⟨hm, fun h => hne ⟨h, hp⟩⟩
    have hne' : (s.members.filter (· != k)).isEmpty = false := by
      cases hl : s.members.filter (· != k) with
      | nil => rw [hl] at this; simp at this
      | cons _ _ => rfl
    simp [hne']
  · rw [if_neg hp]; exact ⟨s, rfl⟩

theorem stripIf_isSome_of_hist {b : Broker} {k : SessKey} {P : Nat → Bool} {s : Sub}
    (hh : b.hasHist s.id = true) : ∃ s', b.stripIf k P s = some s' := by
  unfold Broker.stripIf Broker.strip
  split
  · simp [hh]
  · exact ⟨s, rfl⟩

theorem filterMap_map_sublist {α β γ : Type} (g : α → Option β) (f : α → γ) (f' : β → γ)
    (h : ∀ x y, g x = some y → f' y = f x) (l : List α) :
    ((l.filterMap g).map f').Sublist (l.map f) := by
  induction l with
  | nil => simp
  | cons a l ih =>
    simp only [List.filterMap_cons, List.map_cons]
    cases hg : g a with
    | none => exact ih.cons _
    | some y => simp only [List.map_cons]; rw [h a y hg]; exact ih.cons_cons _

/-- The invariant survives `k` leaving the subscriptions selected by `P`, provided the index is
    updated accordingly. -/
theorem BrokerInv.stripped {b : Broker} (hb : BrokerInv b) (b' : Broker) (k : SessKey) (P : Nat → Bool)
    (hsubs : b'.subs = b.subs.filterMap (b.stripIf k P)) (hhist : b'.hist = b.hist)
    (hnext : b'.nextSub = b.nextSub) (hwf : IdxWF b'.index)
    (hrel : ∀ k' id, idxRel b'.index k' id ↔ idxRel b.index k' id ∧ ¬(k' = k ∧ P id = true)) :
    BrokerInv b' := by
  have hmem : ∀ s', s' ∈ b'.subs ↔ ∃ s ∈ b.subs, b.stripIf k P s = some s' := by
    intro s'; rw [hsubs]; simp [List.mem_filterMap]
  have hhas : ∀ id, b'.hasHist id = b.hasHist id := by intro id; unfold Broker.hasHist; rw [hhist]
  refine ⟨?_, ?_, ?_, ?_, hwf, ?_, ?_, ?_, by rw [hhist]; exact hb.hist_nodup, by rw [hhist]; exact hb.hist_len⟩
  · rw [hsubs]
    exact (filterMap_map_sublist _ Sub.id Sub.id (fun x y h => (stripIf_some h).1) _).nodup hb.ids_nodup
  · intro s' hs'
    obtain ⟨s, hs, he⟩ := (hmem s').mp hs'
    rw [(stripIf_some he).1, hnext]; exact hb.ids_pos s hs
  · intro s' hs' t' ht' h1 h2
    obtain ⟨s, hs, he⟩ := (hmem s').mp hs'
    obtain ⟨t, ht, he'⟩ := (hmem t').mp ht'
    have : s = t := hb.topic_unique s hs t ht
      (by rw [← (stripIf_some he).2.1, ← (stripIf_some he').2.1]; exact h1)
      (by rw [← stripIf_kind he, ← stripIf_kind he']; exact h2)
    subst this
    rw [he] at he'; exact Option.some.inj he'
  · intro s' hs'
    obtain ⟨s, hs, he⟩ := (hmem s').mp hs'
    exact (stripIf_some he).2.2.2.2.1 (hb.members_nodup s hs)
  · intro k' id
    rw [hrel, hb.index_iff]
    unfold Broker.isMember
    constructor
    · rintro ⟨⟨s, hs, h1, h2⟩, hne⟩
      subst h1
      obtain ⟨s', he⟩ := stripIf_isSome_of_member (b := b) h2 hne
      exact ⟨s', (hmem s').mpr ⟨s, hs, he⟩, (stripIf_some he).1, ((stripIf_some he).2.2.2.1 k').mpr ⟨h2, hne⟩⟩
    · rintro ⟨s', hs', h1, h2⟩
      obtain ⟨s, hs, he⟩ := (hmem s').mp hs'
      have := ((stripIf_some he).2.2.2.1 k').mp h2
      rw [(stripIf_some he).1] at h1
      subst h1
      exact ⟨⟨s, hs, rfl, this.1⟩, this.2⟩
  · intro s' hs' hemp
    obtain ⟨s, hs, he⟩ := (hmem s').mp hs'
    rw [hhas, (stripIf_some he).1]
    rcases (stripIf_some he).2.2.2.2.2 hemp with h | h
    · exact hb.empty_hist s hs h
    · exact h
  · intro h hm
    rw [hhist] at hm
    obtain ⟨s, hs, he⟩ := hb.hist_sub h hm
    obtain ⟨s', hs'⟩ := stripIf_isSome_of_hist (b := b) (k := k) (P := P) (hasHist_iff.mpr ⟨h, hm, he.symm⟩)
    exact ⟨s', (hmem s').mpr ⟨s, hs, hs'⟩, (stripIf_some hs').1.trans he⟩


theorem filterMap_congr' {α β : Type} {f g : α → Option β} {l : List α} (h : ∀ x ∈ l, f x = g x) :
    l.filterMap f = l.filterMap g := by
  induction l with
  | nil => rfl
  | cons a l ih =>
    simp only [List.filterMap_cons]
    rw [h a (List.mem_cons_self ..), ih (fun x hx => h x (List.mem_cons_of_mem _ hx))]

/-- one subscription losing `k`: `delSub`/`setSub` written as a `filterMap` -/
theorem strip_one_subs {b : Broker} (hn : (b.subs.map (·.id)).Nodup) (k : SessKey) {sub : Sub} (hs : sub ∈ b.subs) :
    (if (sub.members.filter (· != k)).isEmpty && !b.hasHist sub.id then b.delSub sub.id
      else b.setSub { sub with members := sub.members.filter (· != k) }).subs =
    b.subs.filterMap (b.stripIf k (· == sub.id)) := by
  have key : ∀ x ∈ b.subs, x.id = sub.id → x = sub := fun x hx h => eq_of_id_eq hn hx hs h
  split
  · rename_i hc
    unfold Broker.delSub
    simp only
    rw [← List.filterMap_eq_filter]
    apply filterMap_congr'
    intro x hx
    unfold Broker.stripIf Broker.strip
    by_cases h : x.id = sub.id
    · have := key x hx h; subst this; simp [hc]
    · simp [h]
  · rename_i hc
    unfold Broker.setSub
    simp only
    rw [← List.filterMap_eq_map]
    apply filterMap_congr'
    intro x hx
    unfold Broker.stripIf Broker.strip
    by_cases h : x.id = sub.id
    · have := key x hx h; subst this; simp [hc]
    · simp [h]

theorem syncUnsubscribe_state {b : Broker} (hn : (b.subs.map (·.id)).Nodup) (k : SessKey) (req subId pub0 : Nat)
    {sub : Sub} (hf : b.findId subId = some sub) (hk : k ∈ sub.members) :
    (b.syncUnsubscribe k req subId pub0).1.subs = b.subs.filterMap (b.stripIf k (· == subId)) ∧
    (b.syncUnsubscribe k req subId pub0).1.hist = b.hist ∧
    (b.syncUnsubscribe k req subId pub0).1.nextSub = b.nextSub ∧
    (b.syncUnsubscribe k req subId pub0).1.index = idxDel b.index k subId := by
  obtain ⟨hs, hid⟩ := findId_some hf
  subst hid
  have h1 := strip_one_subs hn k hs
  unfold Broker.syncUnsubscribe
  rw [hf]
  simp only
  have hc : (!sub.members.contains k) = false := by simpa using hk
  rw [hc]
  simp only [Bool.false_eq_true, if_false]
  by_cases hd : ((sub.members.filter (· != k)).isEmpty && !b.hasHist sub.id) = true
  · rw [if_pos hd] at h1 ⊢
    simp only [if_pos hd]
    exact ⟨h1, rfl, rfl, rfl⟩
  · rw [if_neg hd] at h1 ⊢
    simp only [if_neg hd]
    exact ⟨h1, rfl, rfl, rfl⟩

theorem syncUnsubscribe_err_state (b : Broker) (k : SessKey) (req subId pub0 : Nat)
    (h : ∀ sub, b.findId subId = some sub → k ∉ sub.members) :
    b.syncUnsubscribe k req subId pub0 = (b, [⟨k, errMsg tUNSUBSCRIBE req ErrNoSuchSubscription⟩], 0) := by
  unfold Broker.syncUnsubscribe
  cases hf : b.findId subId with
  | none => rfl
  | some sub =>
    have : (!sub.members.contains k) = true := by simpa using h sub hf
    simp only
    rw [if_pos this]

theorem BrokerInv.unsubscribe {b : Broker} (hb : BrokerInv b) (k : SessKey) (req subId pub0 : Nat) :
    BrokerInv (b.syncUnsubscribe k req subId pub0).1 := by
  by_cases h : ∃ sub, b.findId subId = some sub ∧ k ∈ sub.members
  · obtain ⟨sub, hf, hk⟩ := h
    obtain ⟨h1, h2, h3, h4⟩ := syncUnsubscribe_state hb.ids_nodup k req subId pub0 hf hk
    refine hb.stripped _ k (· == subId) h1 h2 h3 (by rw [h4]; exact hb.index_wf.del _ _) ?_
    intro k' id
    rw [h4, idxRel_del hb.index_wf]
    simp
  · rw [syncUnsubscribe_err_state]
    · exact hb
    · intro sub hf hk; exact h ⟨sub, hf, hk⟩


theorem stripIf_congr_hist {b b' : Broker} (h : b'.hist = b.hist) (k : SessKey) (P : Nat → Bool) :
    b'.stripIf k P = b.stripIf k P := by
  funext s
  unfold Broker.stripIf Broker.strip Broker.hasHist
  rw [h]

theorem removeMember_state {b : Broker} (hn : (b.subs.map (·.id)).Nodup) (k : SessKey) (id pub0 : Nat) :
    (b.removeMember k id pub0).1.subs = b.subs.filterMap (b.stripIf k (· == id)) ∧
    (b.removeMember k id pub0).1.hist = b.hist ∧
    (b.removeMember k id pub0).1.nextSub = b.nextSub ∧
    (b.removeMember k id pub0).1.index = b.index := by
  unfold Broker.removeMember
  cases hf : b.findId id with
  | none =>
    refine ⟨?_, rfl, rfl, rfl⟩
    simp only
    conv => lhs; rw [← List.filterMap_some (l := b.subs)]
    apply filterMap_congr'
    intro x hx
    have := findId_none hf x hx
    simp [Broker.stripIf, this]
  | some sub =>
    obtain ⟨hs, hid⟩ := findId_some hf
    subst hid
    have h1 := strip_one_subs hn k hs
    simp only
    by_cases hd : ((sub.members.filter (· != k)).isEmpty && !b.hasHist sub.id) = true
    · rw [if_pos hd] at h1 ⊢
      exact ⟨h1, rfl, rfl, rfl⟩
    · rw [if_neg hd] at h1 ⊢
      exact ⟨h1, rfl, rfl, rfl⟩

theorem removeMembers_state (k : SessKey) : ∀ (l : List Nat) (b : Broker) (pub0 : Nat),
    (b.subs.map (·.id)).Nodup → l.Nodup →
    (b.removeMembers k pub0 l).1.subs = b.subs.filterMap (b.stripIf k (fun id => l.contains id)) ∧
    (b.removeMembers k pub0 l).1.hist = b.hist ∧
    (b.removeMembers k pub0 l).1.nextSub = b.nextSub ∧
    (b.removeMembers k pub0 l).1.index = b.index
  | [], b, pub0, _, _ => by
    refine ⟨?_, rfl, rfl, rfl⟩
    simp only [Broker.removeMembers]
    conv => lhs; rw [← List.filterMap_some (l := b.subs)]
    apply filterMap_congr'
    intro x _
    simp [Broker.stripIf]
  | id :: rest, b, pub0, hn, hl => by
    obtain ⟨h1, h2, h3, h4⟩ := removeMember_state hn k id pub0
    have hn1 : ((b.removeMember k id pub0).1.subs.map (·.id)).Nodup := by
      rw [h1]
      exact (filterMap_map_sublist _ Sub.id Sub.id (fun x y h => (stripIf_some h).1) _).nodup hn
    obtain ⟨i1, i2, i3, i4⟩ := removeMembers_state k rest (b.removeMember k id pub0).1
      (pub0 + (b.removeMember k id pub0).2.2) hn1 (List.nodup_cons.mp hl).2
    simp only [Broker.removeMembers]
    refine ⟨?_, i2.trans h2, i3.trans h3, i4.trans h4⟩
    rw [i1, h1, stripIf_congr_hist h2, List.filterMap_filterMap]
    apply filterMap_congr'
    intro x _
    have hnot : rest.contains id = false := by simpa using (List.nodup_cons.mp hl).1
    by_cases hx : x.id = id
    · subst hx
      have e1 : b.stripIf k (fun i => i == x.id) x = b.strip k x := by simp [Broker.stripIf]
      have e2 : b.stripIf k (fun i => (x.id :: rest).contains i) x = b.strip k x := by simp [Broker.stripIf]
      rw [e1, e2]
      cases hs : b.strip k x with
      | none => rfl
      | some y =>
        have : y.id = x.id := by
          unfold Broker.strip at hs; split at hs
          · simp at hs
          · simp at hs; subst hs; rfl
        have hnot' : x.id ∉ rest := by simpa using hnot
        simp [Broker.stripIf, this, hnot']
    · have e1 : b.stripIf k (fun i => i == id) x = some x := by simp [Broker.stripIf, hx]
      rw [e1]
      simp [Broker.stripIf, hx]

theorem BrokerInv.removeSession {b : Broker} (hb : BrokerInv b) (k : SessKey) (pub0 : Nat) :
    BrokerInv (b.syncRemoveSession k pub0).1 := by
  unfold Broker.syncRemoveSession
  cases hg : idxGet b.index k with
  | none => exact hb
  | some ids =>
    simp only
    have hids : ids.Nodup := hb.index_wf.ids _ (idxGet_some_mem hg)
    obtain ⟨h1, h2, h3, h4⟩ := removeMembers_state k ids { b with index := idxDrop b.index k } pub0 hb.ids_nodup hids
    have hst : ({ b with index := idxDrop b.index k } : Broker).stripIf k (fun id => ids.contains id) =
        b.stripIf k (fun id => ids.contains id) := stripIf_congr_hist rfl _ _
    rw [hst] at h1
    refine hb.stripped _ k (fun id => ids.contains id) h1 h2 h3 (by rw [h4]; exact hb.index_wf.drop k) ?_
    intro k' id
    rw [h4]
    show idxRel (idxDrop b.index k) k' id ↔ _
    rw [idxRel_drop hb.index_wf]
    constructor
    · rintro ⟨a, c⟩; exact ⟨a, fun h => c h.1⟩
    · rintro ⟨a, c⟩
      refine ⟨a, ?_⟩
      rintro rfl
      apply c
      refine ⟨rfl, ?_⟩
      unfold idxRel at a
      rw [hg] at a
      simpa using a

end Nexus.L2
