/-
  Call timers of the dealer model: arming (`armTimer`), the only ways the timer table changes
  (`TimersGrow`: entries are appended or get their `canceled` flag set, never removed or revived by a
  `sync*` function), and cancellation of the recorded timer when a call completes.
-/
import Nexus.L2.Proofs.DealerReply

namespace Nexus.L2
open Gen.N

/-! ### arming -/

/-- the timer `syncCall` arms for a router-side timeout of `timeout` ms at time `env.now` -/
def newTimer (env : DEnv) (s : DState) (caller : SessKey) (req : Nat) (timeout : Nat) : Timer :=
  { id := s.nextTimer + 1, deadline := env.now + min timeout maxTimeoutMs, caller := caller, req := req, canceled := false }

theorem armTimer_pos {env : DEnv} {s : DState} {caller : SessKey} {req : Nat} {v : Invk} {timeout : Nat}
    (h : 0 < timeout) :
    armTimer env s caller req v timeout =
      { s with timers := s.timers ++ [newTimer env s caller req timeout]
               nextTimer := s.nextTimer + 1
               d := s.d.setInv { v with timer := some (s.nextTimer + 1) } } := by
  unfold armTimer
  rw [if_pos h]
  rfl

theorem armTimer_zero {env : DEnv} {s : DState} {caller : SessKey} {req : Nat} {v : Invk} :
    armTimer env s caller req v 0 = s := by
  unfold armTimer
  rw [if_neg (by omega)]

/-! ### the timer table only grows -/

/-- `l'` is `l` with some `canceled` flags set and new timers appended -/
def TimersGrow (l l' : List Timer) : Prop :=
  ∃ (g : Timer → Timer) (extra : List Timer), l' = l.map g ++ extra ∧
    ∀ t, (g t).shape = t.shape ∧ (t.canceled = true → (g t).canceled = true)

theorem TimersGrow.refl (l : List Timer) : TimersGrow l l :=
  ⟨id, [], by simp, fun _ => ⟨rfl, id⟩⟩

theorem TimersGrow.trans {a b c : List Timer} (h1 : TimersGrow a b) (h2 : TimersGrow b c) : TimersGrow a c := by
  obtain ⟨g1, e1, rfl, hg1⟩ := h1
  obtain ⟨g2, e2, rfl, hg2⟩ := h2
  refine ⟨g2 ∘ g1, e1.map g2 ++ e2, by simp [List.map_append, List.map_map], fun t => ?_⟩
  exact ⟨((hg2 (g1 t)).1).trans (hg1 t).1, fun hc => (hg2 (g1 t)).2 ((hg1 t).2 hc)⟩

theorem TimersGrow.of_eq {a b : List Timer} (h : b = a) : TimersGrow a b := h ▸ TimersGrow.refl a

theorem TimersGrow.cancelTimer (s : DState) (t : Option Nat) : TimersGrow s.timers (s.cancelTimer t).timers := by
  rw [cancelTimer_timers]
  refine ⟨fun x => if some x.id = t then { x with canceled := true } else x, [], by simp, fun x => ?_⟩
  by_cases hx : some x.id = t <;> simp [hx, Timer.shape]

theorem TimersGrow.append (l e : List Timer) : TimersGrow l (l ++ e) :=
  ⟨id, e, by simp, fun _ => ⟨rfl, id⟩⟩

/-- a timer in the table stays in the table (same id, call, deadline), and stays cancelled once cancelled -/
theorem TimersGrow.mem {l l' : List Timer} (h : TimersGrow l l') {t : Timer} (ht : t ∈ l) :
    ∃ t' ∈ l', t'.shape = t.shape ∧ (t.canceled = true → t'.canceled = true) := by
  obtain ⟨g, e, rfl, hg⟩ := h
  exact ⟨g t, List.mem_append_left _ (List.mem_map_of_mem ht), (hg t).1, (hg t).2⟩

theorem armTimer_grow (env : DEnv) (s : DState) (caller : SessKey) (req : Nat) (v : Invk) (timeout : Nat) :
    TimersGrow s.timers (armTimer env s caller req v timeout).timers := by
  unfold armTimer
  split
  · exact TimersGrow.append _ _
  · exact TimersGrow.refl _

theorem syncError_grow (s : DState) (callee : SessKey) (req : Nat) (details : Dict) (err : String)
    (args : List WVal) (kw : Dict) : TimersGrow s.timers (syncError s callee req details err args kw).st.timers := by
  unfold syncError
  simp only
  split
  · exact TimersGrow.refl _
  · split <;> exact TimersGrow.cancelTimer _ _

theorem cancelOut_grow (env : DEnv) (s : DState) (caller : SessKey) (req : Nat) (mode reason : String)
    (errArgs : List WVal) (i : ReqId) (v : Invk) :
    TimersGrow s.timers (cancelOut env s caller req mode reason errArgs i v).st.timers := by
  rw [cancelOut_eq]
  have : TimersGrow s.timers (cancelMark s v).timers :=
    TimersGrow.cancelTimer ({ s with d := s.d.setInv { v with canceled := true } } : DState) v.timer
  split
  · split <;> exact this
  · exact this

theorem syncCancel_grow (env : DEnv) (s : DState) (caller : SessKey) (req : Nat) (mode reason : String)
    (errArgs : List WVal) : TimersGrow s.timers (syncCancel env s caller req mode reason errArgs).st.timers := by
  unfold syncCancel
  simp only
  split
  · exact TimersGrow.refl _
  · split
    · exact TimersGrow.refl _
    · split
      · exact TimersGrow.refl _
      · rename_i i _ _ v _
        split
        · exact TimersGrow.refl _
        · exact cancelOut_grow env s caller req mode reason errArgs i v

theorem yieldTimer_grow (s : DState) (progress : Bool) (v : Invk) : TimersGrow s.timers (yieldTimer s progress v).timers := by
  unfold yieldTimer
  split
  · exact TimersGrow.refl _
  · exact TimersGrow.cancelTimer _ _

theorem yieldOut_grow (env : DEnv) (s : DState) (callee : SessKey) (req : Nat) (opts : Dict)
    (args : List WVal) (kw : Dict) (progress canRetry : Bool) (v : Invk) :
    TimersGrow s.timers (yieldOut env s callee req opts args kw progress canRetry v).st.timers := by
  have hfin : TimersGrow s.timers (yieldFinish s progress v ⟨callee, req⟩).timers := by
    unfold yieldFinish
    split <;> exact yieldTimer_grow s progress v
  cases h1 : yieldPptCalleeBad env callee opts
  case true =>
    rw [yieldOut_calleeBad args kw progress canRetry v h1]
    exact (yieldTimer_grow s progress v).trans (TimersGrow.cancelTimer _ _)
  case false =>
  cases h2 : yieldPptCallerBad env v.callId.sess opts
  case true => rw [yieldOut_callerBad args kw progress canRetry v h1 h2]; exact hfin
  case false =>
  cases h3 : env.full v.callId.sess
  case false => rw [yieldOut_deliver args kw progress canRetry v h1 h2 h3]; exact hfin
  case true =>
  cases canRetry
  case true => rw [yieldOut_retry args kw progress v h1 h2 h3]; exact yieldTimer_grow s progress v
  case false =>
    rw [yieldOut_giveup args kw progress v h1 h2 h3]
    have := (yieldTimer_grow s progress v).trans
      (syncCancel_grow env (yieldTimer s progress v) v.callId.sess v.callId.req CancelModeKillNoWait ErrCanceled [])
    simp only
    split <;> exact this

theorem syncYield_grow (env : DEnv) (s : DState) (callee : SessKey) (req : Nat) (opts : Dict)
    (args : List WVal) (kw : Dict) (progress canRetry : Bool) :
    TimersGrow s.timers (syncYield env s callee req opts args kw progress canRetry).st.timers := by
  unfold syncYield
  simp only
  split
  · split <;> exact TimersGrow.refl _
  · rename_i v _
    split
    · exact TimersGrow.refl _
    · split
      · split
        · exact TimersGrow.refl _
        · exact TimersGrow.cancelTimer _ _
      · exact yieldOut_grow env s callee req opts args kw progress canRetry v

theorem dispatch_grow (env : DEnv) (s : DState) (caller : SessKey) (req : Nat) (callee : SessKey) (invReq : Nat)
    (v : Invk) (timeout : Nat) (m : Msg) :
    TimersGrow s.timers (dispatch env s caller req callee invReq v timeout m).st.timers := by
  unfold dispatch
  split
  · exact syncError_grow ..
  · exact armTimer_grow ..

theorem preCancel_grow (s : DState) (v : Invk) (t : Nat) : TimersGrow s.timers (preCancel s v t).timers := by
  unfold preCancel
  split
  · exact TimersGrow.cancelTimer _ _
  · exact TimersGrow.refl _

theorem dispatchL_grow (env : DEnv) (s : DState) (caller : SessKey) (req : Nat) (callee : SessKey) (invReq : Nat)
    (v : Invk) (timeout : Nat) (m : Msg) :
    TimersGrow s.timers (dispatchL env s caller req callee invReq v timeout m).st.timers := by
  unfold dispatchL
  split
  · exact syncError_grow ..
  · exact (preCancel_grow s v timeout).trans (armTimer_grow ..)

theorem syncCall_grow (env : DEnv) (s : DState) (caller : SessKey) (req : Nat) (opts : Dict) (proc : String)
    (args : List WVal) (kw : Dict) (rnd : Nat) :
    TimersGrow s.timers (syncCall env s caller req opts proc args kw rnd).st.timers := by
  rw [syncCall_eq]
  split
  · split
    · exact TimersGrow.refl _
    · split
      · exact TimersGrow.refl _
      · unfold laterChunk
        exact dispatchL_grow env { s with d := s.d.setInv _ } ..
  · split
    · exact TimersGrow.refl _
    · split
      · exact TimersGrow.refl _
      · split
        · exact TimersGrow.refl _
        · split
          · exact TimersGrow.refl _
          · rw [firstChunk_eq]
            split
            · exact TimersGrow.refl _
            · exact TimersGrow.refl _
            · exact dispatch_grow env (recordCall _ _ _) ..

theorem syncRegister_timers (s : DState) (callee : SessKey) (req : Nat) (proc m invoke : String)
    (disclose fwd wampURI : Bool) : (syncRegister s callee req proc m invoke disclose fwd wampURI).st.timers = s.timers := by
  unfold syncRegister
  simp only
  split
  · rfl
  · split
    · rfl
    · split
      · rfl
      · split <;> rfl

theorem syncUnregister_timers (s : DState) (callee : SessKey) (req regId : Nat) :
    (syncUnregister s callee req regId).st.timers = s.timers := by
  unfold syncUnregister
  simp only
  split <;> rfl

theorem cancelServed_grow (env : DEnv) (k : SessKey) : ∀ (l : List Invk) (s : DState),
    TimersGrow s.timers (cancelServed env s k l).1.timers
  | [], s => TimersGrow.refl _
  | invk :: rest, s => by
    unfold cancelServed
    split
    · exact cancelServed_grow env k rest s
    · simp only
      refine TimersGrow.trans ?_ (cancelServed_grow env k rest _)
      refine TimersGrow.trans ?_ (syncCancel_grow ..)
      refine TimersGrow.trans (TimersGrow.cancelTimer s invk.timer) ?_
      split <;> exact TimersGrow.refl _

theorem dropCalls_grow (k : SessKey) : ∀ (l : List ReqId) (s : DState), TimersGrow s.timers (dropCalls s k l).timers
  | [], s => TimersGrow.refl _
  | c :: rest, s => by
    unfold dropCalls
    split
    · exact dropCalls_grow k rest s
    · refine TimersGrow.trans ?_ (dropCalls_grow k rest _)
      simp only
      split
      · split
        · exact TimersGrow.cancelTimer _ _
        · exact TimersGrow.refl _
      · exact TimersGrow.refl _

theorem syncRemoveSession_grow (env : DEnv) (s : DState) (k : SessKey) :
    TimersGrow s.timers (syncRemoveSession env s k).st.timers := by
  unfold syncRemoveSession
  simp only
  refine TimersGrow.trans ?_ (dropCalls_grow k _ _)
  exact cancelServed_grow env k _ { s with d := _ }

/-- No `sync*` function removes a timer from the table or revives a cancelled one: timers leave the table
    only when they fire (`Realm.timerDue`, the `dropTimers` step).  The hypothesis speaks about the one step that can
    drop timers: if the step is `dropTimers p`, then `p` keeps every timer (it holds vacuously for all other steps that
    change anything, and for a no-op step with `p = fun _ => true`). -/
theorem DStep.timers_grow {s : DState} {o : DOut} (st : DStep s o)
    (hkeep : ∀ p, o = { st := { s with timers := s.timers.filter p } } → ∀ t ∈ s.timers, p t = true) :
    TimersGrow s.timers o.st.timers := by
  cases st with
  | register => exact TimersGrow.of_eq (syncRegister_timers ..)
  | unregister => exact TimersGrow.of_eq (syncUnregister_timers ..)
  | call => exact syncCall_grow ..
  | cancel => exact syncCancel_grow ..
  | yield => exact syncYield_grow ..
  | error => exact syncError_grow ..
  | removeSession => exact syncRemoveSession_grow ..
  | dropTimers p => exact TimersGrow.of_eq (List.filter_eq_self.2 (hkeep p rfl))

/-- … stated without hypothesis: across ANY step a timer of the table either stays (same id, call, deadline; cancelled
    stays cancelled), or the step is the expiry bookkeeping `dropTimers p` and `p` rejects it. -/
theorem DStep.timer_persists_or_dropped {s : DState} {o : DOut} (st : DStep s o) {t : Timer} (ht : t ∈ s.timers) :
    (∃ t' ∈ o.st.timers, t'.shape = t.shape ∧ (t.canceled = true → t'.canceled = true)) ∨
    (∃ p, o = { st := { s with timers := s.timers.filter p } } ∧ p t = false) := by
  have grow : TimersGrow s.timers o.st.timers →
      ∃ t' ∈ o.st.timers, t'.shape = t.shape ∧ (t.canceled = true → t'.canceled = true) := fun g => g.mem ht
  cases st with
  | register => exact Or.inl (grow (TimersGrow.of_eq (syncRegister_timers ..)))
  | unregister => exact Or.inl (grow (TimersGrow.of_eq (syncUnregister_timers ..)))
  | call => exact Or.inl (grow (syncCall_grow ..))
  | cancel => exact Or.inl (grow (syncCancel_grow ..))
  | yield => exact Or.inl (grow (syncYield_grow ..))
  | error => exact Or.inl (grow (syncError_grow ..))
  | removeSession => exact Or.inl (grow (syncRemoveSession_grow ..))
  | dropTimers p =>
    cases hp : p t with
    | true => exact Or.inl ⟨t, List.mem_filter.2 ⟨ht, hp⟩, rfl, id⟩
    | false => exact Or.inr ⟨p, rfl, hp⟩

/-! ### completion cancels the recorded timer -/

theorem cancelTimer_cancels (s : DState) (tid : Nat) :
    ∀ t ∈ (s.cancelTimer (some tid)).timers, t.id = tid → t.canceled = true := by
  intro t ht hid
  rw [cancelTimer_timers] at ht
  rcases List.mem_map.1 ht with ⟨x, _, rfl⟩
  by_cases hx : some x.id = some tid
  · simp [hx]
  · simp only [hx, if_false] at hid ⊢
    exact absurd (congrArg some hid) hx

/-- after `TimersGrow` a timer id that was cancelled everywhere stays cancelled everywhere, provided ids are
    unique and the new timers have other ids -/
theorem cancelMark_cancels (s : DState) (v : Invk) {tid : Nat} (hv : v.timer = some tid) :
    ∀ t ∈ (cancelMark s v).timers, t.id = tid → t.canceled = true := by
  unfold cancelMark
  rw [hv]
  exact cancelTimer_cancels _ tid


/-- `TimersGrow`, and every timer with id `tid` that was in the table is cancelled now -/
def TimersGrowC (tid : Nat) (l l' : List Timer) : Prop :=
  ∃ (g : Timer → Timer) (extra : List Timer), l' = l.map g ++ extra ∧
    (∀ t, (g t).shape = t.shape ∧ (t.canceled = true → (g t).canceled = true)) ∧
    ∀ t, t.id = tid → (g t).canceled = true

theorem TimersGrowC.of_cancel (s : DState) (tid : Nat) : TimersGrowC tid s.timers (s.cancelTimer (some tid)).timers := by
  rw [cancelTimer_timers]
  refine ⟨fun x => if some x.id = some tid then { x with canceled := true } else x, [], by simp, fun x => ?_, fun x hx => ?_⟩
  · by_cases hx : some x.id = some tid <;> simp [hx, Timer.shape]
  · simp [hx]

theorem TimersGrowC.trans_right {tid : Nat} {a b c : List Timer} (h1 : TimersGrowC tid a b) (h2 : TimersGrow b c) :
    TimersGrowC tid a c := by
  obtain ⟨g1, e1, rfl, hg1, hc1⟩ := h1
  obtain ⟨g2, e2, rfl, hg2⟩ := h2
  refine ⟨g2 ∘ g1, e1.map g2 ++ e2, by simp [List.map_append, List.map_map], fun t => ?_, fun t ht => ?_⟩
  · exact ⟨((hg2 (g1 t)).1).trans (hg1 t).1, fun hc => (hg2 (g1 t)).2 ((hg1 t).2 hc)⟩
  · exact (hg2 (g1 t)).2 (hc1 t ht)

theorem TimersGrowC.trans_left {tid : Nat} {a b c : List Timer} (h1 : TimersGrow a b) (h2 : TimersGrowC tid b c) :
    TimersGrowC tid a c := by
  obtain ⟨g1, e1, rfl, hg1⟩ := h1
  obtain ⟨g2, e2, rfl, hg2, hc2⟩ := h2
  refine ⟨g2 ∘ g1, e1.map g2 ++ e2, by simp [List.map_append, List.map_map], fun t => ?_, fun t ht => ?_⟩
  · exact ⟨((hg2 (g1 t)).1).trans (hg1 t).1, fun hc => (hg2 (g1 t)).2 ((hg1 t).2 hc)⟩
  · refine hc2 (g1 t) ?_
    have := congrArg (·.1) (hg1 t).1
    simp only [Timer.shape] at this
    exact this.trans ht

/-- the timer with id `tid`, if it was in the table, is in the table and cancelled -/
theorem TimersGrowC.cancelled {tid : Nat} {l l' : List Timer} (h : TimersGrowC tid l l') (hn : (l'.map (·.id)).Nodup)
    {t : Timer} (ht : t ∈ l) (hid : t.id = tid) : ∀ t' ∈ l', t'.id = tid → t'.canceled = true := by
  obtain ⟨g, e, rfl, hg, hc⟩ := h
  intro t' ht' hid'
  have hgt : g t ∈ l.map g ++ e := List.mem_append_left _ (List.mem_map_of_mem ht)
  have hgid : (g t).id = tid := by
    have := congrArg (·.1) (hg t).1
    simp only [Timer.shape] at this
    exact this.trans hid
  have : t' = g t := nodup_map_inj hn ht' hgt (hid'.trans hgid.symm)
  rw [this]; exact hc t hid

theorem eq_of_gone {l : List ReqId} {a c : ReqId} (ha : a ∈ l) (hg : a ∉ l.filter (· != c)) : a = c := by
  apply Classical.byContradiction
  intro hne
  exact hg (List.mem_filter.2 ⟨ha, by simpa using hne⟩)

theorem syncError_cancels {s : DState} (h : DealerInv s) (callee : SessKey) (req : Nat) (details : Dict) (err : String)
    (args : List WVal) (kw : Dict) {v : Invk} (hv : v ∈ s.d.invs) {tid : Nat} (hvt : v.timer = some tid)
    (hgone : v.callId ∉ (syncError s callee req details err args kw).st.d.calls) :
    TimersGrowC tid s.timers (syncError s callee req details err args kw).st.timers := by
  have hpend := (h.call.inv_call hv).1
  cases hf : s.d.findInv ⟨callee, req⟩ with
  | none => rw [syncError_none _ _ _ _ hf] at hgone; exact absurd hpend hgone
  | some w =>
    rw [syncError_some' h.call _ _ _ _ hf] at hgone ⊢
    have hw := findInv_some_mem hf
    have he : v.callId = w.callId := eq_of_gone hpend (by simpa using hgone)
    have : v = w := nodup_map_inj h.call.invCalls hv hw.1 he
    subst this
    show TimersGrowC tid s.timers (s.cancelTimer v.timer).timers
    rw [hvt]; exact TimersGrowC.of_cancel s tid

theorem cancelOut_cancels {env : DEnv} {s : DState} (caller : SessKey) (req : Nat) (mode reason : String)
    (errArgs : List WVal) (i : ReqId) {v : Invk} {tid : Nat} (hvt : v.timer = some tid) :
    TimersGrowC tid s.timers (cancelOut env s caller req mode reason errArgs i v).st.timers := by
  have : TimersGrowC tid s.timers (cancelMark s v).timers := by
    unfold cancelMark
    rw [hvt]
    exact TimersGrowC.of_cancel ({ s with d := s.d.setInv { v with canceled := true } } : DState) tid
  rw [cancelOut_eq]
  split
  · split <;> exact this
  · exact this

theorem syncCancel_cancels {env : DEnv} {s : DState} (h : DealerInv s) (caller : SessKey) (req : Nat)
    (mode reason : String) (errArgs : List WVal) {v : Invk} (hv : v ∈ s.d.invs) {tid : Nat} (hvt : v.timer = some tid)
    (hgone : v.callId ∉ (syncCancel env s caller req mode reason errArgs).st.d.calls) :
    TimersGrowC tid s.timers (syncCancel env s caller req mode reason errArgs).st.timers := by
  have hpend := (h.call.inv_call hv).1
  by_cases hc : (⟨caller, req⟩ : ReqId) ∈ s.d.calls
  · obtain ⟨i, w, hb, hf, hw, _, hwc, _⟩ := h.call.lookup hc
    rw [syncCancel_pending mode reason errArgs hc hb hf] at hgone ⊢
    split at hgone
    · exact absurd hpend hgone
    · rename_i hcan
      rw [if_neg hcan]
      by_cases he : v = w
      · subst he; exact cancelOut_cancels caller req mode reason errArgs i hvt
      · exfalso
        apply hgone
        have hne : v.callId ≠ ⟨caller, req⟩ := fun hx => he (nodup_map_inj h.call.invCalls hv hw (hx.trans hwc.symm))
        rw [cancelOut_eq]
        split
        · split
          · simpa using hpend
          · simp [hpend, hne]
        · simp [hpend, hne]
  · rw [syncCancel_not_pending mode reason errArgs hc] at hgone; exact absurd hpend hgone



theorem yieldOut_cancels {env : DEnv} {s : DState} (h : DealerInv s) {callee : SessKey} {req : Nat} (opts : Dict)
    (args : List WVal) (kw : Dict) (progress canRetry : Bool) {w : Invk} (hw : w ∈ s.d.invs) (hi : w.id = ⟨callee, req⟩)
    {v : Invk} (hv : v ∈ s.d.invs) {tid : Nat} (hvt : v.timer = some tid)
    (hgone : v.callId ∉ (yieldOut env s callee req opts args kw progress canRetry w).st.d.calls) :
    TimersGrowC tid s.timers (yieldOut env s callee req opts args kw progress canRetry w).st.timers := by
  have hpend := (h.call.inv_call hv).1
  have hfin : ∀ c, c ∈ s.d.calls → (progress = true ∨ c ≠ w.callId) → c ∈ (yieldFinish s progress w ⟨callee, req⟩).d.calls := by
    intro c hc hor
    rw [yieldFinish_calls]
    split
    · exact hc
    · rename_i hp
      exact List.mem_filter.2 ⟨hc, by simpa using hor.resolve_left hp⟩
  -- the non-progress YIELD's own bookkeeping cancels the timer of `w`
  have hyt : v = w → progress = false → TimersGrowC tid s.timers (yieldTimer s progress w).timers := by
    rintro rfl hp
    unfold yieldTimer
    rw [hp, hvt]
    exact TimersGrowC.of_cancel s tid
  have hvw : v.callId = w.callId → v = w := fun he => nodup_map_inj h.call.invCalls hv hw he
  have hfin' : v.callId ∉ (yieldFinish s progress w ⟨callee, req⟩).d.calls →
      TimersGrowC tid s.timers (yieldFinish s progress w ⟨callee, req⟩).timers := by
    intro hg
    have hp : progress = false := by
      cases hp : progress
      · rfl
      · exact absurd (hfin _ hpend (Or.inl hp)) hg
    have he : v.callId = w.callId := by
      apply Classical.byContradiction
      intro hne
      exact hg (hfin _ hpend (Or.inr hne))
    have := hyt (hvw he) hp
    unfold yieldFinish
    rw [hp]
    simpa [hp] using this
  cases h1 : yieldPptCalleeBad env callee opts
  case true =>
    rw [yieldOut_calleeBad args kw progress canRetry w h1] at hgone ⊢
    have he : v.callId = w.callId := eq_of_gone hpend (by simpa using hgone)
    have := hvw he
    subst this
    refine TimersGrowC.trans_left (yieldTimer_grow s progress v) ?_
    rw [hvt]
    exact TimersGrowC.of_cancel _ tid
  case false =>
  cases h2 : yieldPptCallerBad env w.callId.sess opts
  case true => rw [yieldOut_callerBad args kw progress canRetry w h1 h2] at hgone ⊢; exact hfin' hgone
  case false =>
  cases h3 : env.full w.callId.sess
  case false => rw [yieldOut_deliver args kw progress canRetry w h1 h2 h3] at hgone ⊢; exact hfin' hgone
  case true =>
  cases canRetry
  case true =>
    rw [yieldOut_retry args kw progress w h1 h2 h3] at hgone
    simp only [yieldTimer_d] at hgone
    exact absurd hpend hgone
  case false =>
    rw [yieldOut_giveup' h args kw progress hw hi h1 h2 h3] at hgone ⊢
    split at hgone
    · rename_i hcan
      rw [if_pos hcan]
      exact hfin' hgone
    · rename_i hcan
      rw [if_neg hcan]
      have he : v.callId = w.callId := eq_of_gone hpend (by simpa using hgone)
      have := hvw he
      subst this
      refine TimersGrowC.trans_left (yieldTimer_grow s progress v) ?_
      show TimersGrowC tid _ (cancelMark (yieldTimer s progress v) v).timers
      unfold cancelMark
      rw [hvt]
      exact TimersGrowC.of_cancel ({ yieldTimer s progress v with d := _ } : DState) tid

theorem syncYield_cancels {env : DEnv} {s : DState} (h : DealerInv s) (callee : SessKey) (req : Nat) (opts : Dict)
    (args : List WVal) (kw : Dict) (progress canRetry : Bool) {v : Invk} (hv : v ∈ s.d.invs) {tid : Nat}
    (hvt : v.timer = some tid)
    (hgone : v.callId ∉ (syncYield env s callee req opts args kw progress canRetry).st.d.calls) :
    TimersGrowC tid s.timers (syncYield env s callee req opts args kw progress canRetry).st.timers := by
  have hpend := (h.call.inv_call hv).1
  cases hf : s.d.findInv ⟨callee, req⟩ with
  | none =>
    rw [syncYield_none opts args kw progress canRetry hf] at hgone
    split at hgone <;> exact absurd hpend hgone
  | some w =>
    rw [syncYield_some' h.call opts args kw progress canRetry hf] at hgone ⊢
    have hw := findInv_some_mem hf
    exact yieldOut_cancels h opts args kw progress canRetry hw.1 hw.2 hv hvt hgone



theorem syncCall_cancels {env : DEnv} {s : DState} (h : DealerInv s) (caller : SessKey) (req : Nat) (opts : Dict)
    (proc : String) (args : List WVal) (kw : Dict) (rnd : Nat) {v : Invk} (hv : v ∈ s.d.invs) {tid : Nat}
    (hvt : v.timer = some tid)
    (hgone : v.callId ∉ (syncCall env s caller req opts proc args kw rnd).st.d.calls) :
    TimersGrowC tid s.timers (syncCall env s caller req opts proc args kw rnd).st.timers := by
  have hpend := (h.call.inv_call hv).1
  revert hgone
  refine syncCall_cases (env := env)
    (P := fun o => v.callId ∉ o.st.d.calls → TimersGrowC tid s.timers o.st.timers) h caller req opts proc args kw rnd
    ?_ ?_ ?_ ?_ ?_ ?_ ?_ ?_
  · intro _ hg; exact absurd hpend hg
  · intro iid v0 _ _ _ _ _ _ _ hg
    simp only [armTimer_calls, preCancel_d] at hg; exact absurd hpend hg
  · intro iid v0 hb hfi hv0 _ hvc0 _ _ hg
    have he : v.callId = ⟨caller, req⟩ := eq_of_gone hpend hg
    have : v = v0 := nodup_map_inj h.call.invCalls hv hv0 (he.trans hvc0.symm)
    subst this
    show TimersGrowC tid s.timers (({ s with d := s.d.setInv _ } : DState).cancelTimer v.timer).timers
    rw [hvt]
    exact TimersGrowC.of_cancel ({ s with d := s.d.setInv _ } : DState) tid
  · intro _ _ _ hg; exact absurd hpend hg
  · intro reg reg' callee e _ _ _ _ _ _ _ hg; exact absurd hpend hg
  · intro reg reg' callee _ _ _ _ _ _ _ hg; exact absurd hpend hg
  · intro reg reg' callee _ _ _ _ _ _ _ _ hg
    simp only [armTimer_calls] at hg
    exact absurd (List.mem_append_left _ hpend) hg
  · intro reg reg' callee _ hc0 _ _ _ _ _ _ hg
    rw [fullOut_fresh_calls hc0] at hg; exact absurd hpend hg

/-! ### session removal cancels the timers of the calls it ends -/

theorem uncancel_timers (s : DState) (cur : Invk) : (uncancel s cur).timers = s.timers := rfl

theorem cancelServed_hit_grow (env : DEnv) (s : DState) (invk cur : Invk) :
    TimersGrow s.timers (syncCancel env (uncancel (s.cancelTimer invk.timer) cur) invk.callId.sess invk.callId.req
      CancelModeSkip ErrCanceled [.str "<text>"]).st.timers :=
  (TimersGrow.cancelTimer s invk.timer).trans (syncCancel_grow ..)

theorem cancelServed_cancels (env : DEnv) (k : SessKey) (tid : Nat) : ∀ (l : List Invk) (s : DState), DealerInv s →
    (l.map (·.callId)).Nodup →
    (∀ u ∈ l, u.callId ∈ s.d.calls → ∃ cur ∈ s.d.invs, cur.id = u.id ∧ cur.callId = u.callId) →
    ∀ v ∈ l, v.callee = k → v.callId ∈ s.d.calls → v.timer = some tid →
      TimersGrowC tid s.timers (cancelServed env s k l).1.timers
  | [], _, _, _, _, v, hv, _, _, _ => by cases hv
  | invk :: rest, s, h, hnd, hcur, v, hv, hk, hpend, hvt => by
    rw [List.map_cons, List.nodup_cons] at hnd
    by_cases hcond : (invk.callee != k || !s.d.calls.contains invk.callId) = true
    · rw [cancelServed_cons_skip rest hcond]
      rcases List.mem_cons.1 hv with rfl | hv'
      · exfalso
        simp [hk, hpend] at hcond
      · exact cancelServed_cancels env k tid rest s h hnd.2 (fun u hu => hcur u (List.mem_cons_of_mem _ hu)) v hv' hk hpend hvt
    · have hk' : invk.callee = k := by
        cases h1 : invk.callee == k <;> simp_all
      have hpend' : invk.callId ∈ s.d.calls := by
        cases h2 : s.d.calls.contains invk.callId <;> simp_all
      obtain ⟨cur, hcm, hcid, hccall⟩ := hcur invk (List.mem_cons_self ..) hpend'
      have hfi : (s.cancelTimer invk.timer).d.findInv invk.id = some cur := by
        rw [cancelTimer_d]; exact (findInv_eq_some h.call.invIds).2 ⟨hcm, hcid⟩
      rw [cancelServed_cons_hit rest hcond hfi]
      obtain ⟨_, g2, g3, g4⟩ := goneStep (env := env) h hcm invk.timer hccall
      have hgrow := cancelServed_hit_grow env s invk cur
      rcases List.mem_cons.1 hv with rfl | hv'
      · -- this iteration stops the timer of `v`
        refine TimersGrowC.trans_right ?_ (cancelServed_grow env k rest _)
        refine TimersGrowC.trans_right ?_ (syncCancel_grow ..)
        show TimersGrowC tid s.timers (s.cancelTimer v.timer).timers
        rw [hvt]; exact TimersGrowC.of_cancel s tid
      · refine TimersGrowC.trans_left hgrow ?_
        generalize syncCancel env (uncancel (s.cancelTimer invk.timer) cur) invk.callId.sess invk.callId.req
            CancelModeSkip ErrCanceled [.str "<text>"] = o at g2 g3 g4 ⊢
        have hne : v.callId ≠ invk.callId := fun he => hnd.1 (List.mem_map.2 ⟨v, hv', he⟩)
        have hcur' : ∀ u ∈ rest, u.callId ∈ o.st.d.calls →
            ∃ cur' ∈ o.st.d.invs, cur'.id = u.id ∧ cur'.callId = u.callId := by
          intro u hu huc
          rw [g2] at huc
          have huc' := List.mem_filter.1 huc
          obtain ⟨cur', hm', hid', hcall'⟩ := hcur u (List.mem_cons_of_mem _ hu) huc'.1
          refine ⟨cur', g3 cur' hm' ?_, hid', hcall'⟩
          intro he
          have : cur' = cur := nodup_map_inj h.call.invIds hm' hcm he
          have hne' : u.callId ≠ invk.callId := by simpa using huc'.2
          exact hne' (by rw [← hcall', this, hccall])
        refine cancelServed_cancels env k tid rest o.st g4 hnd.2 hcur' v hv' hk ?_ hvt
        rw [g2]
        exact List.mem_filter.2 ⟨hpend, by simpa using hne⟩

/-- invocations served by other sessions are untouched by the `cancelServed` loop -/
theorem cancelServed_keeps (env : DEnv) (k : SessKey) : ∀ (l : List Invk) (s : DState), DealerInv s →
    (∀ u ∈ l, u.callId ∈ s.d.calls → ∃ cur ∈ s.d.invs, cur.id = u.id ∧ cur.callId = u.callId) →
    ∀ w ∈ s.d.invs, (∀ u ∈ l, u.callee = k → u.id ≠ w.id) → w ∈ (cancelServed env s k l).1.d.invs
  | [], _, _, _, w, hw, _ => hw
  | invk :: rest, s, h, hcur, w, hw, hne => by
    by_cases hcond : (invk.callee != k || !s.d.calls.contains invk.callId) = true
    · rw [cancelServed_cons_skip rest hcond]
      exact cancelServed_keeps env k rest s h (fun u hu => hcur u (List.mem_cons_of_mem _ hu)) w hw
        (fun u hu => hne u (List.mem_cons_of_mem _ hu))
    · have hk' : invk.callee = k := by
        cases h1 : invk.callee == k <;> simp_all
      have hpend' : invk.callId ∈ s.d.calls := by
        cases h2 : s.d.calls.contains invk.callId <;> simp_all
      obtain ⟨cur, hcm, hcid, hccall⟩ := hcur invk (List.mem_cons_self ..) hpend'
      have hfi : (s.cancelTimer invk.timer).d.findInv invk.id = some cur := by
        rw [cancelTimer_d]; exact (findInv_eq_some h.call.invIds).2 ⟨hcm, hcid⟩
      rw [cancelServed_cons_hit rest hcond hfi]
      obtain ⟨_, g2, g3, g4⟩ := goneStep (env := env) h hcm invk.timer hccall
      have hwne : w.id ≠ cur.id := fun he => hne invk (List.mem_cons_self ..) hk' (hcid.symm.trans he.symm)
      have hw' := g3 w hw hwne
      generalize syncCancel env (uncancel (s.cancelTimer invk.timer) cur) invk.callId.sess invk.callId.req
          CancelModeSkip ErrCanceled [.str "<text>"] = o at g2 g3 g4 hw' ⊢
      have hcur' : ∀ u ∈ rest, u.callId ∈ o.st.d.calls →
          ∃ cur' ∈ o.st.d.invs, cur'.id = u.id ∧ cur'.callId = u.callId := by
        intro u hu huc
        rw [g2] at huc
        have huc' := List.mem_filter.1 huc
        obtain ⟨cur', hm', hid', hcall'⟩ := hcur u (List.mem_cons_of_mem _ hu) huc'.1
        refine ⟨cur', g3 cur' hm' ?_, hid', hcall'⟩
        intro he
        have : cur' = cur := nodup_map_inj h.call.invIds hm' hcm he
        have hne' : u.callId ≠ invk.callId := by simpa using huc'.2
        exact hne' (by rw [← hcall', this, hccall])
      exact cancelServed_keeps env k rest o.st g4 hcur' w hw' (fun u hu => hne u (List.mem_cons_of_mem _ hu))

/-- one iteration of `dropCalls` on a call of the departing session -/
def dropOne (s : DState) (c : ReqId) : DState :=
  let d := s.d.delCall c
  match d.byCall? c with
  | some iid =>
    let s := match d.findInv iid with
      | some invk => s.cancelTimer invk.timer
      | none => s
    { s with d := (d.delByCall c).delInv iid }
  | none => { s with d := d }

theorem dropCalls_cons_skip {s : DState} {k : SessKey} {c : ReqId} (rest : List ReqId) (h : (c.sess != k) = true) :
    dropCalls s k (c :: rest) = dropCalls s k rest := by
  rw [dropCalls, if_pos h]

theorem dropCalls_cons_hit {s : DState} {k : SessKey} {c : ReqId} (rest : List ReqId) (h : ¬ (c.sess != k) = true) :
    dropCalls s k (c :: rest) = dropCalls (dropOne s c) k rest := by
  rw [dropCalls, if_neg h]
  rfl

theorem dropOne_pending {s : DState} (h : DealerInv s) {c : ReqId} (hc : c ∈ s.d.calls) :
    ∃ i v, v ∈ s.d.invs ∧ v.id = i ∧ v.callId = c ∧
      dropOne s c = { s.cancelTimer v.timer with d := s.d.forget c i } := by
  obtain ⟨i, v, hb, hf, hv, hvi, hvc, _⟩ := h.call.lookup hc
  refine ⟨i, v, hv, hvi, hvc, ?_⟩
  unfold dropOne
  have hb' : (s.d.delCall c).byCall? c = some i := hb
  have hf' : (s.d.delCall c).findInv i = some v := hf
  simp only [hb', hf']
  rfl

theorem dropOne_inv {s : DState} (h : DealerInv s) (c : ReqId) : DealerInv (dropOne s c) := by
  have := dropCalls_inv c.sess [c] s h
  rw [dropCalls_cons_hit [] (by simp)] at this
  exact this

theorem dropCalls_cancels (k : SessKey) (tid : Nat) : ∀ (l : List ReqId) (s : DState), DealerInv s →
    ∀ v ∈ s.d.invs, v.timer = some tid → v.callId ∈ l → v.callId.sess = k →
      TimersGrowC tid s.timers (dropCalls s k l).timers
  | [], _, _, _, _, _, hl, _ => by cases hl
  | c :: rest, s, h, v, hv, hvt, hl, hk => by
    have hpend := (h.call.inv_call hv).1
    by_cases hck : (c.sess != k) = true
    · rw [dropCalls_cons_skip rest hck]
      rcases List.mem_cons.1 hl with he | hl'
      · exfalso; rw [← he] at hck; simp [hk] at hck
      · exact dropCalls_cancels k tid rest s h v hv hvt hl' hk
    · rw [dropCalls_cons_hit rest hck]
      by_cases hcv : v.callId = c
      · obtain ⟨i, w, hw, _, hwc, he⟩ := dropOne_pending h (hcv ▸ hpend)
        have : w = v := nodup_map_inj h.call.invCalls hw hv (hwc.trans hcv.symm)
        subst this
        refine TimersGrowC.trans_right ?_ (dropCalls_grow k rest _)
        rw [he]
        show TimersGrowC tid s.timers (s.cancelTimer w.timer).timers
        rw [hvt]; exact TimersGrowC.of_cancel s tid
      · have hl' : v.callId ∈ rest := (List.mem_cons.1 hl).resolve_left hcv
        have hgrow : TimersGrow s.timers (dropOne s c).timers := by
          have := dropCalls_grow c.sess [c] s
          rw [dropCalls_cons_hit [] (by simp)] at this
          exact this
        refine TimersGrowC.trans_left hgrow ?_
        refine dropCalls_cancels k tid rest (dropOne s c) (dropOne_inv h c) v ?_ hvt hl' hk
        by_cases hc : c ∈ s.d.calls
        · obtain ⟨i, w, hw, hwi, hwc, he⟩ := dropOne_pending h hc
          rw [he]
          simp only [forget_invs, List.mem_filter, bne_iff_ne, ne_eq]
          refine ⟨hv, fun hx => hcv ?_⟩
          have : v = w := nodup_map_inj h.call.invIds hv hw (hx.trans hwi.symm)
          rw [this]; exact hwc
        · have hb : (s.d.delCall c).byCall? c = none := h.call.byCall?_none hc
          unfold dropOne
          simp only [hb]
          exact hv



theorem syncRemoveSession_cancels {env : DEnv} {s : DState} (h : DealerInv s) (k : SessKey) {v : Invk}
    (hv : v ∈ s.d.invs) {tid : Nat} (hvt : v.timer = some tid)
    (hgone : v.callId ∉ (syncRemoveSession env s k).st.d.calls) :
    TimersGrowC tid s.timers (syncRemoveSession env s k).st.timers := by
  obtain ⟨s1, h1, hcs, hi, _, ⟨ht, _⟩, _, he⟩ := removeSession_mid (env := env) h k
  have hpend : v.callId ∈ s1.d.calls := hcs ▸ (h.call.inv_call hv).1
  have hv1 : v ∈ s1.d.invs := hi ▸ hv
  have hcur : ∀ u ∈ s1.d.invs, u.callId ∈ s1.d.calls → ∃ cur ∈ s1.d.invs, cur.id = u.id ∧ cur.callId = u.callId :=
    fun u hu _ => ⟨u, hu, rfl, rfl⟩
  rw [he] at hgone ⊢
  simp only at hgone ⊢
  rw [← ht]
  by_cases hk : v.callee = k
  · exact (cancelServed_cancels env k tid s1.d.invs s1 h1 h1.call.invCalls hcur v hv1 hk hpend hvt).trans_right
      (dropCalls_grow k _ _)
  · have h2 := cancelServed_inv env k s1.d.invs s1 h1
    have hkeep : v ∈ (cancelServed env s1 k s1.d.invs).1.d.invs :=
      cancelServed_keeps env k s1.d.invs s1 h1 hcur v hv1 (fun u hu huk he => by
        have : u = v := nodup_map_inj h1.call.invIds hu hv1 he
        exact hk (this ▸ huk))
    have hpend2 : v.callId ∈ (cancelServed env s1 k s1.d.invs).1.d.calls := (h2.call.inv_call hkeep).1
    refine TimersGrowC.trans_left (cancelServed_grow env k s1.d.invs s1) ?_
    apply dropCalls_cancels k tid _ _ h2 v hkeep hvt hpend2
    apply Classical.byContradiction
    intro hsess
    -- a call of another session survives `dropCalls`
    have hsurv : ∀ (l : List ReqId) (s' : DState), v.callId ∈ s'.d.calls → v.callId ∈ (dropCalls s' k l).d.calls := by
      intro l
      induction l with
      | nil => intro s' hc; exact hc
      | cons c rest ih =>
        intro s' hc
        by_cases hck : (c.sess != k) = true
        · rw [dropCalls_cons_skip rest hck]; exact ih s' hc
        · rw [dropCalls_cons_hit rest hck]
          apply ih
          have hne : v.callId ≠ c := by
            intro hx; apply hsess; rw [hx]; simpa using hck
          unfold dropOne
          simp only
          split
          · simp only [Dealer.delCall, Dealer.delByCall, Dealer.delInv]
            exact List.mem_filter.2 ⟨hc, by simpa using hne⟩
          · simp only [Dealer.delCall]
            exact List.mem_filter.2 ⟨hc, by simpa using hne⟩
    exact hgone (hsurv _ _ hpend2)

/-- When a step completes a call (removes it from `calls`), the timer recorded in its invocation — the
    timer armed by the latest chunk — is cancelled, if it is still in the table. -/
theorem DStep.completion_cancels_timer {s : DState} {o : DOut} (h : DealerInv s) (st : DStep s o)
    {v : Invk} (hv : v ∈ s.d.invs) {tid : Nat} (hvt : v.timer = some tid) (hgone : v.callId ∉ o.st.d.calls)
    {t : Timer} (ht : t ∈ s.timers) (hid : t.id = tid) :
    ∀ t' ∈ o.st.timers, t'.id = tid → t'.canceled = true := by
  have hpend := (h.call.inv_call hv).1
  have hn := (st.inv h).aux.timerIds
  have key : TimersGrowC tid s.timers o.st.timers := by
    cases st with
    | register => rw [syncRegister_calls] at hgone; exact absurd hpend hgone
    | unregister => rw [syncUnregister_calls h] at hgone; exact absurd hpend hgone
    | call => exact syncCall_cancels h _ _ _ _ _ _ _ hv hvt hgone
    | cancel => exact syncCancel_cancels h _ _ _ _ _ hv hvt hgone
    | yield => exact syncYield_cancels h _ _ _ _ _ _ _ hv hvt hgone
    | error => exact syncError_cancels h _ _ _ _ _ _ hv hvt hgone
    | removeSession => exact syncRemoveSession_cancels h _ hv hvt hgone
    | dropTimers p => exact absurd hpend hgone
  exact key.cancelled hn ht hid


end Nexus.L2
