/-
  THE META REGISTRATIONS ARE INTACT in every reachable realm.

  `Realm.create` registers every meta procedure of the configuration (`registerMeta`) for the meta session:
  exact match, no sharing policy, caller disclosure on, and records the registration id in `metaProcs`.
  In every state reachable by ANY history of inputs (`Realm.Reachable`) each of these registrations is still
  in the dealer's table as the very same record — same id, callees `[metaKey]` —, it is the best match of its
  procedure URI, and `metaProcs` is unchanged.  (A registration loses a callee only by that callee's
  UNREGISTER or departure; the meta session sends nothing but YIELD / ERROR and never leaves:
  `WpC.MetaSafe`.  `join` under the meta session's key is a no-op of the model.)

  This is the invariant behind the meta-call round trip `C18_call_roundtrip_stmt`.
-/
import Nexus.L2.Proofs.WpBWampRegs
import Nexus.L2.Proofs.RealmKeys
import Nexus.L2.Proofs.WpCLeaveTables

namespace Nexus.L2.MetaRegs
open Nexus.L2 Nexus.L2.Realm Nexus.L2.WpC Nexus.Gen.N

/-- a registration with the single ("") policy, served by `m` alone -/
def Solo (g : Reg) (m : SessKey) : Prop := g.callees = [m] ∧ g.policy = ""

/-! ### dealer level: such a registration stays, as the same record, unless `m` unregisters or leaves -/

section dealer
variable {g : Reg} {m : SessKey}

theorem mem_setReg {d : Dealer} {x : Reg} (hg : g ∈ d.regs) (hx : x.id = g.id → x = g) : g ∈ (d.setReg x).regs := by
  unfold Dealer.setReg
  apply List.mem_map.mpr
  refine ⟨g, hg, ?_⟩
  by_cases e : g.id = x.id
  · simp only [e, beq_self_eq_true, if_true]; exact hx e.symm
  · have : (g.id == x.id) = false := by simpa using e
    simp only [this, Bool.false_eq_true, if_false]

theorem mem_delReg {d : Dealer} {id : Nat} (hg : g ∈ d.regs) (hne : g.id ≠ id) : g ∈ (d.delReg id).regs :=
  List.mem_filter.mpr ⟨hg, by simpa using hne⟩

theorem setReg_ids (d : Dealer) (x : Reg) : (d.setReg x).regs.map (·.id) = d.regs.map (·.id) := by
  unfold Dealer.setReg
  simp only [List.map_map]
  apply List.map_congr_left
  intro y _
  simp only [Function.comp]
  by_cases e : y.id = x.id
  · simp [e]
  · have : (y.id == x.id) = false := by simpa using e
    simp [this]

theorem keep_register {s : DState} (h : DealerInv s) (hs : Solo g m) (hg : g ∈ s.d.regs) (callee : SessKey)
    (req : Nat) (proc mt invoke : String) (disclose fwd wampURI : Bool) :
    g ∈ (syncRegister s callee req proc mt invoke disclose fwd wampURI).st.d.regs := by
  unfold syncRegister
  simp only
  split
  · exact List.mem_append_left _ hg
  · rename_i reg hf
    have hreg : reg ∈ s.d.regs := ((findProc_eq_some h.reg.regs.keys).1 hf).1
    split
    · exact hg
    · rename_i hpol
      split
      · exact hg
      · split
        · exact hg
        · show g ∈ (s.d.setReg { reg with callees := reg.callees ++ [callee] }).regs
          apply mem_setReg hg
          intro e
          exfalso
          have : reg = g := reg_eq_of_id h.reg.regs hreg hg e
          subst this
          apply hpol
          simp [hs.2]

theorem delCalleeReg_keep {d d' : Dealer} {k : SessKey} {id : Nat} {del : Bool}
    (hn : (d.regs.map (·.id)).Nodup) (hs : g.callees = [m]) (hk : k ≠ m) (hg : g ∈ d.regs)
    (h : d.delCalleeReg k id = some (d', del)) : g ∈ d'.regs ∧ (d'.regs.map (·.id)).Nodup := by
  unfold Dealer.delCalleeReg at h
  split at h
  · cases h
  · rename_i reg hf
    obtain ⟨hreg, hid⟩ := (findReg_eq_some hn).1 hf
    split at h
    · cases h
    · rename_i hc
      have hne : g.id ≠ id := by
        intro e
        have : reg = g := nodup_map_inj (f := fun x : Reg => x.id) hn hreg hg (hid.trans e.symm)
        subst this
        rw [hs] at hc
        apply hc
        have : k ≠ m := hk
        simp [this]
      simp only at h
      split at h
      · simp only [Option.some.injEq, Prod.mk.injEq] at h
        obtain ⟨rfl, _⟩ := h
        refine ⟨mem_delReg hg hne, ?_⟩
        unfold Dealer.delReg
        exact (List.filter_sublist.map _).nodup hn
      · simp only [Option.some.injEq, Prod.mk.injEq] at h
        obtain ⟨rfl, _⟩ := h
        refine ⟨mem_setReg hg (fun e => absurd (e.symm.trans hid) hne), ?_⟩
        rw [setReg_ids]; exact hn

theorem removeRegs_keep (k : SessKey) (hs : g.callees = [m]) (hk : k ≠ m) : ∀ (ids : List Nat) (d : Dealer),
    (d.regs.map (·.id)).Nodup → g ∈ d.regs → g ∈ (removeRegs d k ids).1.regs
  | [], _, _, hg => hg
  | id :: ids, d, hn, hg => by
    unfold removeRegs
    split
    · exact hg
    · rename_i d1 deleted he
      obtain ⟨h1, h2⟩ := delCalleeReg_keep hn hs hk hg he
      exact removeRegs_keep k hs hk ids d1 h2 h1

theorem keep_removeSession {env : DEnv} {s : DState} (h : DealerInv s) (hs : g.callees = [m]) (hg : g ∈ s.d.regs)
    {k : SessKey} (hk : k ≠ m) : g ∈ (syncRemoveSession env s k).st.d.regs := by
  rw [WpB.syncRemoveSession_regs]
  exact removeRegs_keep k hs hk _ _ h.reg.regs.ids hg

theorem keep_unregister {s : DState} (h : DealerInv s) (hs : g.callees = [m]) (hg : g ∈ s.d.regs)
    {callee : SessKey} (hk : callee ≠ m) (req regId : Nat) : g ∈ (syncUnregister s callee req regId).st.d.regs := by
  unfold syncUnregister
  simp only
  split
  · exact hg
  · rename_i d' del he
    exact (delCalleeReg_keep (d := { s.d with index := idxDel s.d.index callee regId }) h.reg.regs.ids hs hk hg he).1

theorem keep_of_sub {s s' : DState} (h : StateSub s s') (hg : g ∈ s.d.regs) : g ∈ s'.d.regs := by
  rw [h.regs]; exact hg

/-- a CALL changes the table of registrations at most by the round-robin cursor of the registration it routes to -/
theorem syncCall_regs {env : DEnv} {s : DState} (h : DealerInv s) (caller : SessKey) (req : Nat) (opts : Dict)
    (proc : String) (args : List WVal) (kw : Dict) (rnd : Nat) :
    (syncCall env s caller req opts proc args kw rnd).st.d.regs = s.d.regs ∨
    ∃ reg reg' callee, reg ∈ s.d.regs ∧ pickCallee reg rnd = some (callee, reg') ∧ reg'.shape = reg.shape ∧
      (syncCall env s caller req opts proc args kw rnd).st.d.regs = (s.d.setReg reg').regs := by
  refine syncCall_cases (env := env) (P := fun o => o.st.d.regs = s.d.regs ∨
    ∃ reg reg' callee, reg ∈ s.d.regs ∧ pickCallee reg rnd = some (callee, reg') ∧ reg'.shape = reg.shape ∧
      o.st.d.regs = (s.d.setReg reg').regs) h caller req opts proc args kw rnd ?_ ?_ ?_ ?_ ?_ ?_ ?_ ?_
  · intro _; exact Or.inl rfl
  · intro iid v0 _ _ hv0 _ _ _ _
    refine Or.inl (((StateSub.setInv (v' := { v0 with inProgress := opts.optFlag OptProgress }) hv0 rfl).trans
      (preCancel_sub _ _ _)).trans (armTimer_sub ?_ ..)).regs
    rw [preCancel_d]
    unfold Dealer.setInv
    simp only
    exact (mem_map_update (f := fun x : Invk => x.id) (u := fun _ => { v0 with inProgress := opts.optFlag OptProgress })).2
      (Or.inr ⟨v0, hv0, rfl, rfl⟩)
  · intro iid v0 _ _ hv0 _ _ _ _
    exact Or.inl ((StateSub.setInv (v' := { v0 with inProgress := opts.optFlag OptProgress }) hv0 rfl).trans
      (fullOut_sub _ _ _ _)).regs
  · intro _ _ _; exact Or.inl rfl
  · intro reg reg' callee e _ _ _ hmem hp hs _; exact Or.inr ⟨reg, reg', callee, hmem, hp, hs, rfl⟩
  · intro reg reg' callee _ _ _ hmem hp hs _; exact Or.inr ⟨reg, reg', callee, hmem, hp, hs, rfl⟩
  · intro reg reg' callee _ hc0 _ hmem hp hs _ _
    refine Or.inr ⟨reg, reg', callee, hmem, hp, hs, ?_⟩
    have := (armTimer_sub (env := env)
      (s := recordCall { s with d := s.d.setReg reg' } (newInvk s reg caller req callee opts) callee)
      (v := newInvk s reg caller req callee opts) ?_ caller req (routerTimeout env reg callee opts)).regs
    · exact this
    · show _ ∈ _ ++ [_]
      exact List.mem_append_right _ (List.mem_singleton.2 rfl)
  · intro reg reg' callee _ hc0 _ hmem hp hs _ _
    exact Or.inr ⟨reg, reg', callee, hmem, hp, hs, (fullOut_sub _ _ _ _).regs⟩

theorem keep_call {env : DEnv} {s : DState} (h : DealerInv s) (hs : g.callees = [m]) (hg : g ∈ s.d.regs)
    (caller : SessKey) (req : Nat) (opts : Dict) (proc : String) (args : List WVal) (kw : Dict) (rnd : Nat) :
    g ∈ (syncCall env s caller req opts proc args kw rnd).st.d.regs := by
  rcases syncCall_regs (env := env) h caller req opts proc args kw rnd with e | ⟨reg, reg', callee, hmem, hp, hsh, e⟩
  · rw [e]; exact hg
  · rw [e]
    apply mem_setReg hg
    intro hid
    have hid' : reg.id = g.id := by
      have := congrArg (fun t : Nat × String × String × String × List SessKey => t.1) hsh
      simp only [Reg.shape] at this
      exact this.symm.trans hid
    have : reg = g := reg_eq_of_id h.reg.regs hmem hg hid'
    subst this
    rw [pickCallee_single hs rnd] at hp
    simp only [Option.some.injEq, Prod.mk.injEq] at hp
    exact hp.2.symm

end dealer

/-! ### realm level: every realm function keeps such a registration of the meta session -/

section realm
variable {g : Reg}

theorem k_handleRegister {r : Realm} (hs : Solo g metaKey) (hd : DealerInv r.ds) (hg : g ∈ r.ds.d.regs) (s : Session)
    (req : Nat) (opts : Dict) (proc : String) : g ∈ (handleRegister r s req opts proc).ds.d.regs := by
  unfold handleRegister
  simp only
  split
  · rw [trySend_ds]; exact hg
  · split
    · rw [trySend_ds]; exact hg
    · split
      · rw [trySend_ds]; exact hg
      · split
        · rw [trySend_ds]; exact hg
        · rw [applyD_ds]; exact keep_register hd hs hg ..

theorem k_handleCancel {r : Realm} (hg : g ∈ r.ds.d.regs) (s : Session) (req : Nat) (opts : Dict) :
    g ∈ (handleCancel r s req opts).ds.d.regs := by
  unfold handleCancel
  extract_lets mode0 mode
  split
  · rw [applyD_ds]; exact keep_of_sub (syncCancel_sub ..) hg
  · rw [trySend_ds]; exact hg

theorem k_handleYield {r : Realm} (hg : g ∈ r.ds.d.regs) (s : Session) (req : Nat) (opts : Dict) (args : List WVal)
    (kw : Dict) : g ∈ (handleYield r s req opts args kw).ds.d.regs := by
  unfold handleYield
  extract_lets progress o r1
  have h1 : g ∈ r1.ds.d.regs := by
    show g ∈ (r.applyD o).ds.d.regs
    rw [applyD_ds]; exact keep_of_sub (syncYield_sub ..) hg
  split <;> exact h1

theorem k_dispatch {r : Realm} (hs : Solo g metaKey) (hd : DealerInv r.ds) (hg : g ∈ r.ds.d.regs) (s : Session) (m : Msg)
    (hk : s.key ≠ metaKey ∨ ∀ req reg, m ≠ .unregister req reg) : g ∈ (Realm.dispatch r s m).ds.d.regs := by
  cases m
  case publish => show g ∈ (handlePublish r s _ _ _ _ _).ds.d.regs; rw [WpB.handlePublish_ds]; exact hg
  case yield => exact k_handleYield hg ..
  case call =>
    show g ∈ (handleCall r s _ _ _ _ _).ds.d.regs
    unfold handleCall; rw [applyD_ds]; exact keep_call hd hs.1 hg ..
  case cancel => exact k_handleCancel hg ..
  case subscribe => show g ∈ (handleSubscribe r s _ _ _).ds.d.regs; rw [WpB.handleSubscribe_ds]; exact hg
  case register => exact k_handleRegister hs hd hg ..
  case unsubscribe => show g ∈ (handleUnsubscribe r s _ _).ds.d.regs; rw [WpB.handleUnsubscribe_ds]; exact hg
  case unregister req reg =>
    show g ∈ (handleUnregister r s req reg).ds.d.regs
    unfold handleUnregister; rw [applyD_ds]
    refine keep_unregister hd hs.1 hg ?_ req reg
    rcases hk with hk | hk
    · exact hk
    · exact absurd rfl (hk req reg)
  case error typ req details err args kw =>
    show g ∈ (if typ != tINVOCATION then _ else handleError r s req details err args kw).ds.d.regs
    split
    · exact hg
    · unfold handleError; rw [applyD_ds]; exact keep_of_sub (syncError_sub ..) hg
  case goodbye =>
    show g ∈ (Realm.trySend r _).ds.d.regs
    rw [trySend_ds]; exact hg
  all_goals exact hg

theorem k_handleMsg {r : Realm} (hs : Solo g metaKey) (hd : DealerInv r.ds) (hg : g ∈ r.ds.d.regs) (s : Session) (m : Msg)
    (hk : s.key ≠ metaKey ∨ ∀ req reg, m ≠ .unregister req reg) : g ∈ (handleMsg r s m).ds.d.regs := by
  rw [handleMsg_eq]
  have e := WpB.authzGate_ds r s m
  split
  · exact k_dispatch hs (by rw [e]; exact hd) (by rw [e]; exact hg) s m hk
  · rw [e]; exact hg

theorem k_recvMsg {r : Realm} (hs : Solo g metaKey) (hd : DealerInv r.ds) (hm : MetaSafe r) (hg : g ∈ r.ds.d.regs)
    (k : SessKey) (m : Msg) : g ∈ (r.recvMsg k m).ds.d.regs := by
  rw [recvMsg_eq]
  split
  · exact hg
  · rename_i s hf
    split
    · exact hg
    · split
      · split <;> exact hg
      · exact k_handleMsg hs hd hg s m (Or.inl (hm.noClient s (find?_key hf).1))

theorem k_leave {r : Realm} (hs : Solo g metaKey) (hd : DealerInv r.ds) (hm : MetaSafe r) (hg : g ∈ r.ds.d.regs)
    (k : SessKey) (mode : LeaveMode) : g ∈ (r.leave k mode).ds.d.regs := by
  cases hf : r.clients.find? (fun c => c.key == k) with
  | none => rw [leave_none mode hf]; exact hg
  | some s =>
    obtain ⟨_, env, he⟩ := leave_tables mode hf
    rw [he]
    exact keep_removeSession hd hs.1 hg (hm.client_ne ⟨s, (find?_key hf).1, (find?_key hf).2⟩)

theorem k_runTask {r : Realm} (hs : Solo g metaKey) (hd : DealerInv r.ds) (hm : MetaSafe r) (hg : g ∈ r.ds.d.regs)
    (t : Task) (ht : MTaskOk t) : g ∈ (r.runTask t).ds.d.regs := by
  cases t with
  | metaPub p =>
    rw [runTask_metaPub]; unfold metaPublish; rw [WpB.handlePublish_ds]; exact hg
  | metaInvoke req reg details args kw =>
    rw [runTask_metaInvoke]
    split
    · exact hg
    · rename_i proc _
      have e : (metaProc r proc req details args kw).2.ds = r.ds :=
        WpB.metaEffect_ds (metaProc_effect r proc req details args kw)
      rw [addTasks_ds, e]; exact hg
  | metaMsg m =>
    rw [runTask_metaMsg]
    refine k_handleMsg hs hd hg r.metaS m (Or.inr ?_)
    intro req reg e
    subst e
    cases ht
  | leave k mode =>
    rw [runTask_leave]
    split
    · exact hg
    · exact k_leave hs hd hm hg k mode
  | inMsg k m => exact k_recvMsg hs hd hm hg k m

theorem k_stepOp {r : Realm} (hs : Solo g metaKey) (hd : DealerInv r.ds) (hm : MetaSafe r) (hg : g ∈ r.ds.d.regs)
    (op : Op) : g ∈ (r.stepOp op).ds.d.regs := by
  cases op with
  | join k isLocal details roles cap => rw [stepOp_join]; split <;> exact hg
  | msg k m => exact k_recvMsg hs hd hm hg k m
  | buffer k => exact hg
  | drop k => rw [stepOp_drop]; split <;> (try split) <;> exact hg
  | stall k => exact hg
  | resume k => exact hg
  | tick ms => exact hg
  | rnd n => exact hg

theorem k_drain (hs : Solo g metaKey) : ∀ (fuel : Nat) {r : Realm}, RealmInv r → MetaSafe r → g ∈ r.ds.d.regs →
    g ∈ (drain fuel r).ds.d.regs
  | 0, r, _, _, hg => by
    rw [drain_zero]
    split
    · exact hg
    · rw [setPanic_ds]; exact hg
  | fuel + 1, r, hi, hm, hg => by
    cases ht : r.tasks with
    | nil => rw [drain_succ_nil _ _ ht]; exact hg
    | cons t ts =>
      rw [drain_succ_cons _ _ t ts ht]
      obtain ⟨hi0, hto⟩ := rinv_tail hi ht
      have hm0 : MetaSafe ({ r with tasks := ts } : Realm) :=
        ⟨hm.noClient, hm.ending, fun t' ht' => hm.tasks t' (by rw [ht]; exact List.mem_cons_of_mem _ ht'), hm.deferred,
          hm.retries, hm.mkey, hm.metaPPT⟩
      have hmt : MTaskOk t := hm.tasks t (by rw [ht]; exact List.mem_cons_self ..)
      exact k_drain hs fuel (runTask_inv hi0 t hto).1 (hm0.runTask t hmt)
        (k_runTask (r := { r with tasks := ts }) hs hi0.dinv hm0 hg t hmt)

theorem k_retryDue {r : Realm} (hg : g ∈ r.ds.d.regs) (x : Retry) : g ∈ (r.retryDue x).ds.d.regs := by
  rw [retryDue_ds]
  unfold retryOut
  exact keep_of_sub (syncYield_sub ..) hg

theorem k_timerDue {r : Realm} (hg : g ∈ r.ds.d.regs) (t : Timer) : g ∈ (r.timerDue t).ds.d.regs := by
  rw [timerDue_ds]
  exact keep_of_sub (syncCancel_sub ..) hg

theorem k_advance (hs : Solo g metaKey) : ∀ (fuel : Nat) {r : Realm} (target : Nat), RealmInv r → FuelOnly r.panic →
    MetaSafe r → g ∈ r.ds.d.regs → g ∈ (advance fuel r target).ds.d.regs
  | 0, r, target, _, _, _, hg => by
    unfold Realm.advance
    rw [setPanic_ds]; exact hg
  | fuel + 1, r, target, hi, hp, hm, hg => by
    unfold Realm.advance
    split
    · exact hg
    · rename_i d hd
      extract_lets r1 r2
      have hi1 : RealmInv r1 :=
        hi.of_parts rfl hi.binv hi.dinv hi.bmem hi.dref hi.callers hi.retr hi.tasks hi.inb rfl
      have hm1 : MetaSafe r1 := ⟨hm.noClient, hm.ending, hm.tasks, hm.deferred, hm.retries, hm.mkey, hm.metaPPT⟩
      have hg1 : g ∈ r1.ds.d.regs := hg
      have h2 : (RealmInv r2 ∧ r2.panic = r.panic) ∧ MetaSafe r2 ∧ g ∈ r2.ds.d.regs := by
        cases d with
        | timer t => exact ⟨timerDue_rinv hi1 t, hm1.timerDue t, k_timerDue hg1 t⟩
        | retry x =>
          exact ⟨retryDue_rinv hi1 x (hi.retr x (nextDue_retry hd)), hm1.retryDue (nextDue_retry hd), k_retryDue hg1 x⟩
      obtain ⟨h3, h4⟩ := drain_inv taskFuel h2.1.1 (by rw [h2.1.2]; exact hp)
      exact k_advance hs fuel target h3 h4 (MetaSafe.drain taskFuel h2.2.1) (k_drain hs taskFuel h2.1.1 h2.2.1 h2.2.2)

theorem k_step {r : Realm} (hs : Solo g metaKey) (hi : RealmInv r) (hp : FuelOnly r.panic) (hm : MetaSafe r)
    (hg : g ∈ r.ds.d.regs) (op : Op) : g ∈ (r.step op).2.ds.d.regs := by
  by_cases ht : ∃ ms, op = .tick ms
  · obtain ⟨ms, rfl⟩ := ht
    rw [step_tick, WpB.flush_ds]
    exact k_advance hs _ _ hi hp hm hg
  · rw [step_of_not_tick r op (fun ms e => ht ⟨ms, e⟩), WpB.flush_ds]
    exact k_drain hs _ (stepOp_inv hi op).1 (hm.stepOp op) (k_stepOp hs hi.dinv hm hg op)

end realm

/-! ### `metaProcs` never changes -/

theorem mp_taskAct {r r' : Realm} (h : TaskAct r r') : r'.metaProcs = r.metaProcs := by
  cases h with
  | eff h => exact h.metaProcs
  | invoke h => exact h.metaProcs
  | defer k mode hk hb => rfl
  | leave k mode s hk hf hb => exact (leave_ctl mode hf).2.1
  | none => rfl

theorem mp_setPanic (r : Realm) (p : Option String) : (r.setPanic p).metaProcs = r.metaProcs :=
  (eff_setPanic (P := fun _ => False) (Q := fun _ => False) r p).metaProcs

theorem mp_drain : ∀ (fuel : Nat) {r : Realm}, MetaSafe r → (drain fuel r).metaProcs = r.metaProcs
  | 0, r, _ => by
    rw [drain_zero]
    split
    · rfl
    · exact mp_setPanic _ _
  | fuel + 1, r, hm => by
    cases ht : r.tasks with
    | nil => rw [drain_succ_nil _ _ ht]
    | cons t ts =>
      rw [drain_succ_cons _ _ t ts ht]
      have hm0 : MetaSafe ({ r with tasks := ts } : Realm) :=
        ⟨hm.noClient, hm.ending, fun t' ht' => hm.tasks t' (by rw [ht]; exact List.mem_cons_of_mem _ ht'), hm.deferred,
          hm.retries, hm.mkey, hm.metaPPT⟩
      have hmt : MTaskOk t := hm.tasks t (by rw [ht]; exact List.mem_cons_self ..)
      have h3 : (({ r with tasks := ts } : Realm).runTask t).metaProcs = ({ r with tasks := ts } : Realm).metaProcs :=
        mp_taskAct (runTask_act hm0 t hmt)
      rw [mp_drain fuel (hm0.runTask t hmt), h3]

theorem mp_stepOp {r : Realm} (hm : MetaSafe r) (op : Op) : (r.stepOp op).metaProcs = r.metaProcs := by
  cases op with
  | join k isLocal details roles cap => rw [stepOp_join]; split <;> rfl
  | msg k m => exact mp_taskAct (runTask_act hm (.inMsg k m) trivial)
  | drop k => rw [stepOp_drop]; split <;> (try split) <;> rfl
  | _ => rfl

theorem mp_timerDue (r : Realm) (t : Timer) : (r.timerDue t).metaProcs = r.metaProcs :=
  (eff_timerDue (P := fun _ => False) (Q := fun _ => False) r t).metaProcs

theorem mp_retryDue (r : Realm) (x : Retry) : (r.retryDue x).metaProcs = r.metaProcs := by
  have he := (eff_retryApply (P := fun _ => True) (Q := fun _ => False) r x (fun _ _ => trivial)).metaProcs
  rw [retryDue_eq]
  split <;> exact he

theorem mp_advance : ∀ (fuel : Nat) {r : Realm} (target : Nat), MetaSafe r → (advance fuel r target).metaProcs = r.metaProcs
  | 0, r, target, _ => by
    unfold Realm.advance
    exact mp_setPanic _ _
  | fuel + 1, r, target, hm => by
    unfold Realm.advance
    split
    · rfl
    · rename_i d hd
      extract_lets r1 r2
      have hm1 : MetaSafe r1 := ⟨hm.noClient, hm.ending, hm.tasks, hm.deferred, hm.retries, hm.mkey, hm.metaPPT⟩
      have h2 : MetaSafe r2 ∧ r2.metaProcs = r.metaProcs := by
        cases d with
        | timer t => exact ⟨hm1.timerDue t, mp_timerDue r1 t⟩
        | retry x => exact ⟨hm1.retryDue (nextDue_retry hd), mp_retryDue r1 x⟩
      rw [mp_advance fuel target (MetaSafe.drain taskFuel h2.1), mp_drain taskFuel h2.1, h2.2]

theorem mp_step {r : Realm} (hm : MetaSafe r) (op : Op) : (r.step op).2.metaProcs = r.metaProcs := by
  have hf : ∀ q : Realm, q.flush.2.metaProcs = q.metaProcs := fun q => by unfold Realm.flush; rfl
  by_cases ht : ∃ ms, op = .tick ms
  · obtain ⟨ms, rfl⟩ := ht
    rw [step_tick, hf]
    exact mp_advance _ _ hm
  · rw [step_of_not_tick r op (fun ms e => ht ⟨ms, e⟩), hf, mp_drain _ (hm.stepOp op), mp_stepOp hm]

/-! ### the initial realm -/

/-- what `registerMeta` leaves for one name: a registration of the meta session alone -/
def MetaReg (g : Reg) (e : Nat × String) : Prop :=
  g.id = e.1 ∧ g.proc = e.2 ∧ g.«match» = "" ∧ g.disclose = true ∧ Solo g metaKey

theorem registerMeta_spec : ∀ (ps : List String) (r : Realm), DealerInv r.ds → ps.Nodup →
    (∀ p ∈ ps, ∀ x ∈ r.ds.d.regs, x.proc ≠ p) →
    (∀ x ∈ r.ds.d.regs, x ∈ (registerMeta r ps).ds.d.regs) ∧
    ∃ news, (registerMeta r ps).metaProcs = r.metaProcs ++ news ∧ news.map (·.2) = ps ∧
      ∀ e ∈ news, ∃ g ∈ (registerMeta r ps).ds.d.regs, MetaReg g e
  | [], r, _, _, _ => ⟨fun _ hx => hx, [], by simp [registerMeta], rfl, fun _ he => nomatch he⟩
  | p :: ps, r, hd, hn, hfresh => by
    unfold registerMeta
    extract_lets o id
    rw [List.nodup_cons] at hn
    have hnone : r.ds.d.findProc p (matchKind "") = none :=
      findProc_eq_none.2 (fun x hx hh => hfresh p (List.mem_cons_self ..) x hx hh.2)
    let newreg : Reg := { id := r.ds.d.nextReg + 1, proc := p, «match» := "", policy := "", disclose := true,
                          fwdTimeout := false, callees := [metaKey] }
    have hregs : o.st.d.regs = r.ds.d.regs ++ [newreg] := by
      show (syncRegister r.ds metaKey 0 p "" "" true false true).st.d.regs = _
      unfold syncRegister
      simp only [hnone]
      rfl
    have hid : id = newreg.id := by
      show (syncRegister r.ds metaKey 0 p "" "" true false true).st.d.nextReg = _
      unfold syncRegister
      simp only [hnone]
      rfl
    have hd' : DealerInv o.st := syncRegister_inv hd _ _ _ _ _ _ _ _ (by decide)
    obtain ⟨ih1, news, ih2, ih3, ih4⟩ := registerMeta_spec ps
      { r with ds := o.st, metaProcs := r.metaProcs ++ [(id, p)] } hd' hn.2 (by
        intro q hq x hx
        have hx' : x ∈ r.ds.d.regs ++ [newreg] := hregs ▸ hx
        rcases List.mem_append.mp hx' with hx' | hx'
        · exact hfresh q (List.mem_cons_of_mem _ hq) x hx'
        · rw [List.mem_singleton.mp hx']
          intro e
          exact hn.1 (show p ∈ ps from (show newreg.proc = p from rfl) ▸ e ▸ hq))
    refine ⟨fun x hx => ih1 x (by rw [hregs]; exact List.mem_append_left _ hx), (id, p) :: news, ?_, ?_, ?_⟩
    · rw [ih2]; simp
    · simp [ih3]
    · intro e he
      rcases List.mem_cons.mp he with rfl | he
      · exact ⟨newreg, ih1 newreg (by rw [hregs]; exact List.mem_append_right _ (List.mem_singleton.mpr rfl)),
          hid.symm, rfl, rfl, rfl, rfl, rfl⟩
      · exact ih4 e he

theorem metaProcNames_nodup (cfg : Config) : (metaProcNames cfg).Nodup := by
  unfold metaProcNames
  cases cfg.metaKill <;> cases cfg.metaModify <;> decide

/-- the realm `create` builds: `metaProcs` names exactly the configured meta procedures, each bound to the id
    of a registration of the meta session alone -/
theorem create_metaRegs {cfg : Config} {r : Realm} (h : Realm.create cfg = some r) :
    r.metaProcs.map (·.2) = metaProcNames cfg ∧ ∀ e ∈ r.metaProcs, ∃ g ∈ r.ds.d.regs, MetaReg g e := by
  unfold Realm.create at h
  split at h
  · cases h
  · split at h
    · cases h
    · extract_lets b d at h
      cases h
      obtain ⟨_, news, h2, h3, h4⟩ := registerMeta_spec (metaProcNames cfg) { cfg := cfg, broker := b, ds := { d := d } }
        (DealerInv.init _ _) (metaProcNames_nodup cfg) (fun _ _ x hx => nomatch hx)
      have e : (registerMeta { cfg := cfg, broker := b, ds := { d := d } } (metaProcNames cfg)).metaProcs = news := by
        rw [h2]; rfl
      rw [e]
      exact ⟨h3, h4⟩

end Nexus.L2.MetaRegs

namespace Nexus.L2.Realm
open Nexus.L2.MetaRegs Nexus.L2.WpC

/-- along every history: `metaProcs` is what `create` built, and every registration of the meta session
    alone (single policy) that `create` built is still in the table, as the same record -/
theorem Reachable.metaRegs_keep {cfg : Config} {r : Realm} (h : Reachable cfg r) :
    ∃ r0, Realm.create cfg = some r0 ∧ r.metaProcs = r0.metaProcs ∧
      ∀ g, Solo g metaKey → g ∈ r0.ds.d.regs → g ∈ r.ds.d.regs := by
  induction h with
  | @init r h => exact ⟨r, h, rfl, fun _ _ hg => hg⟩
  | @step r op hr ih =>
    obtain ⟨r0, h0, e, hk⟩ := ih
    exact ⟨r0, h0, (mp_step hr.metaSafe op).trans e,
      fun g hs hg => k_step hs hr.inv.1 hr.inv.2 hr.metaSafe (hk g hs hg) op⟩

/-- THE META REGISTRATIONS ARE INTACT.  In every reachable realm, for every configured meta procedure `p`:
    the dealer's table holds a registration `g` of `p` — exact match, caller disclosure on — whose ONLY callee
    is the meta session; it is the best match of the URI `p` (what a CALL to `p` is routed to); and
    `metaProcs` binds its id to `p` (so the invocation the meta session receives runs `metaProc … p`). -/
theorem Reachable.metaRegs {cfg : Config} {r : Realm} (h : Reachable cfg r) {p : String} (hp : p ∈ metaProcNames cfg) :
    ∃ g ∈ r.ds.d.regs, g.proc = p ∧ g.kind = .exact ∧ g.callees = [metaKey] ∧ g.disclose = true ∧
      r.ds.d.matchProcedure p = some g ∧ r.metaProcs.find? (fun e => e.1 == g.id) = some (g.id, p) := by
  obtain ⟨r0, h0, hmp, hk⟩ := h.metaRegs_keep
  obtain ⟨c1, c2⟩ := create_metaRegs h0
  have hpe : ∃ e ∈ r0.metaProcs, e.2 = p := by
    rw [← c1] at hp
    obtain ⟨e, he, rfl⟩ := List.mem_map.mp hp
    exact ⟨e, he, rfl⟩
  obtain ⟨e, he, hep⟩ := hpe
  obtain ⟨g, hg0, g1, g2, g3, g4, g5⟩ := c2 e he
  have hg : g ∈ r.ds.d.regs := hk g g5 hg0
  have hkind : g.kind = .exact := by unfold Reg.kind; rw [g3]; rfl
  have hproc : g.proc = p := g2.trans hep
  have hinv := h.inv.1.dinv
  refine ⟨g, hg, hproc, hkind, g5.1, g4, ?_, ?_⟩
  · unfold Dealer.matchProcedure
    rw [(findProc_eq_some hinv.reg.regs.keys).2 ⟨hg, hkind, hproc⟩]
  · rw [hmp]
    have hmem : (g.id, p) ∈ r0.metaProcs := by
      have : e = (g.id, p) := by rw [g1, ← hep]
      rw [← this]; exact he
    cases hf : r0.metaProcs.find? (fun e => e.1 == g.id) with
    | none =>
      have := List.find?_eq_none.mp hf (g.id, p) hmem
      simp at this
    | some e' =>
      have h1 := List.mem_of_find?_eq_some hf
      have h2 : e'.1 = g.id := by simpa using List.find?_some hf
      obtain ⟨g', hg0', g1', g2', _, _, g5'⟩ := c2 e' h1
      have hg' : g' ∈ r.ds.d.regs := hk g' g5' hg0'
      have : g' = g := reg_eq_of_id hinv.reg.regs hg' hg (g1'.trans h2)
      subst this
      have : e' = (g'.id, p) := by
        cases e' with
        | mk a b =>
          simp only at h2 g2'
          rw [h2, ← g2', hproc]
      rw [this]

end Nexus.L2.Realm
