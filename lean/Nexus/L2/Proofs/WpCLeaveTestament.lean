/-
  WP-C / C05 (3): what running the publish task of a testament does.

  `runTask (.metaPub (testamentPub t))` is `broker.publish(metaSess, PUBLISH{0, opts, topic, args, kw})`:
  * valid topic, disclose_me allowed or not requested, meta session with the publisher's payload
    passthru feature: the publication `testamentPublication r t` is handed to the broker and its
    EVENTs are delivered (`runTask_testament_ok`); the acknowledgement a testament may ask for
    (`acknowledge: true` in its publish options) goes to the meta session, which drops it;
  * invalid topic / disclose_me refused: nothing at all happens, also when an acknowledgement was
    requested (the ERROR is for the meta session, which drops it) (`runTask_testament_invalid`,
    `runTask_testament_disclose`).
  * the field `metaS` is never written (`Reachable.metaS`).
-/
import Nexus.L2.Proofs.WpCLeaveTables
import Nexus.L2.Proofs.RealmPublish
import Nexus.L2.Proofs.RealmLeave

namespace Nexus.L2
namespace WpC
open Gen.N Realm

/-- the publication the broker is handed for the testament `t` when its publish task runs in state `r`:
    published by the meta session under the next publication id, with the testament's own options
    (`exclude_me` is irrelevant for the meta session, which subscribes to nothing) -/
def testamentPublication (r : Realm) (t : Testament) : Publication :=
  { publisher := metaKey, pubDetails := r.metaS.details, topic := t.topic, pubId := pubBase + r.pubCount,
    args := t.args, kw := t.kw, opts := t.opts,
    excludePub := (match t.opts.get? OptExcludeMe with
      | some (.bool b) => b
      | _ => true),
    disclose := t.opts.optFlag OptDiscloseMe,
    baseDetails := if pptScheme t.opts != "" then pptInto t.opts [] else [] }

theorem pubOf_testament {r : Realm} (hm : r.metaS.key = metaKey) (t : Testament) :
    pubOf r r.metaS t.opts t.topic t.args t.kw = testamentPublication r t := by
  unfold pubOf testamentPublication
  rw [hm]
  rfl

/-- anything but an INVOCATION sent to the meta session is dropped -/
theorem trySend_meta_drop (r : Realm) (m : Msg) (hm : ∀ a b c d e, m ≠ .invocation a b c d e) :
    r.trySend ⟨metaKey, m⟩ = r := by
  unfold trySend
  rw [if_pos rfl]
  split
  · rename_i a b c d e he
    exact absurd he (hm a b c d e)
  · rfl

theorem deliver_ack_meta (r : Realm) (opts : Dict) (m : Msg) (hm : ∀ a b c d e, m ≠ .invocation a b c d e) :
    r.deliver (ackList opts ⟨metaKey, m⟩) = r := by
  unfold ackList
  split
  · exact trySend_meta_drop r m hm
  · rfl

theorem pptRefused_meta {r : Realm} (hf : r.metaS.hasFeature RolePublisher FeaturePayloadPassthruMode = true)
    (opts : Dict) : pptRefused r.metaS opts = false := by
  unfold pptRefused
  rw [hf]; simp

theorem runTask_testament_eq (r : Realm) (t : Testament) :
    r.runTask (.metaPub (testamentPub t)) = handlePublish r r.metaS 0 t.opts t.topic t.args t.kw := rfl

/-- a well-formed testament IS published -/
theorem runTask_testament_ok {r : Realm} (hm : r.metaS.key = metaKey) (t : Testament)
    (hv : validUri r.broker.strict "" t.topic = true)
    (hd : t.opts.optFlag OptDiscloseMe = false ∨ r.broker.allowDisclose = true)
    (hf : r.metaS.hasFeature RolePublisher FeaturePayloadPassthruMode = true) :
    r.runTask (.metaPub (testamentPub t)) =
      ({ r with pubCount := r.pubCount + 1,
                broker := (r.broker.syncPublish r.session? r.now (testamentPublication r t)).1 } : Realm).deliver
        (r.broker.syncPublish r.session? r.now (testamentPublication r t)).2 := by
  have hdr : discloseRefused r t.opts = false := by
    unfold discloseRefused
    rcases hd with h | h <;> simp [h]
  rw [runTask_testament_eq, handlePublish_ok r r.metaS 0 t.opts t.topic t.args t.kw hv (pptRefused_meta hf _) hdr,
    pubOf_testament hm, deliver_append, hm, deliver_ack_meta _ _ _ (by intro a b c d e h; cases h)]

/-- a testament whose topic is not a valid URI is dropped without any trace -/
theorem runTask_testament_invalid {r : Realm} (hm : r.metaS.key = metaKey) (t : Testament)
    (hv : validUri r.broker.strict "" t.topic = false) :
    r.runTask (.metaPub (testamentPub t)) = r := by
  rw [runTask_testament_eq, handlePublish_invalid r r.metaS 0 t.opts t.topic t.args t.kw hv, hm]
  exact deliver_ack_meta _ _ _ (by intro a b c d e h; cases h)

/-- a testament asking for `disclose_me` in a realm that disallows disclosure is dropped without any trace -/
theorem runTask_testament_disclose {r : Realm} (hm : r.metaS.key = metaKey) (t : Testament)
    (hv : validUri r.broker.strict "" t.topic = true)
    (hf : r.metaS.hasFeature RolePublisher FeaturePayloadPassthruMode = true)
    (hd : t.opts.optFlag OptDiscloseMe = true) (ha : r.broker.allowDisclose = false) :
    r.runTask (.metaPub (testamentPub t)) = r := by
  have hdr : discloseRefused r t.opts = true := by
    unfold discloseRefused; rw [hd, ha]; rfl
  rw [runTask_testament_eq,
    handlePublish_refused r r.metaS 0 t.opts t.topic t.args t.kw hv (pptRefused_meta hf _) hdr, hm]
  exact deliver_ack_meta _ _ _ (by intro a b c d e h; cases h)

/-- the EVENTs of a publication create no internal task -/
theorem publish_sends_no_task (b : Broker) (sess : SessKey → Option Session) (now : Nat) (p : Publication) :
    (b.syncPublish sess now p).2.filterMap dmetaTask = [] := by
  rw [List.filterMap_eq_nil_iff]
  intro x hx
  obtain ⟨s, k, c, _, rfl⟩ := (mem_syncPublish_sends b sess now p x).mp hx
  unfold dmetaTask expectedEvent
  split <;> rfl

/-! ### `metaS` is never written -/

theorem applyD_metaS (r : Realm) (o : DOut) : (r.applyD o).metaS = r.metaS := by
  rw [applyD_eq]
  refine (setPanic_frame _ _).metaS.trans ?_
  exact (deliver_frame o.sends ({ r with ds := o.st } : Realm)).metaS

macro "ms_tac" : tactic => `(tactic| (
  try dsimp only
  repeat' split
  all_goals (try simp only [(trySend_frame _ _).metaS, (deliver_frame _ _).metaS, applyD_metaS,
    (setPanic_frame _ _).metaS])))

theorem handlePublish_metaS (r : Realm) (s : Session) (req : Nat) (opts : Dict) (topic : String)
    (args : List WVal) (kw : Dict) : (handlePublish r s req opts topic args kw).metaS = r.metaS := by
  unfold handlePublish
  simp only [freshPub]
  ms_tac

theorem handleSubscribe_metaS (r : Realm) (s : Session) (req : Nat) (opts : Dict) (topic : String) :
    (handleSubscribe r s req opts topic).metaS = r.metaS := by
  unfold handleSubscribe
  ms_tac

theorem handleUnsubscribe_metaS (r : Realm) (s : Session) (req sub : Nat) :
    (handleUnsubscribe r s req sub).metaS = r.metaS := by
  unfold handleUnsubscribe
  ms_tac

theorem handleRegister_metaS (r : Realm) (s : Session) (req : Nat) (opts : Dict) (proc : String) :
    (handleRegister r s req opts proc).metaS = r.metaS := by
  unfold handleRegister
  ms_tac

theorem handleCancel_metaS (r : Realm) (s : Session) (req : Nat) (opts : Dict) :
    (handleCancel r s req opts).metaS = r.metaS := by
  unfold handleCancel
  ms_tac

theorem handleYield_metaS (r : Realm) (s : Session) (req : Nat) (opts : Dict) (args : List WVal) (kw : Dict) :
    (handleYield r s req opts args kw).metaS = r.metaS := by
  unfold handleYield
  ms_tac

theorem authzGate_metaS (r : Realm) (s : Session) (m : Msg) : (authzGate r s m).2.metaS = r.metaS := by
  unfold authzGate
  ms_tac

theorem dispatch_metaS (r : Realm) (s : Session) (m : Msg) : (Realm.dispatch r s m).metaS = r.metaS := by
  cases m
  case publish => exact handlePublish_metaS ..
  case yield => exact handleYield_metaS ..
  case call => exact applyD_metaS ..
  case cancel => exact handleCancel_metaS ..
  case subscribe => exact handleSubscribe_metaS ..
  case register => exact handleRegister_metaS ..
  case unsubscribe => exact handleUnsubscribe_metaS ..
  case unregister => exact applyD_metaS ..
  case error typ req details err args kw =>
    show (if typ != tINVOCATION then _ else handleError r s req details err args kw).metaS = _
    split
    · rfl
    · exact applyD_metaS ..
  case goodbye => exact (trySend_frame _ _).metaS
  all_goals rfl

theorem handleMsg_metaS (r : Realm) (s : Session) (m : Msg) : (handleMsg r s m).metaS = r.metaS := by
  rw [handleMsg_eq]
  split
  · rw [dispatch_metaS, authzGate_metaS]
  · exact authzGate_metaS r s m

theorem recvMsg_metaS (r : Realm) (k : SessKey) (m : Msg) : (r.recvMsg k m).metaS = r.metaS := by
  rw [recvMsg_eq]
  split
  · rfl
  · split
    · rfl
    · split
      · split <;> rfl
      · exact handleMsg_metaS ..

theorem metaEffect_metaS {r r' : Realm} (e : MetaEffect r r') : r'.metaS = r.metaS := by
  cases e <;> rfl

theorem leaveRemove_metaS (r : Realm) (k : SessKey) (quiet : Bool) : (leaveRemove r k quiet).metaS = r.metaS := by
  unfold leaveRemove
  split
  · extract_lets o
    split
    exact (setPanic_frame _ _).metaS
  · extract_lets o ra
    split
    rw [(deliver_frame _ _).metaS]
    exact applyD_metaS r o

theorem leave_metaS (r : Realm) (k : SessKey) (mode : LeaveMode) : (r.leave k mode).metaS = r.metaS := by
  cases hf : r.clients.find? (fun c => c.key == k) with
  | none => rw [leave_none mode hf]
  | some s =>
    rw [leave_some mode hf]
    have h1 : (leaveSend r k mode).metaS = r.metaS := by
      cases mode <;> first | exact (trySend_frame _ _).metaS | rfl
    have h2 : ((leaveSend r k mode).takeTestaments k).2.metaS = r.metaS := by
      unfold takeTestaments; split <;> exact h1
    have h4 : ∀ (x : Realm) (t : Option TBucket) (b : Bool), (leaveAnnounce x s t b).metaS = x.metaS := by
      intro x t b; unfold leaveAnnounce; split <;> rfl
    show (leaveAnnounce _ _ _ _).metaS = _
    rw [h4, leaveRemove_metaS, h2]

theorem runTask_metaS (r : Realm) (t : Task) : (r.runTask t).metaS = r.metaS := by
  cases t with
  | metaPub p => exact handlePublish_metaS ..
  | metaInvoke req reg details args kw =>
    rw [runTask_metaInvoke]
    split
    · rfl
    · rename_i proc _
      show (metaProc r proc req details args kw).2.metaS = _
      exact metaEffect_metaS (metaProc_effect r proc req details args kw)
  | metaMsg m => exact handleMsg_metaS ..
  | leave k mode =>
    rw [runTask_leave]
    split
    · rfl
    · exact leave_metaS r k mode
  | inMsg k m => exact recvMsg_metaS ..

theorem drain_metaS : ∀ (fuel : Nat) (r : Realm), (drain fuel r).metaS = r.metaS
  | 0, r => by
    rw [drain_zero]
    split
    · rfl
    · exact (setPanic_frame _ _).metaS
  | fuel + 1, r => by
    cases ht : r.tasks with
    | nil => rw [drain_succ_nil _ _ ht]
    | cons t ts =>
      rw [drain_succ_cons _ _ t ts ht, drain_metaS fuel, runTask_metaS]

theorem stepOp_metaS (r : Realm) (op : Op) : (r.stepOp op).metaS = r.metaS := by
  cases op with
  | msg k m => exact recvMsg_metaS r k m
  | drop k => rw [stepOp_drop]; split <;> (try split) <;> rfl
  | join k isLocal details roles cap => rw [stepOp_join]; split <;> rfl
  | _ => rfl

theorem retryDue_metaS (r : Realm) (x : Retry) : (r.retryDue x).metaS = r.metaS := by
  unfold retryDue
  extract_lets r1 canRetry o r2
  have h2 : r2.metaS = r.metaS := applyD_metaS r1 o
  split <;> exact h2

theorem timerDue_metaS (r : Realm) (t : Timer) : (r.timerDue t).metaS = r.metaS := by
  unfold timerDue
  extract_lets ds1 r1
  exact applyD_metaS r1 _

theorem advance_metaS : ∀ (fuel : Nat) (r : Realm) (target : Nat), (advance fuel r target).metaS = r.metaS
  | 0, r, target => by
    unfold advance
    exact (setPanic_frame _ _).metaS
  | fuel + 1, r, target => by
    unfold advance
    split
    · rfl
    · rename_i d _
      extract_lets r1 r2
      rw [advance_metaS fuel, drain_metaS]
      cases d with
      | timer t => exact timerDue_metaS r1 t
      | retry x => exact retryDue_metaS r1 x

theorem flush_metaS (r : Realm) : r.flush.2.metaS = r.metaS := by
  unfold flush
  extract_lets reading out seenClosed keep keepEmpty
  rfl

theorem step_metaS (r : Realm) (op : Op) : (r.step op).2.metaS = r.metaS := by
  by_cases ht : ∃ ms, op = .tick ms
  · obtain ⟨ms, rfl⟩ := ht
    rw [step_tick, flush_metaS, advance_metaS]
  · rw [step_of_not_tick r op (fun ms e => ht ⟨ms, e⟩), flush_metaS, drain_metaS, stepOp_metaS]

theorem registerMeta_metaS : ∀ (ps : List String) (r : Realm), (registerMeta r ps).metaS = r.metaS
  | [], _ => rfl
  | p :: ps, r => by
    unfold registerMeta
    extract_lets o id
    exact registerMeta_metaS ps _

theorem create_metaS {cfg : Config} {r : Realm} (h : Realm.create cfg = some r) : r.metaS = ({} : Realm).metaS := by
  unfold Realm.create at h
  split at h
  · cases h
  · split at h
    · cases h
    · extract_lets b d at h
      cases h
      exact registerMeta_metaS _ _

/-- in every reachable state the meta session is the one the realm was created with: key 0, role
    publisher with the payload passthru feature -/
theorem Reachable.metaS {cfg : Config} {r : Realm} (h : Realm.Reachable cfg r) : r.metaS = ({} : Realm).metaS := by
  induction h with
  | init h => exact create_metaS h
  | step op _ ih => rw [step_metaS, ih]

end WpC
end Nexus.L2
