/-
  publishfilter.go: the filter built by `mkFilter` (model of `NewSimplePublishFilter`) from ANY
  options dict allows exactly the sessions that are not `ruledOut` (declarative, BrokerSpec).
-/
import Nexus.L2.Proofs.BrokerSpec

namespace Nexus.L2
open Gen.N

theorem mem_idList (opts : Dict) (key : String) (n : Nat) :
    n ∈ idList (opts.get? key) ↔ IsIdOf opts key n := by
  unfold idList IsIdOf
  cases h : opts.get? key with
  | none => simp
  | some v =>
    cases h2 : v.asList with
    | none => simp [h2]
    | some l => simp [h2, List.mem_filterMap]

theorem startsWith_iff_append (pfx k : String) :
    k.startsWith pfx = true ↔ ∃ attr, k = pfx ++ attr := by
  rw [String.startsWith_string_iff]
  constructor
  · rintro ⟨t, ht⟩
    refine ⟨String.ofList t, ?_⟩
    apply String.toList_inj.mp
    simp [String.toList_append, ht]
  · rintro ⟨attr, rfl⟩
    simp [String.toList_append]

theorem drop_prefix (pfx attr : String) : ((pfx ++ attr).drop pfx.length).toString = attr := by
  apply String.toList_inj.mp
  simp [String.toList_append, String.Slice.toString, String.toList_copy_drop, ← String.length_toList]

/-- the non-empty strings of a list value -/
def strsOf (l : List WVal) : List String :=
  l.filterMap fun x => match x.asString with
    | some s => if s != "" then some s else none
    | none => none

theorem mem_strsOf (l : List WVal) (a : String) : a ∈ strsOf l ↔ a ≠ "" ∧ WVal.str a ∈ l := by
  unfold strsOf
  simp only [List.mem_filterMap]
  constructor
  · rintro ⟨x, hx, h⟩
    cases x <;> simp [WVal.asString] at h
    rename_i s
    obtain ⟨h1, rfl⟩ := h
    exact ⟨h1, hx⟩
  · rintro ⟨h1, h2⟩
    exact ⟨_, h2, by simp [WVal.asString, h1]⟩

theorem attrMap_eq (pfx : String) (opts : Dict) :
    attrMap pfx opts = opts.filterMap fun kv =>
      if kv.1.startsWith pfx then
        match kv.2.asList with
        | some vals => if (strsOf vals).isEmpty then none else some ((kv.1.drop pfx.length).toString, strsOf vals)
        | none => none
      else none := rfl

theorem mem_attrMap (pfx : String) (opts : Dict) (attr : String) (strs : List String) :
    (attr, strs) ∈ attrMap pfx opts ↔
      ∃ v l, (pfx ++ attr, v) ∈ opts ∧ v.asList = some l ∧ strs = strsOf l ∧ strs ≠ [] := by
  rw [attrMap_eq]
  simp only [List.mem_filterMap]
  constructor
  · rintro ⟨⟨k, v⟩, hm, h⟩
    simp only at h
    by_cases hp : k.startsWith pfx = true
    · rw [if_pos hp] at h
      obtain ⟨a, rfl⟩ := (startsWith_iff_append pfx k).mp hp
      cases hl : v.asList with
      | none => simp [hl] at h
      | some l =>
        simp only [hl] at h
        generalize hS : strsOf l = S at h
        cases S with
        | nil => simp at h
        | cons x xs =>
          simp only [List.isEmpty_cons, Bool.false_eq_true, if_false, Option.some.injEq, Prod.mk.injEq] at h
          obtain ⟨h1, h2⟩ := h
          rw [drop_prefix] at h1
          subst h1 h2
          exact ⟨v, l, hm, hl, hS.symm, by simp⟩
    · rw [if_neg hp] at h; simp at h
  · rintro ⟨v, l, hm, hl, rfl, hne⟩
    refine ⟨(pfx ++ attr, v), hm, ?_⟩
    simp only
    rw [if_pos ((startsWith_iff_append pfx _).mpr ⟨attr, rfl⟩), hl]
    simp only
    generalize strsOf l = S at hne
    cases S with
    | nil => exact absurd rfl hne
    | cons x xs =>
      simp only [List.isEmpty_cons, Bool.false_eq_true, if_false]
      rw [drop_prefix]

theorem sessAttr_spec (details : Dict) (attr a : String) :
    (sessAttr details attr = a ∧ a ≠ "") ↔ HasAttr details attr a := by
  unfold sessAttr HasAttr
  cases h : details.get? attr with
  | none =>
    simp only
    constructor
    · rintro ⟨h1, h2⟩; exact absurd h1.symm h2
    · rintro ⟨_, h2⟩; simp at h2
  | some v =>
    cases v with
    | str s =>
      simp only [WVal.asString, Option.getD_some, Option.some.injEq, WVal.str.injEq]
      constructor
      · rintro ⟨rfl, h⟩; exact ⟨h, rfl⟩
      · rintro ⟨h, rfl⟩; exact ⟨rfl, h⟩
    | _ =>
      simp only [WVal.asString]
      constructor
      · rintro ⟨h1, h2⟩; exact absurd h1.symm h2
      · rintro ⟨_, h2⟩; simp at h2

theorem allowed_eq (f : Filter) (sid : Nat) (details : Dict) :
    (f.allowed sid details = true) ↔
      (sid ∉ f.blIDs) ∧ (f.wlIDs = [] ∨ sid ∈ f.wlIDs) ∧
      (∀ e ∈ f.blMap, sessAttr details e.1 = "" ∨ sessAttr details e.1 ∉ e.2) ∧
      (∀ e ∈ f.wlMap, sessAttr details e.1 ≠ "" ∧ sessAttr details e.1 ∈ e.2) := by
  unfold Filter.allowed
  simp only [Bool.and_eq_true, Bool.not_eq_true', Bool.or_eq_true, List.all_eq_true, List.isEmpty_iff,
    List.contains_iff_mem, beq_iff_eq, bne_iff_ne, ne_eq, and_assoc]
  constructor
  · rintro ⟨h1, h2, h3, h4⟩
    refine ⟨by simpa using h1, h2, ?_, ?_⟩
    · intro e he; have := h3 e he; simpa using this
    · intro e he; have := h4 e he; simpa using this
  · rintro ⟨h1, h2, h3, h4⟩
    refine ⟨by simpa using h1, h2, ?_, ?_⟩
    · intro e he; have := h3 e he; simpa using this
    · intro e he; have := h4 e he; simpa using this

theorem blMap_iff (opts : Dict) (details : Dict) :
    (∀ e ∈ attrMap "exclude_" opts, sessAttr details e.1 = "" ∨ sessAttr details e.1 ∉ e.2) ↔
    ¬ ∃ attr v l a, ("exclude_" ++ attr, v) ∈ opts ∧ v.asList = some l ∧
        HasAttr details attr a ∧ WVal.str a ∈ l := by
  constructor
  · rintro h ⟨attr, v, l, a, hm, hl, ha, hin⟩
    obtain ⟨hs, hne⟩ := (sessAttr_spec details attr a).mpr ha
    have hmem : a ∈ strsOf l := (mem_strsOf l a).mpr ⟨hne, hin⟩
    have := h (attr, strsOf l) ((mem_attrMap _ _ _ _).mpr ⟨v, l, hm, hl, rfl, List.ne_nil_of_mem hmem⟩)
    simp only [hs] at this
    rcases this with h1 | h1
    · exact hne h1
    · exact h1 hmem
  · rintro h ⟨attr, strs⟩ he
    obtain ⟨v, l, hm, hl, rfl, _⟩ := (mem_attrMap _ _ _ _).mp he
    simp only
    by_cases h0 : sessAttr details attr = ""
    · exact Or.inl h0
    · right
      intro hin
      apply h
      exact ⟨attr, v, l, sessAttr details attr, hm, hl, (sessAttr_spec _ _ _).mp ⟨rfl, h0⟩,
        ((mem_strsOf l _).mp hin).2⟩

theorem wlMap_iff (opts : Dict) (details : Dict) :
    (∀ e ∈ attrMap "eligible_" opts, sessAttr details e.1 ≠ "" ∧ sessAttr details e.1 ∈ e.2) ↔
    ¬ ∃ attr v l, ("eligible_" ++ attr, v) ∈ opts ∧ v.asList = some l ∧
        (∃ s, s ≠ "" ∧ WVal.str s ∈ l) ∧ ¬ ∃ a, HasAttr details attr a ∧ WVal.str a ∈ l := by
  constructor
  · rintro h ⟨attr, v, l, hm, hl, ⟨s, hs1, hs2⟩, hno⟩
    have hmem : s ∈ strsOf l := (mem_strsOf l s).mpr ⟨hs1, hs2⟩
    obtain ⟨h1, h2⟩ := h (attr, strsOf l) ((mem_attrMap _ _ _ _).mpr ⟨v, l, hm, hl, rfl, List.ne_nil_of_mem hmem⟩)
    simp only at h1 h2
    exact hno ⟨sessAttr details attr, (sessAttr_spec _ _ _).mp ⟨rfl, h1⟩, ((mem_strsOf l _).mp h2).2⟩
  · rintro h ⟨attr, strs⟩ he
    obtain ⟨v, l, hm, hl, rfl, hne⟩ := (mem_attrMap _ _ _ _).mp he
    simp only
    obtain ⟨s, hs⟩ := List.exists_mem_of_ne_nil _ hne
    have hs' := (mem_strsOf l s).mp hs
    apply Classical.byContradiction
    intro hc
    apply h
    refine ⟨attr, v, l, hm, hl, ⟨s, hs'.1, hs'.2⟩, ?_⟩
    rintro ⟨a, ha, hin⟩
    obtain ⟨e1, e2⟩ := (sessAttr_spec details attr a).mpr ha
    apply hc
    rw [e1]
    exact ⟨e2, (mem_strsOf l a).mpr ⟨e2, hin⟩⟩

/-- The filter built from any options dict allows exactly the sessions not ruled out. -/
theorem mkFilter_allowed_iff (opts : Dict) (sid : Nat) (details : Dict) :
    (mkFilter opts).allowed sid details = true ↔ ¬ ruledOut opts sid details := by
  rw [allowed_eq]
  unfold ruledOut
  simp only [not_or]
  have hbl : (mkFilter opts).blIDs = idList (opts.get? "exclude") := rfl
  have hwl : (mkFilter opts).wlIDs = idList (opts.get? "eligible") := rfl
  have hbm : (mkFilter opts).blMap = attrMap "exclude_" opts := rfl
  have hwm : (mkFilter opts).wlMap = attrMap "eligible_" opts := rfl
  rw [hbl, hwl, hbm, hwm, blMap_iff, wlMap_iff, mem_idList, mem_idList]
  refine and_congr Iff.rfl (and_congr ?_ Iff.rfl)
  constructor
  · rintro (h | h) ⟨⟨n, hn⟩, hs⟩
    · have := (mem_idList opts "eligible" n).mpr hn
      rw [h] at this; simp at this
    · exact hs h
  · intro h
    by_cases he : idList (opts.get? "eligible") = []
    · exact Or.inl he
    · right
      obtain ⟨n, hn⟩ := List.exists_mem_of_ne_nil _ he
      apply Classical.byContradiction
      intro hs
      exact h ⟨⟨n, (mem_idList _ _ _).mp hn⟩, hs⟩

end Nexus.L2
