/-
  Lemmas about the broker model (Nexus.L2.Broker) used by the property theorems
  C01, C05, C08, C12, C20.
-/
import Nexus.L2.Broker

namespace Nexus.L2
open Gen.N

/-- Does subscription `sub` match a published topic under its own policy? -/
def Sub.matchesTopic (sub : Sub) (topic : String) : Bool :=
  match sub.kind with
  | .exact => sub.topic == topic
  | .pfx => prefixMatch topic sub.topic
  | .wild => wildcardMatch topic sub.topic

/-- `sendTopic`: pattern-based subscriptions get the publication's topic in the details. -/
def Sub.isPattern (sub : Sub) : Bool := sub.kind != .exact

theorem mem_matching (b : Broker) (topic : String) (sub : Sub) (st : Bool) :
    (sub, st) ∈ b.matching topic ↔ sub ∈ b.subs ∧ sub.matchesTopic topic = true ∧ st = sub.isPattern := by
  unfold Broker.matching Sub.matchesTopic Sub.isPattern
  simp only [List.mem_append, List.mem_map, List.mem_filter, Prod.mk.injEq]
  constructor
  · rintro ((⟨a, ⟨ha, hk⟩, rfl, rfl⟩ | ⟨a, ⟨ha, hk⟩, rfl, rfl⟩) | ⟨a, ⟨ha, hk⟩, rfl, rfl⟩)
    · simp only [Bool.and_eq_true, beq_iff_eq] at hk
      refine ⟨ha, ?_, ?_⟩ <;> simp [hk.1, hk.2]
    · simp only [Bool.and_eq_true, beq_iff_eq] at hk
      refine ⟨ha, ?_, ?_⟩ <;> simp [hk.1, hk.2]
    · simp only [Bool.and_eq_true, beq_iff_eq] at hk
      refine ⟨ha, ?_, ?_⟩ <;> simp [hk.1, hk.2]
  · rintro ⟨ha, hm, rfl⟩
    cases hk : sub.kind <;> simp only [hk] at hm ⊢
    · left; left; exact ⟨sub, ⟨ha, by simp [hk, hm]⟩, rfl, by simp⟩
    · left; right; exact ⟨sub, ⟨ha, by simp [hk, hm]⟩, rfl, by simp⟩
    · right; exact ⟨sub, ⟨ha, by simp [hk, hm]⟩, rfl, by simp⟩

/-- The events one subscription contributes: one per member that is attached and not ruled out. -/
def eventsFor (sess : SessKey → Option Session) (p : Publication) (f : Filter) (sub : Sub) (st : Bool) : List Send :=
  sub.members.filterMap fun k =>
    match sess k with
    | some s => if receives p f s then some ⟨k, mkEvent p sub st (some s)⟩ else none
    | none => none

theorem pubEvent_sends (b : Broker) (sess : SessKey → Option Session) (now : Nat) (p : Publication)
    (f : Filter) (sub : Sub) (st : Bool) :
    (b.pubEvent sess now p f sub st).2 = eventsFor sess p f sub st := by
  unfold Broker.pubEvent eventsFor
  rfl

theorem pubEvents_sends (sess : SessKey → Option Session) (now : Nat) (p : Publication) (f : Filter) :
    ∀ (l : List (Sub × Bool)) (b : Broker),
      (b.pubEvents sess now p f l).2 = l.flatMap (fun x => eventsFor sess p f x.1 x.2)
  | [], b => by simp [Broker.pubEvents]
  | (sub, st) :: rest, b => by
    simp only [Broker.pubEvents, List.flatMap_cons]
    rw [pubEvents_sends sess now p f rest, pubEvent_sends]

/-- The exact list of EVENTs a publication produces. -/
theorem syncPublish_sends (b : Broker) (sess : SessKey → Option Session) (now : Nat) (p : Publication) :
    (b.syncPublish sess now p).2 =
      (b.matching p.topic).flatMap (fun x => eventsFor sess p (mkFilter p.opts) x.1 x.2) := by
  unfold Broker.syncPublish
  exact pubEvents_sends sess now p _ _ b

/-! ### what publishing does to the broker state: only history stores change -/

theorem pubEvent_subs (b : Broker) sess now p f sub st :
    (b.pubEvent sess now p f sub st).1.subs = b.subs ∧
    (b.pubEvent sess now p f sub st).1.index = b.index ∧
    (b.pubEvent sess now p f sub st).1.nextSub = b.nextSub := by
  unfold Broker.pubEvent
  simp only
  split <;> simp

theorem pubEvents_subs (sess : SessKey → Option Session) (now : Nat) (p : Publication) (f : Filter) :
    ∀ (l : List (Sub × Bool)) (b : Broker),
      (b.pubEvents sess now p f l).1.subs = b.subs ∧
      (b.pubEvents sess now p f l).1.index = b.index ∧
      (b.pubEvents sess now p f l).1.nextSub = b.nextSub
  | [], b => by simp [Broker.pubEvents]
  | (sub, st) :: rest, b => by
    simp only [Broker.pubEvents]
    have h1 := pubEvent_subs b sess now p f sub st
    have h2 := pubEvents_subs sess now p f rest (b.pubEvent sess now p f sub st).1
    exact ⟨h2.1.trans h1.1, h2.2.1.trans h1.2.1, h2.2.2.trans h1.2.2⟩

theorem syncPublish_subs (b : Broker) (sess : SessKey → Option Session) (now : Nat) (p : Publication) :
    (b.syncPublish sess now p).1.subs = b.subs ∧
    (b.syncPublish sess now p).1.index = b.index ∧
    (b.syncPublish sess now p).1.nextSub = b.nextSub := by
  unfold Broker.syncPublish
  exact pubEvents_subs sess now p _ _ b

end Nexus.L2
