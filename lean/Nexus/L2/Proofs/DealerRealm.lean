/-
  The dealer as driven by the realm (Nexus.L2.Realm): the handler-goroutine halves of
  `dealer.register/unregister/call/cancel/yield/error`, the call-timeout and yield-retry
  events of `Realm.advance`.  DealerInv is preserved by all of them; `nextDue` picks the
  earliest due event; `Adv` is the relational form of `Realm.advance`.
-/
import Nexus.L2.Proofs.DealerReply

namespace Nexus.L2
open Gen.N

namespace Realm

@[simp] theorem setPanic_ds (r : Realm) (p : Option String) : (r.setPanic p).ds = r.ds := by
  unfold setPanic; split <;> rfl

@[simp] theorem trySend_ds (r : Realm) (x : Send) : (r.trySend x).ds = r.ds := by
  unfold trySend
  split
  · split <;> rfl
  · split
    · simp
    · split
      · rfl
      · split <;> rfl

@[simp] theorem deliver_ds : ∀ (l : List Send) (r : Realm), (r.deliver l).ds = r.ds
  | [], _ => rfl
  | x :: xs, r => by rw [deliver, deliver_ds xs, trySend_ds]

@[simp] theorem addTasks_ds (r : Realm) (ts : List Task) : (r.addTasks ts).ds = r.ds := rfl

/-- applying the result of a dealer action installs its state -/
@[simp] theorem applyD_ds (r : Realm) (o : DOut) : (r.applyD o).ds = o.st := by
  unfold applyD
  simp

theorem knownPolicies_contains {invoke : String} (h : ¬ (!knownPolicies.contains invoke) = true) :
    invoke ∈ knownPolicies := by
  simpa using h

/-- `dealer.register` lets only the six known invocation policies through to `syncRegister`, so the
    precondition of `syncRegister_inv` is always met: REGISTER preserves the invariant -/
theorem handleRegister_inv {r : Realm} (h : DealerInv r.ds) (s : Session) (req : Nat) (opts : Dict) (proc : String) :
    DealerInv (r.handleRegister s req opts proc).ds := by
  unfold handleRegister
  simp only
  split
  · simpa using h
  · split
    · simpa using h
    · split
      · simpa using h
      · split
        · simpa using h
        · rename_i hk
          rw [applyD_ds]
          exact syncRegister_inv h _ _ _ _ _ _ _ _ (knownPolicies_contains hk)

theorem handleUnregister_inv {r : Realm} (h : DealerInv r.ds) (s : Session) (req reg : Nat) :
    DealerInv (r.handleUnregister s req reg).ds := by
  unfold handleUnregister; rw [applyD_ds]; exact syncUnregister_inv h _ _ _

theorem handleCall_inv {r : Realm} (h : DealerInv r.ds) (s : Session) (req : Nat) (opts : Dict) (proc : String)
    (args : List WVal) (kw : Dict) : DealerInv (r.handleCall s req opts proc args kw).ds := by
  unfold handleCall; rw [applyD_ds]; exact syncCall_inv h _ _ _ _ _ _ _

theorem handleCancel_inv {r : Realm} (h : DealerInv r.ds) (s : Session) (req : Nat) (opts : Dict) :
    DealerInv (r.handleCancel s req opts).ds := by
  unfold handleCancel
  simp only
  generalize (if (opts.optString OptMode == "") = true then CancelModeKillNoWait else opts.optString OptMode) = mode
  split
  · rw [applyD_ds]; exact syncCancel_inv h _ _ _ _ _
  · simpa using h

theorem handleYield_inv {r : Realm} (h : DealerInv r.ds) (s : Session) (req : Nat) (opts : Dict) (args : List WVal)
    (kw : Dict) : DealerInv (r.handleYield s req opts args kw).ds := by
  unfold handleYield
  simp only
  split <;> (simp only [applyD_ds]; exact syncYield_inv h _ _ _ _ _ _ _)

theorem handleError_inv {r : Realm} (h : DealerInv r.ds) (s : Session) (req : Nat) (details : Dict) (err : String)
    (args : List WVal) (kw : Dict) : DealerInv (r.handleError s req details err args kw).ds := by
  unfold handleError; rw [applyD_ds]; exact syncError_inv h _ _ _ _ _ _

theorem timerDue_inv {r : Realm} (h : DealerInv r.ds) (t : Timer) : DealerInv (r.timerDue t).ds := by
  unfold timerDue
  simp only [applyD_ds]
  exact syncCancel_inv (h.filterTimers _) _ _ _ _ _

theorem retryDue_inv {r : Realm} (h : DealerInv r.ds) (x : Retry) : DealerInv (r.retryDue x).ds := by
  unfold retryDue
  simp only
  split <;> (simp only [applyD_ds]; exact syncYield_inv h _ _ _ _ _ _ _)

theorem registerMeta_inv : ∀ (l : List String) (r : Realm), DealerInv r.ds → DealerInv (registerMeta r l).ds
  | [], _, h => h
  | p :: ps, r, h => by
    unfold registerMeta
    exact registerMeta_inv ps _ (syncRegister_inv h _ _ _ _ _ _ _ _ (by decide))

/-- a freshly created realm (with its meta procedures registered) satisfies the invariant -/
theorem create_inv {cfg : Config} {r : Realm} (h : create cfg = some r) : DealerInv r.ds := by
  unfold create at h
  split at h
  · cases h
  · split at h
    · cases h
    · simp only [Option.some.injEq] at h
      subst h
      exact registerMeta_inv _ _ (DealerInv.init _ _)

/-! ### CANCEL at the handler -/

/-- the mode a CANCEL asks for: an absent / empty / non-string `mode` option means killnowait -/
def cancelMode (opts : Dict) : String :=
  if opts.optString OptMode == "" then CancelModeKillNoWait else opts.optString OptMode

theorem handleCancel_known {r : Realm} (s : Session) (req : Nat) (opts : Dict)
    (hm : cancelMode opts = CancelModeKillNoWait ∨ cancelMode opts = CancelModeKill ∨ cancelMode opts = CancelModeSkip) :
    r.handleCancel s req opts = r.applyD (syncCancel r.denv r.ds s.key req (cancelMode opts) ErrCanceled []) := by
  unfold handleCancel
  simp only
  rw [if_pos]
  · rfl
  · show (cancelMode opts == CancelModeKillNoWait || cancelMode opts == CancelModeKill ||
      cancelMode opts == CancelModeSkip) = true
    rcases hm with h | h | h <;> simp [h]

theorem handleCancel_unknown {r : Realm} (s : Session) (req : Nat) (opts : Dict)
    (h1 : cancelMode opts ≠ CancelModeKillNoWait) (h2 : cancelMode opts ≠ CancelModeKill)
    (h3 : cancelMode opts ≠ CancelModeSkip) :
    r.handleCancel s req opts = r.trySend ⟨s.key, .error tCANCEL req [] ErrInvalidArgument [.str "<text>"] []⟩ := by
  unfold handleCancel
  simp only
  rw [if_neg]
  show ¬ (cancelMode opts == CancelModeKillNoWait || cancelMode opts == CancelModeKill ||
      cancelMode opts == CancelModeSkip) = true
  simp [h1, h2, h3]

/-! ### timed events -/

theorem foldl_min_spec (l : List Due) : ∀ (acc : Option Due),
    let res := l.foldl (fun best d => match best with
      | none => some d
      | some b => if d.time < b.time then some d else some b) acc
    (res = none ↔ acc = none ∧ l = []) ∧
    (∀ d, res = some d → (acc = some d ∨ d ∈ l) ∧ (∀ b, acc = some b → d.time ≤ b.time) ∧ ∀ d' ∈ l, d.time ≤ d'.time) := by
  induction l with
  | nil =>
    intro acc
    simp only [List.foldl]
    refine ⟨by simp, fun d hd => ⟨Or.inl hd, fun b hb => ?_, by simp⟩⟩
    rw [hd] at hb; cases hb; exact Nat.le_refl _
  | cons x xs ih =>
    intro acc
    simp only [List.foldl]
    cases acc with
    | none =>
      obtain ⟨h1, h2⟩ := ih (some x)
      refine ⟨by simpa using h1, fun d hd => ?_⟩
      obtain ⟨g1, g2, g3⟩ := h2 d hd
      refine ⟨Or.inr ?_, by simp, ?_⟩
      · rcases g1 with g1 | g1
        · cases g1; exact List.mem_cons_self ..
        · exact List.mem_cons_of_mem _ g1
      · intro d' hd'
        rcases List.mem_cons.1 hd' with rfl | hd'
        · exact g2 _ rfl
        · exact g3 d' hd'
    | some b =>
      by_cases hlt : x.time < b.time
      · simp only [hlt, if_true]
        obtain ⟨h1, h2⟩ := ih (some x)
        refine ⟨by simpa using h1, fun d hd => ?_⟩
        obtain ⟨g1, g2, g3⟩ := h2 d hd
        have := g2 x rfl
        refine ⟨Or.inr ?_, ?_, ?_⟩
        · rcases g1 with g1 | g1
          · cases g1; exact List.mem_cons_self ..
          · exact List.mem_cons_of_mem _ g1
        · intro b' hb'; cases hb'; omega
        · intro d' hd'
          rcases List.mem_cons.1 hd' with rfl | hd'
          · exact this
          · exact g3 d' hd'
      · simp only [hlt, if_false]
        obtain ⟨h1, h2⟩ := ih (some b)
        refine ⟨by simpa using h1, fun d hd => ?_⟩
        obtain ⟨g1, g2, g3⟩ := h2 d hd
        have := g2 b rfl
        refine ⟨?_, ?_, ?_⟩
        · rcases g1 with g1 | g1
          · exact Or.inl g1
          · exact Or.inr (List.mem_cons_of_mem _ g1)
        · intro b' hb'; cases hb'; exact this
        · intro d' hd'
          rcases List.mem_cons.1 hd' with rfl | hd'
          · omega
          · exact g3 d' hd'

/-- the timers that may fire up to `limit`: armed, not cancelled, deadline reached -/
def dueTimers (r : Realm) (limit : Nat) : List Timer :=
  r.ds.timers.filter (fun t => !t.canceled && t.deadline ≤ limit)

def dueRetries (r : Realm) (limit : Nat) : List Retry := r.retries.filter (fun x => x.next ≤ limit)

theorem nextDue_none_iff (r : Realm) (limit : Nat) :
    nextDue r limit = none ↔ dueTimers r limit = [] ∧ dueRetries r limit = [] := by
  unfold nextDue
  have := (foldl_min_spec ((dueTimers r limit).map Due.timer ++ (dueRetries r limit).map Due.retry) none).1
  simp only [true_and, List.append_eq_nil_iff, List.map_eq_nil_iff] at this
  exact this

/-- `nextDue` returns a call timer only if it is in the table, not cancelled, due, and no other due
    event (timer or retry) is earlier -/
theorem nextDue_timer {r : Realm} {limit : Nat} {t : Timer} (h : nextDue r limit = some (.timer t)) :
    t ∈ r.ds.timers ∧ t.canceled = false ∧ t.deadline ≤ limit ∧
      (∀ t' ∈ dueTimers r limit, t.deadline ≤ t'.deadline) ∧ (∀ x ∈ dueRetries r limit, t.deadline ≤ x.next) := by
  unfold nextDue at h
  obtain ⟨g1, _, g3⟩ :=
    (foldl_min_spec ((dueTimers r limit).map Due.timer ++ (dueRetries r limit).map Due.retry) none).2 _ h
  rcases g1 with g1 | g1
  · cases g1
  · have hm : t ∈ dueTimers r limit := by
      rcases List.mem_append.1 g1 with g1 | g1
      · rcases List.mem_map.1 g1 with ⟨t', ht', he⟩; cases he; exact ht'
      · rcases List.mem_map.1 g1 with ⟨_, _, he⟩; cases he
    have hm' := List.mem_filter.1 hm
    simp only [Bool.and_eq_true, Bool.not_eq_true', decide_eq_true_eq] at hm'
    refine ⟨hm'.1, hm'.2.1, hm'.2.2, ?_, ?_⟩
    · intro t' ht'
      exact g3 (.timer t') (List.mem_append_left _ (List.mem_map_of_mem ht'))
    · intro x hx
      exact g3 (.retry x) (List.mem_append_right _ (List.mem_map_of_mem hx))

theorem nextDue_time_le {r : Realm} {limit : Nat} {d : Due} (h : nextDue r limit = some d) : d.time ≤ limit := by
  unfold nextDue at h
  obtain ⟨g1, _, _⟩ :=
    (foldl_min_spec ((dueTimers r limit).map Due.timer ++ (dueRetries r limit).map Due.retry) none).2 _ h
  rcases g1 with g1 | g1
  · cases g1
  · rcases List.mem_append.1 g1 with g1 | g1
    · rcases List.mem_map.1 g1 with ⟨t', ht', rfl⟩
      have := (List.mem_filter.1 ht').2
      simp only [Bool.and_eq_true, decide_eq_true_eq] at this
      exact this.2
    · rcases List.mem_map.1 g1 with ⟨x, hx, rfl⟩
      have := (List.mem_filter.1 hx).2
      simpa [Due.time] using this

/-- one timed event of `advance`: the clock jumps to the event's time (never backwards), the event runs,
    then the internal tasks it caused -/
def fireDue (r : Realm) (d : Due) : Realm :=
  let r := { r with now := max r.now d.time }
  drain taskFuel (match d with
    | .timer t => r.timerDue t
    | .retry x => r.retryDue x)

/-- `advance`, relationally: the list collects the events fired, each with the realm it fired in -/
inductive Adv (target : Nat) : Realm → List (Realm × Due) → Realm → Prop
  | done {r : Realm} : nextDue r target = none → Adv target r [] { r with now := target }
  | fire {r : Realm} {d : Due} {evs : List (Realm × Due)} {r' : Realm} :
      nextDue r target = some d → Adv target (fireDue r d) evs r' → Adv target r ((r, d) :: evs) r'

/-- the recursion of `advance` ran out of fuel -/
def FuelOut (target : Nat) : Nat → Realm → Prop
  | 0, _ => True
  | fuel + 1, r =>
    match nextDue r target with
    | none => False
    | some d => FuelOut target fuel (fireDue r d)

theorem advance_adv (target : Nat) : ∀ (fuel : Nat) (r : Realm),
    FuelOut target fuel r ∨ ∃ evs, Adv target r evs (advance fuel r target)
  | 0, _ => Or.inl trivial
  | fuel + 1, r => by
    cases hn : nextDue r target with
    | none =>
      right
      refine ⟨[], ?_⟩
      have : advance (fuel + 1) r target = { r with now := target } := by simp [advance, hn]
      rw [this]; exact Adv.done hn
    | some d =>
      have he : advance (fuel + 1) r target = advance fuel (fireDue r d) target := by
        simp only [advance, hn, fireDue]
        cases d <;> rfl
      rcases advance_adv target fuel (fireDue r d) with hf | ⟨evs, hadv⟩
      · left; simp only [FuelOut, hn]; exact hf
      · right; rw [he]; exact ⟨_, Adv.fire hn hadv⟩

/-- every timer `advance` fires was in the table, armed, not cancelled, its deadline had been reached
    (`≤ target`) and no other due timer was earlier -/
theorem Adv.fired {target : Nat} {r r' : Realm} {evs : List (Realm × Due)} (h : Adv target r evs r') :
    ∀ p ∈ evs, ∀ t, p.2 = .timer t →
      t ∈ p.1.ds.timers ∧ t.canceled = false ∧ t.deadline ≤ target ∧ ∀ t' ∈ dueTimers p.1 target, t.deadline ≤ t'.deadline := by
  induction h with
  | done _ => intro p hp; cases hp
  | fire hn _ ih =>
    intro p hp t ht
    rcases List.mem_cons.1 hp with rfl | hp
    · simp only at ht; subst ht
      obtain ⟨h1, h2, h3, h4, _⟩ := nextDue_timer hn
      exact ⟨h1, h2, h3, h4⟩
    · exact ih p hp t ht

/-- when `advance` is done, no armed, not-cancelled timer with deadline `≤ target` is left (and no due retry) -/
theorem Adv.none_left {target : Nat} {r r' : Realm} {evs : List (Realm × Due)} (h : Adv target r evs r') :
    dueTimers r' target = [] ∧ dueRetries r' target = [] ∧ r'.now = target := by
  induction h with
  | done hn =>
    obtain ⟨h1, h2⟩ := (nextDue_none_iff _ _).1 hn
    exact ⟨h1, h2, rfl⟩
  | fire _ _ ih => exact ih

/-- a timer fires at its deadline, or at once if that has passed already (the clock never runs backwards) -/
theorem fireDue_timer (r : Realm) (t : Timer) :
    fireDue r (.timer t) = drain taskFuel (({ r with now := max r.now t.deadline } : Realm).timerDue t) := rfl

/-- what a firing timer does to the dealer: it leaves the table and posts
    `syncCancel(caller, request, killnowait, wamp.error.timeout)` -/
theorem timerDue_ds (r : Realm) (t : Timer) :
    (r.timerDue t).ds =
      (syncCancel r.denv { r.ds with timers := r.ds.timers.filter (fun y => y.id != t.id) } t.caller t.req
        CancelModeKillNoWait ErrTimeout [.str "<text>"]).st := by
  unfold timerDue
  simp only [applyD_ds]
  rfl

end Realm
end Nexus.L2
