/-
  Runs of the router and realm-wise non-interference along whole histories (helpers for C11).

  `runR rt ops`           the router run: observation of every step, final router.
  `concerns A rt op`      the operation `op`, issued in state `rt`, is addressed to realm `A`
                          (a join to `A`, an operation of a session dispatched to `A`,
                          `RemoveRealm A` / `AddRealm` of a configuration named `A`) or to every
                          realm (the clock, the random oracle, `Router.Close`).
  `projRun A rt ops`      the sub-list of `ops` that concerns `A`, decided along the run.
  `obsPart A rt op`       what the step makes observable on behalf of realm `A`: the whole
                          observation for operations addressed to `A`; `A`'s own contribution
                          (its own `Realm.step (.tick ms)` / its own shutdown) for the clock and
                          `Router.Close` (C11_tick / C11_close show that the router's observation
                          is the concatenation of these contributions).
  `AgreeOn A rt₁ rt₂`     both routers hold the same realm under the name `A`, dispatch the
                          same sessions to it and are both open or both closed.  NOTHING is
                          assumed about the other realms, the other sessions, the template or the
                          `created` counter.

  Main result `run_noninterference`: two runs from routers that agree on `A`, whose
  `A`-projections coincide, make the same things observable on behalf of `A`, step by step, and end
  in routers that agree on `A` — whatever happens in the other realms in between (operations of
  their sessions, joins, adding, removing, creating them from the template).

  Side condition `RunOk`: (1) session operations are not joins (`ROp.wf`); (2) a session key joins
  `A` only if the router does not know it yet (fresh random session ids); (3) realm `A` is not
  CREATED during the run (no accepted `AddRealm` named `A`, no on-demand creation of `A` from the
  template).  (3) is needed because the model's publication-id placeholders of a new realm start
  at `created * 1000000`, and `created` counts the realms of the whole router: see
  `create_modulo_pubbase` (a realm created in two routers differs in exactly that base and in the
  clock it starts with: the router's, time being global) and `pubbase_shared_witness`.
-/
import Nexus.L2.Proofs.RouterFrame

namespace Nexus.L2
namespace Router
namespace WpD
open Realm

/-! ### runs -/

def runR (rt : Router) : List ROp → List RObserved × Router
  | [] => ([], rt)
  | op :: ops => ((rt.step op).1 :: (runR (rt.step op).2 ops).1, (runR (rt.step op).2 ops).2)

def concerns (A : String) (rt : Router) : ROp → Bool
  | .join name _ _ _ _ _ => name == A
  | .sess k _ => rt.realmOf k == some A
  | .removeRealm name => name == A
  | .addRealm cfg => cfg.uri == A
  | .tick _ => true
  | .rnd _ => true
  | .close => true

def projRun (A : String) (rt : Router) : List ROp → List ROp
  | [] => []
  | op :: ops =>
    if concerns A rt op then op :: projRun A (rt.step op).2 ops else projRun A (rt.step op).2 ops

def obsPart (A : String) (rt : Router) : ROp → RObserved
  | .tick ms => match rt.realm? A with
    | none => {}
    | some r => merge {} (r.step (.tick ms)).1
  | .close => match rt.realm? A with
    | none => {}
    | some r => merge {} (shutdownRealm r).1
  | op => (rt.step op).1

def obsRun (A : String) (rt : Router) : List ROp → List RObserved
  | [] => []
  | op :: ops =>
    if concerns A rt op then obsPart A rt op :: obsRun A (rt.step op).2 ops else obsRun A (rt.step op).2 ops

structure AgreeOn (A : String) (rt₁ rt₂ : Router) : Prop where
  realm : rt₁.realm? A = rt₂.realm? A
  sess : ∀ k, rt₁.realmOf k = some A ↔ rt₂.realmOf k = some A
  closed : rt₁.closed = rt₂.closed

theorem AgreeOn.refl (A : String) (rt : Router) : AgreeOn A rt rt := ⟨rfl, fun _ => Iff.rfl, rfl⟩
theorem AgreeOn.symm {A : String} {rt₁ rt₂ : Router} (h : AgreeOn A rt₁ rt₂) : AgreeOn A rt₂ rt₁ :=
  ⟨h.realm.symm, fun k => (h.sess k).symm, h.closed.symm⟩
theorem AgreeOn.trans {A : String} {rt₁ rt₂ rt₃ : Router} (h : AgreeOn A rt₁ rt₂) (h' : AgreeOn A rt₂ rt₃) :
    AgreeOn A rt₁ rt₃ :=
  ⟨h.realm.trans h'.realm, fun k => (h.sess k).trans (h'.sess k), h.closed.trans h'.closed⟩

/-- the side condition on one step (see the file header) -/
def StepOk (A : String) (rt : Router) : ROp → Prop
  | .join name k _ _ _ _ => name = A → rt.ensureRealm A = rt ∧ rt.realmOf k = none
  | .addRealm cfg => cfg.uri = A → rt.closed = true ∨ rt.realm? A ≠ none
  | .sess _ op => op.isJoin = false
  | _ => True

def RunOk (A : String) (rt : Router) : List ROp → Prop
  | [] => True
  | op :: ops => StepOk A rt op ∧ RunOk A (rt.step op).2 ops

theorem StepOk.wf {A : String} {rt : Router} {op : ROp} (h : StepOk A rt op) : op.wf := by
  cases op <;> first | exact h | trivial

/-! ### lookups -/

/-- `realmOf` as a function of the session→realm map -/
def lookupS (sr : List (SessKey × String)) (k : SessKey) : Option String :=
  (sr.find? (fun p => p.1 == k)).map (·.2)

/-- `realm?` as a function of the realm table -/
def lookupR (l : List (String × Realm)) (A : String) : Option Realm :=
  (l.find? (fun p => p.1 == A)).map (·.2)

theorem realmOf_eq (rt : Router) (k : SessKey) : rt.realmOf k = lookupS rt.sessRealm k := rfl
theorem realm?_eq (rt : Router) (A : String) : rt.realm? A = lookupR rt.realms A := rfl

theorem lookupR_map_snd (f : Realm → Realm) (A : String) : ∀ l : List (String × Realm),
    lookupR (l.map (fun q => (q.1, f q.2))) A = (lookupR l A).map f
  | [] => rfl
  | x :: l => by
    unfold lookupR
    simp only [List.map_cons, List.find?_cons]
    cases h : x.1 == A
    · exact lookupR_map_snd f A l
    · rfl

theorem lookupR_filter_ne (A : String) : ∀ l : List (String × Realm),
    lookupR (l.filter (fun p => p.1 != A)) A = none
  | [] => rfl
  | x :: l => by
    simp only [List.filter_cons]
    cases h : x.1 == A
    · have : (x.1 != A) = true := by simp [bne, h]
      simp only [this, if_true]
      unfold lookupR
      simp only [List.find?_cons, h]
      exact lookupR_filter_ne A l
    · have : (x.1 != A) = false := by simp [bne, h]
      simp only [this]
      exact lookupR_filter_ne A l

theorem lookupR_append_ne {A B : String} (hB : B ≠ A) (x : Realm) (l : List (String × Realm)) :
    lookupR (l ++ [(B, x)]) A = lookupR l A := by
  unfold lookupR
  rw [List.find?_append]
  cases l.find? (fun p => p.1 == A) with
  | some y => rfl
  | none => simp [hB]

theorem lookupR_append_new {A : String} (x : Realm) {l : List (String × Realm)}
    (h : l.any (fun p => p.1 == A) = false) : lookupR (l ++ [(A, x)]) A = some x := by
  unfold lookupR
  rw [List.find?_append]
  have : l.find? (fun p => p.1 == A) = none := by
    apply List.find?_eq_none.mpr
    intro y hy
    have := List.any_eq_false.mp h y hy
    simpa using this
  rw [this]
  simp

theorem any_of_realm? {rt : Router} {A : String} (h : rt.realm? A ≠ none) :
    rt.realms.any (fun p => p.1 == A) = true := by
  unfold realm? at h
  cases hf : rt.realms.find? (fun p => p.1 == A) with
  | none => rw [hf] at h; exact (h rfl).elim
  | some p =>
    have hp := List.find?_some hf
    exact List.any_eq_true.mpr ⟨p, List.mem_of_find?_eq_some hf, hp⟩

theorem lookupS_append (sr : List (SessKey × String)) (k : SessKey) (name : String) (k' : SessKey) :
    lookupS (sr ++ [(k, name)]) k' = match lookupS sr k' with
      | some x => some x
      | none => if k == k' then some name else none := by
  unfold lookupS
  rw [List.find?_append]
  cases sr.find? (fun p => p.1 == k') with
  | some y => rfl
  | none =>
    by_cases e : (k == k') = true
    · simp [e]
    · simp [e]

theorem lookupS_append_ne {sr : List (SessKey × String)} {k : SessKey} {name A : String} (hne : A ≠ name)
    (k' : SessKey) : lookupS (sr ++ [(k, name)]) k' = some A ↔ lookupS sr k' = some A := by
  rw [lookupS_append]
  cases lookupS sr k' with
  | some x => exact Iff.rfl
  | none =>
    by_cases e : (k == k') = true
    · simp only [e, if_true]
      constructor
      · intro a; cases a; exact (hne rfl).elim
      · intro a; cases a
    · simp only [e]
      exact Iff.rfl

theorem lookupS_append_sync {sr₁ sr₂ : List (SessKey × String)} {k : SessKey} {A : String}
    (h1 : lookupS sr₁ k = none) (h2 : lookupS sr₂ k = none)
    (h : ∀ k', lookupS sr₁ k' = some A ↔ lookupS sr₂ k' = some A) (k' : SessKey) :
    lookupS (sr₁ ++ [(k, A)]) k' = some A ↔ lookupS (sr₂ ++ [(k, A)]) k' = some A := by
  rw [lookupS_append, lookupS_append]
  by_cases e : (k == k') = true
  · have e' : k = k' := by simpa using e
    subst e'
    rw [h1, h2]
  · have := h k'
    cases a : lookupS sr₁ k' with
    | some x =>
      cases b : lookupS sr₂ k' with
      | some y => rw [a, b] at this; exact this
      | none =>
        rw [a, b] at this
        simp only [e]
        constructor
        · intro c; exact (nomatch (this.mp c))
        · intro c; cases c
    | none =>
      cases b : lookupS sr₂ k' with
      | some y =>
        rw [a, b] at this
        simp only [e]
        constructor
        · intro c; cases c
        · intro c; exact (nomatch (this.mpr c))
      | none => exact Iff.rfl

/-! ### an operation that does not concern `A` -/

theorem agree_skip (A : String) (rt : Router) (op : ROp) (hc : concerns A rt op = false) :
    AgreeOn A rt (rt.step op).2 := by
  cases op with
  | join name k l d ro c =>
    have hne : A ≠ name := by
      intro e; simp [concerns, e] at hc
    cases hcl : (rt.closed || name == "") with
    | true => rw [step_join_refused hcl]; exact AgreeOn.refl _ _
    | false =>
      obtain ⟨hs, hcd, _, _⟩ := ensureRealm_fields rt name
      cases hr : (rt.ensureRealm name).realm? name with
      | none =>
        rw [step_join_none hcl hr]
        refine ⟨(realm?_of_others hne (others_ensureRealm rt name)).symm, fun k' => ?_, hcd.symm⟩
        rw [realmOf_eq, realmOf_eq, hs]
      | some r =>
        rw [step_join_some hcl hr]
        refine ⟨(realm?_of_others hne ((others_setRealm _ _ _).trans (others_ensureRealm rt name))).symm,
          fun k' => ?_, hcd.symm⟩
        show lookupS rt.sessRealm k' = some A ↔ lookupS ((rt.ensureRealm name).sessRealm ++ [(k, name)]) k' = some A
        rw [hs]
        exact (lookupS_append_ne hne k').symm
  | sess k op =>
    cases h : rt.realmOf k with
    | none => rw [step_sess_unknown h]; exact AgreeOn.refl _ _
    | some B =>
      have hne : A ≠ B := by
        intro e; simp [concerns, h, e] at hc
      cases hr : rt.realm? B with
      | none => rw [step_sess_gone h hr]; exact AgreeOn.refl _ _
      | some r =>
        rw [step_sess_some h hr]
        exact ⟨(realm?_of_others hne (others_setRealm _ _ _)).symm, fun _ => Iff.rfl, rfl⟩
  | removeRealm name =>
    have hne : A ≠ name := by
      intro e; simp [concerns, e] at hc
    cases hr : rt.realm? name with
    | none => rw [step_remove_none hr]; exact AgreeOn.refl _ _
    | some r =>
      rw [step_remove_some hr]
      refine ⟨(realm?_of_others hne ?_).symm, fun _ => Iff.rfl, rfl⟩
      unfold others; simp only [List.filter_filter, Bool.and_self]
  | addRealm cfg =>
    have hne : cfg.uri ≠ A := by
      intro e; simp [concerns, e] at hc
    rw [step_add]
    split
    · exact AgreeOn.refl _ _
    · split
      · refine ⟨?_, fun _ => Iff.rfl, rfl⟩
        show lookupR rt.realms A = lookupR (rt.realms ++ [(cfg.uri, _)]) A
        rw [lookupR_append_ne hne]
      · exact AgreeOn.refl _ _
  | tick ms => cases hc
  | rnd n => cases hc
  | close => cases hc

/-! ### an operation that concerns `A`, issued in two routers that agree on `A` -/

theorem concerns_agree {A : String} {rt₁ rt₂ : Router} (h : AgreeOn A rt₁ rt₂) (op : ROp) :
    concerns A rt₁ op = concerns A rt₂ op := by
  cases op with
  | sess k op =>
    simp only [concerns]
    have := h.sess k
    by_cases e : rt₁.realmOf k = some A
    · rw [e, this.mp e]
    · have e2 : ¬ rt₂.realmOf k = some A := fun x => e (this.mpr x)
      have a : (rt₁.realmOf k == some A) = false := by simpa using e
      have b : (rt₂.realmOf k == some A) = false := by simpa using e2
      rw [a, b]
  | _ => rfl

theorem lookupR_setRealm_self {rt : Router} {A : String} {r : Realm} (r' : Realm) (h : rt.realm? A = some r) :
    lookupR (rt.setRealm A r').realms A = some r' := realm?_setRealm_self r' h

theorem agree_sync {A : String} {rt₁ rt₂ : Router} (h : AgreeOn A rt₁ rt₂) (hi₁ : rt₁.Inv) (hi₂ : rt₂.Inv)
    (op : ROp) (hc : concerns A rt₁ op = true) (ho₁ : StepOk A rt₁ op) (ho₂ : StepOk A rt₂ op) :
    obsPart A rt₁ op = obsPart A rt₂ op ∧ AgreeOn A (rt₁.step op).2 (rt₂.step op).2 := by
  have hR : lookupR rt₁.realms A = lookupR rt₂.realms A := h.realm
  cases op with
  | join name k l d ro c =>
    have hn : name = A := by simpa [concerns] using hc
    subst hn
    obtain ⟨he₁, hk₁⟩ := ho₁ rfl
    obtain ⟨he₂, hk₂⟩ := ho₂ rfl
    show (rt₁.step _).1 = (rt₂.step _).1 ∧ _
    cases hcl : (rt₁.closed || name == "") with
    | true =>
      have hcl₂ : (rt₂.closed || name == "") = true := by rw [← h.closed]; exact hcl
      rw [step_join_refused hcl, step_join_refused hcl₂]
      exact ⟨rfl, h⟩
    | false =>
      have hcl₂ : (rt₂.closed || name == "") = false := by rw [← h.closed]; exact hcl
      cases hr : rt₁.realm? name with
      | none =>
        have hr₂ : rt₂.realm? name = none := by rw [← h.realm]; exact hr
        rw [step_join_none hcl (by rw [he₁]; exact hr), step_join_none hcl₂ (by rw [he₂]; exact hr₂), he₁, he₂]
        exact ⟨rfl, h⟩
      | some r =>
        have hr₂ : rt₂.realm? name = some r := by rw [← h.realm]; exact hr
        rw [step_join_some hcl (by rw [he₁]; exact hr), step_join_some hcl₂ (by rw [he₂]; exact hr₂), he₁, he₂]
        refine ⟨rfl, ?_, fun k' => ?_, h.closed⟩
        · show lookupR (rt₁.setRealm name _).realms name = lookupR (rt₂.setRealm name _).realms name
          rw [lookupR_setRealm_self _ hr, lookupR_setRealm_self _ hr₂]
        · show lookupS (rt₁.sessRealm ++ [(k, name)]) k' = some name ↔
            lookupS (rt₂.sessRealm ++ [(k, name)]) k' = some name
          exact lookupS_append_sync hk₁ hk₂ h.sess k'
  | sess k op =>
    have h₁ : rt₁.realmOf k = some A := by simpa [concerns] using hc
    have h₂ : rt₂.realmOf k = some A := (h.sess k).mp h₁
    show (rt₁.step _).1 = (rt₂.step _).1 ∧ _
    cases hr : rt₁.realm? A with
    | none =>
      have hr₂ : rt₂.realm? A = none := by rw [← h.realm]; exact hr
      rw [step_sess_gone h₁ hr, step_sess_gone h₂ hr₂]
      exact ⟨rfl, h⟩
    | some r =>
      have hr₂ : rt₂.realm? A = some r := by rw [← h.realm]; exact hr
      rw [step_sess_some h₁ hr, step_sess_some h₂ hr₂]
      refine ⟨rfl, ?_, h.sess, h.closed⟩
      show lookupR (rt₁.setRealm A _).realms A = lookupR (rt₂.setRealm A _).realms A
      rw [lookupR_setRealm_self _ hr, lookupR_setRealm_self _ hr₂]
  | tick ms =>
    refine ⟨?_, ?_⟩
    · show (match rt₁.realm? A with | none => _ | some r => _) = (match rt₂.realm? A with | none => _ | some r => _)
      rw [h.realm]
    · obtain ⟨a1, a2, a3, _⟩ := step_tick_realms rt₁ ms hi₁.names
      obtain ⟨b1, b2, b3, _⟩ := step_tick_realms rt₂ ms hi₂.names
      refine ⟨?_, fun k => ?_, by rw [a3, b3]; exact h.closed⟩
      · rw [realm?_eq, realm?_eq, a1, b1, lookupR_map_snd (fun r => (r.step (.tick ms)).2),
          lookupR_map_snd (fun r => (r.step (.tick ms)).2), hR]
      · rw [realmOf_eq, realmOf_eq, a2, b2]; exact h.sess k
  | rnd n =>
    refine ⟨rfl, ?_, h.sess, h.closed⟩
    show lookupR (rt₁.realms.map (fun q => (q.1, (fun r : Realm => { r with rnd := n }) q.2))) A =
      lookupR (rt₂.realms.map (fun q => (q.1, (fun r : Realm => { r with rnd := n }) q.2))) A
    rw [lookupR_map_snd (fun r : Realm => { r with rnd := n }), lookupR_map_snd (fun r : Realm => { r with rnd := n }), hR]
  | close =>
    refine ⟨?_, ?_⟩
    · show (match rt₁.realm? A with | none => _ | some r => _) = (match rt₂.realm? A with | none => _ | some r => _)
      rw [h.realm]
    · rw [step_close, step_close]
      exact ⟨rfl, h.sess, rfl⟩
  | removeRealm name =>
    have hn : name = A := by simpa [concerns] using hc
    subst hn
    show (rt₁.step _).1 = (rt₂.step _).1 ∧ _
    cases hr : rt₁.realm? name with
    | none =>
      have hr₂ : rt₂.realm? name = none := by rw [← h.realm]; exact hr
      rw [step_remove_none hr, step_remove_none hr₂]
      exact ⟨rfl, h⟩
    | some r =>
      have hr₂ : rt₂.realm? name = some r := by rw [← h.realm]; exact hr
      rw [step_remove_some hr, step_remove_some hr₂]
      refine ⟨rfl, ?_, h.sess, h.closed⟩
      show lookupR (rt₁.realms.filter (fun p => p.1 != name)) name = lookupR (rt₂.realms.filter (fun p => p.1 != name)) name
      rw [lookupR_filter_ne, lookupR_filter_ne]
  | addRealm cfg =>
    have hn : cfg.uri = A := by simpa [concerns] using hc
    show (rt₁.step _).1 = (rt₂.step _).1 ∧ _
    have r1 : (rt₁.closed || rt₁.realms.any (fun p => p.1 == cfg.uri)) = true := by
      rcases ho₁ hn with e | e
      · simp [e]
      · rw [hn, any_of_realm? e]; simp
    have r2 : (rt₂.closed || rt₂.realms.any (fun p => p.1 == cfg.uri)) = true := by
      rcases ho₂ hn with e | e
      · simp [e]
      · rw [hn, any_of_realm? e]; simp
    rw [step_add, step_add, if_pos r1, if_pos r2]
    exact ⟨rfl, h⟩

/-! ### simulation along runs -/

theorem run_skip_all (A : String) : ∀ (ops : List ROp) (rt₁ rt₂ : Router), AgreeOn A rt₁ rt₂ →
    projRun A rt₂ ops = [] → obsRun A rt₂ ops = [] ∧ AgreeOn A rt₁ (runR rt₂ ops).2
  | [], _, _, h, _ => ⟨rfl, h⟩
  | op :: ops, rt₁, rt₂, h, hp => by
    cases hc : concerns A rt₂ op with
    | true => simp [projRun, hc] at hp
    | false =>
      simp only [projRun, hc] at hp
      simp only [obsRun, hc, runR]
      exact run_skip_all A ops rt₁ _ (h.trans (agree_skip A rt₂ op hc)) hp

theorem run_noninterference (A : String) : ∀ (ops₁ : List ROp) (rt₁ rt₂ : Router) (ops₂ : List ROp),
    AgreeOn A rt₁ rt₂ → rt₁.Inv → rt₂.Inv → RunOk A rt₁ ops₁ → RunOk A rt₂ ops₂ →
    projRun A rt₁ ops₁ = projRun A rt₂ ops₂ →
    obsRun A rt₁ ops₁ = obsRun A rt₂ ops₂ ∧ AgreeOn A (runR rt₁ ops₁).2 (runR rt₂ ops₂).2
  | [], rt₁, rt₂, ops₂, h, _, _, _, _, hp => by
    obtain ⟨a, b⟩ := run_skip_all A ops₂ rt₁ rt₂ h hp.symm
    exact ⟨a.symm, b⟩
  | op₁ :: ops₁, rt₁, rt₂, ops₂, h, hi₁, hi₂, hk₁, hk₂, hp => by
    cases hc : concerns A rt₁ op₁ with
    | false =>
      simp only [projRun, hc] at hp
      simp only [obsRun, hc, runR]
      exact run_noninterference A ops₁ _ rt₂ ops₂ ((agree_skip A rt₁ op₁ hc).symm.trans h)
        (hi₁.step op₁ hk₁.1.wf) hi₂ hk₁.2 hk₂ hp
    | true =>
      simp only [projRun, hc, if_true] at hp
      simp only [obsRun, hc, if_true, runR]
      -- advance the second run to its first operation that concerns `A`
      induction ops₂ generalizing rt₂ with
      | nil => simp [projRun] at hp
      | cons op₂ ops₂ ih =>
        cases hc₂ : concerns A rt₂ op₂ with
        | false =>
          simp only [projRun, hc₂] at hp
          simp only [obsRun, hc₂, runR]
          exact ih _ (h.trans (agree_skip A rt₂ op₂ hc₂)) (hi₂.step op₂ hk₂.1.wf) hk₂.2 hp
        | true =>
          simp only [projRun, hc₂, if_true] at hp
          simp only [obsRun, hc₂, if_true, runR]
          obtain ⟨e, hp'⟩ := List.cons.inj hp
          subst e
          obtain ⟨o, h'⟩ := agree_sync h hi₁ hi₂ op₁ hc hk₁.1 hk₂.1
          obtain ⟨a, b⟩ := run_noninterference A ops₁ _ _ ops₂ h' (hi₁.step op₁ hk₁.1.wf) (hi₂.step op₁ hk₂.1.wf)
            hk₁.2 hk₂.2 hp'
          exact ⟨by rw [o, a], b⟩

/-! ### creation of a realm: the publication-id base is shared router state -/

/-- An accepted `AddRealm cfg` in two routers yields the same realm up to `pubCount`
    (`created * 1000000`, `created` counting the realms of the whole router) and the clock `now`
    (the router's: time is global, a realm created later starts at the current time). -/
theorem create_modulo_pubbase (rt : Router) (cfg : Config) (r : Realm) (hcr : Realm.create cfg = some r)
    (hacc : (rt.closed || rt.realms.any (fun p => p.1 == cfg.uri)) = false) :
    (rt.step (.addRealm cfg)).2.realm? cfg.uri = some { r with pubCount := rt.created * 1000000, now := rt.now } := by
  rw [step_add, hacc]
  simp only [Bool.false_eq_true, if_false, hcr]
  have : rt.realms.any (fun p => p.1 == cfg.uri) = false := by
    cases h : rt.realms.any (fun p => p.1 == cfg.uri) with
    | false => rfl
    | true => rw [h] at hacc; simp at hacc
  exact lookupR_append_new _ this


/-- Two routers that differ only in how many realms were created before: the realm created by the
    same `AddRealm cfgA` gets a different publication-id base.  (Model artefact: the real router
    draws publication ids from the global random generator; the model separates the placeholder
    ranges of realms by the router-wide counter `created`.)  This is why `run_noninterference`
    excludes the creation of the observed realm. -/
theorem pubbase_shared (cfgA cfgB : Config) (rA rB : Realm) (hA : Realm.create cfgA = some rA)
    (hB : Realm.create cfgB = some rB) (hne : cfgB.uri ≠ cfgA.uri) :
    (runR {} [.addRealm cfgB, .addRealm cfgA]).2.realm? cfgA.uri = some { rA with pubCount := 1000000 } ∧
    (runR {} [.addRealm cfgA]).2.realm? cfgA.uri = some { rA with pubCount := 0 } := by
  have e1 : (({} : Router).step (.addRealm cfgB)).2 =
      { realms := [(cfgB.uri, { rB with pubCount := 0, now := 0 })], created := 1 } := by
    rw [step_add]
    simp only [hB]
    rfl
  -- both runs start at time 0 and no time passes: the created realm keeps the clock of `Realm.create`
  have hnow : ∀ n : Nat, ({ rA with pubCount := n, now := 0 } : Realm) = { rA with pubCount := n } := by
    intro n
    have h0 := create_now hA
    cases rA
    simp only at h0
    subst h0
    rfl
  refine ⟨?_, ?_⟩
  · show (((({} : Router).step (.addRealm cfgB)).2).step (.addRealm cfgA)).2.realm? cfgA.uri = _
    rw [e1]
    have := create_modulo_pubbase { realms := [(cfgB.uri, { rB with pubCount := 0, now := 0 })], created := 1 } cfgA rA hA
      (by simp [hne])
    rw [this]
    show some { rA with pubCount := 1 * 1000000, now := 0 } = _
    rw [Nat.one_mul, hnow]
  · exact (create_modulo_pubbase {} cfgA rA hA rfl).trans (congrArg some (hnow _))

/-! ### the part observed on behalf of `A` is the router's observation filtered to `A`'s sessions -/

theorem filter_flatMap_none {β : Type} (l : List (String × Realm)) (f : String × Realm → List β) (g : β → Option String)
    (A : String) (hconf : ∀ p ∈ l, ∀ b ∈ f p, g b = some p.1) (hA : ∀ p ∈ l, p.1 ≠ A) :
    (l.flatMap f).filter (fun b => g b == some A) = [] := by
  apply List.filter_eq_nil_iff.mpr
  intro b hb
  obtain ⟨p, hp, hbp⟩ := List.mem_flatMap.mp hb
  rw [hconf p hp b hbp]
  have := hA p hp
  simpa using this

theorem filter_flatMap_part {β : Type} (f : String × Realm → List β) (g : β → Option String) (A : String) :
    ∀ (l : List (String × Realm)), (l.map (·.1)).Nodup → (∀ p ∈ l, ∀ b ∈ f p, g b = some p.1) →
    (l.flatMap f).filter (fun b => g b == some A) =
      match l.find? (fun p => p.1 == A) with
      | none => []
      | some p => f p
  | [], _, _ => rfl
  | x :: l, hn, hconf => by
    simp only [List.map_cons, List.nodup_cons] at hn
    rw [List.flatMap_cons, List.filter_append, List.find?_cons]
    have hx : ∀ b ∈ f x, g b = some x.1 := hconf x (List.mem_cons_self ..)
    have hl : ∀ p ∈ l, ∀ b ∈ f p, g b = some p.1 := fun p hp => hconf p (List.mem_cons_of_mem _ hp)
    cases e : x.1 == A with
    | true =>
      have e' : x.1 = A := by simpa using e
      have h1 : (f x).filter (fun b => g b == some A) = f x := by
        apply List.filter_eq_self.mpr
        intro b hb
        rw [hx b hb, e']; simp
      have h2 : (l.flatMap f).filter (fun b => g b == some A) = [] := by
        apply filter_flatMap_none l f g A hl
        intro p hp ep
        exact hn.1 (List.mem_map.mpr ⟨p, hp, by rw [ep, e']⟩)
      rw [h1, h2]; simp
    | false =>
      have e' : x.1 ≠ A := by simpa using e
      have h1 : (f x).filter (fun b => g b == some A) = [] := by
        apply List.filter_eq_nil_iff.mpr
        intro b hb
        rw [hx b hb]
        simpa using e'
      rw [h1, List.nil_append]
      exact filter_flatMap_part f g A l hn.2 hl

theorem realmOf_of_joined {rt : Router} (hn : (rt.sessRealm.map (·.1)).Nodup) {A : String} {k : SessKey}
    (h : rt.joined A k) : rt.realmOf k = some A := by
  unfold realmOf
  rw [find?_fst_of_nodup hn h]
  rfl

/-- For the clock: what `obsPart` attributes to `A` is exactly the router's observation restricted
    to the sessions dispatched to `A` (in a router satisfying the invariant whose session keys
    attached at most once). -/
theorem obsPart_tick_filter (rt : Router) (hi : rt.Inv) (hn : (rt.sessRealm.map (·.1)).Nodup) (A : String) (ms : Nat) :
    (obsPart A rt (.tick ms)).out = (rt.step (.tick ms)).1.out.filter (fun q => rt.realmOf q.1 == some A) ∧
    (obsPart A rt (.tick ms)).closed = (rt.step (.tick ms)).1.closed.filter (fun k => rt.realmOf k == some A) := by
  have hc : ∀ p ∈ rt.realms, (∀ q ∈ (p.2.step (.tick ms)).1.out, rt.joined p.1 q.1) ∧
      (∀ k ∈ (p.2.step (.tick ms)).1.closed, rt.joined p.1 k) :=
    fun p hp => ((hi.conf p hp).step (.tick ms) (fun _ _ _ _ _ e => by cases e)).2
  have e1 : (rt.step (.tick ms)).1.out = rt.realms.flatMap (fun p => (p.2.step (.tick ms)).1.out) := by
    rw [step_tick_eq, (tickFold_obs ms rt.realms _).1]; rfl
  have e2 : (rt.step (.tick ms)).1.closed = rt.realms.flatMap (fun p => (p.2.step (.tick ms)).1.closed) := by
    rw [step_tick_eq, (tickFold_obs ms rt.realms _).2]; rfl
  rw [e1, e2,
    filter_flatMap_part (fun p => (p.2.step (.tick ms)).1.out) (fun q => rt.realmOf q.1) A rt.realms hi.names
      (fun p hp q hq => realmOf_of_joined hn ((hc p hp).1 q hq)),
    filter_flatMap_part (fun p => (p.2.step (.tick ms)).1.closed) (fun k => rt.realmOf k) A rt.realms hi.names
      (fun p hp k hk => realmOf_of_joined hn ((hc p hp).2 k hk))]
  show (match rt.realm? A with | none => ({} : RObserved) | some r => _).out = _ ∧
    (match rt.realm? A with | none => ({} : RObserved) | some r => _).closed = _
  unfold realm?
  cases rt.realms.find? (fun p => p.1 == A) with
  | none => exact ⟨rfl, rfl⟩
  | some p => exact ⟨rfl, rfl⟩

/-- … and for `Router.Close`. -/
theorem obsPart_close_filter (rt : Router) (hi : rt.Inv) (hn : (rt.sessRealm.map (·.1)).Nodup) (A : String) :
    (obsPart A rt .close).out = (rt.step .close).1.out.filter (fun q => rt.realmOf q.1 == some A) ∧
    (obsPart A rt .close).closed = (rt.step .close).1.closed.filter (fun k => rt.realmOf k == some A) := by
  have hc : ∀ p ∈ rt.realms, (∀ q ∈ (shutdownRealm p.2).1.out, rt.joined p.1 q.1) ∧
      (∀ k ∈ (shutdownRealm p.2).1.closed, rt.joined p.1 k) :=
    fun p hp => (shutdownRealm_conf (hi.conf p hp)).2
  obtain ⟨h1, h2⟩ := closeFold_obs rt.realms {}
  have e1 : (rt.step .close).1.out = rt.realms.flatMap (fun p => (shutdownRealm p.2).1.out) := by
    rw [step_close]; exact h1.trans (by rfl)
  have e2 : (rt.step .close).1.closed = rt.realms.flatMap (fun p => (shutdownRealm p.2).1.closed) := by
    rw [step_close]; exact h2.trans (by rfl)
  rw [e1, e2,
    filter_flatMap_part (fun p => (shutdownRealm p.2).1.out) (fun q => rt.realmOf q.1) A rt.realms hi.names
      (fun p hp q hq => realmOf_of_joined hn ((hc p hp).1 q hq)),
    filter_flatMap_part (fun p => (shutdownRealm p.2).1.closed) (fun k => rt.realmOf k) A rt.realms hi.names
      (fun p hp k hk => realmOf_of_joined hn ((hc p hp).2 k hk))]
  show (match rt.realm? A with | none => ({} : RObserved) | some r => _).out = _ ∧
    (match rt.realm? A with | none => ({} : RObserved) | some r => _).closed = _
  unfold realm?
  cases rt.realms.find? (fun p => p.1 == A) with
  | none => exact ⟨rfl, rfl⟩
  | some p => exact ⟨rfl, rfl⟩

end WpD
end Router
end Nexus.L2
