/-
  C07 "stall isolation", part 8: external inputs (`stepOp`), timed events (`timerDue`, `retryDue`, `advance`),
  what the clients read (`flush`) and the whole `step`.
-/
import Nexus.L2.Proofs.WpCStallStep

set_option linter.unusedSimpArgs false

namespace Nexus.L2.WpC
open Nexus.L2 Nexus.L2.Realm Gen.N

variable {x : SessKey}

/-! ### external inputs -/

/-- an input that is not an RPC message (call, cancel, yield, register, unregister, error) sent by `x` -/
def OpFree (x : SessKey) : Op → Prop
  | .msg k m => k = x → isRpc m = false
  | _ => True

/-- the clients replaced by copies that differ in a flag other than `stalled` … -/
theorem eqoff_mapClients {r r' : Realm} (h : EqOff x r r') (upd : Session → Session)
    (hu : ∀ c, unstall x (upd c) = upd (unstall x c)) :
    r'.clients.map (unstall x ∘ upd) = r.clients.map (unstall x ∘ upd) := by
  have e : (unstall x ∘ upd) = (upd ∘ unstall x) := funext hu
  rw [e, ← List.map_map, ← List.map_map, h.clients]

/-- … or in the `stalled` flag of `x` itself -/
theorem eqoff_stallClients {r r' : Realm} (h : EqOff x r r') (k : SessKey) (b : Bool) :
    (r'.clients.map (fun c => if c.key == k then { c with stalled := b } else c)).map (unstall x) =
      (r.clients.map (fun c => if c.key == k then { c with stalled := b } else c)).map (unstall x) := by
  rw [List.map_map, List.map_map]
  by_cases hk : k = x
  · have e : (unstall x ∘ fun c : Session => if c.key == k then { c with stalled := b } else c) = unstall x := by
      funext c
      simp only [Function.comp]
      unfold unstall
      subst hk
      split <;> simp_all
    rw [e, h.clients]
  · refine eqoff_mapClients h _ ?_
    intro c
    rw [unstall_key]
    unfold unstall
    have hk' : ¬ x = k := fun e => hk e.symm
    split <;> split <;> simp_all

theorem eqoff_stepOp {r r' : Realm} (h : EqOff x r r') (hd : DIdle x r.ds) (op : Op) (hop : OpFree x op) :
    EqOff x (r.stepOp op) (r'.stepOp op) := by
  cases op with
  | join k isLocal details roles cap =>
    rw [stepOp_join, stepOp_join, cleanDetails_congr h,
      any_of_map_eq h.clients (fun c => c.key == k) (fun c => by rw [unstall_key])]
    split
    · exact h
    apply eqoff_addTasks
    refine EqOff.mk h.cfg h.broker h.ds ?_ h.ending h.testaments h.metaProcs h.metaS ?_ h.closedPeers h.tasks
      h.retries h.deferred h.inbox h.ghosts h.now h.pubCount h.rnd h.panic
    · dsimp only; rw [List.map_append, List.map_append, h.clients]
    · dsimp only; rw [List.filter_append, List.filter_append, h.queues]
  | msg k m =>
    rw [stepOp_msg, stepOp_msg]
    refine eqoff_recvMsg h k m ?_
    by_cases hk : k = x
    · exact Or.inl (hop hk)
    · exact Or.inr ⟨hk, hd⟩
  | buffer k =>
    rw [stepOp_buffer, stepOp_buffer]
    refine EqOff.mk h.cfg h.broker h.ds ?_ h.ending h.testaments h.metaProcs h.metaS h.queues h.closedPeers h.tasks
      h.retries h.deferred h.inbox h.ghosts h.now h.pubCount h.rnd h.panic
    dsimp only
    rw [List.map_map, List.map_map]
    refine eqoff_mapClients h _ ?_
    intro c
    rw [unstall_key]
    unfold unstall
    split <;> split <;> simp_all
  | drop k =>
    rw [stepOp_drop, stepOp_drop, h.ending,
      any_of_map_eq h.clients (fun c => c.key == k) (fun c => by rw [unstall_key])]
    split
    · exact h
    split
    · exact h
    · eqoff_upd h
  | stall k =>
    rw [stepOp_stall, stepOp_stall]
    exact EqOff.mk h.cfg h.broker h.ds (eqoff_stallClients h k true) h.ending h.testaments h.metaProcs h.metaS
      h.queues h.closedPeers h.tasks h.retries h.deferred h.inbox h.ghosts h.now h.pubCount h.rnd h.panic
  | resume k =>
    rw [stepOp_resume, stepOp_resume]
    refine EqOff.mk h.cfg h.broker h.ds (eqoff_stallClients h k false) h.ending h.testaments h.metaProcs h.metaS
      h.queues h.closedPeers h.tasks h.retries h.deferred h.inbox ?_ h.now h.pubCount h.rnd h.panic
    dsimp only
    rw [List.filter_filter, List.filter_filter]
    have e : ∀ l : List SessKey, l.filter (fun a => (a != x) && (a != k)) = (l.filter (· != x)).filter (· != k) := by
      intro l; rw [List.filter_filter]; congr 1; funext a; exact Bool.and_comm _ _
    rw [e, e, h.ghosts]
  | tick ms => exact h
  | rnd n =>
    rw [stepOp_rnd, stepOp_rnd]
    eqoff_upd h

theorem idle_stepOp {r : Realm} (hd : DealerInv r.ds) (h : Idle x r) (op : Op) (hop : OpFree x op) :
    Idle x (r.stepOp op) := by
  cases op with
  | join k isLocal details roles cap =>
    rw [stepOp_join]
    split
    · exact h
    refine h.mono id (fun y hy => Or.inl hy) ?_
    unfold Realm.addTasks; simp
  | msg k m =>
    rw [stepOp_msg]
    refine idle_recvMsg hd h k m ?_
    by_cases hk : k = x
    · exact Or.inl (hop hk)
    · exact Or.inr hk
  | buffer k => exact h.mono id (fun y hy => Or.inl hy) rfl
  | drop k =>
    rw [stepOp_drop]
    split
    · exact h
    split
    · exact h
    · refine h.mono id (fun y hy => Or.inl hy) ?_
      simp
  | stall k => exact h.mono id (fun y hy => Or.inl hy) rfl
  | resume k => exact h.mono id (fun y hy => Or.inl hy) rfl
  | tick ms => exact h
  | rnd n => exact h.mono id (fun y hy => Or.inl hy) rfl

/-! ### timed events -/

theorem eqoff_nextDue {r r' : Realm} (h : EqOff x r r') (limit : Nat) : nextDue r' limit = nextDue r limit := by
  unfold nextDue
  rw [h.ds, h.retries]

theorem timerDue_eq' (r : Realm) (t : Timer) :
    r.timerDue t =
      ({ r with ds := { r.ds with timers := r.ds.timers.filter (fun y => y.id != t.id) } } : Realm).applyD
        (syncCancel r.denv { r.ds with timers := r.ds.timers.filter (fun y => y.id != t.id) } t.caller t.req
          CancelModeKillNoWait ErrTimeout [.str "<text>"]) := rfl

/-- a call timeout fires: INTERRUPT goes to the callee of an invocation, never to `x` -/
theorem eqoff_timerDue {r r' : Realm} (h : EqOff x r r') (hd : DIdle x r.ds) (t : Timer) :
    EqOff x (r.timerDue t) (r'.timerDue t) := by
  rw [timerDue_eq' r, timerDue_eq' r', h.ds,
    syncCancel_congr h.denv { r.ds with timers := r.ds.timers.filter (fun y => y.id != t.id) } _ _ _ _ _
      (Or.inr hd.invs)]
  have h1 : EqOff x ({ r with ds := { r.ds with timers := r.ds.timers.filter (fun y => y.id != t.id) } } : Realm)
      ({ r' with ds := { r.ds with timers := r.ds.timers.filter (fun y => y.id != t.id) } } : Realm) := by
    eqoff_upd h
  exact eqoff_applyD h1 _

theorem idle_timerDue {r : Realm} (hd : DealerInv r.ds) (h : Idle x r) (t : Timer) : Idle x (r.timerDue t) := by
  unfold Realm.timerDue
  dsimp only
  have h1 : Idle x ({ r with ds := { r.ds with timers := r.ds.timers.filter (fun y => y.id != t.id) } } : Realm) :=
    ⟨h.refs, h.retries, h.tasks⟩
  exact idle_applyD h1 _ (syncCancel_refs_sub (hd.filterTimers _) _ _ _ _ _ x)

/-- one turn of the retry loop of a handler other than x's: RESULT goes to the caller, never to `x` -/
theorem eqoff_retryDue {r r' : Realm} (h : EqOff x r r') (hd : DIdle x r.ds) (y : Retry) (hy : y.callee ≠ x) :
    EqOff x (r.retryDue y) (r'.retryDue y) := by
  have ho : retryOut r' y = retryOut r y := by
    unfold retryOut
    rw [h.ds, h.now, syncYield_congr h.denv _ _ _ _ _ _ _ hy hd.calls hd.invs]
  rw [retryDue_eq r, retryDue_eq r', ho, h.retries]
  have h1 : EqOff x ({ r with retries := r.retries.filter (fun z => z.callee != y.callee) } : Realm)
      ({ r' with retries := r.retries.filter (fun z => z.callee != y.callee) } : Realm) := by
    eqoff_upd h
  have h2 := eqoff_applyD h1 (retryOut r y)
  split
  · eqoff_upd h2
  · eqoff_upd h2

theorem inX_inbox (l : List (SessKey × Msg)) {k : SessKey} (hk : k ≠ x) :
    inX x ((l.filter (fun d => d.1 == k)).map (fun d => Task.inMsg d.1 d.2)) = [] := by
  induction l with
  | nil => rfl
  | cons d l ih =>
    rw [List.filter_cons]
    split
    · rename_i hd
      have e : d.1 = k := by simpa using hd
      rw [List.map_cons]
      show inX x ([Task.inMsg d.1 d.2] ++ _) = []
      rw [inX_append, ih]
      unfold inX
      simp [e, hk]
    · exact ih

theorem idle_retryDue {r : Realm} (hd : DealerInv r.ds) (h : Idle x r) (y : Retry) (hy : y.callee ≠ x) :
    Idle x (r.retryDue y) := by
  refine h.mono ?_ ?_ ?_
  · rw [retryDue_ds]
    exact syncYield_refs_sub hd _ _ _ _ _ _ _ x
  · rw [retryDue_retries]
    intro z hz
    split at hz
    · rcases List.mem_append.mp hz with hz | hz
      · exact Or.inl (List.mem_filter.mp hz).1
      · rw [List.mem_singleton.mp hz]; exact Or.inr hy
    · exact Or.inl (List.mem_filter.mp hz).1
  · rw [retryDue_eq]
    split
    · simp only [dapplyD_tasks, inX_append, inX_metaTasks, inX_metaPubs, inX_leaves, List.append_nil]
    · simp only [dapplyD_tasks, dapplyD_inbox, dapplyD_deferred, inX_append, inX_metaTasks, inX_metaPubs, inX_leaves,
        List.append_nil, inX_inbox _ hy]

/-- virtual time passes: every timed event at its own instant, each followed by the tasks it causes -/
theorem eqoff_advance (hx : x ≠ metaKey) : ∀ (fuel : Nat) {r r' : Realm} (target : Nat),
    EqOff x r r' → RealmInv r → Idle x r →
    EqOff x (advance fuel r target) (advance fuel r' target) ∧ RealmInv (advance fuel r target) ∧
      Idle x (advance fuel r target)
  | 0, r, r', target, h, hi, hid => by
    unfold advance
    have h0 : EqOff x ({ r with now := target } : Realm) ({ r' with now := target } : Realm) := by eqoff_upd h
    have hi0 : RealmInv ({ r with now := target } : Realm) :=
      hi.of_parts rfl hi.binv hi.dinv hi.bmem hi.dref hi.callers hi.retr hi.tasks hi.inb rfl
    have hid0 : Idle x ({ r with now := target } : Realm) := ⟨hid.refs, hid.retries, hid.tasks⟩
    exact ⟨eqoff_setPanic h0 _, hi0.setPanic _, idle_setPanic hid0 _⟩
  | fuel + 1, r, r', target, h, hi, hid => by
    unfold advance
    rw [eqoff_nextDue h]
    cases hn : nextDue r target with
    | none =>
      dsimp only
      exact ⟨by eqoff_upd h,
        hi.of_parts rfl hi.binv hi.dinv hi.bmem hi.dref hi.callers hi.retr hi.tasks hi.inb rfl,
        ⟨hid.refs, hid.retries, hid.tasks⟩⟩
    | some d =>
      dsimp only
      rw [h.now]
      have h1 : EqOff x ({ r with now := max r.now d.time } : Realm) ({ r' with now := max r.now d.time } : Realm) := by
        eqoff_upd h
      have hi1 : RealmInv ({ r with now := max r.now d.time } : Realm) :=
        hi.of_parts rfl hi.binv hi.dinv hi.bmem hi.dref hi.callers hi.retr hi.tasks hi.inb rfl
      have hid1 : Idle x ({ r with now := max r.now d.time } : Realm) := ⟨hid.refs, hid.retries, hid.tasks⟩
      cases d with
      | timer t =>
        dsimp only
        obtain ⟨a, b, c⟩ := eqoff_drain hx taskFuel (eqoff_timerDue h1 hid1.didle t) (timerDue_rinv hi1 t).1
          (idle_timerDue hi1.dinv hid1 t)
        exact eqoff_advance hx fuel target a b c
      | retry y =>
        dsimp only
        have hy : y ∈ r.retries := nextDue_retry hn
        have hyx : y.callee ≠ x := hid.retries y hy
        obtain ⟨a, b, c⟩ := eqoff_drain hx taskFuel (eqoff_retryDue h1 hid1.didle y hyx)
          (retryDue_rinv hi1 y (hi.retr y hy)).1 (idle_retryDue hi1.dinv hid1 y hyx)
        exact eqoff_advance hx fuel target a b c

/-! ### what the clients read -/

/-- does the client behind key `k` drain its queue (the `reading` of `Realm.flush`) -/
def reading (r : Realm) (k : SessKey) : Bool :=
  if r.ghosts.contains k then false else
  match r.clients.find? (fun c => c.key == k) with
  | some c => !c.stalled
  | none => true

theorem flush_eq (r : Realm) :
    r.flush =
      ({ out := r.queues.filter (fun q => reading r q.1 && !q.2.isEmpty),
         closed := r.closedPeers.filter (reading r), panic := r.panic },
       { r with queues := r.queues.filter (fun q => !reading r q.1) ++
                  (r.queues.filter (fun q => reading r q.1 && !r.closedPeers.contains q.1)).map
                    (fun q => (q.1, ([] : List Msg))),
                closedPeers := r.closedPeers.filter (fun k => !reading r k) }) := rfl

theorem contains_off (l : List SessKey) {k : SessKey} (hk : k ≠ x) :
    (l.filter (· != x)).contains k = l.contains k := by
  induction l with
  | nil => rfl
  | cons a l ih =>
    rw [List.filter_cons]
    by_cases ha : a = x
    · have : (a != x) = false := by simp [ha]
      rw [this]
      simp only [Bool.false_eq_true, if_false, ih, List.contains_cons]
      have : (k == a) = false := by rw [ha]; simpa using hk
      rw [this, Bool.false_or]
    · have : (a != x) = true := by simpa using ha
      rw [this]
      simp only [if_true, List.contains_cons, ih]

/-- whether anybody other than `x` reads does not depend on `x` -/
theorem EqOff.reading {r r' : Realm} (h : EqOff x r r') {k : SessKey} (hk : k ≠ x) : reading r' k = reading r k := by
  unfold WpC.reading
  rw [← contains_off r'.ghosts hk, h.ghosts, contains_off r.ghosts hk, h.find_ne hk]

theorem filter_off_congr {α : Type} (key : α → SessKey) (l : List α) (f g : α → Bool)
    (hfg : ∀ a, key a ≠ x → f a = g a) :
    (l.filter (fun a => key a != x)).filter f = (l.filter (fun a => key a != x)).filter g := by
  apply List.filter_congr
  intro a ha
  exact hfg a (by simpa using (List.mem_filter.mp ha).2)

theorem filter_comm {α : Type} (l : List α) (f g : α → Bool) : (l.filter f).filter g = (l.filter g).filter f := by
  rw [List.filter_filter, List.filter_filter]
  congr 1
  funext a
  exact Bool.and_comm _ _

/-- a filter whose verdict off `x` is the same on both sides, applied to lists that agree off `x` -/
theorem filter_off_transfer {α : Type} (key : α → SessKey) {l l' : List α}
    (hl : l'.filter (fun a => key a != x) = l.filter (fun a => key a != x)) (f g : α → Bool)
    (hfg : ∀ a, key a ≠ x → g a = f a) :
    (l'.filter g).filter (fun a => key a != x) = (l.filter f).filter (fun a => key a != x) := by
  rw [filter_comm, filter_comm l, hl]
  exact filter_off_congr key l g f hfg

/-- THE OBSERVATION.  After `flush` the states still agree off `x`, and what every client other than `x`
    reads — its queue, whether its peer was closed — and the panic flag are the same on both sides. -/
theorem eqoff_flush {r r' : Realm} (h : EqOff x r r') :
    EqOff x r.flush.2 r'.flush.2 ∧
    r'.flush.1.out.filter (fun q => q.1 != x) = r.flush.1.out.filter (fun q => q.1 != x) ∧
    r'.flush.1.closed.filter (· != x) = r.flush.1.closed.filter (· != x) ∧
    r'.flush.1.panic = r.flush.1.panic := by
  rw [flush_eq r, flush_eq r']
  dsimp only
  have hq := h.queues
  have hcp := h.closedPeers
  have hrd : ∀ k, k ≠ x → reading r' k = reading r k := fun k hk => h.reading hk
  have hcc : ∀ k, k ≠ x → r'.closedPeers.contains k = r.closedPeers.contains k := by
    intro k hk
    rw [← contains_off r'.closedPeers hk, hcp, contains_off r.closedPeers hk]
  refine ⟨?_, ?_, ?_, h.panic⟩
  · refine EqOff.mk h.cfg h.broker h.ds h.clients h.ending h.testaments h.metaProcs h.metaS ?_ ?_ h.tasks h.retries
      h.deferred h.inbox h.ghosts h.now h.pubCount h.rnd h.panic
    · dsimp only
      rw [List.filter_append, List.filter_append]
      have e1 := filter_off_transfer (x := x) (fun q : SessKey × List Msg => q.1) hq
        (fun q => !reading r q.1) (fun q => !reading r' q.1) (fun q hk => by rw [hrd _ hk])
      have e2 := filter_off_transfer (x := x) (fun q : SessKey × List Msg => q.1) hq
        (fun q => reading r q.1 && !r.closedPeers.contains q.1)
        (fun q => reading r' q.1 && !r'.closedPeers.contains q.1) (fun q hk => by rw [hrd _ hk, hcc _ hk])
      have e3 : ∀ l : List (SessKey × List Msg),
          (l.map (fun q => (q.1, ([] : List Msg)))).filter (fun q => q.1 != x) =
            (l.filter (fun q => q.1 != x)).map (fun q => (q.1, ([] : List Msg))) := by
        intro l
        rw [List.filter_map]
        rfl
      rw [e3, e3, e1, e2]
    · dsimp only
      exact filter_off_transfer (x := x) (fun k : SessKey => k) hcp (fun k => !reading r k) (fun k => !reading r' k)
        (fun k hk => by rw [hrd _ hk])
  · exact filter_off_transfer (x := x) (fun q : SessKey × List Msg => q.1) hq
      (fun q => reading r q.1 && !q.2.isEmpty) (fun q => reading r' q.1 && !q.2.isEmpty)
      (fun q hk => by rw [hrd _ hk])
  · exact filter_off_transfer (x := x) (fun k : SessKey => k) hcp (reading r) (reading r')
      (fun k hk => hrd _ hk)

theorem idle_flush {r : Realm} (h : Idle x r) : Idle x r.flush.2 := by
  rw [flush_eq]
  exact ⟨h.refs, h.retries, h.tasks⟩

/-! ### one external input, run to quiescence and flushed -/

/-- ONE STEP.  In a state satisfying the realm invariant in which `x` takes no part in any RPC, any input
    that is not an RPC message sent by `x` itself: the successor states agree off `x`, every client other
    than `x` observes exactly the same (its messages completely and in order, the closure of its peer), the
    panic flag is the same — and the side conditions hold again. -/
theorem eqoff_step {r r' : Realm} (hx : x ≠ metaKey) (h : EqOff x r r') (hi : RealmInv r) (hid : Idle x r)
    (op : Op) (hop : OpFree x op) :
    EqOff x (r.step op).2 (r'.step op).2 ∧
    (r'.step op).1.out.filter (fun q => q.1 != x) = (r.step op).1.out.filter (fun q => q.1 != x) ∧
    (r'.step op).1.closed.filter (· != x) = (r.step op).1.closed.filter (· != x) ∧
    (r'.step op).1.panic = (r.step op).1.panic ∧
    RealmInv (r.step op).2 ∧ Idle x (r.step op).2 := by
  by_cases ht : ∃ ms, op = .tick ms
  · obtain ⟨ms, rfl⟩ := ht
    rw [step_tick, step_tick, h.now]
    obtain ⟨a, b, c⟩ := eqoff_advance hx 10000 (r.now + ms) h hi hid
    obtain ⟨f1, f2, f3, f4⟩ := eqoff_flush a
    exact ⟨f1, f2, f3, f4, (flush_inv b).1, idle_flush c⟩
  · have hnt : ∀ ms, op ≠ .tick ms := fun ms e => ht ⟨ms, e⟩
    rw [step_of_not_tick r op hnt, step_of_not_tick r' op hnt]
    obtain ⟨a, b, c⟩ := eqoff_drain hx taskFuel (eqoff_stepOp h hid.didle op hop) (stepOp_inv hi op).1
      (idle_stepOp hi.dinv hid op hop)
    obtain ⟨f1, f2, f3, f4⟩ := eqoff_flush a
    exact ⟨f1, f2, f3, f4, (flush_inv b).1, idle_flush c⟩

end Nexus.L2.WpC
