/-
  Work package C: EVENT ⇒ EFFECT BY THE END OF THE STEP, for the end of a session.

  An input that ends session `k` (lost transport, GOODBYE, protocol violation) only QUEUES the departure
  (`Task.leave`); `drain` runs it.  `drain_gone`: when the step is over (and no fuel marker was set) `k` is
  attached no more — by the `drain` induction principle (`drain_quiescent`) with the property
  "k's handler is not in the retry loop, and while k is attached it is marked as ending and a `leave k` is
  pending"; once no task is pending, k cannot be attached.
-/
import Nexus.L2.Proofs.WpCCtl

namespace Nexus.L2.WpC
open Nexus.L2 Nexus.L2.Realm Nexus.Gen.N

/-- a message that makes the handler of its sender exit: GOODBYE or a protocol violation -/
def endsSession : Msg → Bool
  | .goodbye .. => true
  | m => isViolation m

theorem endsSession_cases {m : Msg} (h : endsSession m = true) :
    (∃ d reason, m = .goodbye d reason) ∨ isViolation m = true := by
  cases m
  case goodbye d reason => exact Or.inl ⟨d, reason, rfl⟩
  all_goals exact Or.inr h

/-- the departure of `k` is under way -/
def Leaving (k : SessKey) (r : Realm) : Prop :=
  r.busy k = false ∧ (r.isClient k → k ∈ r.ending ∧ ∃ mode, Task.leave k mode ∈ r.tasks)

theorem taskAct_clients {r r' : Realm} (h : TaskAct r r') (j : SessKey) (hj : r'.isClient j) : r.isClient j := by
  cases h with
  | eff h => exact (h.isClient j).mp hj
  | invoke h => exact (h.isClient j).mp hj
  | defer k mode hk hb => exact hj
  | leave k mode s hk hf hb =>
    obtain ⟨_, _, _, _, _, _, _, c8, _, _⟩ := leave_ctl mode hf
    obtain ⟨c, hc, e⟩ := hj
    rw [c8] at hc
    exact ⟨c, (List.mem_filter.mp hc).1, e⟩
  | none => exact hj

/-- no internal task makes an ending (or departed) session's handler busy -/
theorem taskAct_busy {r r' : Realm} (hm : MetaSafe r) (h : TaskAct r r') {k : SessKey} (hkm : k ≠ metaKey)
    (hb : r.busy k = false) (hke : r.isClient k → k ∈ r.ending) : r'.busy k = false := by
  have key : ∀ xs : List Retry, (∀ x ∈ xs, ActQ r x) → (r.retries ++ xs).any (fun x => x.callee == k) = false := by
    intro xs hxs
    rw [List.any_append]
    have : xs.any (fun x => x.callee == k) = false := by
      rw [List.any_eq_false]
      intro x hx hxk
      have hxk' : x.callee = k := by simpa using hxk
      obtain ⟨_, _, _, h1 | h1⟩ := hxs x hx
      · have := hke (hxk' ▸ h1.1)
        rw [hxk'] at h1
        rw [List.contains_iff_mem.mpr this] at h1
        cases h1.2.1
      · exact hkm (hxk'.symm.trans h1.1)
    unfold busy at hb
    rw [hb, this]; rfl
  cases h with
  | eff h =>
    obtain ⟨xs, hxs, pxs⟩ := h.retries
    unfold busy; rw [hxs]; exact key xs pxs
  | invoke h => unfold busy; rw [h.retries]; exact hb
  | defer k' mode hk hb' => exact hb
  | leave k' mode s hk hf hb' =>
    obtain ⟨_, _, _, _, _, c6, _, _, _, _⟩ := leave_ctl mode hf
    unfold busy; rw [c6]; exact hb
  | none => exact hb

/-- tasks are only appended, `ending` only loses the session whose `leave` ran -/
theorem taskAct_keeps {r r' : Realm} (h : TaskAct r r') {k : SessKey} (hk : r'.isClient k) :
    (∀ t ∈ r.tasks, t ∈ r'.tasks) ∧ (k ∈ r.ending → k ∈ r'.ending) := by
  cases h with
  | eff h =>
    obtain ⟨e, he, _⟩ := h.ending
    obtain ⟨ts, hts, _⟩ := h.tasks
    exact ⟨fun t ht => by rw [hts]; exact List.mem_append_left _ ht, fun hk => by rw [he]; exact List.mem_append_left _ hk⟩
  | invoke h =>
    obtain ⟨e, he, _⟩ := h.ending
    obtain ⟨ts, rsp, hts, _, _⟩ := h.tasks
    exact ⟨fun t ht => by rw [hts]; exact List.mem_append_left _ (List.mem_append_left _ ht),
      fun hk => by rw [he]; exact List.mem_append_left _ hk⟩
  | defer k' mode _ _ => exact ⟨fun _ ht => ht, fun hk => hk⟩
  | leave k' mode s hk' hf hb =>
    obtain ⟨_, _, _, _, _, _, _, c8, c9, ts, hts, _⟩ := leave_ctl mode hf
    refine ⟨fun t ht => by rw [hts]; exact List.mem_append_left _ ht, fun hke => ?_⟩
    rw [c9]
    refine List.mem_filter.mpr ⟨hke, ?_⟩
    obtain ⟨c, hc, e⟩ := hk
    rw [c8] at hc
    have := (List.mem_filter.mp hc).2
    rw [e] at this
    exact this
  | none => exact ⟨fun _ ht => ht, fun hk => hk⟩

theorem leaving_step {k : SessKey} (hkm : k ≠ metaKey) (r : Realm) (t : Task) (ts : List Task)
    (ht : r.tasks = t :: ts) (hc : CtlInv r) (hl : Leaving k r) : Leaving k (runTask { r with tasks := ts } t) := by
  obtain ⟨hc0, hto⟩ := hc.tail ht
  have hact := runTask_act hc0.safe t hto
  have hb0 : ({ r with tasks := ts } : Realm).busy k = false := hl.1
  have hke : ({ r with tasks := ts } : Realm).isClient k → k ∈ ({ r with tasks := ts } : Realm).ending := fun h => (hl.2 h).1
  refine ⟨taskAct_busy hc0.safe hact hkm hb0 hke, ?_⟩
  intro hk'
  have hk0 : r.isClient k := taskAct_clients hact k hk'
  obtain ⟨hen, mode, hmem⟩ := hl.2 hk0
  rw [ht] at hmem
  rcases List.mem_cons.mp hmem with hmem | hmem
  · -- the head task is the departure of k itself: it runs, k is no client afterwards
    exfalso
    subst hmem
    rw [runTask_leave] at hk'
    rw [hb0] at hk'
    simp only [Bool.false_eq_true, if_false] at hk'
    obtain ⟨c, hcm, hck⟩ := hk0
    cases hf : ({ r with tasks := ts } : Realm).clients.find? (fun c => c.key == k) with
    | none =>
      have := List.find?_eq_none.mp hf c hcm
      simp [hck] at this
    | some s =>
      obtain ⟨_, _, _, _, _, _, _, c8, _, _⟩ := leave_ctl (r := ({ r with tasks := ts } : Realm)) mode hf
      obtain ⟨c', hc', e'⟩ := hk'
      rw [c8] at hc'
      have := (List.mem_filter.mp hc').2
      simp [e'] at this
  · obtain ⟨g1, g2⟩ := taskAct_keeps hact hk'
    exact ⟨g2 hen, mode, g1 _ hmem⟩

/-- THE `drain` PRINCIPLE APPLIED: a departure that is under way is complete when the step is over. -/
theorem drain_gone {k : SessKey} (hkm : k ≠ metaKey) (r : Realm) (hi : RealmInv r) (hc : CtlInv r) (hl : Leaving k r)
    (hp : (drain taskFuel r).panic = none) :
    ¬ (drain taskFuel r).isClient k ∧ (drain taskFuel r).tasks = [] ∧ RealmInv (drain taskFuel r) ∧
    CtlInv (drain taskFuel r) ∧ (drain taskFuel r).busy k = false := by
  obtain ⟨⟨g0, g1⟩, g2, _, g4⟩ := drain_quiescent (fun q => CtlInv q ∧ Leaving k q)
    (fun q t ts _ hqt hq => ⟨(hq.1.tail hqt).1.runTask t (hq.1.tail hqt).2, leaving_step hkm q t ts hqt hq.1 hq.2⟩)
    taskFuel r hi ⟨hc, hl⟩ hp
  refine ⟨?_, g2, g4, g0, g1.1⟩
  intro hk
  obtain ⟨_, mode, hmem⟩ := g1.2 hk
  rw [g2] at hmem
  cases hmem

/-- a session that is not attached is referenced nowhere -/
theorem gone_of_not_client {r : Realm} (hi : RealmInv r) (hc : CtlInv r) {k : SessKey} (hkm : k ≠ metaKey)
    (hk : ¬ r.isClient k) :
    Gone r k ∧ k ∉ r.ending ∧ (∀ d ∈ r.deferred, d.1 ≠ k) ∧ (∀ e ∈ r.inbox, e.1 ≠ k) ∧ (∀ x ∈ r.retries, x.callee ≠ k) ∧
    r.busy k = false := by
  have hretr : ∀ x ∈ r.retries, x.callee ≠ k := by
    intro x hx e
    rcases hi.retr x hx with h | h
    · exact hkm (e ▸ h)
    · exact hk (e ▸ h)
  have hbusy : r.busy k = false := by
    unfold busy
    rw [List.any_eq_false]
    intro x hx hxk
    exact hretr x hx (by simpa using hxk)
  refine ⟨⟨fun h => hk (hi.bmem k h), fun e he ek => hk (ek ▸ hi.bmem e.1 (hi.binv.index_mem he)), fun h => ?_⟩,
    fun h => hk (hc.ending k h), ?_, ?_, hretr, hbusy⟩
  · rcases hi.dref k h with h | h
    · exact hkm h
    · exact hk h
  · intro d hd e
    have := hc.defBusy d hd
    rw [e, hbusy] at this
    cases this
  · intro e he ek
    obtain ⟨⟨c, hcm, hck, _⟩, _⟩ := hi.inb e he
    exact hk ⟨c, hcm, hck.trans ek⟩

/-! ### the inputs that end a session -/

theorem stepOp_goodbye {r : Realm} {k : SessKey} {s : Session} (d : Dict) (reason : String)
    (hf : r.clients.find? (fun c => c.key == k) = some s) (he : r.ending.contains k = false) (hb : r.busy k = false)
    (hg : (authzGate r s (.goodbye d reason)).1 = true) :
    r.stepOp (.msg k (.goodbye d reason)) =
      { r.trySend ⟨k, .goodbye [] CloseGoodbyeAndOut⟩ with
        tasks := (r.trySend ⟨k, .goodbye [] CloseGoodbyeAndOut⟩).tasks ++ [.leave k .lost],
        ending := (r.trySend ⟨k, .goodbye [] CloseGoodbyeAndOut⟩).ending ++ [k] } := by
  have hk : s.key = k := (find?_key hf).2
  rw [stepOp_msg, recvMsg_eq, hf]
  simp only [he, hb, Bool.false_eq_true, if_false]
  rw [handleMsg_eq, hg, authzGate_true hg]
  simp only [if_true]
  rw [← hk]
  rfl

theorem stepOp_violation {r : Realm} {k : SessKey} {s : Session} (m : Msg)
    (hf : r.clients.find? (fun c => c.key == k) = some s) (hm : isViolation m = true)
    (he : r.ending.contains k = false) (hb : r.busy k = false) (hg : (authzGate r s m).1 = true) :
    ∃ text, r.stepOp (.msg k m) =
      { r with tasks := r.tasks ++ [.leave k (.violation text)], ending := r.ending ++ [k] } := by
  have hk : s.key = k := (find?_key hf).2
  rw [stepOp_msg, recvMsg_eq, hf]
  simp only [he, hb, Bool.false_eq_true, if_false]
  rw [handleMsg_eq, hg, authzGate_true hg]
  simp only [if_true]
  rw [← hk]
  cases m
  case error typ a b c d e =>
    refine ⟨"invalid ERROR", ?_⟩
    have : (typ != tINVOCATION) = true := hm
    show (if typ != tINVOCATION then _ else _) = _
    rw [if_pos this]
  all_goals first
    | exact ⟨"unexpected message", rfl⟩
    | cases hm

/-- the inputs that end session `k`: its transport is lost, or it sends GOODBYE or a protocol violation that
    the authorization gate lets through -/
def EndsInput (r : Realm) (k : SessKey) (op : Op) : Prop :=
  op = .drop k ∨ ∃ m s, op = .msg k m ∧ r.clients.find? (fun c => c.key == k) = some s ∧ endsSession m = true ∧
    (authzGate r s m).1 = true

theorem endsInput_leaving {r : Realm} {k : SessKey} {op : Op} (h : EndsInput r k op) (hk : r.isClient k)
    (hb : r.busy k = false) (he : k ∉ r.ending) : Leaving k (r.stepOp op) ∧ (∀ ms, op ≠ .tick ms) := by
  have hec : r.ending.contains k = false := by
    cases h' : r.ending.contains k
    · rfl
    · exact absurd (List.contains_iff_mem.mp h') he
  rcases h with rfl | ⟨m, s, rfl, hf, hm, hg⟩
  · refine ⟨?_, fun ms e => by cases e⟩
    rw [stepOp_drop_attached hk, hec]
    simp only [Bool.false_eq_true, if_false]
    exact ⟨hb, fun _ => ⟨List.mem_append_right _ (List.mem_singleton.mpr rfl), .lost,
      List.mem_append_right _ (List.mem_singleton.mpr rfl)⟩⟩
  · refine ⟨?_, fun ms e => by cases e⟩
    rcases endsSession_cases hm with ⟨d, reason, rfl⟩ | hv
    · rw [stepOp_goodbye d reason hf hec hb hg]
      refine ⟨?_, fun _ => ⟨List.mem_append_right _ (List.mem_singleton.mpr rfl), .lost,
        List.mem_append_right _ (List.mem_singleton.mpr rfl)⟩⟩
      show (r.trySend _).busy k = false
      unfold busy; rw [dtrySend_retries]; exact hb
    · obtain ⟨text, e⟩ := stepOp_violation _ hf hv hec hb hg
      rw [e]
      exact ⟨hb, fun _ => ⟨List.mem_append_right _ (List.mem_singleton.mpr rfl), .violation text,
        List.mem_append_right _ (List.mem_singleton.mpr rfl)⟩⟩

/-- EVENT ⇒ EFFECT: after the step of an input that ends `k` (from a state without pending tasks, `k`
    attached, not ending, its handler not in the retry loop; no fuel marker afterwards) `k` is not attached
    and is referenced nowhere. -/
theorem step_gone {r : Realm} (hi : RealmInv r) (hc : CtlInv r) {k : SessKey} (hk : r.isClient k)
    (hb : r.busy k = false) (he : k ∉ r.ending) {op : Op} (hop : EndsInput r k op)
    (hp : (r.step op).2.panic = none) :
    ¬ (r.step op).2.isClient k ∧ Gone (r.step op).2 k ∧ k ∉ (r.step op).2.ending ∧
    (∀ d ∈ (r.step op).2.deferred, d.1 ≠ k) ∧ (∀ e ∈ (r.step op).2.inbox, e.1 ≠ k) ∧
    (∀ x ∈ (r.step op).2.retries, x.callee ≠ k) ∧ (r.step op).2.tasks = [] ∧
    RealmInv (r.step op).2 ∧ CtlInv (r.step op).2 := by
  have hkm : k ≠ metaKey := hc.safe.client_ne hk
  obtain ⟨hl, hnt⟩ := endsInput_leaving hop hk hb he
  have hopc : OpC r op := by
    rcases hop with rfl | ⟨m, s, rfl, _⟩
    · exact hk
    · trivial
  obtain ⟨s1, s2⟩ := stepOp_inv hi op
  have hc1 := hc.stepOp op hopc
  rw [step_of_not_tick r op hnt] at hp ⊢
  rw [(flush_inv (drain_rinv taskFuel s1)).2.1] at hp
  obtain ⟨g1, g2, g3, g4, _⟩ := drain_gone hkm _ s1 hc1 hl hp
  have hi' := (flush_inv g3).1
  have hc' := g4.flush
  obtain ⟨f1, f2, f3, _⟩ := flush_ctl (drain taskFuel (r.stepOp op))
  have hk' : ¬ (drain taskFuel (r.stepOp op)).flush.2.isClient k := by
    unfold Realm.isClient; rw [f3]; exact g1
  obtain ⟨q1, q2, q3, q4, q5, _⟩ := gone_of_not_client hi' hc' hkm hk'
  exact ⟨hk', q1, q2, q3, q4, q5, by rw [f2]; exact g2, hi', hc'⟩

end Nexus.L2.WpC
