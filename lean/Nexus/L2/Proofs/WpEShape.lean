/-
  WP-E: the SCRIPT of a realm function.

  Every function of `Nexus.L2.Realm` that runs inside one atomic action (a handler, `leave`, a timer
  firing, a turn of the yield retry loop) does three kinds of things to the shared tables:

    * it lets the broker goroutine perform broker steps       (`Script.bsteps : List BStep`),
    * it lets the dealer goroutine perform dealer steps        (`Script.dsteps : List (DState × DOut)`),
    * it hands messages to `Realm.trySend`, in order           (`Script.offers : List Send`).

  For each such function the script is given here as an EXPLICIT function of the state the action
  starts in and of its arguments (`msgScript`, `leaveScript`, `timerScript`, `retryScript`, …), and the
  function is proved to be `Shaped` by it:

      r'.broker = r.broker.run sc.bsteps            (and the ids drawn: `WpA.Trace`)
      Run r.ds sc.dsteps r'.ds
      r'.queues = (r.deliver sc.offers).queues      (the queue table is changed by `trySend` only)
      r'.clients = r.clients

  Nothing here needs an invariant.
-/
import Nexus.L2.Proofs.WpARealm
import Nexus.L2.Proofs.WpBRealmSteps

namespace Nexus.L2.WpE
open Nexus.L2 Nexus.L2.Realm Gen.N
open Nexus.L2.WpA (Trace PubOk run_append)

/-! ### `deliver` looks at the session table and the queue table only -/

theorem setPanic_clients (r : Realm) (p : Option String) : (r.setPanic p).clients = r.clients :=
  (setPanic_frame r p).clients

theorem trySend_clients (r : Realm) (s : Send) : (r.trySend s).clients = r.clients := (trySend_frame r s).clients

theorem deliver_clients (ss : List Send) (r : Realm) : (r.deliver ss).clients = r.clients := (deliver_frame ss r).clients

theorem trySend_qcongr {a b : Realm} (hc : a.clients = b.clients) (hq : a.queues = b.queues) (s : Send) :
    (a.trySend s).queues = (b.trySend s).queues := by
  have hl : a.queueLen s.to = b.queueLen s.to := by unfold queueLen; rw [hq]
  unfold trySend
  split
  · split <;> exact hq
  · rw [hc]
    split
    · rw [setPanic_queues, setPanic_queues]; exact hq
    · rw [hl, hq]
      split
      · exact hq
      · split <;> rfl

theorem deliver_qcongr : ∀ (ss : List Send) {a b : Realm}, a.clients = b.clients → a.queues = b.queues →
    (a.deliver ss).queues = (b.deliver ss).queues
  | [], _, _, _, hq => hq
  | s :: ss, a, b, hc, hq => by
    rw [deliver_cons, deliver_cons]
    exact deliver_qcongr ss (by rw [trySend_clients, trySend_clients, hc]) (trySend_qcongr hc hq s)

/-! ### scripts -/

/-- what one atomic action hands to the broker goroutine, to the dealer goroutine and to `trySend` -/
structure Script where
  bsteps : List BStep := []
  dsteps : List (DState × DOut) := []
  offers : List Send := []

def Script.append (a b : Script) : Script :=
  { bsteps := a.bsteps ++ b.bsteps, dsteps := a.dsteps ++ b.dsteps, offers := a.offers ++ b.offers }

instance : Append Script := ⟨Script.append⟩

theorem Script.append_bsteps (a b : Script) : (a ++ b).bsteps = a.bsteps ++ b.bsteps := rfl
theorem Script.append_dsteps (a b : Script) : (a ++ b).dsteps = a.dsteps ++ b.dsteps := rfl
theorem Script.append_offers (a b : Script) : (a ++ b).offers = a.offers ++ b.offers := rfl

theorem Script.nil_append (a : Script) : (({} : Script) ++ a) = a := rfl

theorem Script.append_nil (a : Script) : (a ++ ({} : Script)) = a := by
  cases a
  show Script.append _ _ = _
  simp [Script.append]

/-- `r'` arises from `r` by the script `sc` (and changes of other fields) -/
structure Shaped (r : Realm) (sc : Script) (r' : Realm) : Prop where
  broker : r'.broker = r.broker.run sc.bsteps
  pubs : Trace r.pubCount sc.bsteps r'.pubCount
  dealer : Run r.ds sc.dsteps r'.ds
  queues : r'.queues = (r.deliver sc.offers).queues
  clients : r'.clients = r.clients

/-- nothing the scripts talk about changes -/
structure Still (r r' : Realm) : Prop where
  broker : r'.broker = r.broker
  pubCount : r'.pubCount = r.pubCount
  ds : r'.ds = r.ds
  queues : r'.queues = r.queues
  clients : r'.clients = r.clients

theorem Still.refl (r : Realm) : Still r r := ⟨rfl, rfl, rfl, rfl, rfl⟩

theorem Still.trans {a b c : Realm} (h1 : Still a b) (h2 : Still b c) : Still a c :=
  ⟨h2.broker.trans h1.broker, h2.pubCount.trans h1.pubCount, h2.ds.trans h1.ds, h2.queues.trans h1.queues,
   h2.clients.trans h1.clients⟩

theorem Still.shaped {r r' : Realm} (h : Still r r') : Shaped r {} r' :=
  ⟨h.broker, by rw [h.pubCount]; exact Nat.le_refl _, by rw [h.ds]; exact .nil _, h.queues, h.clients⟩

theorem Shaped.refl (r : Realm) : Shaped r {} r := (Still.refl r).shaped

theorem Shaped.trans {a b c : Realm} {s1 s2 : Script} (h1 : Shaped a s1 b) (h2 : Shaped b s2 c) :
    Shaped a (s1 ++ s2) c := by
  refine ⟨?_, ?_, ?_, ?_, h2.clients.trans h1.clients⟩
  · rw [h2.broker, h1.broker, Script.append_bsteps, run_append]
  · exact h1.pubs.append h2.pubs
  · exact WpB.Run.append h1.dealer h2.dealer
  · rw [h2.queues, Script.append_offers, deliver_append]
    exact deliver_qcongr _ (by rw [h1.clients, deliver_clients]) h1.queues

theorem Shaped.still_right {a b c : Realm} {s : Script} (h1 : Shaped a s b) (h2 : Still b c) : Shaped a s c := by
  have := h1.trans h2.shaped
  rwa [Script.append_nil] at this

theorem Shaped.still_left {a b c : Realm} {s : Script} (h1 : Still a b) (h2 : Shaped b s c) : Shaped a s c :=
  h1.shaped.trans h2

theorem still_frame {r r' : Realm} (h : SendFrame r r') (hq : r'.queues = r.queues) : Still r r' :=
  ⟨h.broker, h.pubCount, h.ds, hq, h.clients⟩

theorem still_setPanic (r : Realm) (p : Option String) : Still r (r.setPanic p) :=
  still_frame (setPanic_frame r p) (setPanic_queues r p)

/-! ### primitives -/

theorem shaped_deliver (r : Realm) (ss : List Send) : Shaped r { offers := ss } (r.deliver ss) :=
  let f := deliver_frame ss r
  ⟨f.broker, by rw [f.pubCount]; exact Nat.le_refl _, by rw [f.ds]; exact .nil _, rfl, f.clients⟩

theorem shaped_trySend (r : Realm) (s : Send) : Shaped r { offers := [s] } (r.trySend s) := shaped_deliver r [s]

/-- the result of a dealer action is applied -/
theorem shaped_applyD (r : Realm) (o : DOut) (st : DStep r.ds o) :
    Shaped r { dsteps := [(r.ds, o)], offers := o.sends } (r.applyD o) := by
  rw [applyD_eq]
  refine Shaped.still_right ?_ (still_setPanic _ _)
  let r1 : Realm := { r with ds := o.st }
  have f := deliver_frame o.sends r1
  refine ⟨f.broker, ?_, ?_, ?_, f.clients⟩
  · show Trace r.pubCount [] (r1.deliver o.sends).pubCount
    rw [f.pubCount]; exact Nat.le_refl _
  · show Run r.ds [(r.ds, o)] (r1.deliver o.sends).ds
    rw [f.ds]; exact .cons st (.nil _)
  · show (r1.deliver o.sends).queues = (r.deliver o.sends).queues
    exact deliver_qcongr _ rfl rfl

/-- one broker step that is not a publication, drawing `n` ids, then its sends -/
theorem shaped_brokerStep (r : Realm) (e : BStep) (n : Nat) (ss : List Send)
    (hne : ∀ sess now p, e ≠ .publish sess now p) :
    Shaped r { bsteps := [e], offers := ss }
      (({ r with pubCount := r.pubCount + n, broker := r.broker.step e } : Realm).deliver ss) := by
  let r1 : Realm := { r with pubCount := r.pubCount + n, broker := r.broker.step e }
  have f := deliver_frame ss r1
  refine ⟨f.broker, ?_, ?_, deliver_qcongr _ rfl rfl, f.clients⟩
  · show Trace r.pubCount [e] (r1.deliver ss).pubCount
    rw [f.pubCount]
    cases e with
    | publish sess now p => exact absurd rfl (hne sess now p)
    | subscribe k req topic m pub0 => exact Nat.le_add_right _ _
    | unsubscribe k req subId pub0 => exact Nat.le_add_right _ _
    | removeSession k pub0 => exact Nat.le_add_right _ _
  · show Run r.ds [] (r1.deliver ss).ds
    rw [f.ds]; exact .nil _

/-! ### the authorization gate -/

/-- the error reply the gate queues for a refused message -/
def gateOffers (r : Realm) (s : Session) (m : Msg) : List Send :=
  match r.cfg.authz.map authzDecision with
  | none => []
  | some f =>
    if exempt r.cfg.localAuthz s then []
    else if allows (f s.key m) then []
    else match denialReply (f s.key m) m with
      | none => []
      | some e => [⟨s.key, e⟩]

theorem authzGate_deliver (r : Realm) (s : Session) (m : Msg) :
    (authzGate r s m).2 = r.deliver (gateOffers r s m) ∧
    ((authzGate r s m).1 = true → gateOffers r s m = []) := by
  rw [authzGate_eq_gateG]
  unfold gateG gateOffers
  cases r.cfg.authz.map authzDecision with
  | none => exact ⟨rfl, fun _ => rfl⟩
  | some f =>
    dsimp only
    split
    · exact ⟨rfl, fun _ => rfl⟩
    · split
      · exact ⟨rfl, fun _ => rfl⟩
      · cases denialReply (f s.key m) m with
        | none => exact ⟨rfl, fun h => by cases h⟩
        | some e => exact ⟨rfl, fun h => by cases h⟩

theorem gateOffers_none {r : Realm} (h : r.cfg.authz = none) (s : Session) (m : Msg) : gateOffers r s m = [] := by
  unfold gateOffers; rw [h]; rfl

theorem authzGate_none {r : Realm} (h : r.cfg.authz = none) (s : Session) (m : Msg) : authzGate r s m = (true, r) := by
  unfold authzGate; rw [h]

/-! ### PUBLISH / SUBSCRIBE / UNSUBSCRIBE -/

/-- the PUBLISH passes `broker.publish`: valid topic, no payload passthru without the feature, no
    disallowed `disclose_me` -/
def pubAccepted (r : Realm) (s : Session) (opts : Dict) (topic : String) : Bool :=
  validUri r.broker.strict "" topic && !pptRefused s opts && !discloseRefused r opts

def publishScript (r : Realm) (s : Session) (req : Nat) (opts : Dict) (topic : String) (args : List WVal)
    (kw : Dict) : Script :=
  if pubAccepted r s opts topic then
    { bsteps := [.publish r.session? r.now (pubOf r s opts topic args kw)],
      offers := (r.broker.syncPublish r.session? r.now (pubOf r s opts topic args kw)).2 ++
        ackList opts ⟨s.key, .published req (pubBase + r.pubCount)⟩ }
  else if !validUri r.broker.strict "" topic then { offers := ackList opts ⟨s.key, invalidUriErr tPUBLISH req⟩ }
  else if pptRefused s opts then { offers := [⟨s.key, abortMsg "<text>"⟩] }
  else { offers := ackList opts ⟨s.key, errMsg tPUBLISH req ErrOptionDisallowedDiscloseMe⟩ }

theorem shaped_handlePublish (r : Realm) (s : Session) (req : Nat) (opts : Dict) (topic : String)
    (args : List WVal) (kw : Dict) :
    Shaped r (publishScript r s req opts topic args kw) (handlePublish r s req opts topic args kw) := by
  unfold publishScript pubAccepted
  by_cases hv : validUri r.broker.strict "" topic = true
  · by_cases hp : pptRefused s opts = true
    · rw [handlePublish_ppt r s req opts topic args kw hv hp]
      simp only [hv, hp, Bool.not_true, Bool.and_false, Bool.false_and, Bool.false_eq_true, if_false, if_true]
      exact (shaped_trySend r _).still_right ⟨rfl, rfl, rfl, rfl, rfl⟩
    · have hp' : pptRefused s opts = false := by simpa using hp
      by_cases hd : discloseRefused r opts = true
      · rw [handlePublish_refused r s req opts topic args kw hv hp' hd]
        simp only [hv, hp', hd, Bool.not_true, Bool.not_false, Bool.and_false, Bool.and_true, Bool.false_eq_true,
          if_false]
        exact shaped_deliver r _
      · have hd' : discloseRefused r opts = false := by simpa using hd
        rw [handlePublish_ok r s req opts topic args kw hv hp' hd']
        simp only [hv, hp', hd', Bool.not_false, Bool.and_true, if_true]
        let r1 : Realm := { r with pubCount := r.pubCount + 1,
                                   broker := (r.broker.syncPublish r.session? r.now (pubOf r s opts topic args kw)).1 }
        have f := deliver_frame ((r.broker.syncPublish r.session? r.now (pubOf r s opts topic args kw)).2 ++
          ackList opts ⟨s.key, .published req (pubBase + r.pubCount)⟩) r1
        refine ⟨f.broker, ?_, ?_, deliver_qcongr _ rfl rfl, f.clients⟩
        · show Trace r.pubCount [.publish r.session? r.now (pubOf r s opts topic args kw)] (r1.deliver _).pubCount
          rw [f.pubCount]
          refine ⟨r.pubCount, Nat.le_refl _, rfl, ?_, Nat.le_refl _⟩
          intro key hk
          exact realm_base_ok opts (pptScheme opts != "") key hk
        · show Run r.ds [] (r1.deliver _).ds
          rw [f.ds]; exact .nil _
  · have hv' : validUri r.broker.strict "" topic = false := by simpa using hv
    rw [handlePublish_invalid r s req opts topic args kw hv']
    simp only [hv', Bool.false_and, Bool.false_eq_true, if_false, Bool.not_false, if_true]
    exact shaped_deliver r _

def subscribeScript (r : Realm) (s : Session) (req : Nat) (opts : Dict) (topic : String) : Script :=
  if validUri r.broker.strict (opts.optString OptMatch) topic then
    { bsteps := [.subscribe s.key req topic (opts.optString OptMatch) r.pubCount],
      offers := (r.broker.syncSubscribe s.key req topic (opts.optString OptMatch) r.pubCount).2.1 }
  else { offers := [⟨s.key, invalidUriErr tSUBSCRIBE req⟩] }

theorem shaped_handleSubscribe (r : Realm) (s : Session) (req : Nat) (opts : Dict) (topic : String) :
    Shaped r (subscribeScript r s req opts topic) (handleSubscribe r s req opts topic) := by
  unfold subscribeScript
  by_cases hv : validUri r.broker.strict (opts.optString OptMatch) topic = true
  · rw [handleSubscribe_ok r s req opts topic hv, if_pos hv]
    exact shaped_brokerStep r (.subscribe s.key req topic (opts.optString OptMatch) r.pubCount) _ _ (by intros; simp)
  · have hv' : validUri r.broker.strict (opts.optString OptMatch) topic = false := by simpa using hv
    rw [handleSubscribe_invalid r s req opts topic hv', if_neg hv]
    exact shaped_deliver r _

def unsubscribeScript (r : Realm) (s : Session) (req sub : Nat) : Script :=
  { bsteps := [.unsubscribe s.key req sub r.pubCount],
    offers := (r.broker.syncUnsubscribe s.key req sub r.pubCount).2.1 }

theorem shaped_handleUnsubscribe (r : Realm) (s : Session) (req sub : Nat) :
    Shaped r (unsubscribeScript r s req sub) (handleUnsubscribe r s req sub) := by
  rw [handleUnsubscribe_eq]
  exact shaped_brokerStep r (.unsubscribe s.key req sub r.pubCount) _ _ (by intros; simp)

/-! ### the RPC handlers -/

/-- the script of `r.applyD o` -/
def dealerScript (r : Realm) (o : DOut) : Script := { dsteps := [(r.ds, o)], offers := o.sends }

/-- what `dealer.register` answers itself (none: the REGISTER goes to the dealer goroutine) -/
def registerRefusal (r : Realm) (s : Session) (req : Nat) (opts : Dict) (proc : String) : Option Msg :=
  if !validUri r.ds.d.strict (opts.optString OptMatch) proc then some (invalidUriErr tREGISTER req)
  else if proc.startsWith "wamp." && s.key != metaKey then some (invalidUriErr tREGISTER req)
  else if !r.ds.d.allowDisclose && opts.optFlag OptDiscloseCaller && sessAttr s.details "authrole" != "trusted" then
    some (errMsg tREGISTER req ErrOptionDisallowedDiscloseMe)
  else if !(knownPolicies.contains (opts.optString OptInvoke)) then
    some (.error tREGISTER req [] ErrInvalidArgument [.str "<text>"] [])
  else none

def registerOut (r : Realm) (s : Session) (req : Nat) (opts : Dict) (proc : String) : DOut :=
  syncRegister r.ds s.key req proc (opts.optString OptMatch) (opts.optString OptInvoke)
    (opts.optFlag OptDiscloseCaller) (opts.optFlag OptForwardTimeout) (proc.startsWith "wamp.")

def registerScript (r : Realm) (s : Session) (req : Nat) (opts : Dict) (proc : String) : Script :=
  match registerRefusal r s req opts proc with
  | some e => { offers := [⟨s.key, e⟩] }
  | none => dealerScript r (registerOut r s req opts proc)

theorem shaped_handleRegister (r : Realm) (s : Session) (req : Nat) (opts : Dict) (proc : String) :
    Shaped r (registerScript r s req opts proc) (handleRegister r s req opts proc) := by
  unfold registerScript registerRefusal handleRegister
  dsimp only
  by_cases h1 : (!validUri r.ds.d.strict (opts.optString OptMatch) proc) = true
  · simp only [h1, if_true]; exact shaped_trySend r _
  · by_cases h2 : (proc.startsWith "wamp." && s.key != metaKey) = true
    · simp only [h1, h2, if_true]; exact shaped_trySend r _
    · by_cases h3 : (!r.ds.d.allowDisclose && opts.optFlag OptDiscloseCaller &&
          sessAttr s.details "authrole" != "trusted") = true
      · simp only [h1, h2, h3, if_true]; exact shaped_trySend r _
      · by_cases h4 : (!knownPolicies.contains (opts.optString OptInvoke)) = true
        · simp only [h1, h2, h3, h4, if_true]; exact shaped_trySend r _
        · simp only [h1, h2, h3, h4]
          exact shaped_applyD r _ (.register _ _ _ _ _ _ _ _ (knownPolicies_contains h4))

def cancelMode (opts : Dict) : String :=
  if opts.optString OptMode == "" then CancelModeKillNoWait else opts.optString OptMode

def cancelModeOk (opts : Dict) : Bool :=
  cancelMode opts == CancelModeKillNoWait || cancelMode opts == CancelModeKill || cancelMode opts == CancelModeSkip

def cancelScript (r : Realm) (s : Session) (req : Nat) (opts : Dict) : Script :=
  if cancelModeOk opts then dealerScript r (syncCancel r.denv r.ds s.key req (cancelMode opts) ErrCanceled [])
  else { offers := [⟨s.key, .error tCANCEL req [] ErrInvalidArgument [.str "<text>"] []⟩] }

theorem shaped_handleCancel (r : Realm) (s : Session) (req : Nat) (opts : Dict) :
    Shaped r (cancelScript r s req opts) (handleCancel r s req opts) := by
  have e : handleCancel r s req opts =
      if cancelModeOk opts then r.applyD (syncCancel r.denv r.ds s.key req (cancelMode opts) ErrCanceled [])
      else r.trySend ⟨s.key, .error tCANCEL req [] ErrInvalidArgument [.str "<text>"] []⟩ := rfl
  rw [e]
  unfold cancelScript
  split
  · exact shaped_applyD r _ (.cancel ..)
  · exact shaped_trySend r _

def yieldOut (r : Realm) (s : Session) (req : Nat) (opts : Dict) (args : List WVal) (kw : Dict) : DOut :=
  syncYield r.denv r.ds s.key req opts args kw (opts.optFlag OptProgress) true

theorem shaped_handleYield (r : Realm) (s : Session) (req : Nat) (opts : Dict) (args : List WVal) (kw : Dict) :
    Shaped r (dealerScript r (yieldOut r s req opts args kw)) (handleYield r s req opts args kw) := by
  unfold handleYield
  dsimp only
  have h := shaped_applyD r (yieldOut r s req opts args kw) (.yield ..)
  split
  · exact h.still_right ⟨rfl, rfl, rfl, rfl, rfl⟩
  · exact h

/-! ### the message switch -/

/-- the script of `dispatch r s m` -/
def dispatchScript (r : Realm) (s : Session) : Msg → Script
  | .publish req opts topic args kw => publishScript r s req opts topic args kw
  | .yield req opts args kw => dealerScript r (yieldOut r s req opts args kw)
  | .call req opts proc args kw => dealerScript r (syncCall r.denv r.ds s.key req opts proc args kw r.rnd)
  | .cancel req opts => cancelScript r s req opts
  | .subscribe req opts topic => subscribeScript r s req opts topic
  | .register req opts proc => registerScript r s req opts proc
  | .unsubscribe req sub => unsubscribeScript r s req sub
  | .unregister req reg => dealerScript r (syncUnregister r.ds s.key req reg)
  | .error typ req details err args kw =>
    if typ != tINVOCATION then {} else dealerScript r (syncError r.ds s.key req details err args kw)
  | .goodbye _ _ => { offers := [⟨s.key, .goodbye [] CloseGoodbyeAndOut⟩] }
  | _ => {}

theorem shaped_dispatch (r : Realm) (s : Session) (m : Msg) :
    Shaped r (dispatchScript r s m) (Realm.dispatch r s m) := by
  cases m
  case publish => exact shaped_handlePublish ..
  case yield => exact shaped_handleYield ..
  case call => exact shaped_applyD r _ (.call ..)
  case cancel => exact shaped_handleCancel ..
  case subscribe => exact shaped_handleSubscribe ..
  case register => exact shaped_handleRegister ..
  case unsubscribe => exact shaped_handleUnsubscribe ..
  case unregister => exact shaped_applyD r _ (.unregister ..)
  case error typ req details err args kw =>
    show Shaped r (if typ != tINVOCATION then {} else dealerScript r (syncError r.ds s.key req details err args kw))
      (if typ != tINVOCATION then _ else handleError r s req details err args kw)
    split
    · exact Still.shaped ⟨rfl, rfl, rfl, rfl, rfl⟩
    · exact shaped_applyD r _ (.error ..)
  case goodbye =>
    exact (shaped_trySend r ⟨s.key, .goodbye [] CloseGoodbyeAndOut⟩).still_right ⟨rfl, rfl, rfl, rfl, rfl⟩
  all_goals exact Still.shaped ⟨rfl, rfl, rfl, rfl, rfl⟩

/-- the script of `handleMsg r s m`: the handler of session `s` reads `m` -/
def msgScript (r : Realm) (s : Session) (m : Msg) : Script :=
  if (authzGate r s m).1 then dispatchScript r s m else { offers := gateOffers r s m }

theorem shaped_handleMsg (r : Realm) (s : Session) (m : Msg) : Shaped r (msgScript r s m) (handleMsg r s m) := by
  rw [handleMsg_eq]
  unfold msgScript
  split
  · rename_i h
    rw [WpA.authzGate_pass r s m h]
    exact shaped_dispatch r s m
  · rw [(authzGate_deliver r s m).1]
    exact shaped_deliver r _

/-- the script of `recvMsg r k m` -/
def recvScript (r : Realm) (k : SessKey) (m : Msg) : Script :=
  match r.clients.find? (fun c => c.key == k) with
  | none => {}
  | some s => if r.ending.contains k then {} else if r.busy k then {} else msgScript r s m

theorem shaped_recvMsg (r : Realm) (k : SessKey) (m : Msg) : Shaped r (recvScript r k m) (r.recvMsg k m) := by
  rw [recvMsg_eq]
  unfold recvScript
  cases r.clients.find? (fun c => c.key == k) with
  | none => exact Shaped.refl r
  | some s =>
    dsimp only
    split
    · exact Shaped.refl r
    · split
      · split
        · exact Still.shaped ⟨rfl, rfl, rfl, rfl, rfl⟩
        · exact Shaped.refl r
      · exact shaped_handleMsg ..

/-! ### session end -/

/-- what the handler sends last -/
def leaveOffer (k : SessKey) : LeaveMode → List Send
  | .killed g _ => [⟨k, g⟩]
  | .violation _ => [⟨k, abortMsg "<text>"⟩]
  | .shutdown => [⟨k, .goodbye [] CloseSystemShutdown⟩]
  | _ => []

/-- the script of `r.leave k mode`: the dealer and the broker forget the session; unless the router
    shuts down, the dealer's replies and the broker's meta events are delivered -/
def leaveScript (r : Realm) (k : SessKey) (mode : LeaveMode) : Script :=
  match r.clients.find? (fun c => c.key == k) with
  | none => {}
  | some _ =>
    { bsteps := [.removeSession k r.pubCount],
      dsteps := [(r.ds, syncRemoveSession (leaveSend r k mode).denv r.ds k)],
      offers := leaveOffer k mode ++
        (if mode.isShutdown then []
         else (syncRemoveSession (leaveSend r k mode).denv r.ds k).sends ++
              (r.broker.syncRemoveSession k r.pubCount).2.1) }

theorem shaped_leaveSend (r : Realm) (k : SessKey) (mode : LeaveMode) :
    Shaped r { offers := leaveOffer k mode } (leaveSend r k mode) := by
  cases mode <;> first | exact shaped_trySend _ _ | exact Shaped.refl _

theorem still_takeTestaments (r : Realm) (k : SessKey) : Still r (r.takeTestaments k).2 := by
  unfold takeTestaments
  split <;> exact ⟨rfl, rfl, rfl, rfl, rfl⟩

theorem shaped_leaveRemove (r : Realm) (k : SessKey) (quiet : Bool) :
    Shaped r { bsteps := [.removeSession k r.pubCount],
               dsteps := [(r.ds, syncRemoveSession r.denv r.ds k)],
               offers := if quiet then [] else (syncRemoveSession r.denv r.ds k).sends ++
                 (r.broker.syncRemoveSession k r.pubCount).2.1 } (leaveRemove r k quiet) := by
  unfold leaveRemove
  split
  · extract_lets o
    split
    rename_i b x1 x2 heq
    have eb : b = (r.broker.syncRemoveSession k r.pubCount).1 := by rw [heq]
    subst eb
    refine Shaped.still_right ?_ (still_setPanic _ _)
    exact ⟨rfl, Nat.le_refl _, .cons (.removeSession r.denv k) (.nil _), rfl, rfl⟩
  · extract_lets o ra
    have ha : Shaped r (dealerScript r o) ra := shaped_applyD r o (.removeSession r.denv k)
    split
    rename_i b sends n heq
    have hb : ra.broker = r.broker := applyD_broker r o
    have hp : ra.pubCount = r.pubCount := by
      have := ha.pubs
      have f : ra.pubCount = r.pubCount := by
        show (r.applyD o).pubCount = r.pubCount
        rw [applyD_eq]
        exact ((setPanic_frame _ _).pubCount).trans ((deliver_frame o.sends ({ r with ds := o.st } : Realm)).pubCount)
      exact f
    have eb : b = (r.broker.syncRemoveSession k r.pubCount).1 := by rw [← hb, ← hp, heq]
    have es : sends = (r.broker.syncRemoveSession k r.pubCount).2.1 := by rw [← hb, ← hp, heq]
    have en : n = (r.broker.syncRemoveSession k r.pubCount).2.2 := by rw [← hb, ← hp, heq]
    subst eb es en
    have h2 := shaped_brokerStep ra (.removeSession k r.pubCount) (r.broker.syncRemoveSession k r.pubCount).2.2
      (r.broker.syncRemoveSession k r.pubCount).2.1 (by intros; simp)
    have e2 : (({ ra with pubCount := ra.pubCount + (r.broker.syncRemoveSession k r.pubCount).2.2,
                          broker := ra.broker.step (.removeSession k r.pubCount) } : Realm)) =
        ({ ra with broker := (r.broker.syncRemoveSession k r.pubCount).1,
                   pubCount := ra.pubCount + (r.broker.syncRemoveSession k r.pubCount).2.2 } : Realm) := by
      show ({ ra with pubCount := _, broker := (ra.broker.syncRemoveSession k r.pubCount).1 } : Realm) = _
      rw [hb]
    rw [e2] at h2
    exact ha.trans h2

theorem still_leaveAnnounce (r : Realm) (s : Session) (tst : Option TBucket) (silent : Bool) :
    Still r (leaveAnnounce r s tst silent) := by
  unfold leaveAnnounce
  split
  · exact Still.refl _
  · exact ⟨rfl, rfl, rfl, rfl, rfl⟩

end Nexus.L2.WpE
