/-
  Characterisation lemmas for `Nexus.L2.Realm` shared by the realm/router proofs
  (C05, C10, C11, C18): the stages of `Realm.leave`, the shapes of the state a meta
  procedure can return.  Nothing here changes the model: every `*_eq` lemma is `rfl`
  or a case split.
-/
import Nexus.L2.Realm

namespace Nexus.L2
open Gen.N

def LeaveMode.isShutdown : LeaveMode → Bool
  | .shutdown => true
  | _ => false

namespace Realm

theorem find?_key {l : List Session} {k : SessKey} {c : Session}
    (h : l.find? (fun c => c.key == k) = some c) : c ∈ l ∧ c.key = k :=
  ⟨List.mem_of_find?_eq_some h, by simpa using List.find?_some h⟩

/-! ### `setPanic` touches the panic flag only (shared by the queue, leave and isolation proofs) -/

theorem setPanic_queues (r : Realm) (p : Option String) : (r.setPanic p).queues = r.queues := by
  unfold setPanic; split <;> rfl

theorem setPanic_tasks (r : Realm) (p : Option String) : (r.setPanic p).tasks = r.tasks := by
  unfold setPanic; split <;> rfl

/-! ### the stages of `Realm.leave` -/

/-- what the handler sends last -/
def leaveSend (r : Realm) (k : SessKey) : LeaveMode → Realm
  | .killed g _ => r.trySend ⟨k, g⟩
  | .violation _ => r.trySend ⟨k, abortMsg "<text>"⟩
  | .shutdown => r.trySend ⟨k, .goodbye [] CloseSystemShutdown⟩
  | _ => r

/-- `onLeave`: dealer and broker forget the session (quietly for a shutdown) -/
def leaveRemove (r : Realm) (k : SessKey) (quiet : Bool) : Realm :=
  if quiet then
    let o := syncRemoveSession r.denv r.ds k
    let (b, _, _) := r.broker.syncRemoveSession k r.pubCount
    { r with ds := o.st, broker := b }.setPanic o.panic
  else
    let o := syncRemoveSession r.denv r.ds k
    let r := r.applyD o
    let (b, sends, n) := r.broker.syncRemoveSession k r.pubCount
    { r with broker := b, pubCount := r.pubCount + n }.deliver sends

def testamentTasks (tst : Option TBucket) : List Task :=
  match tst with
  | some b => (b.detached ++ b.destroyed).map (fun t => Task.metaPub (testamentPub t))
  | none => []

def onLeavePub (s : Session) : MetaPub :=
  { topic := MetaEventSessionOnLeave,
    args := [sidVal s.key, detailOr s.details "authid", detailOr s.details "authrole"] }

/-- testaments (detached, then destroyed) and `on_leave` are handed to the meta session -/
def leaveAnnounce (r : Realm) (s : Session) (tst : Option TBucket) (silent : Bool) : Realm :=
  if silent then r else r.addTasks (testamentTasks tst ++ [.metaPub (onLeavePub s)])

/-- `sess.Close()` -/
def leaveClose (r : Realm) (s : Session) : Realm :=
  { r with clients := r.clients.filter (fun c => c.key != s.key), ending := r.ending.filter (· != s.key),
           closedPeers := r.closedPeers ++ [s.key],
           ghosts := if s.stalled then r.ghosts ++ [s.key] else r.ghosts }

theorem leave_none {r : Realm} {k : SessKey} (mode : LeaveMode)
    (h : r.clients.find? (fun c => c.key == k) = none) : r.leave k mode = r := by
  unfold Realm.leave; rw [h]

theorem leave_some {r : Realm} {k : SessKey} {s : Session} (mode : LeaveMode)
    (h : r.clients.find? (fun c => c.key == k) = some s) :
    r.leave k mode =
      leaveClose (leaveAnnounce (leaveRemove ((leaveSend r k mode).takeTestaments k).2 k mode.isShutdown) s
        ((leaveSend r k mode).takeTestaments k).1 mode.isShutdown) s := by
  have hk : s.key = k := (find?_key h).2
  subst hk
  unfold Realm.leave
  split
  · rename_i h'; rw [h] at h'; cases h'
  · rename_i c hc
    rw [h] at hc; cases hc
    extract_lets r1 isSh ka
    split
    rename_i tst r2 htt
    extract_lets o ra r3 ts r4
    have e1 : r1 = leaveSend r s.key mode := by cases mode <;> rfl
    have eS : isSh = mode.isShutdown := by cases mode <;> rfl
    have e3 : r3 = leaveRemove r2 s.key isSh := rfl
    have e4 : r4 = leaveAnnounce r3 s tst isSh := rfl
    show leaveClose r4 s = _
    have htt' : (leaveSend r s.key mode).takeTestaments s.key = (tst, r2) := e1 ▸ htt
    rw [e4, e3, eS, htt']

/-! ### equations of `runTask`, `stepOp`, `drain`, `advance` -/

theorem runTask_metaPub (r : Realm) (p : MetaPub) : r.runTask (.metaPub p) = r.metaPublish p := rfl

theorem runTask_metaInvoke (r : Realm) (req reg : Nat) (details : Dict) (args : List WVal) (kw : Dict) :
    r.runTask (.metaInvoke req reg details args kw) =
      match r.metaProcs.find? (fun p => p.1 == reg) with
      | none => r.addTasks [.metaMsg (mErr req ErrNoSuchProcedure)]
      | some (_, proc) => (metaProc r proc req details args kw).2.addTasks [.metaMsg (metaProc r proc req details args kw).1] := by
  show (match r.metaProcs.find? (fun p => p.1 == reg) with
      | none => r.addTasks [.metaMsg (mErr req ErrNoSuchProcedure)]
      | some (_, proc) =>
        let (rsp, r) := metaProc r proc req details args kw
        r.addTasks [.metaMsg rsp]) = _
  split <;> rfl

theorem runTask_metaMsg (r : Realm) (m : Msg) : r.runTask (.metaMsg m) = handleMsg r r.metaS m := rfl

theorem runTask_leave (r : Realm) (k : SessKey) (mode : LeaveMode) :
    r.runTask (.leave k mode) =
      if r.busy k then { r with deferred := r.deferred ++ [(k, mode)] } else r.leave k mode := rfl

theorem drain_zero (r : Realm) :
    drain 0 r = if r.tasks.isEmpty then r else r.setPanic (some "model: task fuel exhausted") := rfl

theorem drain_succ_nil (fuel : Nat) (r : Realm) (h : r.tasks = []) : drain (fuel + 1) r = r := by
  unfold drain; rw [h]

theorem drain_succ_cons (fuel : Nat) (r : Realm) (t : Task) (ts : List Task) (h : r.tasks = t :: ts) :
    drain (fuel + 1) r = drain fuel (runTask { r with tasks := ts } t) := by
  rw [drain]; simp only [h]

/-- session ids are drawn by the router: a `join` under the meta session's key, or under the key of an
    attached client, cannot occur and is a no-op of the model -/
theorem stepOp_join (r : Realm) (k : SessKey) (isLocal : Bool) (details : Dict) (roles : Roles) (cap : Nat) :
    r.stepOp (.join k isLocal details roles cap) =
      if k == metaKey || r.clients.any (fun c => c.key == k) then r else
      ({ r with clients := r.clients ++ [{ key := k, details := details, roles := roles, isLocal := isLocal, cap := cap }],
                queues := r.queues ++ [(k, [])] } : Realm).addTasks
        [.metaPub { topic := MetaEventSessionOnJoin, args := [.dict (r.cleanDetails details)] }] := rfl

/-- the guard of `join`, as a proposition: the key is not the meta session's and no client has it -/
theorem join_guard_false {r : Realm} {k : SessKey}
    (h : ¬(k == metaKey || r.clients.any (fun c => c.key == k)) = true) :
    k ≠ metaKey ∧ ∀ c ∈ r.clients, c.key ≠ k := by
  simp only [Bool.or_eq_true, beq_iff_eq, List.any_eq_true, not_or, not_exists, not_and] at h
  exact ⟨h.1, fun c hc => h.2 c hc⟩

theorem stepOp_join_noop {r : Realm} {k : SessKey} (isLocal : Bool) (details : Dict) (roles : Roles) (cap : Nat)
    (h : (k == metaKey || r.clients.any (fun c => c.key == k)) = true) :
    r.stepOp (.join k isLocal details roles cap) = r := by
  rw [stepOp_join, if_pos h]

theorem stepOp_join_fresh {r : Realm} {k : SessKey} (isLocal : Bool) (details : Dict) (roles : Roles) (cap : Nat)
    (hk : k ≠ metaKey) (hc : ∀ c ∈ r.clients, c.key ≠ k) :
    r.stepOp (.join k isLocal details roles cap) =
      ({ r with clients := r.clients ++ [{ key := k, details := details, roles := roles, isLocal := isLocal, cap := cap }],
                queues := r.queues ++ [(k, [])] } : Realm).addTasks
        [.metaPub { topic := MetaEventSessionOnJoin, args := [.dict (r.cleanDetails details)] }] := by
  rw [stepOp_join, if_neg]
  simp only [Bool.or_eq_true, beq_iff_eq, List.any_eq_true, not_or, not_exists, not_and]
  exact ⟨hk, fun c hcm => hc c hcm⟩

theorem recvMsg_eq (r : Realm) (k : SessKey) (m : Msg) :
    r.recvMsg k m =
      match r.clients.find? (fun c => c.key == k) with
      | none => r
      | some s =>
        if r.ending.contains k then r
        else if r.busy k then (if s.buffered then { r with inbox := r.inbox ++ [(k, m)] } else r)
        else handleMsg r s m := rfl

theorem stepOp_msg (r : Realm) (k : SessKey) (m : Msg) : r.stepOp (.msg k m) = r.recvMsg k m := rfl

theorem runTask_inMsg (r : Realm) (k : SessKey) (m : Msg) : r.runTask (.inMsg k m) = r.recvMsg k m := rfl

theorem stepOp_buffer (r : Realm) (k : SessKey) :
    r.stepOp (.buffer k) =
      { r with clients := r.clients.map (fun c => if c.key == k then { c with buffered := true } else c) } := rfl

/-- only an attached client has a transport to lose: `drop` of any other key is a no-op of the model -/
theorem stepOp_drop (r : Realm) (k : SessKey) :
    r.stepOp (.drop k) =
      if !r.clients.any (fun c => c.key == k) then r
      else if r.ending.contains k then r
      else { r with tasks := r.tasks ++ [.leave k .lost], ending := r.ending ++ [k] } := rfl

theorem stepOp_drop_absent {r : Realm} {k : SessKey} (h : ∀ c ∈ r.clients, c.key ≠ k) :
    r.stepOp (.drop k) = r := by
  rw [stepOp_drop, if_pos]
  simp only [Bool.not_eq_true', List.any_eq_false, beq_iff_eq]
  exact fun c hc => h c hc

theorem stepOp_drop_attached {r : Realm} {k : SessKey} (h : ∃ c ∈ r.clients, c.key = k) :
    r.stepOp (.drop k) =
      if r.ending.contains k then r
      else { r with tasks := r.tasks ++ [.leave k .lost], ending := r.ending ++ [k] } := by
  rw [stepOp_drop, if_neg]
  simp only [Bool.not_eq_true', List.any_eq_false, beq_iff_eq]
  obtain ⟨c, hc, hk⟩ := h
  exact fun hn => hn c hc hk

/-- the three cases of `drop`: nothing (no such client, or already ending), or the handler is told to leave -/
theorem stepOp_drop_cases (r : Realm) (k : SessKey) :
    r.stepOp (.drop k) = r ∨
    ((∃ c ∈ r.clients, c.key = k) ∧ r.ending.contains k = false ∧
      r.stepOp (.drop k) = { r with tasks := r.tasks ++ [.leave k .lost], ending := r.ending ++ [k] }) := by
  rw [stepOp_drop]
  split
  · exact Or.inl rfl
  · rename_i h
    split
    · exact Or.inl rfl
    · rename_i h2
      refine Or.inr ⟨?_, by simpa using h2, rfl⟩
      simpa using h

theorem stepOp_stall (r : Realm) (k : SessKey) :
    r.stepOp (.stall k) =
      { r with clients := r.clients.map (fun c => if c.key == k then { c with stalled := true } else c) } := rfl

theorem stepOp_resume (r : Realm) (k : SessKey) :
    r.stepOp (.resume k) =
      { r with clients := r.clients.map (fun c => if c.key == k then { c with stalled := false } else c),
               ghosts := r.ghosts.filter (· != k) } := rfl

theorem stepOp_tick (r : Realm) (ms : Nat) : r.stepOp (.tick ms) = r := rfl
theorem stepOp_rnd (r : Realm) (n : Nat) : r.stepOp (.rnd n) = { r with rnd := n } := rfl

/-- an external input other than `join` -/
def Op.isJoin : Op → Bool
  | .join .. => true
  | _ => false

theorem step_tick (r : Realm) (ms : Nat) : r.step (.tick ms) = flush (advance 10000 r (r.now + ms)) := rfl

theorem step_of_not_tick (r : Realm) (op : Op) (h : ∀ ms, op ≠ .tick ms) :
    r.step op = flush (drain taskFuel (stepOp r op)) := by
  cases op <;> first | rfl | exact absurd rfl (h _)

/-! ### what a meta procedure can do to the realm -/

/-- the state a meta procedure returns: unchanged, some sessions told to end (`killWhere`),
    the details of one session replaced, or the testament table replaced — by a table each of whose
    keys was a key of the old table or is the key of an attached client (`add_testament` stores
    nothing for a caller that is not attached) -/
inductive MetaEffect (r : Realm) : Realm → Prop
  | same : MetaEffect r r
  | kill (sel : Session → Bool) (g : Msg) (ka : Bool) : MetaEffect r (r.killWhere sel g ka).2
  | modify (k : SessKey) (d : Dict) :
      MetaEffect r { r with clients := r.clients.map (fun c => if c.key == k then { c with details := d } else c) }
  | testaments (t : List (SessKey × TBucket))
      (h : ∀ x ∈ t, (∃ y ∈ r.testaments, y.1 = x.1) ∨ ∃ c ∈ r.clients, c.key = x.1) :
      MetaEffect r { r with testaments := t }

/-- the guard of `add_testament`: the caller id is that of an attached client -/
theorem attached_of_guard {r : Realm} {c : Nat}
    (h : ¬(!(decide (sidBase ≤ c) && r.clients.any fun s => s.key == c - sidBase)) = true) :
    sidBase ≤ c ∧ ∃ s ∈ r.clients, s.key = c - sidBase := by
  simp only [Bool.not_eq_true', Bool.not_eq_false, Bool.and_eq_true, decide_eq_true_eq, List.any_eq_true,
    beq_iff_eq] at h
  exact h

theorem key_of_find {l : List (SessKey × TBucket)} {key : SessKey} {p : SessKey × TBucket}
    (h : l.find? (fun x => x.1 == key) = some p) : ∃ y ∈ l, y.1 = key :=
  ⟨p, List.mem_of_find?_eq_some h, by simpa using List.find?_some h⟩

theorem ite_cases {α : Sort _} {Q : α → Prop} {c : Prop} [Decidable c] {a b : α}
    (ha : c → Q a) (hb : ¬c → Q b) : Q (if c then a else b) := by
  split
  · exact ha ‹_›
  · exact hb ‹_›

theorem MetaEffect.kill' {r r' : Realm} {n : Nat} {sel : Session → Bool} {g : Msg} {ka : Bool}
    (h : r.killWhere sel g ka = (n, r')) : MetaEffect r r' := by
  have h2 := congrArg Prod.snd h
  dsimp only at h2
  subst h2
  exact MetaEffect.kill _ _ _

theorem metaProc_effect (r : Realm) (proc : String) (req : Nat) (details : Dict) (args : List WVal) (kw : Dict) :
    MetaEffect r (metaProc r proc req details args kw).2 := by
  unfold metaProc
  extract_lets +onlyGivenNames caller reason message badReason
  clear_value caller reason message badReason
  repeat' (first
    | (refine ite_cases (Q := fun x => MetaEffect _ (Prod.snd x)) (fun _ => ?_) (fun _ => ?_))
    | split
    | dsimp only)
  all_goals first
    | exact MetaEffect.same
    | exact MetaEffect.modify _ _
    | (refine MetaEffect.testaments _ ?_
       intro x hx
       first
         | exact Or.inl ⟨x, (List.mem_filter.mp hx).1, rfl⟩
         | (rcases List.mem_append.mp hx with hx | hx
            · exact Or.inl ⟨x, (List.mem_filter.mp hx).1, rfl⟩
            · rw [List.mem_singleton.mp hx]
              first
                | exact Or.inr (attached_of_guard (by assumption)).2
                | exact Or.inl (key_of_find (by assumption))))
    | exact MetaEffect.kill _ _ _
    | (apply MetaEffect.kill'; assumption)

end Realm
end Nexus.L2
