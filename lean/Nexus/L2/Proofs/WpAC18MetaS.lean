/-
  Work package A / C18: the meta session of a realm is never changed — `r.metaS` is the session
  `newRealm` creates (key 0, authrole trusted, publisher role with payload passthru) in every
  reachable realm.
-/
import Nexus.L2.Proofs.RealmInv
import Nexus.L2.Proofs.WpAC18Kill

namespace Nexus.L2.Realm.WpA
open Nexus.L2 Nexus.L2.Realm Nexus.Gen.N

theorem ms_setPanic (r : Realm) (p : Option String) : (r.setPanic p).metaS = r.metaS := by
  unfold setPanic; split <;> rfl

theorem ms_addTasks (r : Realm) (ts : List Task) : (r.addTasks ts).metaS = r.metaS := rfl

theorem ms_trySend (r : Realm) (s : Send) : (r.trySend s).metaS = r.metaS := by
  unfold trySend
  split
  · split <;> rfl
  · split
    · exact ms_setPanic _ _
    · split
      · rfl
      · split <;> rfl

theorem ms_deliver (ss : List Send) : ∀ (r : Realm), (r.deliver ss).metaS = r.metaS := by
  induction ss with
  | nil => intro r; rfl
  | cons s ss ih => intro r; simp only [deliver]; rw [ih, ms_trySend]

theorem ms_applyD (r : Realm) (o : DOut) : (r.applyD o).metaS = r.metaS := by
  unfold applyD
  simp only [ms_setPanic]
  show (({ r with ds := o.st } : Realm).deliver o.sends).metaS = r.metaS
  rw [ms_deliver]

macro "ms_tac" : tactic => `(tactic| (
  try dsimp only
  repeat' split
  all_goals (try simp only [ms_trySend, ms_deliver, ms_applyD, ms_setPanic])
  all_goals (first | rfl | exact ms_trySend _ _ | skip)))

theorem ms_handlePublish (r : Realm) (s : Session) (req : Nat) (opts : Dict) (topic : String)
    (args : List WVal) (kw : Dict) : (handlePublish r s req opts topic args kw).metaS = r.metaS := by
  unfold handlePublish
  simp only [freshPub]
  ms_tac

theorem ms_handleSubscribe (r : Realm) (s : Session) (req : Nat) (opts : Dict) (topic : String) :
    (handleSubscribe r s req opts topic).metaS = r.metaS := by
  unfold handleSubscribe
  ms_tac

theorem ms_handleUnsubscribe (r : Realm) (s : Session) (req sub : Nat) :
    (handleUnsubscribe r s req sub).metaS = r.metaS := by
  unfold handleUnsubscribe
  ms_tac

theorem ms_handleRegister (r : Realm) (s : Session) (req : Nat) (opts : Dict) (proc : String) :
    (handleRegister r s req opts proc).metaS = r.metaS := by
  unfold handleRegister
  ms_tac

theorem ms_handleCancel (r : Realm) (s : Session) (req : Nat) (opts : Dict) :
    (handleCancel r s req opts).metaS = r.metaS := by
  unfold handleCancel
  ms_tac

theorem ms_handleYield (r : Realm) (s : Session) (req : Nat) (opts : Dict) (args : List WVal) (kw : Dict) :
    (handleYield r s req opts args kw).metaS = r.metaS := by
  unfold handleYield
  dsimp only
  split
  · exact ms_applyD r _
  · exact ms_applyD _ _

theorem ms_authzGate (r : Realm) (s : Session) (m : Msg) : (authzGate r s m).2.metaS = r.metaS := by
  unfold authzGate
  ms_tac

theorem ms_handleMsg (r : Realm) (s : Session) (m : Msg) : (handleMsg r s m).metaS = r.metaS := by
  unfold handleMsg
  have hg := ms_authzGate r s m
  revert hg
  generalize authzGate r s m = g
  obtain ⟨ok, r'⟩ := g
  intro hg
  simp only [] at hg ⊢
  rw [← hg]
  split
  · rfl
  · split
    · exact ms_handlePublish ..
    · exact ms_handleYield ..
    · exact ms_applyD _ _
    · exact ms_handleCancel ..
    · exact ms_handleSubscribe ..
    · exact ms_handleRegister ..
    · exact ms_handleUnsubscribe ..
    · exact ms_applyD _ _
    · split
      · rfl
      · exact ms_applyD _ _
    · show (r'.trySend _).metaS = _
      exact ms_trySend _ _
    · rfl

theorem ms_takeTestaments (r : Realm) (k : SessKey) : (r.takeTestaments k).2.metaS = r.metaS := by
  unfold takeTestaments
  split <;> rfl

theorem ms_leaveSend (r : Realm) (k : SessKey) (mode : LeaveMode) : (leaveSend r k mode).metaS = r.metaS := by
  cases mode <;> first | exact ms_trySend _ _ | rfl

theorem ms_leaveRemove (r : Realm) (k : SessKey) (quiet : Bool) : (leaveRemove r k quiet).metaS = r.metaS := by
  unfold leaveRemove
  split
  · extract_lets o
    split
    rw [ms_setPanic]
  · extract_lets o ra
    split
    rw [ms_deliver]
    exact ms_applyD r o

theorem ms_leaveAnnounce (r : Realm) (s : Session) (tst : Option TBucket) (silent : Bool) :
    (leaveAnnounce r s tst silent).metaS = r.metaS := by
  unfold leaveAnnounce
  split <;> rfl

theorem ms_leave (r : Realm) (k : SessKey) (mode : LeaveMode) : (r.leave k mode).metaS = r.metaS := by
  cases hf : r.clients.find? (fun c => c.key == k) with
  | none => rw [leave_none mode hf]
  | some s =>
    rw [leave_some mode hf]
    show (leaveAnnounce _ _ _ _).metaS = _
    rw [ms_leaveAnnounce, ms_leaveRemove, ms_takeTestaments, ms_leaveSend]

theorem ms_metaEffect {r r' : Realm} (e : MetaEffect r r') : r'.metaS = r.metaS := by
  cases e <;> rfl

theorem ms_recvMsg (r : Realm) (k : SessKey) (m : Msg) : (r.recvMsg k m).metaS = r.metaS := by
  rw [recvMsg_eq]
  split
  · rfl
  · split
    · rfl
    · split
      · split <;> rfl
      · exact ms_handleMsg _ _ _

theorem ms_runTask (r : Realm) (t : Task) : (r.runTask t).metaS = r.metaS := by
  cases t with
  | inMsg k m => exact ms_recvMsg r k m
  | metaPub p => exact ms_handlePublish ..
  | metaInvoke req reg details args kw =>
    rw [runTask_metaInvoke]
    split
    · rfl
    · exact (ms_addTasks _ _).trans (ms_metaEffect (metaProc_effect r _ req details args kw))
  | metaMsg m => exact ms_handleMsg _ _ _
  | leave k mode =>
    rw [runTask_leave]
    split
    · rfl
    · exact ms_leave r k mode

theorem ms_drain : ∀ (fuel : Nat) (r : Realm), (drain fuel r).metaS = r.metaS
  | 0, r => by
    rw [drain_zero]
    split
    · rfl
    · exact ms_setPanic _ _
  | fuel + 1, r => by
    cases ht : r.tasks with
    | nil => rw [drain_succ_nil _ _ ht]
    | cons t ts =>
      rw [drain_succ_cons _ _ t ts ht, ms_drain fuel, ms_runTask]

theorem ms_stepOp (r : Realm) (op : Op) : (r.stepOp op).metaS = r.metaS := by
  cases op with
  | msg k m => exact ms_recvMsg r k m
  | drop k => rw [stepOp_drop]; split <;> (try split) <;> rfl
  | join k isLocal details roles cap => rw [stepOp_join]; split <;> rfl
  | _ => rfl

theorem ms_retryDue (r : Realm) (x : Retry) : (r.retryDue x).metaS = r.metaS := by
  unfold Realm.retryDue
  extract_lets r1 canRetry o r2
  have h2 : r2.metaS = r.metaS := ms_applyD r1 o
  split <;> exact h2

theorem ms_timerDue (r : Realm) (t : Timer) : (r.timerDue t).metaS = r.metaS := by
  unfold Realm.timerDue
  extract_lets ds1 r1
  exact ms_applyD r1 _

theorem ms_advance : ∀ (fuel : Nat) (r : Realm) (target : Nat), (advance fuel r target).metaS = r.metaS
  | 0, r, target => by
    unfold Realm.advance
    exact ms_setPanic _ _
  | fuel + 1, r, target => by
    unfold Realm.advance
    split
    · rfl
    · rename_i d _
      extract_lets r1 r2
      rw [ms_advance fuel, ms_drain]
      cases d with
      | timer t => exact ms_timerDue r1 t
      | retry x => exact ms_retryDue r1 x

theorem ms_flush (r : Realm) : r.flush.2.metaS = r.metaS := rfl

theorem ms_step (r : Realm) (op : Op) : (r.step op).2.metaS = r.metaS := by
  by_cases ht : ∃ ms, op = .tick ms
  · obtain ⟨ms, rfl⟩ := ht
    rw [step_tick, ms_flush, ms_advance]
  · rw [step_of_not_tick r op (fun ms e => ht ⟨ms, e⟩), ms_flush, ms_drain, ms_stepOp]

/-- the meta session of a created realm is the one `newRealm` builds -/
theorem ms_create {cfg : Config} {r : Realm} (h : Realm.create cfg = some r) : r.metaS = ({} : Realm).metaS := by
  unfold Realm.create at h
  split at h
  · cases h
  · split at h
    · cases h
    · simp only [Option.some.injEq] at h
      subst h
      rw [(registerMeta_fields _ _).2.2.2.2.1]

/-- THE META SESSION IS NEVER CHANGED: in every reachable realm it is the session of `newRealm` -/
theorem reachable_metaS {cfg : Config} {r : Realm} (h : Realm.Reachable cfg r) : r.metaS = ({} : Realm).metaS := by
  induction h with
  | init hc => exact ms_create hc
  | step op _ ih => rw [ms_step]; exact ih

/-- … hence it is the publisher with the payload-passthru feature, key 0, trusted -/
theorem reachable_metaS_ppt {cfg : Config} {r : Realm} (h : Realm.Reachable cfg r) :
    r.metaS.hasFeature RolePublisher FeaturePayloadPassthruMode = true ∧ r.metaS.key = metaKey ∧
    r.metaS.details = [("authrole", .str "trusted")] := by
  rw [reachable_metaS h]
  exact ⟨by decide, rfl, rfl⟩

end Nexus.L2.Realm.WpA
