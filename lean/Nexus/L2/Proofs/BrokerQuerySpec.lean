/-
  Declarative vocabulary for C20_query (`wamp.subscription.get_events`): DEFINITIONS ONLY.
  The model side is `Realm.histScan` / `Realm.takeLast` / `Realm.histEntryVal` / `Realm.metaProc`
  (branch `MetaProcEventHistory`) in Nexus/L2/Realm.lean.
-/
import Nexus.L2.Realm

namespace Nexus.L2
open Gen.N
open Realm (HistQuery histScan takeLast histEntryVal histQuery?)

/-- the time bounds: `from_time ≤ t`, `after_time < t`, `t < before_time`, `t ≤ until_time`
    (an absent bound imposes nothing) -/
def timeOk (q : HistQuery) (e : HistEntry) : Bool :=
  q.fromT.all (fun t => t ≤ e.time) && q.afterT.all (fun t => t < e.time) &&
  q.beforeT.all (fun t => e.time < t) && q.untilT.all (fun t => e.time ≤ t)

/-- the topic of the publication entry `e` was retained for, in the store of a subscription with
    topic `sub`, is `t`: the stored details carry a string `topic` equal to `t` (pattern-based
    subscriptions), or they carry no `topic` at all (exact-match subscription: every event has the
    subscription's own topic) and `sub` is `t` -/
def topicIs (sub : String) (e : HistEntry) (t : String) : Bool :=
  match e.details.get? "topic" with
  | some (.str u) => u == t
  | none => sub == t
  | _ => false

/-- the `topic` filter ("" = absent); `q.subTopic` is the topic of the subscription queried -/
def topicOk (q : HistQuery) (e : HistEntry) : Bool := q.topic == "" || topicIs q.subTopic e q.topic

/-- the query `get_events` runs for the caller's (parsed) query `q` on subscription `id`: the handler
    fills in the topic of that subscription -/
def subQuery (r : Realm) (id : Nat) (q : HistQuery) : HistQuery :=
  { q with subTopic := ((r.broker.findId id).map (·.topic)).getD "" }

/-- `from_publication = x`: the entries from the first one with publication id `x` on;
    nothing if there is none.  (0 = bound absent.) -/
def fromStage (x : Nat) (l : List HistEntry) : List HistEntry :=
  if x = 0 then l else l.dropWhile (fun e => e.pub != x)

/-- `after_publication = x`: the entries after the first one with publication id `x`; nothing if
    there is none. -/
def afterStage (x : Nat) (l : List HistEntry) : List HistEntry :=
  if x = 0 then l else (l.dropWhile (fun e => e.pub != x)).drop 1

/-- `before_publication = x`: the entries before the first one with publication id `x`; all of
    them if there is none. -/
def beforeStage (x : Nat) (l : List HistEntry) : List HistEntry :=
  if x = 0 then l else l.takeWhile (fun e => e.pub != x)

/-- `until_publication = x`: the entries up to and including the first one with publication id
    `x`; all of them if there is none. -/
def untilStage (x : Nat) (l : List HistEntry) : List HistEntry :=
  if x = 0 then l else l.takeWhile (fun e => e.pub != x) ++ (l.dropWhile (fun e => e.pub != x)).take 1

/-- What the scan of `subEventHistory` selects, as a pipeline: time bounds first, then the four
    publication bounds IN THIS ORDER (each applied to what the previous ones left), then the topic. -/
def scanSpec (q : HistQuery) (es : List HistEntry) : List HistEntry :=
  (untilStage q.untilPub (beforeStage q.beforePub (afterStage q.afterPub (fromStage q.fromPub
    (es.filter (timeOk q)))))).filter (topicOk q)

/-- The list of entries `get_events` answers with for query `q` on a store holding `es`
    (the three lines of the `MetaProcEventHistory` branch of `Realm.metaProc`). -/
def histAnswer (q : HistQuery) (es : List HistEntry) : List HistEntry :=
  let r := histScan q es q.fromPub q.afterPub false
  let r := if q.limit > 0 then takeLast q.limit r else r
  if q.reverse then r.reverse else r

end Nexus.L2
