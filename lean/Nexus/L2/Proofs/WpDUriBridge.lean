/-
  C19, audit items c / d5: the String ↔ bytes bridge.

  The L2 router model (Nexus/L2/Uri.lean) works on `String`s: `L2.matchKind`, `L2.validUri`,
  `L2.prefixMatch`, `L2.wildcardMatch`.  The C19 theorems (Nexus/Props/C19.lean) are about byte
  strings: `Uri.policyOf`, `Uri.validURI` (the matcher run on the REGENERATED regular expressions),
  `Uri.prefixMatch`, `Uri.wildcardMatch`.  `Nexus.L2.Proofs.UriBridge` relates the two per
  `MatchKind` on bytes.  This file closes the remaining gap: each String-level function of the
  L2 model IS the byte-level C19 function applied to the UTF-8 bytes of its arguments
  (`String.toUTF8`, which is what Go's `string` holds), including the dispatch on the raw `match`
  option string (String equality with "prefix"/"wildcard" = byte equality with the Go constants).

  So every use of `validUri` / `prefixMatch` / `wildcardMatch` in the broker, dealer and realm
  models (C01, C03, …) is, by these equalities, a use of the function C19 characterises.

  This file cannot be imported by Nexus/Props/C19.lean (UriBridge imports C19); the headline
  theorems are nevertheless in namespace `Nexus.C19` and are cited from the table in C19.lean.
-/
import Nexus.L2.Proofs.UriBridge

namespace Nexus.L2.WpD

/-! ### bytes of a `String` (re-proved locally; the same lemmas exist in Proofs/DealerMatch.lean,
    which this file does not import to keep C19's cone free of the dealer model) -/

theorem toList_loop_eq (bs : ByteArray) (i : Nat) (r : List UInt8) :
    ByteArray.toList.loop bs i r = r.reverse ++ bs.data.toList.drop i := by
  fun_induction ByteArray.toList.loop bs i r with
  | case1 i r h ih =>
    rw [ih]
    have h' : i < bs.data.toList.length := h
    rw [List.drop_eq_getElem_cons h']
    have hg : bs.get! i = bs.data.toList[i] := by
      cases bs with
      | mk d =>
        show d[i]! = _
        have : i < d.size := h
        simp [this]
    rw [hg, List.reverse_cons, List.append_assoc]
    rfl
  | case2 i r h =>
    have h' : bs.data.toList.length ≤ i := Nat.le_of_not_lt h
    rw [List.drop_eq_nil_of_le h', List.append_nil]

/-- `ByteArray.toList` is the list of the underlying array. -/
theorem byteArray_toList_eq (bs : ByteArray) : bs.toList = bs.data.toList := by
  unfold ByteArray.toList
  rw [toList_loop_eq]; rfl

/-- A `String` is determined by its UTF-8 bytes. -/
theorem utf8_inj {s t : String} : s.toUTF8.toList = t.toUTF8.toList ↔ s = t := by
  constructor
  · intro h
    rw [byteArray_toList_eq, byteArray_toList_eq] at h
    exact String.toByteArray_inj.mp (ByteArray.ext (Array.toList_inj.mp h))
  · rintro rfl; rfl

/-- The L2 model's name constant "prefix" has the bytes of C19's `prefixName` (= the Go constant
    `wamp.MatchPrefix`, `Uri.matchPrefix_eq`). -/
theorem matchPrefix_bytes : Gen.N.MatchPrefix.toUTF8.toList = Nexus.Uri.prefixName := by
  rw [byteArray_toList_eq]; decide

theorem matchWildcard_bytes : Gen.N.MatchWildcard.toUTF8.toList = Nexus.Uri.wildcardName := by
  rw [byteArray_toList_eq]; decide

theorem eq_matchPrefix_iff (m : String) :
    m = Gen.N.MatchPrefix ↔ m.toUTF8.toList = Nexus.Uri.prefixName := by
  rw [← matchPrefix_bytes, utf8_inj]

theorem eq_matchWildcard_iff (m : String) :
    m = Gen.N.MatchWildcard ↔ m.toUTF8.toList = Nexus.Uri.wildcardName := by
  rw [← matchWildcard_bytes, utf8_inj]

end Nexus.L2.WpD

namespace Nexus.C19
open Nexus.L2.WpD

/-- The L2 model's dispatch on the raw `match` option (String equality with "prefix" /
    "wildcard", anything else exact) selects the policy that C19's `policyOf` assigns to the
    UTF-8 bytes of that string — for EVERY string `m`.  (Audit c/d5: links `L2.matchKind` to the
    byte-level dispatch `C19.dispatch` is about.) -/
theorem matchKind_policy (m : String) :
    L2.policyOfKind (L2.matchKind m) = Nexus.Uri.policyOf m.toUTF8.toList := by
  have hne : Nexus.Uri.prefixName ≠ Nexus.Uri.wildcardName := by decide
  unfold L2.matchKind Nexus.Uri.policyOf
  by_cases hp : m = Gen.N.MatchPrefix
  · have hp' := (eq_matchPrefix_iff m).mp hp
    rw [if_pos hp, hp', if_neg hne, if_pos rfl]; rfl
  · have hp' : ¬ m.toUTF8.toList = Nexus.Uri.prefixName := fun h => hp ((eq_matchPrefix_iff m).mpr h)
    rw [if_neg hp, if_neg hp']
    by_cases hw : m = Gen.N.MatchWildcard
    · rw [if_pos hw, if_pos ((eq_matchWildcard_iff m).mp hw)]; rfl
    · have hw' : ¬ m.toUTF8.toList = Nexus.Uri.wildcardName :=
        fun h => hw ((eq_matchWildcard_iff m).mpr h)
      rw [if_neg hw, if_neg hw']; rfl

-- the three kinds are all reached; "exact", "" and "Prefix" are exact
example : L2.matchKind "prefix" = .pfx ∧ L2.matchKind "wildcard" = .wild ∧ L2.matchKind "exact" = .exact ∧
    L2.matchKind "" = .exact ∧ L2.matchKind "Prefix" = .exact := by decide

/-- HEADLINE of the bridge.  The L2 model's `validUri strict m u` (Strings) equals
    `URI(u).ValidURI(strict, m)` as modelled in C19 on the UTF-8 bytes — i.e. the executable
    matcher run on the regular expression REGENERATED from wamp/identifier.go and selected by the
    regenerated dispatch — for every `strict`, every `match` string and every URI string. -/
theorem validUri_eq (strict : Bool) (m u : String) :
    L2.validUri strict m u = Nexus.Uri.validURI strict m.toUTF8.toList u.toUTF8.toList := by
  rw [Bool.eq_iff_iff]
  unfold L2.validUri
  rw [L2.validUriBytes_iff_regex, matchKind_policy, validURI_iff_rule, regexFor_iff_rule]

/-- … hence the L2 model accepts a URI string exactly when its components satisfy the rule. -/
theorem validUri_iff_rule (strict : Bool) (m u : String) :
    L2.validUri strict m u = true ↔
      Nexus.Uri.rule strict (Nexus.Uri.policyOf m.toUTF8.toList) u.toUTF8.toList := by
  rw [validUri_eq, validURI_iff_rule]

/-- The L2 model's `prefixMatch topic pattern` is C19's `prefixMatch` (`strings.HasPrefix`) on the
    UTF-8 bytes. -/
theorem prefixMatch_eq (topic pattern : String) :
    L2.prefixMatch topic pattern =
      Nexus.Uri.prefixMatch topic.toUTF8.toList pattern.toUTF8.toList := by
  unfold L2.prefixMatch Nexus.Uri.prefixMatch
  exact L2.isPrefixOf_eq _ _

/-- The L2 model's `wildcardMatch topic pattern` is C19's `wildcardMatch` (the Go loop over
    `strings.Split` parts) on the UTF-8 bytes, with the same argument order
    (`topic.WildcardMatch(pattern)`). -/
theorem wildcardMatch_eq (topic pattern : String) :
    L2.wildcardMatch topic pattern =
      Nexus.Uri.wildcardMatch topic.toUTF8.toList pattern.toUTF8.toList := by
  unfold L2.wildcardMatch
  exact L2.wildParts_splitDots _ _

/-- The String-level prefix match in the property's words. -/
theorem prefixMatch_string_iff (topic pattern : String) :
    L2.prefixMatch topic pattern = true ↔
      ∃ t, topic.toUTF8.toList = pattern.toUTF8.toList ++ t := by
  rw [prefixMatch_eq, prefixMatch_iff]

/-- The String-level wildcard match in the property's words. -/
theorem wildcardMatch_string_iff (topic pattern : String) :
    L2.wildcardMatch topic pattern = true ↔
      (Nexus.Uri.splitDot topic.toUTF8.toList).length = (Nexus.Uri.splitDot pattern.toUTF8.toList).length ∧
      ∀ i (hw : i < (Nexus.Uri.splitDot pattern.toUTF8.toList).length)
          (hu : i < (Nexus.Uri.splitDot topic.toUTF8.toList).length),
        (Nexus.Uri.splitDot pattern.toUTF8.toList)[i] = [] ∨
        (Nexus.Uri.splitDot pattern.toUTF8.toList)[i] = (Nexus.Uri.splitDot topic.toUTF8.toList)[i] := by
  rw [wildcardMatch_eq, wildcardMatch_iff]

-- concrete instances THROUGH the bridge: the String-level value is obtained from the byte-level
-- C19 function (`ByteArray.toList` does not reduce in the kernel, its list of bytes does)
example : L2.validUri true "prefix" "ab." = true := by
  rw [validUri_eq, byteArray_toList_eq, byteArray_toList_eq]; decide
example : L2.validUri true "" "ab." = false := by
  rw [validUri_eq, byteArray_toList_eq, byteArray_toList_eq]; decide
example : L2.validUri false "wildcard" "a..b" = true := by
  rw [validUri_eq, byteArray_toList_eq, byteArray_toList_eq]; decide
example : L2.validUri false "exact" "a b" = false := by
  rw [validUri_eq, byteArray_toList_eq, byteArray_toList_eq]; decide
example : L2.prefixMatch "a.b.c" "a.b" = true := by
  rw [prefixMatch_eq, byteArray_toList_eq, byteArray_toList_eq]; decide
example : L2.wildcardMatch "a.b.c" "a..c" = true := by
  rw [wildcardMatch_eq, byteArray_toList_eq, byteArray_toList_eq]; decide
example : L2.wildcardMatch "a.b.c" "a.c" = false := by
  rw [wildcardMatch_eq, byteArray_toList_eq, byteArray_toList_eq]; decide

end Nexus.C19
