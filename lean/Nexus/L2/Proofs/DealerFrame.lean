/-
  Frame properties of the dealer's `sync*` functions: what a step can NOT change.
  `StateSub s s'`: `s'` has the same registrations and invocation-id generators as `s`, and every
  invocation stored in `s'` was stored in `s` with the same id, call and callee (steps other than CALL and
  REGISTER/UNREGISTER/session removal only drop calls and flip flags).
-/
import Nexus.L2.Proofs.DealerTimer
import Nexus.L2.Proofs.DealerInvoke

namespace Nexus.L2
open Gen.N

structure StateSub (s s' : DState) : Prop where
  gen : s'.invGen = s.invGen
  regs : s'.d.regs = s.d.regs
  invs : ∀ v' ∈ s'.d.invs, ∃ v ∈ s.d.invs, v.shapeC = v'.shapeC

theorem StateSub.refl (s : DState) : StateSub s s := ⟨rfl, rfl, fun v hv => ⟨v, hv, rfl⟩⟩

theorem StateSub.trans {a b c : DState} (h1 : StateSub a b) (h2 : StateSub b c) : StateSub a c :=
  ⟨h2.gen.trans h1.gen, h2.regs.trans h1.regs, fun v hv => by
    obtain ⟨w, hw, he⟩ := h2.invs v hv
    obtain ⟨u, hu, he'⟩ := h1.invs w hw
    exact ⟨u, hu, he'.trans he⟩⟩

theorem StateSub.cancelTimer (s : DState) (t : Option Nat) : StateSub s (s.cancelTimer t) :=
  ⟨by simp, by simp, fun v hv => ⟨v, by simpa using hv, rfl⟩⟩

theorem StateSub.setInv {s : DState} {v v' : Invk} (hv : v ∈ s.d.invs) (hs : v'.shapeC = v.shapeC) :
    StateSub s { s with d := s.d.setInv v' } := by
  refine ⟨rfl, rfl, fun w hw => ?_⟩
  unfold Dealer.setInv at hw
  simp only at hw
  rcases (mem_map_update (f := fun x : Invk => x.id) (u := fun _ => v')).1 hw with ⟨hw, _⟩ | ⟨_, _, _, rfl⟩
  · exact ⟨w, hw, rfl⟩
  · exact ⟨v, hv, hs.symm⟩

theorem StateSub.forget (s : DState) (c i : ReqId) : StateSub s { s with d := s.d.forget c i } :=
  ⟨rfl, rfl, fun v hv => ⟨v, (List.mem_filter.1 hv).1, rfl⟩⟩

theorem syncError_sub (s : DState) (callee : SessKey) (req : Nat) (details : Dict) (err : String)
    (args : List WVal) (kw : Dict) : StateSub s (syncError s callee req details err args kw).st := by
  unfold syncError
  simp only
  split
  · exact StateSub.refl _
  · split
    · exact (StateSub.cancelTimer s _).trans
        ⟨rfl, rfl, fun v hv => ⟨v, by
          simp only [Dealer.delCall, Dealer.delByCall, Dealer.delInv] at hv
          exact (List.mem_filter.1 hv).1, rfl⟩⟩
    · exact (StateSub.cancelTimer s _).trans
        ⟨rfl, rfl, fun v hv => ⟨v, by
          simp only [Dealer.delByCall, Dealer.delInv] at hv
          exact (List.mem_filter.1 hv).1, rfl⟩⟩

theorem cancelMark_sub {s : DState} {v : Invk} (hv : v ∈ s.d.invs) : StateSub s (cancelMark s v) :=
  (StateSub.setInv (v' := { v with canceled := true }) hv rfl).trans (StateSub.cancelTimer _ _)

theorem cancelOut_sub {env : DEnv} {s : DState} (caller : SessKey) (req : Nat) (mode reason : String)
    (errArgs : List WVal) (i : ReqId) {v : Invk} (hv : v ∈ s.d.invs) :
    StateSub s (cancelOut env s caller req mode reason errArgs i v).st := by
  rw [cancelOut_eq]
  have h1 := cancelMark_sub hv
  split
  · split
    · exact h1
    · exact h1.trans (StateSub.forget _ _ _)
  · exact h1.trans (StateSub.forget _ _ _)

theorem syncCancel_sub (env : DEnv) (s : DState) (caller : SessKey) (req : Nat) (mode reason : String)
    (errArgs : List WVal) : StateSub s (syncCancel env s caller req mode reason errArgs).st := by
  unfold syncCancel
  simp only
  split
  · exact StateSub.refl _
  · split
    · exact StateSub.refl _
    · split
      · exact StateSub.refl _
      · rename_i i _ _ v hf
        split
        · exact StateSub.refl _
        · exact cancelOut_sub caller req mode reason errArgs i (findInv_some_mem hf).1

theorem yieldTimer_sub (s : DState) (progress : Bool) (v : Invk) : StateSub s (yieldTimer s progress v) := by
  unfold yieldTimer
  split
  · exact StateSub.refl _
  · exact StateSub.cancelTimer _ _

theorem yieldOut_sub (env : DEnv) (s : DState) (callee : SessKey) (req : Nat) (opts : Dict)
    (args : List WVal) (kw : Dict) (progress canRetry : Bool) (v : Invk) :
    StateSub s (yieldOut env s callee req opts args kw progress canRetry v).st := by
  have hfin : StateSub s (yieldFinish s progress v ⟨callee, req⟩) := by
    unfold yieldFinish
    split
    · exact yieldTimer_sub s progress v
    · exact (yieldTimer_sub s progress v).trans (StateSub.forget _ _ _)
  cases h1 : yieldPptCalleeBad env callee opts
  case true =>
    rw [yieldOut_calleeBad args kw progress canRetry v h1]
    exact ((yieldTimer_sub s progress v).trans (StateSub.cancelTimer _ _)).trans (StateSub.forget _ _ _)
  case false =>
  cases h2 : yieldPptCallerBad env v.callId.sess opts
  case true => rw [yieldOut_callerBad args kw progress canRetry v h1 h2]; exact hfin
  case false =>
  cases h3 : env.full v.callId.sess
  case false => rw [yieldOut_deliver args kw progress canRetry v h1 h2 h3]; exact hfin
  case true =>
  cases canRetry
  case true => rw [yieldOut_retry args kw progress v h1 h2 h3]; exact yieldTimer_sub s progress v
  case false =>
    rw [yieldOut_giveup args kw progress v h1 h2 h3]
    have := (yieldTimer_sub s progress v).trans
      (syncCancel_sub env (yieldTimer s progress v) v.callId.sess v.callId.req CancelModeKillNoWait ErrCanceled [])
    simp only
    split
    · exact this
    · exact this.trans (StateSub.forget _ _ _)

theorem syncYield_sub (env : DEnv) (s : DState) (callee : SessKey) (req : Nat) (opts : Dict)
    (args : List WVal) (kw : Dict) (progress canRetry : Bool) :
    StateSub s (syncYield env s callee req opts args kw progress canRetry).st := by
  unfold syncYield
  simp only
  split
  · split <;> exact StateSub.refl _
  · rename_i v _
    split
    · exact StateSub.refl _
    · split
      · split
        · exact StateSub.refl _
        · exact (StateSub.cancelTimer _ _).trans (StateSub.forget _ _ _)
      · exact yieldOut_sub env s callee req opts args kw progress canRetry v

theorem cancelServed_sub (env : DEnv) (k : SessKey) : ∀ (l : List Invk) (s : DState),
    StateSub s (cancelServed env s k l).1
  | [], s => StateSub.refl _
  | invk :: rest, s => by
    unfold cancelServed
    split
    · exact cancelServed_sub env k rest s
    · simp only
      refine StateSub.trans ?_ (cancelServed_sub env k rest _)
      refine StateSub.trans ?_ (syncCancel_sub ..)
      refine (StateSub.cancelTimer s invk.timer).trans ?_
      split
      · rename_i cur hf
        exact StateSub.setInv (v' := { cur with canceled := false }) (findInv_some_mem hf).1 rfl
      · exact StateSub.refl _

theorem dropOne_sub (s : DState) (c : ReqId) : StateSub s (dropOne s c) := by
  unfold dropOne
  simp only
  split
  · rename_i iid _
    cases (s.d.delCall c).findInv iid with
    | none =>
      exact ⟨rfl, rfl, fun v hv => ⟨v, by
        simp only [Dealer.delCall, Dealer.delByCall, Dealer.delInv] at hv
        exact (List.mem_filter.1 hv).1, rfl⟩⟩
    | some w =>
      refine (StateSub.cancelTimer s w.timer).trans ⟨rfl, ?_, fun v hv => ⟨v, ?_, rfl⟩⟩
      · simp [Dealer.delCall, Dealer.delByCall, Dealer.delInv]
      · simp only [Dealer.delCall, Dealer.delByCall, Dealer.delInv] at hv
        simpa using (List.mem_filter.1 hv).1
  · exact ⟨rfl, rfl, fun v hv => ⟨v, hv, rfl⟩⟩

theorem dropCalls_sub (k : SessKey) : ∀ (l : List ReqId) (s : DState), StateSub s (dropCalls s k l)
  | [], s => StateSub.refl _
  | c :: rest, s => by
    by_cases hck : (c.sess != k) = true
    · rw [dropCalls_cons_skip rest hck]; exact dropCalls_sub k rest s
    · rw [dropCalls_cons_hit rest hck]
      exact (dropOne_sub s c).trans (dropCalls_sub k rest _)


theorem syncRemoveSession_frame {env : DEnv} {s : DState} (h : DealerInv s) (k : SessKey) :
    (syncRemoveSession env s k).st.invGen = s.invGen ∧
    (∀ v' ∈ (syncRemoveSession env s k).st.d.invs, ∃ v ∈ s.d.invs, v.shapeC = v'.shapeC) ∧
    (∀ id c, calleeRel (syncRemoveSession env s k).st.d.regs id c ↔ calleeRel s.d.regs id c ∧ c ≠ k) := by
  obtain ⟨s1, h1, _, hi, _, ⟨_, hg⟩, hrel, he⟩ := removeSession_mid (env := env) h k
  rw [he]
  simp only
  have hsub := (cancelServed_sub env k s1.d.invs s1).trans
    (dropCalls_sub k (cancelServed env s1 k s1.d.invs).1.d.calls _)
  refine ⟨hsub.gen.trans hg, fun v' hv' => ?_, fun id c => ?_⟩
  · obtain ⟨v, hv, hs⟩ := hsub.invs v' hv'
    exact ⟨v, hi ▸ hv, hs⟩
  · rw [hsub.regs]; exact hrel id c

/-- after `syncRemoveSession k` no stored invocation is served by `k` -/
theorem syncRemoveSession_no_inv {env : DEnv} {s : DState} (h : DealerInv s) (k : SessKey) :
    ∀ v' ∈ (syncRemoveSession env s k).st.d.invs, v'.callee ≠ k := by
  intro v' hv' hk
  obtain ⟨v, hv, hs⟩ := (syncRemoveSession_frame (env := env) h k).2.1 v' hv'
  simp only [Invk.shapeC, Prod.mk.injEq] at hs
  have hinv := (syncRemoveSession_inv (env := env) h k).1
  have hc := (hinv.call.inv_call hv').1
  exact (syncRemoveSession_calls h k _ hc).2.2 v hv (hs.2.2.1.trans hk) hs.2.1

theorem armTimer_sub {env : DEnv} {s : DState} {v : Invk} (hv : v ∈ s.d.invs) (caller : SessKey) (req t : Nat) :
    StateSub s (armTimer env s caller req v t) := by
  unfold armTimer
  split
  · refine ⟨rfl, rfl, fun w hw => ?_⟩
    simp only at hw
    unfold Dealer.setInv at hw
    simp only at hw
    rcases (mem_map_update (f := fun x : Invk => x.id) (u := fun _ => { v with timer := some (s.nextTimer + 1) })).1 hw with
      ⟨hw, _⟩ | ⟨_, _, _, rfl⟩
    · exact ⟨w, hw, rfl⟩
    · exact ⟨v, hv, rfl⟩
  · exact StateSub.refl _

theorem preCancel_sub (s : DState) (v : Invk) (t : Nat) : StateSub s (preCancel s v t) := by
  unfold preCancel
  split
  · exact StateSub.cancelTimer _ _
  · exact StateSub.refl _

theorem dispatch_sub {env : DEnv} {s : DState} {v : Invk} (hv : v ∈ s.d.invs) (caller : SessKey) (req : Nat)
    (callee : SessKey) (invReq timeout : Nat) (m : Msg) :
    StateSub s (dispatch env s caller req callee invReq v timeout m).st := by
  unfold dispatch
  split
  · exact syncError_sub ..
  · exact armTimer_sub hv ..

theorem fullOut_sub (S : DState) (c i : ReqId) (t : Option Nat) : StateSub S (fullOut S c i t).st :=
  ⟨by simp [fullOut], by simp [fullOut], fun v hv => ⟨v, (List.mem_filter.1 hv).1, rfl⟩⟩

/-- what a CALL can change besides `calls`: cursors of registrations, one new invocation (with the next id
    of its callee's generator), that generator -/
theorem syncCall_frame {env : DEnv} {s : DState} (h : DealerInv s) (caller : SessKey) (req : Nat) (opts : Dict)
    (proc : String) (args : List WVal) (kw : Dict) (rnd : Nat) :
    (∀ k, genOf s.invGen k ≤ genOf (syncCall env s caller req opts proc args kw rnd).st.invGen k) ∧
    (syncCall env s caller req opts proc args kw rnd).st.d.regs.map Reg.shape = s.d.regs.map Reg.shape ∧
    (∀ v' ∈ (syncCall env s caller req opts proc args kw rnd).st.d.invs,
      (∃ v ∈ s.d.invs, v.shapeC = v'.shapeC) ∨
      (v'.callId = ⟨caller, req⟩ ∧ (⟨caller, req⟩ : ReqId) ∉ s.d.calls ∧
        v'.id = ⟨v'.callee, genOf s.invGen v'.callee + 1⟩ ∧ calleeRel s.d.regs v'.regId v'.callee)) := by
  have ofSub : ∀ {s' : DState}, StateSub s s' →
      (∀ k, genOf s.invGen k ≤ genOf s'.invGen k) ∧ s'.d.regs.map Reg.shape = s.d.regs.map Reg.shape ∧
      (∀ v' ∈ s'.d.invs, (∃ v ∈ s.d.invs, v.shapeC = v'.shapeC) ∨
        (v'.callId = ⟨caller, req⟩ ∧ (⟨caller, req⟩ : ReqId) ∉ s.d.calls ∧
          v'.id = ⟨v'.callee, genOf s.invGen v'.callee + 1⟩ ∧ calleeRel s.d.regs v'.regId v'.callee)) := by
    intro s' hs
    exact ⟨fun k => by rw [hs.gen]; exact Nat.le_refl _, by rw [hs.regs], fun v' hv' => Or.inl (hs.invs v' hv')⟩
  -- states reached from the state after the cursor update
  have ofSub1 : ∀ {reg reg' : Reg} {s' : DState}, reg ∈ s.d.regs → reg'.shape = reg.shape →
      StateSub { s with d := s.d.setReg reg' } s' →
      (∀ k, genOf s.invGen k ≤ genOf s'.invGen k) ∧ s'.d.regs.map Reg.shape = s.d.regs.map Reg.shape ∧
      (∀ v' ∈ s'.d.invs, (∃ v ∈ s.d.invs, v.shapeC = v'.shapeC) ∨
        (v'.callId = ⟨caller, req⟩ ∧ (⟨caller, req⟩ : ReqId) ∉ s.d.calls ∧
          v'.id = ⟨v'.callee, genOf s.invGen v'.callee + 1⟩ ∧ calleeRel s.d.regs v'.regId v'.callee)) := by
    intro reg reg' s' hmem hs hsub
    exact ⟨fun k => by rw [hsub.gen]; exact Nat.le_refl _,
      by rw [hsub.regs]; exact setReg_shape h.reg.regs.ids hmem hs, fun v' hv' => Or.inl (hsub.invs v' hv')⟩
  -- … and from the state after recording the new call
  have ofRec : ∀ {reg reg' : Reg} {callee : SessKey} {s' : DState}, reg ∈ s.d.regs → reg'.shape = reg.shape →
      callee ∈ reg.callees → (⟨caller, req⟩ : ReqId) ∉ s.d.calls →
      StateSub (recordCall { s with d := s.d.setReg reg' } (newInvk s reg caller req callee opts) callee) s' →
      (∀ k, genOf s.invGen k ≤ genOf s'.invGen k) ∧ s'.d.regs.map Reg.shape = s.d.regs.map Reg.shape ∧
      (∀ v' ∈ s'.d.invs, (∃ v ∈ s.d.invs, v.shapeC = v'.shapeC) ∨
        (v'.callId = ⟨caller, req⟩ ∧ (⟨caller, req⟩ : ReqId) ∉ s.d.calls ∧
          v'.id = ⟨v'.callee, genOf s.invGen v'.callee + 1⟩ ∧ calleeRel s.d.regs v'.regId v'.callee)) := by
    intro reg reg' callee s' hmem hs hcal hc0 hsub
    refine ⟨fun k => ?_, ?_, fun v' hv' => ?_⟩
    · rw [hsub.gen]; exact genOf_le_invGenNext _ _ _
    · rw [hsub.regs]; exact setReg_shape h.reg.regs.ids hmem hs
    · obtain ⟨w, hw, hws⟩ := hsub.invs v' hv'
      rcases List.mem_append.1 (show w ∈ s.d.invs ++ [_] from hw) with hw | hw
      · exact Or.inl ⟨w, hw, hws⟩
      · right
        simp only [List.mem_singleton] at hw
        subst hw
        simp only [Invk.shapeC, Prod.mk.injEq] at hws
        refine ⟨hws.2.1.symm, hc0, ?_, ?_⟩
        · rw [← hws.1, ← hws.2.2.1, newInvk_id]
          rfl
        · rw [← hws.2.2.1, ← hws.2.2.2.1]
          exact ⟨reg, hmem, rfl, hcal⟩
  refine syncCall_cases (env := env) (P := fun o =>
    (∀ k, genOf s.invGen k ≤ genOf o.st.invGen k) ∧ o.st.d.regs.map Reg.shape = s.d.regs.map Reg.shape ∧
    (∀ v' ∈ o.st.d.invs, (∃ v ∈ s.d.invs, v.shapeC = v'.shapeC) ∨
      (v'.callId = ⟨caller, req⟩ ∧ (⟨caller, req⟩ : ReqId) ∉ s.d.calls ∧
        v'.id = ⟨v'.callee, genOf s.invGen v'.callee + 1⟩ ∧ calleeRel s.d.regs v'.regId v'.callee)))
    h caller req opts proc args kw rnd ?_ ?_ ?_ ?_ ?_ ?_ ?_ ?_
  · intro _; exact ofSub (StateSub.refl _)
  · intro iid v0 _ _ hv0 _ _ _ _
    refine ofSub (((StateSub.setInv (v' := { v0 with inProgress := opts.optFlag OptProgress }) hv0 rfl).trans
      (preCancel_sub _ _ _)).trans (armTimer_sub ?_ ..))
    rw [preCancel_d]
    unfold Dealer.setInv
    simp only
    exact (mem_map_update (f := fun x : Invk => x.id) (u := fun _ => { v0 with inProgress := opts.optFlag OptProgress })).2
      (Or.inr ⟨v0, hv0, rfl, rfl⟩)
  · intro iid v0 _ _ hv0 _ _ _ _
    exact ofSub ((StateSub.setInv (v' := { v0 with inProgress := opts.optFlag OptProgress }) hv0 rfl).trans
      (fullOut_sub _ _ _ _))
  · intro _ _ _; exact ofSub (StateSub.refl _)
  · intro reg reg' callee e _ _ _ hmem _ hs _; exact ofSub1 hmem hs (StateSub.refl _)
  · intro reg reg' callee _ _ _ hmem _ hs _; exact ofSub1 hmem hs (StateSub.refl _)
  · intro reg reg' callee _ hc0 _ hmem hp hs _ _
    refine ofRec hmem hs (pickCallee_mem hp).1 hc0 (armTimer_sub ?_ ..)
    show _ ∈ _ ++ [_]
    exact List.mem_append_right _ (List.mem_singleton.2 rfl)
  · intro reg reg' callee _ hc0 _ hmem hp hs _ _
    exact ofRec hmem hs (pickCallee_mem hp).1 hc0 (fullOut_sub _ _ _ _)

theorem syncRegister_frame {s : DState} (h : DealerInv s) (callee : SessKey) (req : Nat) (proc m invoke : String)
    (disclose fwd wampURI : Bool) :
    (syncRegister s callee req proc m invoke disclose fwd wampURI).st.invGen = s.invGen ∧
    (syncRegister s callee req proc m invoke disclose fwd wampURI).st.d.invs = s.d.invs ∧
    (∀ id k, calleeRel (syncRegister s callee req proc m invoke disclose fwd wampURI).st.d.regs id k →
      calleeRel s.d.regs id k ∨ k = callee) := by
  unfold syncRegister
  simp only
  cases hf : s.d.findProc proc (matchKind m) with
  | none =>
    simp only
    refine ⟨(by first | rfl | trivial), (by first | rfl | trivial), ?_⟩
    rintro id k ⟨r, hr, h1, h2⟩
    rcases List.mem_append.1 hr with hr | hr
    · exact Or.inl ⟨r, hr, h1, h2⟩
    · simp only [List.mem_singleton] at hr; subst hr
      exact Or.inr (by simpa using h2)
  | some reg =>
    simp only
    have hm := ((findProc_eq_some h.reg.regs.keys).1 hf).1
    split
    · exact ⟨rfl, rfl, fun _ _ hx => Or.inl hx⟩
    · split
      · exact ⟨rfl, rfl, fun _ _ hx => Or.inl hx⟩
      · split
        · exact ⟨rfl, rfl, fun _ _ hx => Or.inl hx⟩
        · refine ⟨rfl, rfl, ?_⟩
          intro id k hx
          have hx' : calleeRel (s.d.setReg { reg with callees := reg.callees ++ [callee] }).regs id k := hx
          rw [calleeRel_setReg hm] at hx'
          rcases hx' with ⟨_, hx'⟩ | ⟨rfl, hc⟩
          · exact Or.inl hx'
          · rcases List.mem_append.1 hc with hc | hc
            · exact Or.inl ⟨reg, hm, rfl, hc⟩
            · exact Or.inr (by simpa using hc)

theorem syncUnregister_frame {s : DState} (h : DealerInv s) (callee : SessKey) (req regId : Nat) :
    (syncUnregister s callee req regId).st.invGen = s.invGen ∧
    (syncUnregister s callee req regId).st.d.invs = s.d.invs ∧
    (∀ id k, calleeRel (syncUnregister s callee req regId).st.d.regs id k ↔
      calleeRel s.d.regs id k ∧ ¬ (k = callee ∧ id = regId)) := by
  unfold syncUnregister
  simp only
  by_cases hr : calleeRel s.d.regs regId callee
  · obtain ⟨d', del, he, _, hrel, hd'⟩ :=
      delCalleeReg_some (d := { s.d with index := idxDel s.d.index callee regId }) h.reg.regs hr
    rw [he]
    simp only
    exact ⟨(by first | rfl | trivial), by rw [hd'], hrel⟩
  · rw [delCalleeReg_none (d := { s.d with index := idxDel s.d.index callee regId }) h.reg.regs hr]
    simp only
    refine ⟨(by first | rfl | trivial), (by first | rfl | trivial), fun id k => ⟨fun hx => ⟨hx, fun hc => hr (hc.1 ▸ hc.2 ▸ hx)⟩, fun hx => hx.1⟩⟩


/-- the step is a REGISTER by session `k` -/
def IsRegisterStep (s : DState) (o : DOut) (k : SessKey) : Prop :=
  ∃ req proc m invoke disclose fwd wampURI, o = syncRegister s k req proc m invoke disclose fwd wampURI

/-- the generator of invocation ids of a session never goes back -/
theorem DStep.gen_mono {s : DState} {o : DOut} (h : DealerInv s) (st : DStep s o) (k : SessKey) :
    genOf s.invGen k ≤ genOf o.st.invGen k := by
  have ofSub : StateSub s o.st → genOf s.invGen k ≤ genOf o.st.invGen k := fun hs => by rw [hs.gen]; exact Nat.le_refl _
  cases st with
  | register => rw [(syncRegister_frame h ..).1]; exact Nat.le_refl _
  | unregister => rw [(syncUnregister_frame h ..).1]; exact Nat.le_refl _
  | call => exact (syncCall_frame h ..).1 k
  | cancel => exact ofSub (syncCancel_sub ..)
  | yield => exact ofSub (syncYield_sub ..)
  | error => exact ofSub (syncError_sub ..)
  | removeSession => rw [(syncRemoveSession_frame h _).1]; exact Nat.le_refl _
  | dropTimers => exact Nat.le_refl _

/-- an invocation stored after a step was stored before it with the same id, call and callee — or it is the
    one invocation a CALL creates, whose id is the next one of its callee's generator -/
theorem DStep.invs_frame {s : DState} {o : DOut} (h : DealerInv s) (st : DStep s o) :
    ∀ v' ∈ o.st.d.invs, (∃ v ∈ s.d.invs, v.shapeC = v'.shapeC) ∨
      (v'.callId ∉ s.d.calls ∧ IsCallStep s o v'.callId ∧ v'.id = ⟨v'.callee, genOf s.invGen v'.callee + 1⟩ ∧
        calleeRel s.d.regs v'.regId v'.callee) := by
  intro v' hv'
  have ofSub : StateSub s o.st → ((∃ v ∈ s.d.invs, v.shapeC = v'.shapeC) ∨
      (v'.callId ∉ s.d.calls ∧ IsCallStep s o v'.callId ∧ v'.id = ⟨v'.callee, genOf s.invGen v'.callee + 1⟩ ∧
        calleeRel s.d.regs v'.regId v'.callee)) :=
    fun hs => Or.inl (hs.invs v' hv')
  cases st with
  | register => rw [(syncRegister_frame h ..).2.1] at hv'; exact Or.inl ⟨v', hv', rfl⟩
  | unregister => rw [(syncUnregister_frame h ..).2.1] at hv'; exact Or.inl ⟨v', hv', rfl⟩
  | call env caller req opts proc args kw rnd =>
    rcases (syncCall_frame h caller req opts proc args kw rnd).2.2 v' hv' with hx | ⟨h1, h2, h3, h4⟩
    · exact Or.inl hx
    · exact Or.inr ⟨h1 ▸ h2, ⟨env, opts, proc, args, kw, rnd, by rw [h1]⟩, h3, h4⟩
  | cancel => exact ofSub (syncCancel_sub ..)
  | yield => exact ofSub (syncYield_sub ..)
  | error => exact ofSub (syncError_sub ..)
  | removeSession => exact Or.inl ((syncRemoveSession_frame h _).2.1 v' hv')
  | dropTimers => exact Or.inl ⟨v', hv', rfl⟩

/-- a session becomes a callee of a registration only by its own REGISTER -/
theorem DStep.calleeRel_frame {s : DState} {o : DOut} (h : DealerInv s) (st : DStep s o) (id : Nat) (k : SessKey)
    (hc : calleeRel o.st.d.regs id k) : calleeRel s.d.regs id k ∨ IsRegisterStep s o k := by
  have ofSub : StateSub s o.st → (calleeRel s.d.regs id k ∨ IsRegisterStep s o k) := fun hs => Or.inl (hs.regs ▸ hc)
  cases st with
  | register callee req proc m invoke disclose fwd wampURI hk =>
    rcases (syncRegister_frame h callee req proc m invoke disclose fwd wampURI).2.2 id k hc with hx | rfl
    · exact Or.inl hx
    · exact Or.inr ⟨req, proc, m, invoke, disclose, fwd, wampURI, rfl⟩
  | unregister => exact Or.inl (((syncUnregister_frame h ..).2.2 id k).1 hc).1
  | call => exact Or.inl ((calleeRel_congr (syncCall_frame h ..).2.1 id k).1 hc)
  | cancel => exact ofSub (syncCancel_sub ..)
  | yield => exact ofSub (syncYield_sub ..)
  | error => exact ofSub (syncError_sub ..)
  | removeSession => exact Or.inl (((syncRemoveSession_frame h _).2.2 id k).1 hc).1
  | dropTimers => exact Or.inl hc


/-- a YIELD by the owner of the invocation is answered towards the caller of that call and the yielding
    callee only -/
theorem yield_recipients {env : DEnv} {s : DState} (h : DealerInv s) {v : Invk} (hv : v ∈ s.d.invs) (opts : Dict)
    (args : List WVal) (kw : Dict) (progress canRetry : Bool) :
    ∀ x ∈ (syncYield env s v.id.sess v.id.req opts args kw progress canRetry).sends,
      x.to = v.callId.sess ∨ x.to = v.id.sess := by
  have hf : s.d.findInv ⟨v.id.sess, v.id.req⟩ = some v := (findInv_eq_some h.call.invIds).2 ⟨hv, rfl⟩
  have hcallee : v.callee = v.id.sess := h.call.callee v hv
  rw [syncYield_some' h.call opts args kw progress canRetry hf]
  intro x hx
  cases h1 : yieldPptCalleeBad env v.id.sess opts
  case true =>
    rw [yieldOut_calleeBad args kw progress canRetry v h1] at hx
    simp only [List.mem_cons, List.not_mem_nil, or_false] at hx
    rcases hx with rfl | rfl
    · exact Or.inl rfl
    · exact Or.inr rfl
  case false =>
  cases h2 : yieldPptCallerBad env v.callId.sess opts
  case true =>
    rw [yieldOut_callerBad args kw progress canRetry v h1 h2] at hx
    rcases List.mem_append.1 hx with hx | hx
    · simp only [List.mem_singleton] at hx; subst hx; exact Or.inr rfl
    · split at hx
      · cases hx
      · simp only [List.mem_singleton] at hx; subst hx; exact Or.inl rfl
  case false =>
  cases h3 : env.full v.callId.sess
  case false =>
    rw [yieldOut_deliver args kw progress canRetry v h1 h2 h3] at hx
    simp only [List.mem_singleton] at hx; subst hx; exact Or.inl rfl
  case true =>
  cases canRetry
  case true => rw [yieldOut_retry args kw progress v h1 h2 h3] at hx; cases hx
  case false =>
    rw [yieldOut_giveup' h args kw progress hv rfl h1 h2 h3] at hx
    split at hx
    · cases hx
    · rcases List.mem_append.1 hx with hx | hx
      · split at hx
        · simp only [List.mem_singleton] at hx; subst hx; exact Or.inr hcallee
        · cases hx
      · simp only [List.mem_singleton] at hx; subst hx; exact Or.inl rfl

/-- the registration table of a state satisfying the invariant has unique (procedure, kind) keys -/
theorem RegsOk.keyUnique {regs : List Reg} {n : Nat} (h : RegsOk regs n) : KeyUnique regs := by
  have := h.keys
  unfold List.Nodup at this
  rw [List.pairwise_map] at this
  unfold KeyUnique
  refine this.imp ?_
  intro a b hne hab
  exact hne (by rw [hab.1, hab.2])


/-! ### only a CALL sends INVOCATIONs -/

theorem syncError_no_invocation (s : DState) (callee : SessKey) (req : Nat) (details : Dict) (err : String)
    (args : List WVal) (kw : Dict) : ∀ x ∈ (syncError s callee req details err args kw).sends, x.msg.isInvocation = false := by
  unfold syncError
  simp only
  split
  · simp
  · split <;> simp [Msg.isInvocation]

theorem syncYield_no_invocation (env : DEnv) (s : DState) (callee : SessKey) (req : Nat) (opts : Dict)
    (args : List WVal) (kw : Dict) (progress canRetry : Bool) :
    ∀ x ∈ (syncYield env s callee req opts args kw progress canRetry).sends, x.msg.isInvocation = false := by
  unfold syncYield
  simp only
  split
  · split <;> simp [Msg.isInvocation]
  · split
    · simp
    · split
      · simp
      · split
        · simp [Msg.isInvocation, abortMsg]
        · split
          · cases progress <;> simp [Msg.isInvocation]
          · split
            · simp [Msg.isInvocation]
            · split
              · simp
              · exact syncCancel_no_invocation _ _ _ _ _ _ _

theorem syncRegister_no_invocation (s : DState) (callee : SessKey) (req : Nat) (proc m invoke : String)
    (disclose fwd wampURI : Bool) :
    ∀ x ∈ (syncRegister s callee req proc m invoke disclose fwd wampURI).sends, x.msg.isInvocation = false := by
  unfold syncRegister
  simp only
  split
  · simp [Msg.isInvocation]
  · split
    · simp [Msg.isInvocation, errMsg]
    · split
      · simp [Msg.isInvocation, errMsg]
      · split <;> simp [Msg.isInvocation, errMsg]

theorem syncUnregister_no_invocation (s : DState) (callee : SessKey) (req regId : Nat) :
    ∀ x ∈ (syncUnregister s callee req regId).sends, x.msg.isInvocation = false := by
  unfold syncUnregister
  simp only
  split <;> simp [Msg.isInvocation, errMsg]

/-- an INVOCATION is sent only by the CALL step -/
theorem DStep.invocation_is_call {s : DState} {o : DOut} (h : DealerInv s) (st : DStep s o) (x : Send)
    (hx : x ∈ o.sends) (hi : x.msg.isInvocation = true) :
    ∃ env caller req opts proc args kw rnd, o = syncCall env s caller req opts proc args kw rnd := by
  cases st with
  | register => rw [syncRegister_no_invocation _ _ _ _ _ _ _ _ _ x hx] at hi; cases hi
  | unregister => rw [syncUnregister_no_invocation _ _ _ _ x hx] at hi; cases hi
  | call env caller req opts proc args kw rnd => exact ⟨env, caller, req, opts, proc, args, kw, rnd, rfl⟩
  | cancel => rw [syncCancel_no_invocation _ _ _ _ _ _ _ x hx] at hi; cases hi
  | yield => rw [syncYield_no_invocation _ _ _ _ _ _ _ _ _ x hx] at hi; cases hi
  | error => rw [syncError_no_invocation _ _ _ _ _ _ _ x hx] at hi; cases hi
  | removeSession =>
    rw [syncRemoveSession_sends h] at hx
    rcases List.mem_map.1 hx with ⟨v, _, rfl⟩
    cases hi
  | dropTimers => cases hx

end Nexus.L2
