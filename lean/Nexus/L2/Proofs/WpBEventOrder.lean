/-
  C08 (realm level): the EVENTs one subscriber receives through one subscription arrive in publication-id order
  whatever broker-facing traffic of ANY sessions is interleaved (PUBLISH, SUBSCRIBE, UNSUBSCRIBE by anybody —
  including the meta events on `wamp.subscription.*` topics the broker itself publishes in SUBSCRIBE / UNSUBSCRIBE
  steps).  Generalises `C08_realm_event_order` (one publisher, publishes only) to `runB`.
-/
import Nexus.L2.Proofs.RealmPublish
import Nexus.L2.Proofs.BrokerHist

namespace Nexus.L2.WpB
open Nexus.L2 Nexus.L2.Realm Nexus.Gen.N

/-- the publication ids of the EVENTs of subscription `i` among the sends to `k`, in order -/
def evIds (ss : List Send) (k : SessKey) (i : Nat) : List Nat :=
  (through ss k i).filterMap (fun x => x.msg.eventPub?)

/-- strictly increasing ids, all in `[pubBase + lo, pubBase + hi)` -/
def IdsIn (lo hi : Nat) (l : List Nat) : Prop :=
  l.Pairwise (· < ·) ∧ ∀ n ∈ l, pubBase + lo ≤ n ∧ n < pubBase + hi

theorem IdsIn.nil (lo hi : Nat) : IdsIn lo hi [] := ⟨List.Pairwise.nil, fun _ h => nomatch h⟩

theorem IdsIn.single {lo hi p : Nat} (h1 : lo ≤ p) (h2 : p < hi) : IdsIn lo hi [pubBase + p] :=
  ⟨List.pairwise_singleton _ _, fun n hn => by rw [List.mem_singleton.1 hn]; omega⟩

theorem IdsIn.append {lo mid hi : Nat} {l1 l2 : List Nat} (h1 : IdsIn lo mid l1) (h2 : IdsIn mid hi l2)
    (hlm : lo ≤ mid) (hmh : mid ≤ hi) : IdsIn lo hi (l1 ++ l2) := by
  refine ⟨List.pairwise_append.2 ⟨h1.1, h2.1, fun a ha b hb => ?_⟩, fun n hn => ?_⟩
  · have := (h1.2 a ha).2
    have := (h2.2 b hb).1
    omega
  · rcases List.mem_append.1 hn with h | h
    · have := h1.2 n h; omega
    · have := h2.2 n h; omega

theorem IdsIn.sublist {lo hi : Nat} {l l' : List Nat} (h : IdsIn lo hi l) (hs : l'.Sublist l) : IdsIn lo hi l' :=
  ⟨h.1.sublist hs, fun n hn => h.2 n (hs.subset hn)⟩

theorem IdsIn.mono {lo hi lo' hi' : Nat} {l : List Nat} (h : IdsIn lo hi l) (h1 : lo' ≤ lo) (h2 : hi ≤ hi') :
    IdsIn lo' hi' l := ⟨h.1, fun n hn => by have := h.2 n hn; omega⟩

theorem evIds_append (a b : List Send) (k : SessKey) (i : Nat) : evIds (a ++ b) k i = evIds a k i ++ evIds b k i := by
  simp [evIds, through]

theorem evIds_nonevent {x : Send} (h : x.msg.eventSub? = none) (k : SessKey) (i : Nat) : evIds [x] k i = [] := by
  simp [evIds, through, h]

/-! ### one meta event reaches a (session, subscription) at most once -/

theorem filter_eq_of_nodup {α : Type} [DecidableEq α] {l : List α} (h : l.Nodup) (a : α) :
    (l.filter (· == a)).length ≤ 1 := by
  induction l with
  | nil => simp
  | cons x xs ih =>
    rw [List.nodup_cons] at h
    rw [List.filter_cons]
    split
    · rename_i hx
      have hxa : x = a := by simpa using hx
      have : xs.filter (· == a) = [] := by
        rw [List.filter_eq_nil_iff]
        intro y hy hya
        have : y = a := by simpa using hya
        exact h.1 (hxa ▸ this ▸ hy)
      rw [this]; simp
    · exact ih h.2

theorem filter_length_mono {α : Type} {p q : α → Bool} (h : ∀ a, p a = true → q a = true) :
    ∀ l : List α, (l.filter p).length ≤ (l.filter q).length
  | [] => Nat.le_refl _
  | a :: l => by
    rw [List.filter_cons, List.filter_cons]
    have ih := filter_length_mono h l
    cases hp : p a
    · simp only [Bool.false_eq_true, if_false]
      split
      · simp only [List.length_cons]; omega
      · exact ih
    · simp only [h a hp, if_true, List.length_cons]
      omega

/-- the subscriptions matching a topic have pairwise distinct ids -/
theorem matching_ids_nodup {b : Broker} (hb : BrokerInv b) (t : String) : ((b.matching t).map (·.1.id)).Nodup := by
  rw [matching_eq, List.map_map]
  have hsub : ∀ (p : Sub → Bool), ((b.subs.filter p).map (·.id)).Nodup := fun p => (List.filter_sublist.map _).nodup hb.ids_nodup
  have hcomp : ((fun x : Sub × Bool => x.1.id) ∘ fun s : Sub => (s, s.isPattern)) = fun s => s.id := rfl
  rw [hcomp, List.map_append, List.map_append]
  have hdis : ∀ (p q : Sub → Bool), (∀ s, p s = true → q s = true → False) →
      ∀ a ∈ (b.subs.filter p).map (·.id), ∀ c ∈ (b.subs.filter q).map (·.id), a ≠ c := by
    intro p q hpq a ha c hc hac
    obtain ⟨s1, hs1, rfl⟩ := List.mem_map.1 ha
    obtain ⟨s2, hs2, e⟩ := List.mem_map.1 hc
    have h1 := List.mem_filter.1 hs1
    have h2 := List.mem_filter.1 hs2
    have : s2 = s1 := eq_of_id_eq hb.ids_nodup h2.1 h1.1 (e.trans hac.symm)
    subst this
    exact hpq s2 h1.2 h2.2
  rw [List.nodup_append, List.nodup_append]
  refine ⟨⟨hsub _, hsub _, ?_⟩, hsub _, ?_⟩
  · refine hdis _ _ ?_
    intro s h1 h2
    simp only [Bool.and_eq_true, beq_iff_eq] at h1 h2
    rw [h1.1] at h2
    exact absurd h2.1 (by decide)
  · intro a ha c hc
    rcases List.mem_append.1 ha with ha | ha
    · refine hdis _ _ ?_ a ha c hc
      intro s h1 h2
      simp only [Bool.and_eq_true, beq_iff_eq] at h1 h2
      rw [h1.1] at h2
      exact absurd h2.1 (by decide)
    · refine hdis _ _ ?_ a ha c hc
      intro s h1 h2
      simp only [Bool.and_eq_true, beq_iff_eq] at h1 h2
      rw [h1.1] at h2
      exact absurd h2.1 (by decide)

theorem flatMap_length_le_one {α β : Type} (F : α → List β) : ∀ (l : List α) (key : α → Nat) (v : Nat),
    (l.map key).Nodup → (∀ a ∈ l, key a ≠ v → F a = []) → (∀ a ∈ l, (F a).length ≤ 1) → (l.flatMap F).length ≤ 1
  | [], _, _, _, _, _ => by simp
  | a :: l, key, v, hn, h0, h1 => by
    rw [List.map_cons, List.nodup_cons] at hn
    rw [List.flatMap_cons, List.length_append]
    by_cases ha : key a = v
    · have : l.flatMap F = [] := by
        rw [List.flatMap_eq_nil_iff]
        intro c hc
        apply h0 c (List.mem_cons_of_mem _ hc)
        intro hcv
        exact hn.1 (List.mem_map.2 ⟨c, hc, hcv.trans ha.symm⟩)
      rw [this]
      have := h1 a (List.mem_cons_self ..)
      simpa using this
    · rw [h0 a (List.mem_cons_self ..) ha]
      simpa using flatMap_length_le_one F l key v hn.2 (fun c hc => h0 c (List.mem_cons_of_mem _ hc))
        (fun c hc => h1 c (List.mem_cons_of_mem _ hc))

/-- one meta event: at most one EVENT per (recipient, subscription id), and it carries the event's publication id -/
theorem metaEvent_evIds {b : Broker} (hb : BrokerInv b) (t : String) (pid : Nat) (cause : SessKey) (args : List WVal)
    (k : SessKey) (i : Nat) :
    evIds (b.metaEvent t pid cause args) k i = [] ∨ evIds (b.metaEvent t pid cause args) k i = [pid] := by
  have hall : ∀ n ∈ evIds (b.metaEvent t pid cause args) k i, n = pid := by
    intro n hn
    unfold evIds at hn
    obtain ⟨x, hx, hxn⟩ := List.mem_filterMap.1 hn
    have hx' := (List.mem_filter.1 hx).1
    unfold Broker.metaEvent at hx'
    simp only [List.mem_flatMap, List.mem_map, List.mem_filter] at hx'
    obtain ⟨⟨msub, st⟩, _, k', _, rfl⟩ := hx'
    simpa [Msg.eventPub?] using hxn.symm
  have hlen : (evIds (b.metaEvent t pid cause args) k i).length ≤ 1 := by
    unfold evIds
    refine Nat.le_trans (List.length_filterMap_le _ _) ?_
    unfold through Broker.metaEvent
    rw [List.filter_flatMap]
    refine flatMap_length_le_one _ (b.matching t) (fun p => p.1.id) i (matching_ids_nodup hb t) ?_ ?_
    · rintro ⟨msub, st⟩ _ hne
      rw [List.filter_eq_nil_iff]
      intro x hx
      obtain ⟨k', _, rfl⟩ := List.mem_map.1 hx
      simp only [Msg.eventSub?, Bool.and_eq_true, beq_iff_eq, Option.some.injEq, not_and]
      intro _ h
      exact hne h
    · rintro ⟨msub, st⟩ hm
      have hs := ((mem_matching b t msub st).mp hm).1
      rw [List.filter_map]
      rw [List.length_map]
      refine Nat.le_trans ?_ (filter_eq_of_nodup (hb.members_nodup msub hs) k)
      rw [List.filter_filter]
      apply filter_length_mono
      intro k'
      simp only [Function.comp, Msg.eventSub?, Bool.and_eq_true, beq_iff_eq]
      intro h
      exact h.1.1
  match h : evIds (b.metaEvent t pid cause args) k i, hall, hlen with
  | [], _, _ => exact Or.inl rfl
  | [n], hall', _ => exact Or.inr (by rw [hall' n (List.mem_singleton.2 rfl)])
  | _ :: _ :: _, _, hlen' => simp at hlen'

theorem idsIn_of_alt {lo hi p : Nat} {l : List Nat} (h : l = [] ∨ l = [pubBase + p]) (h1 : lo ≤ p) (h2 : p < hi) :
    IdsIn lo hi l := by
  rcases h with rfl | rfl
  · exact IdsIn.nil _ _
  · exact IdsIn.single h1 h2

/-! ### the three broker-facing steps -/

theorem syncSubscribe_evIds {b : Broker} (hb : BrokerInv b) (k0 : SessKey) (req : Nat) (topic m : String) (pub0 : Nat)
    (k : SessKey) (i : Nat) :
    IdsIn pub0 (pub0 + (b.syncSubscribe k0 req topic m pub0).2.2) (evIds (b.syncSubscribe k0 req topic m pub0).2.1 k i) := by
  have hb' := hb.subscribe k0 req topic m pub0
  revert hb'
  unfold Broker.syncSubscribe
  split
  · rename_i sub _
    split
    · intro _
      rw [evIds_nonevent rfl]
      exact IdsIn.nil _ _
    · intro hb'
      rw [evIds_append, evIds_nonevent rfl, List.nil_append]
      exact idsIn_of_alt (metaEvent_evIds hb' _ _ _ _ k i) (Nat.le_refl _) (by first | omega | (dsimp only; omega))
  · intro hb'
    rw [evIds_append, evIds_append, evIds_nonevent rfl, List.nil_append]
    have h1 := idsIn_of_alt (lo := pub0) (hi := pub0 + 1) (metaEvent_evIds hb' MetaEventSubOnCreate (pubBase + pub0) k0
      [sidVal k0, subDetailsDict { id := b.nextSub + 1, topic := topic, «match» := m, members := [k0] }] k i)
      (Nat.le_refl _) (by first | omega | (dsimp only; omega))
    have h2 := idsIn_of_alt (lo := pub0 + 1) (hi := pub0 + 2) (p := pub0 + 1)
      (by
        have := metaEvent_evIds hb' MetaEventSubOnSubscribe (pubBase + pub0 + 1) k0 [sidVal k0, .int (b.nextSub + 1)] k i
        rw [Nat.add_assoc] at this
        exact this) (Nat.le_refl _) (by first | omega | (dsimp only; omega))
    exact h1.append h2 (by first | omega | (dsimp only; omega)) (by first | omega | (dsimp only; omega))

theorem syncUnsubscribe_evIds {b : Broker} (hb : BrokerInv b) (k0 : SessKey) (req subId pub0 : Nat)
    (k : SessKey) (i : Nat) :
    IdsIn pub0 (pub0 + (b.syncUnsubscribe k0 req subId pub0).2.2) (evIds (b.syncUnsubscribe k0 req subId pub0).2.1 k i) := by
  have hb' := hb.unsubscribe k0 req subId pub0
  revert hb'
  unfold Broker.syncUnsubscribe
  split
  · intro _
    rw [evIds_nonevent rfl]
    exact IdsIn.nil _ _
  · rename_i sub _
    split
    · intro _
      rw [evIds_nonevent rfl]
      exact IdsIn.nil _ _
    · simp only
      split
      · intro hb'
        rw [evIds_append, evIds_append, evIds_nonevent rfl, List.nil_append]
        have h1 := idsIn_of_alt (lo := pub0) (hi := pub0 + 1)
          (metaEvent_evIds hb' MetaEventSubOnUnsubscribe (pubBase + pub0) k0 [sidVal k0, .int subId] k i)
          (Nat.le_refl _) (by first | omega | (dsimp only; omega))
        have h2 := idsIn_of_alt (lo := pub0 + 1) (hi := pub0 + 2) (p := pub0 + 1)
          (by
            have := metaEvent_evIds hb' MetaEventSubOnDelete (pubBase + pub0 + 1) k0 [sidVal k0, .int subId] k i
            rw [Nat.add_assoc] at this
            exact this) (Nat.le_refl _) (by first | omega | (dsimp only; omega))
        exact h1.append h2 (by first | omega | (dsimp only; omega)) (by first | omega | (dsimp only; omega))
      · intro hb'
        rw [evIds_append, evIds_nonevent rfl, List.nil_append]
        exact idsIn_of_alt (metaEvent_evIds hb' _ _ _ _ k i) (Nat.le_refl _) (by first | omega | (dsimp only; omega))

/-- what one broker-facing step does to the EVENTs of subscription `i` in the queue of the attached client `k` -/
structure StepOk (k : SessKey) (c : Session) (i : Nat) (r r' : Realm) : Prop where
  binv : BrokerInv r'.broker
  client : r'.client? k = some c
  mono : r.pubCount ≤ r'.pubCount
  events : ∃ ids, eventsOf i (r'.queueOf k) = eventsOf i (r.queueOf k) ++ ids ∧ IdsIn r.pubCount r'.pubCount ids

/-- a step `{ r with broker, pubCount }.deliver ss` whose EVENT ids for (k, i) are in range -/
theorem stepOk_brokerStep {r : Realm} {k : SessKey} {c : Session} (hk : k ≠ metaKey) (hc : r.client? k = some c) (i : Nat)
    (b : Broker) (n : Nat) (ss : List Send) (hb : BrokerInv b) (hn : r.pubCount ≤ n)
    (hids : IdsIn r.pubCount n (evIds ss k i)) :
    StepOk k c i r (({ r with pubCount := n, broker := b } : Realm).deliver ss) := by
  obtain ⟨f1, f2, f3, _⟩ := brokerStep_frame r b n ss
  refine ⟨by rw [f1]; exact hb, by unfold client?; rw [f3]; exact hc, by rw [f2]; exact hn, ?_⟩
  rw [brokerStep_queue r b n ss k c hk hc, f2]
  obtain ⟨added, e, hs⟩ := accept_sublist c.cap (msgsTo k ss) (r.queueOf k)
  refine ⟨added.filterMap (evPubOf i), ?_, ?_⟩
  · unfold eventsOf
    rw [e, List.filterMap_append]
  · refine hids.sublist ?_
    have := hs.filterMap (evPubOf i)
    rw [msgsTo_events] at this
    exact this

theorem handleB_stepOk {r : Realm} (hb : BrokerInv r.broker) (m : BMsg) {k : SessKey} {c : Session} (hk : k ≠ metaKey)
    (hc : r.client? k = some c) (i : Nat) : StepOk k c i r (handleB r m) := by
  cases m with
  | publish s x =>
    obtain ⟨h1, h2, _, h4, added, e, hs⟩ := handlePublish_step hb s x k c hk hc i
    refine ⟨h1, h2, h4, added.filterMap (evPubOf i), ?_, ?_⟩
    · show eventsOf i ((handlePublish r s x.req x.opts x.topic x.args x.kw).queueOf k) = _
      unfold eventsOf
      rw [e, List.filterMap_append]
    · show IdsIn r.pubCount (handlePublish r s x.req x.opts x.topic x.args x.kw).pubCount _
      split at hs
      · rw [List.sublist_nil.1 hs]; exact IdsIn.nil _ _
      · rename_i hne
        exact (IdsIn.single (Nat.le_refl _) (by first | omega | (dsimp only; omega))).sublist hs
  | subscribe s req opts topic =>
    show StepOk k c i r (handleSubscribe r s req opts topic)
    by_cases hv : validUri r.broker.strict (opts.optString OptMatch) topic = true
    · rw [handleSubscribe_ok r s req opts topic hv]
      exact stepOk_brokerStep hk hc i _ _ _ (hb.subscribe _ _ _ _ _) (Nat.le_add_right _ _)
        (syncSubscribe_evIds hb s.key req topic (opts.optString OptMatch) r.pubCount k i)
    · have hv' : validUri r.broker.strict (opts.optString OptMatch) topic = false := by simpa using hv
      rw [handleSubscribe_invalid r s req opts topic hv']
      have := stepOk_brokerStep (r := r) hk hc i r.broker r.pubCount [⟨s.key, invalidUriErr tSUBSCRIBE req⟩] hb
        (Nat.le_refl _) (by rw [evIds_nonevent rfl]; exact IdsIn.nil _ _)
      exact this
  | unsubscribe s req sub =>
    show StepOk k c i r (handleUnsubscribe r s req sub)
    rw [handleUnsubscribe_eq]
    exact stepOk_brokerStep hk hc i _ _ _ (hb.unsubscribe _ _ _ _) (Nat.le_add_right _ _)
      (syncUnsubscribe_evIds hb s.key req sub r.pubCount k i)

/-- PER-SUBSCRIPTION EVENT ORDER UNDER ANY BROKER TRAFFIC.  From any realm state whose broker satisfies `BrokerInv`,
    let ANY sessions send any sequence `l` of PUBLISH / SUBSCRIBE / UNSUBSCRIBE messages, handled in that order.  For an
    attached client `k` and a subscription id `i`: the EVENTs of `i` in `k`'s queue afterwards are those from before
    followed by `added`, whose publication ids are STRICTLY INCREASING in queue order and all drawn during this run
    (`pubBase + r.pubCount ≤ n < pubBase + (runB r l).pubCount`).  Since publication ids are drawn in the order the
    broker handles the publications (`C08_realm_event_order`: the id of the j-th accepted PUBLISH), events reach each
    subscriber, per subscription, in publication order — regardless of what any other session does in between, bounded
    queues (lost EVENTs) included. -/
theorem realm_event_order_any {r : Realm} (hb : BrokerInv r.broker) (l : List BMsg) (k : SessKey) (c : Session)
    (hk : k ≠ metaKey) (hc : r.client? k = some c) (i : Nat) :
    r.pubCount ≤ (runB r l).pubCount ∧
    ∃ added, eventsOf i ((runB r l).queueOf k) = eventsOf i (r.queueOf k) ++ added ∧ added.Pairwise (· < ·) ∧
      ∀ n ∈ added, pubBase + r.pubCount ≤ n ∧ n < pubBase + (runB r l).pubCount := by
  induction l generalizing r with
  | nil => exact ⟨Nat.le_refl _, [], by simp [runB], List.Pairwise.nil, fun _ h => nomatch h⟩
  | cons m rest ih =>
    obtain ⟨h1, h2, h3, ids, e1, hi1⟩ := handleB_stepOk hb m hk hc i
    obtain ⟨g1, added, e2, _, _⟩ := ih h1 h2
    have hi2 : IdsIn (handleB r m).pubCount (runB (handleB r m) rest).pubCount added := ⟨by assumption, by assumption⟩
    have hall := hi1.append hi2 h3 g1
    refine ⟨Nat.le_trans h3 g1, ids ++ added, ?_, hall.1, hall.2⟩
    show eventsOf i ((runB (handleB r m) rest).queueOf k) = _
    rw [e2, e1, List.append_assoc]

end Nexus.L2.WpB

namespace Nexus.C08
open Nexus.L2 Nexus.L2.Realm

/-- C08 at realm level, any interleaving of broker-facing traffic: see `Nexus.L2.WpB.realm_event_order_any`. -/
theorem C08_realm_event_order_any {r : Realm} (hb : BrokerInv r.broker) (l : List BMsg) (k : SessKey) (c : Session)
    (hk : k ≠ metaKey) (hc : r.client? k = some c) (i : Nat) :
    ∃ added, eventsOf i ((runB r l).queueOf k) = eventsOf i (r.queueOf k) ++ added ∧ added.Pairwise (· < ·) ∧
      ∀ n ∈ added, pubBase + r.pubCount ≤ n ∧ n < pubBase + (runB r l).pubCount :=
  (Nexus.L2.WpB.realm_event_order_any hb l k c hk hc i).2

/-- the hypotheses are met, and EVENTs do arrive: session 2 subscribes to "t", then session 1 publishes twice with a
    SUBSCRIBE of session 3 in between: session 2's queue holds the two EVENTs of subscription 1 in publication order -/
example :
    let s1 : Session := { key := 1, details := [], roles := [], isLocal := false }
    let s2 : Session := { key := 2, details := [], roles := [], isLocal := false }
    let s3 : Session := { key := 3, details := [], roles := [], isLocal := false }
    let r : Realm := { clients := [s1, s2, s3] }
    BrokerInv r.broker ∧ r.client? 2 = some s2 ∧
    eventsOf 1 ((runB r [.subscribe s2 1 [] "t", .publish s1 ⟨1, [], "t", [], []⟩, .subscribe s3 1 [] "u",
      .publish s1 ⟨2, [], "t", [], []⟩]).queueOf 2) = [pubBase + 2, pubBase + 5] := by
  intro s1 s2 s3 r
  exact ⟨BrokerInv.empty false false, rfl, by decide +kernel⟩

end Nexus.C08
