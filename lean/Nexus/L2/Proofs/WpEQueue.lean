/-
  WP-E: WHAT AN ATOMIC ACTION APPENDS TO THE QUEUES.

  `accepts r s`: `trySend` would append `s.msg` to the queue of `s.to` (an attached client whose queue is
  not full).  `taken r ss`: the offers of `ss` that are appended when `ss` is delivered in order from `r`
  — a sub-list of `ss`.  Then

    (r.deliver ss).queueOf k = r.queueOf k ++ msgsTo k (taken r ss)              (`queueOf_deliver`)
    every message in a queue of `r.deliver ss` was there before or is taken    (`deliver_entries`)

  and for every atomic action `x` but `flush` (`Rec.enqueued x = taken x.pre x.script.offers`):

    x.post.queueOf k = x.pre.queueOf k ++ msgsTo k x.enqueued                    (`Rec.queueOf_post`)

  while `flush` only removes (`flush_entries`: every queue it leaves, and every queue it shows to
  the clients, is a queue of the state before, or empty).
-/
import Nexus.L2.Proofs.WpETrace

namespace Nexus.L2.WpE
open Nexus.L2 Nexus.L2.Realm Gen.N

/-- `trySend` appends the message: the recipient is an attached client with room in its queue -/
def accepts (r : Realm) (s : Send) : Bool :=
  s.to != metaKey &&
    (match r.client? s.to with
     | some c => decide (r.queueLen s.to < c.cap)
     | none => false)

theorem trySend_queues_eq (r : Realm) (s : Send) :
    (r.trySend s).queues = if accepts r s then enq r.queues s.to s.msg else r.queues := by
  unfold accepts
  by_cases hm : s.to = metaKey
  · rw [(trySend_meta r s hm).1]
    simp [hm]
  · have hne : (s.to != metaKey) = true := by simpa using hm
    cases hc : r.client? s.to with
    | none =>
      rw [trySend_noclient r s hm hc, setPanic_queues]
      simp
    | some c =>
      rw [trySend_client r s hm hc]
      simp only [hne, Bool.true_and]
      by_cases hfull : r.queueLen s.to ≥ c.cap
      · rw [if_pos hfull, if_neg]
        simp; omega
      · rw [if_neg hfull, if_pos]
        simp; omega

/-- the offers that are appended to a queue when `ss` is delivered in order from `r` -/
def taken (r : Realm) : List Send → List Send
  | [] => []
  | s :: ss => (if accepts r s then [s] else []) ++ taken (r.trySend s) ss

theorem taken_sublist : ∀ (ss : List Send) (r : Realm), (taken r ss).Sublist ss
  | [], _ => List.Sublist.refl _
  | s :: ss, r => by
    unfold taken
    split
    · exact (taken_sublist ss _).cons_cons s
    · exact (taken_sublist ss _).cons s

theorem taken_mem {ss : List Send} {r : Realm} {x : Send} (h : x ∈ taken r ss) : x ∈ ss :=
  (taken_sublist ss r).subset h

theorem taken_append (a b : List Send) (r : Realm) : taken r (a ++ b) = taken r a ++ taken (r.deliver a) b := by
  induction a generalizing r with
  | nil => rfl
  | cons s a ih =>
    simp only [List.cons_append, taken, deliver_cons, ih, List.append_assoc]

theorem qlook_enq' (qs : List (SessKey × List Msg)) (k k' : SessKey) (m : Msg) :
    qlook (enq qs k m) k' = qlook qs k' ++ (if k = k' then [m] else []) := by
  rw [qlook_enq]
  by_cases h : k' = k
  · subst h; simp
  · have : ¬ k = k' := fun e => h e.symm
    simp [h, this]

theorem queueOf_trySend' (r : Realm) (s : Send) (k : SessKey) :
    (r.trySend s).queueOf k = r.queueOf k ++ msgsTo k (if accepts r s then [s] else []) := by
  rw [queueOf_eq, trySend_queues_eq]
  split
  · rw [qlook_enq', queueOf_eq]
    unfold msgsTo
    by_cases h : s.to = k <;> simp [h]
  · simp [msgsTo, queueOf_eq]

/-- the queue of `k` after a list of offers: what was there, then the offers to `k` that were taken -/
theorem queueOf_deliver : ∀ (ss : List Send) (r : Realm) (k : SessKey),
    (r.deliver ss).queueOf k = r.queueOf k ++ msgsTo k (taken r ss)
  | [], r, k => by simp [deliver_nil, taken, msgsTo]
  | s :: ss, r, k => by
    rw [deliver_cons, queueOf_deliver ss, queueOf_trySend']
    show _ = r.queueOf k ++ msgsTo k ((if accepts r s then [s] else []) ++ taken (r.trySend s) ss)
    rw [msgsTo_append, List.append_assoc]

theorem enq_entries (qs : List (SessKey × List Msg)) (k : SessKey) (m : Msg) :
    ∀ q ∈ enq qs k m, ∀ m' ∈ q.2, (∃ q0 ∈ qs, q0.1 = q.1 ∧ m' ∈ q0.2) ∨ (q.1 = k ∧ m' = m) := by
  intro q hq m' hm'
  unfold enq at hq
  split at hq
  · obtain ⟨q0, hq0, rfl⟩ := List.mem_map.mp hq
    by_cases e : (q0.1 == k) = true
    · simp only [e, if_true] at hm' ⊢
      rcases List.mem_append.mp hm' with h | h
      · exact Or.inl ⟨q0, hq0, rfl, h⟩
      · exact Or.inr ⟨by simpa using e, List.mem_singleton.mp h⟩
    · simp only [e] at hm' ⊢
      exact Or.inl ⟨q0, hq0, rfl, hm'⟩
  · rcases List.mem_append.mp hq with h | h
    · exact Or.inl ⟨q, h, rfl, hm'⟩
    · rw [List.mem_singleton.mp h] at hm' ⊢
      exact Or.inr ⟨rfl, List.mem_singleton.mp hm'⟩

/-- every message in a queue after a list of offers was in a queue of that session before, or is an offer that
    was taken -/
theorem deliver_entries : ∀ (ss : List Send) (r : Realm), ∀ q ∈ (r.deliver ss).queues, ∀ m ∈ q.2,
    (∃ q0 ∈ r.queues, q0.1 = q.1 ∧ m ∈ q0.2) ∨ (⟨q.1, m⟩ : Send) ∈ taken r ss
  | [], r, q, hq, m, hm => Or.inl ⟨q, hq, rfl, hm⟩
  | s :: ss, r, q, hq, m, hm => by
    rw [deliver_cons] at hq
    unfold taken
    rcases deliver_entries ss (r.trySend s) q hq m hm with ⟨q0, hq0, hk, hm0⟩ | h
    · rw [trySend_queues_eq] at hq0
      split at hq0
      · rename_i ha
        rcases enq_entries r.queues s.to s.msg q0 hq0 m hm0 with ⟨q1, hq1, hk1, hm1⟩ | ⟨hk1, hm1⟩
        · exact Or.inl ⟨q1, hq1, hk1.trans hk, hm1⟩
        · right
          rw [if_pos ha]
          refine List.mem_append_left _ (List.mem_singleton.mpr ?_)
          cases s
          simp only at hk1 hm1
          rw [← hk, hk1, hm1]
      · exact Or.inl ⟨q0, hq0, hk, hm0⟩
    · exact Or.inr (List.mem_append_right _ h)

/-! ### atomic actions -/

/-- the offers of the action that are appended to a queue -/
def Rec.enqueued (x : Rec) : List Send := taken x.pre x.script.offers

theorem Rec.enqueued_offers {x : Rec} {s : Send} (h : s ∈ x.enqueued) : s ∈ x.script.offers := taken_mem h

theorem newQueue_qlook (x : Rec) (qs : List (SessKey × List Msg)) (k : SessKey) :
    qlook (qs ++ x.newQueue) k = qlook qs k := by
  rw [qlook_append]
  split
  · rfl
  · have : ∀ q ∈ x.newQueue, q.2 = [] := by
      intro q hq
      unfold Rec.newQueue at hq
      split at hq
      · rename_i o _
        unfold opQueue at hq
        split at hq
        · split at hq
          · cases hq
          · rw [List.mem_singleton.mp hq]
        · cases hq
      · cases hq
    rw [qlook_all_empty this]
    rename_i h
    have h' : ∀ q ∈ qs, q.1 ≠ k := by
      intro q hq e
      apply h
      exact List.any_eq_true.mpr ⟨q, hq, by simpa using e⟩
    exact (qlook_of_not_mem h').symm

/-- EVERY ATOMIC ACTION but `flush` extends the queue of each session `k` by the offers to `k` that were taken -/
theorem Rec.queueOf_post (x : Rec) (hf : x.act.isFlush = false) (k : SessKey) :
    x.post.queueOf k = x.pre.queueOf k ++ msgsTo k x.enqueued := by
  rw [queueOf_eq, (x.spec).2.2.2 hf, newQueue_qlook, ← queueOf_eq, queueOf_deliver]
  rfl

/-- … and every message in a queue afterwards was in a queue of that session before, or is a taken offer -/
theorem Rec.entries_post (x : Rec) (hf : x.act.isFlush = false) : ∀ q ∈ x.post.queues, ∀ m ∈ q.2,
    (∃ q0 ∈ x.pre.queues, q0.1 = q.1 ∧ m ∈ q0.2) ∨ (⟨q.1, m⟩ : Send) ∈ x.enqueued := by
  intro q hq m hm
  rw [(x.spec).2.2.2 hf] at hq
  rcases List.mem_append.mp hq with h | h
  · exact deliver_entries _ _ q h m hm
  · exfalso
    unfold Rec.newQueue at h
    split at h
    · unfold opQueue at h
      split at h
      · split at h
        · cases h
        · rw [List.mem_singleton.mp h] at hm; cases hm
      · cases h
    · cases h

/-- `flush` only removes: every queue it leaves is a queue of the state before or empty, and every queue the
    clients read is a queue of the state before -/
theorem flush_entries (r : Realm) :
    (∀ q ∈ r.flush.2.queues, q ∈ r.queues ∨ q.2 = []) ∧ (∀ q ∈ r.flush.1.out, q ∈ r.queues) := by
  unfold Realm.flush
  extract_lets reading out seenClosed keep keepEmpty
  refine ⟨?_, ?_⟩
  · intro q hq
    rcases List.mem_append.mp hq with h | h
    · exact Or.inl (List.mem_filter.mp h).1
    · obtain ⟨q0, _, rfl⟩ := List.mem_map.mp h
      exact Or.inr rfl
  · intro q hq
    exact (List.mem_filter.mp hq).1

end Nexus.L2.WpE
